"""Driver-side machinery shared by all checks: chunked parallel exploration with
process isolation, sanitizer-report keying, known-findings routing, evidence files."""
import concurrent.futures as cf
import hashlib
import json
import os
import re
import subprocess
import sys
import tempfile
import time

VERIF = os.path.dirname(os.path.dirname(os.path.abspath(__file__)))
REPLAYS = os.path.join(VERIF, "replays")
EVIDENCE = os.path.join(VERIF, "evidence")
SCRATCH = os.path.join(VERIF, "build", "scratch")

SAN_ENV = {
    "ASAN_OPTIONS": "abort_on_error=1:halt_on_error=1:detect_leaks=1:allocator_may_return_null=1:"
                    "detect_stack_use_after_return=0:handle_abort=1:max_malloc_fill_size=4096:"
                    "quarantine_size_mb=16:malloc_context_size=12",
    "UBSAN_OPTIONS": "print_stacktrace=1:halt_on_error=1:abort_on_error=1",
    "LSAN_OPTIONS": "exitcode=23:max_leaks=5",
    "TSAN_OPTIONS": "halt_on_error=0:second_deadlock_stack=1:history_size=4:exitcode=66",
    "MSAN_OPTIONS": "abort_on_error=1:halt_on_error=1",
}

ALLOC_WRAPPERS = {"default_malloc", "default_realloc", "default_free", "ares_malloc", "ares_realloc",
                  "ares_free", "ares_malloc_zero", "ares_realloc_zero", "ares_strdup"}
FRAME_RE = re.compile(r"^\s*#(\d+) 0x[0-9a-f]+ (?:in )?(\S+)(?: (\S+))?")


def _lib_frames(lines, limit=3):
    """Innermost frames located in the c-ares library sources, function names only."""
    out = []
    for ln in lines:
        m = FRAME_RE.match(ln)
        if not m:
            if out or not ln.strip():
                if ln.strip() == "" and out:
                    break
            continue
        fn, loc = m.group(2), m.group(3) or ""
        if fn in ALLOC_WRAPPERS:
            continue
        if "/src/lib/" in loc and "/harness/" not in loc:
            out.append(fn)
            if len(out) >= limit:
                break
    return out


def _harness_frames(lines, limit=2):
    """Innermost frames located in harness sources (the harness touched memory the library handed it)."""
    out = []
    for ln in lines:
        m = FRAME_RE.match(ln)
        if not m:
            continue
        fn, loc = m.group(2), m.group(3) or ""
        if "/harness/" in loc and not fn.startswith("__"):
            out.append(fn)
            if len(out) >= limit:
                break
    return out


def _first_stack(lines, start):
    """Lines of the first stack block at or after index start."""
    blk = []
    started = False
    for ln in lines[start:start + 80]:
        if FRAME_RE.match(ln):
            started = True
            blk.append(ln)
        elif started:
            break
    return blk


def sanitizer_keys(text):
    """Reduce sanitizer / abort output to a list of violation keys (usually one)."""
    keys = []
    lines = text.splitlines()
    for i, ln in enumerate(lines):
        m = re.search(r"ERROR: AddressSanitizer: (\S+)", ln)
        if m:
            kind = m.group(1).rstrip(":")
            if kind == "attempting":
                mm = re.search(r"AddressSanitizer: attempting (\S+)", ln)
                kind = mm.group(1) if mm else kind
            stk = _first_stack(lines, i)
            fr = _lib_frames(stk)
            if not fr:
                hf = _harness_frames(stk)
                fr = ["harness"] + hf if hf else []
            keys.append("asan:%s:%s" % (kind, "<".join(fr) or "?"))
            continue
        m = re.search(r"runtime error: (.*)$", ln)
        if m:
            msg = re.sub(r"'[^']*'", "", m.group(1))
            msg = re.sub(r"0x[0-9a-f]+|-?\d+", "", msg)
            kind = "-".join(msg.split()[:5])
            fr = _lib_frames(_first_stack(lines, i))
            if not fr:
                mm = re.match(r"^(\S+?):\d+", ln)
                fr = [os.path.basename(mm.group(1))] if mm else []
            keys.append("ubsan:%s:%s" % (kind, "<".join(fr) or "?"))
            continue
        if "ERROR: LeakSanitizer: detected memory leaks" in ln:
            # one key per leak block
            j = i + 1
            while j < len(lines):
                if re.match(r"^(Direct|Indirect) leak of", lines[j]):
                    direct = lines[j].startswith("Direct")
                    fr = _lib_frames(_first_stack(lines, j))
                    if direct:
                        keys.append("lsan:leak:%s" % ("<".join(fr) or "?"))
                j += 1
            continue
        m = re.search(r"WARNING: ThreadSanitizer: ([^(]+)", ln)
        if m:
            kind = "-".join(m.group(1).strip().split())
            # collect up to two stacks (both sides of a race)
            stacks = []
            j = i + 1
            while j < len(lines) and len(stacks) < 2 and not lines[j].startswith("SUMMARY"):
                if FRAME_RE.match(lines[j]):
                    blk = _first_stack(lines, j)
                    fr = _lib_frames(blk, 2)
                    stacks.append("<".join(fr) or "?")
                    j += len(blk)
                else:
                    j += 1
            stacks.sort()
            keys.append("tsan:%s:%s" % (kind, "|".join(stacks)))
            continue
        m = re.search(r"ERROR: MemorySanitizer: (\S+)", ln)
        if m:
            fr = _lib_frames(_first_stack(lines, i))
            keys.append("msan:%s:%s" % (m.group(1), "<".join(fr) or "?"))
            continue
        m = re.search(r"Assertion [`'](.*)' failed", ln)
        if m:
            keys.append("abort:assert:%s" % re.sub(r"\s+", "_", m.group(1))[:60])
            continue
        m = re.search(r"ERROR: libFuzzer: (\S+)", ln)
        if m:
            keys.append("fuzz:%s" % m.group(1))
    # an abort raised by UBSan/assert is also seen by ASan's SIGABRT handler: keep the real report only
    if any(not k.startswith("asan:ABRT") for k in keys):
        keys = [k for k in keys if not k.startswith("asan:ABRT")]
    # de-duplicate preserving order
    seen, out = set(), []
    for k in keys:
        if k not in seen:
            seen.add(k)
            out.append(k)
    return out


class Known:
    def __init__(self, path=None):
        path = path or os.path.join(VERIF, "known_findings.json")
        try:
            self.entries = json.load(open(path)).get("findings", [])
        except (OSError, ValueError):
            self.entries = []
        # additional committed lists, one file per engine (same format)
        ddir = os.path.join(VERIF, "known_findings.d")
        if os.path.isdir(ddir):
            for fn in sorted(os.listdir(ddir)):
                if fn.endswith(".json"):
                    try:
                        self.entries += json.load(open(os.path.join(ddir, fn))).get("findings", [])
                    except (OSError, ValueError):
                        pass

    def match(self, prop, key):
        for e in self.entries:
            if e.get("status") != "open" or e.get("property") != prop:
                continue
            for pat in e.get("keys", []):
                if pat.endswith("*"):
                    if key.startswith(pat[:-1]):
                        return e
                elif key == pat:
                    return e
        return None


class Result:
    def __init__(self):
        self.evaluations = 0
        self.fps = set()
        self.counters = {}
        self.samples = []
        self.violations = []   # dict(key, idx, detail, log, spec)
        self.inconclusive = {}
        self.harness_errors = []

    def merge(self, o):
        self.evaluations += o.evaluations
        self.fps |= o.fps
        for k, v in o.counters.items():
            self.counters[k] = self.counters.get(k, 0) + v
        self.samples += o.samples
        self.violations += o.violations
        for k, v in o.inconclusive.items():
            self.inconclusive[k] = self.inconclusive.get(k, 0) + v
        self.harness_errors += o.harness_errors


def _run_chunk(spec, first, count, timeout):
    """Run one worker over [first, first+count); returns parsed outcome."""
    cmd = [spec["binary"], "--profile", spec["profile"], "--seed", str(spec["seed"]),
           "--first", str(first), "--count", str(count)]
    for k, v in spec.get("opts", {}).items():
        cmd += ["--opt", "%s=%s" % (k, v)]
    env = dict(os.environ)
    env.update(SAN_ENV)
    env.update(spec.get("env", {}))
    os.makedirs(SCRATCH, exist_ok=True)
    with tempfile.TemporaryFile(dir=SCRATCH) as errf:
        t0 = time.time()
        try:
            p = subprocess.run(cmd, stdout=subprocess.PIPE, stderr=errf, env=env,
                               timeout=timeout, cwd=spec.get("cwd", SCRATCH))
            rc, out, timed_out = p.returncode, p.stdout, False
        except subprocess.TimeoutExpired as e:
            rc, out, timed_out = -999, e.stdout or b"", True
        errf.seek(0)
        err = errf.read().decode("utf-8", "replace")
    return dict(rc=rc, out=out.decode("utf-8", "replace"), err=err, timed_out=timed_out,
                first=first, count=count, wall=time.time() - t0)


def _parse(out):
    r = Result()
    last = None
    ended = False
    for ln in out.splitlines():
        if not ln:
            continue
        t = ln[0]
        if t == "C":
            last = int(ln[2:])
            r.evaluations += 1
        elif t == "V":
            m = re.match(r"V (\d+) (\S+) \| ?(.*)", ln)
            if m:
                r.violations.append(dict(idx=int(m.group(1)), key=m.group(2), detail=m.group(3)))
        elif t == "I":
            parts = ln.split(" ", 2)
            reason = parts[2] if len(parts) > 2 else "?"
            r.inconclusive[reason] = r.inconclusive.get(reason, 0) + 1
        elif t == "F":
            for h in ln[2:].split():
                r.fps.add(int(h, 16))
        elif t == "N":
            parts = ln.split()
            if len(parts) == 3:
                r.counters[parts[1]] = r.counters.get(parts[1], 0) + int(parts[2])
        elif t == "X":
            try:
                r.samples.append(json.loads(ln[2:]))
            except ValueError:
                r.samples.append(ln[2:])
        elif t == "E" and ln.strip() == "E":
            ended = True
    return r, last, ended


def explore(spec, total, chunk=250, workers=16, chunk_timeout=300, first=0, max_samples=6,
            stop_after_violations=40):
    """Run cases [first, first+total) of a harness in chunks over a process pool.

    A worker that dies is attributed to the case it announced last; that case becomes a
    violation keyed from the sanitizer log and the rest of its chunk is re-run from the next
    case, so one defect does not mask the others."""
    res = Result()
    pending = []
    i = first
    while i < first + total:
        n = min(chunk, first + total - i)
        pending.append((i, n, 0))
        i += n
    with cf.ThreadPoolExecutor(workers) as ex:
        futs = {ex.submit(_run_chunk, spec, f, n, chunk_timeout): (f, n, a) for f, n, a in pending}
        while futs:
            done, _ = cf.wait(list(futs), return_when=cf.FIRST_COMPLETED)
            for fu in done:
                f, n, attempt = futs.pop(fu)
                o = fu.result()
                r, last, ended = _parse(o["out"])
                for v in r.violations:
                    v["spec"] = spec
                    v["log"] = ""
                if ended and o["rc"] == 0:
                    res.merge(r)
                    continue
                # abnormal termination
                keys = sanitizer_keys(o["err"])
                if last is None:
                    # died before announcing any case: harness failure (or startup crash)
                    res.merge(r)
                    res.harness_errors.append("worker died before first case rc=%s: %s" %
                                              (o["rc"], o["err"][-800:]))
                    continue
                if o["timed_out"]:
                    if n == 1 and attempt >= 1:
                        keys = keys or ["hang:%s:%s" % (os.path.basename(spec["binary"]).split("-")[0],
                                                        spec["profile"])]
                    else:
                        # re-run the announced case alone once before calling it a hang
                        res.merge(r)
                        res.evaluations -= 1
                        futs[ex.submit(_run_chunk, spec, last, 1, chunk_timeout)] = (last, 1, attempt + 1)
                        rest = f + n - (last + 1)
                        if rest > 0:
                            futs[ex.submit(_run_chunk, spec, last + 1, rest, chunk_timeout)] = \
                                (last + 1, rest, 0)
                        continue
                if not keys:
                    if ended and o["rc"] == 23:
                        keys = ["lsan:leak:?"]
                    else:
                        keys = ["abort:rc%s:%s" % (o["rc"], spec["profile"])]
                res.merge(r)
                if ended:
                    # leak / race reports at exit cannot be attributed to one case in the chunk;
                    # bisect by re-running halves, down to single cases
                    if n > 1:
                        res.evaluations -= r.evaluations
                        res.fps -= r.fps
                        for k, v in r.counters.items():
                            res.counters[k] -= v
                        res.violations = [v for v in res.violations if v not in r.violations]
                        h = n // 2
                        futs[ex.submit(_run_chunk, spec, f, h, chunk_timeout)] = (f, h, 0)
                        futs[ex.submit(_run_chunk, spec, f + h, n - h, chunk_timeout)] = (f + h, n - h, 0)
                        continue
                    last = f
                for k in keys:
                    res.violations.append(dict(idx=last, key=k, detail="worker terminated rc=%s" % o["rc"],
                                               log=o["err"][-6000:], spec=spec))
                if not ended:
                    rest = f + n - (last + 1)
                    if rest > 0 and len(res.violations) < stop_after_violations:
                        futs[ex.submit(_run_chunk, spec, last + 1, rest, chunk_timeout)] = (last + 1, rest, 0)
    res.samples = res.samples[:max_samples]
    return res


def write_replay(prop, v):
    os.makedirs(REPLAYS, exist_ok=True)
    spec = v["spec"]
    name = "%s-%s.json" % (prop, hashlib.sha1(v["key"].encode()).hexdigest()[:10])
    path = os.path.join(REPLAYS, name)
    doc = dict(property=prop, key=v["key"], detail=v.get("detail", ""),
               harness=spec.get("harness"), flavor=spec.get("flavor"), profile=spec["profile"],
               seed=spec["seed"], idx=v["idx"], opts=spec.get("opts", {}),
               env=spec.get("env", {}), log=v.get("log", "")[-4000:])
    with open(path, "w") as f:
        json.dump(doc, f, indent=1)
    return path


def adjudicate(prop, res, own):
    """Route every violation key: own+unknown -> VIOLATION, own+listed -> KNOWN-FINDING,
    foreign -> FOREIGN-FINDING (informational).  `own(key)` returns the owning property id."""
    known = Known()
    printed_known, printed_foreign, new = set(), set(), {}
    for v in res.violations:
        owner = own(v["key"])
        if owner != prop:
            tag = (owner, v["key"])
            if tag not in printed_foreign:
                printed_foreign.add(tag)
                e = known.match(owner, v["key"])
                print("FOREIGN-FINDING property=%s key=%s%s seed=%s idx=%s" % (
                    owner, v["key"], " (listed)" if e else "", v["spec"]["seed"], v["idx"]))
            continue
        e = known.match(prop, v["key"])
        if e:
            if e["id"] not in printed_known:
                printed_known.add(e["id"])
                print("KNOWN-FINDING: property=%s %s [key=%s]" % (prop, e["what"], v["key"]))
            continue
        new.setdefault(v["key"], v)
    for k, v in new.items():
        path = write_replay(prop, v)
        print("VIOLATION property=%s replay=%s key=%s detail=%s" % (prop, path, k, v.get("detail", "")[:300]))
    return len(new), len(printed_known), len(printed_foreign)


def write_evidence(prop, tier, seed, level, coverage, wall, violations, assumptions=None):
    os.makedirs(EVIDENCE, exist_ok=True)
    doc = dict(property_id=prop, tier=tier, seed=int(seed), level=level, coverage=coverage,
               wall_s=round(wall, 2), violations=int(violations),
               assumptions=assumptions or [])
    tmp = os.path.join(EVIDENCE, ".%s.json.tmp" % prop)
    with open(tmp, "w") as f:
        json.dump(doc, f, indent=1, sort_keys=True)
    os.replace(tmp, os.path.join(EVIDENCE, "%s.json" % prop))


def seed_from_env():
    try:
        return int(os.environ.get("VERIF_SEED", "1"))
    except ValueError:
        return 1
