#!/bin/bash
# usage: try_mutant.sh <PROP> <patch.diff> [check args...]  -> runs bin/check PROP against a scratch copy of /repo HEAD with the patch applied
P=$1; PATCH=$2; shift 2
D=$(mktemp -d /tmp/mutsrc.XXXXXX)
git -C /repo archive HEAD | tar -x -C $D
PATCH=$(readlink -f $PATCH); (cd $D && patch -p1 -s < $PATCH) || { echo "patch failed"; rm -rf $D; exit 2; }
VERIF_SRC=$D /verif/bin/check $P "$@" 2>&1 | grep "VIOLATION\|SUMMARY\|KNOWN\|error\|build failed\|Traceback" | cut -c1-330
rm -rf $D
