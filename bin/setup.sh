#!/bin/bash
# One-time offline setup: generate the platform config headers (cmake configure only) and
# pre-build the library flavours so that the first check does not pay for them.
set -e
cd "$(dirname "$0")/.."
mkdir -p build evidence replays
python3 - <<'PY'
import sys
sys.path.insert(0, "lib")
import vbuild
vbuild.make_cfg()
for f in ("asan", "asan-det", "tsan", "fuzz", "plain"):
    print(f, vbuild.build_lib(f))
PY
