#!/usr/bin/env python3
"""Regenerate MANIFEST.json from the table below (kept in one place so it is always valid)."""
import json
import os
import sys

VERIF = os.path.dirname(os.path.dirname(os.path.abspath(__file__)))

ENGINES = [
    dict(name="simnet", path="harness/simnet", kind_free_text="deterministic single-threaded discrete-event simulator: "
         "virtual clock (--wrap=ares_tvnow), virtual sockets (ares_set_socket_functions_ex), virtual DNS servers, "
         "seeded scheduler, online monitors over the event log; ASan+UBSan build of the real library",
         serves_properties=["C01", "C03", "C05", "C06", "C07", "C08", "C09", "C10", "C12", "C13", "C14", "C17", "C20"]),
    dict(name="codec", path="harness/codec", kind_free_text="in-process codec harness with an independent RFC "
         "reference decoder/encoder (harness/refdns); differential + round-trip oracles; ASan+UBSan, libFuzzer",
         serves_properties=["C03", "C04"]),
    dict(name="legacy", path="harness/legacy", kind_free_text="in-process decoder harness: structure-aware message "
         "generator + byte mutators + seed corpus, independent reference name decoder, exactly sized inputs, counting "
         "allocator ledger, per-call CPU watchdog; ASan+UBSan (+MSan, libFuzzer in the thorough tier)",
         serves_properties=["C02", "C18"]),
    dict(name="dsmodel", path="harness/dsmodel", kind_free_text="model-based container testing, step-wise comparison "
         "with trivial reference models under ASan+UBSan", serves_properties=["C19"]),
    dict(name="cfg", path="harness/cfg", kind_free_text="configuration-text harness: generated files/env, effective "
         "configuration read-back, counting allocator ledger", serves_properties=["C14", "C15", "C16"]),
    dict(name="etstress", path="harness/etstress", kind_free_text="threaded stress with the real event thread over "
         "AF_UNIX socketpairs under ThreadSanitizer with seeded yield injection", serves_properties=["C07", "C11"]),
    dict(name="defsock", path="harness/defsock", kind_free_text="the library's own socket functions over real descriptors "
         "(closed loopback ports): link-time wraps of the libc socket calls keep a descriptor ledger and fail the k-th call "
         "of one function; ASan+UBSan", serves_properties=["C10"]),
]

# property -> registration.  Only properties whose check exists and is silent on the unchanged tree.
CHECKS = {
    "C01": dict(engine="simnet", category="exploration", design_ref="DESIGN.md §4 C01",
                technique="runtime monitoring in a deterministic simulator: exactly-once callback monitor + structural "
                          "walk of the query indexes at quiescent points, under ASan+UBSan",
                text="Held on the simulated histories explored (tens of thousands quick, millions thorough): every request "
                     "token over all ten entry points got exactly one callback, none after ares_destroy, cancel and destroy "
                     "completed everything outstanding, the four query indexes agreed at every quiescent point, and "
                     "ASan/UBSan stayed silent, with callbacks starting requests and cancelling, hostile servers, socket "
                     "faults and seeded reordering of replies vs. timers; further stages: every send from the k-th on failing while "
                     "requests wait on a failed and on a healthy server (enumeration over k and entry point), and completion "
                     "callbacks that take seconds of virtual time with short-lived cached answers. Exploration: histories not "
                     "generated are not covered.",
                note="Trusts the simulator's socket/server model and gcc ASan/UBSan; single-threaded (threads: C11)."),
    "C02": dict(engine="legacy", category="exploration", design_ref="DESIGN.md §4 C02",
                technique="runtime monitoring under ASan+UBSan+LSan (MSan and libFuzzer in the thorough tier): every decoding "
                          "entry point on exactly sized inputs with an allocator ledger and a CPU watchdog; exhaustive "
                          "small-scope enumeration of name encodings against an independent reference decoder",
                text="Held on the inputs explored: (names) ALL byte strings of length 0..4 (quick; 0..5 thorough) over the "
                     "label/pointer alphabet behind three headers, decoded at every offset by ares_expand_name and the record "
                     "name parser, agreed with an independent reference decoder (accept/reject, consumed length, text) and "
                     "terminated; (total) tens of thousands (millions thorough) generated, mutated and corpus messages went "
                     "through the record parser with all flag combinations + getter walk + writer, all legacy reply parsers, "
                     "name/string decoders at many offsets, split/hexdump helpers without sanitizer report, over-read of the "
                     "exactly sized input, leak (ledger) or watchdog expiry, and returned either an error or a well-formed result.",
                note="Name enumeration is exhaustive only up to the stated length; message-level coverage is sampling."),
    "C18": dict(engine="legacy", category="exploration", design_ref="DESIGN.md §4 C18",
                technique="runtime monitoring, differential: each legacy reply parser against the record API on the same message "
                          "(contract table from man pages + pinned tests), field by field, with allocator ledger, under ASan+UBSan",
                text="Held on the generated, mutated and corpus messages explored (80 k quick, millions thorough; 15 legacy calls "
                     "each): a legacy parser returned a malformed-message status iff the record parser rejected the message; on "
                     "success addresses, aliases, official name, TTLs (min with the alias chain), priorities/weights/ports, text "
                     "chunks, CAA/URI/NAPTR/SOA fields and list order equalled what the record API shows; output parameters were "
                     "NULL or untouched on failure; nothing leaked.",
                note="Where man pages and pinned tests leave a status open (TXT/CAA with no matching record) both readings are accepted."),
    "C03": dict(engine="codec", category="exploration", design_ref="DESIGN.md §4 C03",
                technique="runtime monitoring: write->parse->write round trip on generated and parser-accepted records with an "
                          "independent RFC decoder (refdns) as second reader, TCP-buffer placements, duplicate and legacy builders, "
                          "under ASan+UBSan",
                text="Held on the records explored (hundreds of thousands quick, millions thorough; every RR type, escapes, shared "
                     "suffixes, sizes through 16 KiB and towards 64 KiB): a successful write was <= 65535 octets, parsed back to a "
                     "field-by-field equal record, re-serialised to the same bytes, decoded identically by the independent "
                     "reference decoder with strictly backward pointers; the same through ares_dns_write_buf_tcp into buffers "
                     "already holding other frames or a consumed prefix, through ares_dns_record_duplicate and for "
                     "ares_create_query/ares_mkquery.",
                note="Trusts harness/refdns (written from the RFCs, shares no code with c-ares) and the public getters."),
    "C04": dict(engine="codec", category="exploration", design_ref="DESIGN.md §4 C04",
                technique="runtime monitoring: differential decoding of generated/mutated messages by c-ares (public getters) "
                          "and an independent RFC reference decoder, both directions, plus name-escaping round trips",
                text="Held on the ~1M generated and mutated messages per quick run: whenever both decoders accepted, every header, "
                     "question and RR field (incl. OPT class/TTL overloading, 12-bit rcode, option/SvcParam TLVs, raw RRs) was "
                     "equal; every reference-well-formed message inside the supported subset was accepted; nothing structurally "
                     "malformed (forward/self pointers, overruns, reserved labels) was accepted; label bytes survived "
                     "wire->text->wire escaping.",
                note="Supported-subset and leniency rules are listed with source references in harness/codec/cdiff.h."),
    "C05": dict(engine="simnet", category="exploration", design_ref="DESIGN.md §4 C05",
                technique="runtime monitoring in a deterministic simulator: provenance serial in every packet, adversary "
                          "injecting single-attribute forgeries and stale replies, classification at creation and at the moment "
                          "the library reads the packet",
                text="Held on the seeded histories explored: no request (including later identical requests served from the "
                     "cache) was ever handed a record whose serial belongs to a forged packet (wrong id, name, type, class, "
                     "letter case under 0x20, source address incl. same-prefix addresses, missing question, wrong client "
                     "cookie, missing cookie after proven support) or to a reply that named a query not waiting on the socket "
                     "it arrived on, and no such packet was followed by a server-success notification.",
                note="Current connection of a query is read from the live query via ares_private.h; UDP-only adversary."),
    "C06": dict(engine="simnet", category="exploration", design_ref="DESIGN.md §4 C06",
                technique="runtime monitoring in a deterministic simulator: transmission accounting per wire query at the "
                          "virtual network + wait-bound checks on every (re)send + stuck detection, under UBSan/ASan",
                text="Held on the seeded retry histories explored: per (name,type,id) transmissions never exceeded servers x "
                     "tries plus the resends justified by FORMERR/TC/BADCOOKIE replies actually sent, every (re)send's wait "
                     "was >= the 250 ms/maxtimeout floor, >= the clamped configured base for servers without history and "
                     "<= maxtimeout, every query ended with a definite status (virtual time makes tries up to 100 and "
                     "timeouts up to 10 s cost nothing), and UBSan saw no overflow in the timeout arithmetic.",
                note="Wait bounds read the library's own deadline (internal), counts are taken at the virtual network."),
    "C07": dict(engine="simnet", category="exploration", design_ref="DESIGN.md §4 C07",
                technique="runtime monitoring in a deterministic simulator: ares_timeout() compared with an independent walk "
                          "of live deadlines at every scheduler step; post-processing progress invariant",
                text="Single-threaded half: at every scheduler step of the retry/hostile histories ares_timeout() with six "
                     "maxtv values was non-negative, normalised, never later than maxtv or the earliest live deadline, and "
                     "after every processing call no live query kept a passed deadline. Event-thread half (etstress engine, "
                     "profile timers: 3 back ends x fresh / idle kept-open / busy connection x answering / silent / closing "
                     "server, requests issued at seeded offsets into the event thread's sleep): every request completed "
                     "within 4 x its retry budget + 3 s of wall clock with no application action; a miss is reported only "
                     "with the witness 'event thread inside a wait that is infinite or ends after the deadline', otherwise "
                     "the case is inconclusive.",
                note="Deadlines are read from live queries via ares_private.h; virtual clock in the simulator half, generous "
                     "wall-clock bounds with a state witness in the threaded half."),
    "C09": dict(engine="simnet", category="exploration", design_ref="DESIGN.md §4 C09",
                technique="runtime monitoring in a deterministic simulator: destination of every transmission checked against "
                          "consecutive-failure counts derived from the public server-state callback stream; probe rules; stream "
                          "anchored to the simulator's ground truth",
                text="Held on the seeded failover histories explored (1-5 servers changing behaviour over time, rotate on/off, "
                     "failover options, list edits): every transmission went to a server with the fewest announced consecutive "
                     "failures (first in configuration order without rotation; judged for datagram transmissions, the instant "
                     "a stream query is queued being unobservable) or was the same-server EDNS-downgrade resend or a "
                     "well-formed probe (copy of a first attempt, after the retry delay, never with chance 0, never two "
                     "pending); retried timeouts/error rcodes had a failure notification, delivered answers a success "
                     "notification from their server, and no success followed anything but a good response.",
                note="Counts come from the library's own notifications; fairness of random rotation is not judged."),
    "C10": dict(engine="simnet", category="fault_enumeration", design_ref="DESIGN.md §4 C10",
                technique="runtime monitoring: descriptor-protocol automaton over the virtual socket layer's call log, the "
                          "socket-state callback stream and ares_fds/ares_getsock, with k-th-call fault enumeration",
                text="For every scenario of the fixed family the k-th socket-layer call was failed for every k past the last "
                     "call and 5 error kinds (exhaustive for those scenarios), plus seeded exploration: every descriptor "
                     "closed exactly once, none after destroy, no call on a closed/never-issued descriptor, per-socket UDP "
                     "query limit respected, watch/stop announcements well-formed and present before events are needed, "
                     "legacy descriptor sets equal to the open sockets that matter. Third stage (engine defsock, DESIGN.md §8.8): the "
                     "built-in socket functions over real descriptors with the k-th libc call failing - every descriptor "
                     "obtained through socket() closed exactly once, none open after ares_destroy().",
                note="Descriptor numbers are never reused by the virtual layer; a failing close() releases the descriptor."),
    "C08": dict(engine="simnet", category="exploration", design_ref="DESIGN.md §4 C08",
                technique="runtime monitoring in a deterministic simulator: provenance serial in every response + cache "
                          "soundness model (key, rcode/TC, lifetime, reconfiguration epoch, TTL decrement) over virtual time",
                text="Held on the seeded cache histories explored: every record delivered to a request that was started after "
                     "the carrying packet was injected (a cache replay) matched the request's name/type/class/RD/CD, came "
                     "from a NOERROR/NXDOMAIN non-truncated response, was younger than min(qcache_max_ttl, its own TTLs / "
                     "SOA minimum), was not older than the last server-list change or reinit, never occurred with max_ttl "
                     "0, and showed TTL = original - seconds cached through send/query/search/getaddrinfo forms. "
                     "Soundness only (a cache may always miss).",
                note="Virtual clock; whole-second ages as the cache itself uses."),
    "C11": dict(engine="etstress", category="exploration", design_ref="DESIGN.md §4 C11, §8.6",
                technique="runtime monitoring with ThreadSanitizer: real event thread (epoll/poll/select) over socketpair-backed "
                          "socket functions, 2-8 client threads with seeded operation mixes and yield injection at lock "
                          "boundaries; monitors over per-thread event logs (exactly-once, wait_empty ordering on a global "
                          "sequence counter, bounded completion with a state witness, no-progress watchdog with thread stacks)",
                text="Held on the runs made (48 short runs quick, 900 thorough; every run >= 2 client threads with overlapping "
                     "channel operations, hundreds of distinct overlapping operation pairs, thousands of contended lock "
                     "acquisitions, hundreds of background reloads triggered by rewriting the watched configuration file): "
                     "no ThreadSanitizer report with a c-ares frame (data race, lock-order inversion, thread leak) other than "
                     "the listed finding, every request exactly one callback and none after ares_destroy returned, "
                     "ares_queue_wait_empty returned success only with nothing outstanding that had been issued before the "
                     "call, every request completed within its generous wall-clock bound, no hang.",
                note="Samples of schedules, not an enumeration; TSan's history is bounded; the change monitor's hard-coded /etc "
                     "watch is redirected to a scratch directory at link time."),
    "C12": dict(engine="simnet", category="exploration", design_ref="DESIGN.md §4 C12",
                technique="runtime monitoring in a deterministic simulator: observed question sequence at the virtual server "
                          "vs. an independent resolv.conf(5) reference model",
                text="Held on the seeded (near-exhaustive for <=4 candidates) product of name shape x ndots x domain list x "
                     "flags x alias file x entry point x per-candidate outcome vector: the ordered candidate names asked, "
                     "the stop point and the final status equalled the model; local names (literals, localhost, .onion) "
                     "produced no question.",
                note="A and AAAA of one candidate get the same outcome class; candidates that do not fit on the wire end the "
                     "comparison (status unspecified by the statement)."),
    "C13": dict(engine="simnet", category="exploration", design_ref="DESIGN.md §4 C13",
                technique="runtime monitoring in a deterministic simulator: every address encodes (record index, packet serial); "
                          "multiset comparison of the returned addresses with the class-IN A/AAAA records of the answers read",
                text="Held on the seeded address lookups explored (getaddrinfo/gethostbyname/gethostbyaddr/getnameinfo x family x "
                     "hints x sortlist x lookup order x answers with 0-200 records, CNAME chains, other-family, foreign-class and "
                     "duplicate records): returned addresses = records of the accepted answers restricted to the family, with "
                     "record TTL and requested port, sortlist ranks monotone and stable; hosts-file, literal and loopback names "
                     "returned exactly their own addresses without network traffic; reverse lookups asked exactly the "
                     "reverse-map name and returned PTR targets of the answer.",
                note="Owner names of address records follow the CNAME chain (c-ares deliberately does not check owners)."),
    "C14": dict(engine="simnet", category="fault_enumeration", design_ref="DESIGN.md §4 C14",
                technique="runtime monitoring under fault injection: counting allocator with a ledger installed through "
                          "ares_library_init_mem, every allocation index of each deterministic scenario failed in turn, "
                          "under ASan+UBSan with the request/descriptor/index monitors of the simulator",
                text="Held on the scenario family enumerated (25 kinds x variants; every allocation made between "
                     "ares_init_options and the end of ares_destroy, one failure per run, tens of thousands of runs quick): no "
                     "sanitizer report or abort, every request exactly one callback, nothing stuck, descriptor protocol and "
                     "query indexes intact, ledger empty after destroy, no free of an unknown block, a fresh query after the "
                     "failure succeeded, and a request reporting success brought no other result than without the failure "
                     "(address lookups may bring fewer addresses).",
                note="One failure per run (the statement's quantifier); allocation sequences are deterministic in the simulator, so "
                     "the enumeration is exhaustive for each listed scenario, not for scenarios outside the family."),
    "C15": dict(engine="cfg", category="exploration", design_ref="DESIGN.md §4 C15",
                technique="runtime monitoring: generated/junk configuration text through the real init/reinit path with "
                          "link-time redirected files+environment, effective-configuration read-back, range oracle, metamorphic "
                          "line-independence oracle, creation-vs-reload agreement, absolute oracle for directives of known "
                          "meaning, counting-allocator ledger, ASan/UBSan/LSan",
                text="Held on the generated inputs explored: arbitrary and grammar-aware junk in resolv.conf, nsswitch/netsvc/"
                     "svc.conf, hosts, host-aliases, RES_OPTIONS, LOCALDOMAIN, sortlist and server strings never crashed, "
                     "leaked (exact ledger) or hung initialisation and gave an error or an in-range configuration; inserting "
                     "comment/blank/unknown/malformed lines into valid files left the effective configuration (after init and "
                     "after reinit) and all hosts/alias lookups unchanged; failed setters left the previous value in place; "
                     "creation and reload of unchanged sources agreed; and (profile single) sources of one to three valid "
                     "directives of known meaning gave exactly the directive's value, documented defaults elsewhere, and "
                     "hosts/alias lines resolved to what they say.",
                note="fopen/stat/getenv/gethostname/socket are interposed at link time; ground truth is the channel's fields "
                     "read through ares_private.h."),
    "C16": dict(engine="cfg", category="exploration", design_ref="DESIGN.md §4 C16",
                technique="runtime monitoring: effective-configuration read-back equality across save->init, dup, csv->set->csv; "
                          "user-wins differential against a reference channel under generated system configuration and reinit",
                text="Held on the option masks/values, server sets (IPv4/IPv6/link-local, default/equal/differing ports, three "
                     "setters), sortlists and domain lists explored: save->init and dup reproduced the effective settings and "
                     "ordered server list, csv round-tripped to a fixed point, and every application-supplied setting kept its "
                     "value under arbitrary generated resolv.conf/nsswitch/environment at init and after each awaited reinit.",
                note="ares_save_options carries IPv4 addresses without ports by design; that documented limit is applied."),
    "C20": dict(engine="simnet", category="exploration", design_ref="DESIGN.md §4 C20",
                technique="runtime monitoring, A/B differential in a deterministic simulator: same seeded case with unsegmented "
                          "and with chopped transport (1-byte/random reads, partial writes, EWOULDBLOCK, deferred-write callback)",
                text="Held on the seeded batches explored (1-20 queries queued before connect, responses up to 64 KiB, USEVC and "
                     "TC-upgrade paths): per request identical status, callback count, timeouts and record count/TTLs in both "
                     "runs, identical sequence of TCP messages at the servers, every TCP frame a server received decoded as a "
                     "whole well-formed query, and a truncated UDP reply was followed by TCP unless IGNTC.",
                note="Deterministic servers with fixed delays in both runs; how the application polls is not varied."),
    "C17": dict(engine="simnet", category="exploration", design_ref="DESIGN.md §4 C17",
                technique="runtime monitoring in a deterministic simulator: online trace specification (RFC 7873 client model "
                          "per server) over the COOKIE option of every query seen by the virtual servers and over which "
                          "responses were read/delivered, virtual time across the 120 s / 300 s / 1 day timers",
                text="Held on the seeded histories explored (4-25 queries, gaps up to a day, 1-2 servers whose behaviour changes "
                     "between valid / rotating / none / wrong client part / client-only / 40-octet / bad-cookie once / always, "
                     "FORMERR with and without OPT, truncation, silence, source-address changes, whole-second clock): no cookie "
                     "over TCP; cookie present unless the server answered without one; client part changed only on address "
                     "change, after a day, after the regression period or after giving up; server part = latest valid one; "
                     "cookie-less/invalid replies of a proven server neither delivered nor acted on within 120 s and the "
                     "client started over by then; bad-cookie caused a resend without consuming a try, TCP after three.",
                note="The unsupported period is accepted anywhere in [120 s, 300 s]; request names are unique per case so a "
                     "second id for one question is classified as a server probe."),
    "C19": dict(engine="dsmodel", category="exploration", design_ref="DESIGN.md §4 C19",
                technique="model-based runtime monitoring: seeded operation sequences on the real containers, "
                          "step-wise comparison with reference models, under ASan+UBSan",
                text="Held on the operation sequences explored (tens of thousands quick, millions thorough) for array, "
                     "skip list, linked list, the hash-table fronts, the byte buffer and record-API delete/add "
                     "sequences; every step's return value, length and full iteration order is compared with a "
                     "reference model. Exploration, not proof: sequences not generated are not covered.",
                note="Trusts the reference models in harness/dsmodel and gcc ASan/UBSan red zones."),
}

NOT_YET = "check not built yet at this commit (planned per DESIGN.md; family applies)"


def main():
    props = [json.loads(l) for l in open(os.path.join(VERIF, "properties.jsonl"))]
    checks, na = [], []
    for p in props:
        pid = p["id"]
        c = CHECKS.get(pid)
        if c is None or not os.path.exists(os.path.join(VERIF, "checks", pid + ".py")):
            na.append(dict(property_id=pid, reason=NOT_YET))
            continue
        checks.append(dict(
            property_id=pid,
            quick_cmd="bin/check %s --tier quick" % pid,
            thorough_cmd="bin/check %s --tier thorough" % pid,
            evidence_file="evidence/%s.json" % pid,
            replay_cmd_template="bin/check %s --replay {path}" % pid,
            engine=c["engine"],
            level_claimed=dict(category=c["category"], text=c["text"], design_ref=c["design_ref"]),
            level_note=c["note"],
            technique=c["technique"]))
    man = dict(
        version=1,
        setup_cmd="bin/setup.sh",
        hooks=dict(
            guard="CARES_VERIF",
            enable="lib/vbuild.py compiles every library source of /repo's working tree with -DCARES_VERIF=1 "
                   "(plus the upstream determinism define FUZZING_BUILD_MODE_UNSAFE_FOR_PRODUCTION for the "
                   "-det flavours); clock/files/env are interposed at link time with --wrap, no source change",
            baseline_off_cmd="bin/baseline_off.sh",
            source_commits=HOOK_COMMITS,
            add_only=True),
        engines=ENGINES,
        checks=checks,
        notes="Runtime monitoring and sanitizers only; see DESIGN.md. Known findings (open and fixed): known_findings.json and known_findings.d/*.json; seeded changes and what catches them: seeded/ and DESIGN.md section 8.",
        not_applicable=na)
    with open(os.path.join(VERIF, "MANIFEST.json"), "w") as f:
        json.dump(man, f, indent=1)
    print("checks:", [c["property_id"] for c in checks], "not claimed:", [n["property_id"] for n in na])


HOOK_COMMITS = []

if __name__ == "__main__":
    main()
