#!/bin/bash
# usage: verify_mutant.sh <worktree> <n>  -> prints a one-line verdict per step
WT=$1; N=$2; M=$WT/_mut/$N; OUT=$M/verify.log
cd $WT || exit 2
git checkout -q -- src include
git apply --check $M/patch.diff || { echo "$WT/$N: patch does not apply"; exit 1; }
{
echo "== demo WITHOUT mutation"; (cd $M && bash ./build.sh) >$M/demo_clean.log 2>&1; echo "demo clean exit: $?"
git apply $M/patch.diff
echo "== build with mutation"; cmake --build $WT/_build -j8 >$M/build_mut.log 2>&1; echo "build exit: $?"
echo "== suite with mutation"; (cd $WT/_build && ./bin/arestest --gtest_filter=-*.Live*:*/Live* 2>&1 | tail -n 4)
(cd $WT/test/fuzzinput && ../../_build/bin/aresfuzz * >/dev/null 2>&1; echo "aresfuzz exit $?")
(cd $WT/test/fuzznames && ../../_build/bin/aresfuzzname * >/dev/null 2>&1; echo "aresfuzzname exit $?")
echo "== demo WITH mutation"; (cd $M && bash ./build.sh) >$M/demo_mut.log 2>&1; echo "demo mutated exit: $?"
git checkout -q -- src include
cmake --build $WT/_build -j8 >/dev/null 2>&1
} > $OUT 2>&1
echo "$WT/$N done"; grep -E "exit|PASSED|FAILED|tests ran" $OUT | tr '\n' ';'; echo
