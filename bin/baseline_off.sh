#!/bin/bash
# Rebuild the pinned baseline build of /repo (guard OFF: the build system never defines
# CARES_VERIF) and run the repository's own test suite; compare per-test results with
# /root/.vp/BASELINE.json stable_pass.  Exit 0 iff every stable_pass test passed.
set -u
B=/repo/_build
OUT=/verif/build/baseline
rm -rf "$OUT"; mkdir -p "$OUT"
if [ ! -f "$B/build.ninja" ] && [ ! -f "$B/Makefile" ]; then
  cmake -G Ninja -S /repo -B "$B" -DCMAKE_BUILD_TYPE=RelWithDebInfo -DCARES_BUILD_TESTS=ON >"$OUT/cmake.log" 2>&1 || { tail -30 "$OUT/cmake.log"; exit 2; }
fi
cmake --build "$B" -j16 >"$OUT/build.log" 2>&1 || { tail -40 "$OUT/build.log"; echo "BUILD FAILED"; exit 2; }
export GTEST_OUTPUT="xml:$OUT/gtest/"
ctest --test-dir "$B" -j8 --timeout 900 --output-junit "$OUT/ctest.junit.xml" >"$OUT/ctest.log" 2>&1
echo "ctest exit: $?"
tail -8 "$OUT/ctest.log"
python3 - "$OUT" <<'PY'
import glob, json, sys, xml.etree.ElementTree as ET
out = sys.argv[1]
passed, failed = set(), set()
for f in glob.glob(out + "/gtest/*.xml"):
    for tc in ET.parse(f).getroot().iter("testcase"):
        name = "%s::%s" % (tc.get("classname"), tc.get("name"))
        bad = tc.find("failure") is not None or tc.find("error") is not None
        ran = tc.get("status", "run") == "run" and tc.find("skipped") is None
        if bad:
            failed.add(name)
        elif ran:
            passed.add(name)
try:
    for tc in ET.parse(out + "/ctest.junit.xml").getroot().iter("testcase"):
        ok = tc.get("status") == "run" and tc.find("failure") is None
        for nm in (tc.get("name"), "%s::%s" % (tc.get("classname"), tc.get("name"))):
            (passed if ok else failed).add(nm)
except Exception as e:
    print("no ctest junit:", e)
try:
    base = json.load(open("/root/.vp/BASELINE.json"))["stable_pass"]
except Exception:
    base = []
missing = [t for t in base if t not in passed]
print("gtest/ctest cases passed: %d failed: %d; baseline stable_pass: %d; not passing now: %d" % (
    len(passed), len(failed), len(base), len(missing)))
for t in missing[:40]:
    print("  REGRESSED", t)
sys.exit(1 if missing else 0)
PY
