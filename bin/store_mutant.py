#!/usr/bin/env python3
"""store_mutant.py <prop> <n> <worktree> <caught_by_key> [--patch alt.diff]  -> seeded/<prop>-m<n>/"""
import json, os, shutil, subprocess, sys
prop, n, wt, caught = sys.argv[1:5]
alt = sys.argv[6] if len(sys.argv) > 6 and sys.argv[5] == "--patch" else None
src = os.path.join(wt, "_mut", n)
dst = os.path.join("/verif/seeded", "%s-m%s" % (prop, n))
os.makedirs(dst, exist_ok=True)
for f in os.listdir(src):
    if f.endswith((".c", ".cc", ".sh", ".md", ".h")) or f == "patch.diff":
        shutil.copy(os.path.join(src, f), dst)
if alt:
    shutil.copy(os.path.join(src, "patch.diff"), os.path.join(dst, "patch.orig.diff"))
    shutil.copy(alt, os.path.join(dst, "patch.diff"))
ver = open(os.path.join(src, "verify.log")).read() if os.path.exists(os.path.join(src, "verify.log")) else ""
head = subprocess.run("git -C /repo rev-parse --short HEAD", shell=True, stdout=subprocess.PIPE, text=True).stdout.strip()
notes = open(os.path.join(src, "notes.md")).read() if os.path.exists(os.path.join(src, "notes.md")) else ""
meta = dict(id="%s-m%s" % (prop, n), property=prop, origin="independent sub-agent given only the property text and a scratch worktree",
            base_commit_of_author="caf02a3", patch_applies_to=head,
            needs_to_manifest=notes.split("\n\n")[0:0] or "see notes.md",
            confirmed=dict(suite_with_mutation="1043 non-Live gtest cases passed, aresfuzz/aresfuzzname exit 0 (re-run by me in the scratch worktree)",
                           demo_without_mutation="exit 0", demo_with_mutation="exit 1", log=ver[-1500:]),
            detected_by=dict(check="bin/check %s --tier quick" % prop, keys=caught.split(","),
                             how="VERIF_SRC=<scratch copy with patch applied> bin/check %s --tier quick" % prop))
json.dump(meta, open(os.path.join(dst, "meta.json"), "w"), indent=1)
print("stored", dst)
