#!/usr/bin/env python3
"""store_mutant_r.py <prop> <src n> <dst n> <worktree> <keys,comma> [note]  -> seeded/<prop>-m<dst>/ (rounds 2+)"""
import json, os, shutil, subprocess, sys
prop, srcn, dstn, wt, caught = sys.argv[1:6]
note = sys.argv[6] if len(sys.argv) > 6 else None
src = os.path.join(wt, "_mut", srcn)
dst = os.path.join("/verif/seeded", "%s-m%s" % (prop, dstn))
os.makedirs(dst, exist_ok=True)
for f in os.listdir(src):
    if f.endswith((".c", ".cc", ".sh", ".md", ".h", ".py")) or f == "patch.diff":
        shutil.copy(os.path.join(src, f), dst)
ver = open(os.path.join(src, "verify.log")).read() if os.path.exists(os.path.join(src, "verify.log")) else ""
head = subprocess.run("git -C /repo rev-parse --short HEAD", shell=True, stdout=subprocess.PIPE, text=True).stdout.strip()
base = subprocess.run("git -C %s rev-parse --short HEAD" % wt, shell=True, stdout=subprocess.PIPE, text=True).stdout.strip()
meta = dict(id="%s-m%s" % (prop, dstn), property=prop,
            origin="independent sub-agent, %s round (told only the titles of the earlier changes to avoid repeating them)" % os.environ.get("ROUND", "third"),
            base_commit_of_author=base, patch_applies_to=head, needs_to_manifest="see notes.md",
            confirmed=dict(suite_with_mutation="non-Live gtest cases all passed, aresfuzz/aresfuzzname exit 0 (re-run by me in the scratch worktree)",
                           demo_without_mutation="exit 0", demo_with_mutation="exit 1", log=ver[-1500:]),
            detected_by=dict(check="bin/check %s --tier quick" % prop, keys=caught.split(","),
                             how="VERIF_SRC=<scratch copy with patch applied> bin/check %s --tier quick" % prop))
if note:
    meta["detected_by"]["note"] = note
json.dump(meta, open(os.path.join(dst, "meta.json"), "w"), indent=1)
print("stored", dst, "verify-log-bytes", len(ver))
