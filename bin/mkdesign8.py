#!/usr/bin/env python3
"""Regenerate section 8 of DESIGN.md (build-phase status) from git history, the known-findings files and seeded/*/meta.json.
The prose lives here; the tables are computed."""
import glob, json, os, re, subprocess
V = os.path.dirname(os.path.dirname(os.path.abspath(__file__)))
MARK = "## 8. Build-phase status"

def sh(c):
    return subprocess.run(c, shell=True, stdout=subprocess.PIPE, text=True).stdout.strip()

ents = []
for f in [V + '/known_findings.json'] + sorted(glob.glob(V + '/known_findings.d/*.json')):
    for e in json.load(open(f)).get('findings', []):
        e['_file'] = os.path.relpath(f, V)
        ents.append(e)
log = sh("git -C /repo log --reverse --format='%h\t%s' 4a1b451..HEAD").split('\n')
fix = ["| # | commit | property | what was wrong (commit subject) | first seen as |", "|---|---|---|---|---|"]
for n, l in enumerate(log, 1):
    h, s = l.split('\t', 1)
    es = [e for e in ents if e.get('status') == 'fixed' and h in e.get('commit', '')]
    props = sorted({e['property'] for e in es}) or ['?']
    keys = []
    for e in es:
        for k in e.get('keys', [])[:2]:
            if k not in keys:
                keys.append(k)
    ks = ", ".join("`%s`" % k.replace('|', '\\|') for k in keys[:2])
    fix.append("| %d | %s | %s | %s | %s |" % (n, h, "/".join(props), s[5:].replace("|", "\\|"), ks))
opn = []
for e in ents:
    if e.get('status') == 'open':
        opn.append("- **%s** (%s, `%s`): %s Keys: %s" % (e['id'], e['property'], e['_file'], e['what'],
                   ", ".join("`%s`" % k for k in e['keys'][:3]) + (" …" if len(e['keys']) > 3 else "")))
mut = ["| change | property | what it breaks | caught by (keys) | first version of the check |", "|---|---|---|---|---|"]
nm = nmiss = 0
for d in sorted(glob.glob(V + '/seeded/*/meta.json')):
    m = json.load(open(d))
    np_ = os.path.join(os.path.dirname(d), 'notes.md')
    notes = open(np_).read() if os.path.exists(np_) else ''
    title = notes.strip().split('\n')[0].lstrip('# ').strip()
    title = re.sub(r'^(C\d\d )?(extra )?[Mm]uta(tion|nt) \d*\s*(\(.*?\))?\s*[-—–:]+\s*', '', title)
    det = m.get('detected_by', {})
    keys = det.get('keys', [])
    note = det.get('note', '').lower()
    st = 'caught'
    if 'missed' in note or 'foreign' in note:
        st = 'missed → strengthened'
        nmiss += 1
    if False and 'caught as a memory error by bin/check c01' in note:
        st = 'C01 catches the memory error; own order rule blind'
        nmiss -= 1
    if 'out of reach of the c19' in note:
        st = 'needs fault injection → C14'
    if 'needed the event-thread half' in note:
        st = 'caught once E5 existed'
    if m.get('neutralised_by'):
        st += '; harmless since fix %s (8.5)' % m['neutralised_by']
    nm += 1
    mut.append("| %s | %s | %s | %s: %s | %s |" % (m['id'], m['property'], title[:140].replace('|', '/'),
               det.get('check', '').replace('bin/check ', '').replace(' --tier quick', ''),
               ", ".join("`%s`" % k.replace('|', '\\|') for k in keys[:2]), st))
head = sh("git -C /repo rev-parse --short HEAD")
prose = open(os.path.join(V, 'bin', 'design8_prose.md')).read()
prose = (prose.replace('FIXTABLE', "\n".join(fix)).replace('OPENLIST', "\n".join(opn)).replace('MUTTABLE', "\n".join(mut))
         .replace('NFIX', str(len(log))).replace('NMUT', str(nm)).replace('NMISS', str(nmiss)).replace('REPOHEAD', head))
dp = os.path.join(V, 'DESIGN.md')
s = open(dp).read()
if MARK in s:
    s = s[:s.index(MARK)]
s = s.rstrip('\n') + '\n\n' + prose
open(dp, 'w').write(s)
print("DESIGN.md section 8 regenerated: %d fixes, %d open, %d seeded changes (%d first missed)" % (len(log), len(opn), nm, nmiss))
