#!/usr/bin/env python3
"""Re-run every seeded change against the check recorded as catching it (scratch copy of /repo HEAD via
VERIF_SRC; /repo itself is never touched) and write seeded/STATUS.json.  usage: mutants_regress.py [id ...]"""
import glob, json, os, re, subprocess, sys, time
VERIF = os.path.dirname(os.path.dirname(os.path.abspath(__file__)))
want = set(sys.argv[1:])
head = subprocess.run("git -C /repo rev-parse --short HEAD", shell=True, stdout=subprocess.PIPE, text=True).stdout.strip()
status_path = os.path.join(VERIF, "seeded", "STATUS.json")
try:
    status = json.load(open(status_path))
except (OSError, ValueError):
    status = {}
for mp in sorted(glob.glob(os.path.join(VERIF, "seeded", "*", "meta.json"))):
    m = json.load(open(mp))
    mid = m["id"]
    if want and mid not in want:
        continue
    if m.get("neutralised_by"):
        # a later repair of /repo made the change harmless for its property (see meta.json): nothing to catch any more
        status[mid] = dict(result="neutralised", by=m["neutralised_by"], head=head)
        print(mid, "neutralised by", m["neutralised_by"], flush=True)
        json.dump(status, open(status_path, "w"), indent=1, sort_keys=True)
        continue
    det = m.get("detected_by", {})
    mm = re.search(r"bin/check (C\d\d)", det.get("check", ""))
    if not mm:
        status[mid] = dict(result="no-check-recorded", head=head)
        continue
    prop = mm.group(1)
    t0 = time.time()
    out = subprocess.run([os.path.join(VERIF, "bin", "try_mutant.sh"), prop, os.path.join(os.path.dirname(mp), "patch.diff")],
                         stdout=subprocess.PIPE, stderr=subprocess.STDOUT, text=True).stdout
    keys = re.findall(r"^VIOLATION property=\S+ replay=\S+ key=(\S+)", out, re.M)
    recorded = det.get("keys", [])
    def matches(k, pat):
        return k == pat or (pat.endswith("*") and k.startswith(pat[:-1])) or k.split("(")[0] == pat.split("(")[0]
    hit = [k for k in keys if any(matches(k, p) for p in recorded)]
    ran = "SUMMARY property=" in out
    status[mid] = dict(result="caught" if keys else ("MISSED" if ran else "DID-NOT-RUN (patch or build failed)"), check=prop, head=head, keys_fired=keys[:6],
                       recorded_key_fired=bool(hit), wall_s=round(time.time() - t0, 1))
    print(mid, status[mid]["result"], "recorded-key" if hit else "other-key" if keys else "-", keys[:2], flush=True)
    json.dump(status, open(status_path, "w"), indent=1, sort_keys=True)
