/* vh.h - common worker-side support for the verification harnesses (header-only).
 *
 * Worker protocol (stdout, one record per line):
 *   C <idx>                 about to run case <idx>           (flushed)
 *   V <idx> <key> | <text>  monitor violation in case <idx>
 *   I <idx> <reason>        case inconclusive
 *   F <hex> ...             fingerprints of distinct non-trivial cases in this chunk
 *   N <name> <value>        counter (sum over the chunk)
 *   X <json>                sample case written out
 *   E                       chunk finished normally
 */
#ifndef VH_H
#define VH_H

#include <stdio.h>
#include <stdlib.h>
#include <string.h>
#include <stdint.h>
#include <stdarg.h>
#include <unistd.h>

/* ---------- PRNG: splitmix64 / xoshiro256** ---------- */
typedef struct {
  uint64_t s[4];
} vh_rng_t;

static inline uint64_t vh_splitmix(uint64_t *x)
{
  uint64_t z = (*x += 0x9e3779b97f4a7c15ULL);
  z          = (z ^ (z >> 30)) * 0xbf58476d1ce4e5b9ULL;
  z          = (z ^ (z >> 27)) * 0x94d049bb133111ebULL;
  return z ^ (z >> 31);
}

static inline void vh_rng_seed(vh_rng_t *r, uint64_t seed)
{
  int i;
  for (i = 0; i < 4; i++) {
    r->s[i] = vh_splitmix(&seed);
  }
}

static inline uint64_t vh_rotl(uint64_t x, int k)
{
  return (x << k) | (x >> (64 - k));
}

static inline uint64_t vh_rand64(vh_rng_t *r)
{
  uint64_t res = vh_rotl(r->s[1] * 5, 7) * 9;
  uint64_t t   = r->s[1] << 17;
  r->s[2] ^= r->s[0];
  r->s[3] ^= r->s[1];
  r->s[1] ^= r->s[2];
  r->s[0] ^= r->s[3];
  r->s[2] ^= t;
  r->s[3] = vh_rotl(r->s[3], 45);
  return res;
}

/* uniform in [0,n) ; n>0 */
static inline uint32_t vh_below(vh_rng_t *r, uint32_t n)
{
  return (uint32_t)((vh_rand64(r) >> 11) % n);
}

/* inclusive range */
static inline int vh_range(vh_rng_t *r, int lo, int hi)
{
  return lo + (int)vh_below(r, (uint32_t)(hi - lo + 1));
}

static inline int vh_chance(vh_rng_t *r, int num, int den)
{
  return (int)vh_below(r, (uint32_t)den) < num;
}

static inline uint64_t vh_case_seed(uint64_t seed, const char *profile, uint64_t idx)
{
  uint64_t    x = seed * 0x100000001b3ULL + 0xcbf29ce484222325ULL;
  const char *p;
  for (p = profile; p && *p; p++) {
    x = (x ^ (uint64_t)(unsigned char)*p) * 0x100000001b3ULL;
  }
  x ^= idx * 0x9e3779b97f4a7c15ULL;
  (void)vh_splitmix(&x);
  return vh_splitmix(&x);
}

/* ---------- FNV hashing for fingerprints ---------- */
static inline uint64_t vh_fnv(uint64_t h, const void *data, size_t len)
{
  const unsigned char *p = (const unsigned char *)data;
  size_t               i;
  for (i = 0; i < len; i++) {
    h = (h ^ p[i]) * 0x100000001b3ULL;
  }
  return h;
}
#define VH_FNV_INIT 0xcbf29ce484222325ULL
static inline uint64_t vh_fnv_u64(uint64_t h, uint64_t v)
{
  return vh_fnv(h, &v, sizeof(v));
}
static inline uint64_t vh_fnv_str(uint64_t h, const char *s)
{
  return vh_fnv(h, s, strlen(s) + 1);
}

/* ---------- counters ---------- */
#define VH_MAX_COUNTERS 512
typedef struct {
  const char *name;
  uint64_t    v;
} vh_counter_t;
static vh_counter_t vh_counters[VH_MAX_COUNTERS];
static int          vh_ncounters = 0;

static inline void vh_count_n(const char *name, uint64_t n)
{
  int i;
  for (i = 0; i < vh_ncounters; i++) {
    if (vh_counters[i].name == name || strcmp(vh_counters[i].name, name) == 0) {
      vh_counters[i].v += n;
      return;
    }
  }
  if (vh_ncounters < VH_MAX_COUNTERS) {
    vh_counters[vh_ncounters].name = strdup(name);
    vh_counters[vh_ncounters].v    = n;
    vh_ncounters++;
  }
}
#define vh_count(name) vh_count_n((name), 1)

/* ---------- fingerprint set (open addressing) ---------- */
static uint64_t *vh_fp_tab  = NULL;
static size_t    vh_fp_cap  = 0;
static size_t    vh_fp_used = 0;

static inline void vh_fp_add(uint64_t fp)
{
  size_t i;
  if (fp == 0) {
    fp = 1;
  }
  if ((vh_fp_used + 1) * 2 > vh_fp_cap) {
    size_t    ncap = vh_fp_cap ? vh_fp_cap * 2 : 1024;
    uint64_t *nt   = (uint64_t *)calloc(ncap, sizeof(uint64_t));
    for (i = 0; i < vh_fp_cap; i++) {
      if (vh_fp_tab[i]) {
        size_t j = (size_t)(vh_fp_tab[i] * 0x9e3779b97f4a7c15ULL >> 20) & (ncap - 1);
        while (nt[j]) {
          j = (j + 1) & (ncap - 1);
        }
        nt[j] = vh_fp_tab[i];
      }
    }
    free(vh_fp_tab);
    vh_fp_tab = nt;
    vh_fp_cap = ncap;
  }
  i = (size_t)(fp * 0x9e3779b97f4a7c15ULL >> 20) & (vh_fp_cap - 1);
  while (vh_fp_tab[i]) {
    if (vh_fp_tab[i] == fp) {
      return;
    }
    i = (i + 1) & (vh_fp_cap - 1);
  }
  vh_fp_tab[i] = fp;
  vh_fp_used++;
}

/* ---------- emission ---------- */
static uint64_t vh_cur_case   = 0;
static int      vh_verbose    = 0;
static int      vh_case_viol  = 0;
static int      vh_samples    = 0;
static int      vh_max_sample = 3;

static inline void vh_case_begin(uint64_t idx)
{
  vh_cur_case  = idx;
  vh_case_viol = 0;
  printf("C %llu\n", (unsigned long long)idx);
  fflush(stdout);
}

/* optional suffix for every violation key (fault-enumeration engines name the injected fault's site) */
static char vh_key_suffix[160];

static inline void vh_violation(const char *key, const char *fmt, ...)
{
  va_list ap;
  char    buf[2048];
  size_t  i;
  va_start(ap, fmt);
  vsnprintf(buf, sizeof(buf), fmt, ap);
  va_end(ap);
  for (i = 0; buf[i]; i++) {
    if (buf[i] == '\n') {
      buf[i] = ' ';
    }
  }
  vh_case_viol++;
  printf("V %llu %s%s | %s\n", (unsigned long long)vh_cur_case, key, vh_key_suffix, buf);
  fflush(stdout);
}

static inline void vh_inconclusive(const char *reason)
{
  printf("I %llu %s\n", (unsigned long long)vh_cur_case, reason);
}

/* emit a sample (json object text, single line); only the first few per chunk are kept */
static inline int vh_want_sample(void)
{
  return vh_samples < vh_max_sample;
}
static inline void vh_sample(const char *json)
{
  if (vh_samples < vh_max_sample) {
    vh_samples++;
    printf("X %s\n", json);
  }
}

static inline void vh_chunk_end(void)
{
  size_t i;
  int    n = 0;
  for (i = 0; i < vh_fp_cap; i++) {
    if (vh_fp_tab[i]) {
      if (n == 0) {
        printf("F");
      }
      printf(" %llx", (unsigned long long)vh_fp_tab[i]);
      if (++n == 256) {
        printf("\n");
        n = 0;
      }
    }
  }
  if (n) {
    printf("\n");
  }
  for (i = 0; i < (size_t)vh_ncounters; i++) {
    printf("N %s %llu\n", vh_counters[i].name, (unsigned long long)vh_counters[i].v);
  }
  printf("E\n");
  fflush(stdout);
}

/* verbose trace (replay mode) */
static inline void vh_trace(const char *fmt, ...)
{
  va_list ap;
  if (!vh_verbose) {
    return;
  }
  va_start(ap, fmt);
  fprintf(stderr, "T ");
  vfprintf(stderr, fmt, ap);
  fprintf(stderr, "\n");
  va_end(ap);
}

/* ---------- argument parsing ---------- */
typedef struct {
  const char *profile;
  uint64_t    seed;
  uint64_t    first;
  uint64_t    count;
  int         nopts;
  const char *optk[32];
  const char *optv[32];
} vh_args_t;

static inline void vh_parse_args(vh_args_t *a, int argc, char **argv)
{
  int i;
  memset(a, 0, sizeof(*a));
  a->profile = "default";
  a->count   = 1;
  for (i = 1; i < argc; i++) {
    if (!strcmp(argv[i], "--profile") && i + 1 < argc) {
      a->profile = argv[++i];
    } else if (!strcmp(argv[i], "--seed") && i + 1 < argc) {
      a->seed = strtoull(argv[++i], NULL, 0);
    } else if (!strcmp(argv[i], "--first") && i + 1 < argc) {
      a->first = strtoull(argv[++i], NULL, 0);
    } else if (!strcmp(argv[i], "--count") && i + 1 < argc) {
      a->count = strtoull(argv[++i], NULL, 0);
    } else if (!strcmp(argv[i], "--verbose")) {
      vh_verbose = 1;
    } else if (!strcmp(argv[i], "--opt") && i + 1 < argc && a->nopts < 32) {
      char *kv = argv[++i]; /* split in place: argv is writable and outlives us */
      char *eq = strchr(kv, '=');
      if (eq) {
        *eq = 0;
        a->optk[a->nopts] = kv;
        a->optv[a->nopts] = eq + 1;
        a->nopts++;
      }
    }
  }
}

static inline const char *vh_opt(const vh_args_t *a, const char *k, const char *dflt)
{
  int i;
  for (i = 0; i < a->nopts; i++) {
    if (!strcmp(a->optk[i], k)) {
      return a->optv[i];
    }
  }
  return dflt;
}

static inline long vh_opt_int(const vh_args_t *a, const char *k, long dflt)
{
  const char *v = vh_opt(a, k, NULL);
  return v ? strtol(v, NULL, 0) : dflt;
}

/* ---------- tiny JSON string builder ---------- */
typedef struct {
  char  *b;
  size_t len, cap;
} vh_sb_t;

static inline void vh_sb_printf(vh_sb_t *s, const char *fmt, ...)
{
  va_list ap;
  int     n;
  if (s->cap - s->len < 1024) {
    s->cap = s->cap ? s->cap * 2 + 1024 : 4096;
    s->b   = (char *)realloc(s->b, s->cap);
  }
  va_start(ap, fmt);
  n = vsnprintf(s->b + s->len, s->cap - s->len, fmt, ap);
  va_end(ap);
  if (n > 0) {
    if ((size_t)n >= s->cap - s->len) {
      n = (int)(s->cap - s->len - 1);
    }
    s->len += (size_t)n;
  }
}

/* append s as a JSON string literal (quotes included) */
static inline void vh_sb_jstr(vh_sb_t *sb, const char *s, size_t n)
{
  size_t i;
  vh_sb_printf(sb, "\"");
  for (i = 0; i < n; i++) {
    unsigned char c = (unsigned char)s[i];
    if (c == '"' || c == '\\') {
      vh_sb_printf(sb, "\\%c", c);
    } else if (c < 0x20 || c >= 0x7f) {
      vh_sb_printf(sb, "\\u%04x", c);
    } else {
      vh_sb_printf(sb, "%c", c);
    }
  }
  vh_sb_printf(sb, "\"");
}

#endif
