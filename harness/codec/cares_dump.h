/* cares_dump.h - render a c-ares ares_dns_record_t in the canonical text form of refdns_dump_ex()
 * (flags = 0 | REFDNS_DUMP_TLV_MAP), using PUBLIC getters only:
 *   ares_dns_record_get_* / query_get / rr_cnt / rr_get_const, ares_dns_rr_get_keys,
 *   ares_dns_rr_key_datatype, the typed getters, and the opt / abin iterators.
 * Presentation-format names are converted back to raw label bytes by undoing the RFC 1035 §5.1
 * escapes (\DDD, \X).  The mapping from c-ares keys to field names is this file's own table: a key
 * it does not know is printed as "?key<N>" and therefore shows up as a difference.
 *
 * Conventions applied here (each is a documented or test-pinned c-ares behaviour, see codec.c):
 *  - OPT RRs print udp_size/version/flags (+ options) instead of class/ttl; an OPT RR whose generic
 *    class/ttl getters do not say IN/0 gets an extra "!opt-class-ttl" line.
 *  - TXT strings longer than 255 octets (possible only through ares_dns_rr_add_abin) are shown
 *    split into 255-octet pieces, which is how ares_dns_write() documents it emits them
 *    (ares_dns_write.c: ares_dns_write_binstr "split into possible multiple 255-byte ... strings").
 *  - URI target has datatype NAME in c-ares but is an opaque string on the wire: printed as bytes.
 */
#ifndef CARES_DUMP_H
#define CARES_DUMP_H

#include "ares.h"
#include "refdns.h"

static void cd_raw(vh_sb_t *sb, const char *s, size_t n)
{
  if (sb->cap - sb->len < n + 1) {
    size_t ncap = sb->cap ? sb->cap : 4096;
    while (ncap - sb->len < n + 1) {
      ncap *= 2;
    }
    sb->b   = (char *)realloc(sb->b, ncap);
    sb->cap = ncap;
  }
  memcpy(sb->b + sb->len, s, n);
  sb->len += n;
  sb->b[sb->len] = 0;
}

static void cd_str(vh_sb_t *sb, const char *s)
{
  cd_raw(sb, s, strlen(s));
}

static void cd_line_u(vh_sb_t *sb, const char *path, const char *field, unsigned long v)
{
  char buf[200];
  int  n = snprintf(buf, sizeof(buf), "%s%s %lu\n", path, field, v);
  cd_raw(sb, buf, (size_t)n);
}

static void cd_line_hex(vh_sb_t *sb, const char *path, const char *field, const unsigned char *p,
                        size_t n)
{
  cd_str(sb, path);
  cd_str(sb, field);
  cd_raw(sb, " ", 1);
  if (p == NULL && n != 0) {
    cd_str(sb, "!null");
  } else {
    refdns_dump_hex(p, n, sb);
  }
  cd_raw(sb, "\n", 1);
}

/* Undo RFC 1035 §5.1 escaping.  Writes the hex-label rendering of the name.  Returns 0, or -1 if
 * the text is not a valid presentation name (marker text is emitted so that a comparison fails). */
static int cd_name_text(vh_sb_t *sb, const char *text)
{
  unsigned char lab[256];
  size_t        ll = 0, nlab = 0;
  const char   *p = text;

  if (text == NULL) {
    cd_str(sb, "!null");
    return -1;
  }
  if (text[0] == 0 || (text[0] == '.' && text[1] == 0)) {
    cd_raw(sb, ".", 1);
    return 0;
  }
  for (;;) {
    unsigned char c = (unsigned char)*p;
    if (c == 0 || c == '.') {
      if (ll == 0) {
        cd_str(sb, "!emptylabel");
        return -1;
      }
      if (nlab++) {
        cd_raw(sb, ".", 1);
      }
      refdns_dump_hex(lab, ll, sb);
      ll = 0;
      if (c == 0) {
        return 0;
      }
      p++;
      if (*p == 0) {
        return 0; /* trailing dot */
      }
      continue;
    }
    if (c == '\\') {
      p++;
      c = (unsigned char)*p;
      if (c == 0) {
        cd_str(sb, "!badescape");
        return -1;
      }
      if (c >= '0' && c <= '9') {
        unsigned v;
        if (p[1] < '0' || p[1] > '9' || p[2] < '0' || p[2] > '9') {
          cd_str(sb, "!badescape");
          return -1;
        }
        v = (unsigned)(c - '0') * 100 + (unsigned)(p[1] - '0') * 10 + (unsigned)(p[2] - '0');
        if (v > 255) {
          cd_str(sb, "!badescape");
          return -1;
        }
        c = (unsigned char)v;
        p += 2;
      }
    }
    if (ll >= sizeof(lab)) {
      cd_str(sb, "!longlabel");
      return -1;
    }
    lab[ll++] = c;
    p++;
  }
}

static const char *cd_type_name(ares_dns_rec_type_t t)
{
  switch (t) {
    case ARES_REC_TYPE_A:
      return "a";
    case ARES_REC_TYPE_NS:
      return "ns";
    case ARES_REC_TYPE_CNAME:
      return "cname";
    case ARES_REC_TYPE_SOA:
      return "soa";
    case ARES_REC_TYPE_PTR:
      return "ptr";
    case ARES_REC_TYPE_HINFO:
      return "hinfo";
    case ARES_REC_TYPE_MX:
      return "mx";
    case ARES_REC_TYPE_TXT:
      return "txt";
    case ARES_REC_TYPE_SIG:
      return "sig";
    case ARES_REC_TYPE_AAAA:
      return "aaaa";
    case ARES_REC_TYPE_SRV:
      return "srv";
    case ARES_REC_TYPE_NAPTR:
      return "naptr";
    case ARES_REC_TYPE_OPT:
      return "opt";
    case ARES_REC_TYPE_TLSA:
      return "tlsa";
    case ARES_REC_TYPE_SVCB:
      return "svcb";
    case ARES_REC_TYPE_HTTPS:
      return "https";
    case ARES_REC_TYPE_URI:
      return "uri";
    case ARES_REC_TYPE_CAA:
      return "caa";
    case ARES_REC_TYPE_RAW_RR:
      return "raw";
    case ARES_REC_TYPE_ANY:
      return "?any";
  }
  return "?type";
}

static const char *cd_key_name(ares_dns_rr_key_t key, char *tmp, size_t tmplen)
{
  switch (key) {
    case ARES_RR_A_ADDR:
    case ARES_RR_AAAA_ADDR:
      return "address";
    case ARES_RR_NS_NSDNAME:
      return "nsdname";
    case ARES_RR_CNAME_CNAME:
      return "cname";
    case ARES_RR_SOA_MNAME:
      return "mname";
    case ARES_RR_SOA_RNAME:
      return "rname";
    case ARES_RR_SOA_SERIAL:
      return "serial";
    case ARES_RR_SOA_REFRESH:
      return "refresh";
    case ARES_RR_SOA_RETRY:
      return "retry";
    case ARES_RR_SOA_EXPIRE:
      return "expire";
    case ARES_RR_SOA_MINIMUM:
      return "minimum";
    case ARES_RR_PTR_DNAME:
      return "ptrdname";
    case ARES_RR_HINFO_CPU:
      return "cpu";
    case ARES_RR_HINFO_OS:
      return "os";
    case ARES_RR_MX_PREFERENCE:
      return "preference";
    case ARES_RR_MX_EXCHANGE:
      return "exchange";
    case ARES_RR_TXT_DATA:
      return "txt";
    case ARES_RR_SIG_TYPE_COVERED:
      return "type_covered";
    case ARES_RR_SIG_ALGORITHM:
      return "algorithm";
    case ARES_RR_SIG_LABELS:
      return "labels";
    case ARES_RR_SIG_ORIGINAL_TTL:
      return "original_ttl";
    case ARES_RR_SIG_EXPIRATION:
      return "expiration";
    case ARES_RR_SIG_INCEPTION:
      return "inception";
    case ARES_RR_SIG_KEY_TAG:
      return "key_tag";
    case ARES_RR_SIG_SIGNERS_NAME:
      return "signer";
    case ARES_RR_SIG_SIGNATURE:
      return "signature";
    case ARES_RR_SRV_PRIORITY:
    case ARES_RR_SVCB_PRIORITY:
    case ARES_RR_HTTPS_PRIORITY:
    case ARES_RR_URI_PRIORITY:
      return "priority";
    case ARES_RR_SRV_WEIGHT:
    case ARES_RR_URI_WEIGHT:
      return "weight";
    case ARES_RR_SRV_PORT:
      return "port";
    case ARES_RR_SRV_TARGET:
    case ARES_RR_SVCB_TARGET:
    case ARES_RR_HTTPS_TARGET:
    case ARES_RR_URI_TARGET:
      return "target";
    case ARES_RR_NAPTR_ORDER:
      return "order";
    case ARES_RR_NAPTR_PREFERENCE:
      return "preference";
    case ARES_RR_NAPTR_FLAGS:
      return "flags";
    case ARES_RR_NAPTR_SERVICES:
      return "services";
    case ARES_RR_NAPTR_REGEXP:
      return "regexp";
    case ARES_RR_NAPTR_REPLACEMENT:
      return "replacement";
    case ARES_RR_OPT_UDP_SIZE:
      return "udp_size";
    case ARES_RR_OPT_VERSION:
      return "version";
    case ARES_RR_OPT_FLAGS:
      return "flags";
    case ARES_RR_OPT_OPTIONS:
      return "options";
    case ARES_RR_TLSA_CERT_USAGE:
      return "usage";
    case ARES_RR_TLSA_SELECTOR:
      return "selector";
    case ARES_RR_TLSA_MATCH:
      return "mtype";
    case ARES_RR_TLSA_DATA:
      return "data";
    case ARES_RR_SVCB_PARAMS:
    case ARES_RR_HTTPS_PARAMS:
      return "params";
    case ARES_RR_CAA_CRITICAL:
      return "flags";
    case ARES_RR_CAA_TAG:
      return "tag";
    case ARES_RR_CAA_VALUE:
      return "value";
    case ARES_RR_RAW_RR_TYPE:
      return "type";
    case ARES_RR_RAW_RR_DATA:
      return "data";
  }
  snprintf(tmp, tmplen, "?key%d", (int)key);
  return tmp;
}

static void cd_rr(vh_sb_t *sb, const char *secname, size_t idx, const ares_dns_rr_t *rr)
{
  char                     path[96], tmp[32], fp[200];
  ares_dns_rec_type_t      t = ares_dns_rr_get_type(rr);
  size_t                   nkeys = 0, k, i;
  const ares_dns_rr_key_t *keys;

  snprintf(path, sizeof(path), "%s%zu.%s.", secname, idx, cd_type_name(t));
  cd_str(sb, path);
  cd_str(sb, "name ");
  cd_name_text(sb, ares_dns_rr_get_name(rr));
  cd_raw(sb, "\n", 1);
  if (t == ARES_REC_TYPE_RAW_RR) {
    cd_line_u(sb, path, "type", ares_dns_rr_get_u16(rr, ARES_RR_RAW_RR_TYPE));
  } else {
    cd_line_u(sb, path, "type", (unsigned long)t);
  }
  if (t == ARES_REC_TYPE_OPT) {
    if (ares_dns_rr_get_class(rr) != ARES_CLASS_IN || ares_dns_rr_get_ttl(rr) != 0) {
      cd_line_u(sb, path, "!opt-class-ttl", (unsigned long)ares_dns_rr_get_class(rr));
    }
  } else {
    cd_line_u(sb, path, "class", (unsigned long)ares_dns_rr_get_class(rr));
    cd_line_u(sb, path, "ttl", (unsigned long)ares_dns_rr_get_ttl(rr));
  }
  keys = ares_dns_rr_get_keys(t, &nkeys);
  for (k = 0; keys != NULL && k < nkeys; k++) {
    ares_dns_rr_key_t   key = keys[k];
    const char         *fn  = cd_key_name(key, tmp, sizeof(tmp));
    ares_dns_datatype_t dt  = ares_dns_rr_key_datatype(key);
    if (key == ARES_RR_RAW_RR_TYPE) {
      continue; /* printed above as the RR type */
    }
    if (key == ARES_RR_URI_TARGET) {
      const char *s = ares_dns_rr_get_str(rr, key);
      cd_line_hex(sb, path, fn, (const unsigned char *)s, s ? strlen(s) : 1);
      continue;
    }
    switch (dt) {
      case ARES_DATATYPE_INADDR: {
        const struct in_addr *a = ares_dns_rr_get_addr(rr, key);
        cd_line_hex(sb, path, fn, (const unsigned char *)a, 4);
        break;
      }
      case ARES_DATATYPE_INADDR6: {
        const struct ares_in6_addr *a = ares_dns_rr_get_addr6(rr, key);
        cd_line_hex(sb, path, fn, (const unsigned char *)a, 16);
        break;
      }
      case ARES_DATATYPE_U8:
        cd_line_u(sb, path, fn, ares_dns_rr_get_u8(rr, key));
        break;
      case ARES_DATATYPE_U16:
        cd_line_u(sb, path, fn, ares_dns_rr_get_u16(rr, key));
        break;
      case ARES_DATATYPE_U32:
        cd_line_u(sb, path, fn, ares_dns_rr_get_u32(rr, key));
        break;
      case ARES_DATATYPE_NAME:
        cd_str(sb, path);
        cd_str(sb, fn);
        cd_raw(sb, " ", 1);
        cd_name_text(sb, ares_dns_rr_get_str(rr, key));
        cd_raw(sb, "\n", 1);
        break;
      case ARES_DATATYPE_STR: {
        const char *s = ares_dns_rr_get_str(rr, key);
        cd_line_hex(sb, path, fn, (const unsigned char *)s, s ? strlen(s) : 1);
        break;
      }
      case ARES_DATATYPE_BIN:
      case ARES_DATATYPE_BINP: {
        size_t               len = 0;
        const unsigned char *p   = ares_dns_rr_get_bin(rr, key, &len);
        cd_line_hex(sb, path, fn, p, len);
        break;
      }
      case ARES_DATATYPE_ABINP: {
        size_t cnt = ares_dns_rr_get_abin_cnt(rr, key);
        size_t out = 0, total = 0, clen = 0;
        size_t pieces = 0;
        const unsigned char *c;
        for (i = 0; i < cnt; i++) {
          size_t len = 0;
          (void)ares_dns_rr_get_abin(rr, key, i, &len);
          pieces += len > 255 ? (len + 254) / 255 : 1;
        }
        snprintf(fp, sizeof(fp), "%s.count", fn);
        cd_line_u(sb, path, fp, (unsigned long)pieces);
        for (i = 0; i < cnt; i++) {
          size_t               len = 0, o;
          const unsigned char *p   = ares_dns_rr_get_abin(rr, key, i, &len);
          total += len;
          o = 0;
          do {
            size_t n = len - o > 255 ? 255 : len - o;
            snprintf(fp, sizeof(fp), "%s[%zu]", fn, out++);
            cd_line_hex(sb, path, fp, p ? p + o : NULL, n);
            o += n;
          } while (o < len);
        }
        /* the concatenated view must agree with the pieces */
        c = ares_dns_rr_get_bin(rr, key, &clen);
        if (cnt != 0 && (clen != total || (total != 0 && c == NULL))) {
          snprintf(fp, sizeof(fp), "%s.!concat-length", fn);
          cd_line_u(sb, path, fp, (unsigned long)clen);
        }
        {
          /* reading is not an event: a second (and third) read of the same record says the same */
          size_t               clen2 = 0, clen3 = 0;
          const unsigned char *c2    = ares_dns_rr_get_bin(rr, key, &clen2);
          const unsigned char *c3    = ares_dns_rr_get_bin(rr, key, &clen3);
          if (clen2 != clen || clen3 != clen || (clen && c && c2 && memcmp(c, c2, clen) != 0) || (clen && (c2 == NULL || c3 == NULL) && c != NULL)) {
            snprintf(fp, sizeof(fp), "%s.!concat-reread-length", fn);
            cd_line_u(sb, path, fp, (unsigned long)clen2);
          }
        }
        break;
      }
      case ARES_DATATYPE_OPT: {
        size_t cnt = ares_dns_rr_get_opt_cnt(rr, key);
        snprintf(fp, sizeof(fp), "%s.count", fn);
        cd_line_u(sb, path, fp, (unsigned long)cnt);
        for (i = 0; i < cnt; i++) {
          const unsigned char *val  = NULL;
          size_t               vlen = 0;
          unsigned short       code = ares_dns_rr_get_opt(rr, key, i, &val, &vlen);
          snprintf(fp, sizeof(fp), "%s[%zu].code", fn, i);
          cd_line_u(sb, path, fp, code);
          snprintf(fp, sizeof(fp), "%s[%zu].value", fn, i);
          cd_line_hex(sb, path, fp, val, vlen);
        }
        break;
      }
      default:
        snprintf(fp, sizeof(fp), "%s.!datatype", fn);
        cd_line_u(sb, path, fp, (unsigned long)dt);
        break;
    }
  }
}

static void cares_dump(const ares_dns_record_t *rec, vh_sb_t *sb)
{
  static const char *secname[4] = { "?", "an", "ns", "ar" };
  unsigned short     fl         = ares_dns_record_get_flags(rec);
  size_t             i;
  int                sec;

  cd_line_u(sb, "hdr.", "id", ares_dns_record_get_id(rec));
  cd_line_u(sb, "hdr.", "qr", (fl & ARES_FLAG_QR) ? 1 : 0);
  cd_line_u(sb, "hdr.", "opcode", (unsigned long)ares_dns_record_get_opcode(rec));
  cd_line_u(sb, "hdr.", "aa", (fl & ARES_FLAG_AA) ? 1 : 0);
  cd_line_u(sb, "hdr.", "tc", (fl & ARES_FLAG_TC) ? 1 : 0);
  cd_line_u(sb, "hdr.", "rd", (fl & ARES_FLAG_RD) ? 1 : 0);
  cd_line_u(sb, "hdr.", "ra", (fl & ARES_FLAG_RA) ? 1 : 0);
  cd_line_u(sb, "hdr.", "ad", (fl & ARES_FLAG_AD) ? 1 : 0);
  cd_line_u(sb, "hdr.", "cd", (fl & ARES_FLAG_CD) ? 1 : 0);
  cd_line_u(sb, "hdr.", "rcode", (unsigned long)ares_dns_record_get_rcode(rec));
  cd_line_u(sb, "hdr.", "qdcount", (unsigned long)ares_dns_record_query_cnt(rec));
  cd_line_u(sb, "hdr.", "ancount", (unsigned long)ares_dns_record_rr_cnt(rec, ARES_SECTION_ANSWER));
  cd_line_u(sb, "hdr.", "nscount",
            (unsigned long)ares_dns_record_rr_cnt(rec, ARES_SECTION_AUTHORITY));
  cd_line_u(sb, "hdr.", "arcount",
            (unsigned long)ares_dns_record_rr_cnt(rec, ARES_SECTION_ADDITIONAL));
  for (i = 0; i < ares_dns_record_query_cnt(rec); i++) {
    const char         *name = NULL;
    ares_dns_rec_type_t qt   = 0;
    ares_dns_class_t    qc   = 0;
    char                path[32];
    snprintf(path, sizeof(path), "q%zu.", i);
    if (ares_dns_record_query_get(rec, i, &name, &qt, &qc) != ARES_SUCCESS) {
      name = NULL;
    }
    cd_str(sb, path);
    cd_str(sb, "name ");
    cd_name_text(sb, name);
    cd_raw(sb, "\n", 1);
    cd_line_u(sb, path, "type", (unsigned long)qt);
    cd_line_u(sb, path, "class", (unsigned long)qc);
  }
  for (sec = ARES_SECTION_ANSWER; sec <= ARES_SECTION_ADDITIONAL; sec++) {
    size_t cnt = ares_dns_record_rr_cnt(rec, (ares_dns_section_t)sec);
    for (i = 0; i < cnt; i++) {
      const ares_dns_rr_t *rr = ares_dns_record_rr_get_const(rec, (ares_dns_section_t)sec, i);
      if (rr == NULL) {
        cd_line_u(sb, secname[sec], ".!null-rr", (unsigned long)i);
        continue;
      }
      cd_rr(sb, secname[sec], i, rr);
    }
  }
}

#endif
