/* cdiff.h - canonical-dump comparison, violation-key derivation, and the rules that relate the
 * RFC reference (refdns) to what c-ares documents / pins about its parser:  the "supported
 * subset" and the leniencies applied on the reference side.  Every rule cites its source.
 */
#ifndef CODEC_CDIFF_H
#define CODEC_CDIFF_H

#include "refdns.h"

/* ---------- first differing line of two dumps ---------- */
typedef struct {
  int  differ;
  char path[128]; /* path of the line (from the first dump if it has the line, else the second) */
  char a[400];    /* the two lines, truncated */
  char b[400];
} cd_diff_t;

static void cd_copy_line(char *dst, size_t cap, const char *s)
{
  size_t n = 0;
  while (s[n] && s[n] != '\n' && n + 1 < cap) {
    dst[n] = s[n];
    n++;
  }
  dst[n] = 0;
}

static void cd_first_diff(const char *a, const char *b, cd_diff_t *d)
{
  const char *la = a ? a : "", *lb = b ? b : "";
  size_t      i;
  d->differ  = 0;
  d->path[0] = d->a[0] = d->b[0] = 0;
  while (*la || *lb) {
    const char *ea = strchr(la, '\n'), *eb = strchr(lb, '\n');
    size_t      na = ea ? (size_t)(ea - la) : strlen(la);
    size_t      nb = eb ? (size_t)(eb - lb) : strlen(lb);
    if (na != nb || memcmp(la, lb, na) != 0) {
      const char *src = *la ? la : lb;
      d->differ       = 1;
      cd_copy_line(d->a, sizeof(d->a), la);
      cd_copy_line(d->b, sizeof(d->b), lb);
      for (i = 0; src[i] && src[i] != ' ' && src[i] != '\n' && i + 1 < sizeof(d->path); i++) {
        d->path[i] = src[i];
      }
      d->path[i] = 0;
      return;
    }
    la += na + (ea ? 1 : 0);
    lb += nb + (eb ? 1 : 0);
  }
}

/* "an3.srv.port" -> "srv:port";  "hdr.rcode" -> "header:rcode";  "q0.name" -> "question:name";
 * list indices are blanked: "ar0.opt.options[2].value" -> "opt:options[].value" */
static void cd_key_from_path(const char *path, char *out, size_t cap)
{
  const char *p = path, *dot;
  size_t      o = 0;
  char        tmp[128];
  if (strncmp(p, "hdr.", 4) == 0) {
    snprintf(tmp, sizeof(tmp), "header:%s", p + 4);
  } else if (p[0] == 'q' && p[1] >= '0' && p[1] <= '9') {
    dot = strchr(p, '.');
    snprintf(tmp, sizeof(tmp), "question:%s", dot ? dot + 1 : "?");
  } else {
    const char *t;
    dot = strchr(p, '.');
    t   = dot ? dot + 1 : p;
    dot = strchr(t, '.');
    if (dot) {
      snprintf(tmp, sizeof(tmp), "%.*s:%s", (int)(dot - t), t, dot + 1);
    } else {
      snprintf(tmp, sizeof(tmp), "%s:?", t);
    }
  }
  for (p = tmp; *p && o + 1 < cap; p++) {
    if (*p >= '0' && *p <= '9' && o > 0 && (out[o - 1] == '[')) {
      while (p[1] >= '0' && p[1] <= '9') {
        p++;
      }
      continue;
    }
    out[o++] = *p;
  }
  out[o] = 0;
}

static void cd_hexdump(const uint8_t *p, size_t n, char *out, size_t cap)
{
  static const char hx[] = "0123456789abcdef";
  size_t            i, o = 0;
  for (i = 0; i < n && o + 8 < cap; i++) {
    out[o++] = hx[p[i] >> 4];
    out[o++] = hx[p[i] & 15];
  }
  if (i < n && o + 4 < cap) {
    out[o++] = '.';
    out[o++] = '.';
  }
  out[o] = 0;
}

/* ---------- c-ares's documented value conventions, applied to the reference side ---------- */

/* ares_dns_rcode_t lists the response codes c-ares represents (include/ares_dns_record.h,
 * docs/ares_dns_record.3); ares_dns_parse_buf() "Finalize rcode": any other 12-bit value is
 * reported as SERVFAIL. */
static unsigned cd_rcode_as_cares(unsigned rcode12)
{
  if (rcode12 <= 11 || (rcode12 >= 16 && rcode12 <= 23)) {
    return rcode12;
  }
  return 2;
}

static int cd_printable(const uint8_t *p, size_t n)
{
  size_t i;
  for (i = 0; i < n; i++) {
    if (p[i] < 0x20 || p[i] > 0x7e) {
      return 0;
    }
  }
  return 1;
}

/* Types defined by RFC 1035 among those c-ares decodes; docs/ares_dns_record.3 describes the
 * ARES_DNS_PARSE_*_BASE_RAW flags as "from RFC 1035 that allow name compression" and *_EXT_RAW
 * as "from later RFCs". */
static int cd_is_rfc1035_type(uint16_t t)
{
  return t == REFDNS_T_A || t == REFDNS_T_NS || t == REFDNS_T_CNAME || t == REFDNS_T_SOA ||
         t == REFDNS_T_PTR || t == REFDNS_T_HINFO || t == REFDNS_T_MX || t == REFDNS_T_TXT;
}

typedef struct {
  unsigned flags; /* ares_dns_parse flags */
} cd_rawpolicy_t;

static int cd_treat_raw(void *ud, int section, uint16_t type)
{
  const cd_rawpolicy_t *p    = (const cd_rawpolicy_t *)ud;
  int                   base = cd_is_rfc1035_type(type);
  unsigned              bit  = 0;
  /* bit layout of ares_dns_parse_flags_t: AN_BASE=1, NS_BASE=2, AR_BASE=4, AN_EXT=8, NS_EXT=16,
   * AR_EXT=32 (include/ares_dns_record.h) */
  if (section == REFDNS_SEC_AN) {
    bit = base ? 1u : 8u;
  } else if (section == REFDNS_SEC_NS) {
    bit = base ? 2u : 16u;
  } else {
    bit = base ? 4u : 32u;
  }
  return (p->flags & bit) != 0;
}

/* The "supported subset": RFC-well-formed messages that c-ares nevertheless refuses by documented
 * or test-pinned choice.  Returns NULL when the message is inside the subset, else a short reason
 * (used as a counter name).  D must have been decoded without a hard error. */
static const char *cd_outside_subset(const refdns_msg_t *D)
{
  size_t i, k;
  /* ares_dns_parse.c ares_dns_parse_buf(): "Must have questions" / qdcount > 1 rejected (XXX
   * comment: no flag yet for multiple questions). */
  if (D->qdcount != 1) {
    return "qdcount";
  }
  /* ares_dns_opcode_t / ares_dns_opcode_isvalid(): QUERY IQUERY STATUS NOTIFY UPDATE only;
   * ares_dns_record_create() refuses others (docs/ares_dns_record.3 lists the enum). */
  if (!(D->opcode == 0 || D->opcode == 1 || D->opcode == 2 || D->opcode == 4 || D->opcode == 5)) {
    return "opcode";
  }
  /* ares_dns_class_t: IN CHAOS HESIOD NONE ANY; ares_dns_record_query_add() validates. */
  for (i = 0; i < D->nq; i++) {
    uint16_t c = D->q[i].klass;
    if (!(c == 1 || c == 3 || c == 4 || c == 254 || c == 255)) {
      return "qclass";
    }
  }
  /* ares_dns_name_parse(): "offset >= label_start" - a pointer must land before everything of
   * the current name read so far (code comment cites RFC 1035 4.1.4 "prior occurrence" and BIND).
   * Stricter than "strictly backward"; cases are counted. */
  if (D->soft & REFDNS_SOFT_PTR_INTO_SELF) {
    return "ptr-into-self";
  }
  for (i = 0; i < D->nrr; i++) {
    const refdns_rr_t *rr = &D->rr[i];
    if (rr->type == REFDNS_T_ANY) {
      /* ARES_REC_TYPE_ANY "Wildcard match.  Not response RR." (include/ares_dns_record.h);
       * ares_dns_parse_rr_data() returns EBADRESP for it. */
      return "type-any";
    }
    if (!rr->typed) {
      continue; /* opaque RRs: class not validated (ares_dns_class_isvalid comment) */
    }
    if (rr->type != REFDNS_T_OPT) {
      /* ares_dns_class_isvalid(): IN CH HS NONE for RRs; ANY only for SIG (RFC 2931) */
      uint16_t c = rr->klass;
      if (!(c == 1 || c == 3 || c == 4 || c == 254 || (c == 255 && rr->type == REFDNS_T_SIG))) {
        return "rr-class";
      }
    }
    for (k = 0; k < rr->nfields; k++) {
      const refdns_field_t *f = &rr->fields[k];
      if (f->kind == REFDNS_F_CSTR && !cd_printable(f->bytes.p, f->bytes.n)) {
        /* ares_buf_parse_dns_str(): HINFO / NAPTR / CAA-tag strings are returned as C strings
         * and "really need to be validated to be a valid printable ascii string" */
        return "str-nonprint";
      }
      if (f->kind == REFDNS_F_REST) {
        if (f->bytes.n == 0) {
          /* SIG signature, TLSA data, URI target, CAA value: "required to be non-zero length"
           * (ares_dns_parse.c / ares_dns_write.c comments) */
          return "rest-empty";
        }
        if (rr->type == REFDNS_T_URI && !cd_printable(f->bytes.p, f->bytes.n)) {
          /* URI target is exposed through ares_dns_rr_get_str(): ares_str_isprint() enforced */
          return "uri-nonprint";
        }
      }
    }
  }
  return NULL;
}

#endif
