/* gen.h - seeded, structure-aware DNS message generator over refdns_msg_t, plus byte-level
 * mutations.  Shared by the differential (C04) and round-trip (C03) profiles.
 *
 * A case is a pure function of the vh_rng_t state handed in.
 */
#ifndef CODEC_GEN_H
#define CODEC_GEN_H

#include "refdns.h"

#define GEN_MAXWIRE 70000

typedef struct {
  int hostsafe_pct;     /* share of owner/question names made of hostname characters only */
  int mutate;           /* 0: never mutate; 1: the 0/1/2/many mix */
  int allow_rdlen0_raw; /* permit unknown-type RRs with RDLENGTH 0 (trigger of a known finding) */
  int max_rr;           /* upper bound for the common case */
  int conform_pct;      /* share of cases kept inside the subset c-ares accepts (valid classes and
                         * opcode, one question, printable strings, no deliberate irregularity) */
} gen_opts_t;

typedef struct {
  refdns_msg_t       m;
  refdns_layout_t    lay;
  refdns_name_over_t over[3];
  refdns_encmap_t    map;
  uint8_t           *wire; /* what the case feeds to the decoders (after mutation) */
  size_t             wlen;
  size_t             clean_len; /* length before mutation */
  int                nmut;      /* byte-level mutations applied */
  int                struct_bad; /* the structure itself was made irregular (count lies, rdlength
                                  * lies, explicit pointer overrides) */
  int                layout_class; /* 0 none 1 first 2 random 3 explicit */
  int                has_rdlen0_raw;
  int                conform;
  /* fingerprint material: one (type, layout, boundary class) triple per RR */
  size_t   ntriples;
  uint32_t triples[64];
  /* shared suffix pool */
  refdns_name_t pool[6];
  uint8_t       pool_safe[6]; /* made of hostname characters only */
  size_t        npool;
  const gen_opts_t *opts;
} gen_case_t;

static const uint16_t gen_known_types[] = { 1, 2, 5, 6, 12, 13, 15, 16, 24, 28, 33, 35, 41, 52, 64, 65, 256, 257 };
static const uint16_t gen_unknown_types[] = { 0,   3,   10,  11,  17,  25,  29,   39,    43,   46,
                                              47,  48,  50,  99,  108, 249, 250,  251,   252,  254,
                                              258, 259, 260, 261, 32768, 32769, 65280, 65432, 65534, 65535 };

static uint32_t gen_pick_u32(vh_rng_t *r)
{
  static const uint32_t b[] = { 0u, 1u, 300u, 0x7fffffffu, 0x80000000u, 0xffffffffu, 86400u, 0x7ffffffeu, 0x80000001u };
  if (vh_chance(r, 1, 2)) {
    return b[vh_below(r, sizeof(b) / sizeof(b[0]))];
  }
  return (uint32_t)vh_rand64(r);
}

static uint16_t gen_pick_u16(vh_rng_t *r)
{
  static const uint16_t b[] = { 0, 1, 255, 256, 0x7fff, 0x8000, 65535, 443, 0x1234 };
  if (vh_chance(r, 1, 2)) {
    return b[vh_below(r, sizeof(b) / sizeof(b[0]))];
  }
  return (uint16_t)vh_rand64(r);
}

static uint8_t gen_pick_u8(vh_rng_t *r)
{
  static const uint8_t b[] = { 0, 1, 2, 3, 127, 128, 255 };
  if (vh_chance(r, 1, 2)) {
    return b[vh_below(r, sizeof(b))];
  }
  return (uint8_t)vh_rand64(r);
}

static void gen_bytes(vh_rng_t *r, uint8_t *p, size_t n, int printable)
{
  size_t i;
  for (i = 0; i < n; i++) {
    p[i] = printable ? (uint8_t)(0x20 + vh_below(r, 0x5f)) : (uint8_t)vh_rand64(r);
  }
}

/* label content.  style 0: hostname characters; 1: arbitrary octets biased to the awkward ones */
static size_t gen_label(vh_rng_t *r, uint8_t *out, int style, size_t maxlen)
{
  static const char    host[]    = "abcdefghijklmnopqrstuvwxyz0123456789-_";
  static const uint8_t awkward[] = { 0x00, '.', '\\', '"', '@', '(', ')', ';', '$', ' ', 0x7f, 0x80,
                                     0xff, 'A', 'z', '0', '*', '/', 0x1f, 0xc0, '\t', '\n' };
  size_t               len, i;
  uint32_t             c = vh_below(r, 100);
  if (c < 65) {
    len = 1 + vh_below(r, 8);
  } else if (c < 80) {
    len = 9 + vh_below(r, 22);
  } else if (c < 90) {
    len = 62 + vh_below(r, 2);
  } else {
    len = 1;
  }
  if (len > maxlen) {
    len = maxlen;
  }
  if (len == 0) {
    return 0;
  }
  if (style == 0) {
    for (i = 0; i < len; i++) {
      out[i] = (uint8_t)host[vh_below(r, i == 0 ? 36 : 38)];
    }
    if (vh_chance(r, 1, 10)) {
      for (i = 0; i < len; i++) {
        if (out[i] >= 'a' && out[i] <= 'z' && vh_chance(r, 1, 2)) {
          out[i] = (uint8_t)(out[i] - 32);
        }
      }
    }
  } else {
    int mode = (int)vh_below(r, 4);
    for (i = 0; i < len; i++) {
      if (mode == 0) {
        out[i] = (uint8_t)vh_rand64(r);
      } else if (mode == 1) {
        out[i] = awkward[vh_below(r, sizeof(awkward))];
      } else if (mode == 2) {
        out[i] = vh_chance(r, 1, 4) ? awkward[vh_below(r, sizeof(awkward))]
                                    : (uint8_t)host[vh_below(r, 38)];
      } else {
        out[i] = i == 0 ? awkward[vh_below(r, sizeof(awkward))] : out[0];
      }
    }
  }
  return len;
}

static void gen_name_random(vh_rng_t *r, refdns_name_t *n, int style, int nlabels)
{
  int     i;
  uint8_t lab[64];
  refdns_name_root(n);
  for (i = 0; i < nlabels; i++) {
    size_t room = 255 - refdns_name_wirelen(n);
    size_t l;
    if (room < 2) {
      break;
    }
    l = gen_label(r, lab, style, room - 1 > 63 ? 63 : room - 1);
    if (l == 0 || refdns_name_push_back(n, lab, l) != 0) {
      break;
    }
  }
}

/* a name of exactly 255 octets */
static void gen_name_max(vh_rng_t *r, refdns_name_t *n, int style)
{
  uint8_t lab[64];
  refdns_name_root(n);
  if (vh_chance(r, 1, 3)) {
    while (refdns_name_wirelen(n) + 2 <= 255) { /* 127 one-octet labels */
      lab[0] = style ? (uint8_t)vh_rand64(r) : (uint8_t)('a' + vh_below(r, 26));
      if (refdns_name_push_back(n, lab, 1) != 0) {
        break;
      }
    }
    return;
  }
  for (;;) {
    size_t room = 255 - refdns_name_wirelen(n);
    size_t l, i;
    if (room < 2) {
      break;
    }
    l = room - 1 > 63 ? 63 : room - 1;
    for (i = 0; i < l; i++) {
      lab[i] = style ? (uint8_t)vh_rand64(r) : (uint8_t)('a' + vh_below(r, 26));
    }
    if (style && vh_chance(r, 1, 2)) {
      memset(lab, vh_chance(r, 1, 2) ? '.' : 0x01, l);
    }
    if (refdns_name_push_back(n, lab, l) != 0) {
      break;
    }
  }
}

static void gen_name(gen_case_t *g, vh_rng_t *r, refdns_name_t *n, int hostsafe)
{
  int      style = hostsafe ? 0 : 1;
  uint32_t c     = vh_below(r, 100);
  if (c < 4) {
    refdns_name_root(n);
  } else if (c < 7) {
    gen_name_max(r, n, style);
  } else if (c < 72 && g->npool) {
    /* 0..3 fresh labels in front of a pooled suffix */
    size_t               pi   = vh_below(r, (uint32_t)g->npool);
    const refdns_name_t *base;
    int                  k    = (int)vh_below(r, 4);
    uint8_t              lab[64];
    if (hostsafe && !g->pool_safe[pi]) {
      size_t t;
      for (t = 0; t < g->npool; t++) {
        if (g->pool_safe[t]) {
          pi = t;
        }
      }
      if (!g->pool_safe[pi]) {
        gen_name_random(r, n, 0, 1 + (int)vh_below(r, 4));
        return;
      }
    }
    base = &g->pool[pi];
    *n = *base;
    while (k-- > 0) {
      size_t room = 255 - refdns_name_wirelen(n);
      size_t l;
      if (room < 2) {
        break;
      }
      l = gen_label(r, lab, style, room - 1 > 63 ? 63 : room - 1);
      if (l == 0 || refdns_name_push_front(n, lab, l) != 0) {
        break;
      }
    }
  } else {
    gen_name_random(r, n, style, 1 + (int)vh_below(r, 5));
  }
  /* occasionally feed the pool so later names share this one */
  if (g->npool < 6 && n->nlabels > 0 && vh_chance(r, 1, 3)) {
    g->pool_safe[g->npool] = (uint8_t)hostsafe;
    g->pool[g->npool++]    = *n;
  }
}

static uint16_t gen_class_c(vh_rng_t *r, int conform)
{
  static const uint16_t valid[] = { 3, 4, 254 };
  if (conform) {
    return vh_chance(r, 4, 5) ? 1 : valid[vh_below(r, 3)];
  }
  {
    static const uint16_t valid2[] = { 3, 4, 254, 255 };
    static const uint16_t other[]  = { 0, 2, 5, 256, 65535, 65280 };
    uint32_t              c        = vh_below(r, 100);
    if (c < 80) {
      return 1;
    }
    if (c < 96) {
      return valid2[vh_below(r, 4)];
    }
    return other[vh_below(r, sizeof(other) / sizeof(other[0]))];
  }
}

static uint16_t gen_class(vh_rng_t *r)
{
  static const uint16_t valid[] = { 3, 4, 254, 255 };
  static const uint16_t other[] = { 0, 2, 5, 256, 65535, 65280 };
  uint32_t              c       = vh_below(r, 100);
  if (c < 80) {
    return 1;
  }
  if (c < 96) {
    return valid[vh_below(r, 4)];
  }
  return other[vh_below(r, sizeof(other) / sizeof(other[0]))];
}

static size_t gen_len_small(vh_rng_t *r, size_t max)
{
  uint32_t c = vh_below(r, 100);
  size_t   l;
  if (c < 10) {
    l = 0;
  } else if (c < 25) {
    l = 1;
  } else if (c < 35) {
    l = max;
  } else if (c < 85) {
    l = 2 + vh_below(r, 30);
  } else {
    l = vh_below(r, (uint32_t)max + 1);
  }
  return l > max ? max : l;
}

static void gen_opt_options(vh_rng_t *r, refdns_rr_t *rr)
{
  int     n = (int)vh_below(r, 5), i;
  uint8_t buf[600];
  if (vh_chance(r, 1, 20)) {
    n = 5 + (int)vh_below(r, 20);
  }
  for (i = 0; i < n; i++) {
    uint32_t c = vh_below(r, 100);
    uint16_t code;
    size_t   len;
    if (c < 35) {
      static const size_t cookie_len[] = { 8, 16, 24, 40, 0, 7, 9, 41 };
      code = REFDNS_OPT_COOKIE;
      len  = cookie_len[vh_below(r, c < 28 ? 4 : 8)];
    } else if (c < 45) {
      code = 12; /* padding */
      len  = gen_len_small(r, 468);
    } else if (c < 55) {
      code = 3; /* NSID */
      len  = gen_len_small(r, 40);
    } else if (c < 65) {
      code = 8; /* client subnet */
      len  = 4 + vh_below(r, 17);
    } else if (c < 72) {
      code = 15; /* extended error */
      len  = 2 + vh_below(r, 40);
    } else if (c < 80) {
      code = (uint16_t)(1 + vh_below(r, 20));
      len  = 0;
    } else {
      code = gen_pick_u16(r);
      len  = gen_len_small(r, 300);
    }
    gen_bytes(r, buf, len, 0);
    refdns_rr_add_tlv(rr, "options", code, buf, len);
  }
}

static void gen_svc_params(vh_rng_t *r, refdns_rr_t *rr)
{
  int      n = (int)vh_below(r, 5), i;
  uint8_t  buf[300];
  uint32_t key = 0;
  int      ordered = !vh_chance(r, 1, 12);
  for (i = 0; i < n; i++) {
    size_t len;
    if (ordered) {
      key += (i == 0 ? 0 : 1) + vh_below(r, 3);
    } else {
      key = vh_below(r, 8);
    }
    if (vh_chance(r, 1, 15)) {
      key = 65535 - vh_below(r, 3);
    }
    switch (key) {
      case 0: /* mandatory: list of u16 keys */
        len = 2 * (1 + vh_below(r, 3));
        break;
      case 1: /* alpn: length-prefixed ids */
        len = 3;
        break;
      case 2: /* no-default-alpn: empty */
        len = 0;
        break;
      case 3: /* port */
        len = 2;
        break;
      case 4: /* ipv4hint */
        len = 4 * (1 + vh_below(r, 3));
        break;
      case 6: /* ipv6hint */
        len = 16 * (1 + vh_below(r, 2));
        break;
      default:
        len = gen_len_small(r, 255);
        break;
    }
    if (vh_chance(r, 1, 10)) {
      len = gen_len_small(r, 255);
    }
    gen_bytes(r, buf, len, 0);
    if (key == 1 && len == 3) {
      buf[0] = 2;
      buf[1] = 'h';
      buf[2] = '2';
    }
    refdns_rr_add_tlv(rr, "params", (uint16_t)key, buf, len);
    if (key >= 65535) {
      break;
    }
  }
}

/* fill the typed fields of rr (already created with refdns_add_rr) */
static unsigned gen_rdata(gen_case_t *g, vh_rng_t *r, refdns_rr_t *rr)
{
  size_t   i;
  unsigned bclass = 0;
  uint8_t  buf[1024];
  for (i = 0; i < rr->nfields; i++) {
    refdns_field_t *f = &rr->fields[i];
    switch (f->kind) {
      case REFDNS_F_U8:
        f->u = gen_pick_u8(r);
        break;
      case REFDNS_F_U16:
        f->u = gen_pick_u16(r);
        break;
      case REFDNS_F_U32:
        f->u = gen_pick_u32(r);
        break;
      case REFDNS_F_IPV4:
      case REFDNS_F_IPV6:
        gen_bytes(r, f->addr, 16, 0);
        if (vh_chance(r, 1, 8)) {
          memset(f->addr, vh_chance(r, 1, 2) ? 0 : 0xff, 16);
        }
        break;
      case REFDNS_F_NAME:
        gen_name(g, r, f->dname, vh_chance(r, 1, 2));
        if (refdns_name_wirelen(f->dname) == 255) {
          bclass |= 1;
        }
        break;
      case REFDNS_F_CSTR: {
        size_t len = gen_len_small(r, 255);
        int    printable = g->conform || vh_chance(r, 4, 5);
        if (rr->type == REFDNS_T_CAA) {
          len = (g->conform || vh_chance(r, 19, 20)) ? 1 + vh_below(r, 15) : gen_len_small(r, 255);
        }
        gen_bytes(r, buf, len, printable);
        refdns_rr_set_bytes(rr, f->name, buf, len);
        if (len == 0 || len == 255) {
          bclass |= 2;
        }
        break;
      }
      case REFDNS_F_REST: {
        size_t   len;
        uint32_t c = vh_below(r, 100);
        int      printable = rr->type == REFDNS_T_URI ? (g->conform || vh_chance(r, 9, 10)) : vh_chance(r, 1, 3);
        if (c < 4 && !g->conform) {
          len = 0;
        } else if (c < 15) {
          len = 1;
        } else if (c < 90) {
          len = 2 + vh_below(r, 64);
        } else {
          len = 200 + vh_below(r, 800);
        }
        gen_bytes(r, buf, len, printable);
        refdns_rr_set_bytes(rr, f->name, buf, len);
        if (len <= 1) {
          bclass |= 2;
        }
        break;
      }
      case REFDNS_F_CSTRS: {
        uint32_t c = vh_below(r, 100);
        int      n = c < 3 ? (g->conform ? 1 : 0) : c < 50 ? 1 : c < 80 ? 2 : c < 95 ? 3 + (int)vh_below(r, 4)
                                                                  : 10 + (int)vh_below(r, 30);
        int      k;
        for (k = 0; k < n; k++) {
          size_t len = gen_len_small(r, 255);
          gen_bytes(r, buf, len, vh_chance(r, 2, 3));
          refdns_rr_add_chunk(rr, f->name, buf, len);
          if (len == 0 || len == 255) {
            bclass |= 2;
          }
        }
        if (n != 1) {
          bclass |= 4;
        }
        break;
      }
      case REFDNS_F_TLVS:
        if (rr->type == REFDNS_T_OPT) {
          gen_opt_options(r, rr);
        } else {
          gen_svc_params(r, rr);
        }
        if (f->n == 0) {
          bclass |= 2;
        } else if (f->n > 3) {
          bclass |= 4;
        }
        break;
    }
  }
  return bclass;
}

static void gen_add_rr(gen_case_t *g, vh_rng_t *r, int section)
{
  refdns_name_t owner;
  refdns_rr_t  *rr;
  uint16_t      type, klass;
  uint32_t      ttl;
  unsigned      bclass = 0;
  uint32_t      c      = vh_below(r, 100);
  int           hostsafe = (int)vh_below(r, 100) < g->opts->hostsafe_pct;

  gen_name(g, r, &owner, hostsafe);
  if (refdns_name_wirelen(&owner) == 255) {
    bclass |= 1;
  }
  klass = gen_class_c(r, g->conform);
  ttl   = gen_pick_u32(r);
  if (ttl == 0 || ttl >= 0x7fffffffu) {
    bclass |= 8;
  }
  if (c < 80) {
    type = gen_known_types[vh_below(r, sizeof(gen_known_types) / sizeof(gen_known_types[0]))];
    if (type == REFDNS_T_OPT && vh_chance(r, 2, 3)) {
      type = REFDNS_T_A; /* OPT is placed deliberately below; keep stray ones rare */
    }
  } else if (c < 99 || g->conform) {
    type = gen_unknown_types[vh_below(r, sizeof(gen_unknown_types) / sizeof(gen_unknown_types[0]))];
  } else {
    type = REFDNS_T_ANY;
  }
  if (refdns_type_known(type) && (g->conform || !vh_chance(r, 1, 40))) {
    rr = refdns_add_rr(&g->m, section, &owner, type, klass, ttl);
    if (type == REFDNS_T_OPT) {
      rr->klass = gen_pick_u16(r);
      rr->ttl   = ((uint32_t)(vh_chance(r, 2, 3) ? 0 : gen_pick_u8(r)) << 24) |
                ((uint32_t)(vh_chance(r, 2, 3) ? 0 : gen_pick_u8(r)) << 16) |
                (vh_chance(r, 1, 2) ? 0x8000u : gen_pick_u16(r));
      if (g->conform || vh_chance(r, 9, 10)) {
        refdns_name_root(&rr->owner);
      }
      if (g->conform) {
        rr->section = REFDNS_SEC_AR;
      }
    }
    bclass |= gen_rdata(g, r, rr);
    if (vh_chance(r, 1, 20)) {
      /* trailing octets inside RDLENGTH after the fields */
      uint8_t junk[8];
      size_t  n = 1 + vh_below(r, 8);
      gen_bytes(r, junk, n, 0);
      free(rr->extra.p);
      rr->extra.p = (uint8_t *)malloc(n);
      memcpy(rr->extra.p, junk, n);
      rr->extra.n = n;
      bclass |= 16;
    }
  } else {
    /* opaque RDATA: unknown type, or a known type given arbitrary bytes */
    uint8_t  buf[700];
    size_t   len;
    uint32_t d = vh_below(r, 100);
    if (d < 8) {
      len = 0;
    } else if (d < 20) {
      len = 1;
    } else if (d < 90) {
      len = 2 + vh_below(r, 40);
    } else {
      len = 256 + vh_below(r, 400);
    }
    if (len == 0 && !refdns_type_known(type) && type != REFDNS_T_ANY &&
        !g->opts->allow_rdlen0_raw) {
      len = 1; /* RDLENGTH 0 on an undecoded type is confined to its own sub-workload */
    }
    gen_bytes(r, buf, len, 0);
    rr = refdns_add_rr_raw(&g->m, section, &owner, type, klass, ttl, buf, len);
    if (len == 0) {
      bclass |= 2;
      if (!refdns_type_known(type) && type != REFDNS_T_ANY) {
        g->has_rdlen0_raw = 1;
      }
    }
  }
  if (!g->conform && vh_chance(r, 1, 60)) {
    static const int delta[] = { -1, 1, -2, 7 };
    rr->rdlength_set = 1;
    rr->rdlength_val = vh_chance(r, 1, 3) ? gen_pick_u16(r) : 0;
    if (rr->rdlength_val == 0 && vh_chance(r, 1, 2)) {
      rr->rdlength_val = (uint16_t)(20 + delta[vh_below(r, 4)]);
    }
    g->struct_bad = 1;
  }
  if (g->ntriples < 64) {
    g->triples[g->ntriples++] = ((uint32_t)rr->type << 16) | (bclass & 0xff);
  }
}

static void gen_mutate(gen_case_t *g, vh_rng_t *r)
{
  static const uint8_t vals[] = { 0x00, 0x01, 0x3f, 0x40, 0x80, 0xbf, 0xc0, 0xc1, 0xff, 0x0c };
  uint32_t             kind = vh_below(r, 100);
  size_t               len  = g->wlen;
  if (len == 0) {
    return;
  }
  if (kind < 20) { /* flip one bit */
    size_t o = vh_below(r, (uint32_t)len);
    g->wire[o] ^= (uint8_t)(1u << vh_below(r, 8));
  } else if (kind < 35) { /* set one octet to an interesting value */
    size_t o   = vh_below(r, (uint32_t)len);
    g->wire[o] = vals[vh_below(r, sizeof(vals))];
  } else if (kind < 47) { /* truncate */
    size_t n = vh_chance(r, 1, 2) ? len - 1 - vh_below(r, len > 12 ? 12 : (uint32_t)len)
                                  : vh_below(r, (uint32_t)len);
    g->wlen = n > len ? 0 : n;
  } else if (kind < 55) { /* extend */
    size_t n = 1 + vh_below(r, 24), i;
    if (len + n < GEN_MAXWIRE) {
      for (i = 0; i < n; i++) {
        g->wire[len + i] = vh_chance(r, 1, 2) ? 0 : (uint8_t)vh_rand64(r);
      }
      g->wlen = len + n;
    }
  } else if (kind < 65) { /* splice: copy a range over another place */
    size_t n   = 1 + vh_below(r, len > 16 ? 16 : (uint32_t)len);
    size_t src = vh_below(r, (uint32_t)(len - n + 1));
    size_t dst = vh_below(r, (uint32_t)(len - n + 1));
    memmove(g->wire + dst, g->wire + src, n);
  } else if (g->map.n) { /* overwrite a length / count / pointer / type field */
    const refdns_at_t *at = &g->map.at[vh_below(r, (uint32_t)g->map.n)];
    size_t             o  = at->off;
    uint32_t           c  = vh_below(r, 6);
    if (o >= len) {
      return;
    }
    switch (at->kind) {
      case REFDNS_AT_LABELLEN:
      case REFDNS_AT_CSTRLEN: {
        uint8_t v = g->wire[o];
        g->wire[o] = c == 0 ? 0 : c == 1 ? (uint8_t)(v + 1) : c == 2 ? (uint8_t)(v - 1)
                   : c == 3 ? vals[vh_below(r, sizeof(vals))] : c == 4 ? 63 : (uint8_t)vh_rand64(r);
        break;
      }
      case REFDNS_AT_POINTER:
        if (o + 1 < len) {
          unsigned t = ((unsigned)(g->wire[o] & 0x3f) << 8) | g->wire[o + 1];
          t = c == 0 ? (unsigned)o : c == 1 ? (unsigned)o + 2 : c == 2 ? t + 1 : c == 3 ? t - 1
            : c == 4 ? vh_below(r, (uint32_t)len) : 12;
          g->wire[o]     = (uint8_t)(0xc0 | ((t >> 8) & 0x3f));
          g->wire[o + 1] = (uint8_t)t;
        }
        break;
      case REFDNS_AT_TTL:
        if (o + 3 < len) {
          uint32_t v = gen_pick_u32(r);
          g->wire[o] = (uint8_t)(v >> 24);
          g->wire[o + 1] = (uint8_t)(v >> 16);
          g->wire[o + 2] = (uint8_t)(v >> 8);
          g->wire[o + 3] = (uint8_t)v;
        }
        break;
      case REFDNS_AT_RDATA:
        g->wire[o] = vals[vh_below(r, sizeof(vals))];
        break;
      default: /* 16-bit fields: counts, type, class, rdlength, tlv length */
        if (o + 1 < len) {
          unsigned v = ((unsigned)g->wire[o] << 8) | g->wire[o + 1];
          v = c == 0 ? 0 : c == 1 ? v + 1 : c == 2 ? v - 1 : c == 3 ? 0xffff : c == 4 ? v + 256
                                                                                       : gen_pick_u16(r);
          g->wire[o]     = (uint8_t)(v >> 8);
          g->wire[o + 1] = (uint8_t)v;
        }
        break;
    }
  }
  g->nmut++;
}

static uint8_t gen_wirebuf[GEN_MAXWIRE + 64];

/* hand the decoders an exact-size heap copy so that the sanitizer sees any overread */
static void gen_finish_wire(gen_case_t *g)
{
  uint8_t *p = (uint8_t *)malloc(g->wlen ? g->wlen : 1);
  memcpy(p, gen_wirebuf, g->wlen);
  g->wire = p;
}

static void gen_free(gen_case_t *g)
{
  refdns_free(&g->m);
  free(g->map.at);
  if (g->wire != gen_wirebuf) {
    free(g->wire);
  }
  memset(g, 0, sizeof(*g));
}

/* build one message; returns 0, or -1 if nothing could be encoded (trivial case) */
static int gen_case(gen_case_t *g, vh_rng_t *r, const gen_opts_t *opts)
{
  uint32_t c;
  int      nrr, i, rc;
  size_t   cap = GEN_MAXWIRE;

  memset(g, 0, sizeof(*g));
  g->opts = opts;
  refdns_msg_init(&g->m);
  g->conform = (int)vh_below(r, 100) < opts->conform_pct;

  /* shared suffixes */
  g->npool = 1 + vh_below(r, 3);
  for (i = 0; i < (int)g->npool; i++) {
    int unsafe = (int)vh_below(r, 100) >= (opts->hostsafe_pct > 75 ? opts->hostsafe_pct : 75);
    gen_name_random(r, &g->pool[i], unsafe, 1 + (int)vh_below(r, 3));
    g->pool_safe[i] = (uint8_t)!unsafe;
  }

  /* header */
  g->m.id = (uint16_t)vh_rand64(r);
  g->m.qr = (uint8_t)vh_below(r, 2);
  c       = vh_below(r, 100);
  if (c < 70) {
    g->m.opcode = 0;
  } else if (c < 97 || g->conform) {
    static const uint8_t ok[] = { 1, 2, 4, 5 };
    g->m.opcode               = ok[vh_below(r, 4)];
  } else {
    static const uint8_t bad[] = { 3, 6, 7, 15 };
    g->m.opcode                = bad[vh_below(r, 4)];
  }
  g->m.aa    = (uint8_t)vh_below(r, 2);
  g->m.tc    = (uint8_t)vh_chance(r, 1, 8);
  g->m.rd    = (uint8_t)vh_below(r, 2);
  g->m.ra    = (uint8_t)vh_below(r, 2);
  g->m.z     = (uint8_t)vh_chance(r, 1, 10);
  g->m.ad    = (uint8_t)vh_chance(r, 1, 4);
  g->m.cd    = (uint8_t)vh_chance(r, 1, 4);
  g->m.rcode = vh_chance(r, 1, 2) ? 0 : (uint16_t)vh_below(r, 16);

  /* questions */
  c   = vh_below(r, 100);
  nrr = (c < 96 || g->conform) ? 1 : c < 98 ? 0 : c < 99 ? 2 : 3;
  for (i = 0; i < nrr; i++) {
    refdns_name_t qn;
    uint16_t      qt;
    int           qsafe = (int)vh_below(r, 100) < opts->hostsafe_pct;
    gen_name(g, r, &qn, qsafe);
    c  = vh_below(r, 100);
    qt = c < 60 ? gen_known_types[vh_below(r, sizeof(gen_known_types) / sizeof(uint16_t))]
       : c < 75 ? 255
       : c < 90 ? gen_unknown_types[vh_below(r, sizeof(gen_unknown_types) / sizeof(uint16_t))]
                : gen_pick_u16(r);
    refdns_add_question(&g->m, &qn, qt, g->conform && !vh_chance(r, 1, 8) ? gen_class_c(r, 1) : g->conform ? 255 : gen_class(r));
    if (g->npool < 6 && qn.nlabels) {
      g->pool_safe[g->npool] = (uint8_t)qsafe;
      g->pool[g->npool++]    = qn;
    }
  }

  /* resource records */
  c   = vh_below(r, 100);
  nrr = c < 8 ? 0 : c < 80 ? 1 + (int)vh_below(r, (uint32_t)opts->max_rr) : c < 97
      ? opts->max_rr + (int)vh_below(r, 12) : 30 + (int)vh_below(r, 40);
  for (i = 0; i < nrr; i++) {
    gen_add_rr(g, r, 1 + (int)vh_below(r, 3));
  }
  /* the EDNS pseudo-RR, where it belongs (most of the time) */
  if (vh_chance(r, 2, 5)) {
    int          copies = (!g->conform && vh_chance(r, 1, 25)) ? 2 : 1;
    while (copies-- > 0) {
      uint8_t      ext = vh_chance(r, 3, 4) ? 0 : vh_chance(r, 1, 2) ? 1 : gen_pick_u8(r);
      refdns_rr_t *rr  = refdns_add_opt(&g->m, vh_chance(r, 1, 2) ? 1232 : gen_pick_u16(r), ext,
                                        vh_chance(r, 4, 5) ? 0 : gen_pick_u8(r),
                                        vh_chance(r, 1, 2) ? 0 : vh_chance(r, 1, 2) ? 0x8000 : gen_pick_u16(r));
      unsigned     bc;
      if (!g->conform && vh_chance(r, 1, 30)) {
        rr->section = (uint8_t)(1 + vh_below(r, 2));
      }
      bc = gen_rdata(g, r, rr);
      if (g->ntriples < 64) {
        g->triples[g->ntriples++] = ((uint32_t)REFDNS_T_OPT << 16) | (bc & 0xff) | (ext ? 32 : 0);
      }
    }
  }

  /* compression layout */
  c = vh_below(r, 100);
  memset(&g->lay, 0, sizeof(g->lay));
  g->lay.seed       = vh_rand64(r);
  g->lay.rdata_comp = (int)vh_below(r, 3);
  g->lay.map        = &g->map;
  if (c < 22) {
    g->lay.mode     = REFDNS_COMP_NONE;
    g->layout_class = 0;
  } else if (c < 58) {
    g->lay.mode     = REFDNS_COMP_FIRST;
    g->layout_class = 1;
  } else {
    g->lay.mode     = REFDNS_COMP_RANDOM;
    g->layout_class = 2;
  }
  if (!g->conform && vh_chance(r, 1, 25)) {
    /* lie in the counts */
    g->lay.use_counts = 1;
    g->m.qdcount      = (uint16_t)g->m.nq;
    g->m.ancount = g->m.nscount = g->m.arcount = 0;
    for (i = 0; i < (int)g->m.nrr; i++) {
      if (g->m.rr[i].section == 1) {
        g->m.ancount++;
      } else if (g->m.rr[i].section == 2) {
        g->m.nscount++;
      } else {
        g->m.arcount++;
      }
    }
    switch (vh_below(r, 4)) {
      case 0:
        g->m.qdcount = (uint16_t)(g->m.qdcount + 1);
        break;
      case 1:
        g->m.ancount = (uint16_t)(g->m.ancount + (vh_chance(r, 1, 2) ? 1 : -1));
        break;
      case 2:
        g->m.arcount = (uint16_t)(g->m.arcount + (vh_chance(r, 1, 2) ? 1 : 65535));
        break;
      default:
        g->m.nscount = gen_pick_u16(r);
        break;
    }
    g->struct_bad = 1;
  }

  g->wire = gen_wirebuf;
  g->wlen = cap;
  rc      = refdns_encode(&g->m, &g->lay, g->wire, &g->wlen);
  if (rc != 0) {
    return -1;
  }
  /* explicit pointer targets: second pass, now that offsets are known */
  if (!g->conform && vh_chance(r, 1, 12) && g->map.n) {
    size_t  npos = 0, k;
    int     nov  = 1 + (int)vh_below(r, 2);
    uint32_t nnames = 0;
    /* count names = question names + owners + rdata names; ordinals are emission order, which
     * the first pass does not report directly: approximate by #names <= #labellen marks + #rr */
    nnames = (uint32_t)(g->m.nq + g->m.nrr * 2);
    for (k = 0; k < g->map.n; k++) {
      if (g->map.at[k].kind == REFDNS_AT_LABELLEN || g->map.at[k].kind == REFDNS_AT_POINTER) {
        npos++;
      }
    }
    for (i = 0; i < nov && npos; i++) {
      uint32_t d = vh_below(r, 100);
      size_t   pick = vh_below(r, (uint32_t)npos), seen = 0;
      int32_t  target = 12;
      for (k = 0; k < g->map.n; k++) {
        if (g->map.at[k].kind == REFDNS_AT_LABELLEN || g->map.at[k].kind == REFDNS_AT_POINTER) {
          if (seen++ == pick) {
            target = (int32_t)g->map.at[k].off;
            break;
          }
        }
      }
      if (d < 10) {
        target = (int32_t)vh_below(r, 12); /* into the header */
      } else if (d < 20) {
        target = (int32_t)vh_below(r, (uint32_t)g->wlen + 8);
      } else if (d < 25) {
        target = -1; /* truncate with a root octet */
      }
      g->over[i].ordinal = vh_below(r, nnames ? nnames : 1);
      g->over[i].keep    = (uint8_t)vh_below(r, 4);
      g->over[i].target  = target > 16383 ? 16383 : target;
    }
    g->lay.nover    = (size_t)nov;
    g->lay.over     = g->over;
    g->map.n        = 0;
    g->wlen         = cap;
    g->layout_class = 3;
    g->struct_bad   = 1;
    rc              = refdns_encode(&g->m, &g->lay, g->wire, &g->wlen);
    if (rc != 0) {
      return -1;
    }
  }
  g->clean_len = g->wlen;

  if (opts->mutate) {
    int n;
    c = vh_below(r, 100);
    n = c < 55 ? 0 : c < 75 ? 1 : c < 87 ? 2 : 3 + (int)vh_below(r, 18);
    while (n-- > 0) {
      gen_mutate(g, r);
    }
  }
  gen_finish_wire(g);
  return 0;
}

#endif
