/* codec.c - in-process codec harness (engine E2) for properties C03 and C04.
 *
 * Profiles (vh.h worker protocol; case idx is a pure function of (seed, profile, idx)):
 *   gen                 generator self-check: every unmutated, structurally regular message must be
 *                       accepted by the reference decoder and re-encode/decode to the same dump
 *   diff                C04 strict differential, ares_dns_parse(flags=0) vs refdns
 *   diff-rdlen0         same, with RDLENGTH-0 RRs of undecoded types allowed (known finding)
 *   diff-flags          C04 with random ARES_DNS_PARSE_*_RAW flags
 *   diff-escape         C04 presentation-name escaping both ways
 *   roundtrip-parsed    C03 on records obtained from the parser
 *   roundtrip-built     C03 on records built through the public setters
 *   roundtrip-big       C03 on built records of 16..64 KiB; shared names all appear early
 *   roundtrip-big-late  same, but shared names first appear beyond offset 16383 (known finding)
 *   roundtrip-huge      C03 on built records above 64 KiB
 *   roundtrip-mkquery   C03 legacy builders ares_create_query / ares_mkquery
 */
#include "ares_private.h"
#include "vh.h"

/* A defect that is easy to hit would otherwise print the same key thousands of times per chunk:
 * report each key at most 3 times per chunk, count the rest. */
static void codec_violation(const char *key, const char *fmt, ...)
{
  static struct {
    uint64_t h;
    unsigned n;
  } seen[256];
  uint64_t h = vh_fnv_str(VH_FNV_INIT, key);
  size_t   i = (size_t)(h & 255), probes = 0;
  char     buf[2048];
  va_list  ap;
  while (seen[i].n && seen[i].h != h && probes++ < 256) {
    i = (i + 1) & 255;
  }
  seen[i].h = h;
  if (++seen[i].n > 3) {
    vh_case_viol++;
    vh_count("violations_not_printed_repeats");
    return;
  }
  va_start(ap, fmt);
  vsnprintf(buf, sizeof(buf), fmt, ap);
  va_end(ap);
  vh_violation(key, "%s", buf);
}
#define vh_violation codec_violation

#include "refdns.h"
#include "gen.h"
#include "cares_dump.h"
#include "cdiff.h"
#include "crt.h"

static uint64_t g_tag;

/* ---------------------------------------------------------------------------------- */
static const char *cares_status_short(ares_status_t st)
{
  switch (st) {
    case ARES_EBADRESP:
      return "ebadresp";
    case ARES_EBADNAME:
      return "ebadname";
    case ARES_EFORMERR:
      return "eformerr";
    case ARES_EBADSTR:
      return "ebadstr";
    case ARES_ENOMEM:
      return "enomem";
    default:
      return "other";
  }
}

static int structural_class(refdns_status_t st)
{
  /* what RFC 1035 makes unambiguous: pointers not strictly backward, anything running off the
   * message, reserved label types */
  switch (st) {
    case REFDNS_ERR_TRUNC_HEADER:
    case REFDNS_ERR_COUNTS:
    case REFDNS_ERR_NAME_OVERRUN:
    case REFDNS_ERR_LABEL_OVERRUN:
    case REFDNS_ERR_LABEL_RESERVED:
    case REFDNS_ERR_PTR_FORWARD:
    case REFDNS_ERR_PTR_SELF:
    case REFDNS_ERR_PTR_LOOP:
    case REFDNS_ERR_RR_HEADER_OVERRUN:
    case REFDNS_ERR_RDATA_OVERRUN:
      return 1;
    default:
      return 0;
  }
}

static void add_case_fps(const gen_case_t *g)
{
  size_t i;
  for (i = 0; i < g->ntriples; i++) {
    uint64_t h = vh_fnv_u64(g_tag, ((uint64_t)g->triples[i] << 8) | (uint64_t)g->layout_class);
    vh_fp_add(h);
  }
}

/* expected dump of the reference decode, with c-ares's value conventions applied */
static void ref_expected_dump(refdns_msg_t *D, vh_sb_t *sb)
{
  if (D->soft & REFDNS_SOFT_MULTI_OPT) {
    /* RFC 6891 6.1.1 calls several OPT RRs a FORMERR; c-ares keeps them all and ORs their
     * extended-rcode bits (ares_dns_parse_rr_opt: raw_rcode |= rcode_high).  Not judged against
     * the RFC: follow the same rule so the rest of the message is still compared. */
    size_t i;
    for (i = 0; i < D->nrr; i++) {
      if (D->rr[i].type == REFDNS_T_OPT && D->rr[i].typed) {
        D->rcode |= (uint16_t)((D->rr[i].ttl >> 24) << 4);
      }
    }
    vh_count("diff_multi_opt");
  }
  D->rcode = (uint16_t)cd_rcode_as_cares(D->rcode);
  refdns_dump_ex(D, REFDNS_DUMP_TLV_MAP, sb);
}

/* The C04 oracle on one message. */
static void diff_message(const uint8_t *M, size_t len, unsigned flags, int nontrivial_hint,
                         const gen_case_t *g)
{
  ares_dns_record_t *rec = NULL;
  ares_status_t      st;
  refdns_msg_t       D;
  char               err[200], hx[700], key[160], fk[96];
  cd_rawpolicy_t     pol;
  int                ref_ok, nontrivial;

  pol.flags = flags;
  st        = ares_dns_parse(M, len, flags, &rec);
  ref_ok    = refdns_decode_ex(M, len, flags ? cd_treat_raw : NULL, &pol, &D, err, sizeof(err)) == 0;
  vh_count("diff_messages");
  if (st == ARES_SUCCESS && rec == NULL) {
    vh_violation("diff:accept-null", "ares_dns_parse returned SUCCESS with a NULL record");
  }
  if (st != ARES_SUCCESS && rec != NULL) {
    vh_violation("diff:reject-nonnull", "ares_dns_parse returned %d but left a record", (int)st);
    ares_dns_record_destroy(rec);
    rec = NULL;
  }
  nontrivial = (ref_ok && D.nrr >= 1) || nontrivial_hint;
  cd_hexdump(M, len > 320 ? 320 : len, hx, sizeof(hx));

  if (ref_ok && st == ARES_SUCCESS) {
    /* soundness: both accept => same content */
    vh_sb_t   sa = { 0 }, sb = { 0 };
    cd_diff_t df;
    cares_dump(rec, &sa);
    ref_expected_dump(&D, &sb);
    cd_first_diff(sb.b, sa.b, &df);
    vh_count("diff_both_accept");
    if (df.differ) {
      size_t i;
      int    rdlen0 = 0;
      /* qualifier: does the differing RR have RDLENGTH 0? */
      if (df.path[0] == 'a' || df.path[0] == 'n') {
        int    sec = df.path[1] == 'n' ? 1 : df.path[1] == 's' ? 2 : 3;
        size_t idx = (size_t)strtoul(df.path + 2, NULL, 10), seen = 0;
        for (i = 0; i < D.nrr; i++) {
          if (D.rr[i].section == sec && seen++ == idx) {
            rdlen0 = D.rr[i].rdlength == 0;
          }
        }
      }
      cd_key_from_path(df.path, fk, sizeof(fk));
      snprintf(key, sizeof(key), "diff:field:%s%s", fk, rdlen0 ? ":rdlen0" : "");
      vh_violation(key, "flags=%u reference '%s' c-ares '%s' msg(%zu)=%s", flags, df.a,
                   df.b, len, hx);
    }
    free(sa.b);
    free(sb.b);
  } else if (ref_ok && st != ARES_SUCCESS) {
    const char *why = cd_outside_subset(&D);
    if (why == NULL) {
      snprintf(key, sizeof(key), "diff:reject-wellformed:%s", cares_status_short(st));
      vh_violation(key, "flags=%u reference finds the message well-formed and inside the supported "
                   "subset (soft=0x%x, %zu RRs) but ares_dns_parse returned %d; msg(%zu)=%s",
                   flags, D.soft, D.nrr, (int)st, len, hx);
    } else {
      char cn[64];
      snprintf(cn, sizeof(cn), "diff_outside_subset_%s", why);
      vh_count(cn);
    }
  } else if (!ref_ok && st == ARES_SUCCESS) {
    if (structural_class(D.status)) {
      snprintf(key, sizeof(key), "diff:accept-malformed:%s", refdns_status_name(D.status));
      vh_violation(key, "flags=%u ares_dns_parse accepts; reference: %s; msg(%zu)=%s", flags, err, len,
                   hx);
    } else {
      char cn[64];
      snprintf(cn, sizeof(cn), "diff_cares_lenient_%s", refdns_status_name(D.status));
      vh_count(cn);
    }
  } else {
    char cn[64];
    snprintf(cn, sizeof(cn), "diff_both_reject_%s", refdns_status_name(D.status));
    vh_count(cn);
  }
  if (ref_ok) {
    if (D.soft & REFDNS_SOFT_RDATA_TRAILING) {
      vh_count("diff_seen_rdata_trailing");
    }
    if (D.soft & REFDNS_SOFT_MSG_TRAILING) {
      vh_count("diff_seen_msg_trailing");
    }
    if (D.nptr_total) {
      vh_count("diff_seen_compression");
    }
  }
  if (nontrivial && g) {
    vh_count("nontrivial_cases");
    add_case_fps(g);
  }
  refdns_free(&D);
  ares_dns_record_destroy(rec);
}

static void case_diff(vh_rng_t *rng, int allow_rdlen0, int random_flags)
{
  gen_case_t g;
  gen_opts_t o;
  unsigned   flags = 0;
  o.hostsafe_pct     = 50;
  o.mutate           = 1;
  o.allow_rdlen0_raw = allow_rdlen0;
  o.max_rr           = 6;
  o.conform_pct      = 40;
  if (gen_case(&g, rng, &o) != 0) {
    vh_inconclusive("generator-could-not-encode");
    gen_free(&g);
    return;
  }
  if (random_flags) {
    flags = (unsigned)vh_below(rng, 64);
    if (flags == 0) {
      flags = 1u << vh_below(rng, 6);
    }
  }
  if (g.nmut) {
    vh_count(g.nmut == 1 ? "gen_mut_1" : g.nmut == 2 ? "gen_mut_2" : "gen_mut_many");
  } else {
    vh_count("gen_mut_0");
  }
  /* non-trivial: reference-well-formed with >= 1 RR (decided in diff_message), or a message
   * within two byte edits of a regular generated one that has >= 1 RR */
  diff_message(g.wire, g.wlen, flags, g.m.nrr >= 1 && g.nmut <= 2 && g.nmut >= 1 && !g.struct_bad, &g);
  if (vh_want_sample()) {
    vh_sb_t sb = { 0 };
    char    hx[200];
    cd_hexdump(g.wire, g.wlen > 90 ? 90 : g.wlen, hx, sizeof(hx));
    vh_sb_printf(&sb, "{\"case\":%llu,\"len\":%zu,\"rrs\":%zu,\"layout\":%d,\"mutations\":%d,\"flags\":%u,\"hex\":\"%s\"}",
                 (unsigned long long)vh_cur_case, g.wlen, g.m.nrr, g.layout_class, g.nmut, flags, hx);
    vh_sample(sb.b);
    free(sb.b);
  }
  gen_free(&g);
}

/* generator / reference self-consistency: keeps the oracle honest */
static void case_gen(vh_rng_t *rng)
{
  gen_case_t   g;
  gen_opts_t   o;
  refdns_msg_t D, D2;
  char         err[200];
  o.hostsafe_pct     = 50;
  o.mutate           = 0;
  o.allow_rdlen0_raw = 1;
  o.max_rr           = 6;
  o.conform_pct      = 40;
  if (gen_case(&g, rng, &o) != 0) {
    vh_inconclusive("generator-could-not-encode");
    gen_free(&g);
    return;
  }
  if (!g.struct_bad) {
    int rc = refdns_decode_ex(g.wire, g.wlen, NULL, NULL, &D, err, sizeof(err));
    /* known-type RRs filled with arbitrary bytes, empty TXT, empty CAA tag are legitimately
     * malformed: only rdata-field errors are tolerated here */
    if (rc != 0 && D.status != REFDNS_ERR_RDATA_FIELD && D.status != REFDNS_ERR_NAME_TOO_LONG &&
        !(D.status >= REFDNS_ERR_NAME_OVERRUN && D.status <= REFDNS_ERR_PTR_LOOP)) {
      vh_violation("gen:selfcheck:decode", "regular generated message rejected: %s", err);
    } else if (rc == 0) {
      /* re-encode what was decoded (no compression) and decode again: dumps must agree */
      uint8_t *w2 = (uint8_t *)malloc(GEN_MAXWIRE);
      size_t   l2 = GEN_MAXWIRE;
      size_t   i;
      for (i = 0; i < D.nrr; i++) {
        /* keep trailing RDATA octets */
        if (D.rr[i].typed && D.rr[i].rdata_trailing) {
          D.rr[i].extra.p = (uint8_t *)malloc(D.rr[i].rdata_trailing);
          memcpy(D.rr[i].extra.p, D.rr[i].raw.p + D.rr[i].rdata_used, D.rr[i].rdata_trailing);
          D.rr[i].extra.n = D.rr[i].rdata_trailing;
        }
      }
      if (refdns_encode(&D, NULL, w2, &l2) == 0) {
        vh_sb_t   a = { 0 }, b = { 0 };
        cd_diff_t df;
        if (refdns_decode_ex(w2, l2, NULL, NULL, &D2, err, sizeof(err)) != 0) {
          vh_violation("gen:selfcheck:reencode", "re-encoded message rejected: %s", err);
        } else {
          refdns_dump_ex(&D, 0, &a);
          refdns_dump_ex(&D2, 0, &b);
          cd_first_diff(a.b, b.b, &df);
          if (df.differ) {
            vh_violation("gen:selfcheck:dump", "'%s' vs '%s'", df.a, df.b);
          }
        }
        refdns_free(&D2);
        free(a.b);
        free(b.b);
      }
      free(w2);
      vh_count("gen_selfcheck_ok");
      add_case_fps(&g);
    }
    refdns_free(&D);
  }
  vh_count("nontrivial_cases");
  gen_free(&g);
}

/* ---------------------------------------------------------------------------------- */
/* presentation-format escaping, both directions */
static void case_escape(vh_rng_t *rng)
{
  refdns_name_t N, owner;
  refdns_msg_t  m, D;
  uint8_t       wire[1024];
  size_t        wlen = sizeof(wire);
  char          err[160], text[1300], t2[1300];
  vh_sb_t       want = { 0 };
  ares_dns_record_t *rec = NULL;
  int           hostsafe = vh_chance(rng, 1, 5);
  int           i;

  /* the name under test */
  if (vh_chance(rng, 1, 10)) {
    gen_name_max(rng, &N, hostsafe ? 0 : 1);
  } else {
    gen_name_random(rng, &N, hostsafe ? 0 : 1, 1 + (int)vh_below(rng, 5));
    if (!hostsafe && vh_chance(rng, 1, 4) && N.nlabels) {
      /* a label cycling through all octet values */
      uint8_t lab[63];
      uint8_t start = (uint8_t)vh_rand64(rng);
      size_t  l = 1 + vh_below(rng, 63);
      for (i = 0; i < (int)l; i++) {
        lab[i] = (uint8_t)(start + i);
      }
      refdns_name_root(&N);
      refdns_name_push_back(&N, lab, l);
    }
  }
  refdns_dump_name(&N, &want);
  refdns_name_from_text(&owner, "q.example");

  /* (a) wire -> c-ares text -> unescape */
  refdns_msg_init(&m);
  m.id = 7;
  m.qr = 1;
  refdns_add_question(&m, &owner, REFDNS_T_CNAME, REFDNS_C_IN);
  refdns_add_nametype(&m, REFDNS_SEC_AN, &owner, REFDNS_T_CNAME, 60, &N);
  if (refdns_encode(&m, NULL, wire, &wlen) != 0) {
    vh_inconclusive("escape-encode");
    goto done;
  }
  text[0] = 0;
  if (ares_dns_parse(wire, wlen, 0, &rec) != ARES_SUCCESS) {
    vh_violation("diff:escape:parse-rejects", "CNAME with arbitrary label octets rejected");
    goto done;
  } else {
    const ares_dns_rr_t *rr = ares_dns_record_rr_get_const(rec, ARES_SECTION_ANSWER, 0);
    const char          *t  = ares_dns_rr_get_str(rr, ARES_RR_CNAME_CNAME);
    vh_sb_t              got = { 0 };
    cd_name_text(&got, t);
    vh_count("escape_wire_to_text");
    if (got.b == NULL || strcmp(got.b, want.b) != 0) {
      vh_violation("diff:escape:wire-to-text", "labels %s presented as '%.300s' which un-escapes to %s",
                   want.b, t ? t : "(null)", got.b ? got.b : "(null)");
    }
    snprintf(text, sizeof(text), "%s", t ? t : "");
    free(got.b);
  }

  /* (b) text -> record -> ares_dns_write -> reference decode */
  for (i = 0; i < 4; i++) {
    ares_dns_record_t *r2 = NULL;
    ares_dns_rr_t     *rr = NULL;
    unsigned char     *W  = NULL;
    size_t             wl = 0;
    ares_status_t      st;
    const char        *x;
    int                as_owner = hostsafe && vh_chance(rng, 1, 2);
    /* CNAME RDATA goes through the writer's compression list, SRV targets do not */
    int                use_srv  = !as_owner && vh_chance(rng, 1, 2);
    if (i == 0) {
      x = text; /* c-ares's own spelling */
    } else {
      bld_name_text(rng, &N, i, t2, sizeof(t2)); /* \DDD everywhere / trailing dot / \X */
      x = t2;
    }
    if (strlen(x) >= 512) {
      vh_count("escape_text_512_or_longer");
    } else if (strlen(x) > 255) {
      vh_count("escape_text_over_255");
    }
    if (ares_dns_record_create(&r2, 1, 0, ARES_OPCODE_QUERY, ARES_RCODE_NOERROR) != ARES_SUCCESS ||
        ares_dns_record_query_add(r2, "example.com", ARES_REC_TYPE_CNAME, ARES_CLASS_IN) != ARES_SUCCESS ||
        ares_dns_record_rr_add(&rr, r2, ARES_SECTION_ANSWER, as_owner ? x : "example.com",
                               use_srv ? ARES_REC_TYPE_SRV : ARES_REC_TYPE_CNAME, ARES_CLASS_IN,
                               1) != ARES_SUCCESS ||
        ares_dns_rr_set_str(rr, use_srv ? ARES_RR_SRV_TARGET : ARES_RR_CNAME_CNAME,
                            as_owner ? "example.com" : x) != ARES_SUCCESS) {
      ares_dns_record_destroy(r2);
      vh_inconclusive("escape-setters");
      continue;
    }
    st = ares_dns_write(r2, &W, &wl);
    vh_count("escape_text_to_wire");
    if (st != ARES_SUCCESS) {
      vh_violation("diff:escape:write-rejects",
                   "valid presentation name (%zu characters, %zu octets on the wire) refused by "
                   "ares_dns_write as %s: status %d; name '%.300s' labels %s",
                   strlen(x), refdns_name_wirelen(&N), as_owner ? "owner name" : use_srv ? "SRV target" : "CNAME target",
                   (int)st, x, want.b);
    } else if (refdns_decode(W, wl, &D, err, sizeof(err)) != 0) {
      vh_violation("diff:escape:text-to-wire", "name '%.300s': written message does not decode: %s", x, err);
      refdns_free(&D);
    } else {
      vh_sb_t got = { 0 };
      if (as_owner) {
        refdns_dump_name(&D.rr[0].owner, &got);
      } else {
        refdns_dump_name(D.rr[0].fields[use_srv ? 3 : 0].dname, &got);
      }
      if (strcmp(got.b, want.b) != 0) {
        vh_violation("diff:escape:text-to-wire", "name '%.300s' should be labels %s, wire has %s", x, want.b,
                     got.b);
      }
      free(got.b);
      refdns_free(&D);
    }
    ares_free(W);
    ares_dns_record_destroy(r2);
  }
  vh_count("nontrivial_cases");
  {
    /* distinct = (number of labels bucket, which octet classes occur) */
    uint64_t cls = 0;
    size_t   k, nb = 0;
    for (k = 0; k < N.nlabels; k++) {
      nb += N.len[k];
    }
    for (k = 0; k < nb; k++) {
      uint8_t c = N.data[k];
      cls |= c < 0x20 ? 1 : c == '.' ? 2 : c == '\\' ? 4 : c >= 0x7f ? 8 : (c >= '0' && c <= '9') ? 16
           : strchr("\"();@$ ", c) ? 32 : 64;
    }
    vh_fp_add(vh_fnv_u64(g_tag, (cls << 8) | (N.nlabels > 7 ? 7 : N.nlabels) | ((uint64_t)(nb / 32) << 16)));
  }
done:
  free(want.b);
  refdns_free(&m);
  ares_dns_record_destroy(rec);
}

/* ---------------------------------------------------------------------------------- */
static void rt_fingerprint(const rt_ctx_t *ctx, uint32_t typehash, size_t nrr)
{
  /* non-trivial = >= 2 RRs or a name that got compressed; distinct = (type multiset, compression
   * use, size bucket) */
  if (ctx->wrote && (nrr >= 2 || ctx->nptr >= 1)) {
    unsigned sizeb = 0;
    size_t   l     = ctx->wlen;
    while (l > 64) {
      l >>= 1;
      sizeb++;
    }
    vh_count("nontrivial_cases");
    vh_fp_add(vh_fnv_u64(vh_fnv_u64(g_tag, typehash), ((uint64_t)(ctx->nptr == 0 ? 0 : ctx->nptr < 3 ? 1 : 2) << 8) |
                                                        sizeb));
  }
}

static uint32_t rec_typehash(const ares_dns_record_t *rec, size_t *nrr)
{
  uint32_t h = 0;
  size_t   i;
  int      sec;
  *nrr = 0;
  for (sec = ARES_SECTION_ANSWER; sec <= ARES_SECTION_ADDITIONAL; sec++) {
    for (i = 0; i < ares_dns_record_rr_cnt(rec, (ares_dns_section_t)sec); i++) {
      const ares_dns_rr_t *rr = ares_dns_record_rr_get_const(rec, (ares_dns_section_t)sec, i);
      h += (uint32_t)ares_dns_rr_get_type(rr) * 2654435761u;
      (*nrr)++;
    }
  }
  return h;
}

static void case_rt_parsed(vh_rng_t *rng)
{
  gen_case_t         g;
  gen_opts_t         o;
  ares_dns_record_t *rec = NULL;
  unsigned           flags = 0;
  rt_ctx_t           ctx;
  size_t             nrr = 0, elsewhere = 0, nopt;
  uint32_t           th;

  o.hostsafe_pct     = 97; /* owner names must be host names for ares_dns_write to take them */
  o.mutate           = vh_chance(rng, 1, 5);
  o.allow_rdlen0_raw = 0;
  o.max_rr           = 6;
  o.conform_pct      = 85;
  if (gen_case(&g, rng, &o) != 0) {
    vh_inconclusive("generator-could-not-encode");
    gen_free(&g);
    return;
  }
  if (vh_chance(rng, 1, 6)) {
    flags = 1 + (unsigned)vh_below(rng, 63);
  }
  if (ares_dns_parse(g.wire, g.wlen, flags, &rec) != ARES_SUCCESS) {
    vh_count("rt_parsed_source_rejected");
    vh_inconclusive("source-message-not-accepted");
    gen_free(&g);
    return;
  }
  memset(&ctx, 0, sizeof(ctx));
  ctx.parse_flags  = flags;
  ctx.judge_bytes  = 1;
  ctx.judge_ref    = flags == 0; /* opaque RDATA of known types carries stale pointers */
  ctx.judge_dup    = flags == 0; /* ares_dns_record_duplicate re-parses with flags 0 */
  ctx.judge_rcode  = 1;
  ctx.tcp_variants = 2;
  ctx.uncontrolled_placement = 1;
  nopt             = rt_count_opt(rec, &elsewhere);
  if (nopt > 1 || elsewhere) {
    /* only an OPT RR in the additional section takes part in rcode assembly on output
     * (ares_dns_get_opt_rr); messages with misplaced / repeated OPT are not legal DNS */
    ctx.judge_rcode = 0;
    vh_count("rt_parsed_opt_irregular");
  }
  ctx.hazard = rt_hazard_tag(rt_has_long_text(rec), NULL);
  if (ctx.hazard) {
    vh_count(ctx.hazard[0] == 'e' ? "rt_hazard_escdot" : "rt_hazard_name_over_255");
  }
  th = rec_typehash(rec, &nrr);
  if (vh_chance(rng, 1, 5)) {
    /* the record as the query cache hands it out: parsed, with the time it spent in the cache set as the
     * amount every TTL getter - and therefore every serialisation - takes off */
    static const unsigned int ages[] = { 1, 2, 9, 60, 299, 3600, 86400, 0x7fffffff };
    ares_dns_record_ttl_decrement(rec, vh_chance(rng, 1, 2) ? ages[vh_below(rng, 8)] : 1 + vh_below(rng, 700));
    vh_count("rt_parsed_with_cache_age");
  }
  rt_check(&ctx, rec, rng);
  rt_fingerprint(&ctx, th, nrr);
  if (!ctx.wrote) {
    vh_inconclusive("record-not-writable");
  }
  if (ctx.wrote && vh_want_sample()) {
    vh_sb_t sb = { 0 };
    vh_sb_printf(&sb, "{\"case\":%llu,\"source\":\"parsed\",\"flags\":%u,\"rrs\":%zu,\"written\":%zu,\"pointers\":%zu}",
                 (unsigned long long)vh_cur_case, flags, nrr, ctx.wlen, ctx.nptr);
    vh_sample(sb.b);
    free(sb.b);
  }
  ares_dns_record_destroy(rec);
  gen_free(&g);
}

static void case_rt_built(vh_rng_t *rng)
{
  bld_info_t         info;
  ares_dns_record_t *rec = bld_record(rng, &info);
  rt_ctx_t           ctx;
  if (rec == NULL) {
    vh_inconclusive("builder-header-refused");
    return;
  }
  memset(&ctx, 0, sizeof(ctx));
  ctx.judge_bytes  = !info.mixed_style;
  ctx.judge_ref    = 1;
  ctx.judge_dup    = 1;
  ctx.judge_rcode  = 1;
  ctx.tcp_variants = 2;
  ctx.uncontrolled_placement = 1;
  ctx.hazard       = rt_hazard_tag(rt_has_long_text(rec), info.hazard);
  if (ctx.hazard && ctx.hazard != info.hazard) {
    vh_count(ctx.hazard[0] == 'e' ? "rt_hazard_escdot" : "rt_hazard_name_over_255");
  }
  rt_check(&ctx, rec, rng);
  rt_fingerprint(&ctx, info.typehash, info.nrr);
  if (!ctx.wrote) {
    vh_inconclusive("record-not-writable");
  }
  if (ctx.wrote && vh_want_sample()) {
    vh_sb_t sb = { 0 };
    vh_sb_printf(&sb, "{\"case\":%llu,\"source\":\"built\",\"rrs\":%zu,\"written\":%zu,\"pointers\":%zu,\"hazard\":\"%s\"}",
                 (unsigned long long)vh_cur_case, info.nrr, ctx.wlen, ctx.nptr, ctx.hazard ? ctx.hazard : "");
    vh_sample(sb.b);
    free(sb.b);
  }
  ares_dns_record_destroy(rec);
}

static void case_rt_big(vh_rng_t *rng, uint64_t idx, int late, int huge)
{
  /* sizes step through the 14-bit pointer limit and up to the 16-bit message limit */
  static const size_t around[] = { 16000, 16383, 16384, 16385, 16400, 17000, 20000, 32767, 32768, 40000,
                                   49152, 60000, 65000, 65500, 65534, 65535 };
  static const size_t over[]   = { 65536, 65537, 65600, 70000, 100000, 131072, 140000 };
  bld_info_t          info;
  ares_dns_record_t  *rec;
  rt_ctx_t            ctx;
  size_t              target;
  if (huge) {
    target = over[idx % (sizeof(over) / sizeof(over[0]))];
  } else {
    target = around[idx % (sizeof(around) / sizeof(around[0]))];
    if (vh_chance(rng, 1, 3)) {
      target = 16000 + vh_below(rng, 49536);
    }
    if (late && target < 24000) {
      target += 24000;
    }
  }
  rec = bld_big(rng, &info, target, late, huge);
  if (rec == NULL) {
    vh_inconclusive("builder-header-refused");
    return;
  }
  memset(&ctx, 0, sizeof(ctx));
  ctx.judge_bytes  = 1;
  ctx.judge_ref    = 1;
  ctx.judge_dup    = 1;
  ctx.judge_rcode  = 1;
  ctx.tcp_variants = 1;
  ctx.hazard       = rt_hazard_tag(rt_has_long_text(rec), info.hazard);
  rt_check(&ctx, rec, rng);
  if (ctx.wrote) {
    vh_count(ctx.wlen == target ? "rt_big_exact_size" : "rt_big_other_size");
    if (ctx.wlen > 16384) {
      vh_count("rt_big_over_16k");
    }
  }
  rt_fingerprint(&ctx, info.typehash, info.nrr);
  if (!ctx.wrote) {
    vh_inconclusive("record-not-writable");
  }
  ares_dns_record_destroy(rec);
}

/* ---------------------------------------------------------------------------------- */
/* per-case watchdog: a decoder that stops terminating (e.g. a compression-pointer loop) must not
 * stall the exploration for the driver's chunk timeout; die at the announced case instead */
#include <signal.h>
static void on_alarm(int sig)
{
  static const char msg[] = "codec: Assertion `case finished within its 20 s budget (hang)' failed.\n";
  (void)sig;
  if (write(2, msg, sizeof(msg) - 1) < 0) {
    _exit(99);
  }
  _exit(98);
}

int main(int argc, char **argv)
{
  vh_args_t a;
  uint64_t  i;

  vh_parse_args(&a, argc, argv);
  g_tag = vh_fnv_str(VH_FNV_INIT, a.profile);
  ares_library_init(ARES_LIB_INIT_ALL);
  signal(SIGALRM, on_alarm);
  for (i = a.first; i < a.first + a.count; i++) {
    vh_rng_t rng;
    vh_rng_seed(&rng, vh_case_seed(a.seed, a.profile, i));
    vh_case_begin(i);
    vh_count("cases");
    alarm(20);
    if (!strcmp(a.profile, "gen")) {
      case_gen(&rng);
    } else if (!strcmp(a.profile, "diff")) {
      case_diff(&rng, 0, 0);
    } else if (!strcmp(a.profile, "diff-rdlen0")) {
      case_diff(&rng, 1, 0);
    } else if (!strcmp(a.profile, "diff-flags")) {
      case_diff(&rng, 0, 1);
    } else if (!strcmp(a.profile, "diff-escape")) {
      case_escape(&rng);
    } else if (!strcmp(a.profile, "roundtrip-parsed")) {
      case_rt_parsed(&rng);
    } else if (!strcmp(a.profile, "roundtrip-built")) {
      case_rt_built(&rng);
    } else if (!strcmp(a.profile, "roundtrip-big")) {
      case_rt_big(&rng, i, 0, 0);
    } else if (!strcmp(a.profile, "roundtrip-big-late")) {
      case_rt_big(&rng, i, 1, 0);
    } else if (!strcmp(a.profile, "roundtrip-huge")) {
      case_rt_big(&rng, i, 0, 1);
    } else if (!strcmp(a.profile, "roundtrip-mkquery")) {
      mkq_case(&rng);
      vh_count("nontrivial_cases");
    } else {
      fprintf(stderr, "unknown profile %s\n", a.profile);
      return 2;
    }
  }
  alarm(0);
  ares_library_cleanup();
  vh_chunk_end();
  return 0;
}
