#!/usr/bin/env python3
"""Mutation trial for C03/C04: apply one small realistic bug at a time to a scratch copy of the
c-ares tree (/tmp/codec-src, removed afterwards) and run the quick tiers at --scale 0.1 against it
through VERIF_SRC.  Usage: python3 harness/codec/mutants.py [M1 M5 ...]

Outcome on 2026-09-27 (seed 1, scale 0.1; every mutant flagged, keys abridged):
  M1  SRV weight/port swapped, parser+writer     C04 diff:field:srv:weight          C03 rt:ref-dump-differs:srv:weight
  M2  TTL top bit dropped in parser              C04 diff:field:<type>:ttl (23 keys) C03 rt:dump-differs:<type>:ttl
  M3  OPT ext-rcode shift wrong, parser+writer   C04 diff:field:header:rcode        C03 rt:ref-dump-differs:header:rcode, opt:version
  M4  EDNS option value one octet short (parser) C04 diff:field:opt:options[].value C03 rt:dump-differs:opt:options[].value
  M5  '>=' -> '>' in the pointer rule            C04/C03 abort:assert:case_finished_within_its_.._budget_(hang) (per-case watchdog)
  M6  RDLENGTH back-patch off by one (writer)    C04 diff:escape:text-to-wire       C03 rt:parse-fails, rt:dump-differs:* (26 keys)
  M7  CAA flags/tag swapped, parser+writer       C04 diff:field:caa:flags, diff:reject-wellformed:*  C03 rt:ref-dump-differs:caa:*
  M8  '.' in a label not escaped                 C04 diff:escape:wire-to-text, diff:field:*:name     C03 rt:dump-differs:*
  M9  TCP length prefix counts itself            C04 -                              C03 rt:tcpbuf:nocomp:length-prefix
  M10 MX preference byte-swapped, parser+writer  C04 diff:field:mx:preference       C03 rt:ref-dump-differs:mx:preference
  M11 ares_buf_set_length ignores consumed prefix C04 -                             C03 rt:tcpbuf:nocomp:*, asan:negative-size-param
  M12 SOA serial/refresh swapped (parser only)   C04 diff:field:soa:serial          C03 rt:dump-differs:soa:serial
M9 and M11 touch only the TCP writer, which C04 does not exercise."""
import os, shutil, subprocess, sys, re, time
SRC = "/tmp/codec-src"
P = SRC + "/src/lib/record/ares_dns_parse.c"
W = SRC + "/src/lib/record/ares_dns_write.c"
N = SRC + "/src/lib/record/ares_dns_name.c"

def sub(path, old, new, count=1):
    s = open(path).read()
    assert s.count(old) >= 1, (path, old)
    s = s.replace(old, new, count) if count else s.replace(old, new)
    open(path, "w").write(s)

MUTANTS = [
 ("M1 SRV weight/port swapped in parser AND writer (symmetric)", [
   (P, "status = ares_dns_parse_and_set_be16(buf, rr, ARES_RR_SRV_WEIGHT);", "status = ares_dns_parse_and_set_be16(buf, rr, ARES_RR_SRV_PORT);"),
   (P, "  /* PORT */\n  status = ares_dns_parse_and_set_be16(buf, rr, ARES_RR_SRV_PORT);", "  /* PORT */\n  status = ares_dns_parse_and_set_be16(buf, rr, ARES_RR_SRV_WEIGHT);"),
   (W, "status = ares_dns_write_rr_be16(buf, rr, ARES_RR_SRV_WEIGHT);", "status = ares_dns_write_rr_be16(buf, rr, ARES_RR_SRV_PORT);"),
   (W, "  /* PORT */\n  status = ares_dns_write_rr_be16(buf, rr, ARES_RR_SRV_PORT);", "  /* PORT */\n  status = ares_dns_write_rr_be16(buf, rr, ARES_RR_SRV_WEIGHT);"),
 ]),
 ("M2 TTL treated as signed 31-bit in the parser (top bit dropped)", [
   (P, "  status = ares_buf_fetch_be32(buf, &ttl);\n  if (status != ARES_SUCCESS) {\n    goto done;\n  }", "  status = ares_buf_fetch_be32(buf, &ttl);\n  if (status != ARES_SUCCESS) {\n    goto done;\n  }\n  if (ttl & 0x80000000U) { ttl = 0; }"),
 ]),
 ("M3 OPT extended-rcode shift wrong in parser AND writer (symmetric)", [
   (P, "rcode_high             = (unsigned short)((raw_ttl >> 20) & 0x0FF0);", "rcode_high             = (unsigned short)((raw_ttl >> 16) & 0x0FF0);"),
   (W, "ttl |= (unsigned int)rcode << 24;", "ttl |= (unsigned int)rcode << 20;"),
 ]),
 ("M4 off-by-one in EDNS option length (parser drops the last value octet)", [
   (P, "    if (len) {\n      status = ares_buf_fetch_bytes_dup(buf, len, ARES_TRUE, &val);\n      if (status != ARES_SUCCESS) {\n        return status;\n      }\n    }\n\n    status = ares_dns_rr_set_opt_own(rr, ARES_RR_OPT_OPTIONS, opt, val, len);",
       "    if (len) {\n      status = ares_buf_fetch_bytes_dup(buf, len, ARES_TRUE, &val);\n      if (status != ARES_SUCCESS) {\n        return status;\n      }\n    }\n\n    status = ares_dns_rr_set_opt_own(rr, ARES_RR_OPT_OPTIONS, opt, val, len > 8 ? len - 1 : len);"),
 ]),
 ("M5 '>=' -> '>' in the pointer-backward rule", [
   (N, "if (offset >= label_start) {", "if (offset > label_start) {"),
 ]),
 ("M6 RDLENGTH back-patch off by one in the writer", [
   (W, "rdlength   = end_length - pos_len - 2;", "rdlength   = end_length - pos_len - 1;"),
 ]),
 ("M7 CAA flags and tag swapped in parser AND writer (symmetric)", [
   (P, "  /* CRITICAL */\n  status = ares_dns_parse_and_set_u8(buf, rr, ARES_RR_CAA_CRITICAL);\n  if (status != ARES_SUCCESS) {\n    return status;\n  }\n\n  /* Tag */\n  status = ares_dns_parse_and_set_dns_str(\n    buf, ares_dns_rr_remaining_len(buf, orig_len, rdlength), rr,\n    ARES_RR_CAA_TAG, ARES_FALSE);\n  if (status != ARES_SUCCESS) {\n    return status;\n  }",
       "  /* Tag */\n  status = ares_dns_parse_and_set_dns_str(\n    buf, ares_dns_rr_remaining_len(buf, orig_len, rdlength), rr,\n    ARES_RR_CAA_TAG, ARES_FALSE);\n  if (status != ARES_SUCCESS) {\n    return status;\n  }\n\n  /* CRITICAL */\n  status = ares_dns_parse_and_set_u8(buf, rr, ARES_RR_CAA_CRITICAL);\n  if (status != ARES_SUCCESS) {\n    return status;\n  }"),
   (W, "  /* CRITICAL */\n  status = ares_dns_write_rr_u8(buf, rr, ARES_RR_CAA_CRITICAL);\n  if (status != ARES_SUCCESS) {\n    return status; /* LCOV_EXCL_LINE: OutOfMemory */\n  }\n\n  /* Tag */\n  status = ares_dns_write_rr_str(buf, rr, ARES_RR_CAA_TAG);\n  if (status != ARES_SUCCESS) {\n    return status; /* LCOV_EXCL_LINE: OutOfMemory */\n  }",
       "  /* Tag */\n  status = ares_dns_write_rr_str(buf, rr, ARES_RR_CAA_TAG);\n  if (status != ARES_SUCCESS) {\n    return status; /* LCOV_EXCL_LINE: OutOfMemory */\n  }\n\n  /* CRITICAL */\n  status = ares_dns_write_rr_u8(buf, rr, ARES_RR_CAA_CRITICAL);\n  if (status != ARES_SUCCESS) {\n    return status; /* LCOV_EXCL_LINE: OutOfMemory */\n  }"),
 ]),
 ("M8 '.' inside a label no longer escaped when presenting names", [
   (N, "    case '\"':\n    case '.':\n    case ';':", "    case '\"':\n    case ';':"),
 ]),
 ("M9 TCP writer: length prefix counts itself", [
   (W, "msg_len = len - orig_len - 2;", "msg_len = len - orig_len;"),
 ]),
 ("M10 MX preference byte-swapped in parser AND writer (symmetric)", [
   (P, "  /* PREFERENCE */\n  status = ares_dns_parse_and_set_be16(buf, rr, ARES_RR_MX_PREFERENCE);\n  if (status != ARES_SUCCESS) {\n    return status;\n  }",
       "  /* PREFERENCE */\n  status = ares_dns_parse_and_set_be16(buf, rr, ARES_RR_MX_PREFERENCE);\n  if (status != ARES_SUCCESS) {\n    return status;\n  }\n  rr->r.mx.preference = (unsigned short)((rr->r.mx.preference << 8) | (rr->r.mx.preference >> 8));"),
   (W, "  /* PREFERENCE */\n  status = ares_dns_write_rr_be16(buf, rr, ARES_RR_MX_PREFERENCE);",
       "  /* PREFERENCE */\n  status = ares_buf_append_be16(buf, (unsigned short)((rr->r.mx.preference << 8) | (rr->r.mx.preference >> 8)));"),
 ]),
 ("M11 writer forgets the consumed-prefix when back-patching (ares_buf_set_length ignores offset)", [
   (SRC + "/src/lib/str/ares_buf.c", "  buf->data_len = len + buf->offset;\n  return ARES_SUCCESS;", "  buf->data_len = len;\n  return ARES_SUCCESS;"),
 ]),
 ("M12 SOA serial/refresh order swapped in the parser only", [
   (P, "  /* SERIAL */\n  status = ares_dns_parse_and_set_be32(buf, rr, ARES_RR_SOA_SERIAL);", "  /* SERIAL */\n  status = ares_dns_parse_and_set_be32(buf, rr, ARES_RR_SOA_REFRESH);"),
   (P, "  /* REFRESH */\n  status = ares_dns_parse_and_set_be32(buf, rr, ARES_RR_SOA_REFRESH);", "  /* REFRESH */\n  status = ares_dns_parse_and_set_be32(buf, rr, ARES_RR_SOA_SERIAL);"),
 ]),
]

def fresh():
    shutil.rmtree(SRC, ignore_errors=True)
    os.makedirs(SRC)
    shutil.copytree("/repo/src", SRC + "/src")
    shutil.copytree("/repo/include", SRC + "/include")

def run(check, scale):
    env = dict(os.environ, VERIF_SRC=SRC, VERIF_SEED="1")
    t = time.time()
    p = subprocess.run(["bin/check", check, "--tier", "quick", "--scale", str(scale)], cwd="/verif",
                       env=env, stdout=subprocess.PIPE, stderr=subprocess.STDOUT, text=True)
    keys = sorted(set(re.findall(r"^VIOLATION .*? key=(\S+)", p.stdout, re.M)))
    return p.returncode, keys, time.time() - t

only = sys.argv[1:] 
for name, edits in MUTANTS:
    if only and name.split()[0] not in only:
        continue
    fresh()
    for path, old, new in edits:
        sub(path, old, new)
    out = []
    for chk in ("C04", "C03"):
        rc, keys, dt = run(chk, 0.1)
        out.append("%s exit=%d %.0fs keys=%s" % (chk, rc, dt, ",".join(keys[:6]) + (" (+%d more)" % (len(keys) - 6) if len(keys) > 6 else "")))
    print(name)
    for o in out:
        print("   ", o)
    sys.stdout.flush()
shutil.rmtree(SRC, ignore_errors=True)
