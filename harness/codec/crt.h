/* crt.h - round-trip oracle (property C03): write -> parse -> write, the same through the
 * length-prefixed TCP writer at arbitrary buffer positions, ares_dns_record_duplicate, and the
 * legacy query builders; every written message is also decoded by the independent reference.
 * Also the generator of records built through the PUBLIC setters.
 */
#ifndef CODEC_CRT_H
#define CODEC_CRT_H

#include "ares_private.h" /* ares_buf_t, ares_dns_write_buf_tcp (record/ares_dns_private.h) */
#include "refdns.h"
#include "cares_dump.h"
#include "cdiff.h"

typedef struct {
  const char *hazard;      /* NULL, or the tag of a deliberately planted trigger; keys become
                            * rt:<hazard>:<rule> so a known finding stays confined */
  unsigned    parse_flags; /* flags the record was parsed with (0 for built records) */
  int         judge_bytes; /* W2 == W is required */
  int         judge_ref;   /* compare with the reference decoder */
  int         judge_dup;
  int         judge_rcode; /* 0: header rcode line is not compared (OPT misplaced / repeated) */
  int         tcp_variants; /* how many (p, consumed) placements to try */
  int         uncontrolled_placement; /* the workload does not control where names first appear: a
                                       * message over 16 KiB may repeat a name introduced beyond
                                       * offset 16383 (known finding, tagged big16k-late) */
  /* results for fingerprints / counters */
  size_t wlen;
  size_t nptr;
  int    wrote;
} rt_ctx_t;

static void rt_violation(const rt_ctx_t *ctx, const char *rule, const char *fmt, ...)
{
  char    key[200], detail[1600];
  va_list ap;
  va_start(ap, fmt);
  vsnprintf(detail, sizeof(detail), fmt, ap);
  va_end(ap);
  if (ctx->hazard) {
    snprintf(key, sizeof(key), "rt:%s:%s", ctx->hazard, rule);
  } else {
    snprintf(key, sizeof(key), "rt:%s", rule);
  }
  vh_violation(key, "%s", detail);
}

/* remove / replace the "hdr.rcode" line of a dump in place */
static void rt_set_rcode_line(vh_sb_t *sb, const char *val)
{
  char  *p = sb->b ? strstr(sb->b, "hdr.rcode ") : NULL;
  char  *e;
  char   line[64];
  size_t nl, ol;
  if (p == NULL) {
    return;
  }
  e = strchr(p, '\n');
  if (e == NULL) {
    return;
  }
  ol = (size_t)(e - p);
  nl = (size_t)snprintf(line, sizeof(line), "hdr.rcode %s", val);
  if (nl > ol) {
    /* grow: dumps always have slack of at least a few bytes after realloc doubling; be safe */
    if (sb->cap - sb->len < nl - ol + 1) {
      size_t off = (size_t)(p - sb->b);
      sb->cap += 64;
      sb->b = (char *)realloc(sb->b, sb->cap);
      p     = sb->b + off;
      e     = p + ol;
    }
  }
  memmove(p + nl, e, sb->len - (size_t)(e - sb->b) + 1);
  memcpy(p, line, nl);
  sb->len = sb->len + nl - ol;
}

/* octets the presentation name needs on the wire (no 255 cap); 0 if the text is malformed */
static size_t rt_text_wirelen(const char *text)
{
  size_t      wl = 1, ll = 0;
  const char *p;
  for (p = text; *p; p++) {
    if (*p == '.') {
      if (ll == 0) {
        return (p == text && p[1] == 0) ? 1 : 0;
      }
      wl += ll + 1;
      ll = 0;
      continue;
    }
    if (*p == '\\') {
      if (p[1] >= '0' && p[1] <= '9') {
        if (!(p[2] >= '0' && p[2] <= '9' && p[3] >= '0' && p[3] <= '9')) {
          return 0;
        }
        p += 3;
      } else if (p[1] == 0) {
        return 0;
      } else {
        p++;
      }
    }
    ll++;
  }
  if (ll) {
    wl += ll + 1;
  }
  return wl;
}

#define RT_HAZ_LONGESC 1 /* some name has presentation text of 512 octets or more (the writer's
                          * name_copy[512]) */
#define RT_HAZ_OVER255 2 /* some name needs more than 255 octets on the wire (the parser accepts
                          * such names when pointers assemble them) */
#define RT_HAZ_ESCDOT  4 /* some name has an escaped dot inside a label: the writer's suffix
                          * search compares presentation text and takes the '.' of "\\." for a
                          * label boundary */
static int rt_name_hazard(const char *n)
{
  int h = 0;
  if (n == NULL) {
    return 0;
  }
  if (strlen(n) >= 512) {
    h |= RT_HAZ_LONGESC;
  }
  if (rt_text_wirelen(n) > 255) {
    h |= RT_HAZ_OVER255;
  }
  return h;
}

/* exact trigger of the escaped-dot finding: the text after an escaped dot of one name equals the
 * whole text of another name of the record (checked on the spelling held by the record and on the
 * spelling the parser produces) */
#define RT_MAXNAMES 600
typedef struct {
  char  *txt[2 * RT_MAXNAMES];
  size_t n;
} rt_names_t;

static void bld_name_text(vh_rng_t *r, const refdns_name_t *n, int style, char *out, size_t cap);

static void rt_names_add(rt_names_t *ns, const char *t)
{
  refdns_name_t nm;
  char          canon[1300];
  if (t == NULL || ns->n + 2 > 2 * RT_MAXNAMES) {
    return;
  }
  ns->txt[ns->n++] = strdup(t);
  if (refdns_name_from_text(&nm, t) == 0 && nm.nlabels) {
    bld_name_text(NULL, &nm, 0, canon, sizeof(canon));
    if (strcmp(canon, t) != 0) {
      ns->txt[ns->n++] = strdup(canon);
    }
  }
}

static int rt_names_escdot(rt_names_t *ns)
{
  size_t i, j;
  int    hit = 0;
  for (i = 0; i < ns->n && !hit; i++) {
    const char *p;
    for (p = ns->txt[i]; *p && !hit; p++) {
      if (*p != '\\') {
        continue;
      }
      if (p[1] == '.') {
        for (j = 0; j < ns->n; j++) {
          if (j != i && strcmp(p + 2, ns->txt[j]) == 0) {
            hit = 1;
            break;
          }
        }
      }
      if (p[1] >= '0' && p[1] <= '9' && p[2] && p[3]) {
        p += 3;
      } else if (p[1]) {
        p++;
      }
    }
  }
  for (i = 0; i < ns->n; i++) {
    free(ns->txt[i]);
  }
  ns->n = 0;
  return hit;
}

static int rt_has_long_text(const ares_dns_record_t *rec)
{
  static rt_names_t ns;
  size_t            i, k;
  int               sec, h = 0;
  ns.n = 0;
  for (i = 0; i < ares_dns_record_query_cnt(rec); i++) {
    const char *n = NULL;
    if (ares_dns_record_query_get(rec, i, &n, NULL, NULL) == ARES_SUCCESS) {
      h |= rt_name_hazard(n);
      rt_names_add(&ns, n);
    }
  }
  for (sec = ARES_SECTION_ANSWER; sec <= ARES_SECTION_ADDITIONAL; sec++) {
    for (i = 0; i < ares_dns_record_rr_cnt(rec, (ares_dns_section_t)sec); i++) {
      const ares_dns_rr_t     *rr = ares_dns_record_rr_get_const(rec, (ares_dns_section_t)sec, i);
      size_t                   nk = 0;
      const ares_dns_rr_key_t *keys;
      const char              *n = ares_dns_rr_get_name(rr);
      h |= rt_name_hazard(n);
      rt_names_add(&ns, n);
      keys = ares_dns_rr_get_keys(ares_dns_rr_get_type(rr), &nk);
      for (k = 0; keys && k < nk; k++) {
        if (ares_dns_rr_key_datatype(keys[k]) == ARES_DATATYPE_NAME && keys[k] != ARES_RR_URI_TARGET) {
          h |= rt_name_hazard(ares_dns_rr_get_str(rr, keys[k]));
          rt_names_add(&ns, ares_dns_rr_get_str(rr, keys[k]));
        }
      }
    }
  }
  if (rt_names_escdot(&ns)) {
    h |= RT_HAZ_ESCDOT;
  }
  return h;
}

static const char *rt_hazard_tag(int h, const char *dflt)
{
  if (h & RT_HAZ_OVER255) {
    return "name-over-255";
  }
  /* RT_HAZ_LONGESC used to be tagged "longesc" while the writer truncated such names
   * (fixed by /repo commit 515995f); it is only counted now */
  if (h & RT_HAZ_ESCDOT) {
    return "escdot";
  }
  return dflt;
}

/* where are the OPT RRs?  returns count in ADDITIONAL, *elsewhere = count in other sections */
static size_t rt_count_opt(const ares_dns_record_t *rec, size_t *elsewhere)
{
  size_t i, n = 0;
  int    sec;
  *elsewhere = 0;
  for (sec = ARES_SECTION_ANSWER; sec <= ARES_SECTION_ADDITIONAL; sec++) {
    for (i = 0; i < ares_dns_record_rr_cnt(rec, (ares_dns_section_t)sec); i++) {
      const ares_dns_rr_t *rr = ares_dns_record_rr_get_const(rec, (ares_dns_section_t)sec, i);
      if (ares_dns_rr_get_type(rr) == ARES_REC_TYPE_OPT) {
        if (sec == ARES_SECTION_ADDITIONAL) {
          n++;
        } else {
          (*elsewhere)++;
        }
      }
    }
  }
  return n;
}

/* dump of R as the round trip is expected to reproduce it */
static void rt_expected_dump(const ares_dns_record_t *R, const rt_ctx_t *ctx, vh_sb_t *sb)
{
  size_t elsewhere = 0;
  size_t nopt      = rt_count_opt(R, &elsewhere);
  cares_dump(R, sb);
  /* ares_dns_write_header(): "Must have OPT RR in order to write extended error codes" - an
   * rcode above 15 without an OPT RR in the additional section is written as SERVFAIL. */
  if ((unsigned)ares_dns_record_get_rcode(R) > 15 && nopt == 0 && elsewhere == 0) {
    rt_set_rcode_line(sb, "2");
  }
  if (!ctx->judge_rcode) {
    rt_set_rcode_line(sb, "*");
  }
}

static void rt_actual_dump(const ares_dns_record_t *R, const rt_ctx_t *ctx, vh_sb_t *sb)
{
  cares_dump(R, sb);
  if (!ctx->judge_rcode) {
    rt_set_rcode_line(sb, "*");
  }
}

static void rt_ref_dump(refdns_msg_t *D, const rt_ctx_t *ctx, vh_sb_t *sb)
{
  D->rcode = (uint16_t)cd_rcode_as_cares(D->rcode);
  refdns_dump_ex(D, REFDNS_DUMP_TLV_MAP, sb);
  if (!ctx->judge_rcode) {
    rt_set_rcode_line(sb, "*");
  }
}

/* one placement of the TCP writer: the buffer already holds `consumed` octets that have been
 * read away and `p` octets of earlier frames */
static void rt_tcp_variant(const rt_ctx_t *ctx, const ares_dns_record_t *R, const char *expect,
                           const unsigned char *W, size_t wlen, size_t p, size_t consumed,
                           int has_comp)
{
  ares_buf_t          *b = ares_buf_create();
  unsigned char       *fill;
  const unsigned char *data;
  size_t               len = 0, i, flen;
  ares_status_t        st;
  char                 rule[96];
  const char          *cls = has_comp ? "comp" : "nocomp";
  refdns_msg_t         D;
  char                 err[160];
  ares_dns_record_t   *R3 = NULL;
  cd_rawpolicy_t       pol;

  if (b == NULL) {
    return;
  }
  fill = (unsigned char *)malloc(p + consumed + 1);
  for (i = 0; i < p + consumed; i++) {
    fill[i] = (unsigned char)(0xa0 + (i & 0x1f));
  }
  if (p + consumed) {
    ares_buf_append(b, fill, p + consumed);
  }
  if (consumed) {
    ares_buf_consume(b, consumed);
  }
  st = ares_dns_write_buf_tcp(R, b);
  vh_count("rt_tcp_writes");
  if (st != ARES_SUCCESS) {
    snprintf(rule, sizeof(rule), "tcpbuf:%s:write-fails", cls);
    rt_violation(ctx, rule, "ares_dns_write succeeded but ares_dns_write_buf_tcp (p=%zu consumed=%zu) "
                 "returned %d", p, consumed, (int)st);
    goto done;
  }
  data = ares_buf_peek(b, &len);
  if (data == NULL || len < p + 2 || memcmp(data, fill + consumed, p) != 0) {
    snprintf(rule, sizeof(rule), "tcpbuf:%s:prefix-clobbered", cls);
    rt_violation(ctx, rule, "p=%zu consumed=%zu: earlier buffer content changed (len now %zu)", p,
                 consumed, len);
    goto done;
  }
  flen = ((size_t)data[p] << 8) | data[p + 1];
  if (p + 2 + flen != len) {
    snprintf(rule, sizeof(rule), "tcpbuf:%s:length-prefix", cls);
    rt_violation(ctx, rule, "p=%zu consumed=%zu: length prefix says %zu, buffer holds %zu after it",
                 p, consumed, flen, len - p - 2);
    goto done;
  }
  if (flen != wlen || memcmp(data + p + 2, W, wlen) != 0) {
    char   hx[200];
    size_t o = 0;
    while (o < flen && o < wlen && data[p + 2 + o] == W[o]) {
      o++;
    }
    cd_hexdump(data + p + 2 + (o > 8 ? o - 8 : 0), flen - (o > 8 ? o - 8 : 0) > 40 ? 40 : flen - (o > 8 ? o - 8 : 0),
               hx, sizeof(hx));
    snprintf(rule, sizeof(rule), "tcpbuf:%s:frame-differs", cls);
    rt_violation(ctx, rule, "p=%zu consumed=%zu: frame (%zu octets) differs from ares_dns_write output "
                 "(%zu octets) at message offset %zu; frame bytes from offset %zu: %s",
                 p, consumed, flen, wlen, o, o > 8 ? o - 8 : 0, hx);
    /* fall through to see whether it at least decodes */
  }
  pol.flags = ctx->parse_flags; /* RRs the record holds as opaque bytes stay opaque here too */
  if (refdns_decode_ex(data + p + 2, flen, ctx->parse_flags ? cd_treat_raw : NULL, &pol, &D, err,
                       sizeof(err)) != 0) {
    snprintf(rule, sizeof(rule), "tcpbuf:%s:ref-decode", cls);
    rt_violation(ctx, rule, "p=%zu consumed=%zu: frame does not decode: %s", p, consumed, err);
    refdns_free(&D);
    goto done;
  }
  refdns_free(&D);
  st = ares_dns_parse(data + p + 2, flen, ctx->parse_flags, &R3);
  if (st != ARES_SUCCESS) {
    snprintf(rule, sizeof(rule), "tcpbuf:%s:parse-fails", cls);
    rt_violation(ctx, rule, "p=%zu consumed=%zu: frame rejected by ares_dns_parse: %d", p, consumed,
                 (int)st);
    goto done;
  } else {
    vh_sb_t   s3 = { 0 };
    cd_diff_t df;
    rt_actual_dump(R3, ctx, &s3);
    cd_first_diff(expect, s3.b, &df);
    if (df.differ) {
      char k[96];
      cd_key_from_path(df.path, k, sizeof(k));
      snprintf(rule, sizeof(rule), "tcpbuf:%s:dump-differs", cls);
      rt_violation(ctx, rule, "p=%zu consumed=%zu: field %s: record '%s' frame '%s'", p, consumed, k,
                   df.a, df.b);
    }
    free(s3.b);
  }
done:
  ares_dns_record_destroy(R3);
  ares_buf_destroy(b);
  free(fill);
}

/* The record cannot be written: the framed writer must fail too and leave the output buffer (which may
 * hold earlier, still unsent frames) exactly as it was - no stray length prefix, nothing truncated. */
static void rt_tcp_failed_write(const rt_ctx_t *ctx, const ares_dns_record_t *R, size_t p, size_t consumed)
{
  ares_buf_t          *b = ares_buf_create();
  unsigned char       *fill;
  const unsigned char *data;
  size_t               len = 0, i;
  ares_status_t        st;
  if (b == NULL) {
    return;
  }
  fill = (unsigned char *)malloc(p + consumed + 1);
  for (i = 0; i < p + consumed; i++) {
    fill[i] = (unsigned char)(0xa0 + (i & 0x1f));
  }
  if (p + consumed) {
    ares_buf_append(b, fill, p + consumed);
  }
  if (consumed) {
    ares_buf_consume(b, consumed);
  }
  st = ares_dns_write_buf_tcp(R, b);
  vh_count("rt_tcp_failed_writes");
  if (st == ARES_SUCCESS) {
    rt_violation(ctx, "tcpbuf:accepts-unwritable", "ares_dns_write failed but ares_dns_write_buf_tcp (p=%zu consumed=%zu) succeeded", p, consumed);
  } else {
    data = ares_buf_peek(b, &len);
    if (len != p || (p && (data == NULL || memcmp(data, fill + consumed, p) != 0))) {
      rt_violation(ctx, "tcpbuf:failed-write-changes-buffer",
                   "ares_dns_write_buf_tcp returned %d but the output buffer went from %zu to %zu unread octets (p=%zu consumed=%zu)", (int)st, p, len, p,
                   consumed);
    }
  }
  free(fill);
  ares_buf_destroy(b);
}

/* The round-trip oracle.  R is not modified. */
static void rt_check(rt_ctx_t *ctx, const ares_dns_record_t *R, vh_rng_t *rng)
{
  static const size_t ptab[] = { 0, 1, 2, 11, 300, 16383, 16384, 40000 };
  unsigned char      *W = NULL, *W2 = NULL;
  size_t              wlen = 0, w2len = 0;
  ares_status_t       st;
  ares_dns_record_t  *R2   = NULL;
  vh_sb_t             se   = { 0 }, s2 = { 0 }, sr = { 0 };
  cd_diff_t           df;
  char                key[160], fk[96], hx[420];
  refdns_msg_t        D;
  int                 have_D = 0, has_comp = 0, i;

  ctx->wrote = 0;
  ctx->wlen  = 0;
  ctx->nptr  = 0;
  st         = ares_dns_write(R, &W, &wlen);
  if (st != ARES_SUCCESS) {
    char cn[48];
    snprintf(cn, sizeof(cn), "rt_write_status_%d", (int)st);
    vh_count(cn);
    if (ctx->tcp_variants > 0) {
      size_t p        = vh_chance(rng, 1, 3) ? 0 : ptab[vh_below(rng, sizeof(ptab) / sizeof(ptab[0]))];
      size_t consumed = vh_chance(rng, 1, 2) ? 0 : ptab[vh_below(rng, 6)] + vh_below(rng, 3);
      rt_tcp_failed_write(ctx, R, p, consumed);
    }
    return;
  }
  vh_count("rt_written");
  ctx->wrote = 1;
  ctx->wlen  = wlen;
  if (wlen > 16384 && ctx->uncontrolled_placement && ctx->hazard == NULL) {
    ctx->hazard = "big16k-late";
    vh_count("rt_hazard_big16k_uncontrolled");
  }
  rt_expected_dump(R, ctx, &se);

  if (wlen > 65535) {
    rt_violation(ctx, "too-long", "ares_dns_write returned success with a %zu-octet message", wlen);
    goto done;
  }
  st = ares_dns_parse(W, wlen, ctx->parse_flags, &R2);
  if (st != ARES_SUCCESS) {
    cd_hexdump(W, wlen > 200 ? 200 : wlen, hx, sizeof(hx));
    rt_violation(ctx, "parse-fails", "ares_dns_parse(ares_dns_write(R)) = %d; W(%zu)=%s", (int)st,
                 wlen, hx);
    goto ref;
  }
  rt_actual_dump(R2, ctx, &s2);
  cd_first_diff(se.b, s2.b, &df);
  vh_count("rt_dump_compares");
  if (df.differ) {
    cd_key_from_path(df.path, fk, sizeof(fk));
    snprintf(key, sizeof(key), "dump-differs:%s", fk);
    cd_hexdump(W, wlen > 160 ? 160 : wlen, hx, sizeof(hx));
    rt_violation(ctx, key, "original '%s' re-parsed '%s'; W(%zu)=%s", df.a, df.b, wlen, hx);
  }
  st = ares_dns_write(R2, &W2, &w2len);
  if (st != ARES_SUCCESS) {
    rt_violation(ctx, "rewrite-fails", "ares_dns_write(parse(W)) = %d", (int)st);
  } else if (ctx->judge_bytes && (w2len != wlen || memcmp(W, W2, wlen) != 0)) {
    size_t o = 0;
    while (o < wlen && o < w2len && W[o] == W2[o]) {
      o++;
    }
    rt_violation(ctx, "bytes-differ", "write(parse(W)) differs from W at offset %zu (%zu vs %zu octets)",
                 o, wlen, w2len);
  }

ref:
  if (ctx->judge_ref) {
    char err[160];
    have_D = 1;
    if (refdns_decode_ex(W, wlen, NULL, NULL, &D, err, sizeof(err)) != 0) {
      snprintf(key, sizeof(key), "ref-decode-fails:%s", refdns_status_name(D.status));
      cd_hexdump(W, wlen > 200 ? 200 : wlen, hx, sizeof(hx));
      rt_violation(ctx, key, "reference decoder rejects what ares_dns_write produced: %s; last pointer "
                   "followed: at %u -> %u; W(%zu)=%s", err, D.nptr ? D.ptr[D.nptr - 1].pos : 0,
                   D.nptr ? D.ptr[D.nptr - 1].target : 0, wlen, hx);
    } else {
      size_t k;
      vh_count("rt_ref_compares");
      ctx->nptr = D.nptr_total;
      has_comp  = D.nptr_total > 0;
      for (k = 0; k < D.nptr; k++) {
        if (D.ptr[k].target >= D.ptr[k].pos) {
          rt_violation(ctx, "ptr-forward", "pointer at %u targets %u", D.ptr[k].pos, D.ptr[k].target);
          break;
        }
      }
      if (D.soft & (REFDNS_SOFT_RDATA_TRAILING | REFDNS_SOFT_MSG_TRAILING)) {
        rt_violation(ctx, "ref-trailing", "written message has unaccounted octets (soft=0x%x)", D.soft);
      }
      rt_ref_dump(&D, ctx, &sr);
      cd_first_diff(se.b, sr.b, &df);
      if (df.differ) {
        cd_key_from_path(df.path, fk, sizeof(fk));
        snprintf(key, sizeof(key), "ref-dump-differs:%s", fk);
        cd_hexdump(W, wlen > 160 ? 160 : wlen, hx, sizeof(hx));
        rt_violation(ctx, key, "record '%s' reference decode of W '%s'; W(%zu)=%s", df.a, df.b, wlen,
                     hx);
      }
    }
  }

  /* TCP framing at assorted buffer positions */
  if (!ctx->judge_ref) {
    /* without the reference we cannot tell whether W uses compression: look for 0xc0 octets */
    size_t k;
    for (k = 12; k < wlen; k++) {
      if ((W[k] & 0xc0) == 0xc0) {
        has_comp = 1;
      }
    }
  }
  for (i = 0; i < ctx->tcp_variants; i++) {
    size_t p        = ptab[vh_below(rng, sizeof(ptab) / sizeof(ptab[0]))];
    size_t consumed = vh_chance(rng, 1, 2) ? 0 : ptab[vh_below(rng, 6)] + vh_below(rng, 3);
    if (i == 0 && vh_chance(rng, 1, 2)) {
      p        = 0;
      consumed = 0;
    }
    rt_tcp_variant(ctx, R, se.b, W, wlen, p, consumed, has_comp);
  }

  /* duplicate */
  if (ctx->judge_dup) {
    ares_dns_record_t *Rd = ares_dns_record_duplicate(R);
    vh_count("rt_dups");
    if (Rd == NULL) {
      rt_violation(ctx, "dup-differs", "ares_dns_record_duplicate returned NULL for a writable record");
    } else {
      vh_sb_t        sd = { 0 };
      unsigned char *Wd = NULL;
      size_t         wdlen = 0;
      rt_actual_dump(Rd, ctx, &sd);
      cd_first_diff(se.b, sd.b, &df);
      if (df.differ) {
        rt_violation(ctx, "dup-differs", "original '%s' duplicate '%s'", df.a, df.b);
      } else if (ares_dns_write(Rd, &Wd, &wdlen) != ARES_SUCCESS ||
                 (ctx->judge_bytes && (wdlen != wlen || memcmp(Wd, W, wlen) != 0))) {
        rt_violation(ctx, "dup-differs", "duplicate serialises differently (%zu vs %zu octets)", wdlen,
                     wlen);
      }
      ares_free(Wd);
      free(sd.b);
      ares_dns_record_destroy(Rd);
    }
  }

done:
  if (have_D) {
    refdns_free(&D);
  }
  ares_dns_record_destroy(R2);
  ares_free(W);
  ares_free(W2);
  free(se.b);
  free(s2.b);
  free(sr.b);
}

/* ====================================================================================
 * records built through the public setters
 * ==================================================================================== */
typedef struct {
  const char *hazard; /* planted trigger, or NULL */
  int         mixed_style;
  size_t      nrr;
  uint32_t    typehash; /* order-independent hash of the RR types */
  size_t      ub;       /* upper bound of the wire size of everything added so far */
} bld_info_t;

/* render a name in one of several legal presentation styles */
static void bld_name_text(vh_rng_t *r, const refdns_name_t *n, int style, char *out, size_t cap)
{
  size_t i, k, o = 0, off = 0;
  if (n->nlabels == 0) {
    /* "" is how the parser spells the root; "." is accepted too but is a different spelling
     * (the writer then remembers "." as a compressible name) */
    snprintf(out, cap, "%s", (style == 0 || r == NULL) ? "" : vh_chance(r, 1, 2) ? "" : ".");
    return;
  }
  if (style == 0) {
    /* the spelling ares_dns_parse() itself produces (RFC 1035 5.1 master-file conventions:
     * \DDD outside 0x20..0x7e, backslash before the special characters), so that a built record
     * is indistinguishable from a parsed one and write(parse(W)) == W can be demanded */
    for (i = 0; i < n->nlabels; i++) {
      if (i) {
        out[o++] = '.';
      }
      for (k = 0; k < n->len[i]; k++) {
        uint8_t c = n->data[off + k];
        if (o + 6 >= cap) {
          out[o] = 0;
          return;
        }
        if (c < 0x20 || c > 0x7e) {
          o += (size_t)snprintf(out + o, cap - o, "\\%03u", c);
        } else {
          if (strchr("\".;\\()@$", c)) {
            out[o++] = '\\';
          }
          out[o++] = (char)c;
        }
      }
      off += n->len[i];
    }
    out[o] = 0;
    return;
  }
  if (style == 2) {
    refdns_name_to_text(n, out, cap - 2);
    strcat(out, ".");
    return;
  }
  for (i = 0; i < n->nlabels; i++) {
    if (i) {
      out[o++] = '.';
    }
    for (k = 0; k < n->len[i]; k++) {
      uint8_t c     = n->data[off + k];
      int     alnum = (c >= '0' && c <= '9') || (c >= 'a' && c <= 'z') || (c >= 'A' && c <= 'Z');
      if (o + 6 >= cap) {
        out[o] = 0;
        return;
      }
      if (style == 1 || !(c >= 0x21 && c <= 0x7e)) {
        o += (size_t)snprintf(out + o, cap - o, "\\%03u", c);
      } else if (!alnum) { /* style 3: \X for every printable non-alphanumeric */
        out[o++] = '\\';
        out[o++] = (char)c;
      } else {
        out[o++] = (char)c;
      }
    }
    off += n->len[i];
  }
  out[o] = 0;
}

typedef struct {
  refdns_name_t pool[8];
  size_t        npool;
  int           style;       /* presentation style of this record (or -1: per-name random) */
  int           allow_pool_add;
  uint32_t      uniq;        /* counter for unique labels */
  int           rdata_unsafe_pct; /* share of RDATA names with arbitrary octets */
} bld_names_t;

static void bld_gen_name(vh_rng_t *r, bld_names_t *bn, refdns_name_t *n, int hostsafe, int unique_child)
{
  uint8_t lab[64];
  if (unique_child && bn->npool) {
    int l = snprintf((char *)lab, sizeof(lab), "u%x", bn->uniq++);
    *n    = bn->pool[vh_below(r, (uint32_t)bn->npool)];
    if (refdns_name_push_front(n, lab, (size_t)l) != 0) {
      refdns_name_root(n);
      refdns_name_push_back(n, lab, (size_t)l);
    }
    return;
  }
  {
    uint32_t c = vh_below(r, 100);
    if (c < 3) {
      refdns_name_root(n);
    } else if (c < 6) {
      gen_name_max(r, n, hostsafe ? 0 : 1);
    } else if (c < 75 && bn->npool) {
      int k = (int)vh_below(r, 3);
      *n    = bn->pool[vh_below(r, (uint32_t)bn->npool)];
      while (k-- > 0) {
        size_t room = 255 - refdns_name_wirelen(n);
        size_t l;
        if (room < 2) {
          break;
        }
        l = gen_label(r, lab, hostsafe ? 0 : 1, room - 1 > 63 ? 63 : room - 1);
        if (l == 0 || refdns_name_push_front(n, lab, l) != 0) {
          break;
        }
      }
    } else {
      gen_name_random(r, n, hostsafe ? 0 : 1, 1 + (int)vh_below(r, 4));
    }
  }
  if (bn->allow_pool_add && hostsafe && bn->npool < 8 && n->nlabels && vh_chance(r, 1, 3)) {
    bn->pool[bn->npool++] = *n;
  }
}

static const char *bld_text(vh_rng_t *r, bld_names_t *bn, const refdns_name_t *n, char *buf, size_t cap)
{
  int style = bn->style >= 0 ? bn->style : (int)vh_below(r, 4);
  bld_name_text(r, n, style, buf, cap);
  if (n->nlabels == 0 && bn->style >= 0) {
    buf[0] = 0; /* one spelling of the root per record unless spellings are deliberately mixed */
  }
  return buf;
}

static const unsigned short bld_unknown_types[] = { 3, 10, 43, 46, 48, 99, 250, 32768, 65280, 65432, 65534 };

/* add one RR of the given c-ares type, setting every key ares_dns_rr_get_keys() reports by its
 * datatype.  Returns 0, or -1 if a setter refused (counted by the caller). */
static int bld_add_rr(vh_rng_t *r, ares_dns_record_t *rec, bld_names_t *bn, bld_info_t *info,
                      ares_dns_section_t sect, ares_dns_rec_type_t type, int unique_names,
                      const char *plant)
{
  static const ares_dns_class_t classes[] = { ARES_CLASS_IN, ARES_CLASS_IN, ARES_CLASS_IN,
                                              ARES_CLASS_CHAOS, ARES_CLASS_HESOID, ARES_CLASS_NONE };
  refdns_name_t            nm;
  char                     text[1200];
  ares_dns_rr_t           *rr = NULL;
  size_t                   nk = 0, k;
  const ares_dns_rr_key_t *keys;
  ares_dns_class_t         cls = classes[vh_below(r, 6)];
  unsigned int             ttl = gen_pick_u32(r);
  unsigned char            buf[1024];

  if (type == ARES_REC_TYPE_OPT) {
    refdns_name_root(&nm);
    cls = ARES_CLASS_IN; /* as every c-ares caller and the pinned tests do: class/ttl of an OPT RR */
    ttl = 0;             /* are synthesised by the writer from udp_size/version/flags */
  } else {
    bld_gen_name(r, bn, &nm, 1, unique_names);
    if (type == ARES_REC_TYPE_SIG && vh_chance(r, 1, 2)) {
      cls = ARES_CLASS_ANY;
    }
  }
  if (ares_dns_record_rr_add(&rr, rec, sect, bld_text(r, bn, &nm, text, sizeof(text)), type, cls,
                             ttl) != ARES_SUCCESS) {
    return -1;
  }
  info->nrr++;
  info->typehash += (uint32_t)type * 2654435761u;
  info->ub += 257 + 10;
  keys = ares_dns_rr_get_keys(type, &nk);
  for (k = 0; keys && k < nk; k++) {
    ares_dns_rr_key_t key = keys[k];
    ares_status_t     st  = ARES_SUCCESS;
    if (key == ARES_RR_URI_TARGET) {
      size_t len = 1 + vh_below(r, 60);
      gen_bytes(r, buf, len, 1);
      buf[len] = 0;
      if (plant && strcmp(plant, "uri-nonprint") == 0) {
        buf[0] = 0x07;
      }
      st = ares_dns_rr_set_str(rr, key, (const char *)buf);
    } else {
      switch (ares_dns_rr_key_datatype(key)) {
        case ARES_DATATYPE_INADDR: {
          struct in_addr a;
          gen_bytes(r, (uint8_t *)&a, sizeof(a), 0);
          st = ares_dns_rr_set_addr(rr, key, &a);
          break;
        }
        case ARES_DATATYPE_INADDR6: {
          struct ares_in6_addr a;
          gen_bytes(r, (uint8_t *)&a, sizeof(a), 0);
          st = ares_dns_rr_set_addr6(rr, key, &a);
          break;
        }
        case ARES_DATATYPE_U8:
          st = ares_dns_rr_set_u8(rr, key, gen_pick_u8(r));
          break;
        case ARES_DATATYPE_U16: {
          unsigned short v = gen_pick_u16(r);
          if (key == ARES_RR_RAW_RR_TYPE) {
            v = bld_unknown_types[vh_below(r, sizeof(bld_unknown_types) / sizeof(unsigned short))];
          }
          st = ares_dns_rr_set_u16(rr, key, v);
          break;
        }
        case ARES_DATATYPE_U32:
          st = ares_dns_rr_set_u32(rr, key, gen_pick_u32(r));
          break;
        case ARES_DATATYPE_NAME: {
          refdns_name_t t;
          bld_gen_name(r, bn, &t, (int)vh_below(r, 100) >= bn->rdata_unsafe_pct, unique_names);
          st = ares_dns_rr_set_str(rr, key, bld_text(r, bn, &t, text, sizeof(text)));
          break;
        }
        case ARES_DATATYPE_STR: {
          size_t len = gen_len_small(r, 255);
          if (key == ARES_RR_CAA_TAG) {
            len = 1 + vh_below(r, 15);
            if (plant && strcmp(plant, "empty-caa-tag") == 0) {
              len = 0;
            }
          }
          gen_bytes(r, buf, len, 1);
          buf[len] = 0;
          if (plant && strcmp(plant, "nonprint-str") == 0 && len) {
            buf[vh_below(r, (uint32_t)len)] = vh_chance(r, 1, 2) ? 0x01 : 0xe9;
          }
          st = ares_dns_rr_set_str(rr, key, (const char *)buf);
          break;
        }
        case ARES_DATATYPE_BIN:
        case ARES_DATATYPE_BINP: {
          size_t len = 1 + gen_len_small(r, 700);
          if (key == ARES_RR_RAW_RR_DATA && plant && strcmp(plant, "raw-rdlen0") == 0) {
            len = 0;
          }
          gen_bytes(r, buf, len, key == ARES_RR_CAA_VALUE);
          st = ares_dns_rr_set_bin(rr, key, buf, len);
          break;
        }
        case ARES_DATATYPE_ABINP: {
          int n = 1 + (int)vh_below(r, 4), i;
          if (vh_chance(r, 1, 20)) {
            n = 10 + (int)vh_below(r, 20);
          }
          for (i = 0; i < n && st == ARES_SUCCESS; i++) {
            size_t len = gen_len_small(r, 255);
            if (vh_chance(r, 1, 25)) {
              len = 256 + vh_below(r, 600); /* the writer splits these */
            }
            gen_bytes(r, buf, len, vh_chance(r, 2, 3));
            st = ares_dns_rr_add_abin(rr, key, buf, len);
          }
          break;
        }
        case ARES_DATATYPE_OPT: {
          int            n = (int)vh_below(r, 5), i;
          unsigned short code = 0;
          for (i = 0; i < n && st == ARES_SUCCESS; i++) {
            size_t len = gen_len_small(r, 300);
            code       = (unsigned short)(code + 1 + vh_below(r, 4));
            if (key == ARES_RR_OPT_OPTIONS && vh_chance(r, 1, 3)) {
              static const size_t cl[] = { 8, 16, 24, 40 };
              code = 10;
              len  = cl[vh_below(r, 4)];
            }
            gen_bytes(r, buf, len, 0);
            if (len && vh_chance(r, 1, 40)) {
              /* a length without bytes (docs/ares_dns_rr.3: misuse is answered with an error): if the setter takes it,
               * the record has to come out of the writer in a form the parser accepts like any other */
              st = ares_dns_rr_set_opt(rr, key, code, NULL, len);
              vh_count(st == ARES_SUCCESS ? "opt_null_value_with_length_accepted" : "opt_null_value_with_length_refused");
              if (st != ARES_SUCCESS) {
                st = ares_dns_rr_set_opt(rr, key, code, buf, len);
              }
            } else {
              st = ares_dns_rr_set_opt(rr, key, code, len ? buf : NULL, len);
            }
            if (code == 10) {
              code = 11;
            }
          }
          break;
        }
        default:
          break;
      }
    }
    if (st != ARES_SUCCESS) {
      return -1;
    }
    /* upper bound of what this key adds to the wire */
    switch (ares_dns_rr_key_datatype(key)) {
      case ARES_DATATYPE_NAME:
        info->ub += 257;
        break;
      case ARES_DATATYPE_STR:
        info->ub += 256;
        break;
      case ARES_DATATYPE_BIN:
      case ARES_DATATYPE_BINP: {
        size_t l = 0;
        (void)ares_dns_rr_get_bin(rr, key, &l);
        info->ub += l;
        break;
      }
      case ARES_DATATYPE_ABINP: {
        size_t l = 0;
        (void)ares_dns_rr_get_bin(rr, key, &l);
        info->ub += l + l / 255 + 2 + ares_dns_rr_get_abin_cnt(rr, key);
        break;
      }
      case ARES_DATATYPE_OPT: {
        size_t i2, cnt = ares_dns_rr_get_opt_cnt(rr, key);
        for (i2 = 0; i2 < cnt; i2++) {
          size_t vl = 0;
          (void)ares_dns_rr_get_opt(rr, key, i2, NULL, &vl);
          info->ub += 4 + vl;
        }
        break;
      }
      default:
        info->ub += 16;
        break;
    }
  }
  return 0;
}

static const ares_dns_rec_type_t bld_types[] = {
  ARES_REC_TYPE_A,     ARES_REC_TYPE_NS,   ARES_REC_TYPE_CNAME, ARES_REC_TYPE_SOA,
  ARES_REC_TYPE_PTR,   ARES_REC_TYPE_HINFO, ARES_REC_TYPE_MX,   ARES_REC_TYPE_TXT,
  ARES_REC_TYPE_SIG,   ARES_REC_TYPE_AAAA, ARES_REC_TYPE_SRV,   ARES_REC_TYPE_NAPTR,
  ARES_REC_TYPE_TLSA,  ARES_REC_TYPE_SVCB, ARES_REC_TYPE_HTTPS, ARES_REC_TYPE_URI,
  ARES_REC_TYPE_CAA,   ARES_REC_TYPE_RAW_RR
};
#define BLD_NTYPES (sizeof(bld_types) / sizeof(bld_types[0]))

static ares_dns_record_t *bld_header(vh_rng_t *r, bld_names_t *bn, int want_ext_rcode)
{
  static const ares_dns_opcode_t ops[] = { ARES_OPCODE_QUERY, ARES_OPCODE_QUERY, ARES_OPCODE_IQUERY,
                                           ARES_OPCODE_STATUS, ARES_OPCODE_NOTIFY, ARES_OPCODE_UPDATE };
  static const unsigned short rcodes[] = { 0, 0, 0, 1, 2, 3, 4, 5, 9, 10, 11 };
  static const unsigned short xrcodes[] = { 16, 17, 20, 22, 23 };
  static const ares_dns_class_t qcl[] = { ARES_CLASS_IN, ARES_CLASS_IN, ARES_CLASS_CHAOS, ARES_CLASS_HESOID,
                                          ARES_CLASS_NONE, ARES_CLASS_ANY };
  ares_dns_record_t *rec = NULL;
  refdns_name_t      qn;
  char               text[1200];
  unsigned short     flags = (unsigned short)(vh_rand64(r) & 0x7f);
  ares_dns_rcode_t   rc    = want_ext_rcode ? (ares_dns_rcode_t)xrcodes[vh_below(r, 5)]
                                            : (ares_dns_rcode_t)rcodes[vh_below(r, 11)];
  ares_dns_rec_type_t qt;
  uint32_t            c;
  if (ares_dns_record_create(&rec, (unsigned short)vh_rand64(r), flags, ops[vh_below(r, 6)], rc) !=
      ARES_SUCCESS) {
    return NULL;
  }
  bld_gen_name(r, bn, &qn, 1, 0);
  if (bn->npool < 8 && qn.nlabels) {
    bn->pool[bn->npool++] = qn;
  }
  c  = vh_below(r, 100);
  qt = c < 70 ? bld_types[vh_below(r, BLD_NTYPES - 1)] : c < 80 ? ARES_REC_TYPE_ANY
     : (ares_dns_rec_type_t)bld_unknown_types[vh_below(r, sizeof(bld_unknown_types) / sizeof(unsigned short))];
  if (ares_dns_record_query_add(rec, bld_text(r, bn, &qn, text, sizeof(text)), qt, qcl[vh_below(r, 6)]) !=
      ARES_SUCCESS) {
    ares_dns_record_destroy(rec);
    return NULL;
  }
  return rec;
}

/* ordinary record: a handful of RRs of every kind */
static ares_dns_record_t *bld_record(vh_rng_t *r, bld_info_t *info)
{
  bld_names_t        bn;
  ares_dns_record_t *rec;
  int                n, i, want_opt, ext;
  uint32_t           c = vh_below(r, 100);
  const char        *plant = NULL;
  size_t             plant_at = 0;

  memset(info, 0, sizeof(*info));
  memset(&bn, 0, sizeof(bn));
  bn.allow_pool_add   = 1;
  bn.style            = 0;
  bn.rdata_unsafe_pct = 50;
  if (c < 12) {
    bn.style          = -1; /* a different legal spelling per name */
    info->mixed_style = 1;
  } else if (c < 20) {
    bn.style          = 1 + (int)vh_below(r, 3); /* one non-canonical spelling throughout */
    info->mixed_style = 1;
  }
  bn.npool = 1 + vh_below(r, 2);
  for (i = 0; i < (int)bn.npool; i++) {
    gen_name_random(r, &bn.pool[i], 0, 1 + (int)vh_below(r, 3));
  }
  want_opt = vh_chance(r, 2, 5);
  ext      = want_opt && vh_chance(r, 1, 4);
  if (!want_opt && vh_chance(r, 1, 40)) {
    ext = 1; /* extended rcode without OPT: written as SERVFAIL (rt_expected_dump) */
  }
  rec = bld_header(r, &bn, ext);
  if (rec == NULL) {
    return NULL;
  }
  c = vh_below(r, 100);
  n = c < 5 ? 0 : c < 85 ? 1 + (int)vh_below(r, 6) : c < 97 ? 7 + (int)vh_below(r, 12) : 30 + (int)vh_below(r, 60);
  /* planted triggers of asymmetries between writer and parser (each confined by its key) */
  c = vh_below(r, 1000);
  if (c < 6) {
    plant = "nonprint-str";
  } else if (c < 10) {
    plant = "empty-caa-tag";
  } else if (c < 14) {
    plant = "uri-nonprint";
  }
  if (plant) {
    plant_at = vh_below(r, (uint32_t)(n ? n : 1));
    if (n == 0) {
      n = 1;
    }
  }
  for (i = 0; i < n; i++) {
    ares_dns_rec_type_t t = bld_types[vh_below(r, BLD_NTYPES)];
    const char         *pl = NULL;
    if (plant && (size_t)i == plant_at) {
      pl = plant;
      if (!strcmp(plant, "nonprint-str")) {
        static const ares_dns_rec_type_t st[] = { ARES_REC_TYPE_HINFO, ARES_REC_TYPE_NAPTR, ARES_REC_TYPE_CAA };
        t = st[vh_below(r, 3)];
      } else if (!strcmp(plant, "empty-caa-tag")) {
        t = ARES_REC_TYPE_CAA;
      } else if (!strcmp(plant, "uri-nonprint")) {
        t = ARES_REC_TYPE_URI;
      } else {
        t = ARES_REC_TYPE_RAW_RR;
      }
      info->hazard = plant;
    }
    if (bld_add_rr(r, rec, &bn, info, (ares_dns_section_t)(1 + vh_below(r, 3)), t, 0, pl) != 0) {
      vh_count("bld_setter_refused");
    }
  }
  if (want_opt) {
    if (bld_add_rr(r, rec, &bn, info, ARES_SECTION_ADDITIONAL, ARES_REC_TYPE_OPT, 0, NULL) != 0) {
      vh_count("bld_setter_refused");
    }
  }
  return rec;
}

/* size of a record as written, or 0 if it cannot be written */
static size_t bld_measure(const ares_dns_record_t *rec)
{
  unsigned char *w = NULL;
  size_t         n = 0;
  if (ares_dns_write(rec, &w, &n) != ARES_SUCCESS) {
    return 0;
  }
  ares_free(w);
  return n;
}

/* A record whose written size is exactly `target` (when reachable): mixed RRs, then one raw RR
 * owned by the root as exact filler.  Unless late_names, no name that could be pointed at later
 * first appears beyond offset ~12000 (fresh names out there are unique children, never reused);
 * with late_names, fresh shared suffixes are introduced beyond 16 KiB and reused - the trigger of
 * the 14-bit pointer finding.  `coarse`: few RRs and large fillers (for sizes above 64 KiB). */
static ares_dns_record_t *bld_big(vh_rng_t *r, bld_info_t *info, size_t target, int late_names, int coarse)
{
  bld_names_t        bn;
  ares_dns_record_t *rec;
  size_t             est, i, since = 0;
  int                late_added = 0;

  memset(info, 0, sizeof(*info));
  memset(&bn, 0, sizeof(bn));
  bn.style            = 0;
  bn.allow_pool_add   = 1;
  bn.rdata_unsafe_pct = 1;
  bn.npool            = 2;
  gen_name_random(r, &bn.pool[0], 0, 2);
  gen_name_random(r, &bn.pool[1], 0, 3);
  rec = bld_header(r, &bn, 0);
  if (rec == NULL) {
    return NULL;
  }
  info->ub = 12 + 257 + 4;
  est      = info->ub; /* est is always >= the real size: measured value + upper bounds since */
  while (est + 2500 < target && !(coarse && info->nrr >= 24)) {
    ares_dns_rec_type_t t;
    uint32_t            c = vh_below(r, 100);
    size_t              before = info->ub;
    int                 unique;
    bn.allow_pool_add = est < 12000;
    if (late_names && est > 20000 && late_added < 3) {
      refdns_name_t fresh;
      gen_name_random(r, &fresh, 0, 2 + (int)vh_below(r, 2));
      if (late_added == 0) {
        bn.npool = 0; /* forget the early suffixes so that the late ones get reused */
      }
      bn.pool[bn.npool < 8 ? bn.npool++ : 7] = fresh;
      late_added++;
    }
    if (c < 35) {
      t = ARES_REC_TYPE_TXT;
    } else if (c < 50) {
      t = ARES_REC_TYPE_RAW_RR;
    } else {
      t = bld_types[vh_below(r, BLD_NTYPES)];
    }
    unique = late_names ? (est > 20000 ? (int)vh_chance(r, 1, 3) : est >= 12000) : est >= 12000;
    /* sections are written in order, so add them in order: the position of a name on the wire
     * then follows the order in which names are introduced here */
    if (bld_add_rr(r, rec, &bn, info,
                   est * 3 < target ? ARES_SECTION_ANSWER : est * 3 < target * 2 ? ARES_SECTION_AUTHORITY
                                                                                 : ARES_SECTION_ADDITIONAL,
                   t, unique, NULL) != 0) {
      vh_count("bld_setter_refused");
    }
    est += info->ub - before;
    if (++since >= 16 && !coarse) {
      size_t real = bld_measure(rec);
      since = 0;
      if (real == 0) {
        return rec; /* unwritable; the caller counts it */
      }
      est = real;
    }
  }
  /* exact fill: raw RRs owned by the root cost 1 + 10 + datalen octets each */
  est = bld_measure(rec);
  while (est && est + 11 <= target) {
    ares_dns_rr_t *rr  = NULL;
    size_t         len = target - est - 11;
    unsigned char *big;
    if (len > 65535 && !(coarse && vh_chance(r, 1, 3))) {
      len = 30000 + vh_below(r, 30000); /* several fillers; one in three huge cases keeps a single
                                         * RR whose RDATA exceeds 65535 octets */
    }
    big = (unsigned char *)malloc(len + 1);
    for (i = 0; i < len; i++) {
      big[i] = (unsigned char)(i * 7);
    }
    if (ares_dns_record_rr_add(&rr, rec, ARES_SECTION_ADDITIONAL, "", ARES_REC_TYPE_RAW_RR, ARES_CLASS_IN,
                               0) == ARES_SUCCESS) {
      ares_dns_rr_set_u16(rr, ARES_RR_RAW_RR_TYPE, 65280);
      ares_dns_rr_set_bin(rr, ARES_RR_RAW_RR_DATA, big, len);
      info->nrr++;
    }
    free(big);
    est += 11 + len;
  }
  if (late_names) {
    info->hazard = "big16k-late";
  }
  return rec;
}

/* ====================================================================================
 * legacy query builders
 * ==================================================================================== */
static int mkq_hostchar(uint8_t c)
{
  return (c >= '0' && c <= '9') || (c >= 'a' && c <= 'z') || (c >= 'A' && c <= 'Z') || c == '-' ||
         c == '.' || c == '_' || c == '/' || c == '*';
}

static int mkq_is_onion(const refdns_name_t *n)
{
  size_t         len = 0;
  const uint8_t *l;
  if (n->nlabels == 0) {
    return 0;
  }
  l = refdns_name_label(n, n->nlabels - 1u, &len);
  /* ares_is_onion_domain(): the text ends in ".onion" or ".onion." - a bare "onion" is not */
  if (n->nlabels < 2) {
    return 0;
  }
  return len == 5 && (l[0] | 32) == 'o' && (l[1] | 32) == 'n' && (l[2] | 32) == 'i' && (l[3] | 32) == 'o' &&
         (l[4] | 32) == 'n';
}

static void mkq_case(vh_rng_t *r)
{
  static const int udps[] = { 0, 0, 0, 512, 1232, 4096, 65535, 1, 65536, -1 };
  static const int classes[] = { 1, 1, 1, 3, 4, 254, 255, 0, 2, 256, 65535 };
  char             text[2200];
  refdns_name_t    want;
  int              model_ok = 1, onion = 0, longesc = 0, over255 = 0;
  int              type, klass, rd, udp, status, blen = -1, use_mk;
  unsigned short   id;
  unsigned char   *b = NULL;
  uint32_t         c = vh_below(r, 100);
  size_t           i, nb;
  rt_ctx_t         ctx;
  const char      *what = "valid";

  memset(&ctx, 0, sizeof(ctx));
  refdns_name_root(&want);
  if (c < 60) {
    int style = (int)vh_below(r, 4);
    if (vh_chance(r, 1, 12)) {
      gen_name_max(r, &want, 0);
    } else {
      gen_name_random(r, &want, 0, (int)vh_below(r, 6));
    }
    bld_name_text(r, &want, style, text, sizeof(text));
  } else if (c < 70) {
    /* arbitrary octets, escaped: not host names */
    gen_name_random(r, &want, 1, 1 + (int)vh_below(r, 4));
    bld_name_text(r, &want, (int)vh_below(r, 2), text, sizeof(text));
    what = "non-hostname octets";
  } else if (c < 75) {
    static const char *onions[] = { "dontleak.onion", "a.b.ONION", "x.onion.", "y.z.onion", "q.OnIoN" };
    snprintf(text, sizeof(text), "%s", onions[vh_below(r, 5)]);
    what = "onion";
  } else if (c < 82) {
    /* valid host name whose escaped spelling is 512 octets or longer */
    gen_name_max(r, &want, 0);
    bld_name_text(r, &want, 1, text, sizeof(text));
    what = "long escaped spelling";
  } else {
    static const char *bad[] = { "a..b", ".a", "a.b..", "..", "a\\", "a\\25", "a\\256.b", "a\\2x5.b",
                                 "a b.c", "a\tb", "\xe9.com", "a,b.com", "a\\.\\..com" };
    size_t             k = vh_below(r, 16);
    if (k < 13) {
      snprintf(text, sizeof(text), "%s", bad[k]);
    } else if (k == 13) { /* 64-octet label */
      memset(text, 'a', 64);
      strcpy(text + 64, ".org");
    } else if (k == 14) { /* 256 octets on the wire */
      size_t o = 0;
      int    j;
      for (j = 0; j < 4; j++) {
        memset(text + o, 'a' + j, 63);
        o += 63;
        text[o++] = '.';
      }
      text[o - 2] = 0; /* 63.63.63.62 -> 255 octets: valid */
      if (vh_chance(r, 1, 2)) {
        strcat(text, "x"); /* 63.63.63.63 -> 257 octets: invalid */
      }
    } else {
      strcpy(text, "trailing.dot.is.fine.");
    }
    what = "boundary / malformed text";
  }
  if (refdns_name_from_text(&want, text) != 0) {
    model_ok = 0;
  } else {
    nb = 0;
    for (i = 0; i < want.nlabels; i++) {
      nb += want.len[i];
    }
    for (i = 0; i < nb; i++) {
      if (!mkq_hostchar(want.data[i])) {
        model_ok = 0; /* ares_dns_write_questions(): question names are validated as host names */
      }
    }
    onion = mkq_is_onion(&want);
  }
  longesc = strlen(text) >= 512;
  {
    /* wire length the text would need, without the 255-octet cap (only for well-formed text) */
    size_t      wl = 1, ll = 0;
    int         okk = 1;
    const char *p;
    for (p = text; *p && okk; p++) {
      if (*p == '.') {
        if (ll == 0 || ll > 63) {
          okk = 0;
        }
        wl += ll + 1;
        ll = 0;
        continue;
      }
      if (*p == '\\') {
        if (p[1] >= '0' && p[1] <= '9') {
          if (!(p[2] >= '0' && p[2] <= '9' && p[3] >= '0' && p[3] <= '9')) {
            okk = 0;
          } else {
            p += 3;
          }
        } else if (p[1] == 0) {
          okk = 0;
        } else {
          p++;
        }
      }
      ll++;
    }
    if (ll) {
      if (ll > 63) {
        okk = 0;
      }
      wl += ll + 1;
    }
    if (okk && (wl == 256 || wl == 257)) {
      over255 = 1;
    }
  }
  type    = vh_chance(r, 3, 4) ? (int)gen_known_types[vh_below(r, 18)] : (int)gen_pick_u16(r);
  if (vh_chance(r, 1, 16)) {
    /* a type that does not fit the 16 bits the wire has for it: to be refused, not cut down to another type */
    static const int wide[] = { 65536, 65537, 65536 + 28, 70000, 0x10001, 0x7fffffff, -1, -65535 };
    type = wide[vh_below(r, 8)];
  }
  klass   = classes[vh_below(r, 11)];
  rd      = (int)vh_below(r, 2);
  id      = (unsigned short)vh_rand64(r);
  udp     = udps[vh_below(r, 10)];
  use_mk  = udp == 0 && vh_chance(r, 1, 2);
  if (use_mk) {
    status = ares_mkquery(text, klass, type, id, rd, &b, &blen);
  } else {
    status = ares_create_query(text, klass, type, id, rd, &b, &blen, udp);
  }
  vh_count("mkq_calls");
  if (over255) {
    ctx.hazard = "name257"; /* well-formed text that needs 256 or 257 octets on the wire */
  }
  if (longesc) {
    vh_count("mkq_text_512_or_longer");
  } else if (strlen(text) > 255) {
    vh_count("mkq_text_over_255");
  }
  if (onion && model_ok) {
    /* docs/ares_create_query.3: ARES_ENOTFOUND for .onion names (RFC 7686) */
    if (status != ARES_ENOTFOUND) {
      rt_violation(&ctx, "mkquery:status", "name '%s' is an onion name: expected ENOTFOUND, got %d", text,
                   status);
    }
    goto done;
  }
  {
    int class_ok = klass == 1 || klass == 3 || klass == 4 || klass == 254 || klass == 255;
    int udp_ok   = udp >= 0 && udp <= 65535;
    if (!model_ok || !class_ok || !udp_ok) {
      if (status == ARES_SUCCESS) {
        rt_violation(&ctx, "mkquery:status", "%s: name '%.300s' class %d udp %d: builder returned "
                     "SUCCESS (%d octets)", what, text, klass, udp, blen);
      } else if (!model_ok && class_ok && udp_ok && status != ARES_EBADNAME && !onion && type >= 0 && type <= 65535) {
        /* docs/ares_create_query.3 + test/ares-test-misc.cc CreateQueryFailures */
        rt_violation(&ctx, "mkquery:status", "unencodable name '%.300s': expected EBADNAME, got %d", text,
                     status);
      }
      vh_count("mkq_rejected_as_expected");
      goto done;
    }
  }
  if (status != ARES_SUCCESS && (type < 0 || type > 65535)) {
    vh_count("mkq_wide_type_refused");
    goto done;
  }
  if (status != ARES_SUCCESS) {
    rt_violation(&ctx, "mkquery:status", "encodable name '%.300s' type %d class %d udp %d: status %d",
                 text, type, klass, udp, status);
    goto done;
  }
  {
    refdns_msg_t D;
    char         err[160], hx[300];
    cd_hexdump(b, (size_t)blen > 120 ? 120 : (size_t)blen, hx, sizeof(hx));
    if (refdns_decode(b, (size_t)blen, &D, err, sizeof(err)) != 0) {
      rt_violation(&ctx, "mkquery:decode", "name '%.200s': output does not decode: %s; bytes %s", text, err,
                   hx);
    } else {
      int want_opt = udp > 0;
      if (D.id != id || D.qr || D.opcode || D.aa || D.tc || D.rd != rd || D.ra || D.z || D.ad || D.cd ||
          D.rcode || D.nq != 1 || D.trailing || D.nptr_total) {
        rt_violation(&ctx, "mkquery:header", "id %u/%u rd %d/%d nq %zu trailing %zu; bytes %s", D.id, id,
                     D.rd, rd, D.nq, D.trailing, hx);
      } else if (!refdns_name_eq(&D.q[0].name, &want) || (int)D.q[0].type != type ||
                 D.q[0].klass != (uint16_t)klass) {
        rt_violation(&ctx, "mkquery:question", "asked '%.200s' type %d class %d, got type %u class %u (name %s); bytes %s",
                     text, type, klass, D.q[0].type, D.q[0].klass,
                     refdns_name_eq(&D.q[0].name, &want) ? "equal" : "DIFFERS", hx);
      } else if (D.nrr != (size_t)want_opt ||
                 (want_opt && (D.rr[0].type != REFDNS_T_OPT || D.rr[0].section != REFDNS_SEC_AR ||
                               D.rr[0].owner.nlabels != 0 || D.rr[0].klass != (uint16_t)udp ||
                               D.rr[0].ttl != 0 || D.rr[0].rdlength != 0))) {
        rt_violation(&ctx, "mkquery:edns", "udp size %d requested; %zu RRs; bytes %s", udp, D.nrr, hx);
      }
      vh_count("mkq_decoded");
    }
    refdns_free(&D);
  }
done:
  if (b) {
    ares_free_string(b);
  }
  /* fingerprint: (kind of text, outcome, edns) */
  vh_fp_add(vh_fnv_u64(vh_fnv_str(VH_FNV_INIT, what), (uint64_t)(status * 64 + (udp > 0) * 32 + (int)(strlen(text) / 64))));
}

#endif
