/* fuzz_total.c - libFuzzer target running the `total` body (lg_total.h) of property C02.
 *
 * Parameters that the deterministic profile draws from the case PRNG (parse flags, capacities,
 * NULL-argument variants, offsets) are derived from a hash of the input, so an artifact replays
 * exactly.  A monitor violation prints "LG-VIOLATION <key> | <detail>" and aborts, so libFuzzer
 * keeps the input; the check re-runs artifacts singly and keys them.
 */
#define CARES_NO_DEPRECATED 1
#define LG_FUZZ 1
#include "ares_private.h"
#include "vh.h"
#include "lg_common.h"
#include "lg_gen.h"
#include "lg_total.h"

int LLVMFuzzerTestOneInput(const unsigned char *data, size_t size);

int LLVMFuzzerInitialize(int *argc, char ***argv)
{
  (void)argc;
  (void)argv;
  lg_profile          = "total";
  lg_skip_mode_calls  = 0;
  lg_lean             = 1;
  if (ares_library_init_mem(ARES_LIB_INIT_ALL, lg_malloc, lg_free, lg_realloc) != ARES_SUCCESS) {
    abort();
  }
  return 0;
}

int LLVMFuzzerTestOneInput(const unsigned char *data, size_t size)
{
  vh_rng_t prm;
  if (size > LG_MAXMSG) {
    return 0;
  }
  vh_rng_seed(&prm, vh_fnv(VH_FNV_INIT, data, size) ^ (uint64_t)size);
  lg_total_body(data, size, &prm);
  return 0;
}
