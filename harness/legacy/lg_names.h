/* lg_names.h - exhaustive small-scope enumeration of the NAME region (profile `names`).
 *
 * Buffer = 12 header octets (three fixed patterns, see lg_nm_hdr) followed by every byte string
 * of length 0..L over the alphabet
 *     { 0x00 0x01 0x3f 0x40 0x80 0xbf 0xc0 0xc1 0xff }  U  { k : 0 <= k < 12+L }
 * (the second set = low octets of a pointer to every offset of the longest buffer), so that
 * pointers can target header octets, string octets, each other and themselves.  For each buffer
 * ares_expand_name and ares_dns_name_parse run at every offset and are compared with the
 * reference decoder (lg_ref_name): they must terminate; success implies the reference decodes
 * the same labels and encoded length; a forward/self pointer or a pointer loop must be refused.
 *
 * Case numbering (pure function of idx and L): for header pattern h, length l, the strings of
 * length l are split into blocks that share their first max(l-3,0) octets; one case = one block
 * (at most A^3 strings).  ncases(L) = 3 * sum_{l=0..L} A^max(l-3,0).
 */
#ifndef LG_NAMES_H
#define LG_NAMES_H

#define LG_NM_HDRS 3
static const uint8_t lg_nm_hdr[LG_NM_HDRS][12] = {
  /* every header octet is a root name / a zero length octet */
  { 0, 0, 0, 0, 0, 0, 0, 0, 0, 0, 0, 0 },
  /* 0:"a". 3:->0  5:"bc"->3 (chain)  10:->5 */
  { 0x01, 'a', 0x00, 0xc0, 0x00, 0x02, 'b', 'c', 0xc0, 0x03, 0xc0, 0x05 },
  /* 0:->12 (forward into the string)  2:->2 (self)  4:"xyz"->4 (loop)  10:root  11: label running into the string */
  { 0xc0, 0x0c, 0xc0, 0x02, 0x03, 'x', 'y', 'z', 0xc0, 0x04, 0x00, 0x01 }
};

static int lg_nm_alphabet(int L, uint8_t *alpha)
{
  static const uint8_t sp[] = { 0x00, 0x01, 0x3f, 0x40, 0x80, 0xbf, 0xc0, 0xc1, 0xff };
  int                  seen[256];
  int                  n = 0;
  int                  i;
  memset(seen, 0, sizeof(seen));
  for (i = 0; i < 12 + L; i++) {
    seen[i] = 1;
  }
  for (i = 0; i < (int)sizeof(sp); i++) {
    seen[sp[i]] = 1;
  }
  for (i = 0; i < 256; i++) {
    if (seen[i]) {
      alpha[n++] = (uint8_t)i;
    }
  }
  return n;
}

static uint64_t lg_nm_pow(uint64_t a, int e)
{
  uint64_t r = 1;
  while (e-- > 0) {
    r *= a;
  }
  return r;
}

static uint64_t lg_nm_ncases(int L)
{
  uint8_t  alpha[256];
  uint64_t A = (uint64_t)lg_nm_alphabet(L, alpha);
  uint64_t n = 0;
  int      l;
  for (l = 0; l <= L; l++) {
    n += lg_nm_pow(A, l > 3 ? l - 3 : 0);
  }
  return n * LG_NM_HDRS;
}

static uint64_t lg_c_nm_buffers, lg_c_nm_nontrivial;

/* returns 0 if idx is beyond the enumeration */
static int lg_names_case(uint64_t idx, int L)
{
  uint8_t     alpha[256];
  int         A = lg_nm_alphabet(L, alpha);
  uint64_t    per_h = lg_nm_ncases(L) / LG_NM_HDRS;
  int         h;
  int         l;
  uint64_t    block;
  int         inner;
  int         prefix_len;
  uint8_t    *buf;
  size_t      n;
  ares_buf_t *cbuf;
  int         digit[3];
  int         i;
  uint64_t    total;
  uint64_t    it;

  if (idx >= per_h * LG_NM_HDRS) {
    return 0;
  }
  h     = (int)(idx / per_h);
  block = idx % per_h;
  for (l = 0; l <= L; l++) {
    uint64_t nb = lg_nm_pow((uint64_t)A, l > 3 ? l - 3 : 0);
    if (block < nb) {
      break;
    }
    block -= nb;
  }
  inner      = l < 3 ? l : 3;
  prefix_len = l - inner;
  n          = 12 + (size_t)l;
  buf        = (uint8_t *)malloc(n); /* exactly sized: the red zone starts right after the string */
  memcpy(buf, lg_nm_hdr[h], 12);
  for (i = prefix_len - 1; i >= 0; i--) {
    buf[12 + i] = alpha[block % (uint64_t)A];
    block /= (uint64_t)A;
  }
  cbuf  = ares_buf_create_const(buf, n);
  total = lg_nm_pow((uint64_t)A, inner);
  digit[0] = digit[1] = digit[2] = 0;
  for (it = 0; it < total; it++) {
    size_t off;
    for (i = 0; i < inner; i++) {
      buf[12 + prefix_len + i] = alpha[digit[i]];
    }
    lg_c_nm_buffers++;
    {
      uint64_t fp     = vh_fnv_u64(VH_FNV_INIT, ((uint64_t)h << 8) | (uint64_t)l);
      int      anyptr = 0;
      for (off = 0; off < n; off++) {
        lg_check_name_at(buf, n, off, cbuf, 0);
        if (off >= 12) {
          fp = vh_fnv_u64(fp, (uint64_t)lg_last_ref_cls);
          anyptr |= lg_last_ref_nptr > 0;
        }
      }
      if (anyptr) {
        /* non-trivial: some name in the string region contains >= 1 pointer; distinct = distinct
         * vector of reference verdicts over the string offsets (per header pattern and length) */
        lg_c_nm_nontrivial++;
        vh_fp_add(fp);
      }
    }
    /* next string */
    for (i = inner - 1; i >= 0; i--) {
      if (++digit[i] < A) {
        break;
      }
      digit[i] = 0;
    }
  }
  ares_buf_destroy(cbuf);
  free(buf);
  return 1;
}

#endif
