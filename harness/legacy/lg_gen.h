/* lg_gen.h - seeded, structure-aware DNS message generator and byte-level mutator.
 *
 * Self-contained (shares nothing with c-ares or refdns): a small wire builder with a
 * compression table (suffix sharing, pointer-to-pointer chains, deliberately bad pointers),
 * RDATA builders for A, AAAA, CNAME, NS, PTR, SOA, MX, SRV, NAPTR, TXT, CAA, URI, OPT, HINFO,
 * SIG, TLSA, SVCB/HTTPS and unknown types, a message-shape generator, the mutation operators
 * (truncate, extend, flip, overwrite byte / counts / length fields, splice, insert/delete,
 * plant pointer) and the seed-corpus loader.
 *
 * Everything is a pure function of the vh_rng_t passed in (plus the committed corpus files).
 */
#ifndef LG_GEN_H
#define LG_GEN_H

#include <dirent.h>
#include <sys/stat.h>

#define LG_MAXMSG 70000

/* ---------------------------------------------------------------- corpus */
typedef struct {
  char     name[64];
  uint8_t *data;
  size_t   len;
} lg_seed_t;

static lg_seed_t lg_seeds[512];
static int       lg_nseeds = 0;

static int lg_seed_cmp(const void *a, const void *b)
{
  return strcmp(((const lg_seed_t *)a)->name, ((const lg_seed_t *)b)->name);
}

static void lg_load_dir(const char *dir, const char *tag)
{
  DIR           *d = opendir(dir);
  struct dirent *e;
  if (d == NULL) {
    return;
  }
  while ((e = readdir(d)) != NULL && lg_nseeds < 512) {
    char        path[1024];
    struct stat st;
    FILE       *f;
    lg_seed_t  *s;
    if (e->d_name[0] == '.') {
      continue;
    }
    snprintf(path, sizeof(path), "%s/%s", dir, e->d_name);
    if (stat(path, &st) != 0 || !S_ISREG(st.st_mode)) {
      continue;
    }
    f = fopen(path, "rb");
    if (f == NULL) {
      continue;
    }
    s = &lg_seeds[lg_nseeds];
    snprintf(s->name, sizeof(s->name), "%s/%.50s", tag, e->d_name);
    s->len  = (size_t)st.st_size > LG_MAXMSG ? LG_MAXMSG : (size_t)st.st_size;
    s->data = (uint8_t *)malloc(s->len ? s->len : 1);
    if (fread(s->data, 1, s->len, f) != s->len) {
      free(s->data);
      fclose(f);
      continue;
    }
    fclose(f);
    lg_nseeds++;
  }
  closedir(d);
}

static void lg_load_corpus(const char *root)
{
  char p[900];
  if (root == NULL) {
    return;
  }
  snprintf(p, sizeof(p), "%s/fuzzinput", root);
  lg_load_dir(p, "in");
  snprintf(p, sizeof(p), "%s/fuzznames", root);
  lg_load_dir(p, "nm");
  qsort(lg_seeds, (size_t)lg_nseeds, sizeof(lg_seeds[0]), lg_seed_cmp);
}

/* ---------------------------------------------------------------- names */
static int lg_gen_odd = 1; /* 0: only constructs the record parser is expected to accept */

typedef struct {
  uint8_t w[320]; /* uncompressed wire form including the terminating zero octet */
  size_t  n;
} lg_name_t;

static void lg_name_root(lg_name_t *nm)
{
  nm->w[0] = 0;
  nm->n    = 1;
}

/* append one label (raw bytes) in front of the terminator */
static void lg_name_add_label(lg_name_t *nm, const uint8_t *lab, size_t len)
{
  if (len == 0 || len > 63 || nm->n + len + 1 > sizeof(nm->w)) {
    return;
  }
  nm->w[nm->n - 1] = (uint8_t)len;
  memcpy(nm->w + nm->n, lab, len);
  nm->n += len + 1;
  nm->w[nm->n - 1] = 0;
}

static void lg_name_from_str(lg_name_t *nm, const char *s)
{
  lg_name_root(nm);
  while (*s) {
    const char *dot = strchr(s, '.');
    size_t      l   = dot ? (size_t)(dot - s) : strlen(s);
    lg_name_add_label(nm, (const uint8_t *)s, l);
    s += l;
    if (*s == '.') {
      s++;
    }
  }
}

static const char *const lg_vocab[] = { "example", "com",  "www", "a",    "mail",  "ns1", "ns2",
                                        "net",     "org",  "c1",  "c2",   "c3",    "c4",  "localhost",
                                        "srv",     "_sip", "_tcp", "host", "x-y-z", "b",   "Example",
                                        "COM",     "in-addr", "arpa", "16", "32",  "48",  "64" };
#define LG_NVOCAB (sizeof(lg_vocab) / sizeof(lg_vocab[0]))

static void lg_name_random(lg_name_t *nm, vh_rng_t *r)
{
  uint32_t k = vh_below(r, 100);
  int      i;
  int      nl;
  lg_name_root(nm);
  if (k < 3) {
    return; /* root */
  }
  if (k < 6) {
    /* 63-byte label + tail */
    uint8_t big[63];
    memset(big, 'x', sizeof(big));
    lg_name_add_label(nm, big, 63);
    lg_name_add_label(nm, (const uint8_t *)"com", 3);
    return;
  }
  if (k < 9) {
    /* long name: close to / above 255 octets */
    uint8_t lab[40];
    int     target = lg_gen_odd ? vh_range(r, 200, 300) : vh_range(r, 120, 200);
    memset(lab, 'l', sizeof(lab));
    while ((int)nm->n + 41 < target && nm->n + 42 < sizeof(nm->w)) {
      lab[0] = (uint8_t)('a' + vh_below(r, 26));
      lg_name_add_label(nm, lab, 40);
    }
    return;
  }
  if (k < 16) {
    /* labels with bytes that need escaping in presentation format */
    static const uint8_t odd[] = { '.', '\\', '@', '$', '(', ')', ';', '"', 0, 1, 0x7f, 0x80, 0xff, ' ', '0', '9' };
    nl = vh_range(r, 1, 3);
    for (i = 0; i < nl; i++) {
      uint8_t lab[8];
      int     l = vh_range(r, 1, 8);
      int     j;
      for (j = 0; j < l; j++) {
        lab[j] = vh_chance(r, 1, 2) ? odd[vh_below(r, sizeof(odd))] : (uint8_t)('a' + vh_below(r, 26));
      }
      lg_name_add_label(nm, lab, (size_t)l);
    }
    return;
  }
  nl = vh_range(r, 1, 4);
  for (i = 0; i < nl; i++) {
    const char *v = lg_vocab[vh_below(r, LG_NVOCAB)];
    lg_name_add_label(nm, (const uint8_t *)v, strlen(v));
  }
  if (vh_chance(r, 3, 4)) {
    /* common tail so that suffix compression has something to share */
    lg_name_add_label(nm, (const uint8_t *)"example", 7);
    lg_name_add_label(nm, (const uint8_t *)"com", 3);
  }
}

/* ---------------------------------------------------------------- message builder */
#define LG_NCT   96
#define LG_NLPOS 384
typedef struct {
  uint8_t *b;
  size_t   len;
  size_t   cap;
  int      ovf;
  struct {
    uint16_t off;
    uint16_t wlen;
    uint8_t  w[320];
  } ct[LG_NCT];
  int      nct;
  uint32_t lpos[LG_NLPOS]; /* offsets of length-like fields (label, chunk, rdlength, option length) */
  uint8_t  lwid[LG_NLPOS];
  int      nlpos;
  int      nrr;
} lg_msg_t;

static void lg_msg_init(lg_msg_t *m, uint8_t *buf, size_t cap)
{
  m->b     = buf;
  m->len   = 0;
  m->cap   = cap;
  m->ovf   = 0;
  m->nct   = 0;
  m->nlpos = 0;
  m->nrr   = 0;
}

static void lg_note_len(lg_msg_t *m, size_t pos, int width)
{
  if (m->nlpos < LG_NLPOS) {
    m->lpos[m->nlpos] = (uint32_t)pos;
    m->lwid[m->nlpos] = (uint8_t)width;
    m->nlpos++;
  }
}

static void lg_put(lg_msg_t *m, const void *p, size_t n)
{
  if (m->len + n > m->cap) {
    m->ovf = 1;
    return;
  }
  if (n) {
    memcpy(m->b + m->len, p, n);
  }
  m->len += n;
}

static void lg_u8(lg_msg_t *m, unsigned v)
{
  uint8_t c = (uint8_t)v;
  lg_put(m, &c, 1);
}

static void lg_u16(lg_msg_t *m, unsigned v)
{
  uint8_t c[2];
  c[0] = (uint8_t)(v >> 8);
  c[1] = (uint8_t)v;
  lg_put(m, c, 2);
}

static void lg_u32(lg_msg_t *m, uint32_t v)
{
  uint8_t c[4];
  c[0] = (uint8_t)(v >> 24);
  c[1] = (uint8_t)(v >> 16);
  c[2] = (uint8_t)(v >> 8);
  c[3] = (uint8_t)v;
  lg_put(m, c, 4);
}

static void lg_set16(lg_msg_t *m, size_t pos, unsigned v)
{
  if (pos + 2 <= m->len) {
    m->b[pos]     = (uint8_t)(v >> 8);
    m->b[pos + 1] = (uint8_t)v;
  }
}

static void lg_ct_add(lg_msg_t *m, size_t off, const uint8_t *w, size_t wlen)
{
  if (off >= 0x4000 || wlen <= 1 || wlen > 320) {
    return;
  }
  if (m->nct < LG_NCT) {
    m->ct[m->nct].off  = (uint16_t)off;
    m->ct[m->nct].wlen = (uint16_t)wlen;
    memcpy(m->ct[m->nct].w, w, wlen);
    m->nct++;
  }
}

enum {
  LG_CM_NONE = 0, /* no compression */
  LG_CM_BEST,     /* longest known suffix, random choice among equal candidates (gives chains) */
  LG_CM_FWD,      /* forward pointer */
  LG_CM_SELF,     /* pointer to itself */
  LG_CM_WILD,     /* pointer to an arbitrary offset */
  LG_CM_RESV      /* reserved label type 0x40/0x80 */
};

static int lg_cmode(vh_rng_t *r)
{
  uint32_t k = vh_below(r, 100);
  if (k < 62) {
    return LG_CM_BEST;
  }
  if (k < 96 || !lg_gen_odd) {
    return LG_CM_NONE;
  }
  return LG_CM_FWD + (int)vh_below(r, 4);
}

static void lg_put_name(lg_msg_t *m, const lg_name_t *nm, int mode, vh_rng_t *r)
{
  size_t i = 0;
  if (mode >= LG_CM_FWD) {
    /* optionally one honest label first, then the bad element */
    if (nm->n > 1 && vh_chance(r, 1, 2)) {
      lg_note_len(m, m->len, 1);
      lg_put(m, nm->w, (size_t)nm->w[0] + 1);
    }
    switch (mode) {
      case LG_CM_FWD:
        lg_u16(m, 0xc000 | ((m->len + 2 + vh_below(r, 40)) & 0x3fff));
        break;
      case LG_CM_SELF:
        lg_u16(m, 0xc000 | (m->len & 0x3fff));
        break;
      case LG_CM_WILD:
        lg_u16(m, 0xc000 | vh_below(r, 0x4000));
        break;
      default:
        lg_u8(m, vh_chance(r, 1, 2) ? 0x40 + vh_below(r, 0x40) : 0x80 + vh_below(r, 0x40));
        lg_put(m, "abc", 3);
        lg_u8(m, 0);
        break;
    }
    return;
  }
  while (i < nm->n) {
    if (nm->w[i] == 0) {
      lg_u8(m, 0);
      return;
    }
    if (mode == LG_CM_BEST) {
      int cand[LG_NCT];
      int nc = 0;
      int j;
      for (j = 0; j < m->nct; j++) {
        if (m->ct[j].wlen == nm->n - i && memcmp(m->ct[j].w, nm->w + i, nm->n - i) == 0) {
          cand[nc++] = j;
        }
      }
      if (nc > 0) {
        int    pick = cand[vh_below(r, (uint32_t)nc)];
        size_t at   = m->len;
        lg_u16(m, 0xc000 | m->ct[pick].off);
        /* the pointer itself is now a prior occurrence of this suffix: later names may point
         * at it, which yields pointer-to-pointer chains */
        lg_ct_add(m, at, nm->w + i, nm->n - i);
        return;
      }
    }
    lg_ct_add(m, m->len, nm->w + i, nm->n - i);
    lg_note_len(m, m->len, 1);
    lg_put(m, nm->w + i, (size_t)nm->w[i] + 1);
    i += (size_t)nm->w[i] + 1;
  }
}

/* character-string <len><bytes> */
static void lg_put_cstr(lg_msg_t *m, const uint8_t *s, size_t n)
{
  if (n > 255) {
    n = 255;
  }
  lg_note_len(m, m->len, 1);
  lg_u8(m, (unsigned)n);
  lg_put(m, s, n);
}

static void lg_rand_bytes(vh_rng_t *r, uint8_t *p, size_t n, int printable)
{
  size_t i;
  for (i = 0; i < n; i++) {
    p[i] = printable ? (uint8_t)(0x20 + vh_below(r, 0x5f)) : (uint8_t)vh_below(r, 256);
  }
}

static uint32_t lg_ttl(vh_rng_t *r)
{
  static const uint32_t v[] = { 0, 1, 59, 60, 100, 200, 300, 3600, 604800, 0x7fffffffu, 0x80000000u, 0xffffffffu };
  if (vh_chance(r, 1, 5)) {
    return v[vh_below(r, sizeof(v) / sizeof(v[0]))];
  }
  return 1 + vh_below(r, 1000);
}

static unsigned lg_class(vh_rng_t *r)
{
  uint32_t k = vh_below(r, 100);
  if (k < 85) {
    return 1; /* IN */
  }
  if (k < 91) {
    return 3; /* CH */
  }
  if (k < 94) {
    return 4; /* HS */
  }
  if (k < 96 || !lg_gen_odd) {
    return 254; /* NONE */
  }
  if (k < 98) {
    return 255; /* ANY */
  }
  return vh_chance(r, 1, 2) ? 2 : vh_below(r, 65536);
}

static uint16_t lg_u16val(vh_rng_t *r)
{
  static const uint16_t v[] = { 0, 1, 10, 100, 255, 256, 0x7fff, 0x8000, 0xffff, 0x0102 };
  if (vh_chance(r, 1, 3)) {
    return v[vh_below(r, sizeof(v) / sizeof(v[0]))];
  }
  return (uint16_t)vh_below(r, 65536);
}

static uint32_t lg_u32val(vh_rng_t *r)
{
  static const uint32_t v[] = { 0, 1, 3600, 0x7fffffffu, 0x80000000u, 0xffffffffu, 0x01020304u };
  if (vh_chance(r, 1, 3)) {
    return v[vh_below(r, sizeof(v) / sizeof(v[0]))];
  }
  return (uint32_t)vh_rand64(r);
}

/* known types by number */
enum {
  LG_T_A = 1, LG_T_NS = 2, LG_T_CNAME = 5, LG_T_SOA = 6, LG_T_PTR = 12, LG_T_HINFO = 13, LG_T_MX = 15,
  LG_T_TXT = 16, LG_T_SIG = 24, LG_T_AAAA = 28, LG_T_SRV = 33, LG_T_NAPTR = 35, LG_T_OPT = 41,
  LG_T_TLSA = 52, LG_T_SVCB = 64, LG_T_HTTPS = 65, LG_T_ANY = 255, LG_T_URI = 256, LG_T_CAA = 257
};

static const uint16_t lg_focus_types[] = { LG_T_A,   LG_T_AAAA, LG_T_NS,    LG_T_PTR, LG_T_SOA, LG_T_MX,
                                           LG_T_SRV, LG_T_NAPTR, LG_T_TXT,   LG_T_CAA, LG_T_URI, LG_T_CNAME };
#define LG_NFOCUS (sizeof(lg_focus_types) / sizeof(lg_focus_types[0]))

static uint16_t lg_any_type(vh_rng_t *r)
{
  static const uint16_t other[] = { LG_T_HINFO, LG_T_SIG, LG_T_TLSA, LG_T_SVCB, LG_T_HTTPS, LG_T_OPT, LG_T_ANY,
                                    0,          3,        10,        99,        250,        258,      32769,
                                    65280,      65535 };
  unsigned t;
  if (vh_chance(r, 2, 3)) {
    return lg_focus_types[vh_below(r, LG_NFOCUS)];
  }
  t = other[vh_below(r, sizeof(other) / sizeof(other[0]))];
  if (!lg_gen_odd && t == LG_T_ANY) {
    t = 99;
  }
  return (uint16_t)t;
}

/* RDATA for `type`; `target` (may be NULL) is used for the name-valued types so that CNAME
 * chains can be laid out by the caller.  `odd` raises the rate of subtly invalid encodings. */
static void lg_put_rdata(lg_msg_t *m, unsigned type, const lg_name_t *target, vh_rng_t *r, int odd)
{
  lg_name_t tmp;
  uint8_t   buf[300];
  int       i;
  int       n;
  int       bad = odd && vh_chance(r, 1, 6);
  if (target == NULL) {
    lg_name_random(&tmp, r);
    target = &tmp;
  }
  switch (type) {
    case LG_T_A:
      n = bad ? (int)vh_below(r, 7) : 4;
      lg_rand_bytes(r, buf, (size_t)n, 0);
      lg_put(m, buf, (size_t)n);
      break;
    case LG_T_AAAA:
      n = bad ? (int)vh_below(r, 20) : 16;
      lg_rand_bytes(r, buf, (size_t)n, 0);
      if (vh_chance(r, 1, 4)) {
        memset(buf, 0, 12);
      }
      lg_put(m, buf, (size_t)n);
      break;
    case LG_T_CNAME:
    case LG_T_NS:
    case LG_T_PTR:
      lg_put_name(m, target, lg_cmode(r), r);
      if (bad) {
        lg_u8(m, vh_below(r, 256));
      }
      break;
    case LG_T_SOA:
      lg_put_name(m, target, lg_cmode(r), r);
      lg_name_random(&tmp, r);
      lg_put_name(m, &tmp, lg_cmode(r), r);
      n = bad ? (int)vh_below(r, 5) : 5;
      for (i = 0; i < n; i++) {
        lg_u32(m, lg_u32val(r));
      }
      break;
    case LG_T_MX:
      if (!bad || vh_chance(r, 1, 2)) {
        lg_u16(m, lg_u16val(r));
      }
      lg_put_name(m, target, lg_cmode(r), r);
      break;
    case LG_T_SRV:
      n = bad ? (int)vh_below(r, 3) : 3;
      for (i = 0; i < n; i++) {
        lg_u16(m, lg_u16val(r));
      }
      lg_put_name(m, target, lg_cmode(r), r);
      break;
    case LG_T_NAPTR:
      lg_u16(m, lg_u16val(r));
      lg_u16(m, lg_u16val(r));
      for (i = 0; i < 3; i++) {
        n = vh_chance(r, 1, 4) ? 0 : vh_range(r, 1, 12);
        lg_rand_bytes(r, buf, (size_t)n, !(lg_gen_odd && vh_chance(r, 1, 12)));
        if (bad && i == 2) {
          lg_u8(m, (unsigned)n + 9); /* string longer than what follows in RDATA */
          lg_put(m, buf, (size_t)n);
        } else {
          lg_put_cstr(m, buf, (size_t)n);
        }
      }
      lg_put_name(m, target, lg_cmode(r), r);
      break;
    case LG_T_TXT: {
      uint32_t k = vh_below(r, 100);
      int      nch;
      if (k < 40) {
        nch = 1;
      } else if (k < 80) {
        nch = vh_range(r, 2, 4);
      } else if (k < 86) {
        nch = lg_gen_odd ? 0 : 1;
      } else {
        nch = vh_range(r, 5, 20);
      }
      for (i = 0; i < nch; i++) {
        uint32_t q = vh_below(r, 100);
        if (q < 15) {
          n = 0;
        } else if (q < 25) {
          n = 255;
        } else if (q < 30) {
          n = 254;
        } else {
          n = vh_range(r, 1, 40);
        }
        lg_rand_bytes(r, buf, (size_t)n, !vh_chance(r, 1, 5));
        if (bad && i == nch - 1) {
          lg_u8(m, (unsigned)(n + 1 + (int)vh_below(r, 20)) & 0xff);
          lg_put(m, buf, (size_t)n);
        } else {
          lg_put_cstr(m, buf, (size_t)n);
        }
      }
      break;
    }
    case LG_T_CAA: {
      static const char *const tags[] = { "issue", "issuewild", "iodef", "x", "contactemail", "A1b2" };
      const char              *t      = tags[vh_below(r, 6)];
      static const uint8_t     fl[]   = { 0, 128, 1, 255 };
      lg_u8(m, fl[vh_below(r, 4)]);
      if (bad && vh_chance(r, 1, 2)) {
        lg_put_cstr(m, (const uint8_t *)"", 0);
      } else if (lg_gen_odd && vh_chance(r, 1, 12)) {
        n = vh_range(r, 1, 6);
        lg_rand_bytes(r, buf, (size_t)n, 0);
        lg_put_cstr(m, buf, (size_t)n);
      } else {
        lg_put_cstr(m, (const uint8_t *)t, strlen(t));
      }
      n = (bad && vh_chance(r, 1, 2)) ? 0 : vh_range(r, 1, 60);
      lg_rand_bytes(r, buf, (size_t)n, !vh_chance(r, 1, 4));
      lg_put(m, buf, (size_t)n);
      break;
    }
    case LG_T_URI:
      lg_u16(m, lg_u16val(r));
      lg_u16(m, lg_u16val(r));
      n = bad ? 0 : vh_range(r, 1, 60);
      lg_rand_bytes(r, buf, (size_t)n, !(lg_gen_odd && vh_chance(r, 1, 12)));
      lg_put(m, buf, (size_t)n);
      break;
    case LG_T_OPT:
      n = (int)vh_below(r, 4);
      for (i = 0; i < n; i++) {
        static const uint16_t codes[] = { 3, 8, 10, 11, 12, 15, 0, 65001 };
        int                   l       = vh_chance(r, 1, 4) ? 0 : vh_range(r, 1, 24);
        lg_u16(m, codes[vh_below(r, 8)]);
        lg_note_len(m, m->len, 2);
        lg_u16(m, (unsigned)(bad && i == n - 1 ? l + 3 : l));
        lg_rand_bytes(r, buf, (size_t)l, 0);
        lg_put(m, buf, (size_t)l);
      }
      break;
    case LG_T_HINFO:
      for (i = 0; i < 2; i++) {
        n = (int)vh_below(r, 10);
        lg_rand_bytes(r, buf, (size_t)n, 1);
        lg_put_cstr(m, buf, (size_t)n);
      }
      break;
    case LG_T_SIG:
      lg_u16(m, lg_u16val(r));
      lg_u8(m, vh_below(r, 256));
      lg_u8(m, vh_below(r, 256));
      lg_u32(m, lg_u32val(r));
      lg_u32(m, lg_u32val(r));
      lg_u32(m, lg_u32val(r));
      lg_u16(m, lg_u16val(r));
      lg_put_name(m, target, lg_cmode(r), r);
      n = bad ? 0 : vh_range(r, 1, 40);
      lg_rand_bytes(r, buf, (size_t)n, 0);
      lg_put(m, buf, (size_t)n);
      break;
    case LG_T_TLSA:
      lg_u8(m, vh_below(r, 4));
      lg_u8(m, vh_below(r, 2));
      lg_u8(m, vh_below(r, 3));
      n = bad ? 0 : vh_range(r, 1, 64);
      lg_rand_bytes(r, buf, (size_t)n, 0);
      lg_put(m, buf, (size_t)n);
      break;
    case LG_T_SVCB:
    case LG_T_HTTPS:
      lg_u16(m, lg_u16val(r));
      lg_put_name(m, target, vh_chance(r, 3, 4) ? LG_CM_NONE : lg_cmode(r), r);
      n = (int)vh_below(r, 4);
      for (i = 0; i < n; i++) {
        int l = vh_chance(r, 1, 4) ? 0 : vh_range(r, 1, 20);
        lg_u16(m, vh_below(r, 8));
        lg_note_len(m, m->len, 2);
        lg_u16(m, (unsigned)(bad && i == n - 1 ? l + 2 : l));
        lg_rand_bytes(r, buf, (size_t)l, 0);
        lg_put(m, buf, (size_t)l);
      }
      break;
    default:
      n = vh_chance(r, 1, 4) ? 0 : vh_range(r, 1, 40);
      lg_rand_bytes(r, buf, (size_t)n, 0);
      lg_put(m, buf, (size_t)n);
      break;
  }
}

static void lg_put_rr(lg_msg_t *m, const lg_name_t *owner, unsigned type, unsigned cls, uint32_t ttl,
                      const lg_name_t *target, vh_rng_t *r, int odd)
{
  size_t rdpos;
  size_t start;
  lg_put_name(m, owner, lg_cmode(r), r);
  lg_u16(m, type);
  if (type == LG_T_OPT) {
    lg_u16(m, vh_chance(r, 1, 2) ? 1232 : lg_u16val(r));
    lg_u32(m, vh_chance(r, 1, 2) ? 0 : lg_u32val(r));
  } else {
    lg_u16(m, cls);
    lg_u32(m, ttl);
  }
  rdpos = m->len;
  lg_note_len(m, rdpos, 2);
  lg_u16(m, 0);
  start = m->len;
  lg_put_rdata(m, type, target, r, odd);
  if (odd && vh_chance(r, 1, 25)) {
    /* RDLENGTH that disagrees with the data */
    int delta = vh_range(r, -3, 6);
    int v     = (int)(m->len - start) + delta;
    lg_set16(m, rdpos, (unsigned)(v < 0 ? 0 : v));
  } else {
    lg_set16(m, rdpos, (unsigned)(m->len - start));
  }
  m->nrr++;
}

/* One message.  `focus` = RR type the answer section is built around (0 = draw one). */
static void lg_gen_message(lg_msg_t *m, vh_rng_t *r, unsigned focus, int odd)
{
  lg_name_t qname;
  lg_name_t cur;
  lg_name_t nxt;
  unsigned  qd;
  unsigned  an = 0;
  unsigned  ns = 0;
  unsigned  ar = 0;
  unsigned  flags;
  uint32_t  k;
  int       i;

  lg_gen_odd = odd;
  if (focus == 0) {
    focus = lg_focus_types[vh_below(r, LG_NFOCUS)];
  }
  lg_u16(m, vh_below(r, 65536));
  flags = 0x8000;
  if (vh_chance(r, 1, 20)) {
    flags = 0;
  }
  if (vh_chance(r, 1, 3)) {
    flags |= 0x0400;
  }
  if (vh_chance(r, 1, 2)) {
    flags |= 0x0100;
  }
  if (vh_chance(r, 1, 2)) {
    flags |= 0x0080;
  }
  if (vh_chance(r, 1, 20)) {
    flags |= 0x0200;
  }
  if (vh_chance(r, 1, 20)) {
    flags |= vh_below(r, 16) << 11;
  }
  if (vh_chance(r, 1, 8)) {
    flags |= vh_below(r, 16);
  }
  if (vh_chance(r, 1, 20)) {
    flags |= 0x0070 & vh_below(r, 256);
  }
  lg_u16(m, flags);
  lg_u16(m, 0);
  lg_u16(m, 0);
  lg_u16(m, 0);
  lg_u16(m, 0);

  k  = vh_below(r, 100);
  qd = k < 94 ? 1 : (k < 97 ? 0 : 2);
  if (!odd) {
    qd = 1;
  }
  if (focus == LG_T_PTR && vh_chance(r, 2, 3)) {
    lg_name_from_str(&qname, "64.48.32.16.in-addr.arpa");
  } else {
    lg_name_random(&qname, r);
  }
  for (i = 0; i < (int)qd; i++) {
    lg_put_name(m, &qname, i == 0 ? (vh_chance(r, 9, 10) ? LG_CM_NONE : lg_cmode(r)) : lg_cmode(r), r);
    lg_u16(m, vh_chance(r, 9, 10) ? focus : lg_any_type(r));
    lg_u16(m, vh_chance(r, 9, 10) ? 1 : lg_class(r));
  }

  /* ---- answer section ---- */
  k = vh_below(r, 100);
  if (k < 62) {
    /* CNAME chain then records of the focus type at the end of the chain */
    uint32_t c    = vh_below(r, 100);
    int      ncn  = c < 50 ? 0 : (c < 75 ? 1 : (c < 90 ? 2 : 3));
    uint32_t q    = vh_below(r, 100);
    int      nrec = q < 10 ? 0 : (q < 45 ? 1 : (q < 65 ? 2 : (q < 80 ? 3 : (q < 92 ? 5 : 9))));
    int      brk  = vh_chance(r, 1, 12); /* chain laid out of order / broken */
    cur           = qname;
    if (focus == LG_T_CNAME) {
      ncn = ncn ? ncn : 1;
      nrec = 0;
    }
    for (i = 0; i < ncn; i++) {
      lg_name_random(&nxt, r);
      if (brk && i > 0 && vh_chance(r, 1, 2)) {
        lg_name_t unrelated;
        lg_name_random(&unrelated, r);
        lg_put_rr(m, &unrelated, LG_T_CNAME, vh_chance(r, 9, 10) ? 1 : lg_class(r), lg_ttl(r), &nxt, r, odd);
      } else {
        lg_put_rr(m, &cur, LG_T_CNAME, vh_chance(r, 19, 20) ? 1 : lg_class(r), lg_ttl(r), &nxt, r, odd);
      }
      an++;
      cur = nxt;
    }
    for (i = 0; i < nrec; i++) {
      unsigned t = focus;
      if (vh_chance(r, 1, 7)) {
        /* stray record of another type between the selected ones */
        t = (focus == LG_T_A) ? LG_T_AAAA : ((focus == LG_T_AAAA) ? LG_T_A : lg_any_type(r));
        if (vh_chance(r, 1, 3)) {
          t = lg_any_type(r);
        }
      }
      if (t == LG_T_OPT && !odd) {
        t = LG_T_TXT;
      }
      lg_put_rr(m, vh_chance(r, 9, 10) ? &cur : &qname, t, vh_chance(r, 7, 8) ? 1 : lg_class(r), lg_ttl(r), NULL, r,
                odd);
      an++;
    }
    if (vh_chance(r, 1, 15)) {
      /* late CNAME after the data */
      lg_name_random(&nxt, r);
      lg_put_rr(m, &cur, LG_T_CNAME, 1, lg_ttl(r), &nxt, r, odd);
      an++;
    }
  } else if (k < 80) {
    /* only records of the "other address family" / a single foreign type */
    unsigned t = (focus == LG_T_A) ? LG_T_AAAA : ((focus == LG_T_AAAA) ? LG_T_A : lg_any_type(r));
    int      n = vh_range(r, 1, 3);
    if (t == LG_T_OPT && !odd) {
      t = LG_T_MX;
    }
    for (i = 0; i < n; i++) {
      lg_put_rr(m, &qname, t, vh_chance(r, 9, 10) ? 1 : lg_class(r), lg_ttl(r), NULL, r, odd);
      an++;
    }
  } else if (k < 92) {
    int n = vh_range(r, 1, 8);
    for (i = 0; i < n; i++) {
      unsigned t = lg_any_type(r);
      lg_name_t o;
      if (t == LG_T_OPT && !odd) {
        t = LG_T_SRV;
      }
      if (vh_chance(r, 1, 2)) {
        o = qname;
      } else {
        lg_name_random(&o, r);
      }
      lg_put_rr(m, &o, t, lg_class(r), lg_ttl(r), NULL, r, odd);
      an++;
    }
  } /* else: empty answer section */

  /* ---- authority ---- */
  if (vh_chance(r, 1, 3)) {
    int n = vh_range(r, 1, 3);
    for (i = 0; i < n; i++) {
      unsigned t = vh_chance(r, 1, 2) ? LG_T_NS : (vh_chance(r, 1, 2) ? LG_T_SOA : lg_any_type(r));
      if (t == LG_T_OPT && !odd) {
        t = LG_T_NS;
      }
      lg_put_rr(m, &qname, t, vh_chance(r, 9, 10) ? 1 : lg_class(r), lg_ttl(r), NULL, r, odd);
      ns++;
    }
  }
  /* ---- additional ---- */
  if (vh_chance(r, 2, 5)) {
    int n = vh_range(r, 1, 3);
    for (i = 0; i < n; i++) {
      uint32_t  q = vh_below(r, 100);
      unsigned  t = q < 35 ? LG_T_A : (q < 60 ? LG_T_AAAA : (q < 85 ? LG_T_OPT : lg_any_type(r)));
      lg_name_t o;
      if (t == LG_T_OPT) {
        lg_name_root(&o);
      } else {
        lg_name_random(&o, r);
      }
      lg_put_rr(m, &o, t, 1, lg_ttl(r), NULL, r, odd);
      ar++;
    }
  }
  lg_set16(m, 4, qd);
  lg_set16(m, 6, an);
  lg_set16(m, 8, ns);
  lg_set16(m, 10, ar);
}

/* Large but well-formed message: many RRs up to roughly `target` bytes. */
static void lg_gen_big(lg_msg_t *m, vh_rng_t *r, size_t target)
{
  lg_name_t qname;
  unsigned  an    = 0;
  unsigned  focus = lg_focus_types[vh_below(r, LG_NFOCUS)];
  lg_gen_odd      = 0;
  lg_u16(m, vh_below(r, 65536));
  lg_u16(m, 0x8180);
  lg_u16(m, 1);
  lg_u16(m, 0);
  lg_u16(m, 0);
  lg_u16(m, 0);
  lg_name_random(&qname, r);
  lg_put_name(m, &qname, LG_CM_NONE, r);
  lg_u16(m, focus);
  lg_u16(m, 1);
  while (m->len + 600 < target && an < 65535 && !m->ovf) {
    lg_put_rr(m, &qname, vh_chance(r, 3, 4) ? focus : LG_T_TXT, 1, lg_ttl(r), NULL, r, 0);
    an++;
  }
  lg_set16(m, 6, an);
}

/* ---------------------------------------------------------------- mutation */
static const uint8_t lg_interesting[] = { 0x00, 0x01, 0x3f, 0x40, 0x7f, 0x80, 0xbf, 0xc0, 0xc1, 0xff, 0x0c, 0x10 };

/* second input for splice: a seed file or a freshly generated message */
static size_t lg_other_input(vh_rng_t *r, uint8_t *out, size_t cap)
{
  if (lg_nseeds > 0 && vh_chance(r, 1, 2)) {
    const lg_seed_t *s = &lg_seeds[vh_below(r, (uint32_t)lg_nseeds)];
    size_t           n = s->len > cap ? cap : s->len;
    memcpy(out, s->data, n);
    return n;
  } else {
    static lg_msg_t om;
    lg_msg_init(&om, out, cap > 4096 ? 4096 : cap);
    lg_gen_message(&om, r, 0, 1);
    return om.len;
  }
}

static void lg_mutate_once(uint8_t *b, size_t *plen, size_t cap, vh_rng_t *r, const lg_msg_t *meta)
{
  size_t   len = *plen;
  uint32_t op  = vh_below(r, 10);
  size_t   i;
  switch (op) {
    case 0: /* truncate */
      if (len > 0) {
        uint32_t k = vh_below(r, 4);
        if (k == 0) {
          len = len - 1;
        } else if (k == 1 && len > 12) {
          len = vh_below(r, 13);
        } else {
          len = vh_below(r, (uint32_t)len);
        }
      }
      break;
    case 1: { /* extend */
      static const uint32_t targets[] = { 65534, 65535, 65536, 65537, 69999, 70000 };
      uint32_t              k         = vh_below(r, 100);
      size_t                add;
      uint32_t              fill = vh_below(r, 4);
      if (k < 40) {
        add = 1 + vh_below(r, 4);
      } else if (k < 85) {
        add = 1 + vh_below(r, 64);
      } else if (k < 93) {
        add = 1 + vh_below(r, 4000);
      } else {
        size_t t = targets[vh_below(r, 6)];
        add      = t > len ? t - len : 1;
      }
      if (len + add > cap) {
        add = cap - len;
      }
      for (i = 0; i < add; i++) {
        uint8_t v;
        switch (fill) {
          case 0:
            v = 0;
            break;
          case 1:
            v = 0xff;
            break;
          case 2:
            v = (uint8_t)vh_below(r, 256);
            break;
          default:
            v = len > 0 ? b[i % len] : 0;
            break;
        }
        b[len + i] = v;
      }
      len += add;
      break;
    }
    case 2: /* flip bits */
      if (len > 0) {
        int n = vh_range(r, 1, 4);
        while (n-- > 0) {
          b[vh_below(r, (uint32_t)len)] ^= (uint8_t)(1u << vh_below(r, 8));
        }
      }
      break;
    case 3: /* overwrite a byte with an interesting value */
      if (len > 0) {
        b[vh_below(r, (uint32_t)len)] = lg_interesting[vh_below(r, sizeof(lg_interesting))];
      }
      break;
    case 4: /* overwrite a section count */
      if (len >= 12) {
        static const uint16_t cv[] = { 0, 1, 2, 3, 4, 5, 16, 255, 256, 65535 };
        size_t                pos  = 4 + 2 * (size_t)vh_below(r, 4);
        unsigned              cur  = (unsigned)(b[pos] << 8 | b[pos + 1]);
        unsigned              v;
        uint32_t              k = vh_below(r, 10);
        if (k < 3) {
          v = cur + 1;
        } else if (k < 6) {
          v = cur ? cur - 1 : 1;
        } else {
          v = cv[vh_below(r, vh_chance(r, 1, 5) ? 10 : 7)];
        }
        b[pos]     = (uint8_t)(v >> 8);
        b[pos + 1] = (uint8_t)v;
      }
      break;
    case 5: /* overwrite a length field */
      if (len > 0) {
        size_t   pos;
        int      wid;
        unsigned cur;
        unsigned v;
        uint32_t k;
        if (meta != NULL && meta->nlpos > 0 && vh_chance(r, 4, 5)) {
          uint32_t j = vh_below(r, (uint32_t)meta->nlpos);
          pos        = meta->lpos[j];
          wid        = meta->lwid[j];
        } else {
          pos = vh_below(r, (uint32_t)len);
          wid = 1 + (int)vh_below(r, 2);
        }
        if (pos + (size_t)wid > len) {
          break;
        }
        cur = wid == 1 ? b[pos] : (unsigned)(b[pos] << 8 | b[pos + 1]);
        k   = vh_below(r, 8);
        switch (k) {
          case 0:
            v = 0;
            break;
          case 1:
            v = cur + 1;
            break;
          case 2:
            v = cur ? cur - 1 : 0;
            break;
          case 3:
            v = wid == 1 ? 0x3f : 0xffff;
            break;
          case 4:
            v = wid == 1 ? 0xff : 0x00ff;
            break;
          case 5:
            v = cur * 2;
            break;
          case 6:
            v = (unsigned)(len - pos);
            break;
          default:
            v = vh_below(r, wid == 1 ? 256 : 65536);
            break;
        }
        if (wid == 1) {
          b[pos] = (uint8_t)v;
        } else {
          b[pos]     = (uint8_t)(v >> 8);
          b[pos + 1] = (uint8_t)v;
        }
      }
      break;
    case 6: { /* splice */
      static uint8_t other[LG_MAXMSG];
      size_t         olen = lg_other_input(r, other, sizeof(other));
      size_t         cut1 = len ? vh_below(r, (uint32_t)len + 1) : 0;
      size_t         cut2 = olen ? vh_below(r, (uint32_t)olen + 1) : 0;
      size_t         tail = olen - cut2;
      if (cut1 + tail > cap) {
        tail = cap - cut1;
      }
      memcpy(b + cut1, other + cut2, tail);
      len = cut1 + tail;
      break;
    }
    case 7: /* insert or delete a few bytes */
      if (len > 0) {
        size_t pos = vh_below(r, (uint32_t)len);
        size_t n   = 1 + vh_below(r, 8);
        if (vh_chance(r, 1, 2)) {
          if (pos + n > len) {
            n = len - pos;
          }
          memmove(b + pos, b + pos + n, len - pos - n);
          len -= n;
        } else if (len + n <= cap) {
          memmove(b + pos + n, b + pos, len - pos);
          for (i = 0; i < n; i++) {
            b[pos + i] = vh_chance(r, 1, 2) ? lg_interesting[vh_below(r, sizeof(lg_interesting))] : (uint8_t)vh_below(r, 256);
          }
          len += n;
        }
      }
      break;
    case 8: /* plant a compression pointer */
      if (len >= 2) {
        size_t   pos = vh_below(r, (uint32_t)len - 1);
        unsigned tgt;
        uint32_t k = vh_below(r, 6);
        if (k < 3) {
          tgt = pos ? vh_below(r, (uint32_t)pos) : 0; /* backwards */
        } else if (k == 3) {
          tgt = (unsigned)pos; /* self */
        } else if (k == 4) {
          tgt = (unsigned)(pos + 2 + vh_below(r, 16)); /* forward */
        } else {
          tgt = vh_below(r, 0x4000);
        }
        b[pos]     = (uint8_t)(0xc0 | ((tgt >> 8) & 0x3f));
        b[pos + 1] = (uint8_t)tgt;
      }
      break;
    default: /* overwrite a short run with random bytes */
      if (len > 0) {
        size_t pos = vh_below(r, (uint32_t)len);
        size_t n   = 1 + vh_below(r, 6);
        for (i = 0; i < n && pos + i < len; i++) {
          b[pos + i] = (uint8_t)vh_below(r, 256);
        }
      }
      break;
  }
  *plen = len;
}

/* ---------------------------------------------------------------- case input */
enum { LG_K_GEN = 0, LG_K_GENMUT, LG_K_SEED, LG_K_SEEDMUT, LG_K_RANDOM, LG_K_EDGE, LG_K_BIG, LG_NKINDS };
static const char *const lg_kind_names[] = { "gen", "gen_mut", "seed", "seed_mut", "random", "edge", "big" };

/* Fill `out` (capacity LG_MAXMSG) with the input of one case; returns its kind.
 * `valid_pct` = share of unmutated generated messages. */
static int lg_case_input(vh_rng_t *r, int valid_pct, uint8_t *out, size_t *outlen)
{
  static lg_msg_t m;
  uint32_t        k = vh_below(r, 100);
  int             n;
  *outlen = 0;
  if ((int)k < valid_pct) {
    lg_msg_init(&m, out, 16384);
    lg_gen_message(&m, r, 0, vh_chance(r, 1, 5));
    *outlen = m.len;
    return LG_K_GEN;
  }
  k = vh_below(r, 100);
  if (k < 50) {
    lg_msg_init(&m, out, 16384);
    lg_gen_message(&m, r, 0, 1);
    *outlen = m.len;
    n       = vh_range(r, 1, 3);
    while (n-- > 0) {
      lg_mutate_once(out, outlen, LG_MAXMSG, r, &m);
    }
    return LG_K_GENMUT;
  }
  if (k < 78 && lg_nseeds > 0) {
    const lg_seed_t *s = &lg_seeds[vh_below(r, (uint32_t)lg_nseeds)];
    memcpy(out, s->data, s->len);
    *outlen = s->len;
    if (vh_chance(r, 1, 4)) {
      return LG_K_SEED;
    }
    n = vh_range(r, 1, 3);
    while (n-- > 0) {
      lg_mutate_once(out, outlen, LG_MAXMSG, r, NULL);
    }
    return LG_K_SEEDMUT;
  }
  if (k < 86) {
    size_t l = vh_below(r, 65);
    lg_rand_bytes(r, out, l, 0);
    if (l >= 12 && vh_chance(r, 1, 2)) {
      /* plausible header: one question, a few records */
      out[4]  = 0;
      out[5]  = 1;
      out[6]  = 0;
      out[7]  = (uint8_t)vh_below(r, 3);
      out[8]  = 0;
      out[9]  = 0;
      out[10] = 0;
      out[11] = 0;
    }
    *outlen = l;
    return LG_K_RANDOM;
  }
  if (k < 92) {
    static const uint8_t edge_len[] = { 0, 1, 2, 11, 12, 13, 16, 17 };
    size_t               l          = edge_len[vh_below(r, 8)];
    lg_msg_init(&m, out, 4096);
    lg_gen_message(&m, r, 0, 0);
    *outlen = m.len < l ? m.len : l;
    return LG_K_EDGE;
  }
  {
    static const uint32_t sizes[] = { 16383, 16384, 16385, 65534, 65535, 65536, 65537, 69999, 70000 };
    size_t                target  = vh_chance(r, 1, 2) ? sizes[vh_below(r, 9)] : (size_t)vh_range(r, 5000, 70000);
    lg_msg_init(&m, out, target > 65535 ? 65535 : target);
    lg_gen_big(&m, r, m.cap);
    *outlen = m.len;
    /* pad to the exact target */
    while (*outlen < target) {
      out[*outlen] = vh_chance(r, 1, 2) ? 0 : (uint8_t)vh_below(r, 256);
      (*outlen)++;
    }
    if (vh_chance(r, 1, 2)) {
      lg_mutate_once(out, outlen, LG_MAXMSG, r, &m);
    }
    return LG_K_BIG;
  }
}

#endif
