/* lg_common.h - shared pieces of the legacy/total harness:
 *   reporting, exact-size input blocks, counting-allocator ledger, per-call CPU watchdog,
 *   the independent reference name decoder, a light message scanner (for the non-triviality
 *   rule and fingerprints), presentation-name unescaping, and a uniform wrapper around the
 *   legacy ares_parse_*_reply functions.
 */
#ifndef LG_COMMON_H
#define LG_COMMON_H

#include <signal.h>
#include <sys/time.h>
#include <netdb.h>
#include <arpa/inet.h>
#include <limits.h>

/* ---------------------------------------------------------------- reporting */
static const char *lg_profile = "total";
#define LG_MAX_PER_KEY 1
/* ares_buf_split(ALLOW_BLANK|NO_DUPLICATES) is exercised in one of this many eligible split calls
 * (1 = always, 0 = never).  Before fix 16695cc two blank sections made it pass NULL to memcmp (UBSan
 * abort in most workers); --opt nodup_blank_rate=N restores a low rate when checking such a tree. */
static unsigned lg_nodup_blank_rate = 1;
/* 0: leave out the bin == NULL / s == NULL variants of ares_buf_parse_dns_binstr / ares_expand_string
 * (they leak on the pinned tree, see known_findings.d/legacy.json; a libFuzzer process stops at its
 * first report, so the fuzz target leaves them to the deterministic profile) */
static int lg_skip_mode_calls = 1;

static const char *lg_hex(const uint8_t *d, size_t len)
{
  static char  buf[2][600];
  static int   flip = 0;
  char        *o    = buf[flip ^= 1];
  size_t       n    = len > 200 ? 200 : len;
  size_t       i;
  static const char hx[] = "0123456789abcdef";
  for (i = 0; i < n; i++) {
    o[2 * i]     = hx[d[i] >> 4];
    o[2 * i + 1] = hx[d[i] & 15];
  }
  o[2 * n] = 0;
  if (n < len) {
    strcat(o, "..");
  }
  return o;
}

static void lg_violation(const char *key, const char *fmt, ...)
{
  va_list ap;
  char    buf[1800];
  va_start(ap, fmt);
  vsnprintf(buf, sizeof(buf), fmt, ap);
  va_end(ap);
#ifdef LG_FUZZ
  fprintf(stderr, "LG-VIOLATION %s | %s\n", key, buf);
  fflush(stderr);
  abort();
#else
  {
    /* at most LG_MAX_PER_KEY reports per key and chunk: one defect hit by thousands of inputs
     * must not drown the protocol stream (the count is still reported as a counter) */
    static struct {
      char     key[120];
      unsigned n;
    } seen[64];
    static int nseen = 0;
    int        i;
    for (i = 0; i < nseen; i++) {
      if (!strcmp(seen[i].key, key)) {
        break;
      }
    }
    if (i == nseen && nseen < 64) {
      snprintf(seen[nseen].key, sizeof(seen[nseen].key), "%s", key);
      seen[nseen].n = 0;
      nseen++;
    }
    vh_count("violations_raised");
    if (i < 64 && seen[i].n++ >= LG_MAX_PER_KEY) {
      return;
    }
  }
  vh_violation(key, "%s", buf);
#endif
}

static unsigned long lg_ledger_reports = 0; /* ledger (leak) violations raised in this chunk */

/* key = tot:<entry>:<rule>   (names profile: names:<rule>) */
static void lg_report(const char *entry, const char *rule, const uint8_t *d, size_t len, const char *fmt, ...)
{
  va_list ap;
  char    key[160];
  char    buf[900];
  va_start(ap, fmt);
  vsnprintf(buf, sizeof(buf), fmt, ap);
  va_end(ap);
  if (!strncmp(rule, "leak", 4) || !strcmp(rule, "ledger")) {
    lg_ledger_reports++;
  }
  if (!strcmp(lg_profile, "names")) {
    snprintf(key, sizeof(key), "names:%s", rule);
  } else if (!strcmp(lg_profile, "legacy")) {
    snprintf(key, sizeof(key), "leg:%s:%s", entry, rule);
  } else {
    snprintf(key, sizeof(key), "tot:%s:%s", entry, rule);
  }
  lg_violation(key, "%s: %s [len=%zu bytes=%s]", entry, buf, len, d ? lg_hex(d, len) : "");
}

/* ---------------------------------------------------------------- touching results */
static volatile unsigned lg_sink;

#if defined(__has_feature)
#  if __has_feature(memory_sanitizer)
#    include <sanitizer/msan_interface.h>
#    define LG_MSAN_CHECK(p, n) __msan_check_mem_is_initialized((p), (n))
#  endif
#endif
#ifndef LG_MSAN_CHECK
#  define LG_MSAN_CHECK(p, n) ((void)0)
#endif

static void lg_touch(const void *p, size_t n)
{
  const volatile uint8_t *c = (const volatile uint8_t *)p;
  size_t                  i;
  unsigned                s = 0;
  LG_MSAN_CHECK(p, n); /* MSan flavor: every byte of a returned result must be initialised */
  for (i = 0; i < n; i++) {
    s += c[i];
  }
  lg_sink += s;
}

static size_t lg_touch_str(const char *s)
{
  size_t n = strlen(s);
  lg_touch(s, n + 1);
  return n;
}

/* ---------------------------------------------------------------- exact-size input blocks */
typedef struct {
  uint8_t *base;
  uint8_t *p;
  size_t   len;
} lg_in_t;

/* copy of d[0..len) in a block whose last byte is the last byte of the allocation, so that a
 * read of p[len] hits the ASan red zone */
static lg_in_t lg_in_make(const uint8_t *d, size_t len)
{
  lg_in_t in;
  if (len == 0) {
    in.base = (uint8_t *)malloc(8);
    in.p    = in.base + 8;
  } else {
    in.base = (uint8_t *)malloc(len);
    in.p    = in.base;
    memcpy(in.p, d, len);
  }
  in.len = len;
  return in;
}

static void lg_in_free(lg_in_t *in)
{
  free(in->base);
  in->base = in->p = NULL;
}

/* ---------------------------------------------------------------- ledger */
static long          lg_live   = 0;
static unsigned long lg_allocs = 0;

static void *lg_malloc(size_t n)
{
  void *p = malloc(n);
  if (p != NULL) {
    lg_live++;
    lg_allocs++;
  }
  return p;
}

static void lg_free(void *p)
{
  if (p != NULL) {
    lg_live--;
  }
  free(p);
}

static void *lg_realloc(void *p, size_t n)
{
  void *q;
  if (p == NULL) {
    return lg_malloc(n);
  }
  if (n == 0) {
    lg_free(p);
    return NULL;
  }
  q = realloc(p, n);
  if (q != NULL) {
    lg_allocs++;
  }
  return q;
}

/* ---------------------------------------------------------------- per-call CPU watchdog */
static volatile sig_atomic_t lg_tick      = 0;
static volatile sig_atomic_t lg_call_tick = 0;
static const char *volatile lg_cur_entry  = NULL;
#define LG_TICK_US   500000
#define LG_MAX_TICKS 5 /* a single call that spans > 5 ticks used between 2.0 and 2.5 s of CPU */

#define LG_ENTER(name)          \
  do {                          \
    lg_cur_entry = (name);      \
    lg_call_tick = lg_tick;     \
  } while (0)
#define LG_LEAVE()         \
  do {                     \
    lg_cur_entry = NULL;   \
  } while (0)

#ifndef LG_FUZZ
static void lg_on_vtalrm(int sig)
{
  (void)sig;
  lg_tick++;
  if (lg_cur_entry != NULL && lg_tick - lg_call_tick >= LG_MAX_TICKS) {
    char buf[300];
    int  n;
    if (!strcmp(lg_profile, "names")) {
      n = snprintf(buf, sizeof(buf), "V %llu names:timeout | %s still running after >2 s of CPU\n",
                   (unsigned long long)vh_cur_case, lg_cur_entry);
    } else {
      n = snprintf(buf, sizeof(buf), "V %llu %s:%s:timeout | call still running after >2 s of CPU\n",
                   (unsigned long long)vh_cur_case, !strcmp(lg_profile, "legacy") ? "leg" : "tot", lg_cur_entry);
    }
    if (n > 0 && write(1, buf, (size_t)n) < 0) {
      /* nothing to do */
    }
    _exit(3);
  }
}

static void lg_watchdog_start(void)
{
  struct sigaction sa;
  struct itimerval it;
  memset(&sa, 0, sizeof(sa));
  sa.sa_handler = lg_on_vtalrm;
  sigaction(SIGVTALRM, &sa, NULL);
  it.it_interval.tv_sec  = 0;
  it.it_interval.tv_usec = LG_TICK_US;
  it.it_value            = it.it_interval;
  setitimer(ITIMER_VIRTUAL, &it, NULL);
}
#endif

/* ---------------------------------------------------------------- reference name decoder */
enum {
  LG_REF_OK = 0, /* decodes; every pointer targets an offset before the start of the fragment it ends */
  LG_REF_LOOSE,  /* decodes without looping, every pointer goes backwards, but some target is not
                    before the start of the current fragment */
  LG_REF_FWD,    /* a pointer targets its own position or a later one */
  LG_REF_LOOP,   /* following the pointers revisits a target */
  LG_REF_BAD     /* truncated / reserved label type / label or pointer runs off the buffer */
};
static const char *const lg_ref_names[] = { "ok", "loose", "forward", "loop", "bad" };

#define LG_REF_MAXWIRE 1024
typedef struct {
  int     cls;
  size_t  consumed; /* octets the name occupies at its own position */
  int     nptr;
  int     nlab;
  uint8_t wire[LG_REF_MAXWIRE]; /* uncompressed labels <len><bytes>..., no terminator */
  size_t  wlen;
  int     overflow; /* wire[] too small: label comparison not possible */
} lg_ref_t;

static uint32_t lg_vis[16384];
static uint32_t lg_vis_gen = 0;

static void lg_ref_name(const uint8_t *b, size_t len, size_t off, lg_ref_t *o)
{
  size_t pos        = off;
  size_t frag_start = off;
  int    jumped     = 0;
  int    loose      = 0;
  o->cls            = LG_REF_BAD;
  o->consumed       = 0;
  o->nptr           = 0;
  o->nlab           = 0;
  o->wlen           = 0;
  o->overflow       = 0;
  if (++lg_vis_gen == 0) {
    memset(lg_vis, 0, sizeof(lg_vis));
    lg_vis_gen = 1;
  }
  for (;;) {
    unsigned c;
    if (pos >= len) {
      return; /* ran off the end */
    }
    c = b[pos];
    if ((c & 0xc0) == 0xc0) {
      size_t tgt;
      if (pos + 1 >= len) {
        return;
      }
      tgt = ((size_t)(c & 0x3f) << 8) | b[pos + 1];
      if (!jumped) {
        o->consumed = pos + 2 - off;
        jumped      = 1;
      }
      o->nptr++;
      if (tgt >= pos) {
        o->cls = LG_REF_FWD;
        return;
      }
      if (tgt >= frag_start) {
        loose = 1;
      }
      if (lg_vis[tgt] == lg_vis_gen) {
        o->cls = LG_REF_LOOP;
        return;
      }
      lg_vis[tgt] = lg_vis_gen;
      pos         = tgt;
      frag_start  = tgt;
      continue;
    }
    if (c & 0xc0) {
      return; /* 01 / 10 label types are reserved */
    }
    if (c == 0) {
      if (!jumped) {
        o->consumed = pos + 1 - off;
      }
      o->cls = loose ? LG_REF_LOOSE : LG_REF_OK;
      return;
    }
    if (pos + 1 + c > len) {
      return; /* label runs off the buffer */
    }
    if (o->wlen + 1 + c <= LG_REF_MAXWIRE) {
      memcpy(o->wire + o->wlen, b + pos, 1 + (size_t)c);
      o->wlen += 1 + (size_t)c;
    } else {
      o->overflow = 1;
    }
    o->nlab++;
    pos += 1 + (size_t)c;
  }
}

/* presentation format (as produced by c-ares) back to uncompressed wire labels.
 * returns 0 on success, -1 if the text cannot have come from a sequence of 1..63 byte labels */
static int lg_unescape_name(const char *s, uint8_t *out, size_t cap, size_t *outlen)
{
  size_t w    = 0;
  size_t lpos = 0; /* position of the current label's length octet */
  size_t ll   = 0;
  if (*s == 0) {
    *outlen = 0;
    return 0;
  }
  if (cap < 2) {
    return -2;
  }
  w = 1;
  for (;; s++) {
    unsigned ch;
    if (*s == 0 || *s == '.') {
      if (ll == 0 || ll > 63) {
        return -1;
      }
      out[lpos] = (uint8_t)ll;
      if (*s == 0) {
        break;
      }
      lpos = w;
      if (w + 1 > cap) {
        return -2;
      }
      w++;
      ll = 0;
      continue;
    }
    if (*s == '\\') {
      if (s[1] >= '0' && s[1] <= '9' && s[2] >= '0' && s[2] <= '9' && s[3] >= '0' && s[3] <= '9') {
        ch = (unsigned)((s[1] - '0') * 100 + (s[2] - '0') * 10 + (s[3] - '0'));
        if (ch > 255) {
          return -1;
        }
        s += 3;
      } else if (s[1] != 0) {
        ch = (unsigned char)s[1];
        s += 1;
      } else {
        return -1;
      }
    } else {
      ch = (unsigned char)*s;
    }
    if (w + 1 > cap) {
      return -2;
    }
    out[w++] = (uint8_t)ch;
    ll++;
  }
  *outlen = w;
  return 0;
}

/* ---------------------------------------------------------------- message scanner */
typedef struct {
  int      have_header;
  unsigned qd, an, ns, ar;
  unsigned rr_headers; /* RR fixed headers (name + 10 octets) that fit in the buffer */
  unsigned nptr;       /* compression pointers followed while skipping names */
  uint64_t shape;      /* hash of (section, type class, rdlength class) per RR + counts */
} lg_scan_t;

static unsigned lg_type_bucket(unsigned t)
{
  switch (t) {
    case 1: case 2: case 5: case 6: case 12: case 13: case 15: case 16: case 24: case 28: case 33: case 35:
    case 41: case 52: case 64: case 65: case 255: case 256: case 257:
      return t;
    default:
      return 0xffff;
  }
}

static unsigned lg_len_bucket(size_t n)
{
  if (n == 0) {
    return 0;
  }
  if (n <= 4) {
    return 1;
  }
  if (n <= 16) {
    return 2;
  }
  if (n <= 64) {
    return 3;
  }
  if (n <= 255) {
    return 4;
  }
  if (n <= 512) {
    return 5;
  }
  if (n <= 4096) {
    return 6;
  }
  if (n <= 65535) {
    return 7;
  }
  return 8;
}

static void lg_scan(const uint8_t *b, size_t len, lg_scan_t *s)
{
  size_t   pos = 12;
  unsigned i;
  unsigned total;
  lg_ref_t rn;
  memset(s, 0, sizeof(*s));
  s->shape = vh_fnv_u64(VH_FNV_INIT, lg_len_bucket(len));
  if (len < 12) {
    return;
  }
  s->have_header = 1;
  s->qd          = (unsigned)(b[4] << 8 | b[5]);
  s->an          = (unsigned)(b[6] << 8 | b[7]);
  s->ns          = (unsigned)(b[8] << 8 | b[9]);
  s->ar          = (unsigned)(b[10] << 8 | b[11]);
  s->shape       = vh_fnv_u64(s->shape, s->qd > 2 ? 3 : s->qd);
  for (i = 0; i < s->qd && i < 4; i++) {
    lg_ref_name(b, len, pos, &rn);
    s->nptr += (unsigned)rn.nptr;
    if (rn.cls != LG_REF_OK && rn.cls != LG_REF_LOOSE) {
      s->shape = vh_fnv_u64(s->shape, 0x100 + (unsigned)rn.cls);
      return;
    }
    pos += rn.consumed + 4;
    if (pos > len) {
      return;
    }
  }
  total = s->an + s->ns + s->ar;
  for (i = 0; i < total && i < 48; i++) {
    unsigned type;
    size_t   rdlen;
    unsigned sect = i < s->an ? 1 : (i < s->an + s->ns ? 2 : 3);
    lg_ref_name(b, len, pos, &rn);
    s->nptr += (unsigned)rn.nptr;
    if (rn.cls != LG_REF_OK && rn.cls != LG_REF_LOOSE) {
      s->shape = vh_fnv_u64(s->shape, 0x200 + (unsigned)rn.cls);
      return;
    }
    pos += rn.consumed;
    if (pos + 10 > len) {
      s->shape = vh_fnv_u64(s->shape, 0x300);
      return;
    }
    s->rr_headers++;
    type     = (unsigned)(b[pos] << 8 | b[pos + 1]);
    rdlen    = (size_t)(b[pos + 8] << 8 | b[pos + 9]);
    s->shape = vh_fnv_u64(s->shape, ((uint64_t)sect << 32) | (lg_type_bucket(type) << 8) | lg_len_bucket(rdlen));
    pos += 10 + rdlen;
    if (pos > len) {
      s->shape = vh_fnv_u64(s->shape, 0x400);
      return;
    }
  }
  s->shape = vh_fnv_u64(s->shape, pos == len ? 0x500 : 0x501);
}

/* ---------------------------------------------------------------- legacy parser wrapper */
enum {
  LG_F_A = 0, LG_F_AAAA, LG_F_NS, LG_F_PTR, LG_F_SOA, LG_F_MX, LG_F_SRV, LG_F_NAPTR, LG_F_TXT, LG_F_TXT_EXT,
  LG_F_URI, LG_F_CAA, LG_F_PTR_DNSREC, LG_NFUNCS
};
static const char *const lg_fnames[] = { "a",   "aaaa",    "ns",  "ptr", "soa",       "mx", "srv", "naptr",
                                         "txt", "txt_ext", "uri", "caa", "ptr_dnsrec" };

static char lg_sentinel_obj[8];
#define LG_SENT ((void *)lg_sentinel_obj)

typedef struct {
  /* a / aaaa */
  int host_null; /* pass host == NULL */
  int arr_null;  /* pass addrttls == NULL */
  int n_null;    /* pass naddrttls == NULL */
  int cap;       /* capacity offered (array is allocated at exactly this many elements) */
  /* ptr */
  int         addr_mode; /* 0: v4/4/AF_INET  1: v6/16/AF_INET6  2: NULL/0/AF_INET  3: v4 buffer, addrlen 0  4: NULL/4 */
} lg_opts_t;

typedef struct {
  int                   status;
  struct hostent       *host; /* LG_SENT if untouched */
  void                 *data; /* result list of the ares_free_data family; LG_SENT if untouched */
  struct ares_addrttl  *a4;
  struct ares_addr6ttl *a6;
  void                 *abase;   /* allocation behind a4/a6 (exactly cap elements, ends at the block end) */
  int                   n;       /* *naddrttls after the call */
  uint8_t              *addr;    /* ptr: exact-size copy of the address handed in */
  int                   addrlen;
  int                   family;
} lg_res_t;

static const uint8_t lg_addr4[4]   = { 16, 32, 48, 64 };
static const uint8_t lg_addr16[16] = { 0x20, 0x01, 0x0d, 0xb8, 0, 0, 0, 0, 0, 0, 0, 0, 0, 0, 0, 0x01 };

static int lg_is_hostent_fn(int f)
{
  return f == LG_F_A || f == LG_F_AAAA || f == LG_F_NS || f == LG_F_PTR || f == LG_F_PTR_DNSREC;
}

/* array of exactly `bytes` bytes whose end coincides with the end of the allocation (also for 0) */
static void *lg_exact_array(size_t bytes, void **base)
{
  if (bytes == 0) {
    *base = malloc(16);
    return (char *)*base + 16;
  }
  *base = malloc(bytes);
  return *base;
}

/* call legacy function f on (abuf, alen).  For LG_F_PTR_DNSREC `rec` must be a parsed record. */
static void lg_call_legacy(int f, const unsigned char *abuf, int alen, const ares_dns_record_t *rec,
                           const lg_opts_t *o, lg_res_t *res)
{
  char entry[32];
  memset(res, 0, sizeof(*res));
  res->host = (struct hostent *)LG_SENT;
  res->data = LG_SENT;
  res->n    = o->cap;
  snprintf(entry, sizeof(entry), "%s", lg_fnames[f]);
  switch (f) {
    case LG_F_A:
      if (!o->arr_null) {
        res->a4 = (struct ares_addrttl *)lg_exact_array((size_t)o->cap * sizeof(struct ares_addrttl), &res->abase);
      }
      LG_ENTER("a");
      res->status = ares_parse_a_reply(abuf, alen, o->host_null ? NULL : &res->host, res->a4,
                                       o->n_null ? NULL : &res->n);
      LG_LEAVE();
      break;
    case LG_F_AAAA:
      if (!o->arr_null) {
        res->a6 = (struct ares_addr6ttl *)lg_exact_array((size_t)o->cap * sizeof(struct ares_addr6ttl), &res->abase);
      }
      LG_ENTER("aaaa");
      res->status = ares_parse_aaaa_reply(abuf, alen, o->host_null ? NULL : &res->host, res->a6,
                                          o->n_null ? NULL : &res->n);
      LG_LEAVE();
      break;
    case LG_F_NS:
      LG_ENTER("ns");
      res->status = ares_parse_ns_reply(abuf, alen, &res->host);
      LG_LEAVE();
      break;
    case LG_F_PTR:
    case LG_F_PTR_DNSREC: {
      const uint8_t *src = NULL;
      switch (o->addr_mode) {
        case 0:
          src = lg_addr4, res->addrlen = 4, res->family = AF_INET;
          break;
        case 1:
          src = lg_addr16, res->addrlen = 16, res->family = AF_INET6;
          break;
        case 2:
          src = NULL, res->addrlen = 0, res->family = AF_INET;
          break;
        case 3:
          src = lg_addr4, res->addrlen = 0, res->family = AF_INET;
          break;
        default:
          src = NULL, res->addrlen = 4, res->family = AF_INET;
          break;
      }
      if (src != NULL) {
        size_t n  = o->addr_mode == 3 ? 4 : (size_t)res->addrlen;
        res->addr = (uint8_t *)malloc(n);
        memcpy(res->addr, src, n);
      }
      if (f == LG_F_PTR) {
        LG_ENTER("ptr");
        res->status = ares_parse_ptr_reply(abuf, alen, res->addr, res->addrlen, res->family, &res->host);
      } else {
        LG_ENTER("ptr_dnsrec");
        res->status = (int)ares_parse_ptr_reply_dnsrec(rec, res->addr, res->addrlen, res->family, &res->host);
      }
      LG_LEAVE();
      break;
    }
    case LG_F_SOA:
      LG_ENTER("soa");
      res->status = ares_parse_soa_reply(abuf, alen, (struct ares_soa_reply **)&res->data);
      LG_LEAVE();
      break;
    case LG_F_MX:
      LG_ENTER("mx");
      res->status = ares_parse_mx_reply(abuf, alen, (struct ares_mx_reply **)&res->data);
      LG_LEAVE();
      break;
    case LG_F_SRV:
      LG_ENTER("srv");
      res->status = ares_parse_srv_reply(abuf, alen, (struct ares_srv_reply **)&res->data);
      LG_LEAVE();
      break;
    case LG_F_NAPTR:
      LG_ENTER("naptr");
      res->status = ares_parse_naptr_reply(abuf, alen, (struct ares_naptr_reply **)&res->data);
      LG_LEAVE();
      break;
    case LG_F_TXT:
      LG_ENTER("txt");
      res->status = ares_parse_txt_reply(abuf, alen, (struct ares_txt_reply **)&res->data);
      LG_LEAVE();
      break;
    case LG_F_TXT_EXT:
      LG_ENTER("txt_ext");
      res->status = ares_parse_txt_reply_ext(abuf, alen, (struct ares_txt_ext **)&res->data);
      LG_LEAVE();
      break;
    case LG_F_URI:
      LG_ENTER("uri");
      res->status = ares_parse_uri_reply(abuf, alen, (struct ares_uri_reply **)&res->data);
      LG_LEAVE();
      break;
    default:
      LG_ENTER("caa");
      res->status = ares_parse_caa_reply(abuf, alen, (struct ares_caa_reply **)&res->data);
      LG_LEAVE();
      break;
  }
}

/* release whatever the call produced with the matching free function */
static void lg_res_free(lg_res_t *res)
{
  if (res->host != NULL && res->host != (struct hostent *)LG_SENT) {
    LG_ENTER("free_hostent");
    ares_free_hostent(res->host);
    LG_LEAVE();
  }
  if (res->data != NULL && res->data != LG_SENT) {
    LG_ENTER("free_data");
    ares_free_data(res->data);
    LG_LEAVE();
  }
  res->host = NULL;
  res->data = NULL;
  free(res->abase);
  free(res->addr);
  res->abase = NULL;
  res->a4   = NULL;
  res->a6   = NULL;
  res->addr = NULL;
}

/* Generic post-conditions of a legacy call (C02: success => fully formed result, failure => no
 * result; never more than `cap` addrttls).  Returns 1 if the result may be walked. */
static int lg_res_postcond(int f, const lg_opts_t *o, const lg_res_t *res, const uint8_t *d, size_t len)
{
  const char *fn   = lg_fnames[f];
  int         isht = lg_is_hostent_fn(f);
  int         ok   = 1;
  if (res->status == ARES_SUCCESS) {
    if (isht) {
      int want_host = !((f == LG_F_A || f == LG_F_AAAA) && o->host_null);
      if (want_host && (res->host == NULL || res->host == (struct hostent *)LG_SENT)) {
        lg_report(fn, "success-no-result", d, len, "returned ARES_SUCCESS but *host is %s",
                  res->host == NULL ? "NULL" : "untouched");
        ok = 0;
      }
    } else {
      if (res->data == LG_SENT) {
        lg_report(fn, "success-no-result", d, len, "returned ARES_SUCCESS but the out pointer was not written");
        ok = 0;
      } else if (f == LG_F_SOA && res->data == NULL) {
        lg_report(fn, "success-no-result", d, len, "returned ARES_SUCCESS with a NULL soa");
        ok = 0;
      }
    }
  } else {
    if (isht && res->host != NULL && res->host != (struct hostent *)LG_SENT) {
      lg_report(fn, "failure-with-result", d, len, "returned %d (%s) but left a hostent in *host", res->status,
                ares_strerror(res->status));
      ok = 0;
    }
    if (!isht && res->data != NULL && res->data != LG_SENT) {
      lg_report(fn, "failure-with-result", d, len, "returned %d (%s) but left a result in the out pointer",
                res->status, ares_strerror(res->status));
      ok = 0;
    }
  }
  if ((f == LG_F_A || f == LG_F_AAAA) && !o->n_null) {
    if (res->n < 0 || res->n > o->cap) {
      lg_report(fn, "naddrttls-over-capacity", d, len, "*naddrttls=%d on return, capacity offered %d (status %d)",
                res->n, o->cap, res->status);
      ok = 0;
    }
  }
  return ok;
}

/* walk a hostent touching everything reachable; returns 0 if it is not well formed */
static int lg_walk_hostent(const char *fn, const struct hostent *h, const uint8_t *d, size_t len)
{
  int i;
  if (h->h_name == NULL || h->h_aliases == NULL || h->h_addr_list == NULL) {
    lg_report(fn, "hostent-incomplete", d, len, "h_name=%p h_aliases=%p h_addr_list=%p", (void *)h->h_name,
              (void *)h->h_aliases, (void *)h->h_addr_list);
    return 0;
  }
  lg_touch_str(h->h_name);
  for (i = 0; h->h_aliases[i] != NULL; i++) {
    lg_touch_str(h->h_aliases[i]);
  }
  for (i = 0; h->h_addr_list[i] != NULL; i++) {
    if (h->h_length > 0) {
      lg_touch(h->h_addr_list[i], (size_t)h->h_length);
    }
  }
  return 1;
}

/* walk a result list of the ares_free_data family */
static void lg_walk_data(int f, const void *data)
{
  switch (f) {
    case LG_F_SOA: {
      const struct ares_soa_reply *s = (const struct ares_soa_reply *)data;
      if (s->nsname) {
        lg_touch_str(s->nsname);
      }
      if (s->hostmaster) {
        lg_touch_str(s->hostmaster);
      }
      lg_sink += s->serial + s->refresh + s->retry + s->expire + s->minttl;
      break;
    }
    case LG_F_MX: {
      const struct ares_mx_reply *p;
      for (p = (const struct ares_mx_reply *)data; p; p = p->next) {
        if (p->host) {
          lg_touch_str(p->host);
        }
        lg_sink += p->priority;
      }
      break;
    }
    case LG_F_SRV: {
      const struct ares_srv_reply *p;
      for (p = (const struct ares_srv_reply *)data; p; p = p->next) {
        if (p->host) {
          lg_touch_str(p->host);
        }
        lg_sink += (unsigned)p->priority + p->weight + p->port;
      }
      break;
    }
    case LG_F_NAPTR: {
      const struct ares_naptr_reply *p;
      for (p = (const struct ares_naptr_reply *)data; p; p = p->next) {
        if (p->flags) {
          lg_touch_str((const char *)p->flags);
        }
        if (p->service) {
          lg_touch_str((const char *)p->service);
        }
        if (p->regexp) {
          lg_touch_str((const char *)p->regexp);
        }
        if (p->replacement) {
          lg_touch_str(p->replacement);
        }
        lg_sink += (unsigned)p->order + p->preference;
      }
      break;
    }
    case LG_F_TXT: {
      const struct ares_txt_reply *p;
      for (p = (const struct ares_txt_reply *)data; p; p = p->next) {
        if (p->txt) {
          lg_touch(p->txt, p->length + 1);
        }
      }
      break;
    }
    case LG_F_TXT_EXT: {
      const struct ares_txt_ext *p;
      for (p = (const struct ares_txt_ext *)data; p; p = p->next) {
        if (p->txt) {
          lg_touch(p->txt, p->length + 1);
        }
        lg_sink += p->record_start;
      }
      break;
    }
    case LG_F_URI: {
      const struct ares_uri_reply *p;
      for (p = (const struct ares_uri_reply *)data; p; p = p->next) {
        if (p->uri) {
          lg_touch_str(p->uri);
        }
        lg_sink += (unsigned)p->priority + p->weight + (unsigned)p->ttl;
      }
      break;
    }
    case LG_F_CAA: {
      const struct ares_caa_reply *p;
      for (p = (const struct ares_caa_reply *)data; p; p = p->next) {
        if (p->property) {
          lg_touch(p->property, p->plength + 1);
        }
        if (p->value) {
          lg_touch(p->value, p->length + 1);
        }
        lg_sink += (unsigned)p->critical;
      }
      break;
    }
    default:
      break;
  }
}

static int lg_status_is_malformed(int st)
{
  return st == ARES_EBADRESP || st == ARES_EBADNAME || st == ARES_EFORMERR || st == ARES_EBADSTR;
}

#endif
