/* lg_legacy.h - property C18: each legacy reply parser against the record API.
 *
 * For message M the record parser (ares_dns_parse, flags 0) is the authority on "malformed"; when
 * it accepts M, the expected (status, output) of every legacy function is the projection of the
 * ANSWER section, read through the public getters, according to the contract table below.
 * Each row was checked against the man page, the source and the pinned test-suite; where they
 * differ the suite wins.
 *
 *  f            class    selects            ancount==0  none selected       notes
 *  a / aaaa     IN       A / AAAA           ENODATA     ENODATA, but        hostent: addrs in answer order, aliases = owner
 *                        (+CNAME tracked)               SUCCESS if an IN    names of the IN CNAMEs in order, h_name =
 *                                                       CNAME is present    question name without CNAME, else the name after
 *                                                       (ParseAReplyJust-   following the aliases; addrttl: first
 *                                                       Cname)              min(cap,n) addresses, ttl = min(own, CNAME ttls)
 *  ns           IN       NS                 ENODATA     ENODATA             h_name = question name, aliases = NSDNAMEs
 *  ptr          IN       PTR                ENODATA     ENODATA             aliases = PTR targets in order, h_name one of
 *                                                                           them (first or last), caller's address copied
 *  soa          IN       first SOA          EBADRESP    EBADRESP            both pinned (ParseSoaReplyErrors)
 *  mx srv       IN       own type           ENODATA     SUCCESS, NULL list  pinned ("Wrong sort of answer")
 *  naptr uri
 *  txt txt_ext  IN, CH   TXT, one element   ENODATA     SUCCESS/NULL list   not pinned, man page ambiguous: ENODATA is
 *                        per chunk                      (or ENODATA)        accepted as well; record_start on chunk 0
 *  caa          IN, CH   CAA                ENODATA     SUCCESS/NULL list   same
 *                                                       (or ENODATA)
 */
#ifndef LG_LEGACY_H
#define LG_LEGACY_H

#include <strings.h>

#define LG_MAXSEL 4096

static uint64_t lg_c_leg_calls, lg_c_leg_compared, lg_c_leg_elems, lg_c_leg_nontrivial, lg_c_leg_parse_ok,
  lg_c_leg_parse_rej, lg_c_leg_status[4], lg_c_leg_cap_limited, lg_c_leg_ttl_capped, lg_c_leg_chain2;
static uint64_t lg_c_leg_perfn_nt[LG_NFUNCS];

static void lg_legacy_flush_counters(void)
{
  int i;
  vh_count_n("legacy_calls", lg_c_leg_calls);
  vh_count_n("legacy_compared_with_record_api", lg_c_leg_compared);
  vh_count_n("legacy_elements_compared", lg_c_leg_elems);
  vh_count_n("legacy_nontrivial_calls", lg_c_leg_nontrivial);
  vh_count_n("messages_parser_accepted", lg_c_leg_parse_ok);
  vh_count_n("messages_parser_rejected", lg_c_leg_parse_rej);
  vh_count_n("legacy_status_success", lg_c_leg_status[0]);
  vh_count_n("legacy_status_nodata", lg_c_leg_status[1]);
  vh_count_n("legacy_status_malformed", lg_c_leg_status[2]);
  vh_count_n("legacy_status_other", lg_c_leg_status[3]);
  vh_count_n("addrttl_capacity_limited", lg_c_leg_cap_limited);
  vh_count_n("addrttl_ttl_capped_by_cname", lg_c_leg_ttl_capped);
  vh_count_n("cname_chain_ge2", lg_c_leg_chain2);
  for (i = 0; i < LG_NFUNCS; i++) {
    char nm[48];
    snprintf(nm, sizeof(nm), "nontrivial_%s", lg_fnames[i]);
    vh_count_n(nm, lg_c_leg_perfn_nt[i]);
  }
}

typedef struct {
  const ares_dns_rr_t *rr;
  size_t               sub; /* chunk index for txt */
} lg_sel_t;

typedef struct {
  const ares_dns_record_t *rec;
  const char              *qname;
  size_t                   an;
  /* per call */
  lg_sel_t sel[LG_MAXSEL];
  size_t   nsel;
  int      overflow;
  const ares_dns_rr_t *cn[LG_MAXSEL];
  size_t               ncn;
  int                  chain_ok;
  size_t               n_other_family;
  int                  has_other_class;
} lg_proj_t;

static int lg_class_ok(int f, ares_dns_class_t c)
{
  if (c == ARES_CLASS_IN) {
    return 1;
  }
  if ((f == LG_F_TXT || f == LG_F_TXT_EXT || f == LG_F_CAA) && c == ARES_CLASS_CHAOS) {
    return 1;
  }
  return 0;
}

static ares_dns_rec_type_t lg_fn_type(int f)
{
  switch (f) {
    case LG_F_A:
      return ARES_REC_TYPE_A;
    case LG_F_AAAA:
      return ARES_REC_TYPE_AAAA;
    case LG_F_NS:
      return ARES_REC_TYPE_NS;
    case LG_F_PTR:
    case LG_F_PTR_DNSREC:
      return ARES_REC_TYPE_PTR;
    case LG_F_SOA:
      return ARES_REC_TYPE_SOA;
    case LG_F_MX:
      return ARES_REC_TYPE_MX;
    case LG_F_SRV:
      return ARES_REC_TYPE_SRV;
    case LG_F_NAPTR:
      return ARES_REC_TYPE_NAPTR;
    case LG_F_TXT:
    case LG_F_TXT_EXT:
      return ARES_REC_TYPE_TXT;
    case LG_F_URI:
      return ARES_REC_TYPE_URI;
    default:
      return ARES_REC_TYPE_CAA;
  }
}

/* projection of the answer section onto function f */
static void lg_project(lg_proj_t *pj, int f)
{
  size_t              i;
  ares_dns_rec_type_t want = lg_fn_type(f);
  pj->nsel                 = 0;
  pj->overflow             = 0;
  pj->ncn                  = 0;
  pj->chain_ok             = 1;
  pj->n_other_family       = 0;
  pj->has_other_class      = 0;
  for (i = 0; i < pj->an; i++) {
    const ares_dns_rr_t *rr = ares_dns_record_rr_get_const(pj->rec, ARES_SECTION_ANSWER, i);
    ares_dns_rec_type_t  t;
    if (rr == NULL) {
      continue;
    }
    t = ares_dns_rr_get_type(rr);
    if (!lg_class_ok(f, ares_dns_rr_get_class(rr))) {
      if (t == want) {
        pj->has_other_class = 1;
      }
      continue;
    }
    if (t == ARES_REC_TYPE_CNAME && ares_dns_rr_get_class(rr) == ARES_CLASS_IN) {
      if (pj->ncn < LG_MAXSEL) {
        if (pj->ncn > 0) {
          const char *prev = ares_dns_rr_get_str(pj->cn[pj->ncn - 1], ARES_RR_CNAME_CNAME);
          const char *own  = ares_dns_rr_get_name(rr);
          if (prev == NULL || own == NULL || strcasecmp(prev, own) != 0) {
            pj->chain_ok = 0;
          }
        }
        pj->cn[pj->ncn++] = rr;
      } else {
        pj->chain_ok = 0;
        pj->overflow = 1;
      }
    }
    if ((f == LG_F_A && t == ARES_REC_TYPE_AAAA) || (f == LG_F_AAAA && t == ARES_REC_TYPE_A)) {
      pj->n_other_family++;
    }
    if (t != want) {
      continue;
    }
    if (f == LG_F_TXT || f == LG_F_TXT_EXT) {
      size_t cnt = ares_dns_rr_get_abin_cnt(rr, ARES_RR_TXT_DATA);
      size_t j;
      for (j = 0; j < cnt; j++) {
        if (pj->nsel < LG_MAXSEL) {
          pj->sel[pj->nsel].rr  = rr;
          pj->sel[pj->nsel].sub = j;
          pj->nsel++;
        } else {
          pj->overflow = 1;
        }
      }
    } else if (pj->nsel < LG_MAXSEL) {
      pj->sel[pj->nsel].rr  = rr;
      pj->sel[pj->nsel].sub = 0;
      pj->nsel++;
    } else {
      pj->overflow = 1;
    }
  }
}

static int lg_streq(const char *a, const char *b)
{
  if (a == NULL || b == NULL) {
    return a == b;
  }
  return strcmp(a, b) == 0;
}

/* ---- element comparators: NULL if equal, else the name of the first field that differs ---- */
static const char *lg_eq_elem(int f, const void *e, const lg_sel_t *s)
{
  const ares_dns_rr_t *rr = s->rr;
  switch (f) {
    case LG_F_MX: {
      const struct ares_mx_reply *m = (const struct ares_mx_reply *)e;
      if (m->priority != ares_dns_rr_get_u16(rr, ARES_RR_MX_PREFERENCE)) {
        return "priority";
      }
      if (!lg_streq(m->host, ares_dns_rr_get_str(rr, ARES_RR_MX_EXCHANGE))) {
        return "host";
      }
      return NULL;
    }
    case LG_F_SRV: {
      const struct ares_srv_reply *m = (const struct ares_srv_reply *)e;
      if (m->priority != ares_dns_rr_get_u16(rr, ARES_RR_SRV_PRIORITY)) {
        return "priority";
      }
      if (m->weight != ares_dns_rr_get_u16(rr, ARES_RR_SRV_WEIGHT)) {
        return "weight";
      }
      if (m->port != ares_dns_rr_get_u16(rr, ARES_RR_SRV_PORT)) {
        return "port";
      }
      if (!lg_streq(m->host, ares_dns_rr_get_str(rr, ARES_RR_SRV_TARGET))) {
        return "host";
      }
      return NULL;
    }
    case LG_F_NAPTR: {
      const struct ares_naptr_reply *m = (const struct ares_naptr_reply *)e;
      if (m->order != ares_dns_rr_get_u16(rr, ARES_RR_NAPTR_ORDER)) {
        return "naptr-order";
      }
      if (m->preference != ares_dns_rr_get_u16(rr, ARES_RR_NAPTR_PREFERENCE)) {
        return "preference";
      }
      if (!lg_streq((const char *)m->flags, ares_dns_rr_get_str(rr, ARES_RR_NAPTR_FLAGS))) {
        return "flags";
      }
      if (!lg_streq((const char *)m->service, ares_dns_rr_get_str(rr, ARES_RR_NAPTR_SERVICES))) {
        return "service";
      }
      if (!lg_streq((const char *)m->regexp, ares_dns_rr_get_str(rr, ARES_RR_NAPTR_REGEXP))) {
        return "regexp";
      }
      if (!lg_streq(m->replacement, ares_dns_rr_get_str(rr, ARES_RR_NAPTR_REPLACEMENT))) {
        return "replacement";
      }
      return NULL;
    }
    case LG_F_URI: {
      const struct ares_uri_reply *m = (const struct ares_uri_reply *)e;
      if (m->priority != ares_dns_rr_get_u16(rr, ARES_RR_URI_PRIORITY)) {
        return "priority";
      }
      if (m->weight != ares_dns_rr_get_u16(rr, ARES_RR_URI_WEIGHT)) {
        return "weight";
      }
      if (!lg_streq(m->uri, ares_dns_rr_get_str(rr, ARES_RR_URI_TARGET))) {
        return "uri";
      }
      {
        unsigned int t = ares_dns_rr_get_ttl(rr);
        /* int field: a TTL with the top bit set comes out as the largest int or as 0 (RFC 2181), never negative */
        if (t <= 0x7fffffffu ? m->ttl != (int)t : (m->ttl != 0x7fffffff && m->ttl != 0)) {
          return "ttl";
        }
      }
      return NULL;
    }
    case LG_F_TXT:
    case LG_F_TXT_EXT: {
      /* struct ares_txt_ext is a superset of struct ares_txt_reply */
      const struct ares_txt_reply *m  = (const struct ares_txt_reply *)e;
      size_t                       l  = 0;
      const unsigned char         *ch = ares_dns_rr_get_abin(rr, ARES_RR_TXT_DATA, s->sub, &l);
      if (m->txt == NULL || ch == NULL) {
        return "chunk";
      }
      if (m->length != l) {
        return "chunk-length";
      }
      if (memcmp(m->txt, ch, l) != 0 || m->txt[l] != 0) {
        return "chunk";
      }
      if (f == LG_F_TXT_EXT) {
        const struct ares_txt_ext *x = (const struct ares_txt_ext *)e;
        if (x->record_start != (s->sub == 0 ? 1 : 0)) {
          return "record_start";
        }
      }
      return NULL;
    }
    case LG_F_CAA: {
      const struct ares_caa_reply *m   = (const struct ares_caa_reply *)e;
      const char                  *tag = ares_dns_rr_get_str(rr, ARES_RR_CAA_TAG);
      size_t                       l   = 0;
      const unsigned char         *val = ares_dns_rr_get_bin(rr, ARES_RR_CAA_VALUE, &l);
      if (m->critical != (int)ares_dns_rr_get_u8(rr, ARES_RR_CAA_CRITICAL)) {
        return "critical";
      }
      if (tag == NULL || m->property == NULL || m->plength != strlen(tag) ||
          memcmp(m->property, tag, m->plength + 1) != 0) {
        return "tag";
      }
      if (val == NULL || m->value == NULL || m->length != l) {
        return "value-length";
      }
      if (memcmp(m->value, val, l) != 0 || m->value[l] != 0) {
        return "value";
      }
      return NULL;
    }
    default:
      return "?";
  }
}

/* returns 1 if the list equals the projection */
static int lg_cmp_list(int f, const lg_proj_t *pj, const void *list, const uint8_t *d, size_t len)
{
  const char *fn = lg_fnames[f];
  const void *e  = list;
  size_t      i  = 0;
  for (; e != NULL; e = *(void *const *)e, i++) {
    const char *diff;
    if (i >= pj->nsel) {
      lg_report(fn, "count", d, len, "list has more than the %zu element(s) the record API reports", pj->nsel);
      return 0;
    }
    lg_c_leg_elems++;
    diff = lg_eq_elem(f, e, &pj->sel[i]);
    if (diff != NULL) {
      size_t j;
      for (j = 0; j < pj->nsel; j++) {
        if (j != i && lg_eq_elem(f, e, &pj->sel[j]) == NULL) {
          lg_report(fn, "order", d, len, "element %zu equals record-API element %zu: not in answer order", i, j);
          return 0;
        }
      }
      lg_report(fn, diff, d, len, "element %zu of %zu: field '%s' differs from the record API", i, pj->nsel, diff);
      return 0;
    }
  }
  if (i != pj->nsel) {
    lg_report(fn, "count", d, len, "list has %zu element(s), the record API reports %zu", i, pj->nsel);
    return 0;
  }
  return 1;
}

/* string vector comparison (h_aliases) */
static void lg_cmp_strvec(const char *fn, const char *what, char *const *got, const char *const *want, size_t nwant,
                          const uint8_t *d, size_t len)
{
  size_t n = 0;
  size_t i;
  while (got[n] != NULL) {
    n++;
  }
  if (n != nwant) {
    char rule[40];
    snprintf(rule, sizeof(rule), "%s-count", what);
    lg_report(fn, rule, d, len, "%zu %s(es), the record API gives %zu", n, what, nwant);
    return;
  }
  for (i = 0; i < n; i++) {
    if (!lg_streq(got[i], want[i])) {
      size_t j;
      for (j = 0; j < n; j++) {
        if (j != i && lg_streq(got[i], want[j])) {
          lg_report(fn, "order", d, len, "%s %zu \"%.60s\" is record-API element %zu: not in answer order", what, i,
                    got[i], j);
          return;
        }
      }
      lg_report(fn, what, d, len, "%s %zu is \"%.60s\", the record API gives \"%.60s\"", what, i, got[i],
                want[i] ? want[i] : "(null)");
      return;
    }
  }
}

static int lg_ttl_ok(int got, unsigned int own, const lg_proj_t *pj)
{
  /* min(own TTL, TTLs of the IN CNAMEs) - test/ares-test-parse-a.cc "TTL is reduced to match CNAME's".  The legacy
   * field is an int: a TTL with the top bit set cannot be reported as it is; it may come out as the largest int
   * (a very long time) or as 0 (RFC 2181 section 8), never as a negative number, and it must not drag the TTLs of
   * other records below their own values.  If the CNAMEs do not form a chain, anything between the overall
   * minimum and the record's own TTL is accepted. */
  long long cmin, zmin, cown, zown;
  size_t    i;
  if (got < 0) {
    return 0;
  }
  cown = own > 0x7fffffffu ? 0x7fffffff : (long long)own;
  zown = own > 0x7fffffffu ? 0 : (long long)own;
  cmin = cown;
  zmin = zown;
  for (i = 0; i < pj->ncn; i++) {
    unsigned  t = ares_dns_rr_get_ttl(pj->cn[i]);
    long long c = t > 0x7fffffffu ? 0x7fffffff : (long long)t;
    long long z = t > 0x7fffffffu ? 0 : (long long)t;
    if (c < cmin) {
      cmin = c;
    }
    if (z < zmin) {
      zmin = z;
    }
  }
  if (got == cmin || got == zmin) {
    return 1;
  }
  if (!pj->chain_ok && got >= (cmin < zmin ? cmin : zmin) && got <= cown) {
    return 1;
  }
  return 0;
}

static void lg_cmp_addr_reply(int f, const lg_proj_t *pj, const lg_opts_t *o, const lg_res_t *res, const uint8_t *d,
                              size_t len)
{
  const char *fn    = lg_fnames[f];
  int         fam   = f == LG_F_A ? AF_INET : AF_INET6;
  size_t      alen  = f == LG_F_A ? 4 : 16;
  size_t      i;
  if (!o->host_null && res->host != NULL && res->host != (struct hostent *)LG_SENT) {
    const struct hostent *h = res->host;
    const char           *want_al[LG_MAXSEL];
    size_t                n = 0;
    if (!lg_walk_hostent(fn, h, d, len)) {
      return;
    }
    if (h->h_addrtype != fam || h->h_length != (int)alen) {
      lg_report(fn, "family", d, len, "h_addrtype %d h_length %d", h->h_addrtype, h->h_length);
      return;
    }
    while (h->h_addr_list[n] != NULL) {
      n++;
    }
    if (n != pj->nsel) {
      lg_report(fn, "addr-count", d, len, "hostent has %zu address(es), the record API reports %zu", n, pj->nsel);
    } else {
      for (i = 0; i < n; i++) {
        const void *want = f == LG_F_A ? (const void *)ares_dns_rr_get_addr(pj->sel[i].rr, ARES_RR_A_ADDR)
                                       : (const void *)ares_dns_rr_get_addr6(pj->sel[i].rr, ARES_RR_AAAA_ADDR);
        lg_c_leg_elems++;
        if (want == NULL || memcmp(h->h_addr_list[i], want, alen) != 0) {
          size_t j;
          for (j = 0; j < n; j++) {
            const void *w2 = f == LG_F_A ? (const void *)ares_dns_rr_get_addr(pj->sel[j].rr, ARES_RR_A_ADDR)
                                         : (const void *)ares_dns_rr_get_addr6(pj->sel[j].rr, ARES_RR_AAAA_ADDR);
            if (j != i && w2 != NULL && memcmp(h->h_addr_list[i], w2, alen) == 0) {
              lg_report(fn, "order", d, len, "hostent address %zu is record-API address %zu", i, j);
              return;
            }
          }
          lg_report(fn, "addr", d, len, "hostent address %zu differs from the record API", i);
          return;
        }
      }
    }
    for (i = 0; i < pj->ncn; i++) {
      want_al[i] = ares_dns_rr_get_name(pj->cn[i]);
    }
    lg_cmp_strvec(fn, "alias", h->h_aliases, want_al, pj->ncn, d, len);
    if (pj->ncn == 0) {
      if (!lg_streq(h->h_name, pj->qname)) {
        lg_report(fn, "name", d, len, "h_name \"%.80s\", question name \"%.80s\"", h->h_name, pj->qname);
      }
    } else if (pj->chain_ok) {
      const char *want = ares_dns_rr_get_str(pj->cn[pj->ncn - 1], ARES_RR_CNAME_CNAME);
      if (pj->ncn >= 2) {
        lg_c_leg_chain2++;
      }
      if (!lg_streq(h->h_name, want)) {
        lg_report(fn, pj->ncn >= 2 ? "name-after-alias-chain" : "name", d, len,
                  "h_name \"%.80s\" but following the %zu CNAMEs from \"%.60s\" ends at \"%.80s\"", h->h_name, pj->ncn,
                  pj->qname, want ? want : "(null)");
      }
    } else {
      int hit = 0;
      for (i = 0; i < pj->ncn; i++) {
        if (lg_streq(h->h_name, ares_dns_rr_get_str(pj->cn[i], ARES_RR_CNAME_CNAME))) {
          hit = 1;
        }
      }
      if (!hit) {
        lg_report(fn, "name", d, len, "h_name \"%.80s\" is not the target of any CNAME in the answer", h->h_name);
      }
    }
  }
  if (!o->arr_null && !o->n_null) {
    size_t want_n = pj->nsel < (size_t)o->cap ? pj->nsel : (size_t)o->cap;
    if (want_n < pj->nsel) {
      lg_c_leg_cap_limited++;
    }
    if ((size_t)res->n != want_n) {
      lg_report(fn, "count", d, len, "*naddrttls=%d, expected min(capacity %d, %zu address records)=%zu", res->n,
                o->cap, pj->nsel, want_n);
      return;
    }
    for (i = 0; i < want_n; i++) {
      unsigned own = ares_dns_rr_get_ttl(pj->sel[i].rr);
      int      got_ttl;
      lg_c_leg_elems++;
      if (f == LG_F_A) {
        const struct in_addr *want = ares_dns_rr_get_addr(pj->sel[i].rr, ARES_RR_A_ADDR);
        got_ttl                    = res->a4[i].ttl;
        if (want == NULL || memcmp(&res->a4[i].ipaddr, want, 4) != 0) {
          lg_report(fn, "addr", d, len, "addrttl %zu address differs from the record API", i);
          return;
        }
      } else {
        const struct ares_in6_addr *want = ares_dns_rr_get_addr6(pj->sel[i].rr, ARES_RR_AAAA_ADDR);
        got_ttl                          = res->a6[i].ttl;
        if (want == NULL || memcmp(&res->a6[i].ip6addr, want, 16) != 0) {
          lg_report(fn, "addr", d, len, "addrttl %zu address differs from the record API", i);
          return;
        }
      }
      if (got_ttl != (int)own) {
        lg_c_leg_ttl_capped++;
      }
      if (!lg_ttl_ok(got_ttl, own, pj)) {
        lg_report(fn, "ttl", d, len, "addrttl %zu ttl %d, record TTL %u with %zu CNAME(s)", i, got_ttl, own, pj->ncn);
        return;
      }
    }
  }
}

/* one legacy call compared with the record API; rec == NULL when the record parser rejected M */
static void lg_legacy_check(int f, const uint8_t *data, size_t len, const ares_dns_record_t *rec, lg_proj_t *pj,
                            const lg_opts_t *o)
{
  const char *fn = lg_fnames[f];
  lg_in_t     in = lg_in_make(data, len);
  lg_res_t    res;
  int         exp_status  = ARES_SUCCESS;
  int         alt_status  = -1; /* second acceptable status, if any */
  int         walk;
  long        l0 = lg_live;

  lg_c_leg_calls++;
  lg_call_legacy(f, in.p, (int)len, rec, o, &res);
  if (res.status == ARES_SUCCESS) {
    lg_c_leg_status[0]++;
  } else if (res.status == ARES_ENODATA) {
    lg_c_leg_status[1]++;
  } else if (lg_status_is_malformed(res.status)) {
    lg_c_leg_status[2]++;
  } else {
    lg_c_leg_status[3]++;
  }
  walk = lg_res_postcond(f, o, &res, data, len);

  if (res.status == ARES_ENOMEM) {
    /* cannot decide */
  } else if (rec == NULL) {
    if (!lg_status_is_malformed(res.status)) {
      char key[64];
      snprintf(key, sizeof(key), "leg:any:status-mismatch:%s", fn);
      lg_violation(key, "%s: record parser rejects the message but the legacy parser returned %d (%s) [len=%zu bytes=%s]",
                   fn, res.status, ares_strerror(res.status), len, lg_hex(data, len));
    }
  } else {
    lg_project(pj, f);
    /* expected status */
    switch (f) {
      case LG_F_A:
      case LG_F_AAAA:
        if (pj->an == 0 || (pj->nsel == 0 && pj->ncn == 0)) {
          exp_status = ARES_ENODATA;
        }
        break;
      case LG_F_NS:
      case LG_F_PTR:
      case LG_F_PTR_DNSREC:
        if (pj->an == 0 || pj->nsel == 0) {
          exp_status = ARES_ENODATA;
        }
        break;
      case LG_F_SOA:
        if (pj->an == 0 || pj->nsel == 0) {
          exp_status = ARES_EBADRESP;
        }
        break;
      case LG_F_TXT:
      case LG_F_TXT_EXT:
      case LG_F_CAA:
        if (pj->an == 0) {
          exp_status = ARES_ENODATA;
        } else if (pj->nsel == 0) {
          alt_status = ARES_ENODATA;
        }
        break;
      default:
        if (pj->an == 0) {
          exp_status = ARES_ENODATA;
        }
        break;
    }
    if (lg_status_is_malformed(res.status) && !(f == LG_F_SOA && exp_status == ARES_EBADRESP)) {
      char key[64];
      snprintf(key, sizeof(key), "leg:any:status-mismatch:%s", fn);
      lg_violation(key,
                   "%s: record parser accepts the message (%zu answers, %zu of this type) but the legacy parser "
                   "returned %d (%s) [len=%zu bytes=%s]",
                   fn, pj->an, pj->nsel, res.status, ares_strerror(res.status), len, lg_hex(data, len));
    } else if (res.status != exp_status && res.status != alt_status) {
      if ((f == LG_F_A || f == LG_F_AAAA) && res.status == ARES_SUCCESS && exp_status == ARES_ENODATA &&
          pj->an > 0 && pj->n_other_family > 0 && o->host_null) {
        lg_report(fn, "status-other-family-no-host", data, len,
                  "ARES_SUCCESS although the answer holds no record of this family and no CNAME (host == NULL); "
                  "the same message with host != NULL gives ARES_ENODATA");
      } else {
        lg_report(fn, "status", data, len, "returned %d (%s), expected %d (%s): %zu answers, %zu selected, %zu CNAMEs",
                  res.status, ares_strerror(res.status), exp_status, ares_strerror(exp_status), pj->an, pj->nsel,
                  pj->ncn);
      }
    } else if (walk && !pj->overflow) {
      lg_c_leg_compared++;
      if (res.status == ARES_SUCCESS) {
        switch (f) {
          case LG_F_A:
          case LG_F_AAAA:
            lg_cmp_addr_reply(f, pj, o, &res, data, len);
            break;
          case LG_F_NS:
          case LG_F_PTR:
          case LG_F_PTR_DNSREC: {
            const struct hostent *h = res.host;
            const char           *want[LG_MAXSEL];
            size_t                i;
            if (!lg_walk_hostent(fn, h, data, len)) {
              break;
            }
            for (i = 0; i < pj->nsel; i++) {
              want[i] = ares_dns_rr_get_str(pj->sel[i].rr, f == LG_F_NS ? ARES_RR_NS_NSDNAME : ARES_RR_PTR_DNAME);
            }
            lg_c_leg_elems += pj->nsel;
            lg_cmp_strvec(fn, "alias", h->h_aliases, want, pj->nsel, data, len);
            if (f == LG_F_NS) {
              if (!lg_streq(h->h_name, pj->qname)) {
                lg_report(fn, "name", data, len, "h_name \"%.80s\", question name \"%.80s\"", h->h_name, pj->qname);
              }
              if (h->h_addr_list[0] != NULL) {
                lg_report(fn, "addr", data, len, "address list of an NS reply is not empty");
              }
            } else {
              if (!lg_streq(h->h_name, want[0]) && !lg_streq(h->h_name, want[pj->nsel - 1])) {
                lg_report(fn, "name", data, len, "h_name \"%.80s\" is neither the first nor the last PTR target",
                          h->h_name);
              }
              if (h->h_addrtype != res.family || h->h_length != res.addrlen) {
                lg_report(fn, "family", data, len, "h_addrtype %d h_length %d, caller passed family %d addrlen %d",
                          h->h_addrtype, h->h_length, res.family, res.addrlen);
              }
              if (res.addr != NULL && res.addrlen > 0) {
                if (h->h_addr_list[0] == NULL || memcmp(h->h_addr_list[0], res.addr, (size_t)res.addrlen) != 0 ||
                    h->h_addr_list[1] != NULL) {
                  lg_report(fn, "addr", data, len, "caller's address not copied as the only h_addr_list entry");
                }
              } else if (h->h_addr_list[0] != NULL) {
                lg_report(fn, "addr", data, len, "address list not empty although no address was passed");
              }
            }
            break;
          }
          case LG_F_SOA: {
            const struct ares_soa_reply *s  = (const struct ares_soa_reply *)res.data;
            const ares_dns_rr_t         *rr = pj->sel[0].rr;
            lg_c_leg_elems++;
            if (!lg_streq(s->nsname, ares_dns_rr_get_str(rr, ARES_RR_SOA_MNAME))) {
              lg_report(fn, "nsname", data, len, "nsname \"%.80s\"", s->nsname ? s->nsname : "(null)");
            } else if (!lg_streq(s->hostmaster, ares_dns_rr_get_str(rr, ARES_RR_SOA_RNAME))) {
              lg_report(fn, "hostmaster", data, len, "hostmaster \"%.80s\"", s->hostmaster ? s->hostmaster : "(null)");
            } else if (s->serial != ares_dns_rr_get_u32(rr, ARES_RR_SOA_SERIAL) ||
                       s->refresh != ares_dns_rr_get_u32(rr, ARES_RR_SOA_REFRESH) ||
                       s->retry != ares_dns_rr_get_u32(rr, ARES_RR_SOA_RETRY) ||
                       s->expire != ares_dns_rr_get_u32(rr, ARES_RR_SOA_EXPIRE) ||
                       s->minttl != ares_dns_rr_get_u32(rr, ARES_RR_SOA_MINIMUM)) {
              lg_report(fn, "field", data, len, "serial/refresh/retry/expire/minttl %u/%u/%u/%u/%u differ", s->serial,
                        s->refresh, s->retry, s->expire, s->minttl);
            }
            break;
          }
          default:
            /* compare first: the walk trusts the length fields of the elements */
            if (lg_cmp_list(f, pj, res.data, data, len)) {
              lg_walk_data(f, res.data);
            }
            break;
        }
      } else if (res.status == ARES_ENODATA && (f == LG_F_A || f == LG_F_AAAA) && !o->n_null && res.n != 0) {
        lg_report(fn, "count", data, len, "ARES_ENODATA but *naddrttls=%d", res.n);
      }
      if (pj->nsel >= 1) {
        /* non-trivial: the message parsed and holds >= 1 record of f's type */
        size_t   nb  = pj->nsel >= 6 ? 6 : pj->nsel;
        size_t   cb  = pj->ncn >= 3 ? 3 : pj->ncn;
        unsigned cc  = 0;
        uint64_t fp;
        if (f == LG_F_A || f == LG_F_AAAA) {
          cc = o->arr_null ? 5 : (o->cap == 0 ? 1 : ((size_t)o->cap < pj->nsel ? 2 : ((size_t)o->cap == pj->nsel ? 3 : 4)));
          cc |= (unsigned)(o->host_null ? 8 : 0) | (unsigned)(o->n_null ? 16 : 0);
        } else if (f == LG_F_PTR || f == LG_F_PTR_DNSREC) {
          cc = (unsigned)o->addr_mode;
        }
        fp = vh_fnv_u64(VH_FNV_INIT, (uint64_t)f);
        fp = vh_fnv_u64(fp, nb);
        fp = vh_fnv_u64(fp, cb | ((uint64_t)pj->chain_ok << 4) | ((uint64_t)pj->has_other_class << 5) |
                              ((uint64_t)(pj->n_other_family ? 1 : 0) << 6) | ((uint64_t)(pj->nsel != pj->an) << 7));
        fp = vh_fnv_u64(fp, cc);
        fp = vh_fnv_u64(fp, (uint64_t)res.status);
        vh_fp_add(fp);
        lg_c_leg_nontrivial++;
        lg_c_leg_perfn_nt[f]++;
      }
    }
  }
  lg_res_free(&res);
  lg_in_free(&in);
  if (lg_live != l0) {
    lg_report(fn, "ledger", data, len, "%ld allocation(s) of the call still live after %s", lg_live - l0,
              lg_is_hostent_fn(f) ? "ares_free_hostent" : "ares_free_data");
  }
}

static lg_proj_t lg_pj;

static void lg_legacy_body(const uint8_t *data, size_t len, vh_rng_t *prm)
{
  lg_in_t            in  = lg_in_make(data, len);
  ares_dns_record_t *rec = NULL;
  int                st;
  int                f;
  long               l0 = lg_live;
  lg_opts_t          o;

  st = (int)ares_dns_parse(in.p, len, 0, &rec);
  if (st == ARES_ENOMEM) {
    vh_inconclusive("enomem");
    lg_in_free(&in);
    return;
  }
  if (st != ARES_SUCCESS) {
    rec = NULL;
    lg_c_leg_parse_rej++;
  } else {
    lg_c_leg_parse_ok++;
    lg_pj.rec   = rec;
    lg_pj.qname = NULL;
    lg_pj.an    = ares_dns_record_rr_cnt(rec, ARES_SECTION_ANSWER);
    if (ares_dns_record_query_get(rec, 0, &lg_pj.qname, NULL, NULL) != ARES_SUCCESS) {
      lg_pj.qname = NULL;
    }
  }
  for (f = 0; f < LG_NFUNCS; f++) {
    int reps = (f == LG_F_A || f == LG_F_AAAA) ? 2 : 1;
    if (f == LG_F_PTR_DNSREC && rec == NULL) {
      continue;
    }
    while (reps-- > 0) {
      lg_legacy_opts_draw(&o, prm);
      lg_legacy_check(f, data, len, rec, &lg_pj, &o);
    }
  }
  if (rec != NULL) {
    ares_dns_record_destroy(rec);
  }
  lg_in_free(&in);
  if (lg_live != l0) {
    lg_report("any", "ledger", data, len, "%ld allocation(s) still live at the end of the case", lg_live - l0);
  }
}

#endif
