/* lg_total.h - property C02: every decoding entry point on one input.
 *
 * lg_total_body(data, len, prm) hands the byte string to
 *   ares_dns_parse (flag combination drawn from prm) + full getter walk + ares_dns_write,
 *   the legacy ares_parse_*_reply family (capacity / NULL-argument variants, int alen variants),
 *   ares_expand_name / ares_expand_string / ares_dns_name_parse / ares_buf_parse_dns_binstr /
 *   ares_buf_parse_dns_str / ares_dns_multistring_parse_buf at many offsets,
 *   ares_buf_hexdump, ares_buf_split, ares_buf_split_str_array,
 *   ares_parse_into_addrinfo + ares_addrinfo2hostent + ares_addrinfo2addrttl,
 * each time on a fresh exactly-sized heap copy (ASan red zone right behind the last byte), and
 * checks the generic post-conditions: success => fully formed result that its free function
 * releases, failure => no result, no allocation left behind (ledger), name decoding agrees with
 * the independent reference decoder, character-string decoding agrees with the wire definition.
 * The same body is used by the deterministic `total` profile and by the libFuzzer target.
 */
#ifndef LG_TOTAL_H
#define LG_TOTAL_H

/* ---- hot-path counters (flushed by lg_total_flush_counters) ---- */
static uint64_t lg_c_name_calls, lg_c_name_ok, lg_c_name_ref[5], lg_c_name_stricter, lg_c_name_valid_rejected;
static uint64_t lg_c_str_calls, lg_c_str_ok, lg_c_mstr_calls, lg_c_mstr_ok;
static uint64_t lg_c_parse_ok, lg_c_parse_fail, lg_c_rr_walked, lg_c_keys_walked, lg_c_write_ok, lg_c_write_fail;
static uint64_t lg_c_legacy_calls, lg_c_legacy_ok, lg_c_legacy_nodata, lg_c_legacy_malformed, lg_c_alen_variants;
static uint64_t lg_c_split_calls, lg_c_split_sections, lg_c_hexdump_calls, lg_c_ai_calls, lg_c_ai_ok;
static uint64_t lg_c_entry_calls, lg_c_write_oversize;
static int      lg_last_ref_cls, lg_last_ref_nptr; /* reference verdict of the last lg_check_name_at() */

static void lg_name_flush_counters(void);

static void lg_total_flush_counters(void)
{
  vh_count_n("entry_calls", lg_c_entry_calls);
  lg_name_flush_counters();
  vh_count_n("string_calls", lg_c_str_calls);
  vh_count_n("string_accepted", lg_c_str_ok);
  vh_count_n("multistring_calls", lg_c_mstr_calls);
  vh_count_n("multistring_accepted", lg_c_mstr_ok);
  vh_count_n("parse_accepted", lg_c_parse_ok);
  vh_count_n("parse_rejected", lg_c_parse_fail);
  vh_count_n("rr_walked", lg_c_rr_walked);
  vh_count_n("rr_keys_walked", lg_c_keys_walked);
  vh_count_n("write_ok", lg_c_write_ok);
  vh_count_n("write_failed", lg_c_write_fail);
  vh_count_n("write_longer_than_65535", lg_c_write_oversize);
  vh_count_n("legacy_calls", lg_c_legacy_calls);
  vh_count_n("legacy_success", lg_c_legacy_ok);
  vh_count_n("legacy_nodata", lg_c_legacy_nodata);
  vh_count_n("legacy_malformed", lg_c_legacy_malformed);
  vh_count_n("legacy_alen_variants", lg_c_alen_variants);
  vh_count_n("split_calls", lg_c_split_calls);
  vh_count_n("split_sections", lg_c_split_sections);
  vh_count_n("hexdump_calls", lg_c_hexdump_calls);
  vh_count_n("addrinfo_calls", lg_c_ai_calls);
  vh_count_n("addrinfo_ok", lg_c_ai_ok);
}

static void lg_name_flush_counters(void)
{
  int i;
  vh_count_n("name_calls", lg_c_name_calls);
  vh_count_n("name_accepted", lg_c_name_ok);
  for (i = 0; i < 5; i++) {
    char nm[40];
    snprintf(nm, sizeof(nm), "name_ref_%s", lg_ref_names[i]);
    vh_count_n(nm, lg_c_name_ref[i]);
  }
  vh_count_n("name_cares_stricter_than_ref", lg_c_name_stricter);
  vh_count_n("name_valid_rejected", lg_c_name_valid_rejected);
}

#define LG_LEDGER_BEGIN() long lg__l0 = lg_live
#define LG_LEDGER_END(entry, d, len)                                                                    \
  do {                                                                                                  \
    if (lg_live != lg__l0) {                                                                            \
      lg_report((entry), "leak", (d), (len), "%ld allocation(s) still live after the call and its free", \
                lg_live - lg__l0);                                                                      \
      lg__l0 = lg_live;                                                                                 \
    }                                                                                                   \
  } while (0)

/* ---------------------------------------------------------------- names */
static void lg_name_verdict(const char *entry, int st, const char *s, long consumed, const lg_ref_t *ref,
                            const uint8_t *p, size_t len, size_t off, int count_rejects)
{
  static uint8_t wire[LG_REF_MAXWIRE + 64];
  size_t         wlen = 0;
  lg_c_name_calls++;
  if (st != ARES_SUCCESS) {
    if (s != NULL && s != (const char *)LG_SENT) {
      lg_report(entry, "failure-with-result", p, len, "status %d at offset %zu but *s was set", st, off);
    }
    if (count_rejects && ref->cls == LG_REF_OK && st != ARES_ENOMEM) {
      lg_c_name_valid_rejected++;
    }
    if (ref->cls == LG_REF_LOOSE) {
      lg_c_name_stricter++;
    }
    return;
  }
  lg_c_name_ok++;
  if (s == NULL || s == (const char *)LG_SENT) {
    lg_report(entry, "success-no-result", p, len, "ARES_SUCCESS at offset %zu but no string returned", off);
    return;
  }
  lg_touch_str(s);
  if (ref->cls == LG_REF_FWD || ref->cls == LG_REF_LOOP) {
    lg_report(entry, "pointer-forward-or-loop-accepted", p, len,
              "offset %zu: reference decoder finds a %s pointer, c-ares returned \"%.80s\"", off,
              lg_ref_names[ref->cls], s);
    return;
  }
  if (ref->cls == LG_REF_BAD) {
    lg_report(entry, "malformed-accepted", p, len,
              "offset %zu: name is truncated / uses a reserved label type, c-ares returned \"%.80s\"", off, s);
    return;
  }
  if (consumed != (long)ref->consumed) {
    lg_report(entry, "enclen-mismatch", p, len, "offset %zu: encoded length %ld, reference %zu", off, consumed,
              ref->consumed);
  }
  if (!ref->overflow) {
    int rc = lg_unescape_name(s, wire, sizeof(wire), &wlen);
    if (rc != 0 || wlen != ref->wlen || memcmp(wire, ref->wire, wlen) != 0) {
      lg_report(entry, "label-mismatch", p, len, "offset %zu: c-ares \"%.120s\" != reference labels %s", off, s,
                lg_hex(ref->wire, ref->wlen));
    }
  }
}

/* ares_expand_name + ares_dns_name_parse (with and without output) at one offset.
 * cbuf: const ares_buf_t over (p, len). */
static void lg_check_name_at(const uint8_t *p, size_t len, size_t off, ares_buf_t *cbuf, int extras)
{
  lg_ref_t ref;
  char    *s      = (char *)LG_SENT;
  long     enclen = -777;
  int      st;
  size_t   pos_a  = 0;
  LG_LEDGER_BEGIN();

  lg_ref_name(p, len, off, &ref);
  lg_c_name_ref[ref.cls]++;
  lg_last_ref_cls  = ref.cls;
  lg_last_ref_nptr = ref.nptr;

  LG_ENTER("expand_name");
  st = ares_expand_name(p + off, p, (int)len, &s, &enclen);
  LG_LEAVE();
  lg_name_verdict("expand_name", st, s, enclen, &ref, p, len, off, 1);
  if (st == ARES_SUCCESS && (enclen < 1 || (size_t)enclen > len - off)) {
    lg_report("expand_name", "enclen-out-of-range", p, len, "offset %zu: enclen %ld", off, enclen);
  }
  if (s != NULL && s != (char *)LG_SENT) {
    ares_free_string(s);
  }
  LG_LEDGER_END("expand_name", p, len);

  s = (char *)LG_SENT;
  ares_buf_set_position(cbuf, off);
  LG_ENTER("name_parse");
  st = (int)ares_dns_name_parse(cbuf, &s, ARES_FALSE);
  LG_LEAVE();
  pos_a = ares_buf_get_position(cbuf);
  lg_name_verdict("name_parse", st, s, (long)(pos_a - off), &ref, p, len, off, 0);
  if (s != NULL && s != (char *)LG_SENT) {
    ares_free(s);
  }
  LG_LEDGER_END("name_parse", p, len);

  if (extras) {
    int    st2;
    size_t pos_b;
    /* skip mode: same verdict, same position */
    ares_buf_set_position(cbuf, off);
    LG_ENTER("name_parse");
    st2 = (int)ares_dns_name_parse(cbuf, NULL, ARES_FALSE);
    LG_LEAVE();
    pos_b = ares_buf_get_position(cbuf);
    lg_c_name_calls++;
    if ((st2 == ARES_SUCCESS) != (st == ARES_SUCCESS) || (st == ARES_SUCCESS && pos_a != pos_b)) {
      lg_report("name_parse", "skip-mode-differs", p, len,
                "offset %zu: with output status %d pos %zu, without output status %d pos %zu", off, st, pos_a, st2,
                pos_b);
    }
    LG_LEDGER_END("name_parse", p, len);

    /* hostname-validated variants: may reject more, must not accept what the reference rejects */
    s = (char *)LG_SENT;
    ares_buf_set_position(cbuf, off);
    LG_ENTER("name_parse");
    st2 = (int)ares_dns_name_parse(cbuf, &s, ARES_TRUE);
    LG_LEAVE();
    lg_name_verdict("name_parse", st2, s, (long)(ares_buf_get_position(cbuf) - off), &ref, p, len, off, 0);
    if (s != NULL && s != (char *)LG_SENT) {
      ares_free(s);
    }
    {
      size_t el = 777;
      s         = (char *)LG_SENT;
      LG_ENTER("expand_name");
      st2 = (int)ares_expand_name_validated(p + off, p, len, &s, &el, ARES_TRUE);
      LG_LEAVE();
      lg_name_verdict("expand_name", st2, s, (long)el, &ref, p, len, off, 0);
      if (s != NULL && s != (char *)LG_SENT) {
        ares_free(s);
      }
    }
    LG_LEDGER_END("name_parse", p, len);
  }
}

/* ---------------------------------------------------------------- character strings */
static int lg_all_printable(const uint8_t *p, size_t n)
{
  size_t i;
  for (i = 0; i < n; i++) {
    if (p[i] < 0x20 || p[i] > 0x7e) {
      return 0;
    }
  }
  return 1;
}

static void lg_check_strings_at(const uint8_t *p, size_t len, size_t off, ares_buf_t *cbuf, vh_rng_t *prm)
{
  unsigned       L    = p[off];
  int            fits = off + 1 + (size_t)L <= len;
  unsigned char *s    = (unsigned char *)LG_SENT;
  long           enclen = -777;
  int            st;
  size_t         R;
  uint32_t       k;
  LG_LEDGER_BEGIN();

  /* ares_expand_string */
  lg_c_str_calls++;
  LG_ENTER("expand_string");
  st = ares_expand_string(p + off, p, (int)len, &s, &enclen);
  LG_LEAVE();
  if (st == ARES_SUCCESS) {
    lg_c_str_ok++;
    if (s == NULL || s == (unsigned char *)LG_SENT) {
      lg_report("expand_string", "success-no-result", p, len, "offset %zu", off);
    } else if (!fits) {
      lg_report("expand_string", "overrun-accepted", p, len, "offset %zu: length octet %u does not fit", off, L);
    } else {
      lg_touch(s, (size_t)L + 1);
      if (enclen != (long)L + 1 || memcmp(s, p + off + 1, L) != 0 || s[L] != 0) {
        lg_report("expand_string", "content-mismatch", p, len, "offset %zu: enclen %ld expected %u", off, enclen,
                  L + 1);
      }
    }
  } else if (s != NULL && s != (unsigned char *)LG_SENT) {
    lg_report("expand_string", "failure-with-result", p, len, "status %d at offset %zu but *s set", st, off);
  }
  if (s != NULL && s != (unsigned char *)LG_SENT) {
    ares_free_string(s);
  }
  LG_LEDGER_END("expand_string", p, len);

  /* remaining_len variants for the ares_buf level parsers */
  k = vh_below(prm, 8);
  switch (k) {
    case 0:
      R = 0;
      break;
    case 1:
      R = 1;
      break;
    case 2:
      R = (size_t)L + 1;
      break;
    case 3:
      R = (size_t)L;
      break;
    case 4:
      R = len - off + 1 + vh_below(prm, 300);
      break;
    case 5:
      R = 1 + vh_below(prm, (uint32_t)(len - off));
      break;
    default:
      R = len - off;
      break;
  }

  /* ares_buf_parse_dns_binstr */
  {
    unsigned char *bin  = (unsigned char *)LG_SENT;
    size_t         blen = 777;
    int            ok   = R > 0 && (size_t)L <= R - 1 && fits;
    lg_c_str_calls++;
    ares_buf_set_position(cbuf, off);
    LG_ENTER("parse_dns_binstr");
    st = (int)ares_buf_parse_dns_binstr(cbuf, R, &bin, &blen);
    LG_LEAVE();
    if (st == ARES_SUCCESS) {
      lg_c_str_ok++;
      if (bin == NULL || bin == (unsigned char *)LG_SENT) {
        lg_report("parse_dns_binstr", "success-no-result", p, len, "offset %zu R %zu", off, R);
      } else if (!ok) {
        lg_report("parse_dns_binstr", "overrun-accepted", p, len,
                  "offset %zu: length octet %u, remaining_len %zu, %zu octets left in buffer", off, L, R,
                  len - off);
      } else {
        lg_touch(bin, (size_t)L + 1);
        if (blen != L || memcmp(bin, p + off + 1, L) != 0 || bin[L] != 0 ||
            ares_buf_get_position(cbuf) != off + 1 + L) {
          lg_report("parse_dns_binstr", "content-mismatch", p, len, "offset %zu: bin_len %zu expected %u", off, blen,
                    L);
        }
      }
    } else if (bin != NULL && bin != (unsigned char *)LG_SENT) {
      lg_report("parse_dns_binstr", "failure-with-result", p, len, "status %d at offset %zu but *bin set", st, off);
    }
    if (bin != NULL && bin != (unsigned char *)LG_SENT) {
      ares_free(bin);
    }
    LG_LEDGER_END("parse_dns_binstr", p, len);
    if (vh_chance(prm, 1, 4) && lg_skip_mode_calls) {
      /* skip mode (bin == NULL), as used by ares_expand_string(..., s = NULL, ...) */
      int  st2;
      long el = -777;
      ares_buf_set_position(cbuf, off);
      LG_ENTER("parse_dns_binstr");
      st2 = (int)ares_buf_parse_dns_binstr(cbuf, R, NULL, NULL);
      LG_LEAVE();
      if ((st2 == ARES_SUCCESS) != (st == ARES_SUCCESS)) {
        lg_report("parse_dns_binstr", "skip-mode-differs", p, len, "offset %zu R %zu: %d vs %d", off, R, st, st2);
      }
      if (lg_live != lg__l0) {
        lg_report("parse_dns_binstr", "leak-skip-mode", p, len,
                  "offset %zu remaining_len %zu: %ld allocation(s) left behind by a call with bin == NULL (status %d)",
                  off, R, lg_live - lg__l0, st2);
        lg__l0 = lg_live;
      }
      LG_ENTER("expand_string");
      st2 = ares_expand_string(p + off, p, (int)len, NULL, &el);
      LG_LEAVE();
      if ((st2 == ARES_SUCCESS) != fits) {
        lg_report("expand_string", "skip-mode-differs", p, len, "offset %zu: s == NULL gives status %d", off, st2);
      }
      if (lg_live != lg__l0) {
        lg_report("expand_string", "leak-null-s", p, len,
                  "offset %zu: %ld allocation(s) left behind by ares_expand_string(s = NULL) (status %d)", off,
                  lg_live - lg__l0, st2);
        lg__l0 = lg_live;
      }
    }
  }

  /* ares_buf_parse_dns_str (printable only) */
  {
    char *str = (char *)LG_SENT;
    int   ok  = R > 0 && (size_t)L <= R - 1 && fits;
    lg_c_str_calls++;
    ares_buf_set_position(cbuf, off);
    LG_ENTER("parse_dns_str");
    st = (int)ares_buf_parse_dns_str(cbuf, R, &str);
    LG_LEAVE();
    if (st == ARES_SUCCESS) {
      lg_c_str_ok++;
      if (str == NULL || str == (char *)LG_SENT) {
        lg_report("parse_dns_str", "success-no-result", p, len, "offset %zu R %zu", off, R);
      } else if (!ok) {
        lg_report("parse_dns_str", "overrun-accepted", p, len, "offset %zu: length octet %u, remaining_len %zu", off,
                  L, R);
      } else {
        size_t sl = lg_touch_str(str);
        if (!lg_all_printable(p + off + 1, L)) {
          lg_report("parse_dns_str", "nonprintable-accepted", p, len, "offset %zu length %u", off, L);
        } else if (sl != L || memcmp(str, p + off + 1, L) != 0) {
          lg_report("parse_dns_str", "content-mismatch", p, len, "offset %zu: strlen %zu expected %u", off, sl, L);
        }
      }
    } else if (str != NULL && str != (char *)LG_SENT) {
      lg_report("parse_dns_str", "failure-with-result", p, len, "status %d at offset %zu but *str set", st, off);
    }
    if (str != NULL && str != (char *)LG_SENT) {
      ares_free(str);
    }
    LG_LEDGER_END("parse_dns_str", p, len);
  }
}

static void lg_check_multistring_at(const uint8_t *p, size_t len, size_t off, ares_buf_t *cbuf, vh_rng_t *prm)
{
  ares_dns_multistring_t *strs     = (ares_dns_multistring_t *)LG_SENT;
  int                     validate = vh_chance(prm, 1, 3);
  size_t                  R;
  int                     st;
  /* reference walk */
  size_t   pos    = off;
  size_t   starts[512];
  size_t   n      = 0;
  int      ref_ok = 1;
  uint32_t k      = vh_below(prm, 5);
  LG_LEDGER_BEGIN();
  if (k == 0) {
    R = 0;
  } else if (k == 1) {
    R = 1 + vh_below(prm, 64);
  } else if (k == 2) {
    R = len - off + vh_below(prm, 40);
  } else {
    R = 1 + vh_below(prm, (uint32_t)(len - off));
  }
  if (R == 0) {
    ref_ok = 0;
  }
  while (ref_ok && pos - off < R) {
    unsigned L;
    if (pos >= len) {
      ref_ok = 0;
      break;
    }
    L = p[pos];
    if (pos + 1 + L > len) {
      ref_ok = 0;
      break;
    }
    if (validate && !lg_all_printable(p + pos + 1, L)) {
      ref_ok = 0;
      break;
    }
    if (n < 512) {
      starts[n] = pos;
    }
    n++;
    pos += 1 + (size_t)L;
  }
  lg_c_mstr_calls++;
  ares_buf_set_position(cbuf, off);
  LG_ENTER("multistring_parse");
  st = (int)ares_dns_multistring_parse_buf(cbuf, R, &strs, validate ? ARES_TRUE : ARES_FALSE);
  LG_LEAVE();
  if (st == ARES_SUCCESS) {
    lg_c_mstr_ok++;
    if (strs == NULL || strs == (ares_dns_multistring_t *)LG_SENT) {
      lg_report("multistring_parse", "success-no-result", p, len, "offset %zu R %zu", off, R);
    } else if (!ref_ok) {
      lg_report("multistring_parse", "overrun-accepted", p, len,
                "offset %zu remaining_len %zu validate %d: a chunk does not fit / is not printable", off, R,
                validate);
    } else {
      size_t               cnt = ares_dns_multistring_cnt(strs);
      size_t               i;
      size_t               cl = 0;
      const unsigned char *c;
      if (cnt != n) {
        lg_report("multistring_parse", "content-mismatch", p, len, "offset %zu R %zu: %zu chunks, reference %zu",
                  off, R, cnt, n);
      }
      for (i = 0; i < cnt && i < n && i < 512; i++) {
        size_t               l = 777;
        const unsigned char *d = ares_dns_multistring_get(strs, i, &l);
        unsigned             L = p[starts[i]];
        if (d == NULL) {
          lg_report("multistring_parse", "content-mismatch", p, len, "offset %zu: chunk %zu is NULL", off, i);
          break;
        }
        lg_touch(d, l + 1);
        if (l != L || memcmp(d, p + starts[i] + 1, L) != 0 || d[l] != 0) {
          lg_report("multistring_parse", "content-mismatch", p, len, "offset %zu: chunk %zu length %zu expected %u",
                    off, i, l, L);
          break;
        }
      }
      c = ares_dns_multistring_combined(strs, &cl);
      if (c != NULL) {
        lg_touch(c, cl);
      }
    }
  } else if (strs != NULL && strs != (ares_dns_multistring_t *)LG_SENT) {
    lg_report("multistring_parse", "failure-with-result", p, len, "status %d at offset %zu but *strs set", st, off);
  }
  if (strs != NULL && strs != (ares_dns_multistring_t *)LG_SENT) {
    ares_dns_multistring_destroy(strs);
  }
  if (vh_chance(prm, 1, 4)) {
    int st2;
    ares_buf_set_position(cbuf, off);
    LG_ENTER("multistring_parse");
    st2 = (int)ares_dns_multistring_parse_buf(cbuf, R, NULL, validate ? ARES_TRUE : ARES_FALSE);
    LG_LEAVE();
    if ((st2 == ARES_SUCCESS) != (st == ARES_SUCCESS)) {
      lg_report("multistring_parse", "skip-mode-differs", p, len, "offset %zu R %zu: %d vs %d", off, R, st, st2);
    }
  }
  LG_LEDGER_END("multistring_parse", p, len);
}

/* ---------------------------------------------------------------- record walk */
static void lg_walk_rr(const ares_dns_rr_t *rr)
{
  const char              *nm   = ares_dns_rr_get_name(rr);
  ares_dns_rec_type_t      type = ares_dns_rr_get_type(rr);
  size_t                   nk   = 0;
  const ares_dns_rr_key_t *keys;
  size_t                   i;
  if (nm != NULL) {
    lg_touch_str(nm);
  }
  lg_sink += (unsigned)type + (unsigned)ares_dns_rr_get_class(rr) + ares_dns_rr_get_ttl(rr);
  lg_c_rr_walked++;
  keys = ares_dns_rr_get_keys(type, &nk);
  for (i = 0; keys != NULL && i < nk; i++) {
    ares_dns_rr_key_t key = keys[i];
    lg_c_keys_walked++;
    switch (ares_dns_rr_key_datatype(key)) {
      case ARES_DATATYPE_INADDR: {
        const struct in_addr *a = ares_dns_rr_get_addr(rr, key);
        if (a) {
          lg_touch(a, sizeof(*a));
        }
        break;
      }
      case ARES_DATATYPE_INADDR6: {
        const struct ares_in6_addr *a = ares_dns_rr_get_addr6(rr, key);
        if (a) {
          lg_touch(a, sizeof(*a));
        }
        break;
      }
      case ARES_DATATYPE_U8:
        lg_sink += ares_dns_rr_get_u8(rr, key);
        break;
      case ARES_DATATYPE_U16:
        lg_sink += ares_dns_rr_get_u16(rr, key);
        break;
      case ARES_DATATYPE_U32:
        lg_sink += ares_dns_rr_get_u32(rr, key);
        break;
      case ARES_DATATYPE_NAME:
      case ARES_DATATYPE_STR: {
        const char *s = ares_dns_rr_get_str(rr, key);
        if (s) {
          lg_touch_str(s);
        }
        break;
      }
      case ARES_DATATYPE_BIN:
      case ARES_DATATYPE_BINP: {
        size_t               l = 0;
        const unsigned char *b = ares_dns_rr_get_bin(rr, key, &l);
        if (b) {
          lg_touch(b, l);
        }
        break;
      }
      case ARES_DATATYPE_ABINP: {
        size_t               cnt = ares_dns_rr_get_abin_cnt(rr, key);
        size_t               j;
        size_t               l = 0;
        const unsigned char *b;
        for (j = 0; j < cnt; j++) {
          b = ares_dns_rr_get_abin(rr, key, j, &l);
          if (b) {
            lg_touch(b, l + 1);
          }
        }
        b = ares_dns_rr_get_bin(rr, key, &l);
        if (b) {
          lg_touch(b, l);
        }
        break;
      }
      case ARES_DATATYPE_OPT: {
        size_t cnt = ares_dns_rr_get_opt_cnt(rr, key);
        size_t j;
        for (j = 0; j < cnt; j++) {
          const unsigned char *v  = NULL;
          size_t               vl = 0;
          unsigned short       id = ares_dns_rr_get_opt(rr, key, j, &v, &vl);
          const unsigned char *v2 = NULL;
          size_t               v2l = 0;
          if (v) {
            lg_touch(v, vl);
          }
          if (ares_dns_rr_get_opt_byid(rr, key, id, &v2, &v2l) && v2) {
            lg_touch(v2, v2l);
          }
          lg_sink += (unsigned)ares_dns_opt_get_datatype(key, id);
        }
        break;
      }
      default:
        break;
    }
  }
}

static void lg_walk_record(ares_dns_record_t *rec)
{
  size_t i;
  int    sect;
  lg_sink += (unsigned)ares_dns_record_get_id(rec) + ares_dns_record_get_flags(rec) +
             (unsigned)ares_dns_record_get_opcode(rec) + (unsigned)ares_dns_record_get_rcode(rec);
  for (i = 0; i < ares_dns_record_query_cnt(rec); i++) {
    const char         *name = NULL;
    ares_dns_rec_type_t qt;
    ares_dns_class_t    qc;
    if (ares_dns_record_query_get(rec, i, &name, &qt, &qc) == ARES_SUCCESS && name != NULL) {
      lg_touch_str(name);
      lg_sink += (unsigned)qt + (unsigned)qc;
    }
  }
  for (sect = ARES_SECTION_ANSWER; sect <= ARES_SECTION_ADDITIONAL; sect++) {
    size_t n = ares_dns_record_rr_cnt(rec, (ares_dns_section_t)sect);
    for (i = 0; i < n; i++) {
      const ares_dns_rr_t *rr = ares_dns_record_rr_get_const(rec, (ares_dns_section_t)sect, i);
      if (rr != NULL) {
        lg_walk_rr(rr);
      }
    }
  }
}

/* ---------------------------------------------------------------- ares_dns_parse / write */
static void lg_check_parse(const uint8_t *data, size_t len, unsigned flags)
{
  lg_in_t            in  = lg_in_make(data, len);
  ares_dns_record_t *rec = (ares_dns_record_t *)LG_SENT;
  int                st;
  LG_LEDGER_BEGIN();
  lg_c_entry_calls++;
  LG_ENTER("dns_parse");
  st = (int)ares_dns_parse(in.p, len, flags, &rec);
  LG_LEAVE();
  if (st == ARES_SUCCESS) {
    lg_c_parse_ok++;
    if (rec == NULL || rec == (ares_dns_record_t *)LG_SENT) {
      lg_report("dns_parse", "success-no-result", data, len, "flags 0x%x", flags);
      rec = NULL;
    } else {
      unsigned char *wbuf = (unsigned char *)LG_SENT;
      size_t         wlen = 777;
      int            ws;
      if (len > 65535 || len < 12) {
        lg_report("dns_parse", "impossible-length-accepted", data, len, "flags 0x%x", flags);
      }
      LG_ENTER("record_walk");
      lg_walk_record(rec);
      LG_LEAVE();
      LG_ENTER("dns_write");
      ws = (int)ares_dns_write(rec, &wbuf, &wlen);
      LG_LEAVE();
      if (ws == ARES_SUCCESS) {
        lg_c_write_ok++;
        if (wbuf == NULL || wbuf == (unsigned char *)LG_SENT || wlen == 0) {
          lg_report("dns_write", "success-no-result", data, len, "buf %p len %zu", (void *)wbuf, wlen);
        } else {
          lg_touch(wbuf, wlen);
          if (wlen > 65535) {
            lg_c_write_oversize++; /* a matter for C03 (write/parse identity), only counted here */
          }
        }
      } else {
        lg_c_write_fail++;
        if (wbuf != NULL && wbuf != (unsigned char *)LG_SENT) {
          lg_report("dns_write", "failure-with-result", data, len, "status %d but *buf set", ws);
        }
      }
      if (wbuf != NULL && wbuf != (unsigned char *)LG_SENT) {
        ares_free_string(wbuf);
      }
    }
  } else {
    lg_c_parse_fail++;
    if (rec != NULL && rec != (ares_dns_record_t *)LG_SENT) {
      lg_report("dns_parse", "failure-with-result", data, len, "status %d flags 0x%x but *dnsrec set", st, flags);
      rec = NULL; /* do not free an unknown pointer */
    }
  }
  if (rec != NULL && rec != (ares_dns_record_t *)LG_SENT) {
    LG_ENTER("record_destroy");
    ares_dns_record_destroy(rec);
    LG_LEAVE();
  }
  lg_in_free(&in);
  LG_LEDGER_END("dns_parse", data, len);
}

/* ---------------------------------------------------------------- legacy family (memory/post-condition part) */
static void lg_legacy_opts_draw(lg_opts_t *o, vh_rng_t *prm)
{
  memset(o, 0, sizeof(*o));
  o->host_null = vh_chance(prm, 1, 4);
  o->arr_null  = vh_chance(prm, 1, 6);
  o->n_null    = vh_chance(prm, 1, 8);
  o->cap       = (int)vh_below(prm, 9);
  o->addr_mode = (int)vh_below(prm, 5);
}

static void lg_check_legacy_call(int f, const uint8_t *data, size_t len, int alen, const lg_opts_t *o)
{
  lg_in_t  in = lg_in_make(data, len);
  lg_res_t res;
  LG_LEDGER_BEGIN();
  lg_c_entry_calls++;
  lg_c_legacy_calls++;
  lg_call_legacy(f, in.p, alen, NULL, o, &res);
  if (res.status == ARES_SUCCESS) {
    lg_c_legacy_ok++;
  } else if (res.status == ARES_ENODATA) {
    lg_c_legacy_nodata++;
  } else if (lg_status_is_malformed(res.status)) {
    lg_c_legacy_malformed++;
  }
  if (alen <= 0 && res.status == ARES_SUCCESS) {
    lg_report(lg_fnames[f], "nonpositive-alen-accepted", data, len, "alen %d returned ARES_SUCCESS", alen);
  }
  if (lg_res_postcond(f, o, &res, data, len) && res.status == ARES_SUCCESS) {
    if (res.host != NULL && res.host != (struct hostent *)LG_SENT) {
      lg_walk_hostent(lg_fnames[f], res.host, data, len);
    }
    if (res.data != NULL && res.data != LG_SENT) {
      lg_walk_data(f, res.data);
    }
    if (res.a4 != NULL && !o->n_null && res.n > 0 && res.n <= o->cap) {
      lg_touch(res.a4, (size_t)res.n * sizeof(*res.a4));
    }
    if (res.a6 != NULL && !o->n_null && res.n > 0 && res.n <= o->cap) {
      lg_touch(res.a6, (size_t)res.n * sizeof(*res.a6));
    }
  }
  lg_res_free(&res);
  lg_in_free(&in);
  LG_LEDGER_END(lg_fnames[f], data, len);
}

/* ---------------------------------------------------------------- hexdump / split */
static void lg_check_hexdump(const uint8_t *data, size_t len)
{
  LG_LEDGER_BEGIN();
  lg_in_t     in  = lg_in_make(data, len);
  ares_buf_t *out = ares_buf_create();
  int         st;
  if (out == NULL) {
    lg_in_free(&in);
    return;
  }
  lg_c_entry_calls++;
  lg_c_hexdump_calls++;
  LG_ENTER("hexdump");
  st = (int)ares_buf_hexdump(out, in.p, len);
  LG_LEAVE();
  if (st == ARES_SUCCESS) {
    size_t n    = 0;
    size_t want = 61 * ((len + 15) / 16) + len;
    char  *s    = ares_buf_finish_str(out, &n);
    out         = NULL;
    if (s == NULL) {
      lg_report("hexdump", "success-no-result", data, len, "finish_str returned NULL");
    } else {
      lg_touch(s, n + 1);
      if (n != want) {
        lg_report("hexdump", "content-mismatch", data, len, "dump is %zu characters, expected %zu", n, want);
      }
      ares_free(s);
    }
  }
  if (out != NULL) {
    ares_buf_destroy(out);
  }
  lg_in_free(&in);
  LG_LEDGER_END("hexdump", data, len);
}

static void lg_check_split(const uint8_t *data, size_t len, vh_rng_t *prm)
{
  static const unsigned char dsets[][4] = { { 0, 0, 0, 0 }, { ' ', '\n', '\t', '\r' }, { '.', '.', '.', '.' },
                                            { 0xc0, 0x00, 0x01, 0xff }, { ',', ':', ';', '=' } };
  lg_in_t              in     = lg_in_make(data, len);
  const unsigned char *delims = dsets[vh_below(prm, 5)];
  size_t               nd     = 1 + vh_below(prm, 4);
  unsigned             flags  = vh_below(prm, 64);
  size_t               maxs;
  uint32_t             k      = vh_below(prm, 4);
  ares_buf_t          *buf;
  ares_array_t        *arr    = (ares_array_t *)LG_SENT;
  int                  st;
  int                  as_str = vh_chance(prm, 1, 3);
  LG_LEDGER_BEGIN();
  if ((flags & ARES_BUF_SPLIT_KEEP_DELIMS) && (flags & ARES_BUF_SPLIT_LTRIM)) {
    flags &= ~(unsigned)ARES_BUF_SPLIT_LTRIM; /* documented as incompatible */
  }
  if (len > 2048) {
    flags &= ~(unsigned)ARES_BUF_SPLIT_NO_DUPLICATES; /* quadratic by design; meant for short config lines */
  }
  if ((flags & ARES_BUF_SPLIT_NO_DUPLICATES) && (flags & ARES_BUF_SPLIT_ALLOW_BLANK)) {
    if (lg_nodup_blank_rate == 0 || vh_below(prm, lg_nodup_blank_rate) != 0) {
      flags &= ~(unsigned)ARES_BUF_SPLIT_NO_DUPLICATES;
    }
  }
  maxs = k == 0 ? 0 : (k == 1 ? 1 : (k == 2 ? 2 : 1 + vh_below(prm, 20)));
  if (len == 0) {
    lg_in_free(&in);
    return; /* ares_buf_create_const refuses empty input */
  }
  buf = ares_buf_create_const(in.p, len);
  if (buf == NULL) {
    lg_in_free(&in);
    return;
  }
  lg_c_entry_calls++;
  lg_c_split_calls++;
  if (!as_str) {
    LG_ENTER("split");
    st = (int)ares_buf_split(buf, delims, nd, (ares_buf_split_t)flags, maxs, &arr);
    LG_LEAVE();
    if (st == ARES_SUCCESS) {
      if (arr == NULL || arr == (ares_array_t *)LG_SENT) {
        lg_report("split", "success-no-result", data, len, "flags 0x%x", flags);
      } else {
        size_t n = ares_array_len(arr);
        size_t i;
        lg_c_split_sections += n;
        if (maxs && n > maxs) {
          lg_report("split", "more-sections-than-max", data, len, "%zu sections, max_sections %zu flags 0x%x", n,
                    maxs, flags);
        }
        for (i = 0; i < n; i++) {
          ares_buf_t         **pb = (ares_buf_t **)ares_array_at(arr, i);
          size_t               l  = 0;
          const unsigned char *q;
          if (pb == NULL || *pb == NULL) {
            lg_report("split", "success-no-result", data, len, "section %zu is NULL", i);
            break;
          }
          q = ares_buf_peek(*pb, &l);
          if (q != NULL && l > 0) {
            if (q < in.p || q + l > in.p + len) {
              lg_report("split", "section-outside-input", data, len, "section %zu: offset %ld length %zu", i,
                        (long)(q - in.p), l);
              break;
            }
            lg_touch(q, l);
          }
        }
      }
    } else if (arr != NULL && arr != (ares_array_t *)LG_SENT) {
      lg_report("split", "failure-with-result", data, len, "status %d but *arr set", st);
      arr = NULL;
    }
    if (arr != NULL && arr != (ares_array_t *)LG_SENT) {
      ares_array_destroy(arr);
    }
  } else {
    LG_ENTER("split_str_array");
    st = (int)ares_buf_split_str_array(buf, delims, nd, (ares_buf_split_t)flags, maxs, &arr);
    LG_LEAVE();
    if (st == ARES_SUCCESS) {
      if (arr == NULL || arr == (ares_array_t *)LG_SENT) {
        lg_report("split_str_array", "success-no-result", data, len, "flags 0x%x", flags);
      } else {
        size_t n = ares_array_len(arr);
        size_t i;
        lg_c_split_sections += n;
        for (i = 0; i < n; i++) {
          char **ps = (char **)ares_array_at(arr, i);
          if (ps == NULL || *ps == NULL) {
            lg_report("split_str_array", "success-no-result", data, len, "string %zu is NULL", i);
            break;
          }
          lg_touch_str(*ps);
        }
      }
    } else if (arr != NULL && arr != (ares_array_t *)LG_SENT) {
      lg_report("split_str_array", "failure-with-result", data, len, "status %d but *arr set", st);
      arr = NULL;
    }
    if (arr != NULL && arr != (ares_array_t *)LG_SENT) {
      ares_array_destroy(arr);
    }
  }
  ares_buf_destroy(buf);
  lg_in_free(&in);
  LG_LEDGER_END(as_str ? "split_str_array" : "split", data, len);
}

/* ---------------------------------------------------------------- addrinfo conversion path */
static void lg_check_addrinfo(const uint8_t *data, size_t len, vh_rng_t *prm)
{
  lg_in_t              in  = lg_in_make(data, len);
  ares_dns_record_t   *rec = NULL;
  struct ares_addrinfo ai;
  int                  st;
  LG_LEDGER_BEGIN();
  if (ares_dns_parse(in.p, len, 0, &rec) != ARES_SUCCESS || rec == NULL) {
    lg_in_free(&in);
    return;
  }
  memset(&ai, 0, sizeof(ai));
  lg_c_entry_calls++;
  lg_c_ai_calls++;
  LG_ENTER("parse_into_addrinfo");
  st = (int)ares_parse_into_addrinfo(rec, vh_chance(prm, 1, 2) ? ARES_TRUE : ARES_FALSE,
                                     (unsigned short)vh_below(prm, 65536), &ai);
  LG_LEAVE();
  if (st == ARES_SUCCESS) {
    struct ares_addrinfo_node  *nd;
    struct ares_addrinfo_cname *cn;
    static const int            fams[] = { AF_INET, AF_INET6, AF_UNSPEC };
    int                         i;
    lg_c_ai_ok++;
    if (ai.name == NULL) {
      lg_report("parse_into_addrinfo", "success-no-result", data, len, "ai.name is NULL");
    } else {
      lg_touch_str(ai.name);
    }
    for (nd = ai.nodes; nd != NULL; nd = nd->ai_next) {
      if (nd->ai_addr != NULL) {
        lg_touch(nd->ai_addr, (size_t)nd->ai_addrlen);
      }
      lg_sink += (unsigned)nd->ai_ttl + (unsigned)nd->ai_family;
    }
    for (cn = ai.cnames; cn != NULL; cn = cn->next) {
      if (cn->alias) {
        lg_touch_str(cn->alias);
      }
      if (cn->name) {
        lg_touch_str(cn->name);
      }
    }
    for (i = 0; i < 3; i++) {
      struct hostent *h = NULL;
      int             hs;
      LG_ENTER("addrinfo2hostent");
      hs = (int)ares_addrinfo2hostent(&ai, fams[i], &h);
      LG_LEAVE();
      if (hs == ARES_SUCCESS) {
        if (h == NULL) {
          lg_report("addrinfo2hostent", "success-no-result", data, len, "family %d", fams[i]);
        } else {
          lg_walk_hostent("addrinfo2hostent", h, data, len);
        }
      } else if (h != NULL) {
        lg_report("addrinfo2hostent", "failure-with-result", data, len, "status %d family %d", hs, fams[i]);
        h = NULL;
      }
      if (h != NULL) {
        ares_free_hostent(h);
      }
    }
    for (i = 0; i < 2; i++) {
      size_t                req  = 1 + vh_below(prm, 8);
      void                 *base = NULL;
      size_t                got  = 777;
      int                   as;
      struct ares_addrttl  *a4   = NULL;
      struct ares_addr6ttl *a6   = NULL;
      if (i == 0) {
        a4 = (struct ares_addrttl *)lg_exact_array(req * sizeof(*a4), &base);
      } else {
        a6 = (struct ares_addr6ttl *)lg_exact_array(req * sizeof(*a6), &base);
      }
      LG_ENTER("addrinfo2addrttl");
      as = (int)ares_addrinfo2addrttl(&ai, i == 0 ? AF_INET : AF_INET6, req, a4, a6, &got);
      LG_LEAVE();
      if (as == ARES_SUCCESS) {
        if (got > req) {
          lg_report("addrinfo2addrttl", "naddrttls-over-capacity", data, len, "%zu written, capacity %zu", got, req);
        } else if (a4) {
          lg_touch(a4, got * sizeof(*a4));
        } else {
          lg_touch(a6, got * sizeof(*a6));
        }
      }
      free(base);
    }
  } else if (ai.nodes != NULL || ai.cnames != NULL || ai.name != NULL) {
    lg_report("parse_into_addrinfo", "failure-with-result", data, len, "status %d but ai was filled in", st);
  }
  ares_freeaddrinfo_cnames(ai.cnames);
  ares_freeaddrinfo_nodes(ai.nodes);
  ares_free(ai.name);
  ares_dns_record_destroy(rec);
  lg_in_free(&in);
  LG_LEDGER_END("parse_into_addrinfo", data, len);
}

/* ---------------------------------------------------------------- the body */
static int      lg_lean  = 0;    /* 1: one call per legacy function, fewer variants (libFuzzer target) */
static unsigned lg_parts = 0xff; /* --opt parts=<mask>: 1 parse, 2 legacy, 4 offsets, 8 hexdump/split, 16 addrinfo */

static void lg_total_body(const uint8_t *data, size_t len, vh_rng_t *prm)
{
  unsigned  flags = vh_below(prm, 64);
  lg_opts_t o;
  int       f;
  size_t    i;

  /* 1. record parser: drawn flag combination, and flags 0 (what the legacy wrappers use) */
  if (lg_parts & 1) {
    lg_check_parse(data, len, flags);
    if (flags != 0 && vh_chance(prm, 1, 2) && !lg_lean) {
      lg_check_parse(data, len, 0);
    }
    if (len <= 600 && vh_chance(prm, 1, 16)) {
      unsigned fl;
      for (fl = 0; fl < 64; fl++) {
        lg_check_parse(data, len, fl);
      }
    }
  }

  /* 2. legacy reply parsers, real length */
  for (f = 0; (lg_parts & 2) && f < LG_NFUNCS; f++) {
    if (f == LG_F_PTR_DNSREC) {
      continue; /* handled below: needs a parsed record */
    }
    lg_legacy_opts_draw(&o, prm);
    lg_check_legacy_call(f, data, len, (int)len, &o);
    if ((f == LG_F_A || f == LG_F_AAAA || f == LG_F_PTR) && !lg_lean) {
      lg_legacy_opts_draw(&o, prm);
      lg_check_legacy_call(f, data, len, (int)len, &o);
    }
  }
  if (lg_parts & 2) {
    /* ares_parse_ptr_reply_dnsrec on the parsed record */
    lg_in_t            in  = lg_in_make(data, len);
    ares_dns_record_t *rec = NULL;
    LG_LEDGER_BEGIN();
    if (ares_dns_parse(in.p, len, 0, &rec) == ARES_SUCCESS && rec != NULL) {
      lg_res_t res;
      lg_legacy_opts_draw(&o, prm);
      lg_c_entry_calls++;
      lg_c_legacy_calls++;
      lg_call_legacy(LG_F_PTR_DNSREC, NULL, 0, rec, &o, &res);
      if (lg_res_postcond(LG_F_PTR_DNSREC, &o, &res, data, len) && res.status == ARES_SUCCESS) {
        lg_walk_hostent("ptr_dnsrec", res.host, data, len);
      }
      lg_res_free(&res);
      ares_dns_record_destroy(rec);
    }
    lg_in_free(&in);
    LG_LEDGER_END("ptr_dnsrec", data, len);
  }
  /* int alen variants the legacy prototypes allow: negative, zero, shorter than the block */
  if (lg_parts & 2) {
    int n = lg_lean ? 1 : 3;
    while (n-- > 0) {
      uint32_t k = vh_below(prm, 5);
      int      alen;
      f = (int)vh_below(prm, LG_NFUNCS - 1);
      lg_legacy_opts_draw(&o, prm);
      switch (k) {
        case 0:
          alen = -1;
          break;
        case 1:
          alen = INT_MIN;
          break;
        case 2:
          alen = -(int)len;
          break;
        case 3:
          alen = 0;
          break;
        default:
          alen = len ? (int)vh_below(prm, (uint32_t)len) : 0;
          break;
      }
      lg_c_alen_variants++;
      if (alen > 0) {
        /* shorter alen: the block is cut to alen so that reading past alen is visible */
        lg_check_legacy_call(f, data, (size_t)alen, alen, &o);
      } else if (alen == 0) {
        lg_check_legacy_call(f, data, 0, 0, &o);
      } else {
        lg_check_legacy_call(f, data, len, alen, &o);
      }
    }
  }

  /* 3. name / string decoders at many offsets of one exact-size copy */
  if (len > 0 && (lg_parts & 4)) {
    lg_in_t     in   = lg_in_make(data, len);
    ares_buf_t *cbuf = ares_buf_create_const(in.p, len);
    size_t      noff = len <= 256 ? len : 96;
    if (cbuf != NULL) {
      for (i = 0; i < noff; i++) {
        size_t off;
        if (len <= 256) {
          off = i;
        } else if (i < 4) {
          static const size_t fixed[] = { 0, 12, 1, 2 };
          off = i < 2 ? fixed[i] : len - fixed[i];
        } else if (i < 48) {
          off = vh_below(prm, 600 < len ? 600 : (uint32_t)len);
        } else {
          off = vh_below(prm, (uint32_t)len);
        }
        lg_c_entry_calls += 5;
        lg_check_name_at(in.p, len, off, cbuf, (i & 3) == 0);
        lg_check_strings_at(in.p, len, off, cbuf, prm);
        if ((i & 3) == 1) {
          lg_check_multistring_at(in.p, len, off, cbuf, prm);
        }
      }
      ares_buf_destroy(cbuf);
    }
    /* encoded pointer one past the end / alen <= 0: must be refused */
    {
      char *s      = (char *)LG_SENT;
      long  enclen = -777;
      int   st;
      LG_ENTER("expand_name");
      st = ares_expand_name(in.p + len, in.p, (int)len, &s, &enclen);
      LG_LEAVE();
      if (st == ARES_SUCCESS) {
        lg_report("expand_name", "outside-buffer-accepted", data, len, "encoded == abuf + alen");
        if (s != NULL && s != (char *)LG_SENT) {
          ares_free_string(s);
        }
      }
      s = (char *)LG_SENT;
      LG_ENTER("expand_name");
      st = ares_expand_name(in.p, in.p, vh_chance(prm, 1, 2) ? 0 : -(int)len, &s, &enclen);
      LG_LEAVE();
      if (st == ARES_SUCCESS) {
        lg_report("expand_name", "nonpositive-alen-accepted", data, len, "alen <= 0");
        if (s != NULL && s != (char *)LG_SENT) {
          ares_free_string(s);
        }
      }
      {
        unsigned char *u = (unsigned char *)LG_SENT;
        LG_ENTER("expand_string");
        st = ares_expand_string(in.p + len, in.p, (int)len, &u, &enclen);
        LG_LEAVE();
        if (st == ARES_SUCCESS) {
          lg_report("expand_string", "outside-buffer-accepted", data, len, "encoded == abuf + alen");
          if (u != NULL && u != (unsigned char *)LG_SENT) {
            ares_free_string(u);
          }
        }
        u = (unsigned char *)LG_SENT;
        LG_ENTER("expand_string");
        st = ares_expand_string(in.p, in.p, vh_chance(prm, 1, 2) ? 0 : -1, &u, &enclen);
        LG_LEAVE();
        if (st == ARES_SUCCESS) {
          lg_report("expand_string", "nonpositive-alen-accepted", data, len, "alen <= 0");
          if (u != NULL && u != (unsigned char *)LG_SENT) {
            ares_free_string(u);
          }
        }
      }
    }
    lg_in_free(&in);
  }

  /* 4. hexdump / split */
  if (lg_parts & 8) {
    lg_check_hexdump(data, len);
    lg_check_split(data, len, prm);
    lg_check_split(data, len, prm);
  }

  /* 5. record -> addrinfo -> hostent / addrttl */
  if (lg_parts & 16) {
    lg_check_addrinfo(data, len, prm);
  }
}

#endif
