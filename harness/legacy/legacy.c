/* legacy.c - harness for properties C02 (profiles `total`, `names`) and C18 (profile `legacy`).
 *
 *   total  : one generated / mutated / seed-corpus byte string per case, handed to every decoding
 *            entry point (lg_total.h)
 *   names  : exhaustive small-scope enumeration of the name region (lg_names.h); --opt L=<n>
 *   legacy : one message per case, every legacy reply parser compared with the record API
 *            (lg_legacy.h)
 *
 * Options: --opt corpus=<dir with fuzzinput/ fuzznames/>   --opt L=<max string length for names>
 *          --opt dump=1 (with --verbose: print the case input as hex on stderr)
 */
#define CARES_NO_DEPRECATED 1
#include "ares_private.h"
#include "vh.h"
#include "lg_common.h"
#include "lg_gen.h"
#include "lg_total.h"
#include "lg_names.h"
#include "lg_legacy.h"

static uint8_t lg_case_buf[LG_MAXMSG + 16];

static const char *lg_len_class(size_t len)
{
  if (len == 0) {
    return "inputs_len_0";
  }
  if (len < 12) {
    return "inputs_len_lt12";
  }
  if (len <= 512) {
    return "inputs_len_le512";
  }
  if (len <= 65535) {
    return "inputs_len_le65535";
  }
  return "inputs_len_gt65535";
}

static vh_args_t a; /* static: the option strings stay reachable for LeakSanitizer */

int main(int argc, char **argv)
{
  uint64_t  i;
  int       mode;
  int       L;

  vh_parse_args(&a, argc, argv);
  lg_profile = a.profile;
  if (!strcmp(a.profile, "total")) {
    mode = 0;
  } else if (!strcmp(a.profile, "names")) {
    mode = 1;
  } else if (!strcmp(a.profile, "legacy")) {
    mode = 2;
  } else {
    fprintf(stderr, "unknown profile %s\n", a.profile);
    return 2;
  }
  lg_nodup_blank_rate = (unsigned)vh_opt_int(&a, "nodup_blank_rate", 1);
  lg_parts = (unsigned)vh_opt_int(&a, "parts", 0xff);
  L = (int)vh_opt_int(&a, "L", 4);
  if (L < 0 || L > 8) {
    fprintf(stderr, "L out of range\n");
    return 2;
  }
  if (mode != 1) {
    lg_load_corpus(vh_opt(&a, "corpus", NULL));
    if (lg_nseeds == 0) {
      fprintf(stderr, "seed corpus not found (--opt corpus=DIR)\n");
      return 2;
    }
  }
  if (ares_library_init_mem(ARES_LIB_INIT_ALL, lg_malloc, lg_free, lg_realloc) != ARES_SUCCESS) {
    fprintf(stderr, "ares_library_init_mem failed\n");
    return 2;
  }
  lg_watchdog_start();

  for (i = a.first; i < a.first + a.count; i++) {
    vh_rng_t rng;
    vh_rng_seed(&rng, vh_case_seed(a.seed, a.profile, i));
    vh_case_begin(i);
    if (mode == 1) {
      if (lg_names_case(i, L)) {
        vh_count("names_blocks_done");
        if (vh_want_sample()) {
          char sj[160];
          snprintf(sj, sizeof(sj), "{\"profile\":\"names\",\"block\":%llu,\"max_length\":%d,\"buffers_so_far\":%llu}", (unsigned long long)i, L,
                   (unsigned long long)lg_c_nm_buffers);
          vh_sample(sj);
        }
      } else {
        vh_inconclusive("beyond-enumeration");
      }
      continue;
    }
    {
      size_t    len  = 0;
      int       kind = lg_case_input(&rng, mode == 2 ? 60 : 25, lg_case_buf, &len);
      lg_scan_t sc;
      char      cn[40];
      snprintf(cn, sizeof(cn), "inputs_%s", lg_kind_names[kind]);
      vh_count(cn);
      vh_count(lg_len_class(len));
      if (vh_verbose) {
        size_t k;
        fprintf(stderr, "T case %llu kind %s len %zu\nT hex ", (unsigned long long)i, lg_kind_names[kind], len);
        for (k = 0; k < len && k < 4096; k++) {
          fprintf(stderr, "%02x", lg_case_buf[k]);
        }
        fprintf(stderr, "\n");
      }
      if (vh_want_sample()) {
        char   sj[400];
        size_t k, o;
        o = (size_t)snprintf(sj, sizeof(sj), "{\"profile\":\"%s\",\"idx\":%llu,\"input_kind\":\"%s\",\"len\":%zu,\"first_octets\":\"", a.profile,
                             (unsigned long long)i, lg_kind_names[kind], len);
        for (k = 0; k < len && k < 48; k++) {
          o += (size_t)snprintf(sj + o, sizeof(sj) - o, "%02x", lg_case_buf[k]);
        }
        snprintf(sj + o, sizeof(sj) - o, "\"}");
        vh_sample(sj);
      }
      if (mode == 0) {
        lg_scan(lg_case_buf, len, &sc);
        vh_count_n("scan_rr_headers", sc.rr_headers);
        vh_count_n("scan_pointers", sc.nptr);
        if (sc.rr_headers >= 1 || sc.nptr >= 1) {
          /* non-trivial: the input reaches RR parsing (>= 1 RR fixed header fits) or holds a
           * name with >= 1 compression pointer; distinct = distinct message shape */
          vh_count("nontrivial_cases");
          vh_fp_add(sc.shape);
        }
        lg_total_body(lg_case_buf, len, &rng);
      } else {
        lg_legacy_body(lg_case_buf, len, &rng);
      }
    }
  }
  if (mode == 0) {
    lg_total_flush_counters();
  } else if (mode == 1) {
    lg_name_flush_counters();
    vh_count_n("names_buffers", lg_c_nm_buffers);
    vh_count_n("names_nontrivial_buffers", lg_c_nm_nontrivial);
  } else {
    lg_legacy_flush_counters();
  }
  lg_cur_entry = NULL;
  ares_library_cleanup();
  if (lg_live != 0 && lg_ledger_reports == 0) {
    vh_cur_case = a.first;
    lg_violation(mode == 2 ? "leg:any:ledger-at-exit" : "tot:any:leak-at-exit", "%ld allocation(s) live after ares_library_cleanup",
                 lg_live);
  }
  vh_chunk_end();
  if (lg_ledger_reports != 0 || lg_live != 0) {
    /* the ledger has already attributed every leaked block to its case and call; skip
     * LeakSanitizer's at-exit pass, which could only repeat that without the attribution */
    fflush(stdout);
    _exit(0);
  }
  return 0;
}
