/* sim_cache.h - C08: the query cache only replays fresh, matching, successful answers.
 *
 * Soundness monitor (the cache may always miss).  Every response packet carries a unique serial in its
 * data, so a delivered record identifies the packet it came from.  A serial delivered to a request that
 * was started AFTER the packet was injected is a replay from the cache; the replay must satisfy the
 * rules of the statement with respect to the original acceptance. */

typedef struct {
  int      valid;
  int64_t  t_accept;      /* first delivery to a callback */
  int      epoch;         /* configuration epoch at acceptance */
  int      rcode, tc;
  int      nanswers;
  int      has_soa;
  uint32_t min_ttl;       /* over answer RRs (data) */
  uint32_t soa_ttl, soa_min;
  uint32_t rec_ttl;       /* TTL of the data records (uniform) */
  uint32_t ans_soa_ttl;   /* TTL of the authority SOA carried beside a positive answer (0 none) */
  uint32_t neg_ns_ttl;    /* TTL of the authority NS carried beside the SOA of a negative response (0 none) */
  char     qname[300];    /* lowercase, no trailing dot */
  uint16_t qtype, qclass;
  int      rd, cd, opcode;
  int      srv;
} ck_pkt_t;

static ck_pkt_t ck_pkt[SIM_MAXPKT];
static int      ck_replays_seen;

/* called from the server when it builds a response (hook set by the profile) */
static void ck_note_packet(uint32_t serial, const sdns_query_t *q, const srv_plan_t *pl, int srvidx)
{
  ck_pkt_t *c;
  if (serial == 0 || serial > SIM_MAXPKT) {
    return;
  }
  c = &ck_pkt[serial - 1];
  memset(c, 0, sizeof(*c));
  c->valid    = 1;
  c->t_accept = -1;
  c->srv      = srvidx;
  c->qtype    = q->qtype;
  c->qclass   = q->qclass;
  c->rd       = q->rd;
  c->cd       = q->cd;
  c->opcode   = q->opcode;
  snprintf(c->qname, sizeof(c->qname), "%s", q->qname);
  c->tc = (pl->action == SA_TC);
  switch (pl->action) {
    case SA_ANSWER:
    case SA_DUP:
    case SA_TC:
      c->rcode    = 0;
      c->nanswers = pl->nrec + pl->cname_chain;
      c->rec_ttl  = pl->ttl;
      c->min_ttl  = pl->ttl;
      c->ans_soa_ttl = (pl->action == SA_TC) ? 0 : sim_answer_auth_soa_ttl;
      if (pl->cname_chain > 0 && pl->ttl > 3) {
        /* CNAME k carries ttl - (k % 3) */
        uint32_t m = pl->ttl;
        int      k;
        for (k = 0; k < pl->cname_chain; k++) {
          if (pl->ttl - (uint32_t)(k % 3) < m) {
            m = pl->ttl - (uint32_t)(k % 3);
          }
        }
        c->min_ttl = m;
      }
      break;
    case SA_NXDOMAIN:
      c->rcode   = 3;
      c->has_soa = 1;
      c->neg_ns_ttl = sim_neg_ns_ttl;
      c->soa_ttl = pl->soa_ttl;
      c->soa_min = pl->soa_min;
      break;
    case SA_NXDOMAIN_NOSOA:
      c->rcode = 3;
      break;
    case SA_NODATA:
      c->rcode   = 0;
      c->has_soa = 1;
      c->neg_ns_ttl = sim_neg_ns_ttl;
      c->soa_ttl = pl->soa_ttl;
      c->soa_min = pl->soa_min;
      break;
    case SA_NODATA_NOSOA:
      c->rcode = 0;
      break;
    case SA_SERVFAIL:
      c->rcode = 2;
      break;
    case SA_REFUSED:
      c->rcode = 5;
      break;
    case SA_NOTIMP:
      c->rcode = 4;
      break;
    default:
      c->rcode = 1;
      break;
  }
}

static void ck_strip(const char *name, char *out, size_t outlen)
{
  size_t i, l;
  snprintf(out, outlen, "%s", name);
  l = strlen(out);
  if (l && out[l - 1] == '.') {
    out[l - 1] = 0;
  }
  for (i = 0; out[i]; i++) {
    out[i] = (char)tolower((unsigned char)out[i]);
  }
}

/* per completed request: classify every delivered serial */
static void mon_cache_tok_done(app_tok_t *t)
{
  int     i;
  int64_t now_s = sim_now_us / 1000000;
  char    want[300];
  if (t->cb_count != 1) {
    return;
  }
  ck_strip(t->name, want, sizeof(want));
  for (i = 0; i < t->nserials; i++) {
    uint32_t  s = t->serials[i];
    ck_pkt_t *c;
    int64_t   acc_s, age, life, cap;
    if (s == 0 || s > sim_npkt) {
      continue;
    }
    c = &ck_pkt[s - 1];
    if (!c->valid) {
      continue;
    }
    if (c->t_accept < 0) {
      /* acceptance = the moment the library read the packet from its socket (a response can be
       * accepted and cached without being delivered to any request, e.g. a server probe copy) */
      c->t_accept = sim_pktinfo[s - 1].t_read ? sim_pktinfo[s - 1].t_read : sim_now_us;
      c->epoch    = sim_pktinfo[s - 1].t_read ? sim_pktinfo[s - 1].epoch_read : ck_epoch;
      MON_EVAL("cache_accept");
    }
    if (sim_pktinfo[s - 1].t_inject >= t->t_start) {
      /* same packet delivered to the request it answered (e.g. several records of one answer) */
      continue;
    }
    /* ---- replay from the cache ---- */
    ck_replays_seen++;
    sim_note("cache_replays");
    MON_EVAL("cache_replay_rules");
    acc_s = c->t_accept / 1000000;
    age   = now_s - acc_s;
    if (app_cfg.qcache_max_ttl <= 0) {
      vh_violation("cache:replay-with-cache-disabled", "request '%s' got serial %u from the cache although qcache_max_ttl is %d", t->name, s,
                   app_cfg.qcache_max_ttl);
      continue;
    }
    if (c->tc) {
      vh_violation("cache:replayed-truncated", "request '%s' got a truncated response (serial %u) from the cache", t->name, s);
    }
    if (c->rcode != 0 && c->rcode != 3) {
      vh_violation("cache:replayed-error-rcode", "request '%s' got a cached response with rcode %d", t->name, c->rcode);
    }
    /* key */
    if (strcmp(c->qname, want) != 0 && !(t->kind == RK_SEARCH || t->kind == RK_SEARCH_DNSREC || t->kind == RK_GETADDRINFO ||
                                         t->kind == RK_GETHOSTBYNAME)) {
      vh_violation("cache:key:name", "request for '%s' was answered from the cache with a response to '%s'", want, c->qname);
    }
    if (t->kind <= RK_SEARCH_DNSREC && (c->qtype != (uint16_t)t->qtype || c->qclass != (uint16_t)t->qclass)) {
      vh_violation("cache:key:type-class", "request type %d class %d was answered from the cache with a response to type %u class %u",
                   t->qtype, t->qclass, c->qtype, c->qclass);
    }
    if (t->kind == RK_SEND_DNSREC && (c->rd != ((t->ai_flags >> 0) & 1) || c->cd != ((t->ai_flags >> 1) & 1))) {
      vh_violation("cache:key:flags", "request with RD=%d CD=%d was answered from the cache with a response to RD=%d CD=%d",
                   (t->ai_flags >> 0) & 1, (t->ai_flags >> 1) & 1, c->rd, c->cd);
    }
    /* freshness */
    /* "the lifetime its own TTLs allow": the smallest TTL of any record the response carries (for a negative response
     * also the SOA MINIMUM, RFC 2308) */
    if (c->nanswers > 0) {
      life = c->min_ttl;
      if (c->ans_soa_ttl > 0 && (int64_t)c->ans_soa_ttl < life) {
        life = c->ans_soa_ttl;
      }
    } else if (c->has_soa) {
      life = c->soa_ttl < c->soa_min ? c->soa_ttl : c->soa_min;
      if (c->neg_ns_ttl > 0 && (int64_t)c->neg_ns_ttl < life) {
        life = c->neg_ns_ttl;
      }
    } else {
      life = INT64_MAX / 4; /* carries no TTL-bearing record at all */
    }
    cap = app_cfg.qcache_max_ttl;
    if (life > cap) {
      life = cap;
    }
    if (age >= life) {
      char key[96];
      snprintf(key, sizeof(key), "cache:stale:%s", c->nanswers > 0 ? "data" : c->rcode == 3 ? "nxdomain" : c->has_soa ? "nodata-soa" : "nodata-nosoa");
      vh_violation(key, "request '%s' at age %lld s got a cached response whose lifetime is %lld s (answers %d, min ttl %u, soa ttl %u min %u, max_ttl %d)",
                   t->name, (long long)age, (long long)life, c->nanswers, c->min_ttl, c->soa_ttl, c->soa_min, app_cfg.qcache_max_ttl);
    }
    if (c->epoch != ck_epoch) {
      vh_violation("cache:replay-across-reconfig", "request '%s' got a response cached before a server-list change / reinit", t->name);
    }
    if (c->nanswers > 0 && t->ser_auth[i] && c->ans_soa_ttl > 0) {
      /* the authority SOA riding along with a positive answer: reduced like every other record (never a wrapped value) */
      uint32_t expect = c->ans_soa_ttl > (uint32_t)age ? c->ans_soa_ttl - (uint32_t)age : 0;
      MON_EVAL("cache_ttl_decrement_authority");
      if (t->ttls[i] != expect) {
        vh_violation("cache:ttl-not-decremented:authority", "request '%s' (%s): cached authority SOA with original TTL %u, cached %lld s ago, delivered TTL %u (expected %u)",
                     t->name, rk_names[t->kind], c->ans_soa_ttl, (long long)age, t->ttls[i], expect);
      }
      continue;
    }
    /* TTL visible to the application = original - whole seconds cached */
    if (c->nanswers > 0 && t->kind != RK_GETHOSTBYNAME && t->kind != RK_GETHOSTBYADDR && t->kind != RK_GETNAMEINFO) {
      uint32_t expect = c->rec_ttl > (uint32_t)age ? c->rec_ttl - (uint32_t)age : 0;
      MON_EVAL("cache_ttl_decrement");
      if (t->ttls[i] != expect && !(c->min_ttl != c->rec_ttl)) {
        char key[96];
        snprintf(key, sizeof(key), "cache:ttl-not-decremented:%s", rk_names[t->kind]);
        vh_violation(key, "request '%s' (%s): cached record with original TTL %u, cached %lld s ago, delivered TTL %u (expected %u)", t->name,
                     rk_names[t->kind], c->rec_ttl, (long long)age, t->ttls[i], expect);
      }
    }
  }
}

static void gen_cache(vh_rng_t *rng)
{
  static const uint32_t ttls[]   = { 0, 1, 2, 3, 5, 10, 60, 300, 3600, 86400, 0x7fffffff };
  static const int      maxttl[] = { 0, 1, 3, 5, 60, 3600 };
  int                   i, nnames, nreq;
  int64_t               t = 0;
  vsrv_t               *s;
  char                  names[6][64];
  gen_profile_flags = GP_NO_REENTRANT | GP_NO_CANCEL_IN_CB | GP_NO_WEIRD_TYPES | GP_SIMPLE_NAMES;
  gen_default_simcfg(rng, 0);
  gen_default_appcfg(rng);
  gen_srv_base(3);
  app_cfg.flags = ARES_FLAG_NOSEARCH | (vh_chance(rng, 1, 2) ? ARES_FLAG_EDNS : 0) | (vh_chance(rng, 1, 3) ? ARES_FLAG_DNS0x20 : 0) |
                  (vh_chance(rng, 1, 6) ? ARES_FLAG_NOCHECKRESP : 0) | (vh_chance(rng, 1, 8) ? ARES_FLAG_IGNTC : 0);
  app_cfg.tries          = 2;
  app_cfg.timeout_ms     = 400;
  app_cfg.nsrv_cfg       = vh_range(rng, 1, 2);
  app_cfg.srv_cfg[0]     = 0;
  app_cfg.srv_cfg[1]     = 1;
  app_cfg.qcache_max_ttl = maxttl[vh_below(rng, 6)];
  if (vh_chance(rng, 1, 3)) {
    static const uint32_t st[] = { 1, 1, 2, 3, 5, 10, 60 };
    sim_answer_auth_soa_ttl    = st[vh_below(rng, 7)];
  }
  if (vh_chance(rng, 1, 3)) {
    static const uint32_t nt[] = { 1, 2, 5, 30, 300 };
    sim_neg_ns_ttl             = nt[vh_below(rng, 5)];
  }
  if (vh_chance(rng, 1, 2)) {
    app_cfg.qcache_max_ttl = 3600;
  }
  if (vh_chance(rng, 1, 5)) {
    /* socket calls that fail now and then: attempts end on the spot, answers arrive on replacement connections */
    sim_rand_fault_permille = vh_chance(rng, 1, 2) ? 15 : 50;
    sim_note("cache_with_socket_faults");
  }
  if (vh_chance(rng, 1, 3)) {
    static const uint32_t et[] = { 5, 60, 600, 3600 };
    sim_error_soa_ttl          = et[vh_below(rng, 4)];
    sim_note("cache_error_replies_carry_soa");
  }
  mon_enable_idx = mon_enable_fd = mon_enable_timer = 0;
  net_unique_names                                  = 0;
  mon_enable_net                                    = 0;
  nnames = vh_range(rng, 2, 5);
  for (i = 0; i < nnames; i++) {
    snprintf(names[i], sizeof(names[i]), "c%d.cache.test", i);
  }
  /* per-name behaviour on every server */
  for (i = 0; i < sim_nsrv; i++) {
    int k;
    s               = &sim_srv[i];
    s->delay_min_ms = s->delay_max_ms = 2;
    s->nrules                         = 0;
    for (k = 0; k < nnames; k++) {
      sim_rule_t *r = &s->rules[s->nrules++];
      int         a = (int)vh_below(rng, 100);
      memset(r, 0, sizeof(*r));
      snprintf(r->name, sizeof(r->name), "%s", names[k]);
      r->action = a < 50 ? SA_ANSWER : a < 62 ? SA_NXDOMAIN : a < 74 ? SA_NODATA : a < 80 ? SA_NODATA_NOSOA : a < 85 ? SA_NXDOMAIN_NOSOA
                  : a < 88 ? SA_SERVFAIL : a < 91 ? SA_FORMERR_OPT : a < 96 ? SA_TC : a < 98 ? SA_REFUSED : SA_NOTIMP;
      r->nrec        = vh_range(rng, 1, 3);
      r->ttl         = ttls[vh_below(rng, sizeof(ttls) / sizeof(ttls[0]))];
      r->cname_chain = 0;
      if (i > 0) {
        /* servers agree on behaviour (so that failover does not change the answer class) */
        *r = sim_srv[0].rules[k];
      }
    }
  }
  /* requests: increasing times with jumps near the interesting ages */
  nreq = vh_range(rng, 4, 14);
  for (i = 0; i < nreq; i++) {
    int        ti;
    app_tok_t *tk;
    int        r = (int)vh_below(rng, 100);
    static const int64_t gaps_ms[] = { 0, 1, 10, 500, 999, 1000, 1001, 1999, 2000, 2999, 3000, 4999, 5000, 5001, 9999, 59999, 60001, 3600000 };
    t += gaps_ms[vh_below(rng, sizeof(gaps_ms) / sizeof(gaps_ms[0]))] * 1000;
    ti = gen_add_token(rng, t);
    if (ti < 0) {
      break;
    }
    tk = &app_tok[ti];
    {
      static const int ks[] = { RK_SEND, RK_SEND_DNSREC, RK_QUERY, RK_QUERY_DNSREC, RK_SEARCH, RK_SEARCH_DNSREC, RK_GETADDRINFO, RK_GETHOSTBYNAME };
      tk->kind              = ks[vh_below(rng, 8)];
    }
    {
      const char *base = names[vh_below(rng, (uint32_t)nnames)];
      int         v    = (int)vh_below(rng, 4);
      if (v == 0) {
        snprintf(tk->name, sizeof(tk->name), "%s", base);
      } else if (v == 1) {
        snprintf(tk->name, sizeof(tk->name), "%s.", base);
      } else {
        size_t k;
        snprintf(tk->name, sizeof(tk->name), "%s", base);
        for (k = 0; tk->name[k]; k++) {
          if (v == 2 || (k % 2)) {
            tk->name[k] = (char)toupper((unsigned char)tk->name[k]);
          }
        }
      }
    }
    tk->qtype    = r < 50 ? 1 : r < 75 ? 28 : 16;
    tk->qclass   = 1;
    if ((tk->kind == RK_SEND_DNSREC || tk->kind == RK_QUERY_DNSREC || tk->kind == RK_QUERY || tk->kind == RK_SEND) && vh_chance(rng, 1, 6)) {
      /* types and classes the library has no name for are still different types and classes */
      static const int ut[] = { 65280, 65281, 65282, 4660, 4661 };
      static const int uc[] = { 1, 1, 3, 4, 254, 65280, 65281 };
      tk->qtype  = ut[vh_below(rng, 5)];
      tk->qclass = uc[vh_below(rng, 7)];
      sim_note("cache_request_with_unnamed_type_or_class");
    }
    tk->family   = vh_chance(rng, 1, 2) ? AF_INET : AF_INET6;
    tk->ai_flags = ARES_AI_NOSORT;
    tk->action   = RA_NONE;
    if (tk->kind == RK_SEND_DNSREC) {
      /* ai_flags doubles as (RD, CD) selector for raw dnsrec requests: see app_start_token_flags */
      tk->ai_flags = (int)vh_below(rng, 4);
    }
  }
  /* reconfiguration in between */
  if (vh_chance(rng, 1, 3)) {
    gen_add_action((int64_t)(vh_rand64(rng) % (uint64_t)(t + 1)), AA_SET_SERVERS, 0, 0);
  }
  if (vh_chance(rng, 1, 6)) {
    gen_add_action((int64_t)(vh_rand64(rng) % (uint64_t)(t + 1)), AA_REINIT, 0, vh_chance(rng, 1, 3) ? 2 : 0);
  }
  app_sched.max_steps     = 20000;
  app_sched.idle_ms_after = 5;
}

static void run_cache(vh_rng_t *rng)
{
  uint64_t h = VH_FNV_INIT;
  int      i;
  memset(ck_pkt, 0, sizeof(ck_pkt));
  app_dnsrec_flags_from_aiflags = 1;
  ck_epoch        = 0;
  ck_replays_seen = 0;
  gen_cache(rng);
  srv_built_hook    = ck_note_packet;
  mon_tok_done_hook = mon_cache_tok_done;
  run_generic(rng);
  srv_built_hook  = NULL;
  app_dnsrec_flags_from_aiflags = 0;
  case_nontrivial = ck_replays_seen > 0;
  if (case_nontrivial) {
    h = vh_fnv_u64(h, (uint64_t)app_cfg.qcache_max_ttl);
    for (i = 0; i < app_ntok && i < 16; i++) {
      h = vh_fnv_u64(h, (uint64_t)app_tok[i].kind * 64 + (uint64_t)(app_tok[i].cb_status & 63));
      h = vh_fnv_u64(h, (uint64_t)(app_tok[i].tx_at_done - app_tok[i].tx_before > 0));
    }
    vh_count("nontrivial_cases");
    vh_fp_add(h);
  }
}
