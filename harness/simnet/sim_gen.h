/* sim_gen.h - case generation: servers, configuration, names, tokens, scripts. */

static int gen_tok_counter; /* makes names unique per token */
static int gen_profile_flags;
#define GP_NO_REENTRANT   (1 << 0)
#define GP_SIMPLE_NAMES   (1 << 1)
#define GP_ONLY_WIRE      (1 << 2) /* only send/query kinds (one wire query per token) */
#define GP_NO_WEIRD_TYPES (1 << 3)
#define GP_NO_CANCEL_IN_CB (1 << 4) /* re-entrant ares_cancel confined to its own sub-workload */
#define GP_SETSRV_IN_CB    (1 << 5) /* callbacks may replace the server list (own sub-workload: listed finding) */

static void gen_srv_base(int n)
{
  int i;
  sim_nsrv = n;
  for (i = 0; i < n; i++) {
    vsrv_t *s = &sim_srv[i];
    memset(s, 0, sizeof(*s));
    if (i % 2 == 0) {
      s->family  = AF_INET;
      s->addr[0] = 10;
      s->addr[1] = 0;
      s->addr[2] = 0;
      s->addr[3] = (uint8_t)(1 + i);
    } else {
      s->family   = AF_INET6;
      s->addr[0]  = 0xfd;
      s->addr[1]  = 0x00;
      s->addr[15] = (uint8_t)(1 + i);
    }
    s->udp_port     = 53;
    s->tcp_port     = 53;
    s->default_nrec = 1;
    s->default_ttl  = 300;
    s->w_udp[SA_ANSWER] = 1;
    s->w_tcp[SA_ANSWER] = 1;
    s->tcp_connect          = 1;
    s->tcp_connect_delay_ms = 1;
  }
}

enum { MOOD_GOOD = 0, MOOD_FLAKY, MOOD_SILENT, MOOD_ERR, MOOD_HOSTILE, MOOD_TC, MOOD_FORMERR, MOOD_NEG, MOOD_RESET, MOOD_BADCOOKIE, MOOD_RESEND_MIX, MOOD__COUNT };

static void gen_srv_mood(vsrv_t *s, int mood, vh_rng_t *rng)
{
  memset(s->w_udp, 0, sizeof(s->w_udp));
  memset(s->w_tcp, 0, sizeof(s->w_tcp));
  switch (mood) {
    case MOOD_GOOD:
      s->w_udp[SA_ANSWER] = 95;
      s->w_udp[SA_NODATA] = 3;
      s->w_udp[SA_DUP]    = 2;
      s->w_tcp[SA_ANSWER] = 100;
      break;
    case MOOD_FLAKY:
      s->w_udp[SA_ANSWER]   = 40;
      s->w_udp[SA_SILENT]   = 30;
      s->w_udp[SA_SERVFAIL] = 10;
      s->w_udp[SA_TC]       = 8;
      s->w_udp[SA_DUP]      = 5;
      s->w_udp[SA_NXDOMAIN] = 7;
      s->w_tcp[SA_ANSWER]   = 60;
      s->w_tcp[SA_SILENT]   = 15;
      s->w_tcp[SA_CLOSE]    = 15;
      s->w_tcp[SA_SERVFAIL] = 10;
      break;
    case MOOD_SILENT:
      s->w_udp[SA_SILENT] = 100;
      s->w_tcp[SA_SILENT] = 100;
      break;
    case MOOD_ERR:
      s->w_udp[SA_SERVFAIL] = 40;
      s->w_udp[SA_REFUSED]  = 30;
      s->w_udp[SA_NOTIMP]   = 20;
      s->w_udp[SA_ANSWER]   = 10;
      s->w_tcp[SA_SERVFAIL] = 50;
      s->w_tcp[SA_REFUSED]  = 30;
      s->w_tcp[SA_ANSWER]   = 20;
      break;
    case MOOD_HOSTILE:
      s->w_udp[SA_GARBAGE]    = 15;
      s->w_udp[SA_ZEROLEN]    = 10;
      s->w_udp[SA_WRONGID]    = 10;
      s->w_udp[SA_WRONGNAME]  = 10;
      s->w_udp[SA_WRONGTYPE]  = 5;
      s->w_udp[SA_WRONGCLASS] = 5;
      s->w_udp[SA_WRONGCASE]  = 10;
      s->w_udp[SA_WRONGADDR]  = 10;
      s->w_udp[SA_NOQUESTION] = 5;
      s->w_udp[SA_ANSWER]     = 20;
      s->w_tcp[SA_GARBAGE]    = 20;
      s->w_tcp[SA_WRONGID]    = 10;
      s->w_tcp[SA_WRONGNAME]  = 10;
      s->w_tcp[SA_CLOSE]      = 10;
      s->w_tcp[SA_RESET]      = 10;
      s->w_tcp[SA_ANSWER]     = 40;
      break;
    case MOOD_TC:
      s->w_udp[SA_TC]     = 80;
      s->w_udp[SA_ANSWER] = 20;
      s->w_tcp[SA_ANSWER] = 70;
      s->w_tcp[SA_SILENT] = 10;
      s->w_tcp[SA_CLOSE]  = 10;
      s->w_tcp[SA_RESET]  = 10;
      if (vh_chance(rng, 1, 3)) {
        /* truncates over TCP as well: the truncated TCP answer is the answer, there is no second upgrade */
        s->tc_over_tcp      = 1;
        s->w_tcp[SA_TC]     = 60;
        s->w_tcp[SA_ANSWER] = 10;
        sim_note("server_truncates_over_tcp_too");
      }
      break;
    case MOOD_FORMERR:
      s->w_udp[SA_FORMERR_NOOPT] = 50;
      s->w_udp[SA_FORMERR_OPT]   = 20;
      s->w_udp[SA_BADCOOKIE]     = 15;
      s->w_udp[SA_ANSWER]        = 15;
      s->w_tcp[SA_ANSWER]        = 70;
      s->w_tcp[SA_FORMERR_NOOPT] = 30;
      break;
    case MOOD_NEG:
      s->w_udp[SA_NXDOMAIN]       = 35;
      s->w_udp[SA_NODATA]         = 25;
      s->w_udp[SA_NODATA_NOSOA]   = 10;
      s->w_udp[SA_NXDOMAIN_NOSOA] = 10;
      s->w_udp[SA_ANSWER]         = 20;
      s->w_tcp[SA_NXDOMAIN]       = 40;
      s->w_tcp[SA_NODATA]         = 30;
      s->w_tcp[SA_ANSWER]         = 30;
      break;
    case MOOD_BADCOOKIE:
      s->w_udp[SA_BADCOOKIE] = 85;
      s->w_udp[SA_ANSWER]    = 10;
      s->w_udp[SA_SILENT]    = 5;
      s->w_tcp[SA_ANSWER]    = 60;
      s->w_tcp[SA_SILENT]    = 20;
      s->w_tcp[SA_CLOSE]     = 20;
      s->ck_mode             = 1 + (int)vh_below(rng, 2);
      break;
    case MOOD_RESEND_MIX:
      /* replies that make the library re-send (error rcodes, truncation, FORMERR, bad cookie), several copies of
       * them, and datagrams that end the connection (unparsable), all from one server: with a few queries in
       * flight and equal delays they meet in one read pass */
      s->w_udp[SA_SERVFAIL]      = 20;
      s->w_udp[SA_REFUSED]       = 8;
      s->w_udp[SA_TC]            = 17;
      s->w_udp[SA_FORMERR_NOOPT] = 10;
      s->w_udp[SA_BADCOOKIE]     = 10;
      s->w_udp[SA_GARBAGE]       = 15;
      s->w_udp[SA_DUP]           = 10;
      s->w_udp[SA_ANSWER]        = 10;
      s->w_tcp[SA_ANSWER]        = 80;
      s->w_tcp[SA_SERVFAIL]      = 20;
      s->ck_mode                 = 1;
      break;
    case MOOD_RESET:
    default:
      s->w_udp[SA_RESET]  = 40;
      s->w_udp[SA_ANSWER] = 40;
      s->w_udp[SA_SILENT] = 20;
      s->w_tcp[SA_RESET]  = 30;
      s->w_tcp[SA_CLOSE]  = 30;
      s->w_tcp[SA_ANSWER] = 40;
      break;
  }
  (void)rng;
}

static void gen_srv_mood_fwd(int srv, int moodidx)
{
  static const int moods[] = { MOOD_GOOD, MOOD_GOOD, MOOD_SILENT, MOOD_ERR, MOOD_FLAKY, MOOD_NEG, MOOD_RESET };
  if (srv >= 0 && srv < sim_nsrv) {
    gen_srv_mood(&sim_srv[srv], moods[moodidx % 7], NULL);
    sim_srv[srv].w_udp[SA_DUP] = 0;
    sim_srv[srv].w_udp[SA_TC]  = 0;
  }
}

/* name pool ----------------------------------------------------------- */
static void gen_name(char *out, size_t outlen, vh_rng_t *rng, int uniq, int allow_weird)
{
  int k = allow_weird ? vh_range(rng, 0, 19) : vh_range(rng, 0, 5);
  switch (k) {
    case 0:
    case 1:
    case 2:
      snprintf(out, outlen, "t%d.example.com", uniq);
      break;
    case 3:
      snprintf(out, outlen, "host%d", uniq);
      break;
    case 4:
      snprintf(out, outlen, "t%d.example.com.", uniq);
      break;
    case 5:
      snprintf(out, outlen, "T%d.Sub.Example.ORG", uniq);
      break;
    case 6:
      {
        /* escaped decimal form: text much longer than wire form */
        int    nesc = vh_range(rng, 40, 62);
        int    i;
        size_t o = 0;
        for (i = 0; i < nesc && o + 5 < outlen; i++) {
          o += (size_t)snprintf(out + o, outlen - o, "\\%03d", 65 + (i % 26));
        }
        snprintf(out + o, outlen - o, ".t%d.test", uniq);
        break;
      }
    case 7:
      {
        /* near-maximum length: labels of 63, total text length 240..256 */
        int    total = vh_range(rng, 236, 258);
        size_t o     = (size_t)snprintf(out, outlen, "t%d", uniq);
        int    lab   = (int)o;
        while ((int)o < total && o + 2 < outlen) {
          if (lab >= 63 - (int)vh_below(rng, 3)) {
            out[o++] = '.';
            lab      = 0;
          } else {
            out[o++] = (char)('a' + vh_below(rng, 26));
            lab++;
          }
        }
        if (o && out[o - 1] == '.') {
          out[o - 1] = 'z';
        }
        out[o] = 0;
        break;
      }
    case 8:
      snprintf(out, outlen, "a..b%d.example.com", uniq);
      break;
    case 9:
      snprintf(out, outlen, "%s", vh_chance(rng, 1, 2) ? "." : "");
      break;
    case 10:
      snprintf(out, outlen, "_sip._tcp.t%d.example.com", uniq);
      break;
    case 11:
      snprintf(out, outlen, "a\\.b%d.ex\\@mple.com", uniq);
      break;
    case 12:
      snprintf(out, outlen, "%s", vh_chance(rng, 1, 2) ? "192.0.2.7" : "2001:db8::7");
      break;
    case 13:
      snprintf(out, outlen, "%s", vh_chance(rng, 1, 2) ? "localhost" : "foo.localhost");
      break;
    case 14:
      snprintf(out, outlen, "t%d.onion", uniq);
      break;
    case 15:
      snprintf(out, outlen, "hostfile.example.com");
      break;
    case 16:
      snprintf(out, outlen, "alias%d", uniq % 2);
      break;
    case 17:
      {
        /* one label of 64 (too long) or exactly 63 */
        int    l = vh_chance(rng, 1, 2) ? 63 : 64;
        int    i;
        size_t o = 0;
        for (i = 0; i < l; i++) {
          out[o++] = 'x';
        }
        snprintf(out + o, outlen - o, ".t%d.example.com", uniq);
        break;
      }
    case 18:
      snprintf(out, outlen, "t%d.with space.example.com", uniq);
      break;
    default:
      snprintf(out, outlen, "t%d.sub.test", uniq);
      break;
  }
}

static const int gen_qtypes[]       = { 1, 1, 1, 28, 28, 16, 12, 15, 2, 6, 5, 33, 255, 65280, 41 };
static const int gen_qtypes_plain[] = { 1, 1, 28, 16, 12, 15 };

static void gen_fill_token(app_tok_t *t, vh_rng_t *rng, int depth)
{
  int uniq = gen_tok_counter++;
  int r;
  t->used  = 1;
  t->depth = depth;
  if (gen_profile_flags & GP_ONLY_WIRE) {
    static const int ks[] = { RK_SEND, RK_SEND_DNSREC, RK_QUERY, RK_QUERY_DNSREC };
    t->kind               = ks[vh_below(rng, 4)];
  } else {
    t->kind = (int)vh_below(rng, RK__COUNT);
  }
  gen_name(t->name, sizeof(t->name), rng, uniq, !(gen_profile_flags & GP_SIMPLE_NAMES));
  if (gen_profile_flags & GP_NO_WEIRD_TYPES) {
    t->qtype = gen_qtypes_plain[vh_below(rng, sizeof(gen_qtypes_plain) / sizeof(int))];
  } else {
    t->qtype = gen_qtypes[vh_below(rng, sizeof(gen_qtypes) / sizeof(int))];
  }
  t->qclass = vh_chance(rng, 1, 12) ? 3 : 1;
  if (gen_profile_flags & GP_NO_WEIRD_TYPES) {
    t->qclass = 1;
  }
  r         = (int)vh_below(rng, 4);
  t->family = r == 0 ? AF_INET6 : r == 1 ? AF_UNSPEC : AF_INET;
  if (t->kind == RK_GETHOSTBYNAME && t->family == AF_UNSPEC && vh_chance(rng, 1, 2)) {
    t->family = AF_INET;
  }
  t->ai_flags = 0;
  if (vh_chance(rng, 1, 3)) {
    t->ai_flags |= ARES_AI_NOSORT;
  }
  if (vh_chance(rng, 1, 4)) {
    t->ai_flags |= ARES_AI_CANONNAME;
  }
  if (t->kind == RK_GETHOSTBYADDR || t->kind == RK_GETNAMEINFO) {
    if (t->family == AF_UNSPEC) {
      t->family = AF_INET;
    }
    if (t->family == AF_INET) {
      t->addr[0] = 10;
      t->addr[1] = (uint8_t)vh_below(rng, 3);
      t->addr[2] = (uint8_t)(uniq >> 8);
      t->addr[3] = (uint8_t)uniq;
      if (vh_chance(rng, 1, 10)) {
        t->addr[0] = 10;
        t->addr[1] = 1;
        t->addr[2] = 2;
        t->addr[3] = 3; /* present in the hosts file */
      }
    } else {
      memset(t->addr, 0, 16);
      t->addr[0]  = 0xfd;
      t->addr[1]  = 0x5e;
      t->addr[14] = (uint8_t)(uniq >> 8);
      t->addr[15] = (uint8_t)uniq;
    }
    snprintf(t->name, sizeof(t->name), "(addr)");
    t->ni_flags = 0;
    if (t->kind == RK_GETNAMEINFO && !(gen_profile_flags & GP_NO_WEIRD_TYPES) && vh_chance(rng, 1, 3)) {
      /* every combination of the flag bits, the contradictory and the refused ones included */
      static const int nif[] = { ARES_NI_NOFQDN, ARES_NI_NUMERICHOST, ARES_NI_NAMEREQD, ARES_NI_NUMERICSERV, ARES_NI_DGRAM,
                                 ARES_NI_LOOKUPHOST, ARES_NI_LOOKUPSERVICE, ARES_NI_NUMERICSCOPE, ARES_NI_IDN };
      int k, n = vh_range(rng, 1, 4);
      for (k = 0; k < n; k++) {
        t->ni_flags |= nif[vh_below(rng, sizeof(nif) / sizeof(nif[0]))];
      }
      sim_note("getnameinfo_flag_variety");
    }
  }
  t->odd_args = 0;
  if (!(gen_profile_flags & GP_NO_WEIRD_TYPES) && vh_chance(rng, 1, 14) &&
      (t->kind == RK_GETADDRINFO || t->kind == RK_GETHOSTBYNAME || t->kind == RK_GETHOSTBYADDR)) {
    t->odd_args = 1 + (int)vh_below(rng, 462);
    sim_note("request_with_odd_arguments");
  }
  /* re-entrant action */
  t->action = RA_NONE;
  if (!(gen_profile_flags & GP_NO_REENTRANT)) {
    int p = (int)vh_below(rng, 100);
    if (depth == 0) {
      if (p < 12) {
        t->action = RA_START1;
      } else if (p < 18) {
        t->action = RA_START2;
      } else if (p < 28) {
        t->action = RA_CANCEL;
      } else if (p < 36) {
        t->action = RA_READONLY;
      } else if (p < 40) {
        t->action = RA_START_SAME;
      } else if (p < 52 && (gen_profile_flags & GP_SETSRV_IN_CB)) {
        t->action = RA_SETSERVERS;
      }
    } else if (depth < 3) {
      if (p < 6) {
        t->action = RA_START1;
      } else if (p < 10) {
        t->action = RA_CANCEL;
      } else if (p < 14) {
        t->action = RA_READONLY;
      }
    }
  }
  if (t->action == RA_CANCEL && (gen_profile_flags & GP_NO_CANCEL_IN_CB)) {
    t->action = RA_READONLY;
  }
}

static void gen_alt_servers(int *idx, int *n, vh_rng_t *rng)
{
  int i, cnt = vh_range(rng, 1, sim_nsrv < 3 ? sim_nsrv : 3);
  int used[SIM_MAXSRV] = { 0 };
  *n = 0;
  for (i = 0; i < cnt; i++) {
    int s = (int)vh_below(rng, (uint32_t)sim_nsrv);
    if (!used[s]) {
      used[s]     = 1;
      idx[(*n)++] = s;
    }
  }
  if (vh_chance(rng, 1, 4)) {
    /* re-install the same list */
    memcpy(idx, app_cfg.srv_cfg, sizeof(int) * (size_t)app_cfg.nsrv_cfg);
    *n = app_cfg.nsrv_cfg;
  }
}

static void gen_add_action(int64_t t, int kind, int tok, int arg)
{
  if (app_nact < APP_MAXACT) {
    app_act[app_nact].t    = t;
    app_act[app_nact].kind = kind;
    app_act[app_nact].tok  = tok;
    app_act[app_nact].arg  = arg;
    app_act[app_nact].done = 0;
    app_nact++;
  }
}

static int gen_add_token(vh_rng_t *rng, int64_t t)
{
  int ti;
  if (app_ntok >= app_max_tokens) {
    return -1;
  }
  ti = app_ntok++;
  memset(&app_tok[ti], 0, sizeof(app_tok[ti]));
  gen_fill_token(&app_tok[ti], rng, 0);
  gen_add_action(t, AA_START, ti, 0);
  return ti;
}

static void gen_default_simcfg(vh_rng_t *rng, int hostile)
{
  memset(&sim_cfg, 0, sizeof(sim_cfg));
  sim_cfg.nonblocking_flag = hostile ? vh_chance(rng, 9, 10) : 1;
  sim_cfg.tfo_supported    = hostile ? vh_chance(rng, 3, 10) : 0;
  sim_cfg.have_getsockname = hostile ? vh_chance(rng, 9, 10) : 1;
  sim_cfg.have_bind        = vh_chance(rng, 1, 2);
  sim_cfg.local4[0]        = 10;
  sim_cfg.local4[1]        = 9;
  sim_cfg.local4[2]        = 9;
  sim_cfg.local4[3]        = 9;
  sim_cfg.local6[0]        = 0xfd;
  sim_cfg.local6[1]        = 0x00;
  sim_cfg.local6[15]       = 0x99;
  if (hostile) {
    int r                   = (int)vh_below(rng, 100);
    sim_cfg.tcp_seg_mode    = (int)vh_below(rng, 3);
    sim_cfg.tcp_write_mode  = (int)vh_below(rng, 3);
    sim_cfg.wblock_permille = vh_chance(rng, 1, 3) ? 200 : 0;
    sim_cfg.udp_wblock_permille = vh_chance(rng, 1, 4) ? 250 : 0; /* a full socket buffer: datagrams wait in the library */
    sim_cfg.legacy_poll     = r < 70 ? 0 : r < 85 ? 1 : 2;
    sim_cfg.one_fd_per_call = vh_chance(rng, 1, 5);
    sim_cfg.use_pending_write_cb = vh_chance(rng, 1, 5);
    sim_cfg.use_sock_cfg_cb      = vh_chance(rng, 3, 10);
    sim_cfg.use_sock_create_cb   = vh_chance(rng, 3, 10);
    sim_cfg.bsd_send_on_connecting = vh_chance(rng, 1, 3);
    sim_cfg.tfo_late_handshake     = vh_chance(rng, 1, 3);
  }
}

static void gen_default_appcfg(vh_rng_t *rng)
{
  memset(&app_cfg, 0, sizeof(app_cfg));
  app_cfg.flags          = ARES_FLAG_EDNS;
  app_cfg.timeout_ms     = 500;
  app_cfg.tries          = 2;
  app_cfg.ndots          = 1;
  app_cfg.qcache_max_ttl = 0;
  app_cfg.ednspsz        = 1232;
  snprintf(app_cfg.lookups, sizeof(app_cfg.lookups), "b");
  app_cfg.nsrv_cfg   = 1;
  app_cfg.srv_cfg[0] = 0;
  snprintf(app_cfg.hosts_content, sizeof(app_cfg.hosts_content),
           "127.0.0.1 localhost\n10.1.2.3 hostfile.example.com hf\nfd5e::7 hostfile6.example.com hf6\n"
           "10.1.2.4 dual.example.com dual\n10.1.2.5 dual.example.com\nfd5e::8 dual.example.com\nfd5e::9 sixfirst.example.com\n10.1.2.6 sixfirst.example.com\n"
           "2001:db8:85a3:8d3:1319:8a2e:370:7348 longsix.example.com l6\n::ffff:203.0.113.77 mapped.example.com\n");
  (void)rng;
}

/* profile: hostile (C01/C10 and the common superset) */
static void gen_hostile(vh_rng_t *rng)
{
  int     i, ntok, n;
  int64_t horizon;
  gen_default_simcfg(rng, 1);
  gen_default_appcfg(rng);
  gen_srv_base(4);
  for (i = 0; i < sim_nsrv; i++) {
    vsrv_t *s = &sim_srv[i];
    gen_srv_mood(s, (int)vh_below(rng, MOOD__COUNT), rng);
    if (vh_chance(rng, 1, 5)) {
      s->udp_port = (uint16_t)(5300 + i);
      s->tcp_port = vh_chance(rng, 1, 2) ? s->udp_port : (uint16_t)(5400 + i);
    }
    s->tcp_connect          = vh_chance(rng, 7, 10) ? (int)vh_below(rng, 2) : 2 + (int)vh_below(rng, 3);
    s->tcp_connect_delay_ms = (int)vh_below(rng, 40);
    s->delay_min_ms         = 0;
    s->delay_max_ms         = (int)vh_below(rng, 60);
    s->default_nrec         = vh_chance(rng, 1, 6) ? vh_range(rng, 2, 30) : 1;
    s->default_ttl          = vh_chance(rng, 1, 8) ? 0 : (uint32_t)vh_below(rng, 600);
    if (s->w_udp[SA_BADCOOKIE] < 50) {
      s->ck_mode = (int)vh_below(rng, 3);
    }
    memset(s->ck_secret, 0x40 + i, 8);
  }
  /* channel options */
  app_cfg.flags = 0;
  {
    static const int fl[] = { ARES_FLAG_USEVC,    ARES_FLAG_PRIMARY,     ARES_FLAG_IGNTC, ARES_FLAG_STAYOPEN,
                              ARES_FLAG_NOSEARCH, ARES_FLAG_NOCHECKRESP, ARES_FLAG_EDNS,  ARES_FLAG_DNS0x20,
                              ARES_FLAG_NOALIASES, ARES_FLAG_NORECURSE };
    static const int pr[] = { 15, 10, 15, 35, 15, 20, 70, 30, 30, 10 };
    for (i = 0; i < 10; i++) {
      if ((int)vh_below(rng, 100) < pr[i]) {
        app_cfg.flags |= fl[i];
      }
    }
  }
  app_cfg.tries      = vh_range(rng, 1, 4);
  app_cfg.timeout_ms = vh_chance(rng, 1, 5) ? vh_range(rng, 1, 249) : vh_range(rng, 250, 2000);
  if (vh_chance(rng, 1, 3)) {
    app_cfg.maxtimeout_ms = vh_range(rng, 100, 4000);
  }
  app_cfg.rotate          = vh_chance(rng, 1, 3);
  app_cfg.udp_max_queries = vh_chance(rng, 1, 2) ? vh_range(rng, 1, 3) : 0;
  app_cfg.ndots           = vh_range(rng, 0, 3);
  app_cfg.ndomains        = vh_range(rng, 0, 3);
  {
    static const char *const d[] = { "example.com", "sub.test", ".", "search.example.org" };
    for (i = 0; i < app_cfg.ndomains; i++) {
      snprintf(app_cfg.domains[i], sizeof(app_cfg.domains[i]), "%s", d[vh_below(rng, 4)]);
    }
  }
  {
    static const char *const lk[] = { "b", "bf", "fb", "f" };
    snprintf(app_cfg.lookups, sizeof(app_cfg.lookups), "%s", lk[vh_below(rng, vh_chance(rng, 1, 10) ? 4 : 3)]);
  }
  if (vh_chance(rng, 1, 3)) {
    app_cfg.qcache_max_ttl = vh_chance(rng, 1, 2) ? 0 : 3600;
  }
  app_cfg.nsrv_cfg = vh_range(rng, 1, 3);
  {
    int used[SIM_MAXSRV] = { 0 };
    n                    = 0;
    while (n < app_cfg.nsrv_cfg) {
      int s = (int)vh_below(rng, (uint32_t)sim_nsrv);
      if (!used[s]) {
        used[s]              = 1;
        app_cfg.srv_cfg[n++] = s;
      }
    }
  }
  if (vh_chance(rng, 1, 3)) {
    app_cfg.failover_set      = 1;
    app_cfg.failover_chance   = vh_chance(rng, 1, 3) ? 0 : vh_range(rng, 1, 4);
    app_cfg.failover_delay_ms = vh_range(rng, 0, 3000);
  }
  if (vh_chance(rng, 1, 4)) {
    snprintf(app_cfg.sortlist, sizeof(app_cfg.sortlist), "10.0.0.0/8 fd5e::/16");
  }
  app_cfg.use_server_state_cb = vh_chance(rng, 1, 2);
  app_cfg.local_bind          = vh_chance(rng, 1, 5);
  if (vh_chance(rng, 1, 6)) {
    snprintf(app_cfg.hostaliases_content, sizeof(app_cfg.hostaliases_content), "alias0 t0.example.com\nalias1 realname.sub.test\n");
  }
  /* faults */
  sim_nfaults = 0;
  if (vh_chance(rng, 1, 2)) {
    n = vh_range(rng, 1, 3);
    for (i = 0; i < n; i++) {
      static const int errs[]       = { ECONNREFUSED, ENETUNREACH, EIO, ECONNRESET, EHOSTUNREACH, ENOBUFS, EACCES, EMFILE,
                                        EAFNOSUPPORT, ENOSYS, EPIPE, ETIMEDOUT };
      sim_faults[sim_nfaults].kind  = (int)vh_below(rng, SF__COUNT);
      sim_faults[sim_nfaults].nth   = vh_range(rng, 1, 6);
      sim_faults[sim_nfaults].err   = errs[vh_below(rng, sizeof(errs) / sizeof(int))];
      sim_faults[sim_nfaults].fired = 0;
      sim_nfaults++;
    }
  }
  sim_rand_fault_permille = vh_chance(rng, 1, 4) ? (vh_chance(rng, 1, 2) ? 10 : 60) : 0;
  /* scheduler */
  app_sched.max_steps         = 20000;
  app_sched.skip_chance_pm    = vh_chance(rng, 1, 3) ? 150 : 0;
  app_sched.timeouts_first_pm = vh_chance(rng, 1, 3) ? 300 : 0;
  app_sched.one_event_pm      = vh_chance(rng, 1, 3) ? 400 : 0;
  app_sched.idle_ms_after     = vh_range(rng, 0, 200);
  /* script */
  horizon = (int64_t)app_cfg.timeout_ms * 1000 * (app_cfg.tries + 1);
  ntok    = vh_range(rng, 1, 8);
  for (i = 0; i < ntok; i++) {
    int64_t t = vh_chance(rng, 1, 2) ? 0 : (int64_t)(vh_rand64(rng) % (uint64_t)(horizon + 1));
    gen_add_token(rng, t);
  }
  n = vh_chance(rng, 1, 2) ? vh_range(rng, 1, 2) : 0;
  for (i = 0; i < n; i++) {
    gen_add_action((int64_t)(vh_rand64(rng) % (uint64_t)(horizon + 1)), AA_CANCEL, 0, 0);
  }
  if (vh_chance(rng, 1, 4)) {
    gen_add_action((int64_t)(vh_rand64(rng) % (uint64_t)(horizon + 1)), AA_SET_SERVERS, 0, 0);
  }
  if (vh_chance(rng, 1, 8)) {
    gen_add_action((int64_t)(vh_rand64(rng) % (uint64_t)(horizon + 1)), AA_SET_SORTLIST, 0, (int)vh_below(rng, 2));
  }
  if (vh_chance(rng, 1, 12)) {
    gen_add_action((int64_t)(vh_rand64(rng) % (uint64_t)(horizon + 1)), AA_REINIT, 0, 0);
  }
  if (vh_chance(rng, 1, 6)) {
    gen_add_action((int64_t)(vh_rand64(rng) % (uint64_t)(horizon + 1)), AA_READONLY, 0, 0);
  }
  if (vh_chance(rng, 1, 20)) {
    gen_add_action((int64_t)(vh_rand64(rng) % (uint64_t)(horizon + 1)), AA_DUP, 0, 0);
  }
  /* early destroy with requests outstanding */
  if (vh_chance(rng, 1, 5)) {
    app_sched.destroy_at_step = vh_range(rng, 1, 30);
  }
  /* the lookup order comes from the system configuration: the channel's own string is replaced by every reinit,
   * also while address lookups are walking it */
  if (vh_chance(rng, 1, 3)) {
    app_cfg.lookups_via = 1;
    if (vh_chance(rng, 1, 2)) {
      gen_add_action((int64_t)(vh_rand64(rng) % (uint64_t)(horizon / 2 + 1)), AA_REINIT, 0, 0);
    }
  }
  /* burst: several requests go out in the same instant over shared sockets and all their replies (answers mixed
   * with replies that cause a re-send: SERVFAIL, truncation, FORMERR, bad cookie) come back in ONE read pass */
  if (vh_chance(rng, 1, 5)) {
    int     d  = vh_range(rng, 1, 30);
    int64_t t0 = vh_chance(rng, 1, 2) ? 0 : (int64_t)vh_below(rng, 200000);
    for (i = 0; i < sim_nsrv; i++) {
      static const int bm[] = { MOOD_FLAKY, MOOD_ERR, MOOD_TC, MOOD_FORMERR, MOOD_BADCOOKIE, MOOD_GOOD };
      sim_srv[i].delay_min_ms = sim_srv[i].delay_max_ms = d;
      if (vh_chance(rng, 1, 2)) {
        gen_srv_mood(&sim_srv[i], bm[vh_below(rng, 6)], rng);
        sim_srv[i].delay_min_ms = sim_srv[i].delay_max_ms = d;
      }
    }
    sim_no_subms_jitter = 1;
    if (vh_chance(rng, 2, 3)) {
      app_cfg.udp_max_queries = 0;
    }
    app_cfg.rotate = 0;
    for (i = 0; i < app_nact; i++) {
      if (app_act[i].kind == AA_START) {
        app_act[i].t = t0;
      }
    }
    while (app_ntok < 6 && app_ntok < app_max_tokens) {
      gen_add_token(rng, t0);
    }
    sim_note("hostile_burst_same_read_pass");
  }
}
