/* sim_addr.h - C13: address lookups return exactly the addresses the answers contain.
 *
 * One address request per case.  The virtual server's answers encode (record index, serial) in
 * every address, so each returned address identifies the record it came from.  Expected result =
 * multiset of A/AAAA records (class IN) of the accepted answers, restricted to the requested family;
 * or the hosts-file / literal / loopback addresses when those rules apply.  Reverse lookups: the
 * question must be exactly the reverse-map name of the address, the names returned are PTR targets
 * of the accepted answer. */

typedef struct {
  int      cname_chain;
  int      nrec;
  int      other_family;
  uint32_t ttl;
  int      foreign_class_every; /* every n-th data record is class CH (0 = none) */
  int      dup_every;           /* every n-th record is sent twice */
} ad_plan_t;
static ad_plan_t ad_plan;
static int       ad_expect_kind; /* 0 dns, 1 hosts file, 2 literal, 3 localhost */
static int       ad_literal_other_family;
static char      ad_revname[200];

static void ad_reverse_name(int family, const uint8_t *a, char *out, size_t outlen)
{
  if (family == AF_INET) {
    snprintf(out, outlen, "%u.%u.%u.%u.in-addr.arpa", a[3], a[2], a[1], a[0]);
  } else {
    size_t o = 0;
    int    i;
    for (i = 15; i >= 0; i--) {
      o += (size_t)snprintf(out + o, outlen - o, "%x.%x.", a[i] & 0xf, a[i] >> 4);
    }
    snprintf(out + o, outlen - o, "ip6.arpa");
  }
}

/* addresses listed in the hosts file (gen_default_appcfg) and the names the file gives them, in file order */
#define AD_NREV 5
static const struct {
  int         family;
  uint8_t     addr[16];
  const char *names[3];
} ad_rev[AD_NREV] = {
  { AF_INET, { 10, 1, 2, 3 }, { "hostfile.example.com", "hf", NULL } },
  { AF_INET6, { 0xfd, 0x5e, 0, 0, 0, 0, 0, 0, 0, 0, 0, 0, 0, 0, 0, 7 }, { "hostfile6.example.com", "hf6", NULL } },
  { AF_INET6, { 0x20, 0x01, 0x0d, 0xb8, 0x85, 0xa3, 0x08, 0xd3, 0x13, 0x19, 0x8a, 0x2e, 0x03, 0x70, 0x73, 0x48 }, { "longsix.example.com", "l6", NULL } },
  { AF_INET6, { 0, 0, 0, 0, 0, 0, 0, 0, 0, 0, 0xff, 0xff, 203, 0, 113, 77 }, { "mapped.example.com", NULL, NULL } },
  { AF_INET, { 10, 1, 2, 4 }, { "dual.example.com", "dual", NULL } },
};
static int ad_rev_idx;

static void gen_addr(vh_rng_t *rng)
{
  app_tok_t *t;
  int        ti, i, r;
  vsrv_t    *s;
  gen_profile_flags = GP_NO_REENTRANT | GP_NO_CANCEL_IN_CB | GP_NO_WEIRD_TYPES | GP_SIMPLE_NAMES;
  gen_default_simcfg(rng, 0);
  gen_default_appcfg(rng);
  gen_srv_base(1);
  s               = &sim_srv[0];
  s->delay_min_ms = s->delay_max_ms = 1;
  app_cfg.flags      = ARES_FLAG_NOSEARCH | (vh_chance(rng, 1, 2) ? ARES_FLAG_EDNS : 0);
  app_cfg.tries      = 1;
  app_cfg.timeout_ms = 500;
  app_cfg.nsrv_cfg   = 1;
  app_cfg.srv_cfg[0] = 0;
  {
    static const char *const lk[] = { "b", "b", "bf", "fb" };
    snprintf(app_cfg.lookups, sizeof(app_cfg.lookups), "%s", lk[vh_below(rng, 4)]);
  }
  if (vh_chance(rng, 1, 3)) {
    /* IPv6: a pattern every answer address matches, or one that only every third address matches (those move to
     * the front, past two or more others when the answer is long enough) */
    snprintf(app_cfg.sortlist, sizeof(app_cfg.sortlist), "10.3.0.0/255.255.0.0 10.1.0.0/16 %s", vh_chance(rng, 1, 2) ? "fd5e::/16" : "fd5e:100::/24");
  }
  mon_enable_idx = mon_enable_timer = 0;
  mon_enable_net                    = 0;
  net_unique_names                  = 0;
  memset(&ad_plan, 0, sizeof(ad_plan));
  r                  = (int)vh_below(rng, 100);
  ad_plan.nrec       = r < 10 ? 0 : r < 50 ? vh_range(rng, 1, 4) : r < 85 ? vh_range(rng, 5, 40) : vh_range(rng, 41, 200);
  ad_plan.cname_chain  = vh_chance(rng, 1, 3) ? vh_range(rng, 1, 3) : 0;
  ad_plan.other_family = vh_chance(rng, 1, 5) ? vh_range(rng, 1, 3) : 0; /* alternating, foreign run first, foreign run last */
  {
    static const uint32_t tt[] = { 0, 1, 60, 300, 86400, 0x7fffffff };
    ad_plan.ttl                = tt[vh_below(rng, 6)];
  }
  if (ad_plan.nrec >= 2 && ad_plan.nrec <= 40 && vh_chance(rng, 1, 4)) {
    /* one of the sockets opened after the query's own fails: a source-address probe of the sort.  The sort may be
     * abandoned, the addresses may not */
    static const int errs[] = { EMFILE, ENOBUFS, EACCES, EAFNOSUPPORT, ENFILE };
    sim_nfaults          = 1;
    sim_faults[0].kind   = vh_chance(rng, 3, 4) ? SF_SOCKET : SF_CONNECT;
    sim_faults[0].nth    = vh_range(rng, 2, 2 + (ad_plan.nrec < 12 ? ad_plan.nrec : 12));
    sim_faults[0].err    = errs[vh_below(rng, 5)];
    sim_faults[0].fired  = 0;
    sim_note("addr_probe_socket_fault_planned");
  }
  ad_plan.foreign_class_every = vh_chance(rng, 1, 6) ? vh_range(rng, 2, 5) : 0;
  ad_plan.dup_every           = vh_chance(rng, 1, 6) ? vh_range(rng, 2, 5) : 0;
  ti = gen_add_token(rng, 0);
  t  = &app_tok[ti];
  {
    static const int ks[] = { RK_GETADDRINFO, RK_GETADDRINFO, RK_GETHOSTBYNAME, RK_GETHOSTBYADDR, RK_GETNAMEINFO };
    t->kind               = ks[vh_below(rng, 5)];
  }
  t->action = RA_NONE;
  r         = (int)vh_below(rng, 3);
  t->family = r == 0 ? AF_INET : r == 1 ? AF_INET6 : AF_UNSPEC;
  if (t->kind == RK_GETHOSTBYNAME && t->family == AF_UNSPEC) {
    t->family = vh_chance(rng, 1, 2) ? AF_INET : AF_INET6;
  }
  t->ai_flags = (vh_chance(rng, 1, 2) ? ARES_AI_NOSORT : 0) | (vh_chance(rng, 1, 3) ? ARES_AI_CANONNAME : 0);
  t->port     = vh_chance(rng, 1, 2) ? vh_range(rng, 1, 65535) : 0;
  ad_expect_kind = 0;
  if (t->kind == RK_GETHOSTBYADDR || t->kind == RK_GETNAMEINFO) {
    if (t->family == AF_UNSPEC) {
      t->family = AF_INET;
    }
    memset(t->addr, 0, sizeof(t->addr));
    if (t->family == AF_INET) {
      t->addr[0] = (uint8_t)vh_range(rng, 1, 223);
      t->addr[1] = (uint8_t)vh_below(rng, 256);
      t->addr[2] = (uint8_t)vh_below(rng, 256);
      t->addr[3] = (uint8_t)vh_below(rng, 256);
    } else {
      for (i = 0; i < 16; i++) {
        t->addr[i] = (uint8_t)vh_below(rng, 256);
      }
      t->addr[0] = 0x20;
    }
    if (app_cfg.lookups[0] == 'f' && vh_chance(rng, 1, 3)) {
      /* an address that is in the hosts file, which is asked first: the names come from there, no question is sent */
      ad_rev_idx     = (int)vh_below(rng, AD_NREV);
      t->family      = ad_rev[ad_rev_idx].family;
      memset(t->addr, 0, sizeof(t->addr));
      memcpy(t->addr, ad_rev[ad_rev_idx].addr, t->family == AF_INET ? 4 : 16);
      ad_expect_kind = 5;
    }
    ad_reverse_name(t->family, t->addr, ad_revname, sizeof(ad_revname));
    snprintf(t->name, sizeof(t->name), "(addr)");
    if (ad_plan.nrec == 0 && vh_chance(rng, 1, 2)) {
      ad_plan.nrec = 1;
    }
    if (ad_plan.nrec > 6) {
      ad_plan.nrec = vh_range(rng, 1, 6);
    }
    ad_plan.other_family        = 0;
    ad_plan.foreign_class_every = 0;
    ad_plan.dup_every           = 0;
  } else {
    int k = (int)vh_below(rng, 12);
    if (k == 3 || k == 4) {
      /* hosts-file names that have addresses of both families */
      snprintf(t->name, sizeof(t->name), "%s", k == 3 ? "dual.example.com" : "sixfirst.example.com");
      ad_expect_kind = (app_cfg.lookups[0] == 'f') ? 4 : 0;
    } else if (k == 0) {
      snprintf(t->name, sizeof(t->name), "hostfile.example.com");
      /* the file has an IPv4 address for it: files-first lookups for IPv4/any family never reach the network */
      ad_expect_kind = (app_cfg.lookups[0] == 'f' && t->family != AF_INET6) ? 1 : 0;
    } else if (k == 1) {
      snprintf(t->name, sizeof(t->name), "%s", t->family == AF_INET6 ? "2001:db8::9" : "192.0.2.9");
      ad_expect_kind = 2;
      ad_literal_other_family = 0;
      if (t->family != AF_UNSPEC && vh_chance(rng, 1, 4)) {
        /* a literal of the family that was not asked for: whatever the lookup then does (an error, a query for that
         * text), an address of the other family is not what was requested */
        snprintf(t->name, sizeof(t->name), "%s", t->family == AF_INET6 ? "192.0.2.9" : "2001:db8::9");
        ad_literal_other_family = 1;
        ad_expect_kind          = 0; /* looked up like any other text: the answers decide, family restriction included */
      }
      if (t->family == AF_UNSPEC) {
        t->family = AF_INET;
      }
    } else if (k == 2 && strchr(app_cfg.lookups, 'f')) {
      snprintf(t->name, sizeof(t->name), "%s", vh_chance(rng, 1, 2) ? "localhost" : "box.localhost");
      ad_expect_kind = 3;
    } else {
      snprintf(t->name, sizeof(t->name), "a%d.addr.test", (int)vh_below(rng, 1000));
    }
  }
  if (strchr(app_cfg.lookups, 'f') && app_cfg.lookups[0] == 'f' && vh_chance(rng, 1, 10)) {
    /* two hosts files on one channel: the channel's own and the one $CARES_HOSTS names, which only lookups that ask
     * for it (ARES_AI_ENVHOSTS) may use; requests of both kinds follow each other in any order */
    int n6 = vh_range(rng, 2, 5), k6;
    snprintf(app_cfg.env_hosts_content, sizeof(app_cfg.env_hosts_content), "10.9.9.9 hostfile.example.com\n10.9.9.8 envonly.example.com\n");
    app_ntok = 0;
    app_nact = 0;
    for (k6 = 0; k6 < n6; k6++) {
      int        ti6 = gen_add_token(rng, (int64_t)k6 * 5000);
      app_tok_t *t6;
      if (ti6 < 0) {
        break;
      }
      t6         = &app_tok[ti6];
      t6->action = RA_NONE;
      t6->family = AF_INET;
      t6->port   = 0;
      snprintf(t6->name, sizeof(t6->name), "hostfile.example.com");
      if (vh_chance(rng, 1, 4)) {
        t6->kind     = RK_GETHOSTBYNAME; /* never looks at $CARES_HOSTS */
        t6->ai_flags = 0;
      } else {
        t6->kind     = RK_GETADDRINFO;
        t6->ai_flags = ARES_AI_NOSORT | (vh_chance(rng, 1, 2) ? ARES_AI_ENVHOSTS : 0);
      }
    }
    ad_expect_kind = 6;
    sim_note("addr_two_hosts_files");
  }
  /* server behaviour: one rule for every question */
  s->nrules = 1;
  memset(&s->rules[0], 0, sizeof(s->rules[0]));
  snprintf(s->rules[0].name, sizeof(s->rules[0].name), "*");
  s->rules[0].action       = ad_plan.nrec == 0 ? SA_NODATA : SA_ANSWER;
  s->rules[0].nrec         = ad_plan.nrec;
  s->rules[0].ttl          = ad_plan.ttl;
  s->rules[0].cname_chain  = ad_plan.cname_chain;
  s->rules[0].other_family = ad_plan.other_family;
  sim_answer_foreign_class_every = ad_plan.foreign_class_every;
  sim_answer_dup_every           = ad_plan.dup_every;
}

/* dual-family hosts entries: exactly the file's addresses of the requested family */
static void ad_check_hosts_dual(app_tok_t *t, int require_no_network)
{
  static const uint8_t d4a[4] = { 10, 1, 2, 4 }, d4b[4] = { 10, 1, 2, 5 }, s4[4] = { 10, 1, 2, 6 };
  static const uint8_t d6[16] = { 0xfd, 0x5e, 0, 0, 0, 0, 0, 0, 0, 0, 0, 0, 0, 0, 0, 8 };
  static const uint8_t s6[16] = { 0xfd, 0x5e, 0, 0, 0, 0, 0, 0, 0, 0, 0, 0, 0, 0, 0, 9 };
  int dual = !strcmp(t->name, "dual.example.com");
  int want4 = (t->family != AF_INET6) ? (dual ? 2 : 1) : 0;
  int want6 = (t->family != AF_INET) ? 1 : 0;
  int got4 = 0, got6 = 0, i;
  MON_EVAL("addr_hosts_dual_family");
  if (require_no_network && sim_ntx != 0) {
    vh_violation("addr:hosts-hit-went-to-network", "'%s' is in the hosts file, lookups '%s', but %d questions were sent", t->name,
                 app_cfg.lookups, sim_ntx);
    return;
  }
  for (i = 0; i < t->naddr; i++) {
    int is4 = (t->addr_key[i] >> 28) == 4;
    const uint8_t *a = t->addr_raw[i];
    if (is4 && (dual ? (!memcmp(a, d4a, 4) || !memcmp(a, d4b, 4)) : !memcmp(a, s4, 4))) {
      got4++;
    } else if (!is4 && !memcmp(a, dual ? d6 : s6, 16)) {
      got6++;
    } else {
      vh_violation("addr:hosts-address-invented", "'%s': returned an address that is not in the hosts file for that name", t->name);
      return;
    }
  }
  if (got4 != want4 || got6 != want6) {
    vh_violation("addr:hosts-address-dropped", "'%s' family %d: hosts file has %d IPv4 and %d IPv6 addresses for the requested family, %d and %d returned",
                 t->name, t->family, want4, want6, got4, got6);
  }
}

static int ad_cmp_u32(const void *a, const void *b)
{
  uint32_t x = *(const uint32_t *)a, y = *(const uint32_t *)b;
  return x < y ? -1 : x > y;
}

static void mon_addr(void)
{
  app_tok_t *t = &app_tok[0];
  static uint32_t exp[2048], got[2048];
  int             nexp = 0, ngot = 0, i, k;
  if (ad_expect_kind == 6) {
    int j6;
    for (j6 = 0; j6 < app_ntok; j6++) {
      static const uint8_t own4[4] = { 10, 1, 2, 3 }, env4[4] = { 10, 9, 9, 9 };
      app_tok_t           *u       = &app_tok[j6];
      int                  env     = u->kind == RK_GETADDRINFO && (u->ai_flags & ARES_AI_ENVHOSTS);
      if (!u->started || u->cb_count != 1) {
        continue;
      }
      MON_EVAL("addr_two_hosts_files");
      if (u->cb_status != ARES_SUCCESS || u->naddr != 1 || memcmp(u->addr_raw[0], env ? env4 : own4, 4) != 0) {
        vh_violation("addr:wrong-hosts-file",
                     "request %d of %d (%s, %s $CARES_HOSTS) for a name both hosts files list: status %d, %d address(es), first %u.%u.%u.%u, "
                     "the file that applies says %s", j6 + 1, app_ntok, rk_names[u->kind], env ? "asks for" : "does not ask for", u->cb_status,
                     u->naddr, u->addr_raw[0][0], u->addr_raw[0][1], u->addr_raw[0][2], u->addr_raw[0][3], env ? "10.9.9.9" : "10.1.2.3");
        return;
      }
    }
    if (sim_ntx != 0) {
      vh_violation("addr:hosts-hit-went-to-network", "name in both hosts files with lookups '%s' still caused %d questions", app_cfg.lookups, sim_ntx);
    }
    return;
  }
  if (!t->started || t->cb_count != 1) {
    vh_inconclusive("addr-request-not-completed");
    return;
  }
  if ((t->kind == RK_GETHOSTBYADDR || t->kind == RK_GETNAMEINFO) && ad_expect_kind == 5) {
    int k2;
    MON_EVAL("addr_reverse_hosts_file");
    if (sim_ntx != 0) {
      vh_violation("addr:hosts-hit-went-to-network", "address in the hosts file with lookups '%s' still caused %d questions (first '%s')",
                   app_cfg.lookups, sim_ntx, sim_tx[0].qname);
      return;
    }
    if (t->cb_status != ARES_SUCCESS) {
      vh_violation("addr:reverse-hosts-missed", "address of '%s' is in the hosts file, lookups '%s', but the lookup ended with status %d",
                   ad_rev[ad_rev_idx].names[0], app_cfg.lookups, t->cb_status);
      return;
    }
    if (t->kind == RK_GETHOSTBYADDR) {
      for (i = 0; i < t->nptr; i++) {
        int ok = 0;
        for (k2 = 0; k2 < 3 && ad_rev[ad_rev_idx].names[k2]; k2++) {
          ok |= !strcasecmp(t->ptrnames[i], ad_rev[ad_rev_idx].names[k2]);
        }
        if (!ok) {
          vh_violation("addr:reverse-name-invented", "returned name '%s' is not one the hosts file gives that address", t->ptrnames[i]);
          return;
        }
      }
      if (t->nptr < 1 || strcasecmp(t->ptrnames[0], ad_rev[ad_rev_idx].names[0]) != 0) {
        vh_violation("addr:reverse-hosts-name", "first name returned is '%s', the hosts file says '%s'", t->nptr ? t->ptrnames[0] : "(none)",
                     ad_rev[ad_rev_idx].names[0]);
      }
    } else if (strcasecmp(t->canon, ad_rev[ad_rev_idx].names[0]) != 0) {
      vh_violation("addr:reverse-hosts-name", "node returned is '%s', the hosts file says '%s'", t->canon, ad_rev[ad_rev_idx].names[0]);
    }
    return;
  }
  if (t->kind == RK_GETHOSTBYADDR || t->kind == RK_GETNAMEINFO) {
    /* reverse: exactly the reverse-map name, type PTR */
    MON_EVAL("addr_reverse_question");
    for (i = 0; i < sim_ntx; i++) {
      if (strcmp(sim_tx[i].qname, ad_revname) != 0 || sim_tx[i].qtype != SDNS_T_PTR) {
        vh_violation("addr:reverse-question", "asked '%s' type %u for address whose reverse name is '%s'", sim_tx[i].qname, sim_tx[i].qtype,
                     ad_revname);
        return;
      }
    }
    if (sim_ntx == 0 && !(app_cfg.lookups[0] == 'f')) {
      vh_violation("addr:reverse-no-question", "no PTR question was sent for %s", ad_revname);
      return;
    }
    if (t->cb_status == ARES_SUCCESS) {
      /* every returned name is a PTR target of an answer we produced for this question */
      MON_EVAL("addr_reverse_names");
      if (t->kind == RK_GETHOSTBYADDR) {
        for (i = 0; i < t->nptr; i++) {
          uint32_t sr = serial_from_text(t->ptrnames[i]);
          if (sr == 0 || sr > sim_npkt || sim_pktinfo[sr - 1].t_read == 0) {
            vh_violation("addr:reverse-name-invented", "returned name '%s' is not a PTR target of any answer read", t->ptrnames[i]);
            return;
          }
        }
        {
          /* h_name is also one of the PTR targets: count distinct names */
          int distinct = 0, a2, b2;
          for (a2 = 0; a2 < t->nptr; a2++) {
            int seen = 0;
            for (b2 = 0; b2 < a2; b2++) {
              if (!strcasecmp(t->ptrnames[a2], t->ptrnames[b2])) {
                seen = 1;
              }
            }
            distinct += !seen;
          }
          if (distinct != ad_plan.nrec && t->nptr < 8) {
            vh_violation("addr:reverse-name-count", "%d distinct names returned, the answer carried %d PTR records", distinct, ad_plan.nrec);
          }
        }
      } else {
        uint32_t sr = serial_from_text(t->canon);
        if (sr == 0 || sr > sim_npkt || sim_pktinfo[sr - 1].t_read == 0) {
          vh_violation("addr:reverse-name-invented", "returned node '%s' is not a PTR target of any answer read", t->canon);
        }
      }
    }
    return;
  }
  /* forward */
  for (i = 0; i < t->naddr && ngot < 2048; i++) {
    got[ngot++] = t->addr_key[i];
  }
  if (ad_expect_kind == 1) {
    /* hosts file first: 10.1.2.3 / fd5e::7 */
    MON_EVAL("addr_hosts_file");
    if (sim_ntx != 0) {
      vh_violation("addr:hosts-hit-went-to-network", "name in the hosts file with lookups '%s' still caused %d questions", app_cfg.lookups, sim_ntx);
    }
    for (i = 0; i < t->naddr; i++) {
      static const uint8_t h4[4]  = { 10, 1, 2, 3 };
      static const uint8_t h6[16] = { 0xfd, 0x5e, 0, 0, 0, 0, 0, 0, 0, 0, 0, 0, 0, 0, 0, 7 };
      int is4 = (t->addr_key[i] >> 28) == 4;
      if (memcmp(t->addr_raw[i], is4 ? h4 : h6, is4 ? 4 : 16) != 0) {
        vh_violation("addr:hosts-address-invented", "hosts-file lookup returned an address that is not in the file");
        return;
      }
    }
    return;
  }
  if (ad_expect_kind == 4) {
    ad_check_hosts_dual(t, 1);
    return;
  }
  if (ad_expect_kind == 2 || ad_expect_kind == 3) {
    MON_EVAL("addr_literal_or_loopback");
    if (sim_ntx != 0 && !(ad_expect_kind == 2 && ad_literal_other_family)) {
      vh_violation("addr:local-name-went-to-network", "'%s' caused %d questions", t->name, sim_ntx);
    }
    if (t->cb_status == ARES_SUCCESS) {
      for (i = 0; i < t->naddr; i++) {
        static const uint8_t l4[4]  = { 127, 0, 0, 1 };
        static const uint8_t l6[16] = { 0, 0, 0, 0, 0, 0, 0, 0, 0, 0, 0, 0, 0, 0, 0, 1 };
        static const uint8_t lit4[4] = { 192, 0, 2, 9 };
        static const uint8_t lit6[16] = { 0x20, 0x01, 0x0d, 0xb8, 0, 0, 0, 0, 0, 0, 0, 0, 0, 0, 0, 9 };
        int is4 = (t->addr_key[i] >> 28) == 4;
        const uint8_t *want = ad_expect_kind == 3 ? (is4 ? l4 : l6) : (is4 ? lit4 : lit6);
        if (memcmp(t->addr_raw[i], want, is4 ? 4 : 16) != 0) {
          vh_violation("addr:local-address-wrong", "'%s' returned an address other than the literal/loopback", t->name);
          return;
        }
        if ((t->family == AF_INET && !is4) || (t->family == AF_INET6 && is4)) {
          vh_violation("addr:family-filter", "'%s': address of the other family returned for family %d", t->name, t->family);
          return;
        }
      }
    }
    return;
  }
  if (!strcmp(t->name, "hostfile.example.com") && strchr(app_cfg.lookups, 'f') && t->cb_status == ARES_SUCCESS && t->naddr > 0) {
    /* DNS first, file second (or IPv6 asked): the result is either the DNS answer (checked below) or,
     * when DNS had nothing, exactly the file's address */
    static const uint8_t h4[4] = { 10, 1, 2, 3 };
    int allfile = 1;
    for (i = 0; i < t->naddr; i++) {
      if ((t->addr_key[i] >> 28) != 4 || memcmp(t->addr_raw[i], h4, 4) != 0) {
        allfile = 0;
      }
    }
    if (allfile && t->family != AF_INET6) {
      sim_note("addr_hosts_file_fallback");
      return;
    }
  }
  /* expected multiset from the answers the library accepted */
  for (i = 0; i < (int)sim_npkt; i++) {
    const sim_pktinfo_t *pi = &sim_pktinfo[i];
    int                  qt, pass;
    if (pi->action != SA_ANSWER || pi->t_read == 0 || pi->txidx < 0) {
      continue;
    }
    qt = sim_tx[pi->txidx].qtype;
    if (qt != SDNS_T_A && qt != SDNS_T_AAAA) {
      continue;
    }
    for (k = 0; k < ad_plan.nrec; k++) {
      for (pass = 0; pass < (ad_plan.other_family ? 2 : 1); pass++) {
        int      ty  = pass == 0 ? qt : (qt == SDNS_T_A ? SDNS_T_AAAA : SDNS_T_A);
        int      fam = ty == SDNS_T_A ? 4 : 6;
        int      reps = (ad_plan.dup_every && (k % ad_plan.dup_every) == 0) ? 2 : 1;
        uint32_t key  = ((uint32_t)fam << 28) | ((uint32_t)(fam == 4 ? (k & 0xff) : (k & 0xfff)) << 16) | ((uint32_t)pi->serial & 0xffff);
        if (ad_plan.foreign_class_every && (k % ad_plan.foreign_class_every) == 1) {
          continue; /* class CH: not an Internet address */
        }
        if ((t->family == AF_INET && fam != 4) || (t->family == AF_INET6 && fam != 6)) {
          continue; /* restricted to the requested family */
        }
        while (reps-- > 0 && nexp < 2048) {
          exp[nexp++] = key;
        }
      }
    }
  }
  if (nexp == 0 && strchr(app_cfg.lookups, 'f') && t->cb_status == ARES_SUCCESS &&
      (!strcmp(t->name, "dual.example.com") || !strcmp(t->name, "sixfirst.example.com"))) {
    /* DNS had nothing of the requested family: the hosts file is the fallback */
    ad_check_hosts_dual(t, 0);
    return;
  }
  MON_EVAL("addr_multiset");
  if (t->cb_status != ARES_SUCCESS) {
    if (nexp > 0) {
      vh_violation("addr:dropped-all", "'%s' family %d: status %d although the accepted answers carry %d matching addresses", t->name, t->family,
                   t->cb_status, nexp);
    }
    return;
  }
  qsort(exp, (size_t)nexp, sizeof(exp[0]), ad_cmp_u32);
  qsort(got, (size_t)ngot, sizeof(got[0]), ad_cmp_u32);
  {
    int a = 0, b = 0;
    while (a < nexp || b < ngot) {
      if (a < nexp && b < ngot && exp[a] == got[b]) {
        a++;
        b++;
        continue;
      }
      if (b >= ngot || (a < nexp && exp[a] < got[b])) {
        uint32_t kx = exp[a];
        vh_violation("addr:dropped", "'%s' (%s family %d flags 0x%x sortlist '%s'): record family %u index %u serial %u is in an accepted answer but not in the result (%d expected, %d returned)",
                     t->name, rk_names[t->kind], t->family, t->ai_flags, app_cfg.sortlist, kx >> 28, (kx >> 16) & 0xfff, kx & 0xffff, nexp, ngot);
        return;
      }
      {
        uint32_t kx = got[b];
        char     key[64];
        int      wrongfam = (t->family == AF_INET && (kx >> 28) != 4) || (t->family == AF_INET6 && (kx >> 28) != 6);
        snprintf(key, sizeof(key), "addr:%s", wrongfam ? "family-filter" : "invented-or-duplicated");
        vh_violation(key, "'%s' (%s family %d): returned address family %u index %u serial %u is not (or not that often) in the accepted answers (%d expected, %d returned)",
                     t->name, rk_names[t->kind], t->family, kx >> 28, (kx >> 16) & 0xfff, kx & 0xffff, nexp, ngot);
        return;
      }
    }
  }
  /* TTL and port (getaddrinfo) */
  if (t->kind == RK_GETADDRINFO) {
    MON_EVAL("addr_ttl_port");
    for (i = 0; i < t->nserials && i < t->naddr; i++) {
      if (t->ttls[i] != ad_plan.ttl && !(ad_plan.ttl > 0x7fffffffu)) {
        vh_violation("addr:ttl", "'%s': returned TTL %u, record TTL %u", t->name, t->ttls[i], ad_plan.ttl);
        return;
      }
      if (t->addr_port[i] != (uint16_t)t->port) {
        vh_violation("addr:port", "'%s': returned port %u, requested %d", t->name, t->addr_port[i], t->port);
        return;
      }
    }
  }
  /* sortlist ranks for gethostbyname: 10.3/16 first, then 10.1/16, then the rest, order kept inside a rank */
  if (t->kind == RK_GETHOSTBYNAME && t->family == AF_INET && app_cfg.sortlist[0]) {
    int lastrank = -1, lastidx = -1;
    MON_EVAL("addr_sortlist_rank");
    for (i = 0; i < t->naddr; i++) {
      int idx  = (int)((t->addr_key[i] >> 16) & 0xfff);
      int rank = idx == 3 ? 0 : idx == 1 ? 1 : 2;
      if (rank < lastrank) {
        vh_violation("addr:sortlist-rank", "'%s': address with sortlist rank %d returned after rank %d", t->name, rank, lastrank);
        return;
      }
      if (rank == lastrank && rank == 2 && idx < lastidx && !ad_plan.dup_every && sim_faults_fired == 0) {
        /* (a failed source-address probe legitimately moves its destination behind the others) */
        vh_violation("addr:sortlist-unstable", "'%s': addresses of equal rank returned out of answer order (%d after %d)", t->name, idx, lastidx);
        return;
      }
      lastrank = rank;
      lastidx  = idx;
    }
  }
  if (t->kind == RK_GETHOSTBYNAME && t->family == AF_INET6 && strstr(app_cfg.sortlist, "fd5e:100::/24")) {
    int lastrank = -1, lastidx = -1;
    MON_EVAL("addr_sortlist_rank_v6");
    for (i = 0; i < t->naddr; i++) {
      int idx, rank;
      if ((t->addr_key[i] >> 28) != 6 || t->addr_raw[i][0] != 0xfd || t->addr_raw[i][1] != 0x5e) {
        continue;
      }
      idx  = (int)((t->addr_key[i] >> 16) & 0xfff);
      rank = t->addr_raw[i][2] == 1 ? 0 : 1;
      if (rank < lastrank) {
        vh_violation("addr:sortlist-rank", "'%s': IPv6 address matching the sortlist returned after one that does not", t->name);
        return;
      }
      if (rank == lastrank && idx < lastidx && !ad_plan.dup_every && sim_faults_fired == 0) {
        vh_violation("addr:sortlist-unstable", "'%s': IPv6 addresses of equal rank returned out of answer order (%d after %d)", t->name, idx, lastidx);
        return;
      }
      lastrank = rank;
      lastidx  = idx;
    }
  }
  /* canonical name = end of the CNAME chain (single-family requests) */
  if (t->family != AF_UNSPEC && ad_plan.cname_chain > 0 && t->canon[0] && nexp > 0) {
    MON_EVAL("addr_canon");
    if (strncmp(t->canon, "c", 1) != 0 || strstr(t->canon, ".cn.test") == NULL || atoi(t->canon + 1) != ad_plan.cname_chain - 1) {
      vh_violation("addr:canonical-name", "'%s': canonical name '%s' is not the end of the %d-link CNAME chain", t->name, t->canon,
                   ad_plan.cname_chain);
    }
  }
}

static void run_addr(vh_rng_t *rng)
{
  uint64_t h = VH_FNV_INIT;
  gen_addr(rng);
  run_generic(rng);
  mon_addr();
  sim_answer_foreign_class_every = 0;
  sim_answer_dup_every           = 0;
  case_nontrivial = (ad_plan.nrec >= 2 || ad_plan.cname_chain > 0) && sim_ntx > 0;
  if (case_nontrivial) {
    app_tok_t *t = &app_tok[0];
    h = vh_fnv_u64(h, (uint64_t)(ad_plan.nrec > 40 ? 41 : ad_plan.nrec > 4 ? 5 : ad_plan.nrec) * 1000 + (uint64_t)ad_plan.cname_chain * 100 +
                        (uint64_t)ad_plan.other_family * 10 + (uint64_t)(ad_plan.foreign_class_every ? 1 : 0) * 2 + (uint64_t)(ad_plan.dup_every ? 1 : 0));
    h = vh_fnv_u64(h, (uint64_t)t->kind * 64 + (uint64_t)t->family * 4 + (uint64_t)(t->ai_flags & 3));
    h = vh_fnv_u64(h, (uint64_t)(app_cfg.sortlist[0] ? 1 : 0) * 8 + (uint64_t)(app_cfg.lookups[0] == 'f') * 2 + (uint64_t)(app_cfg.lookups[1] != 0));
    vh_count("nontrivial_cases");
    vh_fp_add(h);
  }
}
