/* sim_oom.h - C14: any single allocation failure is survived cleanly.
 *
 * The library's allocator is replaced (ares_library_init_mem) by a counting allocator with a ledger of
 * live blocks.  A scenario S is a deterministic function of (kind, variant): the allocation sequence is
 * the same in every run of S, so "fail the n-th allocation" for n = 1 .. N+1 enumerates every allocation
 * site S reaches.  Each run is judged by the ordinary request/descriptor monitors, by the ledger and by a
 * fresh query issued after the failure. */

#include <execinfo.h>
#include <pthread.h>

#define OOM_LEDGER_CAP (1u << 16)
#define OOM_BT 20
typedef struct {
  void  *p;
  size_t size;
  long   idx;
  void  *bt[OOM_BT];
  int    nbt;
} oom_ent_t;

static oom_ent_t       oom_ledger[OOM_LEDGER_CAP];
static long            oom_live;
static long            oom_count;      /* allocation attempts since the run started */
static long            oom_fail_at;    /* 0: never */
static int             oom_fired;
static int             oom_unknown_free;
static int             oom_installed;
static int             oom_want_bt;
static void           *oom_fail_bt[OOM_BT];
static int             oom_fail_nbt;
static pthread_mutex_t oom_mu = PTHREAD_MUTEX_INITIALIZER;

static unsigned oom_hash(const void *p)
{
  uintptr_t v = (uintptr_t)p;
  v ^= v >> 17;
  v *= 0x9E3779B97F4A7C15ull;
  return (unsigned)(v >> 40) & (OOM_LEDGER_CAP - 1);
}

static void oom_ledger_add(void *p, size_t size)
{
  unsigned h = oom_hash(p);
  while (oom_ledger[h].p != NULL && oom_ledger[h].p != (void *)1) {
    h = (h + 1) & (OOM_LEDGER_CAP - 1);
  }
  oom_ledger[h].p    = p;
  oom_ledger[h].size = size;
  oom_ledger[h].idx  = oom_count;
  oom_ledger[h].nbt  = oom_want_bt ? backtrace(oom_ledger[h].bt, OOM_BT) : 0;
  oom_live++;
}

static int oom_ledger_del(void *p)
{
  unsigned h = oom_hash(p), n = 0;
  while (oom_ledger[h].p != NULL && n++ < OOM_LEDGER_CAP) {
    if (oom_ledger[h].p == p) {
      oom_ledger[h].p = (void *)1; /* tombstone */
      oom_live--;
      return 1;
    }
    h = (h + 1) & (OOM_LEDGER_CAP - 1);
  }
  return 0;
}

static int oom_armed;
static void oom_set_suffix(void);

static int oom_should_fail(void)
{
  if (!oom_armed) {
    return 0;
  }
  oom_count++;
  if (oom_fail_at > 0 && oom_count == oom_fail_at) {
    oom_fired    = 1;
    oom_fail_nbt = backtrace(oom_fail_bt, OOM_BT);
    oom_set_suffix();
    return 1;
  }
  return 0;
}

static void *oom_malloc(size_t n)
{
  void *p = NULL;
  pthread_mutex_lock(&oom_mu);
  if (!oom_should_fail()) {
    p = malloc(n ? n : 1);
    if (p) {
      oom_ledger_add(p, n);
    }
  }
  pthread_mutex_unlock(&oom_mu);
  return p;
}

static void oom_free(void *p)
{
  if (p == NULL) {
    return;
  }
  pthread_mutex_lock(&oom_mu);
  if (!oom_ledger_del(p)) {
    oom_unknown_free++;
    pthread_mutex_unlock(&oom_mu);
    return; /* not ours: leave it to the final report (ASan would flag a bad free) */
  }
  pthread_mutex_unlock(&oom_mu);
  free(p);
}

static void *oom_realloc(void *p, size_t n)
{
  void *q = NULL;
  if (p == NULL) {
    return oom_malloc(n);
  }
  pthread_mutex_lock(&oom_mu);
  if (!oom_should_fail()) {
    if (!oom_ledger_del(p)) {
      oom_unknown_free++;
    }
    q = realloc(p, n ? n : 1);
    if (q) {
      oom_ledger_add(q, n);
    } else {
      oom_ledger_add(p, 0);
    }
  }
  pthread_mutex_unlock(&oom_mu);
  return q;
}

static void oom_install(void)
{
  ares_library_cleanup();
  ares_library_init_mem(ARES_LIB_INIT_ALL, oom_malloc, oom_free, oom_realloc);
  oom_installed = 1;
}

static void oom_run_reset(long fail_at)
{
  unsigned i;
  /* blocks left over from a leaking run must not poison the next one */
  for (i = 0; i < OOM_LEDGER_CAP; i++) {
    if (oom_ledger[i].p != NULL && oom_ledger[i].p != (void *)1) {
      free(oom_ledger[i].p);
    }
    oom_ledger[i].p = NULL;
  }
  oom_live         = 0;
  oom_count        = 0;
  oom_fail_at      = fail_at;
  oom_fired        = 0;
  oom_unknown_free = 0;
  oom_fail_nbt     = 0;
  oom_armed        = 1;
  vh_key_suffix[0] = 0;
}

/* where did the failed allocation come from?  first frames outside the allocator, as "f1<f2<f3" */
void __sanitizer_symbolize_pc(void *pc, const char *fmt, char *out_buf, size_t out_buf_size);
extern char __executable_start;

static uint64_t oom_site(char *out, size_t outlen, void *const *bt, int nbt)
{
  int      i, k = 0;
  size_t   o = 0;
  uint64_t h = VH_FNV_INIT;
  out[0]     = 0;
  for (i = 0; i < nbt && k < 4; i++) {
    char fn[128];
    fn[0] = 0;
    __sanitizer_symbolize_pc((char *)bt[i] - 1, "%f", fn, sizeof(fn));
    if (fn[0] == 0 || !strncmp(fn, "oom_", 4) || !strcmp(fn, "ares_malloc") || !strcmp(fn, "ares_realloc") || !strcmp(fn, "ares_malloc_zero") ||
        !strcmp(fn, "ares_realloc_zero") || strstr(fn, "backtrace") != NULL) {
      continue;
    }
    o += (size_t)snprintf(out + o, outlen - o, "%s%s", k ? "<" : "", fn);
    h = vh_fnv_u64(h, (uint64_t)((uintptr_t)bt[i] - (uintptr_t)&__executable_start));
    k++;
    if (o >= outlen - 1) {
      break;
    }
  }
  return h;
}

/* from the moment the fault fires every violation key of the run names the failed call site (two frames) */
static void oom_set_suffix(void)
{
  char  site[256], *lt;
  oom_site(site, sizeof(site), oom_fail_bt, oom_fail_nbt);
  lt = strchr(site, '<');
  if (lt && (lt = strchr(lt + 1, '<')) != NULL) {
    *lt = 0;
  }
  snprintf(vh_key_suffix, sizeof(vh_key_suffix), "@%s", site[0] ? site : "?");
}

typedef struct {
  int  ntok;
  int  status[32];
  int  cb[32];
  int  naddr[32];
  int  nser[32];
  int  fresh_ok;
  long nalloc;
} oom_ref_t;

static int  oom_fresh_status;
static int  oom_fresh_cb;
static int  oom_init_failed;

/* one complete run of scenario (kind, variant) with the fail_at-th allocation failing (0 = none) */
static void oom_one_run(int kind, int variant, long fail_at, oom_ref_t *out)
{
  int rc, i;
  case_begin();
  gen_scenario_kv(kind, variant);
  mon_enable_net = mon_enable_timer = 0; /* retry budgets and timer precision are not judged under memory pressure */
  app_cfg.use_server_state_cb       = 1;
  oom_fresh_status                  = -1;
  oom_fresh_cb                      = 0;
  oom_init_failed                   = 0;
  oom_run_reset(fail_at);
  rc = app_channel_init();
  if (rc != ARES_SUCCESS) {
    oom_init_failed = 1;
    if (app_channel) {
      ares_destroy(app_channel);
      app_channel = NULL;
    }
    if (!oom_fired) {
      vh_violation("oom:init-failed-without-fault", "channel initialisation returned %d although no allocation failed", rc);
    } else if (rc != ARES_ENOMEM) {
      vh_count("oom_init_failed_with_other_status");
    }
  } else {
    mon_quiescent("init");
    for (i = 0; i < app_nact; i++) {
      app_act[i].t += sim_now_us;
    }
    app_run();
    /* the failure (if it was reached) is behind us: the channel must still resolve a fresh name */
    oom_armed = 0;
    if (!app_stuck && app_sched.destroy_at_step == 0 && app_channel != NULL) {
      int ti;
      for (i = 0; i < sim_nsrv; i++) {
        memset(sim_srv[i].w_udp, 0, sizeof(sim_srv[i].w_udp));
        memset(sim_srv[i].w_tcp, 0, sizeof(sim_srv[i].w_tcp));
        sim_srv[i].w_udp[SA_ANSWER] = 1;
        sim_srv[i].w_tcp[SA_ANSWER] = 1;
        sim_srv[i].tcp_connect      = 1;
        sim_srv[i].nrules           = 0;
      }
      sim_nfaults = 0;
      ti          = gen_add_token(&app_rng, sim_now_us);
      if (ti >= 0) {
        app_tok[ti].kind   = RK_QUERY_DNSREC;
        app_tok[ti].qtype  = 1;
        app_tok[ti].qclass = 1;
        app_tok[ti].action = RA_NONE;
        snprintf(app_tok[ti].name, sizeof(app_tok[ti].name), "fresh-after-failure.example.com");
        app_run();
        oom_fresh_cb     = app_tok[ti].cb_count;
        oom_fresh_status = app_tok[ti].cb_status;
        app_ntok--; /* not part of the scenario's own requests */
      }
    }
    /* tearing down is part of the scenario */
    oom_armed = 1;
    case_finish();
  }
  oom_armed = 0;
  if (out) {
    memset(out, 0, sizeof(*out));
    out->ntok = app_ntok < 32 ? app_ntok : 32;
    for (i = 0; i < out->ntok; i++) {
      out->status[i] = app_tok[i].cb_status;
      out->cb[i]     = app_tok[i].cb_count;
      out->naddr[i]  = app_tok[i].naddr;
      out->nser[i]   = app_tok[i].nserials;
    }
    out->fresh_ok = (oom_fresh_cb == 1 && oom_fresh_status == ARES_SUCCESS);
    out->nalloc   = oom_count;
  }
}

#define OOM_KINDS 25
#define OOM_STRIDE 8

static void run_oom(uint64_t idx)
{
  int       scn     = (int)(idx / OOM_STRIDE);
  int       r       = (int)(idx % OOM_STRIDE);
  int       kind    = scn % OOM_KINDS;
  int       variant = scn / OOM_KINDS;
  oom_ref_t ref, got;
  long      n;
  uint64_t  seed = g_args->seed;
  if (!oom_installed) {
    oom_install();
  }
  oom_want_bt = 1;
  /* every run of this scenario starts from the same case seed, whatever the stride slot */
  g_case_seed = vh_case_seed(seed, "oom", (uint64_t)scn);
  oom_one_run(kind, variant, 0, &ref);
  if (vh_case_viol) {
    return; /* the scenario itself misbehaves: reported by the ordinary monitors */
  }
  if (oom_live != 0) {
    vh_violation("oom:leak-without-fault", "scenario kind %d variant %d leaves %ld blocks allocated with no failure injected", kind, variant, oom_live);
    return;
  }
  vh_count_n("oom_allocations_in_reference_runs", (uint64_t)(r == 0 ? ref.nalloc : 0));
  for (n = r + 1;; n += OOM_STRIDE) {
    char site[256], leakkey[220];
    int  i;
    vh_trace("oom: ---- begin kind %d variant %d failing allocation #%ld", kind, variant, n);
    oom_one_run(kind, variant, n, &got);
    if (!oom_fired) {
      vh_count("oom_enumeration_past_last_allocation");
      break;
    }
    vh_count("oom_runs_with_failure");
    vh_fp_add(oom_site(site, sizeof(site), oom_fail_bt, oom_fail_nbt));
    vh_trace("oom: kind %d variant %d n=%ld site %s init_failed %d live %ld", kind, variant, n, site, oom_init_failed, oom_live);
    if (vh_verbose) {
      int k;
      for (k = 0; k < oom_fail_nbt; k++) {
        char fn[160];
        fn[0] = 0;
        __sanitizer_symbolize_pc((char *)oom_fail_bt[k] - 1, "%f %s:%l", fn, sizeof(fn));
        vh_trace("oom:    failed allocation frame %d: %s", k, fn);
      }
    }
    MON_EVAL("oom_ledger_empty_after_destroy");
    if (oom_live != 0) {
      unsigned k;
      char     where[256] = "";
      long     li = -1;
      size_t   lsz = 0;
      for (k = 0; k < OOM_LEDGER_CAP; k++) {
        if (oom_ledger[k].p != NULL && oom_ledger[k].p != (void *)1) {
          li  = oom_ledger[k].idx;
          lsz = oom_ledger[k].size;
          if (oom_ledger[k].nbt) {
            oom_site(where, sizeof(where), oom_ledger[k].bt, oom_ledger[k].nbt);
          }
          break;
        }
      }
      {
        char lk[200], *lt;
        snprintf(lk, sizeof(lk), "oom:leak:%s", where[0] ? where : "?");
        /* key = the two innermost frames of the leaked block's allocation */
        lt = strchr(lk + 9, '<');
        if (lt && (lt = strchr(lt + 1, '<')) != NULL) {
          *lt = 0;
        }
        snprintf(leakkey, sizeof(leakkey), "%s", lk);
      }
      vh_violation(leakkey, "kind %d variant %d: failing allocation #%ld (%s) leaves %ld block(s) allocated after destroy, e.g. allocation #%ld of %zu bytes %s",
                   kind, variant, n, site, oom_live, li, lsz, where);
    }
    MON_EVAL("oom_no_foreign_free");
    if (oom_unknown_free) {
      vh_violation("oom:free-of-unknown-block", "kind %d variant %d: failing allocation #%ld (%s): %d free/realloc of a block the ledger does not hold", kind,
                   variant, n, site, oom_unknown_free);
    }
    if (!oom_init_failed) {
      MON_EVAL("oom_channel_usable_afterwards");
      if (ref.fresh_ok && !app_stuck && app_sched.destroy_at_step == 0 && !got.fresh_ok) {
        vh_violation("oom:channel-unusable-after-failure",
                     "kind %d variant %d: after failing allocation #%ld (%s) a fresh query ended with %d callback(s), status %d (succeeds without the failure)", kind,
                     variant, n, site, oom_fresh_cb, oom_fresh_status);
      }
      for (i = 0; i < got.ntok && i < ref.ntok; i++) {
        MON_EVAL("oom_request_fails_or_is_right");
        /* address lookups deliberately return what the sub-queries that succeeded brought (a failed AAAA query
         * beside a good A one is a success with the A addresses): fewer addresses are accepted there */
        if (got.cb[i] == 1 && got.status[i] == ARES_SUCCESS && ref.cb[i] == 1 && ref.status[i] == ARES_SUCCESS &&
            ((app_tok[i].kind == RK_GETADDRINFO || app_tok[i].kind == RK_GETHOSTBYNAME)
               ? (got.naddr[i] > ref.naddr[i] || (got.naddr[i] == 0 && ref.naddr[i] > 0))
               : (got.naddr[i] != ref.naddr[i]))) {
          vh_violation("oom:success-with-different-result",
                       "kind %d variant %d: failing allocation #%ld (%s): request %d reports success with %d addresses, %d without the failure", kind, variant, n,
                       site, i, got.naddr[i], ref.naddr[i]);
        }
        if (got.cb[i] == 1 && got.status[i] == ARES_SUCCESS && ref.cb[i] == 1 && ref.status[i] != ARES_SUCCESS && ref.status[i] != ARES_ECANCELLED &&
            ref.status[i] != ARES_EDESTRUCTION) {
          vh_count("oom_success_where_reference_failed");
        }
      }
    } else {
      vh_count("oom_failed_during_init");
    }
    if (vh_case_viol > 12) {
      break; /* enough witnesses from this slot */
    }
  }
  case_nontrivial = 1;
  vh_count("nontrivial_cases");
}
