/* sdns.h - the simulator's own minimal DNS wire handling (independent of c-ares's codec).
 * Decodes what the library transmits (header, first question, OPT/cookie) and builds the
 * responses the virtual servers send. */
#ifndef SDNS_H
#define SDNS_H
#include <stdint.h>
#include <string.h>
#include <ctype.h>

#define SDNS_T_A     1
#define SDNS_T_NS    2
#define SDNS_T_CNAME 5
#define SDNS_T_SOA   6
#define SDNS_T_PTR   12
#define SDNS_T_MX    15
#define SDNS_T_TXT   16
#define SDNS_T_AAAA  28
#define SDNS_T_SRV   33
#define SDNS_T_OPT   41

typedef struct {
  int      ok;         /* decoded far enough to have header + first question */
  int      wellformed; /* whole message walked without structural error */
  uint16_t id;
  uint16_t flags;
  int      qr, opcode, rd, cd, tc, rcode;
  uint16_t qdcount, ancount, nscount, arcount;
  uint8_t  qname_wire[256]; /* exact bytes of the first question name incl. root label */
  size_t   qname_wire_len;
  char     qname[1024]; /* lowercase presentation-ish form: labels joined by '.', raw bytes
                           escaped as \DDD when not printable or '.'; no trailing dot; "" = root */
  char     qname_case[1024]; /* same, case preserved */
  uint16_t qtype, qclass;
  size_t   question_end; /* offset after first question */
  int      has_opt;
  uint16_t opt_udpsize;
  uint32_t opt_ttl;
  int      has_cookie;
  uint8_t  cookie[40];
  size_t   cookie_len;
  int      n_opts;
  int      compressed; /* any compression pointer seen anywhere in a name we walked */
} sdns_query_t;

/* walk an (uncompressed or compressed) name at off; returns new offset or 0 on error */
static size_t sdns_skip_name(const uint8_t *m, size_t len, size_t off, int *compressed)
{
  int hops = 0;
  (void)hops;
  while (off < len) {
    uint8_t c = m[off];
    if (c == 0) {
      return off + 1;
    }
    if ((c & 0xc0) == 0xc0) {
      if (off + 2 > len) {
        return 0;
      }
      if (compressed) {
        *compressed = 1;
      }
      return off + 2;
    }
    if (c & 0xc0) {
      return 0;
    }
    off += 1 + (size_t)c;
  }
  return 0;
}

static void sdns_name_to_text(const uint8_t *wire, size_t wlen, char *out, size_t outlen, int lower)
{
  size_t i = 0, o = 0;
  out[0]   = 0;
  while (i < wlen && wire[i] != 0) {
    size_t l = wire[i++];
    size_t k;
    if (o && o + 1 < outlen) {
      out[o++] = '.';
    }
    for (k = 0; k < l && i < wlen; k++, i++) {
      unsigned char c = wire[i];
      if (o + 5 >= outlen) {
        break;
      }
      if (c == '.' || c == '\\' || c <= 0x20 || c >= 0x7f) {
        o += (size_t)snprintf(out + o, outlen - o, "\\%03u", c);
      } else {
        out[o++] = (char)(lower ? tolower(c) : c);
      }
    }
  }
  out[o] = 0;
}

static void sdns_decode_query(const uint8_t *m, size_t len, sdns_query_t *q)
{
  size_t off, i;
  memset(q, 0, sizeof(*q));
  if (len < 12) {
    return;
  }
  q->id      = (uint16_t)((m[0] << 8) | m[1]);
  q->flags   = (uint16_t)((m[2] << 8) | m[3]);
  q->qr      = (q->flags >> 15) & 1;
  q->opcode  = (q->flags >> 11) & 0xf;
  q->tc      = (q->flags >> 9) & 1;
  q->rd      = (q->flags >> 8) & 1;
  q->cd      = (q->flags >> 4) & 1;
  q->rcode   = q->flags & 0xf;
  q->qdcount = (uint16_t)((m[4] << 8) | m[5]);
  q->ancount = (uint16_t)((m[6] << 8) | m[7]);
  q->nscount = (uint16_t)((m[8] << 8) | m[9]);
  q->arcount = (uint16_t)((m[10] << 8) | m[11]);
  if (q->qdcount < 1) {
    return;
  }
  /* first question: must be uncompressed in a query */
  off = 12;
  {
    size_t start = off;
    size_t end;
    while (off < len && m[off] != 0) {
      if (m[off] & 0xc0) {
        q->compressed = 1;
        return;
      }
      off += 1 + (size_t)m[off];
    }
    if (off >= len) {
      return;
    }
    end = off + 1;
    if (end - start > 255) {
      return;
    }
    memcpy(q->qname_wire, m + start, end - start);
    q->qname_wire_len = end - start;
    off               = end;
  }
  if (off + 4 > len) {
    return;
  }
  q->qtype        = (uint16_t)((m[off] << 8) | m[off + 1]);
  q->qclass       = (uint16_t)((m[off + 2] << 8) | m[off + 3]);
  off            += 4;
  q->question_end = off;
  sdns_name_to_text(q->qname_wire, q->qname_wire_len, q->qname, sizeof(q->qname), 1);
  sdns_name_to_text(q->qname_wire, q->qname_wire_len, q->qname_case, sizeof(q->qname_case), 0);
  q->ok = 1;
  /* remaining questions */
  for (i = 1; i < q->qdcount; i++) {
    off = sdns_skip_name(m, len, off, &q->compressed);
    if (!off || off + 4 > len) {
      return;
    }
    off += 4;
  }
  /* RRs */
  for (i = 0; i < (size_t)q->ancount + q->nscount + q->arcount; i++) {
    uint16_t type, cls, rdlen;
    uint32_t ttl;
    off = sdns_skip_name(m, len, off, &q->compressed);
    if (!off || off + 10 > len) {
      return;
    }
    type  = (uint16_t)((m[off] << 8) | m[off + 1]);
    cls   = (uint16_t)((m[off + 2] << 8) | m[off + 3]);
    ttl   = ((uint32_t)m[off + 4] << 24) | ((uint32_t)m[off + 5] << 16) | ((uint32_t)m[off + 6] << 8) | m[off + 7];
    rdlen = (uint16_t)((m[off + 8] << 8) | m[off + 9]);
    off  += 10;
    if (off + rdlen > len) {
      return;
    }
    if (type == SDNS_T_OPT) {
      size_t p = off, e = off + rdlen;
      q->has_opt     = 1;
      q->opt_udpsize = cls;
      q->opt_ttl     = ttl;
      while (p + 4 <= e) {
        uint16_t code = (uint16_t)((m[p] << 8) | m[p + 1]);
        uint16_t ol   = (uint16_t)((m[p + 2] << 8) | m[p + 3]);
        p            += 4;
        if (p + ol > e) {
          return;
        }
        q->n_opts++;
        if (code == 10) {
          q->has_cookie = 1;
          q->cookie_len = ol > sizeof(q->cookie) ? sizeof(q->cookie) : ol;
          memcpy(q->cookie, m + p, q->cookie_len);
        }
        p += ol;
      }
    }
    off += rdlen;
  }
  if (off == len) {
    q->wellformed = 1;
  }
}

/* ---- response builder ---- */
typedef struct {
  uint8_t b[70000];
  size_t  len;
  int     overflow;
} sdns_out_t;

static void sdns_put(sdns_out_t *o, const void *p, size_t n)
{
  if (o->len + n > sizeof(o->b)) {
    o->overflow = 1;
    return;
  }
  memcpy(o->b + o->len, p, n);
  o->len += n;
}
static void sdns_put8(sdns_out_t *o, unsigned v)
{
  uint8_t c = (uint8_t)v;
  sdns_put(o, &c, 1);
}
static void sdns_put16(sdns_out_t *o, unsigned v)
{
  uint8_t c[2] = { (uint8_t)(v >> 8), (uint8_t)v };
  sdns_put(o, c, 2);
}
static void sdns_put32(sdns_out_t *o, uint32_t v)
{
  uint8_t c[4] = { (uint8_t)(v >> 24), (uint8_t)(v >> 16), (uint8_t)(v >> 8), (uint8_t)v };
  sdns_put(o, c, 4);
}

/* text name "a.b.c" (no escapes) -> wire */
static void sdns_put_name_text(sdns_out_t *o, const char *name)
{
  const char *p = name;
  while (*p) {
    const char *dot = strchr(p, '.');
    size_t      l   = dot ? (size_t)(dot - p) : strlen(p);
    if (l == 0) {
      break;
    }
    if (l > 63) {
      l = 63;
    }
    sdns_put8(o, (unsigned)l);
    sdns_put(o, p, l);
    p += l;
    if (*p == '.') {
      p++;
    }
  }
  sdns_put8(o, 0);
}

static void sdns_begin(sdns_out_t *o, uint16_t id, uint16_t flags)
{
  o->len      = 0;
  o->overflow = 0;
  sdns_put16(o, id);
  sdns_put16(o, flags);
  sdns_put16(o, 0);
  sdns_put16(o, 0);
  sdns_put16(o, 0);
  sdns_put16(o, 0);
}

static void sdns_bump(sdns_out_t *o, int section /*0 qd,1 an,2 ns,3 ar*/)
{
  size_t   off = 4 + 2 * (size_t)section;
  unsigned v   = (unsigned)((o->b[off] << 8) | o->b[off + 1]) + 1;
  o->b[off]    = (uint8_t)(v >> 8);
  o->b[off + 1] = (uint8_t)v;
}

static void sdns_question_wire(sdns_out_t *o, const uint8_t *wire, size_t wlen, uint16_t qtype, uint16_t qclass)
{
  sdns_put(o, wire, wlen);
  sdns_put16(o, qtype);
  sdns_put16(o, qclass);
  sdns_bump(o, 0);
}

/* start an RR whose owner is a compression pointer to offset `ptr` (12 = question name), or an
 * explicit text name when name != NULL; returns offset of the RDLENGTH field */
static size_t sdns_rr_begin(sdns_out_t *o, int section, const char *name, unsigned ptr, uint16_t type, uint16_t cls,
                            uint32_t ttl)
{
  size_t at;
  if (name) {
    sdns_put_name_text(o, name);
  } else {
    sdns_put16(o, 0xc000 | ptr);
  }
  sdns_put16(o, type);
  sdns_put16(o, cls);
  sdns_put32(o, ttl);
  at = o->len;
  sdns_put16(o, 0);
  sdns_bump(o, section);
  return at;
}

static void sdns_rr_end(sdns_out_t *o, size_t at)
{
  size_t rdlen = o->len - at - 2;
  if (o->overflow) {
    return;
  }
  o->b[at]     = (uint8_t)(rdlen >> 8);
  o->b[at + 1] = (uint8_t)rdlen;
}

static void sdns_opt(sdns_out_t *o, uint16_t udpsize, uint32_t ttl, const uint8_t *cookie, size_t cookie_len)
{
  size_t at;
  sdns_put8(o, 0);
  sdns_put16(o, SDNS_T_OPT);
  sdns_put16(o, udpsize);
  sdns_put32(o, ttl);
  at = o->len;
  sdns_put16(o, 0);
  sdns_bump(o, 3);
  if (cookie) {
    sdns_put16(o, 10);
    sdns_put16(o, (unsigned)cookie_len);
    sdns_put(o, cookie, cookie_len);
  }
  sdns_rr_end(o, at);
}

#endif
