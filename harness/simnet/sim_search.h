/* sim_search.h - C12: reference model of resolv.conf(5) search-list semantics and its monitor.
 *
 * One request per case.  The case fixes name shape, ndots, domains, flags, alias file and an
 * outcome for every candidate name; the virtual server answers by per-name rules.  Observed:
 * the ordered list of question names the server saw (consecutive repeats collapsed) and the
 * final status.  Expected: computed here, independently of ares_search.c.
 */

enum { SO_DATA = 0, SO_NODATA, SO_NXDOMAIN, SO_SERVFAIL, SO_REFUSED, SO_TIMEOUT, SO_FORMERR, SO__COUNT };
static const char *const so_names[SO__COUNT] = { "data", "nodata", "nxdomain", "servfail", "refused", "timeout", "formerr" };
static const int         so_action[SO__COUNT] = { SA_ANSWER, SA_NODATA, SA_NXDOMAIN, SA_SERVFAIL, SA_REFUSED, SA_SILENT, SA_FORMERR_NOOPT };
static const int         so_status[SO__COUNT] = { ARES_SUCCESS, ARES_ENODATA,  ARES_ENOTFOUND, ARES_ESERVFAIL,
                                                  ARES_EREFUSED, ARES_ETIMEOUT, ARES_EFORMERR };

#define SM_MAXCAND 6
typedef struct {
  int  ncand;
  char cand[SM_MAXCAND][400];  /* candidate names as the application-level text */
  char qname[SM_MAXCAND][400]; /* normalised form the server will see (lowercase, no trailing dot) */
  int  encodable[SM_MAXCAND];
  int  outcome[SM_MAXCAND];
  int  nexpected;       /* how many candidates must be queried */
  int  expected_status;
  int  zero_questions;  /* model says: never reaches the network */
  int  status_unspecified; /* final status not pinned by the statement for this case */
} sm_model_t;
static sm_model_t sm;
static int        sm_cached_a = -1; /* candidate whose (negative) A answer an earlier request has put in the query cache */

/* presentation name -> normalised qname text (same normalisation as sdns_name_to_text, lower) ;
 * returns 0 if not encodable (empty label, label > 63, total > 255) */
static int sm_normalise(const char *name, char *out, size_t outlen)
{
  uint8_t     wire[300];
  size_t      wl  = 0;
  const char *p   = name;
  size_t      lab = 0, labstart;
  if (!strcmp(name, ".") || name[0] == 0) {
    out[0] = 0;
    return name[0] != 0 || 1;
  }
  labstart = wl++;
  while (*p) {
    unsigned c = (unsigned char)*p;
    if (c == '.') {
      if (lab == 0) {
        return 0; /* empty label */
      }
      if (p[1] == 0) {
        break; /* trailing dot */
      }
      wire[labstart] = (uint8_t)lab;
      labstart       = wl++;
      lab            = 0;
      p++;
      continue;
    }
    if (c == '\\') {
      if (isdigit((unsigned char)p[1]) && isdigit((unsigned char)p[2]) && isdigit((unsigned char)p[3])) {
        unsigned v = (unsigned)((p[1] - '0') * 100 + (p[2] - '0') * 10 + (p[3] - '0'));
        if (v > 255) {
          return 0;
        }
        c = v;
        p += 4;
      } else if (p[1]) {
        c = (unsigned char)p[1];
        p += 2;
      } else {
        return 0;
      }
    } else {
      p++;
    }
    if (lab >= 63 || wl >= 254) {
      return 0;
    }
    wire[wl++] = (uint8_t)c;
    lab++;
  }
  if (lab == 0) {
    return 0;
  }
  wire[labstart] = (uint8_t)lab;
  wire[wl++]     = 0;
  if (wl > 255) {
    return 0;
  }
  sdns_name_to_text(wire, wl, out, outlen, 1);
  return 1;
}

static int sm_count_dots(const char *s)
{
  int n = 0;
  for (; *s; s++) {
    if (*s == '.') {
      n++;
    }
  }
  return n;
}

/* the reference model: candidates in order */
static void sm_candidates(const char *name, int is_addr_lookup)
{
  size_t len = strlen(name);
  int    i;
  int    dots = sm_count_dots(name);
  (void)is_addr_lookup;
  sm.ncand = 0;
  /* host alias: single-label names only, unless disabled */
  if (!(app_cfg.flags & ARES_FLAG_NOALIASES) && app_cfg.hostaliases_content[0] && dots == 0) {
    /* alias file format: "<alias> <target>" per line; first match, case-insensitive */
    const char *p = app_cfg.hostaliases_content;
    while (*p) {
      char        a[128], t[300];
      const char *e = strchr(p, '\n');
      size_t      l = e ? (size_t)(e - p) : strlen(p);
      a[0] = t[0] = 0;
      if (l < 400) {
        char line[400];
        memcpy(line, p, l);
        line[l] = 0;
        if (sscanf(line, "%127s %299s", a, t) == 2 && strcasecmp(a, name) == 0) {
          snprintf(sm.cand[0], sizeof(sm.cand[0]), "%s", t);
          sm.ncand = 1;
          return;
        }
      }
      if (!e) {
        break;
      }
      p = e + 1;
    }
  }
  if ((len && name[len - 1] == '.') || (app_cfg.flags & ARES_FLAG_NOSEARCH)) {
    snprintf(sm.cand[0], sizeof(sm.cand[0]), "%s", name);
    sm.ncand = 1;
    return;
  }
  if (dots >= app_cfg.ndots) {
    snprintf(sm.cand[sm.ncand++], sizeof(sm.cand[0]), "%s", name);
  }
  for (i = 0; i < app_cfg.ndomains && sm.ncand < SM_MAXCAND; i++) {
    if (!strcmp(app_cfg.domains[i], ".")) {
      snprintf(sm.cand[sm.ncand++], sizeof(sm.cand[0]), "%s.", name);
    } else {
      snprintf(sm.cand[sm.ncand++], sizeof(sm.cand[0]), "%s.%s", name, app_cfg.domains[i]);
    }
  }
  if (dots < app_cfg.ndots && sm.ncand < SM_MAXCAND) {
    snprintf(sm.cand[sm.ncand++], sizeof(sm.cand[0]), "%s", name);
  }
}

static int sm_single_label(const char *cand)
{
  return sm_count_dots(cand) == 0;
}

/* expected walk and final status */
static void sm_expect(void)
{
  int i, any_nodata = 0, last = ARES_ENOTFOUND;
  sm.nexpected          = 0;
  sm.status_unspecified = 0;
  for (i = 0; i < sm.ncand; i++) {
    int o = sm.outcome[i];
    if (!sm.encodable[i]) {
      /* a candidate that cannot be put on the wire is a hard error at that point */
      sm.expected_status    = -1;
      sm.status_unspecified = 1;
      return;
    }
    sm.nexpected = i + 1;
    if (o == SO_DATA) {
      sm.expected_status = ARES_SUCCESS;
      return;
    }
    if (o == SO_TIMEOUT || o == SO_FORMERR) {
      sm.expected_status = so_status[o];
      return;
    }
    if ((o == SO_SERVFAIL || o == SO_REFUSED) && !sm_single_label(sm.cand[i])) {
      sm.expected_status = so_status[o];
      return;
    }
    if (o == SO_NODATA) {
      any_nodata = 1;
    }
    last = so_status[o];
  }
  sm.expected_status = any_nodata ? ARES_ENODATA : last;
}

static void gen_search(vh_rng_t *rng)
{
  static const char *const doms[] = { "example.com", "sub.test", ".", "corp.example.org", "a.b.c.d.test" };
  int                      i, shape, uniq = 7;
  app_tok_t               *t;
  int                      ti;
  vsrv_t                  *s;
  char                     name[400];

  gen_profile_flags = GP_NO_REENTRANT | GP_NO_CANCEL_IN_CB | GP_NO_WEIRD_TYPES | GP_SIMPLE_NAMES;
  gen_default_simcfg(rng, 0);
  gen_default_appcfg(rng);
  gen_srv_base(1);
  s               = &sim_srv[0];
  s->delay_min_ms = s->delay_max_ms = 1;
  s->default_ttl                    = 120;
  app_cfg.flags      = vh_chance(rng, 1, 2) ? ARES_FLAG_EDNS : 0;
  app_cfg.tries      = 1;
  app_cfg.timeout_ms = 300;
  app_cfg.nsrv_cfg   = 1;
  app_cfg.srv_cfg[0] = 0;
  app_cfg.ndots      = vh_range(rng, 0, 3);
  app_cfg.ndomains   = vh_range(rng, 0, 3);
  for (i = 0; i < app_cfg.ndomains; i++) {
    snprintf(app_cfg.domains[i], sizeof(app_cfg.domains[i]), "%s", doms[vh_below(rng, 5)]);
  }
  /* in a third of the cases the search parameters reach the channel through the system configuration
   * (resolv.conf directives, RES_OPTIONS, LOCALDOMAIN) instead of the options structure */
  if (vh_chance(rng, 1, 3)) {
    int plain = 1, j;
    app_cfg.ndots_via = vh_range(rng, 0, 2);
    for (i = 0; i < app_cfg.ndomains; i++) {
      if (!strcmp(app_cfg.domains[i], ".")) {
        plain = 0;
      }
      for (j = 0; j < i; j++) {
        if (!strcasecmp(app_cfg.domains[i], app_cfg.domains[j])) {
          plain = 0;
        }
      }
    }
    if (plain && app_cfg.ndomains > 0) {
      /* LOCALDOMAIN carries a single domain in c-ares (by design, asserted by nothing else): only then */
      app_cfg.domains_via = vh_range(rng, 0, app_cfg.ndomains == 1 ? 2 : 1);
      if (app_cfg.domains_via == 1) {
        app_cfg.domains_decoy = (int)vh_below(rng, 3);
      }
    }
  }
  if (app_cfg.domains_via == 0 && vh_chance(rng, 1, 3)) {
    /* the application gave the list (empty lists included): what the system configuration says about it is ignored */
    app_cfg.sys_search_decoy = 1;
  }
  if (vh_chance(rng, 1, 6)) {
    app_cfg.flags |= ARES_FLAG_NOSEARCH;
  }
  if (vh_chance(rng, 1, 4)) {
    app_cfg.flags |= ARES_FLAG_NOALIASES;
  }
  if (vh_chance(rng, 1, 4)) {
    snprintf(app_cfg.hostaliases_content, sizeof(app_cfg.hostaliases_content), "Host7 real7.alias.test\nother x.y.test\n");
  }
  /* hosts file before the network, after it, or not at all (none of the generated names is in the hosts file:
   * the file step must neither add candidates nor change what the walk over the network reports) */
  snprintf(app_cfg.lookups, sizeof(app_cfg.lookups), "%s", vh_chance(rng, 1, 5) ? "fb" : vh_chance(rng, 1, 4) ? "bf" : "b");
  mon_enable_idx = mon_enable_fd = mon_enable_timer = 0;
  /* name shape */
  shape = (int)vh_below(rng, 14);
  switch (shape) {
    case 0:
    case 1:
      snprintf(name, sizeof(name), "host%d", uniq);
      break;
    case 2:
    case 3:
      snprintf(name, sizeof(name), "host%d.dept", uniq);
      break;
    case 4:
      snprintf(name, sizeof(name), "host%d.dept.example", uniq);
      break;
    case 5:
      snprintf(name, sizeof(name), "host%d.a.b.c", uniq);
      break;
    case 6:
      snprintf(name, sizeof(name), "host%d.dept.", uniq);
      break;
    case 7:
      snprintf(name, sizeof(name), "host%d.", uniq);
      break;
    case 8:
      snprintf(name, sizeof(name), "HoSt%d.DePt", uniq);
      break;
    case 9:
      {
        /* boundary length: text 230..253 so that some candidates no longer fit */
        int    total = vh_range(rng, 225, 253);
        size_t o     = (size_t)snprintf(name, sizeof(name), "h%d", uniq);
        int    lab   = (int)o;
        while ((int)o < total) {
          if (lab >= 60) {
            name[o++] = '.';
            lab       = 0;
          } else {
            name[o++] = (char)('a' + (o % 26));
            lab++;
          }
        }
        if (name[o - 1] == '.') {
          name[o - 1] = 'q';
        }
        name[o] = 0;
        break;
      }
    case 10:
      {
        /* escaped form: text longer than wire */
        int    nesc = vh_range(rng, 30, 61);
        size_t o    = 0;
        for (i = 0; i < nesc; i++) {
          o += (size_t)snprintf(name + o, sizeof(name) - o, "\\%03d", 97 + (i % 26));
        }
        snprintf(name + o, sizeof(name) - o, "%s", vh_chance(rng, 1, 2) ? ".h7" : "");
        break;
      }
    case 12:
      /* an escaped dot is a dot of the name as given (resolv.conf(5) counts characters), but no label boundary */
      snprintf(name, sizeof(name), "host%d\\.dept", uniq);
      break;
    case 13:
      snprintf(name, sizeof(name), vh_chance(rng, 1, 2) ? "host%d\\.a.b" : "host%d.a\\.b\\.c", uniq);
      break;
    default:
      snprintf(name, sizeof(name), "%s", vh_chance(rng, 1, 3) ? "localhost" : vh_chance(rng, 1, 2) ? "192.0.2.9" : "host7.onion");
      break;
  }
  ti = gen_add_token(rng, 0);
  t  = &app_tok[ti];
  {
    static const int ks[] = { RK_SEARCH, RK_SEARCH_DNSREC, RK_GETADDRINFO, RK_GETHOSTBYNAME };
    t->kind               = ks[vh_below(rng, 4)];
  }
  snprintf(t->name, sizeof(t->name), "%s", name);
  t->action = RA_NONE;
  {
    static const int ty[] = { 1, 28, 16, 15 };
    t->qtype              = ty[vh_below(rng, 4)];
  }
  t->qclass = 1;
  {
    int r     = (int)vh_below(rng, 3);
    t->family = r == 0 ? AF_INET : r == 1 ? AF_INET6 : AF_UNSPEC;
    if (t->kind == RK_GETHOSTBYNAME && t->family == AF_UNSPEC && vh_chance(rng, 1, 2)) {
      t->family = AF_INET;
    }
  }
  t->ai_flags = ARES_AI_NOSORT;
  /* model */
  memset(&sm, 0, sizeof(sm));
  sm_candidates(name, t->kind == RK_GETADDRINFO || t->kind == RK_GETHOSTBYNAME);
  for (i = 0; i < sm.ncand; i++) {
    sm.encodable[i] = sm_normalise(sm.cand[i], sm.qname[i], sizeof(sm.qname[i]));
    /* outcome vector: biased towards continuing so that long walks happen */
    {
      int r = (int)vh_below(rng, 100);
      sm.outcome[i] = r < 22 ? SO_DATA : r < 44 ? SO_NODATA : r < 66 ? SO_NXDOMAIN : r < 76 ? SO_SERVFAIL : r < 84 ? SO_REFUSED : r < 92 ? SO_TIMEOUT : SO_FORMERR;
      if (sm.outcome[i] == SO_FORMERR && !(app_cfg.flags & ARES_FLAG_EDNS)) {
        sm.outcome[i] = SO_NXDOMAIN;
      }
    }
  }
  /* two candidates may normalise to the same wire name (e.g. root domain): give them one outcome */
  for (i = 0; i < sm.ncand; i++) {
    int j;
    for (j = 0; j < i; j++) {
      if (sm.encodable[i] && sm.encodable[j] && !strcmp(sm.qname[i], sm.qname[j])) {
        sm.outcome[i] = sm.outcome[j];
      }
    }
  }
  s->nrules = 0;
  for (i = 0; i < sm.ncand && s->nrules + 1 < SIM_MAXRULES; i++) {
    sim_rule_t *r;
    int         addr_unspec = (t->kind == RK_GETADDRINFO || t->kind == RK_GETHOSTBYNAME) && t->family == AF_UNSPEC;
    if (!sm.encodable[i]) {
      continue;
    }
    if (addr_unspec && sm.outcome[i] == SO_DATA && vh_chance(rng, 1, 2)) {
      /* the two sub-queries of one candidate disagree: one family has data, the other fails.  Data
       * wins: the candidate still is the first one that yields data (the statement's stop rule) */
      static const int other[] = { SO_SERVFAIL, SO_REFUSED, SO_NXDOMAIN, SO_NODATA, SO_TIMEOUT };
      int              fail_t  = vh_chance(rng, 1, 2) ? SDNS_T_AAAA : SDNS_T_A;
      int              j, dupname = 0;
      for (j = 0; j < i; j++) {
        if (sm.encodable[j] && !strcmp(sm.qname[i], sm.qname[j])) {
          dupname = 1;
        }
      }
      if (!dupname) {
        r = &s->rules[s->nrules++];
        memset(r, 0, sizeof(*r));
        snprintf(r->name, sizeof(r->name), "%s", sm.qname[i]);
        r->qtype  = fail_t;
        r->action = so_action[other[vh_below(rng, 5)]];
        if (strchr(sm.qname[i], '.') == NULL && vh_chance(rng, 2, 3)) {
          /* a single-label candidate: SERVFAIL / REFUSED are the statuses the library treats specially for those
           * (it moves on where it would otherwise stop) - not when the other family already brought data */
          r->action = so_action[other[vh_below(rng, 2)]];
        }
        r->nrec   = 1;
        r->ttl    = 120;
        sim_note("search_split_outcome_candidate");
      }
    }
    r = &s->rules[s->nrules++];
    memset(r, 0, sizeof(*r));
    snprintf(r->name, sizeof(r->name), "%s", sm.qname[i]);
    r->action = so_action[sm.outcome[i]];
    r->nrec   = 1;
    r->ttl    = 120;
  }
  /* anything else the library might ask is answered NXDOMAIN (and will show up as unexpected) */
  memset(s->w_udp, 0, sizeof(s->w_udp));
  s->w_udp[SA_NXDOMAIN] = 1;
  sm_expect();
  /* names that never reach the network (address lookups only for the localhost/literal rules) */
  sm.zero_questions = 0;
  {
    int addr = (t->kind == RK_GETADDRINFO || t->kind == RK_GETHOSTBYNAME);
    size_t l = strlen(name);
    if (l >= 6 && !strcasecmp(name + l - 6, ".onion")) {
      sm.zero_questions  = 1;
      sm.expected_status = ARES_ENOTFOUND;
    } else if (addr && !strcmp(name, "192.0.2.9") && t->family == AF_INET6) {
      /* an IPv4 literal cannot satisfy a lookup restricted to IPv6: it is looked up like any other text */
      sim_note("search_v4_literal_for_v6_lookup");
    } else if (addr && (!strcasecmp(name, "localhost") || !strcmp(name, "192.0.2.9"))) {
      sm.zero_questions  = 1;
      sm.expected_status = ARES_SUCCESS;
      if (!strcasecmp(name, "localhost") && strchr(app_cfg.lookups, 'f') == NULL) {
        /* the loopback rule lives in the hosts-file step; with DNS-only lookups the statement does not
         * say what the status is */
        sm.expected_status = -2;
      }
    } else if (!strcmp(name, "192.0.2.9") || !strcasecmp(name, "localhost")) {
      /* plain searches treat these as ordinary names */
    }
  }
  /* An earlier request on the same channel has left the negative A answer of one candidate in the query cache: the
   * address lookup gets that sub-answer in the middle of sending the candidate's two questions.  Order, stop rule
   * and status are what they would be without the cache; only that candidate's A question stays off the wire. */
  sm_cached_a = -1;
  if (t->kind == RK_GETADDRINFO && t->family == AF_UNSPEC && !sm.zero_questions && sm.nexpected >= 1 && vh_chance(rng, 1, 4) &&
      strchr(name, '\\') == NULL /* (the cache keys on the name as written: an escaped spelling is another key) */) {
    int k = (int)vh_below(rng, (uint32_t)sm.nexpected), j, uniq = 1;
    /* (with the cache on, a candidate that repeats an earlier one - the same domain twice in the list - is answered
     * from the cache entirely and never shows on the wire: only lists of pairwise different candidates here) */
    for (j = 0; j < sm.ncand; j++) {
      int j2;
      for (j2 = 0; j2 < j; j2++) {
        if (!sm.encodable[j] || !sm.encodable[j2] || !strcmp(sm.qname[j], sm.qname[j2])) {
          uniq = 0;
        }
      }
    }
    if (uniq && sm.encodable[k] && sm.qname[k][0] && strchr(sm.qname[k], '\\') == NULL &&
        (sm.outcome[k] == SO_NODATA || sm.outcome[k] == SO_NXDOMAIN)) {
      int ti2 = gen_add_token(rng, 0);
      if (ti2 > 0) {
        app_tok_t *p2 = &app_tok[ti2];
        int        a2;
        p2->kind   = RK_QUERY;
        p2->qtype  = 1;
        p2->qclass = 1;
        p2->action = RA_NONE;
        snprintf(p2->name, sizeof(p2->name), "%s.", sm.qname[k]);
        for (a2 = 0; a2 < app_nact; a2++) {
          if (app_act[a2].kind == AA_START && app_act[a2].tok == 0) {
            app_act[a2].t = 80000; /* the address lookup starts once that answer is in */
          }
        }
        app_cfg.qcache_max_ttl = 3600;
        sm_cached_a            = k;
        sim_note("search_candidate_a_answer_cached_by_earlier_request");
      }
    }
  }
}

static void mon_search(void)
{
  app_tok_t *t = &app_tok[0];
  char       seen[64][300];
  int        seen_types[64];
  int        nseen = 0, i;
  int        addr  = (t->kind == RK_GETADDRINFO || t->kind == RK_GETHOSTBYNAME);
  if (!t->started || t->cb_count != 1) {
    vh_inconclusive("search-request-not-completed");
    return;
  }
  {
    /* group transmissions into candidates: same name and, per question type, the same query id
     * (a resend after an EDNS downgrade keeps its id; the next candidate gets a new one even when
     * it has the same wire name, e.g. "name" and "name." via the root search domain) */
    uint16_t gid[3] = { 0, 0, 0 };
    int      ghave[3] = { 0, 0, 0 };
    for (i = t->tx_at_start; i < sim_ntx && nseen < 64; i++) {
      int slot = sim_tx[i].qtype == 1 ? 0 : sim_tx[i].qtype == 28 ? 1 : 2;
      int bit  = 1 << slot;
      if (!sim_tx[i].wellformed) {
        continue; /* what the library sends for names that do not fit on the wire is not judged here */
      }
      if (nseen && !strcmp(seen[nseen - 1], sim_tx[i].qname) && (!ghave[slot] || gid[slot] == sim_tx[i].qid)) {
        seen_types[nseen - 1] |= bit;
        gid[slot]   = sim_tx[i].qid;
        ghave[slot] = 1;
        continue;
      }
      snprintf(seen[nseen], sizeof(seen[0]), "%s", sim_tx[i].qname);
      seen_types[nseen] = bit;
      memset(ghave, 0, sizeof(ghave));
      gid[slot]   = sim_tx[i].qid;
      ghave[slot] = 1;
      nseen++;
    }
  }
  MON_EVAL("search_sequence");
  if (sm.zero_questions) {
    if (nseen != 0) {
      vh_violation("search:network-for-local-name", "'%s' must not reach the network but %d question(s) were sent, first '%s'", t->name, nseen,
                   seen[0]);
    }
    if (sm.expected_status != -2 && t->cb_status != sm.expected_status) {
      vh_violation("search:status:local-name", "'%s': status %d, model %d", t->name, t->cb_status, sm.expected_status);
    }
    return;
  }
  if (sm.status_unspecified) {
    /* walk hits a candidate that cannot be encoded: everything before it must match, nothing after it */
    int upto = 0;
    while (upto < sm.ncand && sm.encodable[upto]) {
      upto++;
    }
    /* the statement does not say what happens at a candidate that does not fit on the wire:
     * only the candidates before it are compared */
    sim_note("search_unencodable_candidate");
    for (i = 0; i < nseen && i < upto; i++) {
      if (strcmp(seen[i], sm.qname[i]) != 0) {
        vh_violation("search:order", "'%s': question %d was '%s', model '%s'", t->name, i, seen[i], sm.qname[i]);
        break;
      }
    }
    return;
  }
  if (addr && t->cb_status == ARES_SUCCESS && sm.nexpected > 0 && !sm.status_unspecified && !sm.zero_questions &&
      sm.expected_status == ARES_SUCCESS) {
    /* C13: addresses come from answers for the winning candidate name only */
    MON_EVAL("search_addresses_from_winner");
    for (i = 0; i < t->nserials; i++) {
      uint32_t sr = t->serials[i];
      if (sr && sr <= sim_npkt && sim_pktinfo[sr - 1].txidx >= 0 &&
          strcmp(sim_tx[sim_pktinfo[sr - 1].txidx].qname, sm.qname[sm.nexpected - 1]) != 0) {
        vh_violation("addr:address-from-losing-candidate", "'%s': result contains an address from the answer for '%s' but the winning candidate is '%s'",
                     t->name, sim_tx[sim_pktinfo[sr - 1].txidx].qname, sm.qname[sm.nexpected - 1]);
        break;
      }
    }
  }
  if (nseen != sm.nexpected) {
    char key[128];
    snprintf(key, sizeof(key), "search:count:%s%s", nseen > sm.nexpected ? "asked-after-stop" : "stopped-early",
             (nseen < sm.nexpected && nseen < sm.ncand && strlen(sm.cand[nseen]) > 255) ? ":candidate-text-over-255" : "");
    vh_violation(key, "'%s' (%s, ndots %d, %d domains, flags 0x%x): %d candidates asked, model %d; outcomes %s,%s,%s,%s; last asked '%s'", t->name,
                 rk_names[t->kind], app_cfg.ndots, app_cfg.ndomains, app_cfg.flags, nseen, sm.nexpected, so_names[sm.outcome[0]],
                 sm.ncand > 1 ? so_names[sm.outcome[1]] : "-", sm.ncand > 2 ? so_names[sm.outcome[2]] : "-",
                 sm.ncand > 3 ? so_names[sm.outcome[3]] : "-", nseen ? seen[nseen - 1] : "");
    return;
  }
  for (i = 0; i < nseen; i++) {
    if (strcmp(seen[i], sm.qname[i]) != 0) {
      vh_violation("search:order", "'%s' (ndots %d, %d domains): question %d was '%s', model '%s'", t->name, app_cfg.ndots, app_cfg.ndomains, i,
                   seen[i], sm.qname[i]);
      return;
    }
    if (addr) {
      int want = t->family == AF_INET ? 1 : t->family == AF_INET6 ? 2 : 3;
      if (t->kind == RK_GETHOSTBYNAME && t->family == AF_UNSPEC) {
        want = seen_types[i]; /* documented: gethostbyname(AF_UNSPEC) tries AAAA then A: not modelled here */
      }
      if (i == sm_cached_a) {
        want &= ~1; /* its A answer comes from the cache */
      }
      if (seen_types[i] != want) {
        vh_violation("search:addr-qtypes", "'%s' candidate '%s': asked type set %d, model %d", t->name, seen[i], seen_types[i], want);
        return;
      }
    }
  }
  MON_EVAL("search_status");
  if (t->cb_status != sm.expected_status) {
    char key[96];
    snprintf(key, sizeof(key), "search:status:%s", addr ? "addr" : "search");
    vh_violation(key, "'%s' (%s, ndots %d, %d domains): final status %d, model %d; outcomes %s,%s,%s,%s", t->name, rk_names[t->kind],
                 app_cfg.ndots, app_cfg.ndomains, t->cb_status, sm.expected_status, so_names[sm.outcome[0]],
                 sm.ncand > 1 ? so_names[sm.outcome[1]] : "-", sm.ncand > 2 ? so_names[sm.outcome[2]] : "-",
                 sm.ncand > 3 ? so_names[sm.outcome[3]] : "-");
  }
}

static void run_search(vh_rng_t *rng)
{
  int      i;
  uint64_t h = VH_FNV_INIT;
  gen_search(rng);
  run_generic(rng);
  mon_search();
  case_nontrivial = sm.ncand >= 2;
  if (case_nontrivial) {
    app_tok_t *t = &app_tok[0];
    h            = vh_fnv_u64(h, (uint64_t)sm_count_dots(t->name) * 100 + (uint64_t)app_cfg.ndots * 10 + (uint64_t)app_cfg.ndomains);
    h            = vh_fnv_u64(h, (uint64_t)(app_cfg.flags & (ARES_FLAG_NOSEARCH | ARES_FLAG_NOALIASES)) + (uint64_t)t->kind * 4096);
    for (i = 0; i < sm.ncand; i++) {
      h = vh_fnv_u64(h, (uint64_t)sm.outcome[i]);
    }
    h = vh_fnv_u64(h, strlen(t->name) > 200 ? 1 : 0);
    vh_count("nontrivial_cases");
    vh_fp_add(h);
  }
}
