/* sim_health.h - C09: server selection follows the documented failover policy.
 *
 * Health counts are taken from the PUBLIC server-state callback stream (consecutive failures since
 * the last success, per server), so the decision rule is checked against what the library itself
 * announced.  Destinations are observed at the virtual network; the stream is anchored to the
 * simulator's ground truth on the unambiguous events only. */

static int     hl_cnt[SIM_MAXSRV];        /* consecutive failures per server, from the callback stream */
static int     hl_configured[SIM_MAXSRV];
static int64_t hl_last_fail_us[SIM_MAXSRV];
static int64_t hl_last_success_us[SIM_MAXSRV];
static int     hl_fail_events[SIM_MAXSRV];
static int     hl_succ_events[SIM_MAXSRV];
static int     hl_decisions, hl_decisions_with_failed_server;
static int     hl_probe_seen;
static uint32_t hl_last_read_serial;
static int     hl_rotate_hits[SIM_MAXSRV];

static int      hl_success_since_read; /* a success of the server whose packet was read last has been reported since that read */
static void hl_on_read(int fd, uint32_t serial)
{
  (void)fd;
  hl_last_read_serial   = serial;
  hl_success_since_read = 0;
}

static void hl_hist_push(void);

/* a server that is about to be added starts healthy; what the setter itself reports about it while it moves the
 * waiting queries over (an attempt that fails on the spot) counts from there */
static uint8_t hl_pre_reset[SIM_MAXSRV];
static void    hl_pre_config(const int *idx, int n)
{
  int i;
  for (i = 0; i < n; i++) {
    if (idx[i] >= 0 && idx[i] < SIM_MAXSRV && !hl_configured[idx[i]]) {
      hl_cnt[idx[i]]       = 0;
      hl_pre_reset[idx[i]] = 1;
    }
  }
}

static void hl_reset_config(const int *idx, int n)
{
  int i, k;
  for (k = 0; k < SIM_MAXSRV; k++) {
    int now_cfg = 0;
    for (i = 0; i < n; i++) {
      if (idx[i] == k) {
        now_cfg = 1;
      }
    }
    if (now_cfg && !hl_configured[k] && !hl_pre_reset[k]) {
      hl_cnt[k] = 0; /* a newly added server starts healthy */
    }
    hl_pre_reset[k] = 0;
    if (!now_cfg && hl_configured[k]) {
      /* attempts still waiting on a server that has just been removed are moved to the remaining servers; over
       * TCP the move reaches the network only after the new connection is up, i.e. after the setter returned:
       * the attempt they leave behind did not fail */
      int x;
      for (x = 0; x < sim_ntx; x++) {
        if (sim_tx[x].srv == k) {
          sim_tx[x].moved_by_list_change = 1;
        }
      }
    }
    hl_configured[k] = now_cfg;
  }
  hl_hist_push();
}

static void mon_health_state(int srv, int success, int flags)
{
  (void)flags;
  if (srv < 0 || srv >= SIM_MAXSRV) {
    vh_violation("health:state-for-unknown-server", "server-state callback names a server that is not one of the configured addresses");
    return;
  }
  MON_EVAL("health_stream_event");
  if (success) {
    if (hl_last_read_serial != 0 && hl_last_read_serial <= sim_npkt && sim_pktinfo[hl_last_read_serial - 1].srv == srv) {
      hl_success_since_read = 1;
    }
    hl_succ_events[srv]++;
    hl_cnt[srv]            = 0;
    hl_last_success_us[srv] = sim_now_us;
    /* nothing but a response just read from that very server may yield a success */
    if (hl_last_read_serial == 0 || hl_last_read_serial > sim_npkt) {
      vh_violation("health:success-without-response", "server %d reported successful but no response has been read", srv);
    } else {
      const sim_pktinfo_t *pi = &sim_pktinfo[hl_last_read_serial - 1];
      if (pi->srv != srv) {
        vh_violation("health:success-for-wrong-server", "server %d reported successful right after reading a response from server %d", srv,
                     pi->srv);
      } else if (pi->forged || pi->action == SA_GARBAGE || pi->action == SA_ZEROLEN) {
        vh_violation("health:success-from-bad-packet", "server %d reported successful after reading a %s packet", srv, sa_names[pi->action]);
      } else if (!(app_cfg.flags & ARES_FLAG_NOCHECKRESP) && (pi->rcode == 2 || pi->rcode == 4 || pi->rcode == 5)) {
        vh_violation("health:success-from-error-rcode", "server %d reported successful after an rcode %d response (which is retried)", srv,
                     pi->rcode);
      }
    }
  } else {
    hl_fail_events[srv]++;
    hl_cnt[srv]++;
    hl_last_fail_us[srv] = sim_now_us;
  }
  hl_hist_push();
}

/* A stream connection is chosen when it is opened; the first query on it reaches the server one connection
 * delay later, and other servers may have been reported good or bad in between: the destination of that query
 * is judged against the failure counts at the time of connect(). */
static int     hl_snap[SIM_MAXFD][SIM_MAXSRV];
static uint8_t hl_snap_state[SIM_MAXFD]; /* 0 none, 1 taken, 2 used */
static int64_t hl_snap_fail_us[SIM_MAXFD][SIM_MAXSRV];
static int64_t hl_snap_time[SIM_MAXFD];
static int64_t hl_snap_first_tx[SIM_MAXFD];
static int     hl_legal(const int *cnt, int srv, int *minc_out, int *first_out);
static void    mon_health_connect(int fd, int srv, int is_tcp)
{
  /* A stream connection opened on a channel that uses datagrams is the move to TCP after a truncated reply.  It is
   * a fresh choice of server, made in this instant (the connect call is the observable moment), not a re-send to
   * whoever truncated: the server must be among those with the fewest failures, the first of them without rotation. */
  if (is_tcp && !(app_cfg.flags & ARES_FLAG_USEVC) && !app_in_set_servers && srv >= 0 && srv < SIM_MAXSRV && hl_configured[srv] &&
      hl_last_read_serial != 0 && hl_last_read_serial <= sim_npkt && sim_pktinfo[hl_last_read_serial - 1].tc &&
      sim_pktinfo[hl_last_read_serial - 1].t_read == sim_now_us && sim_faults_fired == 0 &&
      !(sim_pktinfo[hl_last_read_serial - 1].txidx >= 0 && sim_pktinfo[hl_last_read_serial - 1].txidx < sim_ntx &&
        sim_tx[sim_pktinfo[hl_last_read_serial - 1].txidx].probe_like)) {
    /* (a probe copy that is truncated stays with the server it probes) */
    int minc = 0, first = -1;
    int legal = hl_legal(hl_cnt, srv, &minc, &first);
    int need  = app_cfg.rotate ? 1 : 3;
    MON_EVAL("health_tcp_upgrade_destination");
    if ((legal & need) != need) {
      vh_violation("health:tcp-upgrade-to-worse-server",
                   "after a truncated reply the query was taken to TCP on server %d (%d consecutive failures) while the fewest is %d "
                   "(first such server: %d, rotation %s)", srv, hl_cnt[srv], minc, first, app_cfg.rotate ? "on" : "off");
    }
  }
  if (is_tcp && fd >= 0 && fd < SIM_MAXFD) {
    memcpy(hl_snap[fd], hl_cnt, sizeof(hl_snap[fd]));
    memcpy(hl_snap_fail_us[fd], hl_last_fail_us, sizeof(hl_snap_fail_us[fd]));
    hl_snap_state[fd] = 1;
    hl_snap_time[fd]  = sim_now_us;
  }
}

/* first attempts after which a probe of a failed server was due (retry chance 1: every time) */
#define HL_MAXEXP 256
static struct {
  int      txi;
  unsigned mask; /* servers that were eligible for the probe */
} hl_exp[HL_MAXEXP];
static int hl_nexp;

/* history of the failure counts (one entry per reported state change or list change) */
#define HL_HIST 1024
static struct {
  int64_t t;
  int     cnt[SIM_MAXSRV];
} hl_hist[HL_HIST];
static int hl_nhist;
static void hl_hist_push(void)
{
  if (hl_nhist < HL_HIST) {
    hl_hist[hl_nhist].t = sim_now_us;
    memcpy(hl_hist[hl_nhist].cnt, hl_cnt, sizeof(hl_cnt));
    hl_nhist++;
  }
}

/* is `srv` a legal destination under the counts `cnt`?  bit 0: it has the fewest failures; bit 1: it is also the
 * first such server in configuration order */
static int hl_legal(const int *cnt, int srv, int *minc_out, int *first_out)
{
  int i, minc = 1 << 30, first_min = -1;
  for (i = 0; i < app_cfg.nsrv_cfg; i++) {
    int s = app_cfg.srv_cfg[i];
    if (cnt[s] < minc) {
      minc      = cnt[s];
      first_min = s;
    }
  }
  if (minc_out) {
    *minc_out = minc;
  }
  if (first_out) {
    *first_out = first_min;
  }
  return (cnt[srv] == minc ? 1 : 0) | (srv == first_min ? 2 : 0);
}

/* every transmission: is the destination allowed by the policy? */
static void mon_health_tx(sim_tx_t *tx, const sdns_query_t *q, const uint8_t *msg, size_t len)
{
  int        i, minc = 1 << 30, first_min = -1, nmin = 0, prev = -1, is_probe = 0;
  int        cur_cnt[SIM_MAXSRV];
  int64_t    cur_fail_us[SIM_MAXSRV];
  const int *hl_cnt_saved = NULL;
  int64_t    decision_time = sim_now_us;
  int        not_first_only = 0;
  (void)q;
  (void)msg;
  (void)len;
  mon_net_tx(tx, q, msg, len);
  {
    const ares_query_t *lq0 = app_channel ? ares_htable_szvp_get_direct(app_channel->queries_by_qid, tx->qid) : NULL;
    tx->lib_try             = lq0 ? (int)lq0->try_count : -1;
  }
  if (!tx->wellformed || tx->srv < 0) {
    return;
  }
  (void)hl_cnt_saved;
  if (vh_verbose && app_channel) {
    ares_slist_node_t *n;
    for (n = ares_slist_node_first(app_channel->servers); n; n = ares_slist_node_next(n)) {
      const ares_server_t *sv = ares_slist_node_val(n);
      vh_trace("  [dbg] server idx %zu failures %zu probe_pending %d next_retry %lld.%06u", sv->idx, sv->consec_failures, (int)sv->probe_pending,
               (long long)sv->next_retry_time.sec, sv->next_retry_time.usec);
    }
  }
  if (tx->tcp) {
    /* Over a stream the destination is chosen when the query is queued on a connection, possibly still being set
     * up, and reaches the server only later; servers are reported good or bad in between.  The instant of the
     * choice is not observable from outside, so destinations are judged for datagram transmissions only; over
     * TCP the failure/success anchoring below still applies. */
    sim_note("health_tcp_destination_not_judged");
    return;
  }
  memcpy(cur_cnt, hl_cnt, sizeof(cur_cnt));
  memcpy(cur_fail_us, hl_last_fail_us, sizeof(cur_fail_us));
  if (app_in_set_servers) {
    /* queries being moved off removed servers while the list is being replaced: the set of
     * candidates is in flux, not judged; and the attempt they leave behind did not fail */
    sim_note("health_decision_during_list_change");
    for (i = sim_ntx - 2; i >= 0; i--) {
      if (sim_tx[i].qid == tx->qid && sim_tx[i].qtype == tx->qtype && !strcmp(sim_tx[i].qname, tx->qname)) {
        sim_tx[i].moved_by_list_change = 1;
        break;
      }
    }
    return;
  }
  for (i = 0; i < app_cfg.nsrv_cfg; i++) {
    int s = app_cfg.srv_cfg[i];
    if (cur_cnt[s] < minc) {
      minc      = cur_cnt[s];
      first_min = s;
      nmin      = 1;
    } else if (cur_cnt[s] == minc) {
      nmin++;
    }
  }
  /* previous transmission of the same wire query (same id and question) */
  for (i = sim_ntx - 2; i >= 0; i--) {
    if (sim_tx[i].qid == tx->qid && sim_tx[i].qtype == tx->qtype && !strcmp(sim_tx[i].qname, tx->qname)) {
      prev = i;
      break;
    }
  }
  if (prev >= 0 && (sim_tx[prev].action == SA_FORMERR_NOOPT || sim_tx[prev].action == SA_FORMERR_OPT) && sim_tx[prev].has_opt &&
      !tx->has_opt && sim_tx[prev].srv == tx->srv && (tx->lib_try < 0 || sim_tx[prev].lib_try < 0 || tx->lib_try == sim_tx[prev].lib_try)) {
    /* (same try: if the library counted a failed attempt since - the re-send itself could not be sent - this
     * transmission is a fresh attempt and goes where fresh attempts go) */
    sim_note("health_same_server_edns_downgrade");
    tx->probe_like = sim_tx[prev].probe_like; /* (a probe stays a probe) */
    return; /* the one resend that deliberately goes back to the same server */
  }
  hl_decisions++;
  if (minc > 0 || nmin < app_cfg.nsrv_cfg) {
    hl_decisions_with_failed_server++;
  }
  MON_EVAL("health_destination");
  {
    /* The destination is chosen when the query is handed to a connection.  Over UDP that is the instant the
     * server sees it.  Over TCP the connection may have been picked (and the query queued on it) any time since
     * connect() was called for it, and servers are reported good or bad in between: the choice is legal if it was
     * legal under the counts at some moment in that window. */
    int legal = hl_legal(cur_cnt, tx->srv, NULL, NULL);
    int need  = app_cfg.rotate ? 1 : 3; /* fewest failures, and first among them unless rotation picks at random */
    int pass  = (legal & need) == need;
    if (tx->tcp && tx->fd >= 0 && tx->fd < SIM_MAXFD && hl_snap_state[tx->fd] == 1) {
      /* first data on this connection: remember the instant it came up */
      hl_snap_state[tx->fd]    = 2;
      hl_snap_first_tx[tx->fd] = tx->t;
    }
    if (tx->tcp && tx->fd >= 0 && tx->fd < SIM_MAXFD && hl_snap_state[tx->fd] == 2 && hl_snap_first_tx[tx->fd] == tx->t) {
      /* queued while the connection was being set up (an established connection takes a query at once) */
      int k, l;
      l = hl_legal(hl_snap[tx->fd], tx->srv, NULL, NULL);
      legal |= l;
      pass |= (l & need) == need;
      for (k = hl_nhist - 1; k >= 0 && hl_hist[k].t >= hl_snap_time[tx->fd]; k--) {
        l = hl_legal(hl_hist[k].cnt, tx->srv, NULL, NULL);
        legal |= l;
        pass |= (l & need) == need;
      }
      if (pass && (hl_legal(cur_cnt, tx->srv, NULL, NULL) & need) != need) {
        sim_note("health_decision_legal_at_an_earlier_moment_of_the_connection");
      }
      if (!pass) {
        /* probe rules below are judged at the time the probe's connection was opened */
        memcpy(cur_fail_us, hl_snap_fail_us[tx->fd], sizeof(cur_fail_us));
        decision_time = hl_snap_time[tx->fd];
      }
    }
    if (pass) {
      hl_rotate_hits[tx->srv]++;
      /* "failed servers are re-tried by separate probe copies sent after the retry delay": with retry chance 1 a
       * first attempt that went to a healthy server is accompanied by a probe whenever some failed server is past
       * its delay and has no probe outstanding */
      /* (an attempt that failed inside a socket call never reached the network: the first transmission SEEN may be
       * the library's second attempt, which is not accompanied by a probe - ask the library which attempt it is) */
      const ares_query_t *lq = app_channel ? ares_htable_szvp_get_direct(app_channel->queries_by_qid, tx->qid) : NULL;
      if (prev < 0 && lq != NULL && lq->try_count == 0 && app_cfg.failover_set && app_cfg.failover_chance == 1 && cur_cnt[tx->srv] == 0 &&
          hl_nexp < HL_MAXEXP) {
        int64_t  delay_us = app_cfg.failover_delay_ms < 0 ? INT64_MAX / 4 : (int64_t)app_cfg.failover_delay_ms * 1000;
        unsigned mask     = 0;
        for (i = 0; i < app_cfg.nsrv_cfg; i++) {
          int sv = app_cfg.srv_cfg[i], k, unresolved = 0;
          if (sv == tx->srv || cur_cnt[sv] == 0 || tx->t <= cur_fail_us[sv] + delay_us + 1000) {
            continue;
          }
          for (k = sim_ntx - 2; k >= 0; k--) {
            if (sim_tx[k].probe_like && sim_tx[k].srv == sv) {
              /* the probe is over when the server was reported good after it, or reported failed no earlier than
               * the probe's own timeout (a failure reported before that belongs to some other query) */
              int64_t to_us = (int64_t)(app_cfg.timeout_ms > 250 ? app_cfg.timeout_ms : 250) * 1000;
              unresolved    = !(hl_last_success_us[sv] > sim_tx[k].t || cur_fail_us[sv] >= sim_tx[k].t + to_us);
              break;
            }
          }
          if (!unresolved) {
            mask |= 1u << sv;
          }
        }
        if (mask) {
          hl_exp[hl_nexp].txi  = (int)(tx - sim_tx);
          hl_exp[hl_nexp].mask = mask;
          hl_nexp++;
        }
      }
      return;
    }
    not_first_only = (legal & 1);
  }
  /* a non-minimal server may only see a probe: a copy (new id) of a question that was just sent as a
   * first attempt to a minimal server */
  /* (request names are unique in this profile; over TCP the probe's own connection delays it past the instant of the
   * first attempt, so the instant is not part of the test) */
  for (i = sim_ntx - 2; i >= 0 && sim_tx[i].t + 200000 >= tx->t; i--) {
    if (sim_tx[i].qid != tx->qid && sim_tx[i].qtype == tx->qtype && !strcasecmp(sim_tx[i].qname, tx->qname) && !sim_tx[i].probe_like) {
      is_probe = 1;
      break;
    }
  }
  if (!is_probe && tx->tcp && prev < 0) {
    /* over TCP the probe's connection may complete before the first attempt's: the question it copies is seen a
     * moment later; confirmed (or reported) at the end of the case */
    is_probe = 2;
  }
  if (!is_probe && not_first_only) {
    vh_violation("health:not-first-among-best",
                 "rotation off: query '%s' sent to server %d (failures %d) although server %d, earlier in the configuration, has the same count",
                 tx->qname, tx->srv, cur_cnt[tx->srv], first_min);
    return;
  }
  if (!is_probe) {
    vh_violation("health:sent-to-worse-server", "query '%s' id %u sent to server %d with %d consecutive failures while the best count is %d (%s)",
                 tx->qname, tx->qid, tx->srv, cur_cnt[tx->srv], minc, prev >= 0 ? "retry" : "first attempt");
    return;
  }
  hl_probe_seen++;
  tx->probe_like = is_probe;
  sim_note("health_probe_seen");
  MON_EVAL("health_probe_rules");
  if (app_cfg.failover_set && app_cfg.failover_chance == 0) {
    vh_violation("health:probe-with-chance-0", "probe sent to failed server %d although the retry chance is 0", tx->srv);
  }
  {
    int64_t delay_us = (app_cfg.failover_set && app_cfg.failover_delay_ms < 0) ? INT64_MAX / 4
                                                                               : (int64_t)(app_cfg.failover_set ? app_cfg.failover_delay_ms : 5000) * 1000;
    if (decision_time < cur_fail_us[tx->srv] + delay_us) {
      vh_violation("health:probe-before-retry-delay", "probe sent to server %d %lld ms after its last failure, retry delay is %lld ms", tx->srv,
                   (long long)((decision_time - cur_fail_us[tx->srv]) / 1000), (long long)(delay_us / 1000));
    }
  }
  /* (a second probe to a server whose first probe is still outstanding was a rule here.  The statement does not ask
   * for "one probe at a time", and the library does not keep to it either: the mark that holds further probes back
   * is cleared by ANY query that ends on that server, e.g. an older attempt timing out while the probe is in
   * flight - thorough tier, seed 1, idx 245481.  Kept as a counter.) */
  for (i = sim_ntx - 2; i >= 0; i--) {
    if (sim_tx[i].probe_like && sim_tx[i].srv == tx->srv) {
      if (cur_fail_us[tx->srv] <= sim_tx[i].t && hl_last_success_us[tx->srv] <= sim_tx[i].t && app_channel != NULL &&
          sim_tx[i].qid != tx->qid && ares_htable_szvp_get_direct(app_channel->queries_by_qid, sim_tx[i].qid) != NULL) {
        sim_note("health_second_probe_while_first_outstanding");
      }
      break;
    }
  }
}

/* anchoring of the stream to ground truth, evaluated when a wire query is re-sent or completes */
static void mon_health_anchor_final(void)
{
  int i, j;
  /* probes that were due */
  for (i = 0; i < hl_nexp; i++) {
    const sim_tx_t *a  = &sim_tx[hl_exp[i].txi];
    int             ok = 0;
    MON_EVAL("health_probe_due");
    for (j = 0; j < sim_ntx && !ok; j++) {
      if (j != hl_exp[i].txi && sim_tx[j].qid != a->qid && sim_tx[j].qtype == a->qtype && !strcasecmp(sim_tx[j].qname, a->qname) &&
          sim_tx[j].srv >= 0 && sim_tx[j].srv != a->srv && sim_tx[j].t >= a->t && sim_tx[j].t <= a->t + 1000) {
        /* (the mask is a conservative subset of the servers the library may consider due: any probe satisfies it) */
        ok = 1;
      }
    }
    if (!ok && sim_faults_fired > 0) {
      /* the probe was made but its socket call failed on the spot (injected fault): all that shows is the failure
       * reported for another server right after the first attempt went out, in the same instant */
      int k;
      for (k = 0; k < ss_n && !ok; k++) {
        if (!ss_ev[k].success && ss_ev[k].srv != a->srv && ss_ev[k].t == a->t && ss_ev[k].ntx_at == hl_exp[i].txi + 1) {
          ok = 1;
          sim_note("health_probe_failed_in_socket_call");
        }
      }
    }
    if (!ok) {
      vh_violation("health:probe-missing",
                   "first attempt of '%s' went to healthy server %d while failed server(s) (mask 0x%x) were past the retry delay with no probe outstanding and the retry chance is 1, but no probe was sent",
                   a->qname, a->srv, hl_exp[i].mask);
      return;
    }
  }
  /* probes recognised before the question they copy was seen */
  for (i = 0; i < sim_ntx; i++) {
    sim_tx_t *a = &sim_tx[i];
    int       ok = 0;
    if (a->probe_like != 2) {
      continue;
    }
    for (j = 0; j < sim_ntx && !ok; j++) {
      if (j != i && sim_tx[j].qid != a->qid && sim_tx[j].qtype == a->qtype && !strcasecmp(sim_tx[j].qname, a->qname) && !sim_tx[j].probe_like &&
          sim_tx[j].t + 200000 >= a->t && sim_tx[j].t <= a->t + 200000) {
        ok = 1;
      }
    }
    if (!ok) {
      vh_violation("health:sent-to-worse-server", "query '%s' id %u went to failed server %d as a first attempt and no other copy of the question went to a better server",
                   a->qname, a->qid, a->srv);
      return;
    }
  }
  for (i = 0; i < sim_ntx; i++) {
    sim_tx_t *a = &sim_tx[i];
    int       next = -1, k, nfail = 0;
    if (!a->wellformed || a->probe_like || a->srv < 0 || a->moved_by_list_change) {
      continue;
    }
    for (j = i + 1; j < sim_ntx; j++) {
      if (sim_tx[j].qid == a->qid && sim_tx[j].qtype == a->qtype && !strcmp(sim_tx[j].qname, a->qname)) {
        next = j;
        break;
      }
    }
    if (next < 0) {
      continue;
    }
    /* the attempt a was followed by another attempt of the same query */
    if (a->action == SA_SILENT || (a->tcp && (a->action == SA_CLOSE || a->action == SA_RESET)) ||
        ((a->action == SA_SERVFAIL || a->action == SA_REFUSED || a->action == SA_NOTIMP) && !(app_cfg.flags & ARES_FLAG_NOCHECKRESP))) {
      MON_EVAL("health_failure_anchored");
      for (k = 0; k < ss_n; k++) {
        if (ss_ev[k].srv == a->srv && !ss_ev[k].success && ss_ev[k].t >= a->t && ss_ev[k].t <= sim_tx[next].t) {
          nfail++;
        }
      }
      if (nfail == 0) {
        vh_violation("health:failure-not-reported", "attempt to server %d (%s) was followed by a retry but no failure was reported for that server in between",
                     a->srv, sa_names[a->action]);
        return;
      }
    }
  }
  /* "each ... timeout demotes it": datagram attempts that were never answered and are re-sent in the same instant T
   * each ran into their timeout at T, and each of those is one failure report for the server at T (probes that time
   * out add reports without a re-send, so reports >= re-sends) */
  for (i = 0; i < sim_ntx && sim_faults_fired == 0; i++) {
    sim_tx_t *a = &sim_tx[i];
    int       k, R = 0, F = 0, first = 1;
    int64_t   T = -1;
    if (!a->wellformed || a->probe_like || a->srv < 0 || a->moved_by_list_change || a->tcp || a->action != SA_SILENT) {
      continue;
    }
    for (j = i + 1; j < sim_ntx; j++) {
      if (sim_tx[j].qid == a->qid && sim_tx[j].qtype == a->qtype && !strcmp(sim_tx[j].qname, a->qname)) {
        T = sim_tx[j].t;
        break;
      }
    }
    if (T < 0 || a->lib_timeout_after_us < 0 || T < a->t + a->lib_timeout_after_us) {
      continue; /* not re-sent, or re-sent before its own timeout (moved along with a sibling whose timeout closed the
                   connection, list change, connection error) */
    }
    for (k = 0; k < sim_ntx; k++) {
      const sim_tx_t *b = &sim_tx[k];
      int             j2;
      if (b->srv != a->srv || !b->wellformed || b->probe_like || b->moved_by_list_change || b->tcp || b->action != SA_SILENT ||
          b->lib_timeout_after_us < 0 || b->t + b->lib_timeout_after_us > T) {
        continue;
      }
      for (j2 = k + 1; j2 < sim_ntx; j2++) {
        if (sim_tx[j2].qid == b->qid && sim_tx[j2].qtype == b->qtype && !strcmp(sim_tx[j2].qname, b->qname)) {
          if (sim_tx[j2].t == T) {
            R++;
            if (k < i) {
              first = 0; /* this group was judged when its first member came up */
            }
          }
          break;
        }
      }
    }
    if (!first || R < 2) {
      continue;
    }
    for (k = 0; k < ss_n; k++) {
      if (ss_ev[k].srv == a->srv && !ss_ev[k].success && ss_ev[k].t == T) {
        F++;
      }
    }
    MON_EVAL("health_timeouts_counted");
    if (F < R) {
      vh_violation("health:timeouts-undercounted",
                   "%d unanswered datagram attempts on server %d ran into their timeout in the same instant and were re-sent, but only %d failure(s) "
                   "were reported for that server then", R, a->srv, F);
      return;
    }
  }
  /* every delivered answer has a success event of the sending server at the time it was read */
  for (i = 0; i < app_ntok; i++) {
    app_tok_t *t = &app_tok[i];
    if (t->cb_count != 1 || t->nserials == 0) {
      continue;
    }
    for (j = 0; j < 1; j++) {
      uint32_t s = t->serials[0];
      int      k, found = 0;
      if (s == 0 || s > sim_npkt || sim_pktinfo[s - 1].t_read == 0 || sim_pktinfo[s - 1].t_inject < t->t_start) {
        continue;
      }
      MON_EVAL("health_success_anchored");
      for (k = 0; k < ss_n; k++) {
        if (ss_ev[k].srv == sim_pktinfo[s - 1].srv && ss_ev[k].success && ss_ev[k].t == sim_pktinfo[s - 1].t_read) {
          found = 1;
        }
      }
      if (!found) {
        vh_violation("health:success-not-reported", "answer from server %d was delivered to request '%s' but no success was reported for that server",
                     sim_pktinfo[s - 1].srv, t->name);
        return;
      }
    }
  }
}

/* Order of the two things an accepted answer causes.  The completion callback may start the next request at once
 * (the library's own search and address lookups do), and that attempt has to find the answering server restored:
 * so when a request completes successfully with the answer that was read in this very processing call (one
 * datagram per call in this profile), the server's success must have been reported already. */
static void mon_health_tok_done(app_tok_t *t)
{
  uint32_t s;
  if (t->cb_count != 1 || t->cb_status != ARES_SUCCESS || t->nserials < 1 || !app_in_process) {
    return;
  }
  s = t->serials[0];
  if (s == 0 || s > sim_npkt || s != hl_last_read_serial || sim_pktinfo[s - 1].forged || sim_pktinfo[s - 1].t_read != sim_now_us ||
      sim_pktinfo[s - 1].srv < 0) {
    return;
  }
  MON_EVAL("health_success_before_completion");
  if (!hl_success_since_read) {
    vh_violation("health:success-reported-after-completion",
                 "request '%s' completed with the answer just read from server %d (packet %u) before that server's success was "
                 "reported: a request started from the completion callback still sees the server with %d failure(s)",
                 t->name, sim_pktinfo[s - 1].srv, s, hl_cnt[sim_pktinfo[s - 1].srv]);
  }
}

static void gen_failover(vh_rng_t *rng)
{
  int     i, n, nsrv;
  int64_t t = 0;
  gen_profile_flags = GP_ONLY_WIRE | GP_SIMPLE_NAMES | GP_NO_REENTRANT | GP_NO_CANCEL_IN_CB | GP_NO_WEIRD_TYPES;
  gen_default_simcfg(rng, 0);
  gen_default_appcfg(rng);
  nsrv = vh_range(rng, 1, 5);
  gen_srv_base(5);
  /* one datagram per processing call: a success notification is attributable to the packet just read */
  sim_cfg.nonblocking_flag = 0;
  sim_cfg.one_fd_per_call  = 1;
  for (i = 0; i < sim_nsrv; i++) {
    static const int moods[] = { MOOD_GOOD, MOOD_GOOD, MOOD_SILENT, MOOD_ERR, MOOD_FLAKY, MOOD_NEG, MOOD_RESET, MOOD_FORMERR };
    vsrv_t          *s       = &sim_srv[i];
    gen_srv_mood(s, moods[vh_below(rng, sizeof(moods) / sizeof(int))], rng);
    s->w_udp[SA_DUP] = 0;
    s->w_udp[SA_TC]  = 0;
    if (vh_chance(rng, 1, 4)) {
      s->w_udp[SA_TC]     = 30; /* some servers truncate now and then (the stream connection always answers) */
      s->w_tcp[SA_ANSWER] = 100;
    }
    s->delay_min_ms  = 1;
    s->delay_max_ms  = vh_range(rng, 1, 40);
    s->tcp_connect   = 1;
    s->ck_mode       = 1;
    memset(s->ck_secret, 0x21 + i, 8);
  }
  app_cfg.flags = (vh_chance(rng, 1, 2) ? ARES_FLAG_EDNS : 0) | (vh_chance(rng, 1, 6) ? ARES_FLAG_NOCHECKRESP : 0) |
                  (vh_chance(rng, 1, 3) ? ARES_FLAG_STAYOPEN : 0);
  if (vh_chance(rng, 1, 5)) {
    /* stream transport: a server that reads the query and closes (or resets) has failed just like a silent one */
    app_cfg.flags |= ARES_FLAG_USEVC;
    for (i = 0; i < sim_nsrv; i++) {
      sim_srv[i].tcp_connect_delay_ms = 1;
      if (vh_chance(rng, 1, 3)) {
        sim_srv[i].w_tcp[vh_chance(rng, 2, 3) ? SA_CLOSE : SA_RESET] += 60;
      }
    }
    sim_note("failover_over_tcp");
  }
  app_cfg.tries      = vh_range(rng, 1, 3);
  app_cfg.timeout_ms = vh_range(rng, 250, 600);
  app_cfg.rotate     = vh_chance(rng, 1, 3);
  app_cfg.nsrv_cfg   = nsrv;
  {
    int used[SIM_MAXSRV] = { 0 };
    n                    = 0;
    while (n < nsrv) {
      int sidx = (int)vh_below(rng, 5);
      if (!used[sidx]) {
        used[sidx]           = 1;
        app_cfg.srv_cfg[n++] = sidx;
      }
    }
  }
  app_cfg.use_server_state_cb = 1;
  if (vh_chance(rng, 3, 4)) {
    app_cfg.failover_set      = 1;
    app_cfg.failover_chance   = vh_chance(rng, 1, 5) ? 0 : vh_range(rng, 1, 3);
    app_cfg.failover_delay_ms = vh_chance(rng, 1, 2) ? 0 : vh_range(rng, 100, 3000);
    if (vh_chance(rng, 1, 12)) {
      app_cfg.failover_delay_ms = -1 - (int)vh_below(rng, 2); /* the largest values the option's type holds */
    }
  }
  /* socket calls that fail on the spot: the attempt is over at once and the next one is chosen in the same call
   * (also for a re-send that was directed at one server: EDNS downgrade after FORMERR, TCP after truncation) */
  sim_nfaults = 0;
  if (vh_chance(rng, 1, 4)) {
    static const int errs[] = { ECONNREFUSED, ENETUNREACH, EHOSTUNREACH, ECONNRESET, EIO };
    int              nf     = vh_range(rng, 1, 3);
    for (i = 0; i < nf; i++) {
      sim_faults[sim_nfaults].kind  = vh_chance(rng, 1, 2) ? SF_SENDTO : (int)vh_below(rng, SF__COUNT);
      sim_faults[sim_nfaults].nth   = vh_range(rng, 1, 10);
      sim_faults[sim_nfaults].err   = errs[vh_below(rng, sizeof(errs) / sizeof(int))];
      sim_faults[sim_nfaults].fired = 0;
      sim_nfaults++;
    }
    sim_note("failover_with_socket_faults");
  }
  if ((app_cfg.flags & ARES_FLAG_EDNS) && vh_chance(rng, 1, 2)) {
    static const int errs2[]      = { ENETUNREACH, EHOSTUNREACH, ECONNREFUSED };
    sim_cfg.fail_downgrade_resend = errs2[vh_below(rng, 3)];
  }
  mon_enable_idx = mon_enable_fd = mon_enable_timer = 0;
  app_sched.max_steps                               = 60000;
  app_sched.idle_ms_after                           = 50;
  n                                                 = vh_range(rng, 4, 30);
  for (i = 0; i < n; i++) {
    /* mostly spread out; now and then two or three requests in the same instant (on a silent server they also run
     * into their timeouts in the same instant) */
    if (!(i > 0 && vh_chance(rng, 1, 4))) {
      t += (int64_t)vh_below(rng, 400) * 1000;
    }
    gen_add_token(rng, t);
  }
  /* servers change behaviour over time */
  n = vh_range(rng, 0, 4);
  for (i = 0; i < n; i++) {
    gen_add_action((int64_t)(vh_rand64(rng) % (uint64_t)(t + 1)), AA_SRVMOOD, 0, (int)vh_below(rng, 5) * 16 + (int)vh_below(rng, 7));
  }
  if (vh_chance(rng, 1, 4)) {
    gen_add_action((int64_t)(vh_rand64(rng) % (uint64_t)(t + 1)), AA_SET_SERVERS, 0, 0);
  }
  if (vh_chance(rng, 1, 3)) {
    /* the channel is duplicated (and its configuration read back) somewhere along the way, i.e. with whatever failure
     * counts its servers have at that moment */
    gen_add_action((int64_t)(vh_rand64(rng) % (uint64_t)(t + 1)), AA_DUP, 0, 0);
  }
  if (vh_chance(rng, 1, 5)) {
    /* everything outstanding is cancelled at some point (probe copies included): the history goes on afterwards */
    gen_add_action((int64_t)(vh_rand64(rng) % (uint64_t)(t + 1)), AA_CANCEL, 0, 0);
  }
}

static void run_failover(vh_rng_t *rng)
{
  uint64_t h = VH_FNV_INIT;
  int      i;
  memset(hl_cnt, 0, sizeof(hl_cnt));
  memset(hl_configured, 0, sizeof(hl_configured));
  memset(hl_last_fail_us, 0, sizeof(hl_last_fail_us));
  memset(hl_last_success_us, 0, sizeof(hl_last_success_us));
  memset(hl_fail_events, 0, sizeof(hl_fail_events));
  memset(hl_succ_events, 0, sizeof(hl_succ_events));
  memset(hl_rotate_hits, 0, sizeof(hl_rotate_hits));
  hl_decisions = hl_decisions_with_failed_server = hl_probe_seen = 0;
  hl_last_read_serial                                            = 0;
  gen_failover(rng);
  hl_reset_config(app_cfg.srv_cfg, app_cfg.nsrv_cfg);
  srv_tx_hook           = mon_health_tx;
  sim_connect_hook      = mon_health_connect;
  memset(hl_snap_state, 0, sizeof(hl_snap_state));
  hl_nhist = 0;
  hl_nexp  = 0;
  mon_server_state_hook = mon_health_state;
  sim_read_hook         = hl_on_read;
  hl_config_hook        = hl_reset_config;
  hl_preconfig_hook     = hl_pre_config;
  memset(hl_pre_reset, 0, sizeof(hl_pre_reset));
  mon_tok_done_hook     = mon_health_tok_done;
  hl_success_since_read = 0;
  run_generic(rng);
  mon_tok_done_hook = NULL;
  hl_config_hook = NULL;
  hl_preconfig_hook = NULL;
  sim_read_hook  = NULL;
  if (!vh_case_viol) {
    mon_health_anchor_final();
  }
  case_nontrivial = hl_decisions_with_failed_server > 0;
  if (case_nontrivial) {
    int shape[SIM_MAXSRV];
    for (i = 0; i < SIM_MAXSRV; i++) {
      shape[i] = hl_fail_events[i] > 3 ? 3 : hl_fail_events[i];
    }
    h = vh_fnv(h, shape, sizeof(shape));
    h = vh_fnv_u64(h, (uint64_t)app_cfg.rotate * 1000 + (uint64_t)app_cfg.nsrv_cfg * 100 + (uint64_t)(app_cfg.failover_set ? app_cfg.failover_chance + 1 : 0) * 10 +
                        (uint64_t)(hl_probe_seen > 0));
    vh_count("nontrivial_cases");
    vh_count_n("health_decisions", (uint64_t)hl_decisions);
    vh_count_n("health_decisions_with_failed_server", (uint64_t)hl_decisions_with_failed_server);
    vh_fp_add(h);
  }
}
