/* sim_mon2.h - net (C06) and timer (C07) monitors, server-state stream recording (C09). */

/* ------------------------------------------------------------------ net: per wire query accounting */
typedef struct {
  char     qname[300];
  uint16_t qtype;
  uint16_t qid;
  int      ntx;
  int      ntx_udp, ntx_tcp;
  int      n_edns_downgrade_justified; /* a FORMERR reply was sent to it while it carried OPT */
  int      n_tc_justified;             /* a TC reply was sent to a UDP transmission */
  int      last_txidx1;                /* index + 1 of its latest transmission (0 none) */
  int      n_badcookie_justified;
  int      saw_opt_then_noopt;
  int      last_had_opt;
  int      max_servers;
  int64_t  t_first, t_last;
  int      gone;            /* the library's query with this id was seen to be gone (or to be another question) */
  int      last_terminal;   /* the latest transmission was given a reply that ends a query (answer / no data / name error) */
} net_q_t;

#define NET_MAXQ 4096
static net_q_t net_q[NET_MAXQ];
static int     net_nq;
static int     net_unique_names = 1; /* profile promises each wire query has a unique (name,type,id) */

/* Identity of a wire query is (name, type, id).  The same name may legitimately be asked again later in a
 * history (lookup order "bb", a second request for it), and the fresh query may draw the id of the earlier one
 * (1 in 65536; seen at seed 1, search profile, idx 2715143).  An entry therefore stops matching once the
 * library's query of that id was seen to be gone; looked at on every transmission, before it is attributed. */
static void net_mark_gone(void)
{
  int i;
  if (app_channel == NULL || app_channel->queries_by_qid == NULL) {
    return;
  }
  for (i = 0; i < net_nq; i++) {
    const ares_query_t *lq;
    if (net_q[i].gone) {
      continue;
    }
    lq = ares_htable_szvp_get_direct(app_channel->queries_by_qid, net_q[i].qid);
    if (lq == NULL) {
      net_q[i].gone = 1;
    } else {
      const char         *nm = NULL;
      ares_dns_rec_type_t qt = 0;
      if (ares_dns_record_query_get(lq->query, 0, &nm, &qt, NULL) == ARES_SUCCESS && (uint16_t)qt != net_q[i].qtype) {
        net_q[i].gone = 1;
      }
    }
  }
}

static net_q_t *net_find(const sim_tx_t *tx, int create)
{
  int i;
  for (i = net_nq - 1; i >= 0; i--) {
    if (net_q[i].qid == tx->qid && net_q[i].qtype == tx->qtype && strcmp(net_q[i].qname, tx->qname) == 0) {
      if (net_q[i].gone) {
        break; /* newest entry of this identity belongs to a query that has ended: this is a new one */
      }
      /* the earlier query ended and the very next transmission is its namesake with the same id: the library's
       * query is on its first attempt, and the earlier one had been given a final reply and is owed no resend */
      if (create && app_channel != NULL && net_q[i].last_terminal && net_q[i].n_edns_downgrade_justified == 0 &&
          net_q[i].n_tc_justified == 0 && net_q[i].n_badcookie_justified == 0) {
        const ares_query_t *lq = ares_htable_szvp_get_direct(app_channel->queries_by_qid, tx->qid);
        if (lq != NULL && lq->try_count == 0 && lq->cookie_try_count == 0 && tx->t > net_q[i].t_last) {
          sim_note("net_same_identity_new_query");
          net_q[i].gone = 1;
          break;
        }
      }
      return &net_q[i];
    }
  }
  if (!create || net_nq >= NET_MAXQ) {
    return NULL;
  }
  memset(&net_q[net_nq], 0, sizeof(net_q[0]));
  snprintf(net_q[net_nq].qname, sizeof(net_q[0].qname), "%s", tx->qname);
  net_q[net_nq].qtype   = tx->qtype;
  net_q[net_nq].qid     = tx->qid;
  net_q[net_nq].t_first = tx->t;
  return &net_q[net_nq++];
}

static void mon_net_tx(sim_tx_t *tx, const sdns_query_t *q, const uint8_t *msg, size_t len)
{
  net_q_t *nq;
  int      nservers;
  int      bound;
  (void)q;
  (void)msg;
  (void)len;
  if (!mon_enable_net || !tx->wellformed) {
    return;
  }
  net_mark_gone();
  nq = net_find(tx, 1);
  if (nq == NULL) {
    return;
  }
  nq->ntx++;
  if (tx->tcp) {
    nq->ntx_tcp++;
  } else {
    nq->ntx_udp++;
  }
  nq->t_last = tx->t;
  nservers   = app_channel ? (int)ares_slist_len(app_channel->servers) : app_cfg.nsrv_cfg;
  {
    /* a server-list change moves in-flight queries to the new servers while old and new are both
     * present: the statement's "servers" is then the number of distinct servers configured at any
     * time so far (sound, slightly loose) */
    int k, ever = 0;
    for (k = 0; k < SIM_MAXSRV; k++) {
      if (app_srv_ever_mask & (1u << k)) {
        ever++;
      }
    }
    if (ever > nservers) {
      nservers = ever;
    }
  }
  if (nservers > nq->max_servers) {
    nq->max_servers = nservers;
  }
  if (nq->ntx > 1 && nq->last_had_opt && !tx->has_opt) {
    nq->saw_opt_then_noopt++;
  }
  nq->last_had_opt = tx->has_opt;
  if (nq->last_txidx1 > 0 && sim_tx[nq->last_txidx1 - 1].garbage_says_tc && !sim_tx[nq->last_txidx1 - 1].tcp) {
    /* (what the server made of the previous transmission is only known after that transmission was accounted for) */
    nq->n_tc_justified = 1;
  }
  nq->last_txidx1 = (int)(tx - sim_tx) + 1;
  MON_EVAL("net_budget");
  if (net_unique_names) {
    bound = nq->max_servers * app_cfg.tries + 1 + 1 + 3;
    if (nq->ntx > bound) {
      vh_violation("net:budget-exceeded", "query '%s' type %u id %u transmitted %d times; servers(max)=%d tries=%d bound=%d",
                   nq->qname, nq->qtype, nq->qid, nq->ntx, nq->max_servers, app_cfg.tries, bound);
    }
    /* tighter: the extras must each be justified by a matching server reply */
    bound = nq->max_servers * app_cfg.tries + nq->n_edns_downgrade_justified + nq->n_tc_justified +
            (nq->n_badcookie_justified > 3 ? 3 : nq->n_badcookie_justified);
    MON_EVAL("net_budget_justified");
    /* justifications so far come from the replies to EARLIER transmissions only (this one's
     * reply is recorded below, after the check) */
    if (nq->ntx > bound) {
      vh_violation("net:unjustified-resend",
                   "query '%s' type %u id %u: %d transmissions but only %d x %d tries + %d EDNS + %d TC + %d bad-cookie resends are justified",
                   nq->qname, nq->qtype, nq->qid, nq->ntx, nq->max_servers, app_cfg.tries, nq->n_edns_downgrade_justified,
                   nq->n_tc_justified, nq->n_badcookie_justified);
    }
  }
  nq->last_terminal = (tx->action == SA_ANSWER || tx->action == SA_NXDOMAIN || tx->action == SA_NODATA ||
                       tx->action == SA_NODATA_NOSOA || tx->action == SA_NXDOMAIN_NOSOA);
  /* what did the server do with this transmission: justification for one extra resend */
  if (tx->action == SA_FORMERR_NOOPT || tx->action == SA_FORMERR_OPT) {
    if (tx->has_opt) {
      nq->n_edns_downgrade_justified = 1;
    }
  }
  if ((tx->action == SA_TC || tx->garbage_says_tc) && !tx->tcp) {
    nq->n_tc_justified = 1;
  }
  if (tx->action == SA_BADCOOKIE) {
    nq->n_badcookie_justified++;
  }
  if (nq->ntx >= 2) {
    sim_note("net_retransmissions");
  }
}

/* wait bounds: checked right after the API call in which a query was (re)sent */
static void mon_net_waits(const char *after)
{
  ares_channel_t    *ch = app_channel;
  ares_llist_node_t *n;
  ares_timeval_t     nowtv;
  size_t             floor_ms, cap_ms, base_exact;
  if (!mon_enable_net || ch == NULL) {
    return;
  }
  __wrap_ares_tvnow(&nowtv);
  cap_ms     = ch->maxtimeout ? ch->maxtimeout : 5000;
  base_exact = ch->timeout;
  if (base_exact < 250) {
    base_exact = 250;
  }
  if (base_exact > cap_ms) {
    base_exact = cap_ms;
  }
  floor_ms = 250 < cap_ms ? 250 : cap_ms;
  for (n = ares_llist_node_first(ch->all_queries); n != NULL; n = ares_llist_node_next(n)) {
    const ares_query_t *q = (const ares_query_t *)ares_llist_node_val(n);
    int64_t             wait_us;
    if (q->conn == NULL || q->ts.sec != nowtv.sec || q->ts.usec != nowtv.usec) {
      continue; /* not (re)sent at this instant */
    }
    wait_us = tv_to_us(&q->timeout) - tv_to_us(&q->ts);
    {
      /* remember, with the transmission, how long the library said it would wait for this attempt */
      int x;
      for (x = sim_ntx - 1; x >= 0 && sim_tx[x].t == sim_now_us; x--) {
        if (sim_tx[x].qid == q->qid) {
          sim_tx[x].lib_timeout_after_us = wait_us;
          break;
        }
      }
    }
    MON_EVAL("net_wait_bounds");
    if (wait_us < (int64_t)floor_ms * 1000) {
      vh_violation("net:wait-below-floor", "after %s: query id %u try %zu waits %lld us < floor %zu ms (timeout opt %zu, maxtimeout %zu)",
                   after, q->qid, q->try_count, (long long)wait_us, floor_ms, ch->timeout, ch->maxtimeout);
    }
    if (ch->maxtimeout && wait_us > (int64_t)ch->maxtimeout * 1000) {
      vh_violation("net:wait-above-max", "after %s: query id %u try %zu waits %lld us > maxtimeout %zu ms", after, q->qid, q->try_count,
                   (long long)wait_us, ch->maxtimeout);
    }
    if (q->conn->server->metrics[ARES_METRIC_INCEPTION].total_count == 0) {
      /* no successful history at all: base is exactly the clamped configured timeout */
      MON_EVAL("net_wait_base_exact");
      if (wait_us < (int64_t)base_exact * 1000) {
        vh_violation("net:wait-below-base", "after %s: query id %u try %zu waits %lld us < configured base %zu ms", after, q->qid,
                     q->try_count, (long long)wait_us, base_exact);
      }
    }
  }
}

static void mon_net_waits_fwd(const char *after)
{
  mon_net_waits(after);
}

/* ------------------------------------------------------------------ timer */
static int64_t mon_walk_deadline(void)
{
  ares_llist_node_t *n;
  int64_t            best = -1;
  for (n = ares_llist_node_first(app_channel->all_queries); n != NULL; n = ares_llist_node_next(n)) {
    const ares_query_t *q = (const ares_query_t *)ares_llist_node_val(n);
    int64_t             d;
    if (q->node_queries_by_timeout == NULL) {
      continue;
    }
    d = tv_to_us(&q->timeout);
    if (best < 0 || d < best) {
      best = d;
    }
  }
  return best;
}

static unsigned mon_timer_calls;
static void mon_timer_check(void)
{
  static const long maxes[][2] = { { -1, 0 }, { 0, 0 }, { 0, 1000 }, { 0, 250000 }, { 3, 0 }, { 100000, 999999 } };
  size_t            i;
  int64_t           dl;
  if (!mon_enable_timer || app_channel == NULL) {
    return;
  }
  dl = mon_walk_deadline();
  mon_timer_calls++;
  for (i = 0; i < sizeof(maxes) / sizeof(maxes[0]); i++) {
    struct timeval maxtv, tvbuf, *r;
    int64_t        got, rem;
    tvbuf.tv_sec  = -77;
    tvbuf.tv_usec = -77;
    if (maxes[i][0] < 0) {
      r = ares_timeout(app_channel, NULL, &tvbuf);
    } else {
      maxtv.tv_sec  = maxes[i][0];
      maxtv.tv_usec = maxes[i][1];
      if ((mon_timer_calls + i) % 2) {
        r = ares_timeout(app_channel, &maxtv, &tvbuf);
      } else {
        /* ares_timeout(3): "It is valid for maxtv and tv to have the same value": one buffer in both roles */
        tvbuf = maxtv;
        r     = ares_timeout(app_channel, &tvbuf, &tvbuf);
        if (r == &tvbuf && dl < 0) {
          r = &maxtv; /* the caller's maximum came back (same object) */
        }
        MON_EVAL("timer_timeout_value_aliased");
      }
    }
    MON_EVAL("timer_timeout_value");
    if (dl < 0) {
      /* nothing outstanding on a timer: must hand back the caller's maximum */
      if (maxes[i][0] < 0 ? r != NULL : r != &maxtv) {
        vh_violation("timer:no-deadline-not-maxtv", "no query on a timer but ares_timeout did not return the caller's maxtv");
      }
      continue;
    }
    if (r == NULL) {
      vh_violation("timer:null-with-deadline", "queries outstanding but ares_timeout returned NULL");
      continue;
    }
    if (r->tv_sec < 0 || r->tv_usec < 0 || r->tv_usec >= 1000000) {
      vh_violation("timer:negative-or-denormal", "ares_timeout returned %ld.%06ld", (long)r->tv_sec, (long)r->tv_usec);
      continue;
    }
    got = (int64_t)r->tv_sec * 1000000 + r->tv_usec;
    rem = dl - sim_now_us;
    if (rem < 0) {
      rem = 0;
    }
    if (got > rem) {
      vh_violation("timer:later-than-deadline", "ares_timeout says %lld us but the earliest deadline is in %lld us", (long long)got,
                   (long long)rem);
    }
    if (maxes[i][0] >= 0) {
      int64_t mx = (int64_t)maxes[i][0] * 1000000 + maxes[i][1];
      if (got > mx) {
        vh_violation("timer:later-than-maxtv", "ares_timeout says %lld us but caller's maximum is %lld us", (long long)got,
                     (long long)mx);
      }
      if (got < rem && got < mx) {
        vh_violation("timer:earlier-than-both", "ares_timeout says %lld us, deadline in %lld us, maxtv %lld us", (long long)got,
                     (long long)rem, (long long)mx);
      }
    } else if (got != rem) {
      vh_violation("timer:not-remaining", "ares_timeout(NULL) says %lld us, earliest deadline is in %lld us", (long long)got,
                   (long long)rem);
    }
  }
}

static void mon_timer_check_fwd(void)
{
  mon_timer_check();
}

static void mon_stuck(void)
{
  MON_EVAL("timer_stuck");
  vh_violation("timer:stuck", "%d requests outstanding (%zu wire queries) but no timer, no packet in flight and no scheduled action",
               app_outstanding, ares_queue_active_queries(app_channel));
}

/* after the channel has been processed: nothing may remain whose deadline is already due */
static void mon_progress_check(int64_t deadline_before, int had_fd_events)
{
  int64_t dl;
  (void)had_fd_events;
  if (!mon_enable_timer || app_channel == NULL) {
    return;
  }
  dl = mon_walk_deadline();
  MON_EVAL("timer_progress");
  if (dl >= 0 && dl <= sim_now_us) {
    vh_violation("timer:deadline-not-processed",
                 "after processing at t=%lld a query whose deadline %lld has passed is still waiting (deadline before the call: %lld)",
                 (long long)sim_now_us, (long long)dl, (long long)deadline_before);
  }
}

/* black-box form: the channel was processed at or after the announced deadline with no descriptor
 * events: something observable must have happened (retransmission, completion, or at least a
 * socket-layer call of the retry) */
static void mon_progress_blackbox(int64_t deadline_before, int nev, long dtx, long dcb, long dcalls)
{
  if (!mon_enable_timer || deadline_before < 0 || nev > 0 || deadline_before > sim_now_us) {
    return;
  }
  MON_EVAL("timer_progress_blackbox");
  if (dtx == 0 && dcb == 0 && dcalls == 0) {
    /* Not a verdict: a timed-out query may legitimately have been requeued onto another server's
     * TCP connection that is still connecting (buffered, nothing visible outside).  The verdict
     * is mon_progress_check() above (no live query keeps a deadline that has passed). */
    sim_note("timer_progress_externally_invisible");
  } else {
    sim_note("timer_progress_externally_visible");
  }
}

/* ------------------------------------------------------------------ server state stream (health monitor input) */
typedef struct {
  int64_t t;
  int     srv;
  int     success;
  int     flags;
  int     ntx_at; /* sim_ntx when it was reported */
} ss_ev_t;
#define SS_MAX 8192
static ss_ev_t ss_ev[SS_MAX];
static int     ss_n;
static void (*mon_server_state_hook)(int srv, int success, int flags);

static int srv_from_string(const char *s)
{
  /* forms: "a.b.c.d:port", "[v6]:port", "dns://host:port?tcpport=N" */
  char        host[80];
  const char *p = s;
  size_t      l;
  int         i;
  if (!strncmp(p, "dns://", 6)) {
    p += 6;
  }
  if (*p == '[') {
    const char *e = strchr(p, ']');
    if (!e) {
      return -1;
    }
    l = (size_t)(e - p - 1);
    if (l >= sizeof(host)) {
      return -1;
    }
    memcpy(host, p + 1, l);
    host[l] = 0;
  } else {
    const char *e = strchr(p, ':');
    l             = e ? (size_t)(e - p) : strlen(p);
    if (l >= sizeof(host)) {
      return -1;
    }
    memcpy(host, p, l);
    host[l] = 0;
  }
  {
    char *pct = strchr(host, '%');
    if (pct) {
      *pct = 0;
    }
  }
  for (i = 0; i < sim_nsrv; i++) {
    uint8_t a[16];
    if (inet_pton(sim_srv[i].family, host, a) == 1 && memcmp(a, sim_srv[i].addr, sim_srv[i].family == AF_INET ? 4 : 16) == 0) {
      return i;
    }
  }
  return -1;
}

static void mon_server_state(const char *server, int success, int flags)
{
  int si = srv_from_string(server);
  sim_note(success ? "server_state_success" : "server_state_failure");
  vh_trace("server_state srv %d (%s) %s flags %d", si, server, success ? "SUCCESS" : "FAILURE", flags);
  if (ss_n < SS_MAX) {
    ss_ev[ss_n].t       = sim_now_us;
    ss_ev[ss_n].srv     = si;
    ss_ev[ss_n].success = success;
    ss_ev[ss_n].flags   = flags;
    ss_ev[ss_n].ntx_at  = sim_ntx;
    ss_n++;
  }
  if (mon_server_state_hook) {
    mon_server_state_hook(si, success, flags);
  }
}

static void (*mon_tok_done_hook)(app_tok_t *t);
static void mon_tok_done(app_tok_t *t)
{
  if (mon_tok_done_hook) {
    mon_tok_done_hook(t);
  }
}
