/* sim_profiles.h - workload profiles: each builds a case from (rng, idx), runs it, and marks
 * what made it non-trivial. */

static int run_generic(vh_rng_t *rng)
{
  int rc;
  (void)rng;
  rc = app_channel_init();
  if (rc != ARES_SUCCESS) {
    if (app_channel) {
      ares_destroy(app_channel);
      app_channel = NULL;
    }
    vh_inconclusive("init-failed");
    return 0;
  }
  mon_quiescent("init");
  app_run();
  mon_timer_check();
  case_finish();
  return 1;
}

static void hostile_fingerprint(void)
{
  int nt = 0;
  if (sim_ntx > 0) {
    if (app_cancel_in_cb_used || app_start_in_cb_used) {
      nt |= 1;
    }
    if (sim_faults_fired > 0) {
      nt |= 2;
    }
    {
      int i;
      for (i = 0; i < app_nact; i++) {
        if (app_act[i].kind == AA_CANCEL && app_act[i].done) {
          nt |= 4;
        }
      }
    }
    if (app_sched.timeouts_first_pm || app_sched.skip_chance_pm || app_sched.one_event_pm) {
      nt |= 8;
    }
  }
  case_nontrivial = nt;
  if (nt) {
    vh_count("nontrivial_cases");
    vh_fp_add(case_fp);
  }
}

static int profile_run(const char *profile, vh_rng_t *rng, uint64_t idx)
{
  (void)idx;
  if (!strcmp(profile, "hostile") || !strcmp(profile, "hostile-cancelcb")) {
    /* ares_cancel() from inside a completion callback is confined to its own sub-workload:
     * it reaches known, listed defects so easily that it would starve everything else */
    gen_profile_flags = strcmp(profile, "hostile") == 0 ? GP_NO_CANCEL_IN_CB : 0;
    gen_hostile(rng);
    run_generic(rng);
    hostile_fingerprint();
    return 1;
  }
  return 0;
}
