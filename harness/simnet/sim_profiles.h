/* sim_profiles.h - workload profiles: each builds a case from (rng, idx), runs it, and marks
 * what made it non-trivial. */

static int run_generic(vh_rng_t *rng)
{
  int rc;
  (void)rng;
  rc = app_channel_init();
  if (rc != ARES_SUCCESS) {
    if (app_channel) {
      ares_destroy(app_channel);
      app_channel = NULL;
    }
    vh_inconclusive("init-failed");
    return 0;
  }
  mon_quiescent("init");
  app_run();
  mon_timer_check();
  case_finish();
  return 1;
}

static void hostile_fingerprint(void)
{
  int nt = 0;
  if (sim_ntx > 0) {
    if (app_cancel_in_cb_used || app_start_in_cb_used) {
      nt |= 1;
    }
    if (sim_faults_fired > 0) {
      nt |= 2;
    }
    {
      int i;
      for (i = 0; i < app_nact; i++) {
        if (app_act[i].kind == AA_CANCEL && app_act[i].done) {
          nt |= 4;
        }
      }
    }
    if (app_sched.timeouts_first_pm || app_sched.skip_chance_pm || app_sched.one_event_pm) {
      nt |= 8;
    }
  }
  case_nontrivial = nt;
  if (nt) {
    vh_count("nontrivial_cases");
    vh_fp_add(case_fp);
  }
}


/* ------------------------------------------------------------------ C10: sockets profile + k-th call fault enumeration */
static void fd_fingerprint(void)
{
  int nsock = sim_next_fd - SIM_FD_BASE;
  int nt    = (nsock >= 2) || sim_faults_fired > 0;
  if (sim_ntx == 0 && sim_faults_fired == 0) {
    nt = 0;
  }
  case_nontrivial = nt;
  if (nt) {
    uint64_t h = vh_fnv(VH_FNV_INIT, sim_fd_shape, sizeof(sim_fd_shape));
    vh_count("nontrivial_cases");
    vh_fp_add(h);
  }
}

static void gen_sockets(vh_rng_t *rng)
{
  gen_profile_flags = GP_SIMPLE_NAMES | GP_NO_CANCEL_IN_CB | GP_NO_WEIRD_TYPES;
  gen_hostile(rng);
  if (vh_chance(rng, 1, 2)) {
    app_cfg.flags |= ARES_FLAG_STAYOPEN;
  }
  if (vh_chance(rng, 1, 3)) {
    app_cfg.flags |= ARES_FLAG_USEVC;
  }
  sim_cfg.tfo_supported = vh_chance(rng, 1, 2);
  if (vh_chance(rng, 1, 2)) {
    app_cfg.udp_max_queries = vh_range(rng, 1, 2);
  }
  sim_rand_fault_permille = vh_chance(rng, 1, 2) ? vh_range(rng, 5, 80) : 0;
}

#define FE_MAXK 160
static const int fe_errs[] = { ECONNREFUSED, EWOULDBLOCK, EIO, EINTR, ENOSYS };
#define FE_NERR ((int)(sizeof(fe_errs) / sizeof(fe_errs[0])))
#define FE_SLOTS (FE_MAXK * FE_NERR)
#define FE_KINDS 12

static void gen_scenario(int scn)
{
  int      kind    = scn % FE_KINDS;
  int      variant = scn / FE_KINDS;
  vh_rng_t vr;
  int      i, ti;
  vh_rng_seed(&vr, 0xfa17u + (uint64_t)variant * 7919u);
  gen_profile_flags = GP_SIMPLE_NAMES | GP_NO_CANCEL_IN_CB | GP_NO_REENTRANT | GP_NO_WEIRD_TYPES;
  gen_default_simcfg(&vr, 0);
  gen_default_appcfg(&vr);
  gen_srv_base(3);
  for (i = 0; i < sim_nsrv; i++) {
    sim_srv[i].delay_min_ms = 2;
    sim_srv[i].delay_max_ms = 2;
    sim_srv[i].ck_mode      = 1;
    memset(sim_srv[i].ck_secret, 0x51 + i, 8);
  }
  app_cfg.nsrv_cfg   = 2;
  app_cfg.srv_cfg[0] = 0;
  app_cfg.srv_cfg[1] = 2;
  app_cfg.timeout_ms = 300;
  app_cfg.tries      = 2;
  app_cfg.use_server_state_cb = 1;
  app_sched.max_steps     = 5000;
  app_sched.idle_ms_after = 20;
  if (variant > 0) {
    /* variants: polling mechanism, socket-function flags, connect behaviour, v6 servers */
    sim_cfg.legacy_poll          = (int)vh_below(&vr, 3);
    sim_cfg.nonblocking_flag     = vh_chance(&vr, 3, 4);
    sim_cfg.use_pending_write_cb = vh_chance(&vr, 1, 3);
    sim_cfg.use_sock_cfg_cb      = vh_chance(&vr, 1, 2);
    sim_cfg.use_sock_create_cb   = vh_chance(&vr, 1, 2);
    sim_cfg.have_getsockname     = vh_chance(&vr, 4, 5);
    sim_cfg.tcp_seg_mode         = (int)vh_below(&vr, 3);
    sim_cfg.tcp_write_mode       = (int)vh_below(&vr, 3);
    sim_cfg.one_fd_per_call      = vh_chance(&vr, 1, 4);
    if (vh_chance(&vr, 1, 2)) {
      app_cfg.srv_cfg[0] = 1; /* v6 */
    }
    for (i = 0; i < sim_nsrv; i++) {
      sim_srv[i].tcp_connect          = (int)vh_below(&vr, 2);
      sim_srv[i].tcp_connect_delay_ms = (int)vh_below(&vr, 5);
    }
    if (vh_chance(&vr, 1, 3)) {
      app_cfg.flags |= ARES_FLAG_STAYOPEN;
    }
    if (vh_chance(&vr, 1, 3)) {
      app_cfg.flags |= ARES_FLAG_DNS0x20;
    }
    app_sched.timeouts_first_pm = vh_chance(&vr, 1, 3) ? 300 : 0;
  }
#define SCN_TOK(k, nm, ty, t0)                                      do {                                                                ti = gen_add_token(&vr, (t0));                                    app_tok[ti].kind   = (k);                                         app_tok[ti].qtype  = (ty);                                        app_tok[ti].qclass = 1;                                           app_tok[ti].action = RA_NONE;                                     snprintf(app_tok[ti].name, sizeof(app_tok[ti].name), "%s", (nm));   } while (0)
  switch (kind) {
    case 0: /* UDP query answered */
      SCN_TOK(RK_QUERY_DNSREC, "a0.example.com", 1, 0);
      break;
    case 1: /* first server silent -> retry on second */
      memset(sim_srv[app_cfg.srv_cfg[0]].w_udp, 0, sizeof(sim_srv[0].w_udp));
      sim_srv[app_cfg.srv_cfg[0]].w_udp[SA_SILENT] = 1;
      SCN_TOK(RK_QUERY, "a1.example.com", 1, 0);
      break;
    case 2: /* truncation -> TCP */
      memset(sim_srv[app_cfg.srv_cfg[0]].w_udp, 0, sizeof(sim_srv[0].w_udp));
      sim_srv[app_cfg.srv_cfg[0]].w_udp[SA_TC] = 1;
      SCN_TOK(RK_SEND_DNSREC, "a2.example.com", 16, 0);
      break;
    case 3: /* TCP only */
      app_cfg.flags |= ARES_FLAG_USEVC;
      SCN_TOK(RK_QUERY_DNSREC, "a3.example.com", 1, 0);
      SCN_TOK(RK_QUERY_DNSREC, "b3.example.com", 28, 0);
      break;
    case 4: /* TCP fast open */
      app_cfg.flags |= ARES_FLAG_USEVC;
      sim_cfg.tfo_supported = 1;
      SCN_TOK(RK_QUERY_DNSREC, "a4.example.com", 1, 0);
      SCN_TOK(RK_QUERY_DNSREC, "b4.example.com", 1, 1000);
      break;
    case 5: /* stay-open reuse */
      app_cfg.flags |= ARES_FLAG_STAYOPEN;
      SCN_TOK(RK_QUERY, "a5.example.com", 1, 0);
      SCN_TOK(RK_QUERY, "b5.example.com", 1, 50000);
      break;
    case 6: /* per-socket query limit */
      app_cfg.udp_max_queries = 1;
      SCN_TOK(RK_QUERY, "a6.example.com", 1, 0);
      SCN_TOK(RK_QUERY, "b6.example.com", 1, 0);
      SCN_TOK(RK_QUERY, "c6.example.com", 1, 0);
      break;
    case 7: /* getaddrinfo both families with sorting (probe sockets) */
      sim_srv[app_cfg.srv_cfg[0]].default_nrec = 3;
      SCN_TOK(RK_GETADDRINFO, "a7.example.com", 1, 0);
      app_tok[ti].family   = AF_UNSPEC;
      app_tok[ti].ai_flags = 0;
      break;
    case 8: /* cancel mid-flight */
      sim_srv[app_cfg.srv_cfg[0]].delay_min_ms = sim_srv[app_cfg.srv_cfg[0]].delay_max_ms = 50;
      SCN_TOK(RK_QUERY, "a8.example.com", 1, 0);
      SCN_TOK(RK_GETHOSTBYNAME, "b8.example.com", 1, 0);
      app_tok[ti].family = AF_INET;
      gen_add_action(10000, AA_CANCEL, 0, 0);
      break;
    case 9: /* server list change mid-flight */
      sim_srv[app_cfg.srv_cfg[0]].delay_min_ms = sim_srv[app_cfg.srv_cfg[0]].delay_max_ms = 50;
      SCN_TOK(RK_QUERY, "a9.example.com", 1, 0);
      gen_add_action(10000, AA_SET_SERVERS, 0, 0);
      SCN_TOK(RK_QUERY, "b9.example.com", 1, 20000);
      break;
    case 10: /* search, first candidate NXDOMAIN */
      app_cfg.ndomains = 1;
      snprintf(app_cfg.domains[0], sizeof(app_cfg.domains[0]), "sub.test");
      app_cfg.ndots = 2;
      {
        sim_rule_t *r = &sim_srv[app_cfg.srv_cfg[0]].rules[0];
        memset(r, 0, sizeof(*r));
        snprintf(r->name, sizeof(r->name), "a10.sub.test");
        r->action = SA_NXDOMAIN;
        r->ttl    = 60;
        sim_srv[app_cfg.srv_cfg[0]].nrules = 1;
      }
      SCN_TOK(RK_SEARCH, "a10", 1, 0);
      break;
    default: /* 11: TCP reset then retry */
      app_cfg.flags |= ARES_FLAG_USEVC;
      memset(sim_srv[app_cfg.srv_cfg[0]].w_tcp, 0, sizeof(sim_srv[0].w_tcp));
      sim_srv[app_cfg.srv_cfg[0]].w_tcp[SA_RESET] = 1;
      SCN_TOK(RK_QUERY_DNSREC, "a11.example.com", 1, 0);
      break;
  }
#undef SCN_TOK
}

static void run_faultenum(uint64_t idx)
{
  int scn = (int)(idx / FE_SLOTS);
  int rem = (int)(idx % FE_SLOTS);
  int k   = rem / FE_NERR + 1;
  int e   = fe_errs[rem % FE_NERR];
  gen_scenario(scn);
  sim_nfaults         = 1;
  sim_faults[0].kind  = 0;
  sim_faults[0].nth   = -k; /* the k-th socket-layer call of any kind */
  sim_faults[0].err   = e;
  sim_faults[0].fired = 0;
  run_generic(NULL);
  if (sim_faults_fired == 0) {
    /* beyond the last call of this scenario: the enumeration for it is complete */
    vh_count("faultenum_beyond_last_call");
    if (k == FE_MAXK) {
      vh_count("faultenum_scenario_complete");
    }
    case_nontrivial = 0;
    return;
  }
  vh_count("faultenum_fired");
  fd_fingerprint();
}


/* ------------------------------------------------------------------ C06/C07: retry profile */
static void gen_retry(vh_rng_t *rng)
{
  int i, n, r;
  gen_profile_flags = GP_ONLY_WIRE | GP_SIMPLE_NAMES | GP_NO_REENTRANT | GP_NO_CANCEL_IN_CB | GP_NO_WEIRD_TYPES;
  gen_default_simcfg(rng, 1);
  gen_default_appcfg(rng);
  gen_srv_base(4);
  for (i = 0; i < sim_nsrv; i++) {
    static const int moods[] = { MOOD_SILENT, MOOD_SILENT, MOOD_ERR, MOOD_FLAKY, MOOD_RESET, MOOD_TC, MOOD_FORMERR, MOOD_GOOD, MOOD_NEG, MOOD_BADCOOKIE };
    vsrv_t          *s       = &sim_srv[i];
    gen_srv_mood(s, moods[vh_below(rng, sizeof(moods) / sizeof(int))], rng);
    s->tcp_connect          = vh_chance(rng, 6, 10) ? (int)vh_below(rng, 2) : 2 + (int)vh_below(rng, 3);
    s->tcp_connect_delay_ms = (int)vh_below(rng, 40);
    s->delay_max_ms         = (int)vh_below(rng, 30);
    if (s->w_udp[SA_BADCOOKIE] < 50) {
      s->ck_mode = (int)vh_below(rng, 3);
    }
    memset(s->ck_secret, 0x60 + i, 8);
  }
  app_cfg.flags = 0;
  if (vh_chance(rng, 7, 10)) {
    app_cfg.flags |= ARES_FLAG_EDNS;
  }
  if (vh_chance(rng, 1, 6)) {
    app_cfg.flags |= ARES_FLAG_USEVC;
  }
  if (vh_chance(rng, 1, 6)) {
    app_cfg.flags |= ARES_FLAG_IGNTC;
  }
  if (vh_chance(rng, 1, 4)) {
    app_cfg.flags |= ARES_FLAG_STAYOPEN;
  }
  if (vh_chance(rng, 1, 5)) {
    app_cfg.flags |= ARES_FLAG_NOCHECKRESP;
  }
  if (vh_chance(rng, 1, 4)) {
    app_cfg.flags |= ARES_FLAG_DNS0x20;
  }
  r = (int)vh_below(rng, 100);
  app_cfg.tries = r < 55 ? vh_range(rng, 1, 4) : r < 80 ? vh_range(rng, 5, 20) : vh_range(rng, 21, 100);
  r = (int)vh_below(rng, 100);
  app_cfg.timeout_ms = r < 20 ? vh_range(rng, 1, 249) : r < 80 ? vh_range(rng, 250, 2000) : vh_range(rng, 2001, 10000);
  r = (int)vh_below(rng, 100);
  app_cfg.maxtimeout_ms   = r < 40 ? 0 : r < 60 ? vh_range(rng, 1, 300) : r < 85 ? vh_range(rng, 300, 5000) : vh_range(rng, 5000, 100000);
  app_cfg.rotate          = vh_chance(rng, 1, 3);
  app_cfg.udp_max_queries = vh_chance(rng, 1, 3) ? vh_range(rng, 1, 3) : 0;
  app_cfg.nsrv_cfg        = vh_range(rng, 1, 4);
  {
    int used[SIM_MAXSRV] = { 0 };
    n                    = 0;
    while (n < app_cfg.nsrv_cfg) {
      int sidx = (int)vh_below(rng, (uint32_t)sim_nsrv);
      if (!used[sidx]) {
        used[sidx]           = 1;
        app_cfg.srv_cfg[n++] = sidx;
      }
    }
  }
  app_cfg.use_server_state_cb = 1;
  if (vh_chance(rng, 1, 3)) {
    app_cfg.failover_set      = 1;
    app_cfg.failover_chance   = vh_chance(rng, 1, 2) ? 0 : vh_range(rng, 1, 3);
    app_cfg.failover_delay_ms = vh_range(rng, 0, 2000);
  }
  sim_nfaults = 0;
  if (vh_chance(rng, 1, 3)) {
    static const int errs[] = { ECONNREFUSED, ENETUNREACH, EIO, ECONNRESET, EHOSTUNREACH, EAFNOSUPPORT, EPIPE };
    n                       = vh_range(rng, 1, 3);
    for (i = 0; i < n; i++) {
      sim_faults[sim_nfaults].kind  = (int)vh_below(rng, SF__COUNT);
      sim_faults[sim_nfaults].nth   = vh_range(rng, 1, 12);
      sim_faults[sim_nfaults].err   = errs[vh_below(rng, sizeof(errs) / sizeof(int))];
      sim_faults[sim_nfaults].fired = 0;
      sim_nfaults++;
    }
  }
  sim_rand_fault_permille     = vh_chance(rng, 1, 5) ? 30 : 0;
  app_sched.max_steps         = 300000;
  app_sched.skip_chance_pm    = vh_chance(rng, 1, 4) ? 100 : 0;
  app_sched.timeouts_first_pm = vh_chance(rng, 1, 3) ? 300 : 0;
  app_sched.one_event_pm      = vh_chance(rng, 1, 3) ? 300 : 0;
  app_sched.idle_ms_after     = 50;
  n                           = vh_range(rng, 1, 3);
  for (i = 0; i < n; i++) {
    gen_add_token(rng, vh_chance(rng, 1, 2) ? 0 : (int64_t)vh_below(rng, 2000000));
  }
  if (vh_chance(rng, 1, 4)) {
    gen_add_action((int64_t)vh_below(rng, 3000000), AA_SET_SERVERS, 0, 0);
  }
  if (vh_chance(rng, 1, 10)) {
    gen_add_action((int64_t)vh_below(rng, 3000000), AA_CANCEL, 0, 0);
  }
}

static void retry_fingerprint(void)
{
  /* non-trivial: some query was transmitted at least twice; distinct: outcome sequence x config class */
  int      i, multi = 0;
  uint64_t h = VH_FNV_INIT;
  for (i = 0; i < net_nq; i++) {
    if (net_q[i].ntx >= 2) {
      multi = 1;
    }
  }
  case_nontrivial = multi;
  if (!multi) {
    return;
  }
  for (i = 0; i < sim_ntx && i < 64; i++) {
    h = vh_fnv_u64(h, (uint64_t)(sim_tx[i].action * 4 + sim_tx[i].tcp * 2 + sim_tx[i].has_opt));
  }
  h = vh_fnv_u64(h, (uint64_t)app_cfg.nsrv_cfg * 1000 + (uint64_t)(app_cfg.tries > 4 ? 5 : app_cfg.tries) * 10 +
                      (uint64_t)(app_cfg.maxtimeout_ms ? 1 : 0));
  vh_count("nontrivial_cases");
  vh_fp_add(h);
}

static int profile_run(const char *profile, vh_rng_t *rng, uint64_t idx)
{
  (void)idx;
  if (!strcmp(profile, "hostile") || !strcmp(profile, "hostile-cancelcb")) {
    /* ares_cancel() from inside a completion callback is confined to its own sub-workload:
     * it reaches known, listed defects so easily that it would starve everything else */
    gen_profile_flags = strcmp(profile, "hostile") == 0 ? GP_NO_CANCEL_IN_CB : 0;
    gen_hostile(rng);
    run_generic(rng);
    hostile_fingerprint();
    return 1;
  }
  if (!strcmp(profile, "retry")) {
    gen_retry(rng);
    run_generic(rng);
    retry_fingerprint();
    return 1;
  }
  if (!strcmp(profile, "sockets")) {
    gen_sockets(rng);
    run_generic(rng);
    fd_fingerprint();
    return 1;
  }
  if (!strcmp(profile, "faultenum")) {
    run_faultenum(idx);
    return 1;
  }
  return 0;
}
