/* sim_profiles.h - workload profiles: each builds a case from (rng, idx), runs it, and marks
 * what made it non-trivial. */

static int run_generic(vh_rng_t *rng)
{
  int rc;
  (void)rng;
  rc = app_channel_init();
  if (rc != ARES_SUCCESS) {
    if (app_channel) {
      ares_destroy(app_channel);
      app_channel = NULL;
    }
    vh_inconclusive("init-failed");
    return 0;
  }
  mon_quiescent("init");
  {
    /* scripted action times are offsets from the start of the case */
    int i;
    for (i = 0; i < app_nact; i++) {
      app_act[i].t += sim_now_us;
    }
  }
  app_run();
  mon_timer_check();
  case_finish();
  return 1;
}

static void hostile_fingerprint(void)
{
  int nt = 0;
  if (sim_ntx > 0) {
    if (app_cancel_in_cb_used || app_start_in_cb_used) {
      nt |= 1;
    }
    if (sim_faults_fired > 0) {
      nt |= 2;
    }
    {
      int i;
      for (i = 0; i < app_nact; i++) {
        if (app_act[i].kind == AA_CANCEL && app_act[i].done) {
          nt |= 4;
        }
      }
    }
    if (app_sched.timeouts_first_pm || app_sched.skip_chance_pm || app_sched.one_event_pm) {
      nt |= 8;
    }
  }
  case_nontrivial = nt;
  if (nt) {
    vh_count("nontrivial_cases");
    vh_fp_add(case_fp);
  }
}


/* ------------------------------------------------------------------ C10: sockets profile + k-th call fault enumeration */
static void fd_fingerprint(void)
{
  int nsock = sim_next_fd - SIM_FD_BASE;
  int nt    = (nsock >= 2) || sim_faults_fired > 0;
  if (sim_ntx == 0 && sim_faults_fired == 0) {
    nt = 0;
  }
  case_nontrivial = nt;
  if (nt) {
    uint64_t h = vh_fnv(VH_FNV_INIT, sim_fd_shape, sizeof(sim_fd_shape));
    vh_count("nontrivial_cases");
    vh_fp_add(h);
  }
}

static void gen_sockets(vh_rng_t *rng)
{
  gen_profile_flags = GP_SIMPLE_NAMES | GP_NO_CANCEL_IN_CB | GP_NO_WEIRD_TYPES;
  gen_hostile(rng);
  if (vh_chance(rng, 1, 2)) {
    app_cfg.flags |= ARES_FLAG_STAYOPEN;
  }
  if (vh_chance(rng, 1, 3)) {
    app_cfg.flags |= ARES_FLAG_USEVC;
  }
  sim_cfg.tfo_supported = vh_chance(rng, 1, 2);
  if (vh_chance(rng, 1, 2)) {
    app_cfg.udp_max_queries = vh_range(rng, 1, 2);
  }
  sim_rand_fault_permille = vh_chance(rng, 1, 2) ? vh_range(rng, 5, 80) : 0;
  if (vh_chance(rng, 1, 4) && sim_nfaults < SIM_MAXFAULT) {
    /* the network goes away: from some transmission on every send fails, on every socket, for good.  Retries, failover
     * to the next server and probes of the failed one then all fail on the spot, inside whatever call started them */
    static const int errs[] = { ENETUNREACH, ENETDOWN, EPERM, ENOBUFS };
    memset(&sim_faults[sim_nfaults], 0, sizeof(sim_faults[0]));
    sim_faults[sim_nfaults].kind   = SF_SENDTO;
    sim_faults[sim_nfaults].nth    = vh_range(rng, 1, 10);
    sim_faults[sim_nfaults].err    = errs[vh_below(rng, 4)];
    sim_faults[sim_nfaults].sticky = 1;
    sim_nfaults++;
    if (vh_chance(rng, 2, 3)) {
      app_cfg.failover_set      = 1;
      app_cfg.failover_chance   = vh_chance(rng, 1, 2) ? 1 : 2;
      app_cfg.failover_delay_ms = vh_chance(rng, 1, 2) ? 0 : 5;
    }
    if (vh_chance(rng, 1, 2)) {
      app_cfg.tries = 1;
    }
    sim_note("sockets_network_goes_away");
  }
  /* many sockets at once: one query per datagram socket, a dozen and more requests in the same instant, servers
   * that take their time, socket buffers that fill up - the legacy pollers (ares_fds / ares_getsock, 16 slots
   * with a read and a write bit each) see their tables full */
  if (vh_chance(rng, 1, 10)) {
    int     i;
    int64_t t0 = (int64_t)vh_below(rng, 50000);
    app_cfg.udp_max_queries     = 1;
    sim_cfg.legacy_poll         = 1 + (int)vh_below(rng, 2);
    sim_cfg.udp_wblock_permille = vh_chance(rng, 2, 3) ? 600 : 0;
    for (i = 0; i < sim_nsrv; i++) {
      sim_srv[i].delay_min_ms = 40;
      sim_srv[i].delay_max_ms = 400;
    }
    for (i = 0; i < app_nact; i++) {
      if (app_act[i].kind == AA_START) {
        app_act[i].t = t0;
      }
    }
    while (app_ntok < 14 && app_ntok < app_max_tokens) {
      gen_add_token(rng, t0);
    }
    sim_note("sockets_many_at_once");
  }
}

#define FE_MAXK 160
static const int fe_errs[] = { ECONNREFUSED, EWOULDBLOCK, EIO, EINTR, ENOSYS };
#define FE_NERR ((int)(sizeof(fe_errs) / sizeof(fe_errs[0])))
#define FE_SLOTS (FE_MAXK * FE_NERR)
#define FE_KINDS 12

static void gen_scenario_kv(int kind, int variant)
{
  vh_rng_t vr;
  int      i, ti;
  vh_rng_seed(&vr, 0xfa17u + (uint64_t)variant * 7919u);
  gen_profile_flags = GP_SIMPLE_NAMES | GP_NO_CANCEL_IN_CB | GP_NO_REENTRANT | GP_NO_WEIRD_TYPES;
  gen_default_simcfg(&vr, 0);
  gen_default_appcfg(&vr);
  gen_srv_base(3);
  for (i = 0; i < sim_nsrv; i++) {
    sim_srv[i].delay_min_ms = 2;
    sim_srv[i].delay_max_ms = 2;
    sim_srv[i].ck_mode      = 1;
    memset(sim_srv[i].ck_secret, 0x51 + i, 8);
  }
  app_cfg.nsrv_cfg   = 2;
  app_cfg.srv_cfg[0] = 0;
  app_cfg.srv_cfg[1] = 2;
  app_cfg.timeout_ms = 300;
  app_cfg.tries      = 2;
  app_cfg.use_server_state_cb = 1;
  app_sched.max_steps     = 5000;
  app_sched.idle_ms_after = 20;
  if (variant > 0) {
    /* variants: polling mechanism, socket-function flags, connect behaviour, v6 servers */
    sim_cfg.legacy_poll          = (int)vh_below(&vr, 3);
    sim_cfg.nonblocking_flag     = vh_chance(&vr, 3, 4);
    sim_cfg.use_pending_write_cb = vh_chance(&vr, 1, 3);
    sim_cfg.use_sock_cfg_cb      = vh_chance(&vr, 1, 2);
    sim_cfg.use_sock_create_cb   = vh_chance(&vr, 1, 2);
    sim_cfg.have_getsockname     = vh_chance(&vr, 4, 5);
    sim_cfg.tcp_seg_mode         = (int)vh_below(&vr, 3);
    sim_cfg.tcp_write_mode       = (int)vh_below(&vr, 3);
    sim_cfg.one_fd_per_call      = vh_chance(&vr, 1, 4);
    if (vh_chance(&vr, 1, 2)) {
      app_cfg.srv_cfg[0] = 1; /* v6 */
    }
    for (i = 0; i < sim_nsrv; i++) {
      sim_srv[i].tcp_connect          = (int)vh_below(&vr, 2);
      sim_srv[i].tcp_connect_delay_ms = (int)vh_below(&vr, 5);
    }
    if (vh_chance(&vr, 1, 3)) {
      app_cfg.flags |= ARES_FLAG_STAYOPEN;
    }
    if (vh_chance(&vr, 1, 3)) {
      app_cfg.flags |= ARES_FLAG_DNS0x20;
    }
    app_sched.timeouts_first_pm = vh_chance(&vr, 1, 3) ? 300 : 0;
  }
#define SCN_TOK(k, nm, ty, t0)                                      do {                                                                ti = gen_add_token(&vr, (t0));                                    app_tok[ti].kind   = (k);                                         app_tok[ti].qtype  = (ty);                                        app_tok[ti].qclass = 1;                                           app_tok[ti].action = RA_NONE;                                     snprintf(app_tok[ti].name, sizeof(app_tok[ti].name), "%s", (nm));   } while (0)
  switch (kind) {
    case 0: /* UDP query answered */
      SCN_TOK(RK_QUERY_DNSREC, "a0.example.com", 1, 0);
      break;
    case 1: /* first server silent -> retry on second */
      memset(sim_srv[app_cfg.srv_cfg[0]].w_udp, 0, sizeof(sim_srv[0].w_udp));
      sim_srv[app_cfg.srv_cfg[0]].w_udp[SA_SILENT] = 1;
      SCN_TOK(RK_QUERY, "a1.example.com", 1, 0);
      break;
    case 2: /* truncation -> TCP */
      memset(sim_srv[app_cfg.srv_cfg[0]].w_udp, 0, sizeof(sim_srv[0].w_udp));
      sim_srv[app_cfg.srv_cfg[0]].w_udp[SA_TC] = 1;
      SCN_TOK(RK_SEND_DNSREC, "a2.example.com", 16, 0);
      break;
    case 3: /* TCP only */
      app_cfg.flags |= ARES_FLAG_USEVC;
      SCN_TOK(RK_QUERY_DNSREC, "a3.example.com", 1, 0);
      SCN_TOK(RK_QUERY_DNSREC, "b3.example.com", 28, 0);
      break;
    case 4: /* TCP fast open */
      app_cfg.flags |= ARES_FLAG_USEVC;
      sim_cfg.tfo_supported = 1;
      SCN_TOK(RK_QUERY_DNSREC, "a4.example.com", 1, 0);
      SCN_TOK(RK_QUERY_DNSREC, "b4.example.com", 1, 1000);
      break;
    case 5: /* stay-open reuse */
      app_cfg.flags |= ARES_FLAG_STAYOPEN;
      SCN_TOK(RK_QUERY, "a5.example.com", 1, 0);
      SCN_TOK(RK_QUERY, "b5.example.com", 1, 350000);
      break;
    case 6: /* per-socket query limit */
      app_cfg.udp_max_queries = 1;
      SCN_TOK(RK_QUERY, "a6.example.com", 1, 0);
      SCN_TOK(RK_QUERY, "b6.example.com", 1, 0);
      SCN_TOK(RK_QUERY, "c6.example.com", 1, 0);
      break;
    case 7: /* getaddrinfo both families with sorting (probe sockets) */
      sim_srv[app_cfg.srv_cfg[0]].default_nrec = 3;
      SCN_TOK(RK_GETADDRINFO, "a7.example.com", 1, 0);
      app_tok[ti].family   = AF_UNSPEC;
      app_tok[ti].ai_flags = 0;
      break;
    case 8: /* cancel mid-flight */
      sim_srv[app_cfg.srv_cfg[0]].delay_min_ms = sim_srv[app_cfg.srv_cfg[0]].delay_max_ms = 50;
      SCN_TOK(RK_QUERY, "a8.example.com", 1, 0);
      SCN_TOK(RK_GETHOSTBYNAME, "b8.example.com", 1, 0);
      app_tok[ti].family = AF_INET;
      gen_add_action(10000, AA_CANCEL, 0, 0);
      break;
    case 9: /* server list change mid-flight */
      sim_srv[app_cfg.srv_cfg[0]].delay_min_ms = sim_srv[app_cfg.srv_cfg[0]].delay_max_ms = 50;
      SCN_TOK(RK_QUERY, "a9.example.com", 1, 0);
      gen_add_action(10000, AA_SET_SERVERS, 0, 0);
      SCN_TOK(RK_QUERY, "b9.example.com", 1, 20000);
      break;
    case 10: /* search, first candidate NXDOMAIN */
      app_cfg.ndomains = 1;
      snprintf(app_cfg.domains[0], sizeof(app_cfg.domains[0]), "sub.test");
      app_cfg.ndots = 2;
      {
        sim_rule_t *r = &sim_srv[app_cfg.srv_cfg[0]].rules[0];
        memset(r, 0, sizeof(*r));
        snprintf(r->name, sizeof(r->name), "a10.sub.test");
        r->action = SA_NXDOMAIN;
        r->ttl    = 60;
        sim_srv[app_cfg.srv_cfg[0]].nrules = 1;
      }
      SCN_TOK(RK_SEARCH, "a10", 1, 0);
      break;
    case 11: /* TCP reset then retry */
      app_cfg.flags |= ARES_FLAG_USEVC;
      memset(sim_srv[app_cfg.srv_cfg[0]].w_tcp, 0, sizeof(sim_srv[0].w_tcp));
      sim_srv[app_cfg.srv_cfg[0]].w_tcp[SA_RESET] = 1;
      SCN_TOK(RK_QUERY_DNSREC, "a11.example.com", 1, 0);
      break;
    /* ---- kinds used by the allocation-failure enumeration only (C14) ---- */
    case 12: /* cache fill, then cache hits through three entry points */
      app_cfg.qcache_max_ttl = 3600;
      SCN_TOK(RK_QUERY_DNSREC, "a12.example.com", 1, 0);
      SCN_TOK(RK_QUERY_DNSREC, "a12.example.com", 1, 100000);
      SCN_TOK(RK_QUERY, "a12.example.com", 1, 200000);
      SCN_TOK(RK_GETHOSTBYNAME, "a12.example.com", 1, 300000);
      app_tok[ti].family = AF_INET;
      break;
    case 13: /* hosts file: forward, both families, reverse, aliases */
      snprintf(app_cfg.hosts_content, sizeof(app_cfg.hosts_content),
               "10.1.2.3 h13.example.com h13 alias13\nfd00::13 h13.example.com h13\n127.0.0.1 localhost\n::1 localhost\n");
      snprintf(app_cfg.lookups, sizeof(app_cfg.lookups), "fb");
      SCN_TOK(RK_GETADDRINFO, "h13.example.com", 1, 0);
      app_tok[ti].family = AF_UNSPEC;
      SCN_TOK(RK_GETHOSTBYNAME, "alias13", 1, 1000);
      app_tok[ti].family = AF_INET;
      SCN_TOK(RK_GETHOSTBYADDR, "", 1, 2000);
      app_tok[ti].family = AF_INET;
      app_tok[ti].addr[0] = 10; app_tok[ti].addr[1] = 1; app_tok[ti].addr[2] = 2; app_tok[ti].addr[3] = 3;
      SCN_TOK(RK_GETADDRINFO, "localhost", 1, 3000);
      app_tok[ti].family = AF_UNSPEC;
      break;
    case 14: /* reverse lookups on the wire */
      SCN_TOK(RK_GETHOSTBYADDR, "", 1, 0);
      app_tok[ti].family = AF_INET;
      app_tok[ti].addr[0] = 192; app_tok[ti].addr[1] = 0; app_tok[ti].addr[2] = 2; app_tok[ti].addr[3] = 14;
      SCN_TOK(RK_GETNAMEINFO, "", 1, 1000);
      app_tok[ti].family = AF_INET6;
      app_tok[ti].addr[0] = 0x20; app_tok[ti].addr[1] = 0x01; app_tok[ti].addr[2] = 0x0d; app_tok[ti].addr[3] = 0xb8; app_tok[ti].addr[15] = 0x14;
      break;
    case 15: /* reinit with requests in flight, then more */
      sim_srv[app_cfg.srv_cfg[0]].delay_min_ms = sim_srv[app_cfg.srv_cfg[0]].delay_max_ms = 50;
      SCN_TOK(RK_QUERY, "a15.example.com", 1, 0);
      gen_add_action(10000, AA_REINIT, 0, 0);
      SCN_TOK(RK_QUERY_DNSREC, "b15.example.com", 28, 20000);
      break;
    case 16: /* duplicate, save options, read servers, sortlist */
      snprintf(app_cfg.sortlist, sizeof(app_cfg.sortlist), "10.0.0.0/8 fd5e::/16");
      app_cfg.ndomains = 2;
      snprintf(app_cfg.domains[0], sizeof(app_cfg.domains[0]), "one.test");
      snprintf(app_cfg.domains[1], sizeof(app_cfg.domains[1]), "two.test");
      SCN_TOK(RK_QUERY, "a16.example.com", 1, 0);
      gen_add_action(1000, AA_DUP, 0, 1);
      gen_add_action(2000, AA_SET_SORTLIST, 0, 0);
      gen_add_action(3000, AA_READONLY, 0, 0);
      break;
    case 17: /* destroy with requests outstanding */
      sim_srv[app_cfg.srv_cfg[0]].delay_min_ms = sim_srv[app_cfg.srv_cfg[0]].delay_max_ms = 50;
      SCN_TOK(RK_QUERY, "a17.example.com", 1, 0);
      SCN_TOK(RK_GETADDRINFO, "b17.example.com", 1, 0);
      app_tok[ti].family = AF_UNSPEC;
      SCN_TOK(RK_SEARCH, "c17.example.com", 1, 0);
      app_sched.destroy_at_step = 3;
      break;
    case 18: /* search through two domains, legacy entry points, NODATA */
      app_cfg.ndomains = 2;
      snprintf(app_cfg.domains[0], sizeof(app_cfg.domains[0]), "one.test");
      snprintf(app_cfg.domains[1], sizeof(app_cfg.domains[1]), "two.test");
      app_cfg.ndots = 1;
      {
        sim_rule_t *r = &sim_srv[app_cfg.srv_cfg[0]].rules[0];
        memset(r, 0, sizeof(*r));
        snprintf(r->name, sizeof(r->name), "a18.one.test");
        r->action = SA_NODATA;
        r->ttl    = 60;
        sim_srv[app_cfg.srv_cfg[0]].nrules = 1;
      }
      SCN_TOK(RK_SEARCH_DNSREC, "a18", 1, 0);
      SCN_TOK(RK_SEND, "b18.example.com", 16, 1000);
      SCN_TOK(RK_GETHOSTBYNAME, "c18", 1, 2000);
      app_tok[ti].family = AF_UNSPEC;
      break;
    case 20: /* enough concurrent requests to grow the query tables twice, more arriving while they wait */
    case 21: /* the same with one query per socket: the socket tables grow too */
      {
        int q;
        sim_srv[app_cfg.srv_cfg[0]].delay_min_ms = sim_srv[app_cfg.srv_cfg[0]].delay_max_ms = 40;
        if (kind == 21) {
          app_cfg.udp_max_queries = 1;
        }
        for (q = 0; q < 14; q++) {
          char nm[40];
          snprintf(nm, sizeof(nm), "q%d-%d.example.com", q, kind);
          SCN_TOK(q % 3 == 0 ? RK_QUERY_DNSREC : (q % 3 == 1 ? RK_QUERY : RK_SEND_DNSREC), nm, 1, 0);
        }
        for (q = 14; q < 28; q++) {
          char nm[40];
          snprintf(nm, sizeof(nm), "q%d-%d.example.com", q, kind);
          SCN_TOK(RK_QUERY_DNSREC, nm, q % 2 ? 1 : 28, 10000);
        }
      }
      break;
    case 22: /* names that never reach the network: literals, canonical name, numeric service, localhost */
      SCN_TOK(RK_GETADDRINFO, "192.0.2.22", 1, 0);
      app_tok[ti].family   = AF_UNSPEC;
      app_tok[ti].ai_flags = ARES_AI_CANONNAME;
      SCN_TOK(RK_GETADDRINFO, "2001:db8::22", 1, 1000);
      app_tok[ti].family   = AF_INET6;
      app_tok[ti].ai_flags = ARES_AI_CANONNAME | ARES_AI_NUMERICHOST;
      app_tok[ti].port     = 853;
      SCN_TOK(RK_GETHOSTBYNAME, "192.0.2.23", 1, 2000);
      app_tok[ti].family = AF_INET;
      SCN_TOK(RK_GETADDRINFO, "localhost", 1, 3000);
      app_tok[ti].family = AF_UNSPEC;
      SCN_TOK(RK_GETADDRINFO, "sub.localhost", 1, 4000);
      app_tok[ti].family = AF_INET6;
      SCN_TOK(RK_GETNAMEINFO, "", 1, 5000);
      app_tok[ti].family  = AF_INET;
      app_tok[ti].addr[0] = 127; app_tok[ti].addr[3] = 1;
      SCN_TOK(RK_SEARCH, "hidden.onion", 1, 6000);
      break;
    case 23: /* system configuration with every directive, environment overrides, reinit re-reading it */
      snprintf(app_cfg.resolv_content, sizeof(app_cfg.resolv_content),
               "# resolv.conf\nnameserver 10.9.8.7\nnameserver [fd00::53]:5353\nnameserver fe80::1%%eth0\nsearch one.test two.test three.test\n"
               "options ndots:2 timeout:1 attempts:2 rotate edns0 use-vc\nsortlist 10.0.0.0/8 192.168.0.0/255.255.0.0\nlookup file bind\ndomain four.test\n");
      snprintf(app_cfg.env_res_options, sizeof(app_cfg.env_res_options), "ndots:1 retrans:2 retry:3 no-rotate");
      snprintf(app_cfg.env_localdomain, sizeof(app_cfg.env_localdomain), "env1.test env2.test");
      snprintf(app_cfg.hosts_content, sizeof(app_cfg.hosts_content),
               "127.0.0.1 localhost\n10.2.3.4 a23.env1.test a23\n10.2.3.5 a23.env1.test\nfd00::23 b23.env1.test b23 alias23\n# comment\n\nbad line\n");
      snprintf(app_cfg.hostaliases_content, sizeof(app_cfg.hostaliases_content), "short23 a23.env1.test\n");
      app_cfg.ndomains = 0;
      snprintf(app_cfg.lookups, sizeof(app_cfg.lookups), "fb");
      SCN_TOK(RK_GETADDRINFO, "a23", 1, 0);
      app_tok[ti].family = AF_UNSPEC;
      SCN_TOK(RK_SEARCH, "short23", 1, 1000);
      gen_add_action(2000, AA_REINIT, 0, 0);
      SCN_TOK(RK_GETHOSTBYNAME, "b23", 1, 3000);
      app_tok[ti].family = AF_INET6;
      SCN_TOK(RK_QUERY, "c23.example.com", 1, 4000);
      break;
    case 24: /* system configuration full of malformed lines between valid ones (the parser's own error unwinds) */
      snprintf(app_cfg.resolv_content, sizeof(app_cfg.resolv_content),
               "nameserver notanip\nnameserver 10.9.8.7\nnameserver fe80::1\nnameserver [1.2.3.4\nsearch ,\nsearch ok.test , also.test\n"
               "options ndots:abc timeout:0 attempts:4294967297 rotate foo:bar\nsortlist 1.2.3.4/99 abc 10.0.0.0/8\nlookup garbage\nlookup bind file\n"
               "domain\nfoo bar\n\001\002binary\n");
      snprintf(app_cfg.env_res_options, sizeof(app_cfg.env_res_options), "ndots:x timeout:0 debug foo");
      snprintf(app_cfg.env_localdomain, sizeof(app_cfg.env_localdomain), " , ");
      snprintf(app_cfg.hosts_content, sizeof(app_cfg.hosts_content),
               "notanip a24\n10.2.4.4\n10.2.4.5 bad!name a24.test\n10.2.4.6 a24.test a24\n10.2.4.6 dup24 a24\n::1 a24\n");
      snprintf(app_cfg.hostaliases_content, sizeof(app_cfg.hostaliases_content), "onlyname\nshort24 a24.test extra words\n");
      snprintf(app_cfg.lookups, sizeof(app_cfg.lookups), "fb");
      snprintf(app_cfg.sortlist, sizeof(app_cfg.sortlist), "10.0.0.0/8");
      SCN_TOK(RK_GETADDRINFO, "a24", 1, 0);
      app_tok[ti].family = AF_UNSPEC;
      SCN_TOK(RK_SEARCH, "short24", 1, 1000);
      gen_add_action(2000, AA_REINIT, 0, 0);
      gen_add_action(3000, AA_SET_SORTLIST, 0, 1);
      SCN_TOK(RK_GETHOSTBYNAME, "dup24", 1, 4000);
      app_tok[ti].family = AF_INET;
      break;
    case 30: /* requests waiting on a server that failed once, another one on the healthy server, then a compound request:
              * its question goes to the healthy server, the failed one gets probed - and from some send on the network is gone */
      {
        sim_rule_t *r0 = &sim_srv[app_cfg.srv_cfg[0]].rules[0];
        int         which = variant % 6;
        app_cfg.tries             = 1 + (variant / 6) % 2;
        app_cfg.failover_set      = 1;
        app_cfg.failover_chance   = 1;
        app_cfg.failover_delay_ms = 0;
        app_cfg.timeout_ms        = 2000;
        for (i = 0; i < sim_nsrv; i++) {
          sim_srv[i].delay_min_ms = sim_srv[i].delay_max_ms = 300;
        }
        memset(r0, 0, sizeof(*r0));
        snprintf(r0->name, sizeof(r0->name), "s30.example.com");
        r0->action = SA_SERVFAIL;
        sim_srv[app_cfg.srv_cfg[0]].nrules = 1;
        SCN_TOK(RK_QUERY, "s30.example.com", 1, 0);
        /* s30 fails at A at 300 ms and moves to B; w30 is then waiting at A (until 500 ms); the compound request starts at 350 ms */
        SCN_TOK(RK_QUERY_DNSREC, "w30.example.com", 1, 200000);
        if ((variant / 12) % 2) {
          SCN_TOK(RK_SEND_DNSREC, "x30.example.com", 28, 210000);
        }
        switch (which) {
          case 0:
            SCN_TOK(RK_GETADDRINFO, "h30.example.com", 1, 350000);
            app_tok[ti].family = AF_INET;
            break;
          case 1:
            SCN_TOK(RK_GETADDRINFO, "h30.example.com", 1, 350000);
            app_tok[ti].family = AF_UNSPEC;
            break;
          case 2:
            SCN_TOK(RK_GETHOSTBYNAME, "h30.example.com", 1, 350000);
            app_tok[ti].family = AF_UNSPEC;
            break;
          case 3:
            SCN_TOK(RK_SEARCH, "h30.example.com", 1, 350000);
            break;
          case 4:
            SCN_TOK(RK_GETHOSTBYADDR, "", 1, 350000);
            app_tok[ti].family  = AF_INET;
            app_tok[ti].addr[0] = 192; app_tok[ti].addr[2] = 2; app_tok[ti].addr[3] = 30;
            break;
          default:
            SCN_TOK(RK_GETNAMEINFO, "", 1, 350000);
            app_tok[ti].family  = AF_INET;
            app_tok[ti].addr[0] = 192; app_tok[ti].addr[2] = 2; app_tok[ti].addr[3] = 31;
            break;
        }
      }
      break;
    default: /* 19: many options at init, answers with many records and a CNAME chain */
      app_cfg.local_bind      = 1;
      app_cfg.udp_max_queries = 2;
      app_cfg.maxtimeout_ms   = 2000;
      app_cfg.failover_set    = 1;
      app_cfg.failover_chance = 10;
      app_cfg.failover_delay_ms = 1000;
      app_cfg.rotate          = 1;
      app_cfg.qcache_max_ttl  = 60;
      app_cfg.flags |= ARES_FLAG_DNS0x20;
      snprintf(app_cfg.sortlist, sizeof(app_cfg.sortlist), "192.168.0.0/16");
      sim_srv[app_cfg.srv_cfg[0]].default_nrec = 12;
      sim_srv[app_cfg.srv_cfg[1]].default_nrec = 12;
      SCN_TOK(RK_GETADDRINFO, "a19.example.com", 1, 0);
      app_tok[ti].family = AF_UNSPEC;
      app_tok[ti].port   = 443;
      SCN_TOK(RK_QUERY_DNSREC, "b19.example.com", 15, 1000);
      SCN_TOK(RK_QUERY_DNSREC, "c19.example.com", 16, 1000);
      break;
  }
#undef SCN_TOK
}

static void gen_scenario(int scn)
{
  gen_scenario_kv(scn % FE_KINDS, scn / FE_KINDS);
}

static void run_faultenum(uint64_t idx)
{
  int scn = (int)(idx / FE_SLOTS);
  int rem = (int)(idx % FE_SLOTS);
  int k   = rem / FE_NERR + 1;
  int e   = fe_errs[rem % FE_NERR];
  gen_scenario(scn);
  sim_nfaults         = 1;
  sim_faults[0].kind  = 0;
  sim_faults[0].nth   = -k; /* the k-th socket-layer call of any kind */
  sim_faults[0].err   = e;
  sim_faults[0].fired = 0;
  run_generic(NULL);
  if (sim_faults_fired == 0) {
    /* beyond the last call of this scenario: the enumeration for it is complete */
    vh_count("faultenum_beyond_last_call");
    if (k == FE_MAXK) {
      vh_count("faultenum_scenario_complete");
    }
    case_nontrivial = 0;
    return;
  }
  vh_count("faultenum_fired");
  fd_fingerprint();
}


/* ------------------------------------------------------------------ C06/C07: retry profile */
static void gen_retry(vh_rng_t *rng)
{
  int i, n, r;
  gen_profile_flags = GP_ONLY_WIRE | GP_SIMPLE_NAMES | GP_NO_REENTRANT | GP_NO_CANCEL_IN_CB | GP_NO_WEIRD_TYPES;
  gen_default_simcfg(rng, 1);
  gen_default_appcfg(rng);
  gen_srv_base(4);
  for (i = 0; i < sim_nsrv; i++) {
    static const int moods[] = { MOOD_SILENT, MOOD_SILENT, MOOD_ERR, MOOD_FLAKY, MOOD_RESET, MOOD_TC, MOOD_FORMERR, MOOD_GOOD, MOOD_NEG, MOOD_BADCOOKIE };
    vsrv_t          *s       = &sim_srv[i];
    gen_srv_mood(s, moods[vh_below(rng, sizeof(moods) / sizeof(int))], rng);
    s->tcp_connect          = vh_chance(rng, 6, 10) ? (int)vh_below(rng, 2) : 2 + (int)vh_below(rng, 3);
    s->tcp_connect_delay_ms = (int)vh_below(rng, 40);
    s->delay_max_ms         = (int)vh_below(rng, 30);
    if (s->w_udp[SA_BADCOOKIE] < 50) {
      s->ck_mode = (int)vh_below(rng, 3);
    }
    memset(s->ck_secret, 0x60 + i, 8);
  }
  app_cfg.flags = 0;
  if (vh_chance(rng, 7, 10)) {
    app_cfg.flags |= ARES_FLAG_EDNS;
  }
  if (vh_chance(rng, 1, 6)) {
    app_cfg.flags |= ARES_FLAG_USEVC;
  }
  if (vh_chance(rng, 1, 6)) {
    app_cfg.flags |= ARES_FLAG_IGNTC;
  }
  if (vh_chance(rng, 1, 4)) {
    app_cfg.flags |= ARES_FLAG_STAYOPEN;
  }
  if (vh_chance(rng, 1, 5)) {
    app_cfg.flags |= ARES_FLAG_NOCHECKRESP;
  }
  if (vh_chance(rng, 1, 4)) {
    app_cfg.flags |= ARES_FLAG_DNS0x20;
  }
  r = (int)vh_below(rng, 100);
  app_cfg.tries = r < 55 ? vh_range(rng, 1, 4) : r < 80 ? vh_range(rng, 5, 20) : vh_range(rng, 21, 100);
  r = (int)vh_below(rng, 100);
  app_cfg.timeout_ms = r < 20 ? vh_range(rng, 1, 249) : r < 80 ? vh_range(rng, 250, 2000) : vh_range(rng, 2001, 10000);
  r = (int)vh_below(rng, 100);
  app_cfg.maxtimeout_ms   = r < 40 ? 0 : r < 60 ? vh_range(rng, 1, 300) : r < 85 ? vh_range(rng, 300, 5000) : vh_range(rng, 5000, 100000);
  app_cfg.rotate          = vh_chance(rng, 1, 3);
  app_cfg.udp_max_queries = vh_chance(rng, 1, 3) ? vh_range(rng, 1, 3) : 0;
  app_cfg.nsrv_cfg        = vh_range(rng, 1, 4);
  {
    int used[SIM_MAXSRV] = { 0 };
    n                    = 0;
    while (n < app_cfg.nsrv_cfg) {
      int sidx = (int)vh_below(rng, (uint32_t)sim_nsrv);
      if (!used[sidx]) {
        used[sidx]           = 1;
        app_cfg.srv_cfg[n++] = sidx;
      }
    }
  }
  app_cfg.use_server_state_cb = 1;
  if (vh_chance(rng, 1, 3)) {
    app_cfg.failover_set      = 1;
    app_cfg.failover_chance   = vh_chance(rng, 1, 2) ? 0 : vh_range(rng, 1, 3);
    app_cfg.failover_delay_ms = vh_range(rng, 0, 2000);
  }
  sim_nfaults = 0;
  if (vh_chance(rng, 1, 3)) {
    static const int errs[] = { ECONNREFUSED, ENETUNREACH, EIO, ECONNRESET, EHOSTUNREACH, EAFNOSUPPORT, EPIPE };
    n                       = vh_range(rng, 1, 3);
    for (i = 0; i < n; i++) {
      sim_faults[sim_nfaults].kind  = (int)vh_below(rng, SF__COUNT);
      sim_faults[sim_nfaults].nth   = vh_range(rng, 1, 12);
      sim_faults[sim_nfaults].err   = errs[vh_below(rng, sizeof(errs) / sizeof(int))];
      sim_faults[sim_nfaults].fired = 0;
      sim_nfaults++;
    }
  }
  sim_rand_fault_permille     = vh_chance(rng, 1, 5) ? 30 : 0;
  app_sched.max_steps         = 300000;
  app_sched.skip_chance_pm    = vh_chance(rng, 1, 4) ? 100 : 0;
  app_sched.timeouts_first_pm = vh_chance(rng, 1, 3) ? 300 : 0;
  app_sched.one_event_pm      = vh_chance(rng, 1, 3) ? 300 : 0;
  app_sched.idle_ms_after     = 50;
  n                           = vh_range(rng, 1, 3);
  for (i = 0; i < n; i++) {
    gen_add_token(rng, vh_chance(rng, 1, 2) ? 0 : (int64_t)vh_below(rng, 2000000));
  }
  if (vh_chance(rng, 1, 4)) {
    gen_add_action((int64_t)vh_below(rng, 3000000), AA_SET_SERVERS, 0, 0);
  }
  if (vh_chance(rng, 1, 8)) {
    /* resolver flip-flop: the one configured server is replaced again and again while requests wait on it;
     * every replacement re-sends them, and the retry budget (servers ever configured x tries) still holds */
    int     a = (int)vh_below(rng, (uint32_t)sim_nsrv), b = (int)vh_below(rng, (uint32_t)sim_nsrv), k, flips = vh_range(rng, 6, 30);
    int64_t t = (int64_t)vh_below(rng, 300000);
    if (b == a) {
      b = (a + 1) % sim_nsrv;
    }
    gen_srv_mood(&sim_srv[a], MOOD_SILENT, rng);
    gen_srv_mood(&sim_srv[b], MOOD_SILENT, rng);
    app_cfg.nsrv_cfg   = 1;
    app_cfg.srv_cfg[0] = a;
    app_cfg.tries      = vh_range(rng, 1, 3);
    app_cfg.timeout_ms = vh_range(rng, 2000, 6000);
    for (k = 0; k < flips; k++) {
      t += (int64_t)vh_range(rng, 5, 150) * 1000;
      gen_add_action(t, AA_SET_SERVERS, 0, 1 + ((k & 1) ? a : b));
    }
    sim_note("retry_server_flip_flop");
  }
  if (vh_chance(rng, 1, 10)) {
    gen_add_action((int64_t)vh_below(rng, 3000000), AA_CANCEL, 0, 0);
  }
  if (vh_chance(rng, 1, 6)) {
    /* several queries in flight to servers whose replies cause re-sends, repeat themselves or end the connection,
     * with equal delays: the replies are read in ONE pass (re-sends are deferred to the end of the pass) */
    int d = vh_range(rng, 1, 30), k;
    for (k = 0; k < sim_nsrv; k++) {
      gen_srv_mood(&sim_srv[k], vh_chance(rng, 2, 3) ? MOOD_RESEND_MIX : MOOD_GOOD, rng);
      sim_srv[k].delay_min_ms = sim_srv[k].delay_max_ms = d;
      sim_srv[k].dup_copies   = vh_chance(rng, 1, 2) ? vh_range(rng, 2, 4) : 0;
    }
    sim_no_subms_jitter      = 1;
    sim_cfg.nonblocking_flag = 1;
    sim_cfg.one_fd_per_call  = 0;
    app_cfg.rotate           = 0;
    app_cfg.flags           &= ~(ARES_FLAG_USEVC | ARES_FLAG_IGNTC);
    if (vh_chance(rng, 2, 3)) {
      app_cfg.udp_max_queries = 0;
    }
    for (k = 0; k < app_nact; k++) {
      if (app_act[k].kind == AA_START) {
        app_act[k].t = 0;
      }
    }
    while (app_ntok < 4 && app_ntok < app_max_tokens) {
      gen_add_token(rng, 0);
    }
    sim_note("retry_resend_causing_replies_in_one_read_pass");
  }
  if (vh_chance(rng, 1, 8)) {
    /* learned timeouts across the end of a metrics period: a fast server answers several requests shortly
     * before the virtual clock passes a minute / quarter-hour / hour / day boundary and a few more right after
     * it, so that base timeouts are taken from the current period, from the previous one (while the new one
     * has fewer than three samples) and from the configured value; floor and cap apply to all of them */
    static const int64_t per[] = { 60, 900, 3600, 86400 };
    int64_t              P     = per[vh_below(rng, 4)] * 1000000LL;
    int64_t              lead  = (int64_t)vh_range(rng, 300, 1500) * 1000;
    int64_t              t;
    int                  good  = (int)vh_below(rng, (uint32_t)sim_nsrv), k, nb = vh_range(rng, 3, 6), na = vh_range(rng, 2, 5);
    sim_now_us = (sim_now_us / P + 1) * P - lead + (int64_t)vh_below(rng, 1000);
    gen_srv_mood(&sim_srv[good], MOOD_GOOD, rng);
    sim_srv[good].delay_min_ms = 1;
    sim_srv[good].delay_max_ms = vh_range(rng, 1, 40);
    app_cfg.nsrv_cfg           = 1;
    app_cfg.srv_cfg[0]         = good;
    app_cfg.rotate             = 0;
    app_cfg.flags             &= ~(ARES_FLAG_USEVC);
    sim_nfaults                = 0;
    sim_rand_fault_permille    = 0;
    app_nact                   = 0;
    app_ntok                   = 0;
    for (k = 0, t = 0; k < nb; k++) {
      gen_add_token(rng, t);
      t += (lead - 120000) / nb;
    }
    for (k = 0, t = lead + (int64_t)vh_below(rng, 50000); k < na; k++) {
      gen_add_token(rng, t);
      t += (int64_t)vh_range(rng, 60, 400) * 1000;
    }
    sim_note("retry_metrics_period_rollover");
  }
}

static void retry_fingerprint(void)
{
  /* non-trivial: some query was transmitted at least twice; distinct: outcome sequence x config class */
  int      i, multi = 0;
  uint64_t h = VH_FNV_INIT;
  for (i = 0; i < net_nq; i++) {
    if (net_q[i].ntx >= 2) {
      multi = 1;
    }
  }
  case_nontrivial = multi;
  if (!multi) {
    return;
  }
  for (i = 0; i < sim_ntx && i < 64; i++) {
    h = vh_fnv_u64(h, (uint64_t)(sim_tx[i].action * 4 + sim_tx[i].tcp * 2 + sim_tx[i].has_opt));
  }
  h = vh_fnv_u64(h, (uint64_t)app_cfg.nsrv_cfg * 1000 + (uint64_t)(app_cfg.tries > 4 ? 5 : app_cfg.tries) * 10 +
                      (uint64_t)(app_cfg.maxtimeout_ms ? 1 : 0));
  vh_count("nontrivial_cases");
  vh_fp_add(h);
}


/* ------------------------------------------------------------------ C20: transport A/B differential */
typedef struct {
  int      ntok;
  int      status[APP_MAXTOK];
  int      timeouts[APP_MAXTOK];
  int      cbs[APP_MAXTOK];
  int      nser[APP_MAXTOK];
  uint64_t serhash[APP_MAXTOK];
  int      ntx;
  uint64_t txhash;     /* server-side view: sequence of (srv, tcp, qname, qtype, opt) */
  uint64_t txhash_tcp; /* TCP only, per connection order */
  int      ntx_tcp;
  int      bad_frames;
  int      splits, shorts, wblocks;
} xp_digest_t;

static xp_digest_t xp_a, xp_b;
static int         xp_bad_frames;
static int         xp_tc_followup_violations;

static void xp_frame_hook(int srvidx, int fd, int is_tcp, const uint8_t *msg, size_t len)
{
  sdns_query_t q;
  (void)srvidx;
  (void)fd;
  if (!is_tcp) {
    return;
  }
  sdns_decode_query(msg, len, &q);
  MON_EVAL("xport_frame_decodes");
  if (!q.ok || !q.wellformed || q.qr) {
    xp_bad_frames++;
    vh_violation("xport:undecodable-frame", "TCP frame of %zu bytes received by server %d is not a well-formed query (ok=%d wf=%d)", len,
                 srvidx, q.ok, q.wellformed);
  }
}

static void gen_transport(vh_rng_t *rng)
{
  int i, n;
  gen_profile_flags = GP_ONLY_WIRE | GP_SIMPLE_NAMES | GP_NO_REENTRANT | GP_NO_CANCEL_IN_CB | GP_NO_WEIRD_TYPES;
  gen_default_simcfg(rng, 0);
  gen_default_appcfg(rng);
  gen_srv_base(3);
  sim_no_subms_jitter = 1;
  sim_fifo_events     = 1;
  for (i = 0; i < sim_nsrv; i++) {
    vsrv_t *s = &sim_srv[i];
    int     m = (int)vh_below(rng, 10);
    memset(s->w_udp, 0, sizeof(s->w_udp));
    memset(s->w_tcp, 0, sizeof(s->w_tcp));
    /* deterministic behaviours only (single weight), so that runs A and B see the same servers */
    s->w_udp[m < 5 ? SA_TC : m < 7 ? SA_ANSWER : m < 8 ? SA_SILENT : m < 9 ? SA_ZEROLEN : SA_SERVFAIL] = 1;
    s->w_tcp[vh_chance(rng, 9, 10) ? SA_ANSWER : SA_NXDOMAIN]                                            = 1;
    s->delay_min_ms = s->delay_max_ms = vh_range(rng, 0, 20);
    s->tcp_connect                    = (int)vh_below(rng, 2);
    s->tcp_connect_delay_ms           = vh_range(rng, 0, 10);
    s->default_nrec                   = vh_chance(rng, 1, 3) ? vh_range(rng, 50, 3000) : vh_range(rng, 1, 20);
    s->default_ttl                    = 300;
    s->ck_mode                        = 1;
    memset(s->ck_secret, 0x70 + i, 8);
    s->tc_cut                         = vh_chance(rng, 1, 3);
  }
  app_cfg.flags = ARES_FLAG_EDNS;
  if (vh_chance(rng, 1, 2)) {
    app_cfg.flags |= ARES_FLAG_USEVC;
  }
  if (vh_chance(rng, 1, 6)) {
    app_cfg.flags |= ARES_FLAG_IGNTC;
  }
  if (vh_chance(rng, 1, 3)) {
    app_cfg.flags |= ARES_FLAG_STAYOPEN;
  }
  app_cfg.timeout_ms = 2000;
  app_cfg.tries      = vh_range(rng, 1, 3);
  app_cfg.nsrv_cfg   = vh_range(rng, 1, 2);
  app_cfg.srv_cfg[0] = (int)vh_below(rng, 3);
  app_cfg.srv_cfg[1] = (app_cfg.srv_cfg[0] + 1) % 3;
  sim_cfg.tfo_supported = vh_chance(rng, 1, 4);
  app_sched.max_steps     = 400000;
  app_sched.idle_ms_after = 30;
  /* the structural monitors have their own checks (C01/C07/C10); here they only cost time */
  mon_enable_idx = mon_enable_fd = mon_enable_timer = 0;
  /* batch of queries queued at the same instant (before the connection completes) */
  n = vh_range(rng, 1, 20);
  if (vh_chance(rng, 1, 6)) {
    /* servers that close the stream after the answer: whether the FIN sits right behind the last answer bytes
     * (run A) or arrives a little later (run B), the answer was sent in full.  One request only - with several
     * on one connection the time of the close decides which of them the server still reads */
    n = 1;
    for (i = 0; i < sim_nsrv; i++) {
      sim_srv[i].tcp_close_after_answer = 1;
    }
  }
  for (i = 0; i < n; i++) {
    int ti = gen_add_token(rng, vh_chance(rng, 4, 5) ? 0 : (int64_t)vh_below(rng, 50000));
    if (ti >= 0) {
      static const int ty[] = { 1, 28, 16 };
      app_tok[ti].qtype    = ty[vh_below(rng, 3)];
    }
  }
}

static void xp_capture(xp_digest_t *d)
{
  int i, k;
  memset(d, 0, sizeof(*d));
  d->ntok = app_ntok;
  for (i = 0; i < app_ntok; i++) {
    uint64_t h     = VH_FNV_INIT;
    d->status[i]   = app_tok[i].cb_status;
    d->timeouts[i] = app_tok[i].cb_timeouts;
    d->cbs[i]      = app_tok[i].cb_count;
    d->nser[i]     = app_tok[i].nserials;
    for (k = 0; k < app_tok[i].nserials; k++) {
      /* serial numbers depend on the order servers answered; compare record counts and TTLs instead */
      h = vh_fnv_u64(h, app_tok[i].ttls[k]);
    }
    d->serhash[i] = h;
  }
  d->ntx    = sim_ntx;
  d->txhash = VH_FNV_INIT;
  for (i = 0; i < sim_ntx; i++) {
    if (sim_tx[i].tcp) {
      d->ntx_tcp++;
      d->txhash_tcp = vh_fnv_str(d->txhash_tcp, sim_tx[i].qname);
      d->txhash_tcp = vh_fnv_u64(d->txhash_tcp, (uint64_t)sim_tx[i].qtype * 8 + (uint64_t)sim_tx[i].srv);
    }
  }
  d->bad_frames = xp_bad_frames;
}

/* TC over UDP => the same question next appears over TCP unless truncation is ignored */
static void xp_check_tc(const char *run)
{
  int i, j;
  for (i = 0; i < sim_ntx; i++) {
    if (sim_tx[i].tcp || sim_tx[i].action != SA_TC) {
      continue;
    }
    MON_EVAL("xport_tc_followup");
    if (app_cfg.flags & ARES_FLAG_IGNTC) {
      continue;
    }
    /* was the TC reply actually read by the library while the query was still on that socket?
     * only then must a TCP transmission follow; accept "query ended otherwise" (cancel etc. not generated here) */
    for (j = i + 1; j < sim_ntx; j++) {
      if (sim_tx[j].qid == sim_tx[i].qid && !strcmp(sim_tx[j].qname, sim_tx[i].qname) && sim_tx[j].qtype == sim_tx[i].qtype) {
        break;
      }
    }
    if (j >= sim_ntx) {
      /* the truncated reply arrives within 20 ms of a 2000 ms timeout on a socket the query is still on,
       * nothing cancels requests in this profile and TCP connects always succeed: the question must
       * reappear over TCP, whatever the remaining retry budget */
      vh_violation("xport:tc-not-upgraded", "run %s: query '%s' got a truncated UDP reply but was never sent over TCP", run, sim_tx[i].qname);
    } else if (!sim_tx[j].tcp) {
      /* next transmission of that query is UDP again: legitimate only if it timed out first (reply delayed
       * beyond the timeout) - replies here arrive within 20 ms of a 2000 ms timeout */
      vh_violation("xport:tc-not-upgraded", "run %s: query '%s' got a truncated UDP reply but was next sent over UDP again", run,
                   sim_tx[i].qname);
    }
  }
}

static void run_transport(vh_rng_t *rng)
{
  vh_rng_t r0 = *rng;
  int      i, nontrivial;
  /* run A: whole-message reads, full writes */
  gen_transport(rng);
  srv_frame_hook = xp_frame_hook;
  xp_bad_frames  = 0;
  run_generic(rng);
  xp_check_tc("A");
  xp_capture(&xp_a);
  /* run B: same case, chopped transport */
  case_begin();
  *rng = r0;
  gen_transport(rng);
  srv_frame_hook          = xp_frame_hook;
  xp_bad_frames           = 0;
  sim_cfg.tcp_seg_mode    = 1 + (int)vh_below(&seg_rng, 2);
  if (sim_cfg.tcp_seg_mode == 2) {
    /* one byte per read: keep responses small enough to finish within the step budget */
    for (i = 0; i < sim_nsrv; i++) {
      if (sim_srv[i].default_nrec > 40) {
        sim_cfg.tcp_seg_mode = 1;
      }
    }
  }
  sim_cfg.tcp_write_mode  = (int)vh_below(&seg_rng, 3);
  sim_cfg.wblock_permille = vh_chance(&seg_rng, 1, 2) ? 250 : 0;
  /* in run A a closing server's FIN sits right behind its last answer bytes; in run B it arrives a little later */
  sim_fin_delay_us = (int64_t)vh_range(&seg_rng, 1, 5) * 1000;
  sim_cfg.use_pending_write_cb = vh_chance(&seg_rng, 1, 2);
  /* a send on a stream socket whose handshake has not finished: "try again" in run A (Linux), a hard ENOTCONN in half of
   * the B runs (BSD, macOS, Windows) - the library never has a reason to make such a call */
  sim_cfg.bsd_send_on_connecting = vh_chance(&seg_rng, 1, 2);
  sim_cfg.tfo_late_handshake     = vh_chance(&seg_rng, 1, 2);
  /* NOTE: how the application polls (one descriptor per call, blocking-socket mode) is deliberately NOT varied
   * between A and B: reporting readiness late lets timers fire first, which legitimately changes outcomes and
   * has nothing to do with how the transport chops bytes. */
  /* B also has every server put a zero-length datagram on the wire together with each UDP reply
   * (harmless by the statement), so that empty datagram and answer are queued in the same read pass */
  sim_zerolen_with_udp_reply = vh_chance(&seg_rng, 1, 2);
  run_generic(rng);
  xp_check_tc("B");
  xp_capture(&xp_b);
  xp_b.splits = (int)0;
  /* compare */
  MON_EVAL("xport_ab_compare");
  if (xp_a.ntok != xp_b.ntok) {
    vh_violation("xport:ab-differs:requests", "A had %d requests, B %d", xp_a.ntok, xp_b.ntok);
  }
  for (i = 0; i < xp_a.ntok && i < xp_b.ntok; i++) {
    if (xp_a.status[i] != xp_b.status[i] || xp_a.cbs[i] != xp_b.cbs[i]) {
      vh_violation("xport:ab-differs:status", "request %d ('%s'): unsegmented run status %d (%d callbacks), chopped run status %d (%d callbacks)",
                   i, app_tok[i].name, xp_a.status[i], xp_a.cbs[i], xp_b.status[i], xp_b.cbs[i]);
      break;
    }
    if (xp_a.nser[i] != xp_b.nser[i] || xp_a.serhash[i] != xp_b.serhash[i]) {
      vh_violation("xport:ab-differs:payload", "request %d ('%s'): unsegmented run delivered %d records, chopped run %d (or TTLs differ)", i,
                   app_tok[i].name, xp_a.nser[i], xp_b.nser[i]);
      break;
    }
    if (xp_a.timeouts[i] != xp_b.timeouts[i]) {
      vh_violation("xport:ab-differs:timeouts", "request %d: timeouts %d vs %d", i, xp_a.timeouts[i], xp_b.timeouts[i]);
      break;
    }
  }
  if (xp_a.ntx_tcp != xp_b.ntx_tcp || xp_a.txhash_tcp != xp_b.txhash_tcp) {
    vh_violation("xport:ab-differs:server-stream", "servers received %d TCP messages in the unsegmented run, %d in the chopped run (or order/content differs)",
                 xp_a.ntx_tcp, xp_b.ntx_tcp);
  }
  nontrivial = 0;
  {
    /* was B actually chopped? counters are global; use the per-case deltas kept by sim_note via callcounts */
    nontrivial = (xp_b.ntx_tcp > 0) && (sim_cfg.tcp_seg_mode || sim_cfg.tcp_write_mode || sim_cfg.wblock_permille);
  }
  case_nontrivial = nontrivial;
  if (nontrivial) {
    uint64_t h = VH_FNV_INIT;
    h          = vh_fnv_u64(h, (uint64_t)sim_cfg.tcp_seg_mode * 100 + (uint64_t)sim_cfg.tcp_write_mode * 10 + (uint64_t)(sim_cfg.wblock_permille ? 1 : 0));
    h          = vh_fnv_u64(h, (uint64_t)(app_ntok > 10 ? 11 : app_ntok));
    h          = vh_fnv_u64(h, (uint64_t)sim_cfg.use_pending_write_cb * 4 + (uint64_t)sim_cfg.one_fd_per_call * 2 + (uint64_t)sim_cfg.tfo_supported);
    h          = vh_fnv_u64(h, (uint64_t)(xp_b.ntx_tcp > 8 ? 9 : xp_b.ntx_tcp));
    vh_count("nontrivial_cases");
    vh_fp_add(h);
  }
}

#include "sim_search.h"
#include "sim_cache.h"
#include "sim_prov.h"
#include "sim_addr.h"
#include "sim_health.h"
#include "sim_cookie.h"

#include "sim_oom.h"

static int profile_run(const char *profile, vh_rng_t *rng, uint64_t idx)
{
  (void)idx;
  if (!strcmp(profile, "hostile") || !strcmp(profile, "hostile-cancelcb") || !strcmp(profile, "hostile-setsrvcb")) {
    /* ares_cancel() from inside a completion callback is confined to its own sub-workload:
     * it reaches known, listed defects so easily that it would starve everything else; likewise
     * ares_set_servers*() from inside a completion callback */
    gen_profile_flags = strcmp(profile, "hostile") == 0 ? GP_NO_CANCEL_IN_CB : strcmp(profile, "hostile-setsrvcb") == 0 ? (GP_NO_CANCEL_IN_CB | GP_SETSRV_IN_CB) : 0;
    app_setsrv_in_cb_profile = (gen_profile_flags & GP_SETSRV_IN_CB) != 0;
    gen_hostile(rng);
    run_generic(rng);
    app_setsrv_in_cb_profile = 0;
    hostile_fingerprint();
    return 1;
  }
  if (!strcmp(profile, "hostile-slowcb")) {
    /* completion callbacks that take a second or two before they start their follow-up requests, answers with
     * lifetimes of a second or two, the query cache on: what the callback was handed must stay valid until it returns */
    int i;
    gen_profile_flags = GP_NO_CANCEL_IN_CB;
    gen_hostile(rng);
    app_slow_cb            = 1;
    app_cfg.qcache_max_ttl = 3600;
    for (i = 0; i < sim_nsrv; i++) {
      sim_srv[i].default_ttl = 1 + vh_below(rng, 3);
    }
    mon_enable_timer = 0; /* virtual time moving inside a callback is outside what the timer monitors model */
    run_generic(rng);
    app_slow_cb = 0;
    hostile_fingerprint();
    return 1;
  }
  if (!strcmp(profile, "cookie")) {
    run_cookie(rng);
    return 1;
  }
  if (!strcmp(profile, "failover")) {
    run_failover(rng);
    return 1;
  }
  if (!strcmp(profile, "addr")) {
    run_addr(rng);
    return 1;
  }
  if (!strcmp(profile, "prov")) {
    run_prov(rng);
    return 1;
  }
  if (!strcmp(profile, "cache")) {
    run_cache(rng);
    return 1;
  }
  if (!strcmp(profile, "search")) {
    run_search(rng);
    return 1;
  }
  if (!strcmp(profile, "transport")) {
    run_transport(rng);
    return 1;
  }
  if (!strcmp(profile, "retry")) {
    gen_retry(rng);
    run_generic(rng);
    retry_fingerprint();
    return 1;
  }
  if (!strcmp(profile, "sockets")) {
    gen_sockets(rng);
    run_generic(rng);
    fd_fingerprint();
    return 1;
  }
  if (!strcmp(profile, "oom")) {
    run_oom(idx);
    return 1;
  }
  if (!strcmp(profile, "faultenum")) {
    run_faultenum(idx);
    return 1;
  }
  if (!strcmp(profile, "sendcut")) {
    /* enumeration: scenario variant x "every send from the k-th on fails" */
    int k = (int)(idx % 14) + 1;
    static const int errs[] = { ENETUNREACH, ECONNREFUSED, EPERM };
    gen_scenario_kv(30, (int)(idx / 14));
    memset(&sim_faults[0], 0, sizeof(sim_faults[0]));
    sim_nfaults          = 1;
    sim_faults[0].kind   = SF_SENDTO;
    sim_faults[0].nth    = k;
    sim_faults[0].err    = errs[(idx / 14) % 3];
    sim_faults[0].sticky = 1;
    run_generic(NULL);
    if (sim_faults_fired == 0) {
      case_nontrivial = 0;
      vh_count("sendcut_beyond_last_send");
    } else {
      vh_count("sendcut_fired");
    }
    fd_fingerprint();
    return 1;
  }
  return 0;
}
