/* sim_core.h - virtual clock, virtual socket layer, virtual servers, event queue.
 * Everything the library sees of the outside world goes through here and is logged. */

/* ------------------------------------------------------------------ clock */
static int64_t sim_now_us; /* virtual time */

void __wrap_ares_tvnow(ares_timeval_t *now);
void __wrap_ares_tvnow(ares_timeval_t *now)
{
  now->sec  = (ares_int64_t)(sim_now_us / 1000000);
  now->usec = (unsigned int)(sim_now_us % 1000000);
}

/* ------------------------------------------------------------------ limits */
#define SIM_MAXFD    6000
#define SIM_FD_BASE  5
#define SIM_MAXSRV   8
#define SIM_MAXEV    4096
#define SIM_MAXPKT   8192
#define SIM_MAXTX    16384

/* ------------------------------------------------------------------ packets */
typedef struct sim_pkt {
  struct sim_pkt *next;
  uint8_t        *data;
  size_t          len;
  size_t          off;     /* TCP: bytes already consumed */
  int             from_srv; /* UDP: index of server whose address is reported; -1 = foreign address */
  uint32_t        serial;  /* provenance serial (0 = none) */
} sim_pkt_t;

/* registry of every response packet the simulator ever injected */
typedef struct {
  uint32_t serial;
  int      srv;         /* server that produced it */
  int      fd;          /* socket it was delivered to */
  uint16_t qid;         /* id it carries */
  int      forged;      /* 1 = adversarial/stale by construction */
  uint32_t deviation;   /* bit set of deviations (forged) */
  int      action;      /* server action that produced it */
  int      rcode;
  int      tc;
  int64_t  t_inject;
  int      acceptable;  /* classified at injection time (prov monitor) */
  int      txidx;       /* transmission it answers (-1 if none) */
  int64_t  t_read;      /* when the library read it from the socket (0 = never) */
  int      srv_cookie;  /* carries a server cookie */
  int      epoch_read;  /* configuration epoch at that time */
} sim_pktinfo_t;

static sim_pktinfo_t sim_pktinfo[SIM_MAXPKT];
static uint32_t      sim_npkt; /* serial = index+1 */

/* ------------------------------------------------------------------ sockets */
enum { VS_UNUSED = 0, VS_OPEN = 1, VS_CLOSED = 2 };
enum { VC_NONE = 0, VC_PENDING = 1, VC_ESTABLISHED = 2, VC_FAILED = 3 };

typedef struct {
  int        state;
  int        is_tcp;
  int        family;
  int        srv;     /* destination server index, -1 unknown/unconnected */
  int        conn;    /* VC_* (TCP) */
  int        tfo;     /* fast open accepted on this socket */
  int        tfo_first_pending; /* connect() was called in TFO mode, first sendto carries address */
  sim_pkt_t *rx_head, *rx_tail;
  int        eof_pending;   /* TCP: after rx drained, read returns 0 */
  int        reset_pending; /* next read/write fails with ECONNRESET */
  uint8_t   *tx;            /* TCP bytes received by the server, not yet framed */
  size_t     txlen, txcap;
  int        ann_r, ann_w;  /* last announced interest */
  int        ever_ann;      /* sock_state_cb ever called with interest */
  int        zero_ann;      /* number of (0,0) announcements */
  int        cb_after_close;
  int        nqueries;      /* queries transmitted on this socket */
  int        wblock_budget; /* number of upcoming write calls that return EWOULDBLOCK */
  int        opened_seq;
  int        ever_connected;
  int        sent_any;
  int        probe;         /* opened outside a DNS connection (sortaddrinfo probe socket) */
  uint8_t    local[16];     /* local address, bound when the socket is created */
} vsock_t;

static vsock_t vsock[SIM_MAXFD];
static int     sim_next_fd;
static int     sim_open_count;

/* ------------------------------------------------------------------ servers */
enum {
  SA_ANSWER = 0,
  SA_NXDOMAIN,
  SA_NODATA,      /* NOERROR, no answers, with SOA */
  SA_NODATA_NOSOA,
  SA_SERVFAIL,
  SA_REFUSED,
  SA_NOTIMP,
  SA_FORMERR_NOOPT,
  SA_FORMERR_OPT,
  SA_TC,
  SA_BADCOOKIE,
  SA_SILENT,
  SA_GARBAGE,
  SA_ZEROLEN,
  SA_DUP,         /* answer twice */
  SA_WRONGID,
  SA_WRONGNAME,
  SA_WRONGTYPE,
  SA_WRONGCLASS,
  SA_WRONGCASE,
  SA_WRONGADDR,   /* correct answer but from another source address (UDP) */
  SA_CLOSE,       /* TCP: close connection without answering */
  SA_RESET,       /* connection reset */
  SA_NXDOMAIN_NOSOA,
  SA_NOQUESTION,  /* response without question section */
  SA__COUNT
};
static const char *const sa_names[SA__COUNT] = {
  "answer", "nxdomain", "nodata", "nodata-nosoa", "servfail", "refused", "notimp", "formerr-noopt", "formerr-opt",
  "tc", "badcookie", "silent", "garbage", "zerolen", "dup", "wrongid", "wrongname", "wrongtype", "wrongclass",
  "wrongcase", "wrongaddr", "close", "reset", "nxdomain-nosoa", "noquestion"
};

/* per-name scripted outcome (search / addr / cache profiles) */
typedef struct {
  char     name[300]; /* lowercase qname; "*" matches everything */
  int      qtype;     /* 0 = any */
  int      action;
  int      nrec;      /* number of address/answer records */
  uint32_t ttl;
  int      cname_chain; /* number of CNAMEs before the data */
  int      other_family; /* also include records of the other family */
  int      uses;      /* times matched */
  int      max_uses;  /* 0 = unlimited; else falls through after that many */
} sim_rule_t;

#define SIM_MAXRULES 64

typedef struct {
  int        family;
  uint8_t    addr[16];
  uint16_t   udp_port, tcp_port;
  /* random behaviour: weights per action for UDP and TCP */
  uint16_t   w_udp[SA__COUNT];
  uint16_t   w_tcp[SA__COUNT];
  int        delay_min_ms, delay_max_ms;
  int        tcp_connect; /* 0 immediate success, 1 async success, 2 refused immediately, 3 refused later, 4 never completes */
  int        tcp_connect_delay_ms;
  int        tcp_close_after_answer; /* the server closes the stream right after each batch of answers it sent */
  int      dup_copies;             /* >1: every UDP reply that makes the client re-send is put on the wire this many times */
  int      tc_over_tcp;            /* the server truncates over TCP too (its answer does not fit in 64 KiB, or it is broken) */
  int      tc_cut;                 /* its truncated UDP answers really are cut short: the datagram ends inside the last record */
  int        udp_answers_tc_over_tcp; /* when a TC was sent, TCP gets a normal answer */
  /* cookies (server side) */
  int        ck_mode;      /* 0 none, 1 valid, 2.. see cookie profile */
  uint8_t    ck_secret[8];
  int        ck_counter;
  int        nrx;          /* queries received */
  int        nrx_udp, nrx_tcp;
  sim_rule_t rules[SIM_MAXRULES];
  int        nrules;
  int        default_nrec;
  uint32_t   default_ttl;
} vsrv_t;

static vsrv_t sim_srv[SIM_MAXSRV];
static int    sim_nsrv;

/* ------------------------------------------------------------------ transmissions log (what the network saw) */
typedef struct {
  int64_t  t;
  int      srv;
  int      fd;
  int      tcp;
  uint16_t qid;
  uint16_t qtype, qclass;
  int      has_opt, has_cookie;
  uint8_t  cookie[40];
  size_t   cookie_len;
  int      rd, cd, opcode;
  char     qname[300];      /* lowercase */
  char     qname_case[300];
  int      action;          /* what the server did with it */
  int      wellformed;
  int64_t  lib_timeout_after_us; /* ares_timeout() right after the API call returned (-1 unknown) */
  int      garbage_says_tc;      /* the unparseable reply to it has this id and the QR and TC bits set: "ask again over TCP" */
  uint8_t  local_addr[16];
  int      probe_like;
  int      rule_idx;
  int      lib_try;   /* the library's try count of the query at this transmission (-1 unknown) */
  int      moved_by_list_change; /* its query was re-sent because the server list was replaced */
} sim_tx_t;

static sim_tx_t sim_tx[SIM_MAXTX];
static int      sim_ntx;

/* ------------------------------------------------------------------ event queue */
enum { EV_DELIVER = 1, EV_CONNECT_DONE, EV_APP, EV_SRV_CLOSE, EV_SRV_RESET, EV_WRITABLE };
typedef struct {
  int64_t    t;
  uint64_t   seq; /* insertion order, ties broken by scheduler choice */
  int        kind;
  int        fd;
  int        arg;
  sim_pkt_t *pkt;
  int        live;
} sim_ev_t;

static sim_ev_t sim_ev[SIM_MAXEV];
static int      sim_nev;
static uint64_t sim_evseq;

/* ------------------------------------------------------------------ fault plan */
enum {
  SF_SOCKET = 0,
  SF_SETSOCKOPT,
  SF_BIND,
  SF_CONNECT,
  SF_GETSOCKNAME,
  SF_SENDTO,
  SF_RECVFROM,
  SF_CLOSE,
  SF_SOCKCFG_CB,
  SF_SOCKCREATE_CB,
  SF__COUNT
};
static const char *const sf_names[SF__COUNT] = { "socket", "setsockopt", "bind", "connect", "getsockname",
                                                 "sendto", "recvfrom", "close", "sockcfg_cb", "sockcreate_cb" };

typedef struct {
  int kind;     /* SF_* */
  int nth;      /* fail the nth call of that kind (1-based); 0 = the nth call of ANY kind (global index) */
  int err;      /* errno to report */
  int fired;
  int sticky;   /* once the nth call of that kind failed, every later call of that kind fails too (the network went away) */
} sim_fault_t;

#define SIM_MAXFAULT 16
static sim_fault_t sim_faults[SIM_MAXFAULT];
static int         sim_nfaults;
static int         sim_callcount[SF__COUNT];
static int         sim_callcount_all;
static int         sim_faults_fired;
static int         sim_rand_fault_permille; /* random failure probability per call */

/* ------------------------------------------------------------------ per-case simulator config */
typedef struct {
  int      nonblocking_flag; /* advertise ARES_SOCKFUNC_FLAG_NONBLOCKING */
  int      tfo_supported;    /* asetsockopt(TFO) succeeds */
  int      have_getsockname;
  int      have_bind;
  int      udp_partial;      /* never */
  int      tcp_seg_mode;     /* 0 whole, 1 random chunks, 2 one byte */
  int      tcp_write_mode;   /* 0 full, 1 random partial, 2 one byte */
  int      wblock_permille;  /* chance that a TCP write returns EWOULDBLOCK first */
  int      udp_wblock_permille; /* chance that a UDP send returns EWOULDBLOCK (socket buffer full) */
  int      tfo_late_handshake;     /* a fast-open socket stays "connecting" for the server's connect delay after its first write */
  int      bsd_send_on_connecting; /* send() on a stream socket whose handshake is not finished fails with ENOTCONN (BSD, macOS, Windows) instead of EAGAIN (Linux) */
  int      fail_downgrade_resend; /* errno for the first datagram that re-sends a query whose last transmission was answered FORMERR without OPT (0: none) */
  uint8_t  local4[4];
  uint8_t  local6[16];
  int      legacy_poll;      /* 0 sock_state_cb + ares_process_fds, 1 ares_fds+ares_process, 2 ares_getsock+ares_process_fd */
  int      one_fd_per_call;  /* report one ready fd per process call */
  int      use_pending_write_cb;
  int      use_sock_cfg_cb, use_sock_create_cb;
} sim_cfg_t;
static sim_cfg_t sim_cfg;

static unsigned app_srv_ever_mask; /* servers ever configured in this case */
static int      ck_epoch;  /* configuration epoch (server-list changes, completed reinits): cache monitor */
static int      app_dnsrec_flags_from_aiflags; /* cache profile: RD/CD of raw dnsrec requests come from ai_flags */
static void (*sim_read_hook)(int fd, uint32_t serial); /* library read a packet from a socket */
static uint8_t  prov_addr_override[SIM_MAXPKT][16];
static uint8_t  prov_addr_override_set[SIM_MAXPKT];
static vh_rng_t sim_rng;   /* scheduler / network randomness */
static vh_rng_t seg_rng;   /* transport chopping only (so that A/B runs draw the same sim_rng sequence) */
static int      sim_no_subms_jitter; /* fixed server delays (A/B differential) */
static int64_t  sim_fin_delay_us; /* how long after the last answer bytes the server's close becomes visible */
static uint32_t sim_error_soa_ttl;       /* >0: error replies (FORMERR, SERVFAIL, NOTIMP, REFUSED) carry an authority SOA with this TTL */
static uint32_t sim_answer_auth_soa_ttl; /* >0: positive answers also carry an authority SOA with this (small) TTL */
static uint32_t sim_neg_ns_ttl;          /* >0: NXDOMAIN / no-data replies carry an authority NS record with this TTL beside the SOA */
static int      sim_answer_foreign_class_every; /* addr profile: every n-th address record is class CH */
static int      sim_answer_dup_every;           /* addr profile: every n-th address record is sent twice */
static int      sim_fifo_events; /* fire simultaneous events in insertion order */
static int      sim_zerolen_with_udp_reply; /* servers add an empty datagram next to every UDP reply */
static int      sim_destroyed; /* channel destroyed */
static int      sim_in_destroy;

/* set of (socket op, transport, outcome class) tuples seen in this case: the C10 fingerprint */
static uint64_t sim_fd_shape[4];
static void     sim_shape(int op, int tcp, int outcome)
{
  unsigned bit = (unsigned)(op * 16 + tcp * 8 + outcome) & 255u;
  sim_fd_shape[bit >> 6] |= 1ULL << (bit & 63);
}

/* counters of what the monitors observed */
static void sim_note(const char *what)
{
  vh_count(what);
}

/* ------------------------------------------------------------------ helpers */
static void sim_pkt_free(sim_pkt_t *p)
{
  if (p) {
    free(p->data);
    free(p);
  }
}

static sim_pkt_t *sim_pkt_new(const uint8_t *data, size_t len, int from_srv, uint32_t serial)
{
  sim_pkt_t *p = (sim_pkt_t *)calloc(1, sizeof(*p));
  p->data      = (uint8_t *)malloc(len ? len : 1);
  if (len) {
    memcpy(p->data, data, len);
  }
  p->len      = len;
  p->from_srv = from_srv;
  p->serial   = serial;
  return p;
}

static int sim_ev_add(int64_t t, int kind, int fd, int arg, sim_pkt_t *pkt)
{
  int i;
  for (i = 0; i < SIM_MAXEV; i++) {
    if (!sim_ev[i].live) {
      sim_ev[i].t    = t;
      sim_ev[i].seq  = sim_evseq++;
      sim_ev[i].kind = kind;
      sim_ev[i].fd   = fd;
      sim_ev[i].arg  = arg;
      sim_ev[i].pkt  = pkt;
      sim_ev[i].live = 1;
      if (i >= sim_nev) {
        sim_nev = i + 1;
      }
      return i;
    }
  }
  sim_pkt_free(pkt);
  return -1;
}

static int64_t sim_ev_next_time(void)
{
  int     i;
  int64_t best = -1;
  for (i = 0; i < sim_nev; i++) {
    if (sim_ev[i].live && (best < 0 || sim_ev[i].t < best)) {
      best = sim_ev[i].t;
    }
  }
  return best;
}

static void sim_addr_to_sockaddr(int family, const uint8_t *addr, uint16_t port, struct sockaddr_storage *ss,
                                 ares_socklen_t *len)
{
  memset(ss, 0, sizeof(*ss));
  if (family == AF_INET) {
    struct sockaddr_in *sin = (struct sockaddr_in *)ss;
    sin->sin_family         = AF_INET;
    sin->sin_port           = htons(port);
    memcpy(&sin->sin_addr, addr, 4);
    *len = sizeof(*sin);
  } else {
    struct sockaddr_in6 *sin6 = (struct sockaddr_in6 *)ss;
    sin6->sin6_family         = AF_INET6;
    sin6->sin6_port           = htons(port);
    memcpy(&sin6->sin6_addr, addr, 16);
    *len = sizeof(*sin6);
  }
}

static int sim_find_srv(const struct sockaddr *sa, int is_tcp)
{
  int i;
  for (i = 0; i < sim_nsrv; i++) {
    if (sa->sa_family != sim_srv[i].family) {
      continue;
    }
    if (sa->sa_family == AF_INET) {
      const struct sockaddr_in *sin = (const struct sockaddr_in *)sa;
      if (memcmp(&sin->sin_addr, sim_srv[i].addr, 4) == 0 &&
          ntohs(sin->sin_port) == (is_tcp ? sim_srv[i].tcp_port : sim_srv[i].udp_port)) {
        return i;
      }
    } else {
      const struct sockaddr_in6 *sin6 = (const struct sockaddr_in6 *)sa;
      if (memcmp(&sin6->sin6_addr, sim_srv[i].addr, 16) == 0 &&
          ntohs(sin6->sin6_port) == (is_tcp ? sim_srv[i].tcp_port : sim_srv[i].udp_port)) {
        return i;
      }
    }
  }
  return -1;
}

/* decide whether call of `kind` fails now; returns errno or 0 */
static int sim_fault_tcp_hint; /* set by callers: transport of the socket the call is about */
static int sim_fault(int kind)
{
  int i;
  sim_callcount[kind]++;
  sim_callcount_all++;
  sim_shape(kind, sim_fault_tcp_hint, 0);
  for (i = 0; i < sim_nfaults; i++) {
    sim_fault_t *f = &sim_faults[i];
    if (f->fired && f->sticky && f->kind == kind) {
      sim_faults_fired++;
      sim_note("fault_fired_sticky");
      return f->err ? f->err : EIO;
    }
    if (f->fired) {
      continue;
    }
    if ((f->nth > 0 && f->kind == kind && sim_callcount[kind] == f->nth) ||
        (f->nth < 0 && sim_callcount_all == -f->nth)) {
      f->fired = 1;
      sim_faults_fired++;
      case_ev(1, (unsigned)kind);
      sim_shape(kind, sim_fault_tcp_hint, 1 + (f->err % 6));
      {
        char nm[64];
        snprintf(nm, sizeof(nm), "fault_fired_%s", sf_names[kind]);
        sim_note(nm);
      }
      return f->err ? f->err : EIO;
    }
  }
  if (sim_rand_fault_permille && (int)vh_below(&sim_rng, 1000) < sim_rand_fault_permille) {
    static const int errs[] = { ECONNREFUSED, ENETUNREACH, EIO, ECONNRESET, EHOSTUNREACH, ENOBUFS, EACCES };
    char             nm[64];
    sim_faults_fired++;
    case_ev(1, (unsigned)kind);
    snprintf(nm, sizeof(nm), "fault_fired_%s", sf_names[kind]);
    sim_note(nm);
    return errs[vh_below(&sim_rng, sizeof(errs) / sizeof(errs[0]))];
  }
  return 0;
}

/* forward decls implemented in sim_srv.h / sim_mon.h */
static void srv_receive(int srvidx, int fd, int is_tcp, const uint8_t *msg, size_t len);
static void mon_fd_use(int fd, const char *op);
static void mon_fd_closed(int fd);

/* ------------------------------------------------------------------ socket functions handed to c-ares */
static ares_socket_t vs_socket(int domain, int type, int protocol, void *ud)
{
  int e;
  int fd;
  (void)protocol;
  (void)ud;
  sim_note("call_socket");
  if (sim_destroyed) {
    vh_violation("fd:call-after-destroy:socket", "socket() after ares_destroy returned");
  }
  sim_fault_tcp_hint = (type == SOCK_STREAM);
  e = sim_fault(SF_SOCKET);
  if (e) {
    errno = e;
    return ARES_SOCKET_BAD;
  }
  if (sim_next_fd >= SIM_MAXFD - 1) {
    errno = EMFILE;
    return ARES_SOCKET_BAD;
  }
  fd = sim_next_fd++;
  memset(&vsock[fd], 0, sizeof(vsock[fd]));
  vsock[fd].state      = VS_OPEN;
  vsock[fd].is_tcp     = (type == SOCK_STREAM);
  vsock[fd].family     = domain;
  memcpy(vsock[fd].local, domain == AF_INET ? sim_cfg.local4 : sim_cfg.local6, domain == AF_INET ? 4 : 16);
  vsock[fd].srv        = -1;
  vsock[fd].opened_seq = sim_callcount_all;
  sim_open_count++;
  vh_trace("socket() -> %d %s %s", fd, vsock[fd].is_tcp ? "tcp" : "udp", domain == AF_INET ? "v4" : "v6");
  return (ares_socket_t)fd;
}

static int vs_valid(ares_socket_t s, const char *op)
{
  if (s < SIM_FD_BASE || s >= SIM_MAXFD || vsock[s].state == VS_UNUSED) {
    char key[96];
    snprintf(key, sizeof(key), "fd:never-issued:%s", op);
    vh_violation(key, "%s on descriptor %d that was never issued", op, (int)s);
    return 0;
  }
  if (vsock[s].state == VS_CLOSED) {
    char key[96];
    snprintf(key, sizeof(key), "fd:use-after-close:%s", op);
    vh_violation(key, "%s on descriptor %d after it was closed", op, (int)s);
    return 0;
  }
  return 1;
}

static int vs_close(ares_socket_t s, void *ud)
{
  int e;
  (void)ud;
  sim_note("call_close");
  if (s < SIM_FD_BASE || s >= SIM_MAXFD || vsock[s].state == VS_UNUSED) {
    vh_violation("fd:never-issued:close", "close on descriptor %d that was never issued", (int)s);
    errno = EBADF;
    return -1;
  }
  if (vsock[s].state == VS_CLOSED) {
    vh_violation("fd:double-close", "descriptor %d closed twice", (int)s);
    errno = EBADF;
    return -1;
  }
  /* a failing close() still releases the descriptor (POSIX leaves it unspecified; Linux releases) */
  sim_fault_tcp_hint = vsock[s].is_tcp;
  e = sim_fault(SF_CLOSE);
  vsock[s].state = VS_CLOSED;
  sim_open_count--;
  mon_fd_closed((int)s);
  {
    sim_pkt_t *p = vsock[s].rx_head;
    while (p) {
      sim_pkt_t *n = p->next;
      sim_pkt_free(p);
      p = n;
    }
    vsock[s].rx_head = vsock[s].rx_tail = NULL;
    free(vsock[s].tx);
    vsock[s].tx = NULL;
  }
  vh_trace("close(%d)", (int)s);
  if (e) {
    errno = e;
    return -1;
  }
  return 0;
}

static int vs_setsockopt(ares_socket_t s, ares_socket_opt_t opt, const void *val, ares_socklen_t vlen, void *ud)
{
  int e;
  (void)val;
  (void)vlen;
  (void)ud;
  sim_note("call_setsockopt");
  if (!vs_valid(s, "setsockopt")) {
    errno = EBADF;
    return -1;
  }
  if (opt == ARES_SOCKET_OPT_TCP_FASTOPEN) {
    if (!sim_cfg.tfo_supported) {
      errno = ENOSYS;
      return -1;
    }
    sim_fault_tcp_hint = vsock[s].is_tcp;
  e = sim_fault(SF_SETSOCKOPT);
    if (e) {
      errno = e;
      return -1;
    }
    vsock[s].tfo = 1;
    return 0;
  }
  sim_fault_tcp_hint = vsock[s].is_tcp;
  e = sim_fault(SF_SETSOCKOPT);
  if (e) {
    errno = e;
    return -1;
  }
  return 0;
}

static int vs_bind(ares_socket_t s, unsigned int flags, const struct sockaddr *sa, socklen_t salen, void *ud)
{
  int e;
  (void)flags;
  (void)sa;
  (void)salen;
  (void)ud;
  sim_note("call_bind");
  if (!vs_valid(s, "bind")) {
    errno = EBADF;
    return -1;
  }
  sim_fault_tcp_hint = vsock[s].is_tcp;
  e = sim_fault(SF_BIND);
  if (e) {
    errno = e;
    return -1;
  }
  return 0;
}

static void (*sim_connect_hook)(int fd, int srv, int is_tcp);

static int vs_connect(ares_socket_t s, const struct sockaddr *sa, ares_socklen_t salen, unsigned int flags, void *ud)
{
  int      e;
  int      si;
  vsock_t *v;
  (void)salen;
  (void)ud;
  sim_note("call_connect");
  if (!vs_valid(s, "connect")) {
    errno = EBADF;
    return -1;
  }
  v = &vsock[s];
  sim_fault_tcp_hint = vsock[s].is_tcp;
  e = sim_fault(SF_CONNECT);
  if (e) {
    errno = e;
    return -1;
  }
  si     = sim_find_srv(sa, v->is_tcp);
  v->srv = si;
  vh_trace("connect(%d) -> srv %d flags %u", (int)s, si, flags);
  if (sim_connect_hook) {
    sim_connect_hook((int)s, si, v->is_tcp);
  }
  if (!v->is_tcp) {
    v->conn = VC_ESTABLISHED;
    return 0;
  }
  if ((flags & ARES_SOCKET_CONN_TCP_FASTOPEN) && v->tfo) {
    /* nothing happens on the wire until the first sendto */
    v->tfo_first_pending = 1;
    v->conn              = VC_NONE;
    return 0;
  }
  if (si < 0) {
    errno = ENETUNREACH;
    return -1;
  }
  switch (sim_srv[si].tcp_connect) {
    case 0:
      v->conn           = VC_ESTABLISHED;
      v->ever_connected = 1;
      return 0;
    case 2:
      errno = ECONNREFUSED;
      return -1;
    case 3:
      v->conn = VC_PENDING;
      sim_ev_add(sim_now_us + (int64_t)sim_srv[si].tcp_connect_delay_ms * 1000, EV_CONNECT_DONE, (int)s, 0, NULL);
      errno = EINPROGRESS;
      return -1;
    case 4:
      v->conn = VC_PENDING;
      errno   = EINPROGRESS;
      return -1;
    default:
      v->conn = VC_PENDING;
      sim_ev_add(sim_now_us + (int64_t)sim_srv[si].tcp_connect_delay_ms * 1000, EV_CONNECT_DONE, (int)s, 1, NULL);
      errno = EINPROGRESS;
      return -1;
  }
}

static int vs_getsockname(ares_socket_t s, struct sockaddr *sa, ares_socklen_t *len, void *ud)
{
  int                     e;
  struct sockaddr_storage ss;
  ares_socklen_t          l;
  (void)ud;
  sim_note("call_getsockname");
  if (!vs_valid(s, "getsockname")) {
    errno = EBADF;
    return -1;
  }
  sim_fault_tcp_hint = vsock[s].is_tcp;
  e = sim_fault(SF_GETSOCKNAME);
  if (e) {
    errno = e;
    return -1;
  }
  if (vsock[s].is_tcp && vsock[s].tfo_first_pending) {
    /* not yet bound: the OS cannot tell */
    errno = ENOTCONN;
    return -1;
  }
  sim_addr_to_sockaddr(vsock[s].family, vsock[s].local, 40000, &ss, &l);
  if (*len < l) {
    errno = EINVAL;
    return -1;
  }
  memcpy(sa, &ss, l);
  *len = l;
  return 0;
}

/* frame out whole DNS messages from the TCP byte stream a server has received */
static void vs_tcp_stream_in(int fd, const uint8_t *data, size_t n)
{
  vsock_t *v = &vsock[fd];
  if (v->txlen + n > v->txcap) {
    v->txcap = (v->txlen + n) * 2 + 64;
    v->tx    = (uint8_t *)realloc(v->tx, v->txcap);
  }
  memcpy(v->tx + v->txlen, data, n);
  v->txlen += n;
  while (v->txlen >= 2 && v->state == VS_OPEN) {
    size_t mlen = ((size_t)v->tx[0] << 8) | v->tx[1];
    if (v->txlen < 2 + mlen) {
      break;
    }
    {
      uint8_t *msg = (uint8_t *)malloc(mlen ? mlen : 1);
      memcpy(msg, v->tx + 2, mlen);
      memmove(v->tx, v->tx + 2 + mlen, v->txlen - 2 - mlen);
      v->txlen -= 2 + mlen;
      srv_receive(v->srv, fd, 1, msg, mlen);
      free(msg);
    }
  }
}

static ares_ssize_t vs_sendto(ares_socket_t s, const void *buf, size_t len, int flags, const struct sockaddr *sa,
                              ares_socklen_t salen, void *ud)
{
  int      e, tfo_first_late = 0;
  vsock_t *v;
  (void)flags;
  (void)salen;
  (void)ud;
  sim_note("call_sendto");
  if (!vs_valid(s, "sendto")) {
    errno = EBADF;
    return -1;
  }
  v = &vsock[s];
  sim_fault_tcp_hint = vsock[s].is_tcp;
  e = sim_fault(SF_SENDTO);
  if (e) {
    errno = e;
    return -1;
  }
  if (v->reset_pending) {
    errno = ECONNRESET;
    return -1;
  }
  if (!v->is_tcp) {
    if (v->srv < 0 && sa != NULL) {
      v->srv = sim_find_srv(sa, 0);
    }
    if (sim_cfg.fail_downgrade_resend && len >= 2) {
      /* the re-send that is directed at one server (EDNS downgrade) fails on the spot, once per case */
      unsigned qid = ((unsigned)((const uint8_t *)buf)[0] << 8) | ((const uint8_t *)buf)[1];
      int      i;
      for (i = sim_ntx - 1; i >= 0; i--) {
        if (sim_tx[i].qid == qid) {
          if (sim_tx[i].action == SA_FORMERR_NOOPT && sim_tx[i].has_opt && !sim_tx[i].tcp) {
            int err                       = sim_cfg.fail_downgrade_resend;
            sim_cfg.fail_downgrade_resend = 0;
            sim_faults_fired++;
            sim_note("fault_fired_downgrade_resend");
            errno = err;
            return -1;
          }
          break;
        }
      }
    }
    if (sim_cfg.udp_wblock_permille && (int)vh_below(&seg_rng, 1000) < sim_cfg.udp_wblock_permille) {
      sim_note("udp_send_wouldblock");
      errno = EWOULDBLOCK;
      return -1;
    }
    v->sent_any = 1;
    if (v->srv >= 0) {
      srv_receive(v->srv, (int)s, 0, (const uint8_t *)buf, len);
    } else {
      sim_note("udp_to_unknown_server");
    }
    return (ares_ssize_t)len;
  }
  /* TCP */
  if (v->tfo_first_pending) {
    if (sa == NULL) {
      /* fast-open first write must carry the destination */
      vh_violation("fd:tfo-first-write-no-address", "first write on fast-open socket %d had no address", (int)s);
      errno = ENOTCONN;
      return -1;
    }
    v->tfo_first_pending = 0;
    v->srv               = sim_find_srv(sa, 1);
    if (v->srv < 0 || sim_srv[v->srv].tcp_connect == 2 || sim_srv[v->srv].tcp_connect == 3) {
      errno = ECONNREFUSED;
      return -1;
    }
    if (sim_srv[v->srv].tcp_connect == 4) {
      /* SYN (with data) sent, never answered: data is queued by the kernel */
      v->conn = VC_PENDING;
      v->sent_any = 1;
      return (ares_ssize_t)len; /* kernel accepted the data; it will never arrive */
    }
    v->conn           = VC_ESTABLISHED;
    v->ever_connected = 1;
    /* connection completes "later": library learns by write event */
    if (sim_cfg.tfo_late_handshake && sim_srv[v->srv].tcp_connect_delay_ms > 0) {
      tfo_first_late = 1; /* the data of this first write is taken; the socket then counts as connecting for a while */
    }
  } else if (v->conn != VC_ESTABLISHED) {
    if (v->conn == VC_FAILED) {
      errno = ECONNREFUSED;
      return -1;
    }
    if (v->conn == VC_PENDING && sim_cfg.bsd_send_on_connecting) {
      sim_note("tcp_send_on_connecting_socket_enotconn");
    }
    errno = (v->conn == VC_PENDING && !sim_cfg.bsd_send_on_connecting) ? EAGAIN : ENOTCONN;
    return -1;
  }
  if (v->wblock_budget > 0) {
    v->wblock_budget--;
    sim_note("tcp_write_wouldblock");
    errno = EWOULDBLOCK;
    return -1;
  }
  if (sim_cfg.wblock_permille && (int)vh_below(&seg_rng, 1000) < sim_cfg.wblock_permille) {
    sim_note("tcp_write_wouldblock");
    errno = EWOULDBLOCK;
    return -1;
  }
  {
    size_t n = len;
    if (sim_cfg.tcp_write_mode == 1 && len > 1) {
      n = 1 + vh_below(&seg_rng, (uint32_t)len);
    } else if (sim_cfg.tcp_write_mode == 2) {
      n = 1;
    }
    if (n < len) {
      sim_note("tcp_short_write");
    }
    v->sent_any = 1;
    vs_tcp_stream_in((int)s, (const uint8_t *)buf, n);
    if (tfo_first_late && vsock[s].state == VS_OPEN) {
      vsock[s].conn = VC_PENDING;
      sim_ev_add(sim_now_us + (int64_t)sim_srv[vsock[s].srv].tcp_connect_delay_ms * 1000, EV_CONNECT_DONE, (int)s, 1, NULL);
      sim_note("tcp_fastopen_handshake_completes_later");
    }
    return (ares_ssize_t)n;
  }
}

static ares_ssize_t vs_recvfrom(ares_socket_t s, void *buf, size_t len, int flags, struct sockaddr *from,
                                ares_socklen_t *fromlen, void *ud)
{
  int        e;
  vsock_t   *v;
  sim_pkt_t *p;
  (void)flags;
  (void)ud;
  sim_note("call_recvfrom");
  if (!vs_valid(s, "recvfrom")) {
    errno = EBADF;
    return -1;
  }
  v = &vsock[s];
  sim_fault_tcp_hint = vsock[s].is_tcp;
  e = sim_fault(SF_RECVFROM);
  if (e) {
    errno = e;
    return -1;
  }
  p = v->rx_head;
  if (p == NULL) {
    if (v->reset_pending) {
      v->reset_pending = 0;
      errno            = ECONNRESET;
      return -1;
    }
    if (v->is_tcp && v->conn == VC_FAILED) {
      errno = ECONNREFUSED;
      return -1;
    }
    if (v->is_tcp && v->eof_pending) {
      return 0;
    }
    errno = EWOULDBLOCK;
    return -1;
  }
  if (!v->is_tcp) {
    size_t n = p->len < len ? p->len : len;
    memcpy(buf, p->data, n);
    if (from != NULL && fromlen != NULL) {
      struct sockaddr_storage ss;
      ares_socklen_t          l;
      if (p->serial && p->serial <= SIM_MAXPKT && prov_addr_override_set[p->serial - 1]) {
        sim_addr_to_sockaddr(v->family, prov_addr_override[p->serial - 1], 53, &ss, &l);
      } else if (p->from_srv >= 0) {
        sim_addr_to_sockaddr(sim_srv[p->from_srv].family, sim_srv[p->from_srv].addr, sim_srv[p->from_srv].udp_port, &ss,
                             &l);
      } else {
        uint8_t a[16] = { 192, 0, 2, 66, 0, 0, 0, 0, 0, 0, 0, 0, 0, 0, 0, 66 };
        if (v->family == AF_INET6) {
          a[0] = 0x20;
          a[1] = 0x01;
          a[2] = 0x0d;
          a[3] = 0xb8;
        }
        sim_addr_to_sockaddr(v->family, a, 53, &ss, &l);
      }
      if (*fromlen >= l) {
        memcpy(from, &ss, l);
        *fromlen = l;
      }
    }
    v->rx_head = p->next;
    if (v->rx_head == NULL) {
      v->rx_tail = NULL;
    }
    vh_trace("recvfrom(%d) udp %zu bytes serial %u", (int)s, n, p->serial);
    if (p->serial && p->serial <= sim_npkt && sim_pktinfo[p->serial - 1].t_read == 0) {
      sim_pktinfo[p->serial - 1].t_read     = sim_now_us;
      sim_pktinfo[p->serial - 1].epoch_read = ck_epoch;
      if (sim_read_hook) {
        sim_read_hook((int)s, p->serial);
      }
    }
    sim_pkt_free(p);
    return (ares_ssize_t)n;
  }
  /* TCP: hand out bytes according to the segmentation mode */
  if (v->conn == VC_PENDING && v->ever_connected) {
    /* fast-open socket whose handshake was still counted as outstanding: data from the server means it is over */
    v->conn = VC_ESTABLISHED;
  }
  {
    size_t avail = p->len - p->off;
    size_t n     = avail < len ? avail : len;
    if (sim_cfg.tcp_seg_mode == 1 && n > 1) {
      n = 1 + vh_below(&seg_rng, (uint32_t)n);
    } else if (sim_cfg.tcp_seg_mode == 2) {
      n = 1;
    }
    if (n < avail) {
      sim_note("tcp_split_read");
    }
    memcpy(buf, p->data + p->off, n);
    p->off += n;
    if (p->off >= p->len) {
      if (p->serial && p->serial <= sim_npkt && sim_pktinfo[p->serial - 1].t_read == 0) {
        sim_pktinfo[p->serial - 1].t_read     = sim_now_us;
        sim_pktinfo[p->serial - 1].epoch_read = ck_epoch;
        if (sim_read_hook) {
          sim_read_hook((int)s, p->serial);
        }
      }
      v->rx_head = p->next;
      if (v->rx_head == NULL) {
        v->rx_tail = NULL;
      }
      sim_pkt_free(p);
    }
    return (ares_ssize_t)n;
  }
}

static unsigned int vs_if_nametoindex(const char *ifname, void *ud)
{
  (void)ud;
  if (ifname && (!strcmp(ifname, "lo") || !strcmp(ifname, "eth0"))) {
    return !strcmp(ifname, "lo") ? 1 : 2;
  }
  return 0;
}

static const char *vs_if_indextoname(unsigned int idx, char *buf, size_t len, void *ud)
{
  (void)ud;
  if (idx == 1 || idx == 2) {
    snprintf(buf, len, "%s", idx == 1 ? "lo" : "eth0");
    return buf;
  }
  return NULL;
}

/* deliver a packet into a socket's receive queue (called when an EV_DELIVER fires) */
static void sim_deliver(int fd, sim_pkt_t *p)
{
  vsock_t *v = &vsock[fd];
  if (v->state != VS_OPEN) {
    sim_note("pkt_dropped_socket_closed");
    sim_pkt_free(p);
    return;
  }
  p->next = NULL;
  if (v->rx_tail) {
    v->rx_tail->next = p;
  } else {
    v->rx_head = p;
  }
  v->rx_tail = p;
  sim_note("pkt_delivered_to_socket");
}

static int vs_readable(int fd)
{
  vsock_t *v = &vsock[fd];
  if (v->state != VS_OPEN) {
    return 0;
  }
  return v->rx_head != NULL || v->reset_pending || (v->is_tcp && (v->eof_pending || v->conn == VC_FAILED));
}

static int vs_writable(int fd)
{
  vsock_t *v = &vsock[fd];
  if (v->state != VS_OPEN) {
    return 0;
  }
  if (!v->is_tcp) {
    return 1;
  }
  return v->conn == VC_ESTABLISHED || v->conn == VC_FAILED || v->reset_pending;
}
