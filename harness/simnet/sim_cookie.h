/* sim_cookie.h - C17: DNS cookies follow the RFC 7873 client state machine.
 *
 * Trace specification checked online over what the virtual server sees (COOKIE option of every
 * transmitted query, transport, source address) and what it answers (cookie sent back, whether the
 * answer was delivered).  The model below is written from RFC 7873/9018 and the statement, not from
 * ares_cookie.c. */

enum { CKB_VALID = 0, CKB_ROTATING, CKB_NONE, CKB_WRONG_CLIENT, CKB_SHORT, CKB_LONG, CKB_BADCOOKIE_ONCE, CKB_BADCOOKIE_ALWAYS, CKB_TINY, CKB__COUNT };
static const char *const ckb_names[CKB__COUNT] = { "valid", "rotating", "none", "wrong-client", "short", "long", "badcookie-once", "badcookie-always", "tiny-server-part" };

typedef struct {
  int      behaviour;
  int      rot;
  /* client model */
  int      have_client;
  uint8_t  client[8];
  int64_t  t_client_first;     /* first time this client part was seen on the wire */
  uint8_t  local_at_client[16];
  int      have_server;
  uint8_t  server[32];
  size_t   server_len;
  int      proven;             /* a valid server cookie for the current client part was read */
  int64_t  t_first_bad;        /* first cookie-less/invalid response read since the last valid one (-1 none) */
  int64_t  t_unproven_nocookie; /* cookie-less response read while unproven (-1 none) */
  int      abandoned;          /* a cookie-less response was accepted while unproven: the client gave up on this client part
                                * (it sends no cookies for a while) and may come back with a fresh one */
  int      badcookie_sent_for_qid;
} ck_srv_t;

static ck_srv_t cks[SIM_MAXSRV];
static int      ck_state_changes;
static uint32_t ck_timers_crossed;
static uint8_t  ck_resp_kind[SIM_MAXPKT];   /* serial-1 -> 1 valid, 2 no cookie, 3 wrong client, 4 short, 5 long, 6 badcookie(valid cookie), 7 malformed length 9-15 */
static uint8_t  ck_resp_server[SIM_MAXPKT][32];
static uint8_t  ck_resp_server_len[SIM_MAXPKT];
static uint8_t  ck_resp_client[SIM_MAXPKT][8];
static uint8_t  ck_resp_formerr[SIM_MAXPKT];

typedef struct {
  uint16_t qid;
  char     qname[64];
  int      n_badcookie; /* valid BADCOOKIE replies read for this query */
  int      last_tx_tcp;
  int      resent_after_last_badcookie;
  unsigned qtype;
  int      edns_fallback_ok; /* an acceptable FORMERR reply was read for this query: it may be repeated without EDNS */
  int      probe; /* copy (new id) of a question sent at the same instant: a server probe, which is never retried */
} ck_q_t;
static ck_q_t ck_q[256];
static int    ck_nq;

static ck_q_t *ck_find_q(uint16_t qid, const char *qname, int create)
{
  int i;
  for (i = ck_nq - 1; i >= 0; i--) {
    if (ck_q[i].qid == qid && !strcmp(ck_q[i].qname, qname)) {
      return &ck_q[i];
    }
  }
  if (!create || ck_nq >= 256) {
    return NULL;
  }
  memset(&ck_q[ck_nq], 0, sizeof(ck_q[0]));
  ck_q[ck_nq].qid = qid;
  snprintf(ck_q[ck_nq].qname, sizeof(ck_q[0].qname), "%.60s", qname);
  return &ck_q[ck_nq++];
}

static void ck_set_behaviour(int srv, int b)
{
  if (srv >= 0 && srv < SIM_MAXSRV && b >= 0 && b < CKB__COUNT) {
    cks[srv].behaviour = b;
  }
}

/* the server side: which cookie (if any) goes into the response */
static int ck_server_hook(int srvidx, const sdns_query_t *q, int is_tcp, int *action, uint8_t *ck, size_t *cklen)
{
  ck_srv_t *c = &cks[srvidx];
  uint64_t  h;
  *cklen = 0;
  if (is_tcp || !q->has_opt) {
    return 0;
  }
  if (!q->has_cookie || q->cookie_len < 8) {
    return 0; /* no client cookie: a server sends none back */
  }
  h = vh_fnv(VH_FNV_INIT, sim_srv[srvidx].ck_secret, 8);
  h = vh_fnv(h, q->cookie, 8);
  switch (c->behaviour) {
    case CKB_VALID:
      memcpy(ck, q->cookie, 8);
      memcpy(ck + 8, &h, 8);
      *cklen = 16;
      break;
    case CKB_ROTATING:
      h = vh_fnv_u64(h, (uint64_t)++c->rot);
      memcpy(ck, q->cookie, 8);
      memcpy(ck + 8, &h, 8);
      *cklen = 16 + (size_t)(c->rot % 3) * 8; /* 16, 24 or 32 octets */
      memset(ck + 16, 0x77, 16);
      break;
    case CKB_NONE:
      break;
    case CKB_WRONG_CLIENT:
      memcpy(ck, q->cookie, 8);
      ck[5] ^= 0x5a;
      memcpy(ck + 8, &h, 8);
      *cklen = 16;
      break;
    case CKB_SHORT:
      memcpy(ck, q->cookie, 8);
      *cklen = 8; /* client part only: no server cookie */
      break;
    case CKB_TINY:
      /* right client part followed by 1-7 octets: not a COOKIE option RFC 7873 knows (a server cookie has 8-32 octets) */
      memcpy(ck, q->cookie, 8);
      memset(ck + 8, 0x44, 8);
      *cklen = 9 + (size_t)((h >> 8) % 7);
      break;
    case CKB_LONG:
      memcpy(ck, q->cookie, 8);
      memset(ck + 8, 0x66, 32);
      *cklen = 40; /* maximum legal length is 8+32 = 40; use it as the valid boundary */
      break;
    case CKB_BADCOOKIE_ONCE:
      memcpy(ck, q->cookie, 8);
      memcpy(ck + 8, &h, 8);
      *cklen = 16;
      if (c->badcookie_sent_for_qid != (int)q->id + 1 && (*action == SA_ANSWER)) {
        c->badcookie_sent_for_qid = (int)q->id + 1;
        *action                   = SA_BADCOOKIE;
      }
      break;
    case CKB_BADCOOKIE_ALWAYS:
      memcpy(ck, q->cookie, 8);
      memcpy(ck + 8, &h, 8);
      *cklen = 16;
      if (*action == SA_ANSWER) {
        *action = SA_BADCOOKIE;
      }
      break;
    default:
      break;
  }
  return 0;
}

static uint8_t ck_delivered_while_proven[SIM_MAXPKT]; /* read while proven and inside the regression period */

/* response built: classify the cookie it carries */
static void ck_classify(uint32_t serial, const sdns_query_t *q, const uint8_t *ck, size_t cklen, int action)
{
  int kind;
  if (serial == 0 || serial > SIM_MAXPKT) {
    return;
  }
  if (!q->has_cookie || q->cookie_len < 8) {
    kind = 0;
  } else if (cklen == 0) {
    kind = 2;
  } else if (memcmp(ck, q->cookie, 8) != 0) {
    kind = 3;
  } else if (cklen == 8) {
    kind = 4;
  } else if (cklen < 16) {
    kind = 7; /* malformed: carries no server cookie a client could store or echo */
  } else {
    kind = (action == SA_BADCOOKIE) ? 6 : 1;
    memcpy(ck_resp_client[serial - 1], ck, 8);
    ck_resp_server_len[serial - 1] = (uint8_t)(cklen - 8);
    memcpy(ck_resp_server[serial - 1], ck + 8, cklen - 8);
  }
  ck_resp_kind[serial - 1]    = (uint8_t)kind;
  ck_resp_formerr[serial - 1] = (action == SA_FORMERR_NOOPT || action == SA_FORMERR_OPT);
}

/* every transmission: R1-R4, regression reset, BADCOOKIE resend rules */
static void mon_cookie_tx(sim_tx_t *tx, const sdns_query_t *q, const uint8_t *msg, size_t len)
{
  ck_srv_t *c;
  ck_q_t   *cq;
  int64_t   now = sim_now_us;
  mon_net_tx(tx, q, msg, len);
  if (!tx->wellformed || tx->srv < 0) {
    return;
  }
  c  = &cks[tx->srv];
  cq = ck_find_q(tx->qid, tx->qname, 1);
  if (getenv("CK_DEBUG") && app_channel) {
    ares_slist_node_t *n;
    for (n = ares_slist_node_first(app_channel->servers); n; n = ares_slist_node_next(n)) {
      ares_server_t *sv = ares_slist_node_val(n);
      vh_trace("  [dbg] server idx %zu cookie state %d client %02x%02x.. client_ts %lld.%06u unsupported_ts %lld.%06u server_len %zu", sv->idx, (int)sv->cookie.state,
               sv->cookie.client[0], sv->cookie.client[1], (long long)sv->cookie.client_ts.sec, sv->cookie.client_ts.usec,
               (long long)sv->cookie.unsupported_ts.sec, sv->cookie.unsupported_ts.usec, sv->cookie.server_len);
    }
    vh_trace("  [dbg] tx cookie %02x%02x.. model client %02x%02x..", tx->cookie[0], tx->cookie[1], c->client[0], c->client[1]);
  }
  if (cq) {
    int i;
    /* request names are unique in this profile: a second id for the same question is a server probe */
    cq->qtype = tx->qtype;
    for (i = 0; i < ck_nq && !cq->probe; i++) {
      if (&ck_q[i] != cq && ck_q[i].qid != tx->qid && ck_q[i].qtype == tx->qtype && !strcmp(ck_q[i].qname, tx->qname) && !ck_q[i].probe) {
        cq->probe = 1;
        sim_note("cookie_probe_query_seen");
      }
    }
    if (cq->n_badcookie > 0) {
      cq->resent_after_last_badcookie = 1;
      MON_EVAL("cookie_r6_resend_transport");
      if (cq->n_badcookie >= 3 && !tx->tcp) {
        vh_violation("cookie:badcookie-resend-over-udp", "query '%s' got %d bad-cookie replies and was sent over UDP again", tx->qname,
                     cq->n_badcookie);
      }
    }
    cq->last_tx_tcp = tx->tcp;
  }
  if (tx->tcp) {
    MON_EVAL("cookie_r1_no_cookie_over_tcp");
    if (tx->has_cookie) {
      vh_violation("cookie:over-tcp", "query '%s' carries a COOKIE option over TCP", tx->qname);
    }
    return;
  }
  if (!tx->has_opt) {
    /* R8: EDNS (and with it the cookie) is only given up after a FORMERR reply that was not to be ignored */
    MON_EVAL("cookie_r8_edns_dropped_only_after_accepted_formerr");
    if ((app_cfg.flags & ARES_FLAG_EDNS) && cq && !cq->probe && !cq->edns_fallback_ok) {
      vh_violation("cookie:edns-dropped-after-ignored-reply",
                   "query '%s' to server %d is repeated without EDNS/cookie although no acceptable FORMERR reply was read for it (proven=%d)", tx->qname, tx->srv,
                   c->proven);
    }
    return;
  }
  if (!tx->has_cookie) {
    MON_EVAL("cookie_r2_presence");
    if (!(c->t_unproven_nocookie >= 0 && now - c->t_unproven_nocookie <= 300 * 1000000LL)) {
      vh_violation("cookie:missing", "UDP+EDNS query '%s' to server %d carries no cookie although the server did not answer without one in the last 300 s (proven=%d)",
                   tx->qname, tx->srv, c->proven);
    }
    return;
  }
  if (tx->cookie_len != 8 && (tx->cookie_len < 16 || tx->cookie_len > 40)) {
    vh_violation("cookie:bad-length-sent", "query '%s' carries a COOKIE option of %zu octets", tx->qname, tx->cookie_len);
    return;
  }
  /* regression bound: once 120 s have passed since the first cookie-less/invalid reply of a proven server,
   * the client must have started over (new client cookie, no server part) */
  if (c->proven && c->t_first_bad >= 0 && now - c->t_first_bad >= 120 * 1000000LL && c->have_client) {
    MON_EVAL("cookie_r5_regression_reset");
    ck_timers_crossed |= 1;
    if (memcmp(tx->cookie, c->client, 8) == 0) {
      vh_violation("cookie:regression-not-reset",
                   "server %d stopped returning valid cookies %lld s ago but query '%s' still uses the old client cookie (the regression period is 120 s)",
                   tx->srv, (long long)((now - c->t_first_bad) / 1000000), tx->qname);
      return;
    }
  }
  /* R3: client part constant unless a permitted reset happened */
  if (c->have_client && memcmp(tx->cookie, c->client, 8) != 0) {
    int permitted = 0, start_over = 0;
    MON_EVAL("cookie_r3_client_constant");
    if (memcmp(tx->local_addr, c->local_at_client, 16) != 0) {
      permitted = 1; /* source address changed */
      ck_state_changes++;
    }
    if (now - c->t_client_first >= 86400LL * 1000000LL) {
      permitted = 1; /* daily rotation */
      ck_timers_crossed |= 4;
    }
    if (c->proven && c->t_first_bad >= 0 && now - c->t_first_bad >= 120 * 1000000LL) {
      permitted = start_over = 1; /* regression reset */
    }
    if (c->t_unproven_nocookie >= 0 && now - c->t_unproven_nocookie >= 120 * 1000000LL) {
      permitted = start_over = 1; /* unsupported period over (implementation uses 120 s, plan says 300 s: both allowed) */
      ck_timers_crossed |= 2;
    }
    if (c->abandoned) {
      permitted = 1;
    }
    if (!permitted) {
      vh_violation("cookie:client-changed", "client cookie sent to server %d changed without a permitted reason (same source address, age %lld s, proven=%d)",
                   tx->srv, (long long)((now - c->t_client_first) / 1000000), c->proven);
      return;
    }
    /* a new client cookie starts a new learning cycle */
    memcpy(c->client, tx->cookie, 8);
    c->t_client_first = now;
    memcpy(c->local_at_client, tx->local_addr, 16);
    c->have_server = 0;
    c->abandoned   = 0;
    if (start_over) {
      /* support has to be proven again; a rotation (address change, daily) keeps what is known about the server */
      c->proven              = 0;
      c->t_first_bad         = -1;
      c->t_unproven_nocookie = -1;
    }
    ck_state_changes++;
  } else if (!c->have_client) {
    memcpy(c->client, tx->cookie, 8);
    c->have_client    = 1;
    c->t_client_first = now;
    memcpy(c->local_at_client, tx->local_addr, 16);
    c->t_unproven_nocookie = -1;
  }
  /* R4: server part echoed = latest valid one for this client part, else absent */
  MON_EVAL("cookie_r4_server_part");
  if (c->have_server) {
    if (tx->cookie_len != 8 + c->server_len || memcmp(tx->cookie + 8, c->server, c->server_len) != 0) {
      vh_violation("cookie:server-part", "query '%s' to server %d echoes a server cookie of %zu octets that is not the latest one received (%zu octets)",
                   tx->qname, tx->srv, tx->cookie_len - 8, c->server_len);
    }
  } else if (tx->cookie_len != 8) {
    vh_violation("cookie:server-part-invented", "query '%s' to server %d echoes a %zu-octet server cookie but none was received for this client cookie",
                 tx->qname, tx->srv, tx->cookie_len - 8);
  }
}

/* the library read a response: update the client model (what an RFC client would learn from it) */
static void ck_on_read(int fd, uint32_t serial)
{
  const sim_pktinfo_t *pi;
  ck_srv_t            *c;
  const sim_tx_t      *tx;
  int                  kind;
  ares_query_t        *lq;
  (void)fd;
  if (serial == 0 || serial > sim_npkt) {
    return;
  }
  pi = &sim_pktinfo[serial - 1];
  if (pi->srv < 0 || pi->txidx < 0 || vsock[pi->fd].is_tcp) {
    return;
  }
  tx = &sim_tx[pi->txidx];
  vh_trace("cookie: read serial %u srv %d kind %d (req had cookie %d) proven %d t_first_bad %lld t_unproven %lld", serial, pi->srv,
           ck_resp_kind[serial - 1], tx->has_cookie, cks[pi->srv].proven, (long long)cks[pi->srv].t_first_bad,
           (long long)cks[pi->srv].t_unproven_nocookie);
  c    = &cks[pi->srv];
  kind = ck_resp_kind[serial - 1];
  /* is it a response to a query that is still live on this socket?  (late replies teach nothing) */
  lq = app_channel ? (ares_query_t *)ares_htable_szvp_get_direct(app_channel->queries_by_qid, pi->qid) : NULL;
  if (lq == NULL || lq->conn == NULL || lq->conn->fd != pi->fd) {
    vh_trace("cookie: (late reply, ignored by the model)");
    return;
  }
  if (ck_resp_formerr[serial - 1]) {
    int must_ignore = 0;
    if (tx->has_cookie) {
      if (kind == 3) {
        must_ignore = 1;
      }
      if ((kind == 2 || kind == 4 || kind == 7) && c->proven && (c->t_first_bad < 0 || sim_now_us - c->t_first_bad < 120 * 1000000LL) &&
          memcmp(tx->cookie, c->client, 8) == 0) {
        must_ignore = 1;
      }
    }
    if (!must_ignore) {
      ck_q_t *cq = ck_find_q(pi->qid, tx->qname, 0);
      if (cq) {
        cq->edns_fallback_ok = 1;
      }
    }
    sim_note(must_ignore ? "cookie_formerr_to_ignore" : "cookie_formerr_acceptable");
  }
  if (!tx->has_cookie) {
    return; /* request carried no cookie: cookies play no role for this exchange */
  }
  if (kind == 1 || kind == 6) {
    /* valid client part + server cookie */
    if (c->have_client && memcmp(ck_resp_client[serial - 1], c->client, 8) == 0) {
      if (!c->proven) {
        ck_state_changes++;
      }
      c->proven      = 1;
      c->have_server = 1;
      c->server_len  = ck_resp_server_len[serial - 1];
      memcpy(c->server, ck_resp_server[serial - 1], c->server_len);
      c->t_first_bad         = -1;
      c->t_unproven_nocookie = -1;
    }
    if (kind == 6) {
      ck_q_t *cq = ck_find_q(pi->qid, tx->qname, 0);
      if (cq) {
        cq->n_badcookie++;
        cq->resent_after_last_badcookie = 0;
      }
    }
    return;
  }
  /* no cookie / client-only / wrong client part */
  if (kind == 3) {
    return; /* wrong client part: spoof, teaches nothing */
  }
  if (kind == 7) {
    /* malformed option: to be discarded (RFC 7873 5.3) whatever the state; it says nothing about the server having
     * stopped supporting cookies, so it does not start the regression clock */
    if (c->proven && memcmp(tx->cookie, c->client, 8) == 0) {
      ck_delivered_while_proven[serial - 1] = 1;
    }
    return;
  }
  if (c->proven) {
    if (c->t_first_bad < 0) {
      c->t_first_bad = sim_now_us;
      ck_state_changes++;
    }
    if (sim_now_us - c->t_first_bad < 120 * 1000000LL && memcmp(tx->cookie, c->client, 8) == 0) {
      /* R5: must be ignored */
      ck_delivered_while_proven[serial - 1] = 1;
    }
  } else if (kind == 2 || kind == 4) {
    if (c->t_unproven_nocookie < 0) {
      ck_state_changes++;
    }
    c->t_unproven_nocookie = sim_now_us;
    c->abandoned           = 1;
    /* an RFC client stops sending cookies for a while and starts over afterwards */
  }
}

/* delivery rules: R5 and R7 */
static void mon_cookie_tok_done(app_tok_t *t)
{
  int i;
  if (t->cb_count != 1) {
    return;
  }
  for (i = 0; i < t->nserials && i < 1; i++) {
    uint32_t             s = t->serials[i];
    const sim_pktinfo_t *pi;
    int                  kind;
    if (s == 0 || s > sim_npkt) {
      continue;
    }
    pi   = &sim_pktinfo[s - 1];
    kind = ck_resp_kind[s - 1];
    if (pi->txidx < 0 || !sim_tx[pi->txidx].has_cookie || sim_tx[pi->txidx].tcp) {
      continue;
    }
    MON_EVAL("cookie_r5_delivery");
    if (kind == 3) {
      vh_violation("cookie:wrong-client-delivered", "request '%s' was answered by a response whose cookie has the wrong client part", t->name);
    }
    if (kind == 5) {
      /* 40 octets is the maximum legal length: deliverable */
      continue;
    }
    if ((kind == 2 || kind == 4 || kind == 7) && ck_delivered_while_proven[s - 1]) {
      vh_violation("cookie:cookieless-delivered-while-proven",
                   "request '%s' was answered by a response without a server cookie although server %d had proven cookie support and the regression period had not passed",
                   t->name, pi->srv);
    }
  }
}

static void gen_cookie(vh_rng_t *rng)
{
  static const int64_t gaps_s[] = { 0, 1, 1, 5, 29, 30, 31, 59, 61, 90, 119, 120, 121, 150, 299, 300, 301, 3600, 43200, 86399, 86400, 86401 };
  int                  i, n, nsrv;
  int64_t              t = 0;
  gen_profile_flags = GP_ONLY_WIRE | GP_SIMPLE_NAMES | GP_NO_REENTRANT | GP_NO_CANCEL_IN_CB | GP_NO_WEIRD_TYPES;
  gen_default_simcfg(rng, 0);
  gen_default_appcfg(rng);
  nsrv = vh_chance(rng, 3, 4) ? 1 : 2;
  gen_srv_base(2);
  sim_cfg.nonblocking_flag = 0;
  sim_cfg.one_fd_per_call  = 1;
  sim_fifo_events          = 1;
  /* socket functions without the optional getsockname member (and the older ares_set_socket_functions() has none):
   * the library cannot learn its source address, which is no reason for the cookie to change */
  sim_cfg.have_getsockname = vh_chance(rng, 5, 6);
  for (i = 0; i < sim_nsrv; i++) {
    vsrv_t *s = &sim_srv[i];
    memset(s->w_udp, 0, sizeof(s->w_udp));
    memset(s->w_tcp, 0, sizeof(s->w_tcp));
    s->w_udp[SA_ANSWER] = 96;
    s->w_udp[SA_TC]     = vh_chance(rng, 1, 4) ? 10 : 0;
    s->w_udp[SA_SILENT] = vh_chance(rng, 1, 4) ? 6 : 0;
    s->w_udp[SA_FORMERR_NOOPT] = vh_chance(rng, 1, 3) ? 8 : 0;
    s->w_udp[SA_FORMERR_OPT]   = vh_chance(rng, 1, 4) ? 6 : 0;
    s->w_tcp[SA_ANSWER] = 1;
    s->delay_min_ms = s->delay_max_ms = 3;
    s->tcp_connect                    = 1;
    s->tcp_connect_delay_ms           = 1;
    s->default_ttl                    = 60;
    s->ck_mode                        = 0; /* cookies are produced by the hook below */
    memset(s->ck_secret, 0x11 + i, 8);
    memset(&cks[i], 0, sizeof(cks[i]));
    cks[i].behaviour           = (int)vh_below(rng, CKB__COUNT);
    cks[i].t_first_bad         = -1;
    cks[i].t_unproven_nocookie = -1;
  }
  app_cfg.flags      = ARES_FLAG_EDNS | ARES_FLAG_NOSEARCH | (vh_chance(rng, 1, 3) ? ARES_FLAG_STAYOPEN : 0);
  app_cfg.tries      = vh_range(rng, 1, 3);
  app_cfg.timeout_ms = 500;
  app_cfg.nsrv_cfg   = nsrv;
  app_cfg.srv_cfg[0] = 0;
  app_cfg.srv_cfg[1] = 1;
  app_cfg.qcache_max_ttl = 0;
  mon_enable_idx = mon_enable_fd = mon_enable_timer = 0;
  app_sched.max_steps                               = 60000;
  app_sched.idle_ms_after                           = 10;
  n = vh_range(rng, 4, 25);
  for (i = 0; i < n; i++) {
    t += gaps_s[vh_below(rng, sizeof(gaps_s) / sizeof(gaps_s[0]))] * 1000000LL + (int64_t)vh_below(rng, 900000);
    gen_add_token(rng, t);
    /* behaviour changes, source address changes */
    if (vh_chance(rng, 1, 4)) {
      gen_add_action(t + 400000 + (int64_t)vh_below(rng, 400000), AA_CKBEHAVE, 0, (int)vh_below(rng, 2) * 16 + (int)vh_below(rng, CKB__COUNT));
    }
    if (vh_chance(rng, 1, 10)) {
      gen_add_action(t + 450000, AA_LOCALADDR, 0, 0);
    }
  }
  /* sometimes run on whole-second virtual times (the statement's timers are in seconds) */
  if (vh_chance(rng, 1, 4)) {
    sim_now_us -= sim_now_us % 1000000;
    for (i = 0; i < app_nact; i++) {
      app_act[i].t -= app_act[i].t % 1000000;
    }
    for (i = 0; i < sim_nsrv; i++) {
      /* replies arrive on whole seconds too */
      sim_srv[i].delay_min_ms = sim_srv[i].delay_max_ms = vh_chance(rng, 1, 2) ? 0 : 1000;
      sim_srv[i].tcp_connect_delay_ms                   = 0;
    }
    app_cfg.timeout_ms  = 3000;
    sim_no_subms_jitter = 1;
    sim_note("cookie_whole_second_times");
  }
}

static void run_cookie(vh_rng_t *rng)
{
  uint64_t h = VH_FNV_INIT;
  int      i;
  ck_state_changes  = 0;
  ck_timers_crossed = 0;
  ck_nq             = 0;
  memset(ck_resp_kind, 0, sizeof(ck_resp_kind));
  memset(ck_resp_formerr, 0, sizeof(ck_resp_formerr));
  memset(ck_delivered_while_proven, 0, sizeof(ck_delivered_while_proven));
  gen_cookie(rng);
  srv_cookie_hook   = ck_server_hook;
  srv_tx_hook       = mon_cookie_tx;
  sim_read_hook     = ck_on_read;
  mon_tok_done_hook = mon_cookie_tok_done;
  srv_cookie_built_hook = ck_classify;
  run_generic(rng);
  srv_cookie_built_hook = NULL;
  sim_read_hook         = NULL;
  srv_cookie_hook       = NULL;
  /* R6: a valid bad-cookie reply must be followed by a resend (it does not consume a try) */
  if (!vh_case_viol) {
    for (i = 0; i < ck_nq; i++) {
      MON_EVAL("cookie_r6_resend_happens");
      if (ck_q[i].n_badcookie > 0 && ck_q[i].n_badcookie <= 3 && !ck_q[i].resent_after_last_badcookie && !ck_q[i].probe) {
        vh_violation("cookie:badcookie-not-resent", "query '%s' got a bad-cookie reply (%d so far) and was not sent again", ck_q[i].qname,
                     ck_q[i].n_badcookie);
        break;
      }
    }
  }
  case_nontrivial = ck_state_changes > 1;
  if (case_nontrivial) {
    int b0 = cks[0].behaviour, b1 = cks[1].behaviour;
    h      = vh_fnv_u64(h, (uint64_t)b0 * 16 + (uint64_t)b1);
    h      = vh_fnv_u64(h, ck_timers_crossed);
    h      = vh_fnv_u64(h, (uint64_t)(ck_state_changes > 6 ? 7 : ck_state_changes));
    h      = vh_fnv_u64(h, (uint64_t)app_cfg.tries * 4 + (uint64_t)app_cfg.nsrv_cfg);
    vh_count("nontrivial_cases");
    vh_fp_add(h);
  }
}
