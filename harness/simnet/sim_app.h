#include <sys/time.h>
/* sim_app.h - the application model: channel configuration, request tokens for every entry
 * point, callbacks with re-entrant actions, scripted API calls, and the scheduler main loop. */

/* ------------------------------------------------------------------ configuration of one case */
typedef struct {
  int      flags;
  int      timeout_ms;
  int      tries;
  int      ndots;
  int      maxtimeout_ms; /* 0 = unset */
  int      rotate;        /* 0 norotate, 1 rotate */
  int      udp_max_queries;
  int      qcache_max_ttl; /* -1 = option not given */
  int      ednspsz;
  int      ndomains;
  char     domains[4][80];
  char     lookups[4];
  int      nsrv_cfg;
  int      srv_cfg[SIM_MAXSRV]; /* indexes into sim_srv, configuration order */
  int      failover_set;
  int      failover_chance;
  int      failover_delay_ms;
  char     sortlist[128];
  char     hosts_content[2048];
  char     env_hosts_content[512]; /* non-empty: a second hosts file, named by $CARES_HOSTS (used by ARES_AI_ENVHOSTS lookups only) */
  char     hostaliases_content[512];
  char     resolv_content[512];   /* empty: a comment only */
  char     env_res_options[128];  /* empty: variable unset */
  char     env_localdomain[128];
  int      lookups_via;  /* 0: ARES_OPT_LOOKUPS; 1: "lookup ..." in resolv.conf (the channel's own copy is replaced on reinit) */
  int      ndots_via;    /* 0: ARES_OPT_NDOTS; 1: "options ndots:N" in resolv.conf; 2: RES_OPTIONS */
  int      domains_via;  /* 0: ARES_OPT_DOMAINS; 1: "search ..." in resolv.conf; 2: LOCALDOMAIN (needs ndomains > 0) */
  int      sys_search_decoy; /* the domain list comes from ARES_OPT_DOMAINS (possibly empty): resolv.conf carries a search line that must lose */
  int      domains_decoy; /* with domains_via 1: an earlier "domain x" (1) or "search x y" (2) line that the search line replaces */
  int      use_server_state_cb;
  int      local_bind; /* 1: ares_set_local_ip4/ip6 + ares_set_local_dev */
} app_cfg_t;

static app_cfg_t       app_cfg;
static ares_channel_t *app_channel;
static char            app_dir[256];    /* scratch dir of this worker */
static char            app_resolv[300]; /* resolv.conf path */
static char            app_hosts[300];
static char            app_aliases[300];
static char            app_hosts_env[300];
static const char     *app_env_hostaliases; /* value served by the getenv wrap */

/* ------------------------------------------------------------------ getenv wrap (deterministic environment) */
char *__real_getenv(const char *name);
char *__wrap_getenv(const char *name);
char *__wrap_getenv(const char *name)
{
  if (name == NULL) {
    return NULL;
  }
  if (!strcmp(name, "HOSTALIASES")) {
    return (char *)app_env_hostaliases;
  }
  if (!strcmp(name, "RES_OPTIONS") && app_cfg.env_res_options[0]) {
    return app_cfg.env_res_options;
  }
  if (!strcmp(name, "LOCALDOMAIN") && app_cfg.env_localdomain[0]) {
    return app_cfg.env_localdomain;
  }
  if (!strcmp(name, "CARES_HOSTS") && app_cfg.env_hosts_content[0]) {
    return app_hosts_env;
  }
  if (!strcmp(name, "LOCALDOMAIN") || !strcmp(name, "RES_OPTIONS") || !strcmp(name, "CARES_HOSTS") ||
      !strcmp(name, "CARES_MEMDEBUG") || !strcmp(name, "CARES_MEMLIMIT")) {
    return NULL;
  }
  return __real_getenv(name);
}

/* ------------------------------------------------------------------ request tokens */
enum {
  RK_SEND = 0,
  RK_SEND_DNSREC,
  RK_QUERY,
  RK_QUERY_DNSREC,
  RK_SEARCH,
  RK_SEARCH_DNSREC,
  RK_GETADDRINFO,
  RK_GETHOSTBYNAME,
  RK_GETHOSTBYADDR,
  RK_GETNAMEINFO,
  RK__COUNT
};
static const char *const rk_names[RK__COUNT] = { "send",          "send_dnsrec",   "query",       "query_dnsrec",
                                                 "search",        "search_dnsrec", "getaddrinfo", "gethostbyname",
                                                 "gethostbyaddr", "getnameinfo" };

enum { RA_NONE = 0, RA_START1, RA_START2, RA_CANCEL, RA_READONLY, RA_START_SAME, RA_SETSERVERS, RA__COUNT };
static const char *const ra_names[RA__COUNT] = { "none", "start1", "start2", "cancel", "readonly", "start-same", "set-servers" };

#define APP_MAXTOK 256
#define APP_MAXSER 2048

typedef struct {
  int      used;
  int      kind;
  char     name[1100];
  int      qtype;   /* for query-like */
  int      qclass;
  int      family;  /* for address lookups */
  int      ai_flags;
  int      tx_at_start; /* transmissions seen on the virtual network when this request was started */
  int      ni_flags;   /* getnameinfo: 0 = ARES_NI_LOOKUPHOST | ARES_NI_NAMEREQD */
  int      odd_args;   /* 0 none; 1.. = an argument combination the entry point refuses or treats specially */
  uint8_t  addr[16]; /* reverse lookups */
  int      started;  /* API call was made */
  int      api_returned;
  int      ret_status; /* status returned by the API (or -1 when void) */
  int      cb_count;
  int      cb_status;
  int      cb_timeouts;
  int64_t  t_start, t_done;
  int      action;   /* RA_* performed in the callback */
  int      depth;    /* 0 = scripted, >0 started from a callback */
  int      cb_in_cancel, cb_in_destroy, cb_in_start;
  uint32_t serials[APP_MAXSER];
  uint32_t ttls[APP_MAXSER];
  uint8_t  ser_auth[APP_MAXSER]; /* entry comes from an authority-section SOA */
  int      nserials;
  int      result_naddr;
  int      had_result;
  int      tx_before;  /* sim_ntx when the request was started */
  int      tx_at_done; /* sim_ntx when it completed */
  uint16_t qid;
  int      sync_done;  /* completed before the API returned */
  char     canon[300];
  int      ncnames;
  int      naliases;
  char     ptrnames[8][128];
  int      nptr;
  uint32_t addr_key[APP_MAXSER]; /* (family 4/6) << 28 | record index << 16 | serial, per returned address */
  uint8_t  addr_raw[APP_MAXSER][16];
  uint16_t addr_port[APP_MAXSER];
  int      naddr;
  int      port;      /* service/port asked (getaddrinfo) */
} app_tok_t;

static app_tok_t app_tok[APP_MAXTOK];
static int       app_ntok;
static int       app_outstanding;
static int       app_cb_depth;
static int       app_in_cancel, app_in_destroy, app_in_start, app_in_process;
static int       app_cancel_in_cb_used, app_start_in_cb_used;
static int       app_in_set_servers; /* inside ares_set_servers*: old and new servers coexist transiently */
static int       app_max_tokens = 48;
static long      app_total_cb; /* callbacks delivered in this case */

/* scripted actions */
enum { AA_START = 1, AA_CANCEL, AA_SET_SERVERS, AA_SET_SORTLIST, AA_REINIT, AA_READONLY, AA_DUP, AA_JUMP, AA_LOCALADDR, AA_ADVERSARY, AA_SRVMOOD, AA_CKBEHAVE };
static void ck_set_behaviour(int srv, int b);
static void (*hl_config_hook)(const int *idx, int n); /* server list (re)installed */
static void (*hl_preconfig_hook)(const int *idx, int n); /* server list about to be installed */
static void gen_srv_mood_fwd(int srv, int moodidx);
static void prov_inject(void);
typedef struct {
  int64_t t;
  int     kind;
  int     tok;  /* AA_START */
  int     arg;
  int     done;
} app_act_t;
#define APP_MAXACT 128
static app_act_t app_act[APP_MAXACT];
static int       app_nact;

/* monitors (sim_mon.h) */
static void mon_callback(app_tok_t *t);
static void mon_quiescent(const char *after);
static void mon_after_cancel(const uint8_t *was_outstanding);
static void mon_after_destroy(void);
static void mon_server_state(const char *server, int success, int flags);
static void mon_sock_state(int fd, int r, int w);
static void mon_tok_done(app_tok_t *t);

/* generator of new requests from callbacks (sim_gen.h) */
static void gen_fill_token(app_tok_t *t, vh_rng_t *rng, int depth);
static vh_rng_t app_rng; /* application-side randomness (re-entrant actions etc.) */

static void app_start_token(int ti);

/* ------------------------------------------------------------------ result digests */
static void tok_add_serial(app_tok_t *t, uint32_t serial, uint32_t ttl)
{
  if (t->nserials < APP_MAXSER) {
    t->serials[t->nserials] = serial;
    t->ttls[t->nserials]    = ttl;
    t->nserials++;
  }
}

static void tok_add_addr(app_tok_t *t, int family, const uint8_t *a, unsigned port)
{
  if (t->naddr < APP_MAXSER) {
    uint32_t key;
    if (family == AF_INET) {
      key = (4u << 28) | ((uint32_t)a[1] << 16) | ((uint32_t)a[2] << 8) | a[3];
      if (a[0] != 10) {
        key = (4u << 28) | 0x0fff0000u | ((uint32_t)a[2] << 8) | a[3];
      }
    } else {
      key = (6u << 28) | ((((uint32_t)a[11] << 8) | a[12]) << 16 & 0x0fff0000u) | ((uint32_t)a[14] << 8) | a[15];
      if (a[0] != 0xfd || a[1] != 0x5e) {
        key = (6u << 28) | 0x0fff0000u | ((uint32_t)a[14] << 8) | a[15];
      }
    }
    t->addr_key[t->naddr] = key;
    memset(t->addr_raw[t->naddr], 0, 16);
    memcpy(t->addr_raw[t->naddr], a, family == AF_INET ? 4 : 16);
    t->addr_port[t->naddr] = (uint16_t)port;
    t->naddr++;
  }
}

static uint32_t serial_from_v4(const uint8_t *a)
{
  if (a[0] != 10) {
    return 0;
  }
  return ((uint32_t)a[2] << 8) | a[3];
}
static uint32_t serial_from_v6(const uint8_t *a)
{
  if (a[0] != 0xfd || a[1] != 0x5e) {
    return 0;
  }
  return ((uint32_t)a[14] << 8) | a[15];
}
static uint32_t serial_from_text(const char *s)
{
  const char *p = s ? strstr(s, "s=") : NULL;
  if (p) {
    return (uint32_t)strtoul(p + 2, NULL, 10);
  }
  p = s;
  /* names of the form xN.s<serial>.zzz.test */
  while (p && (p = strstr(p, ".s")) != NULL) {
    if (isdigit((unsigned char)p[2])) {
      return (uint32_t)strtoul(p + 2, NULL, 10);
    }
    p += 2;
  }
  if (s && s[0] == 's' && isdigit((unsigned char)s[1])) {
    return (uint32_t)strtoul(s + 1, NULL, 10);
  }
  return 0;
}

static void tok_digest_dnsrec(app_tok_t *t, const ares_dns_record_t *rec)
{
  size_t i, n;
  if (rec == NULL) {
    return;
  }
  t->had_result = 1;
  n             = ares_dns_record_rr_cnt(rec, ARES_SECTION_ANSWER);
  for (i = 0; i < n; i++) {
    const ares_dns_rr_t *rr = ares_dns_record_rr_get_const(rec, ARES_SECTION_ANSWER, i);
    ares_dns_rec_type_t  ty = ares_dns_rr_get_type(rr);
    uint32_t             ttl = ares_dns_rr_get_ttl(rr);
    if (ty == ARES_REC_TYPE_A) {
      const struct in_addr *a = ares_dns_rr_get_addr(rr, ARES_RR_A_ADDR);
      if (a) {
        tok_add_serial(t, serial_from_v4((const uint8_t *)a), ttl);
      }
    } else if (ty == ARES_REC_TYPE_AAAA) {
      const struct ares_in6_addr *a = ares_dns_rr_get_addr6(rr, ARES_RR_AAAA_ADDR);
      if (a) {
        tok_add_serial(t, serial_from_v6((const uint8_t *)a), ttl);
      }
    } else if (ty == ARES_REC_TYPE_TXT) {
      size_t               len = 0;
      const unsigned char *d   = NULL;
      if (ares_dns_rr_get_abin_cnt(rr, ARES_RR_TXT_DATA) > 0) {
        d = ares_dns_rr_get_abin(rr, ARES_RR_TXT_DATA, 0, &len);
      }
      if (d && len < 100) {
        char tmp[128];
        memcpy(tmp, d, len);
        tmp[len] = 0;
        tok_add_serial(t, serial_from_text(tmp), ttl);
      }
    } else if (ty == ARES_REC_TYPE_PTR) {
      tok_add_serial(t, serial_from_text(ares_dns_rr_get_str(rr, ARES_RR_PTR_DNAME)), ttl);
    } else if (ty == ARES_REC_TYPE_NS) {
      tok_add_serial(t, serial_from_text(ares_dns_rr_get_str(rr, ARES_RR_NS_NSDNAME)), ttl);
    } else if (ty == ARES_REC_TYPE_MX) {
      tok_add_serial(t, serial_from_text(ares_dns_rr_get_str(rr, ARES_RR_MX_EXCHANGE)), ttl);
    } else if (ty == ARES_REC_TYPE_CNAME) {
      tok_add_serial(t, serial_from_text(ares_dns_rr_get_str(rr, ARES_RR_CNAME_CNAME)), ttl);
    } else if (ty == ARES_REC_TYPE_SOA) {
      tok_add_serial(t, serial_from_text(ares_dns_rr_get_str(rr, ARES_RR_SOA_MNAME)), ttl);
    }
  }
  /* negative answers: SOA in authority carries the serial */
  n = ares_dns_record_rr_cnt(rec, ARES_SECTION_AUTHORITY);
  for (i = 0; i < n; i++) {
    const ares_dns_rr_t *rr = ares_dns_record_rr_get_const(rec, ARES_SECTION_AUTHORITY, i);
    if (ares_dns_rr_get_type(rr) == ARES_REC_TYPE_SOA) {
      int before = t->nserials;
      tok_add_serial(t, serial_from_text(ares_dns_rr_get_str(rr, ARES_RR_SOA_MNAME)), ares_dns_rr_get_ttl(rr));
      if (t->nserials > before) {
        t->ser_auth[t->nserials - 1] = 1;
      }
    }
  }
}

/* ------------------------------------------------------------------ callbacks */
static void app_set_servers_now(int arg, int quiescent);
/* ares_cancel() called from inside a completion callback: requests that are in the middle of a step of their own further
 * up the stack (an address lookup between its two questions, a query being moved off a closing connection) can only be
 * completed once control is back in that step - after ares_cancel() returned, before the outermost library call does.
 * What was outstanding at such a cancel is therefore checked when the outermost call returns. */
static uint8_t app_cancel_was_pending[APP_MAXTOK];
static int     app_cancel_check_pending;
static void    app_outermost_return(void)
{
  if (app_cancel_check_pending && app_in_process == 0 && app_in_start == 0 && app_in_cancel == 0 && app_in_destroy == 0) {
    app_cancel_check_pending = 0;
    mon_after_cancel(app_cancel_was_pending);
    memset(app_cancel_was_pending, 0, sizeof(app_cancel_was_pending));
  }
}

static int app_slow_cb; /* profile hostile-slowcb: completion callbacks take their time (the clock moves while they run) */
static void app_reentrant(app_tok_t *t)
{
  int k, n;
  if (t->cb_status == ARES_EDESTRUCTION || app_in_destroy || sim_destroyed) {
    return; /* documented: channel must not be used */
  }
  if (app_slow_cb && t->action != RA_NONE && vh_chance(&app_rng, 2, 3)) {
    /* the application works on the result for a while before it asks its follow-up questions */
    sim_now_us += 300000 + (int64_t)vh_below(&app_rng, 2200000);
    sim_note("callback_took_its_time");
  }
  switch (t->action) {
    case RA_START1:
    case RA_START2:
    case RA_START_SAME:
      n = t->action == RA_START2 ? 2 : 1;
      for (k = 0; k < n; k++) {
        if (app_ntok < app_max_tokens && app_ntok < APP_MAXTOK) {
          int        ti = app_ntok++;
          app_tok_t *nt = &app_tok[ti];
          memset(nt, 0, sizeof(*nt));
          nt->used = 1;
          if (t->action == RA_START_SAME) {
            nt->kind   = t->kind;
            nt->qtype  = t->qtype;
            nt->qclass = t->qclass;
            nt->family = t->family;
            memcpy(nt->addr, t->addr, sizeof(nt->addr));
            snprintf(nt->name, sizeof(nt->name), "%s", t->name);
            nt->depth  = t->depth + 1;
            nt->action = RA_NONE;
          } else {
            gen_fill_token(nt, &app_rng, t->depth + 1);
          }
          app_start_in_cb_used = 1;
          sim_note("reentrant_start");
          app_start_token(ti);
        }
      }
      break;
    case RA_CANCEL:
      app_cancel_in_cb_used = 1;
      sim_note("reentrant_cancel");
      {
        /* ares_cancel from inside a callback: legal (documented in ares_cancel.3) */
        uint8_t was[APP_MAXTOK];
        int     i;
        memset(was, 0, sizeof(was));
        for (i = 0; i < app_ntok; i++) {
          /* a request whose entry point has not returned yet is not "accepted" yet */
          was[i] = (uint8_t)(app_tok[i].started && app_tok[i].api_returned && app_tok[i].cb_count == 0);
        }
        app_in_cancel++;
        ares_cancel(app_channel);
        app_in_cancel--;
        for (i = 0; i < app_ntok; i++) {
          app_cancel_was_pending[i] |= was[i];
        }
        app_cancel_check_pending = 1;
      }
      break;
    case RA_SETSERVERS:
      /* replacing the server list from a completion callback: legal like any other channel call */
      sim_note("reentrant_set_servers");
      app_set_servers_now(0, 0);
      break;
    case RA_READONLY:
      {
        struct timeval tv, *tvp;
        fd_set         r, w;
        ares_socket_t  socks[ARES_GETSOCK_MAXNUM];
        sim_note("reentrant_readonly");
        tvp = ares_timeout(app_channel, NULL, &tv);
        (void)tvp;
        FD_ZERO(&r);
        FD_ZERO(&w);
        if (sim_next_fd < FD_SETSIZE) {
          (void)ares_fds(app_channel, &r, &w);
        }
        (void)ares_getsock(app_channel, socks, ARES_GETSOCK_MAXNUM);
        (void)ares_queue_active_queries(app_channel);
      }
      break;
    default:
      break;
  }
}

static void app_cb_common(app_tok_t *t, int status, int timeouts)
{
  t->cb_count++;
  app_total_cb++;
  t->cb_in_cancel  = app_in_cancel;
  t->cb_in_destroy = app_in_destroy;
  t->cb_in_start   = app_in_start;
  if (t->cb_count == 1) {
    t->cb_status   = status;
    t->cb_timeouts = timeouts;
    t->t_done      = sim_now_us;
    t->tx_at_done  = sim_ntx;
    app_outstanding--;
    if (!t->api_returned) {
      t->sync_done = 1;
    }
  }
  case_ev(3, (unsigned)(t->kind * 64 + (status & 63)));
  vh_trace("callback tok %d kind %s status %d timeouts %d count %d", (int)(t - app_tok), rk_names[t->kind], status,
           timeouts, t->cb_count);
  mon_callback(t);
  if (t->cb_count == 1) {
    mon_tok_done(t);
    app_cb_depth++;
    app_reentrant(t);
    app_cb_depth--;
  }
}

static volatile unsigned app_touch_sink; /* reads of library-owned callback data after the re-entrant actions */
static void app_cb_raw(void *arg, int status, int timeouts, unsigned char *abuf, int alen)
{
  app_tok_t *t = (app_tok_t *)arg;
  if (t->cb_count == 0 && abuf != NULL && alen > 0) {
    /* digest via an independent walk: parse with c-ares's parser is avoided here on purpose
     * for provenance; we use the record API only for field extraction */
    ares_dns_record_t *rec = NULL;
    t->had_result          = 1;
    if (ares_dns_parse(abuf, (size_t)alen, 0, &rec) == ARES_SUCCESS) {
      tok_digest_dnsrec(t, rec);
      ares_dns_record_destroy(rec);
    }
  }
  app_cb_common(t, status, timeouts);
  /* what the library handed in is the callback's until it returns, whatever the callback did in between (started
   * requests, cancelled, changed servers): look at it once more on the way out */
  if (abuf != NULL && alen > 0) {
    app_touch_sink += abuf[0] + abuf[alen - 1];
  }
}

static void app_cb_dnsrec(void *arg, ares_status_t status, size_t timeouts, const ares_dns_record_t *rec)
{
  app_tok_t *t = (app_tok_t *)arg;
  if (t->cb_count == 0) {
    tok_digest_dnsrec(t, rec);
  }
  app_cb_common(t, (int)status, (int)timeouts);
  if (rec != NULL) {
    size_t n = ares_dns_record_rr_cnt(rec, ARES_SECTION_ANSWER);
    app_touch_sink += (unsigned)ares_dns_record_get_id(rec) + (unsigned)n;
    if (n > 0) {
      const ares_dns_rr_t *rr = ares_dns_record_rr_get_const(rec, ARES_SECTION_ANSWER, n - 1);
      app_touch_sink += rr ? ares_dns_rr_get_ttl(rr) + (unsigned)strlen(ares_dns_rr_get_name(rr)) : 0;
    }
  }
}

static void app_cb_host(void *arg, int status, int timeouts, struct hostent *h)
{
  app_tok_t *t = (app_tok_t *)arg;
  if (t->cb_count == 0 && h != NULL) {
    int i;
    t->had_result = 1;
    if (h->h_name) {
      snprintf(t->canon, sizeof(t->canon), "%s", h->h_name);
    }
    for (i = 0; h->h_aliases && h->h_aliases[i]; i++) {
      t->naliases++;
    }
    if (t->kind == RK_GETHOSTBYADDR) {
      if (h->h_name && t->nptr < 8) {
        snprintf(t->ptrnames[t->nptr++], 128, "%s", h->h_name);
      }
      for (i = 0; h->h_aliases && h->h_aliases[i] && t->nptr < 8; i++) {
        snprintf(t->ptrnames[t->nptr++], 128, "%s", h->h_aliases[i]);
      }
      tok_add_serial(t, serial_from_text(h->h_name), 0);
    } else {
      for (i = 0; h->h_addr_list && h->h_addr_list[i]; i++) {
        const uint8_t *a = (const uint8_t *)h->h_addr_list[i];
        tok_add_serial(t, h->h_addrtype == AF_INET ? serial_from_v4(a) : serial_from_v6(a), 0);
        tok_add_addr(t, h->h_addrtype, a, 0);
        t->result_naddr++;
      }
    }
  }
  app_cb_common(t, status, timeouts);
  if (h != NULL) {
    int k;
    app_touch_sink += h->h_name ? (unsigned)strlen(h->h_name) : 0;
    for (k = 0; h->h_addr_list && h->h_addr_list[k]; k++) {
      app_touch_sink += (unsigned char)h->h_addr_list[k][0];
    }
    for (k = 0; h->h_aliases && h->h_aliases[k]; k++) {
      app_touch_sink += (unsigned)strlen(h->h_aliases[k]);
    }
  }
}

static void app_cb_addrinfo(void *arg, int status, int timeouts, struct ares_addrinfo *ai)
{
  app_tok_t *t = (app_tok_t *)arg;
  if (t->cb_count == 0 && ai != NULL) {
    struct ares_addrinfo_node  *n;
    struct ares_addrinfo_cname *c;
    t->had_result = 1;
    for (n = ai->nodes; n; n = n->ai_next) {
      if (n->ai_family == AF_INET) {
        const struct sockaddr_in *sin = (const struct sockaddr_in *)(const void *)n->ai_addr;
        tok_add_serial(t, serial_from_v4((const uint8_t *)&sin->sin_addr), (uint32_t)n->ai_ttl);
        tok_add_addr(t, AF_INET, (const uint8_t *)&sin->sin_addr, ntohs(sin->sin_port));
      } else if (n->ai_family == AF_INET6) {
        const struct sockaddr_in6 *sin6 = (const struct sockaddr_in6 *)(const void *)n->ai_addr;
        tok_add_serial(t, serial_from_v6((const uint8_t *)&sin6->sin6_addr), (uint32_t)n->ai_ttl);
        tok_add_addr(t, AF_INET6, (const uint8_t *)&sin6->sin6_addr, ntohs(sin6->sin6_port));
      }
      t->result_naddr++;
    }
    for (c = ai->cnames; c; c = c->next) {
      t->ncnames++;
    }
    if (ai->name) {
      snprintf(t->canon, sizeof(t->canon), "%s", ai->name);
    }
  }
  if (ai != NULL) {
    ares_freeaddrinfo(ai);
  }
  app_cb_common(t, status, timeouts);
}

static void app_cb_nameinfo(void *arg, int status, int timeouts, char *node, char *service)
{
  app_tok_t *t = (app_tok_t *)arg;
  if (t->cb_count == 0 && node != NULL && !(t->ni_flags & ARES_NI_NUMERICHOST)) {
    t->had_result = 1;
    snprintf(t->canon, sizeof(t->canon), "%s", node);
    tok_add_serial(t, serial_from_text(node), 0);
  }
  app_cb_common(t, status, timeouts);
  app_touch_sink += (node ? (unsigned)strlen(node) : 0) + (service ? (unsigned)strlen(service) : 0);
}

/* ------------------------------------------------------------------ starting a request */
static void app_start_token(int ti)
{
  app_tok_t      *t = &app_tok[ti];
  ares_channel_t *ch = app_channel;
  ares_status_t   st;
  int             edns = (app_cfg.flags & ARES_FLAG_EDNS) ? 1 : 0;

  t->started    = 1;
  t->t_start    = sim_now_us;
  t->tx_at_start = sim_ntx;
  t->ret_status = -1;
  t->tx_before  = sim_ntx;
  app_outstanding++;
  app_in_start++;
  {
    char nm[64];
    snprintf(nm, sizeof(nm), "api_%s", rk_names[t->kind]);
    sim_note(nm);
  }
  case_ev(4, (unsigned)(t->kind * 8 + t->action));
  vh_trace("t=%lldms start tok %d kind %s name '%s' type %d action %s", (long long)((sim_now_us % 100000000000LL) / 1000), ti, rk_names[t->kind], t->name, t->qtype,
           ra_names[t->action]);
  switch (t->kind) {
    case RK_SEND:
      {
        unsigned char *buf = NULL;
        int            len = 0;
        int rc = ares_create_query(t->name, t->qclass, t->qtype, 0, 1, &buf, &len, edns ? app_cfg.ednspsz : 0);
        if (rc != ARES_SUCCESS) {
          /* name not encodable: request never made */
          t->started = 0;
          app_outstanding--;
          sim_note("request_not_encodable");
          break;
        }
        ares_send(ch, buf, len, app_cb_raw, t);
        ares_free_string(buf);
        break;
      }
    case RK_SEND_DNSREC:
    case RK_SEARCH_DNSREC:
      {
        ares_dns_record_t *rec = NULL;
        unsigned short rflags = ARES_FLAG_RD;
        if (app_dnsrec_flags_from_aiflags && t->kind == RK_SEND_DNSREC) {
          rflags = (unsigned short)(((t->ai_flags & 1) ? ARES_FLAG_RD : 0) | ((t->ai_flags & 2) ? ARES_FLAG_CD : 0));
        }
        st = ares_dns_record_create(&rec, 0, rflags, ARES_OPCODE_QUERY, ARES_RCODE_NOERROR);
        if (st == ARES_SUCCESS) {
          st = ares_dns_record_query_add(rec, t->name, (ares_dns_rec_type_t)t->qtype, (ares_dns_class_t)t->qclass);
        }
        if (st == ARES_SUCCESS && edns) {
          ares_dns_rr_t *rr = NULL;
          st                = ares_dns_record_rr_add(&rr, rec, ARES_SECTION_ADDITIONAL, "", ARES_REC_TYPE_OPT,
                                                     ARES_CLASS_IN, 0);
          if (st == ARES_SUCCESS) {
            ares_dns_rr_set_u16(rr, ARES_RR_OPT_UDP_SIZE, (unsigned short)app_cfg.ednspsz);
            ares_dns_rr_set_u8(rr, ARES_RR_OPT_VERSION, 0);
            ares_dns_rr_set_u16(rr, ARES_RR_OPT_FLAGS, 0);
          }
        }
        if (st != ARES_SUCCESS) {
          ares_dns_record_destroy(rec);
          t->started = 0;
          app_outstanding--;
          sim_note("request_not_encodable");
          break;
        }
        if (t->kind == RK_SEND_DNSREC) {
          unsigned short qid = 0;
          st                 = ares_send_dnsrec(ch, rec, app_cb_dnsrec, t, &qid);
          t->qid             = qid;
        } else {
          st = ares_search_dnsrec(ch, rec, app_cb_dnsrec, t);
        }
        t->ret_status = (int)st;
        ares_dns_record_destroy(rec);
        break;
      }
    case RK_QUERY:
      ares_query(ch, t->name, t->qclass, t->qtype, app_cb_raw, t);
      break;
    case RK_QUERY_DNSREC:
      {
        unsigned short qid = 0;
        st = ares_query_dnsrec(ch, t->name, (ares_dns_class_t)t->qclass, (ares_dns_rec_type_t)t->qtype, app_cb_dnsrec, t,
                               &qid);
        t->qid        = qid;
        t->ret_status = (int)st;
        break;
      }
    case RK_SEARCH:
      ares_search(ch, t->name, t->qclass, t->qtype, app_cb_raw, t);
      break;
    case RK_GETADDRINFO:
      {
        struct ares_addrinfo_hints h;
        memset(&h, 0, sizeof(h));
        h.ai_family = t->family;
        h.ai_flags  = t->ai_flags;
        if (t->odd_args) {
          static const char *const svcs[] = { "http", "99999", "no-such-service", "", "53" };
          static const int         afl[]  = { ARES_AI_NUMERICHOST, ARES_AI_PASSIVE, ARES_AI_V4MAPPED | ARES_AI_ALL, ARES_AI_ADDRCONFIG,
                                              ARES_AI_NUMERICSERV, ARES_AI_ENVHOSTS, ARES_AI_NOSORT | ARES_AI_CANONNAME };
          int                      v      = t->odd_args - 1;
          h.ai_flags |= afl[v % 7];
          if ((v / 7) % 3 == 1) {
            h.ai_family = AF_UNIX;
          }
          if ((v / 21) % 2 == 1) {
            h.ai_socktype = SOCK_DGRAM;
            h.ai_protocol = 17;
          }
          /* (a NULL name is not among the documented uses: the manual asks for a C string) */
          ares_getaddrinfo(ch, t->name, svcs[(v / 3) % 5], &h, app_cb_addrinfo, t);
          break;
        }
        if (t->port > 0) {
          char svc[16];
          snprintf(svc, sizeof(svc), "%d", t->port);
          h.ai_flags |= ARES_AI_NUMERICSERV;
          ares_getaddrinfo(ch, t->name, svc, &h, app_cb_addrinfo, t);
        } else {
          ares_getaddrinfo(ch, t->name, NULL, &h, app_cb_addrinfo, t);
        }
        break;
      }
    case RK_GETHOSTBYNAME:
      ares_gethostbyname(ch, t->name, t->odd_args ? ((t->odd_args & 1) ? AF_UNIX : 99) : t->family, app_cb_host, t);
      break;
    case RK_GETHOSTBYADDR:
      if (t->odd_args) {
        /* family / length pairs that do not fit */
        static const int fam[] = { AF_INET, AF_INET6, AF_UNIX, AF_INET, AF_INET6 };
        static const int len[] = { 16, 4, 4, 3, 0 };
        int              v     = (t->odd_args - 1) % 5;
        ares_gethostbyaddr(ch, t->addr, len[v], fam[v], app_cb_host, t);
        break;
      }
      ares_gethostbyaddr(ch, t->addr, t->family == AF_INET ? 4 : 16, t->family, app_cb_host, t);
      break;
    case RK_GETNAMEINFO:
      {
        struct sockaddr_storage ss;
        ares_socklen_t          l;
        sim_addr_to_sockaddr(t->family, t->addr, 80, &ss, &l);
        ares_getnameinfo(ch, (const struct sockaddr *)&ss, l, t->ni_flags ? t->ni_flags : (ARES_NI_LOOKUPHOST | ARES_NI_NAMEREQD),
                         app_cb_nameinfo, t);
        break;
      }
    default:
      break;
  }
  app_in_start--;
  app_outermost_return();
  t->api_returned = 1;
  if (app_cb_depth == 0) {
    mon_quiescent("start");
  }
}

/* ------------------------------------------------------------------ library callbacks for sockets/servers */
static void app_sock_state_cb(void *data, ares_socket_t fd, int r, int w)
{
  (void)data;
  mon_sock_state((int)fd, r, w);
}

static int app_sock_cfg_cb(ares_socket_t fd, int type, void *data)
{
  int e;
  (void)type;
  (void)data;
  mon_fd_use((int)fd, "sock_config_cb");
  e = sim_fault(SF_SOCKCFG_CB);
  return e ? -1 : 0;
}

static int app_sock_create_cb(ares_socket_t fd, int type, void *data)
{
  int e;
  (void)type;
  (void)data;
  mon_fd_use((int)fd, "sock_create_cb");
  e = sim_fault(SF_SOCKCREATE_CB);
  return e ? -1 : 0;
}

static int  app_pending_write_flag;
static void app_pending_write_cb(void *data)
{
  (void)data;
  app_pending_write_flag = 1;
  sim_note("pending_write_cb");
}

static void app_server_state_cb(const char *server, ares_bool_t success, int flags, void *data)
{
  (void)data;
  mon_server_state(server, success ? 1 : 0, flags);
}

/* ------------------------------------------------------------------ channel set-up */
static void app_write_file(const char *path, const char *content)
{
  FILE *f = fopen(path, "w");
  if (f) {
    struct timeval tv[2];
    fputs(content, f);
    fclose(f);
    /* an hour old, like a real configuration file: the library's hosts-file cache compares the modification time
     * with the (wall-clock) second it loaded the file in, and a file written in that very second never counts as
     * cached */
    gettimeofday(&tv[0], NULL);
    tv[0].tv_sec -= 3600;
    tv[1] = tv[0];
    utimes(path, tv);
  }
}

static void app_servers_csv(char *out, size_t outlen, const int *idx, int n)
{
  int    i;
  size_t o = 0;
  out[0]   = 0;
  for (i = 0; i < n; i++) {
    const vsrv_t *s = &sim_srv[idx[i]];
    char          a[64];
    inet_ntop(s->family, s->addr, a, sizeof(a));
    if (s->udp_port == s->tcp_port) {
      if (s->family == AF_INET) {
        o += (size_t)snprintf(out + o, outlen - o, "%s%s:%u", i ? "," : "", a, s->udp_port);
      } else {
        o += (size_t)snprintf(out + o, outlen - o, "%s[%s]:%u", i ? "," : "", a, s->udp_port);
      }
    } else {
      o += (size_t)snprintf(out + o, outlen - o, "%sdns://%s%s%s:%u?tcpport=%u", i ? "," : "",
                            s->family == AF_INET6 ? "[" : "", a, s->family == AF_INET6 ? "]" : "", s->udp_port,
                            s->tcp_port);
    }
  }
}

/* the same comma-separated entries, possibly in another order */
static int app_same_tokens(const char *a, const char *b)
{
  char        ta[1024], *sa = NULL, *t;
  int         na = 0, nb = 0;
  const char *p;
  snprintf(ta, sizeof(ta), "%s", a);
  for (t = strtok_r(ta, ",", &sa); t != NULL; t = strtok_r(NULL, ",", &sa)) {
    const char *f = strstr(b, t);
    size_t      l = strlen(t);
    na++;
    if (f == NULL || (f != b && f[-1] != ',') || (f[l] != 0 && f[l] != ',')) {
      return 0;
    }
  }
  for (p = b; *p; p++) {
    nb += (*p == ',');
  }
  return na == nb + 1;
}

static int app_channel_init(void)
{
  struct ares_options             o;
  int                             mask = 0;
  int                             rc;
  char                           *doms[4];
  int                             i;
  char                            csv[1024];
  struct ares_socket_functions_ex sf;

  memset(&o, 0, sizeof(o));
  if (app_cfg.lookups_via && app_cfg.lookups[0]) {
    size_t ro = strlen(app_cfg.resolv_content);
    size_t k;
    if (ro == 0) {
      ro = (size_t)snprintf(app_cfg.resolv_content, sizeof(app_cfg.resolv_content), "# simnet\n");
    }
    ro += (size_t)snprintf(app_cfg.resolv_content + ro, sizeof(app_cfg.resolv_content) - ro, "lookup");
    for (k = 0; app_cfg.lookups[k]; k++) {
      ro += (size_t)snprintf(app_cfg.resolv_content + ro, sizeof(app_cfg.resolv_content) - ro, " %s", app_cfg.lookups[k] == 'b' ? "bind" : "file");
    }
    ro += (size_t)snprintf(app_cfg.resolv_content + ro, sizeof(app_cfg.resolv_content) - ro, "\n");
    sim_note("lookup_order_from_system_configuration");
  }
  if (app_cfg.ndots_via || (app_cfg.domains_via && app_cfg.ndomains > 0)) {
    /* the search parameters come from the system configuration instead of the options */
    size_t ro = strlen(app_cfg.resolv_content);
    if (ro == 0) {
      ro = (size_t)snprintf(app_cfg.resolv_content, sizeof(app_cfg.resolv_content), "# simnet\n");
    }
    if (app_cfg.domains_via == 1 && app_cfg.ndomains > 0) {
      /* resolv.conf(5): with several domain / search lines the last instance wins */
      if (app_cfg.domains_decoy == 1) {
        ro += (size_t)snprintf(app_cfg.resolv_content + ro, sizeof(app_cfg.resolv_content) - ro, "domain decoy.invalid\n");
      } else if (app_cfg.domains_decoy == 2) {
        ro += (size_t)snprintf(app_cfg.resolv_content + ro, sizeof(app_cfg.resolv_content) - ro, "search old1.invalid old2.invalid\n");
      }
      ro += (size_t)snprintf(app_cfg.resolv_content + ro, sizeof(app_cfg.resolv_content) - ro, "search");
      for (i = 0; i < app_cfg.ndomains; i++) {
        ro += (size_t)snprintf(app_cfg.resolv_content + ro, sizeof(app_cfg.resolv_content) - ro, " %s", app_cfg.domains[i]);
      }
      ro += (size_t)snprintf(app_cfg.resolv_content + ro, sizeof(app_cfg.resolv_content) - ro, "\n");
    }
    if (app_cfg.domains_via == 2 && app_cfg.ndomains > 0) {
      size_t eo = 0;
      for (i = 0; i < app_cfg.ndomains; i++) {
        eo += (size_t)snprintf(app_cfg.env_localdomain + eo, sizeof(app_cfg.env_localdomain) - eo, "%s%s", i ? " " : "", app_cfg.domains[i]);
      }
    }
    if (app_cfg.ndots_via == 1) {
      ro += (size_t)snprintf(app_cfg.resolv_content + ro, sizeof(app_cfg.resolv_content) - ro, "options ndots:%d\n", app_cfg.ndots);
    }
    if (app_cfg.ndots_via == 2) {
      snprintf(app_cfg.env_res_options, sizeof(app_cfg.env_res_options), "ndots:%d", app_cfg.ndots);
    }
    sim_note("search_parameters_from_system_configuration");
  }
  if (app_cfg.sys_search_decoy && !(app_cfg.domains_via && app_cfg.ndomains > 0)) {
    size_t ro2 = strlen(app_cfg.resolv_content);
    snprintf(app_cfg.resolv_content + ro2, sizeof(app_cfg.resolv_content) - ro2, "%ssearch sysdecoy1.invalid sysdecoy2.invalid\n",
             ro2 && app_cfg.resolv_content[ro2 - 1] != '\n' ? "\n" : "");
    sim_note("system_search_list_that_must_lose");
  }
  app_write_file(app_resolv, app_cfg.resolv_content[0] ? app_cfg.resolv_content : "# simnet\n");
  app_write_file(app_hosts, app_cfg.hosts_content);
  if (app_cfg.env_hosts_content[0]) {
    snprintf(app_hosts_env, sizeof(app_hosts_env), "%s/hosts.env", app_dir);
    app_write_file(app_hosts_env, app_cfg.env_hosts_content);
  }
  if (app_cfg.hostaliases_content[0]) {
    app_write_file(app_aliases, app_cfg.hostaliases_content);
    app_env_hostaliases = app_aliases;
  } else {
    app_env_hostaliases = NULL;
  }
  o.flags = app_cfg.flags;
  mask |= ARES_OPT_FLAGS;
  o.timeout = app_cfg.timeout_ms;
  mask |= ARES_OPT_TIMEOUTMS;
  o.tries = app_cfg.tries;
  mask |= ARES_OPT_TRIES;
  if (!app_cfg.ndots_via) {
    o.ndots = app_cfg.ndots;
    mask |= ARES_OPT_NDOTS;
  }
  if (!(app_cfg.domains_via && app_cfg.ndomains > 0)) {
    for (i = 0; i < app_cfg.ndomains; i++) {
      doms[i] = app_cfg.domains[i];
    }
    o.domains  = doms;
    o.ndomains = app_cfg.ndomains;
    mask |= ARES_OPT_DOMAINS;
  }
  if (!(app_cfg.lookups_via && app_cfg.lookups[0])) {
    o.lookups = app_cfg.lookups;
    mask |= ARES_OPT_LOOKUPS;
  }
  if (sim_cfg.legacy_poll == 0) {
    o.sock_state_cb      = app_sock_state_cb;
    o.sock_state_cb_data = NULL;
    mask |= ARES_OPT_SOCK_STATE_CB;
  }
  o.resolvconf_path = app_resolv;
  mask |= ARES_OPT_RESOLVCONF;
  o.hosts_path = app_hosts;
  mask |= ARES_OPT_HOSTS_FILE;
  if (app_cfg.udp_max_queries > 0) {
    o.udp_max_queries = app_cfg.udp_max_queries;
    mask |= ARES_OPT_UDP_MAX_QUERIES;
  }
  if (app_cfg.maxtimeout_ms > 0) {
    o.maxtimeout = app_cfg.maxtimeout_ms;
    mask |= ARES_OPT_MAXTIMEOUTMS;
  }
  if (app_cfg.qcache_max_ttl >= 0) {
    o.qcache_max_ttl = (unsigned int)app_cfg.qcache_max_ttl;
    mask |= ARES_OPT_QUERY_CACHE;
  }
  mask |= app_cfg.rotate ? ARES_OPT_ROTATE : ARES_OPT_NOROTATE;
  if (app_cfg.flags & ARES_FLAG_EDNS) {
    o.ednspsz = app_cfg.ednspsz;
    mask |= ARES_OPT_EDNSPSZ;
  }
  if (app_cfg.failover_set) {
    o.server_failover_opts.retry_chance = (unsigned short)app_cfg.failover_chance;
    o.server_failover_opts.retry_delay  = app_cfg.failover_delay_ms == -1 ? (size_t)-1 /* never, for all practical purposes */
                                        : app_cfg.failover_delay_ms == -2 ? (size_t)1 << (sizeof(size_t) * 8 - 1)
                                                                            : (size_t)app_cfg.failover_delay_ms;
    mask |= ARES_OPT_SERVER_FAILOVER;
  }
  rc = ares_init_options(&app_channel, &o, mask);
  if (rc != ARES_SUCCESS) {
    app_channel = NULL;
    return rc;
  }
  memset(&sf, 0, sizeof(sf));
  sf.version         = 1;
  sf.flags           = sim_cfg.nonblocking_flag ? ARES_SOCKFUNC_FLAG_NONBLOCKING : 0;
  sf.asocket         = vs_socket;
  sf.aclose          = vs_close;
  sf.asetsockopt     = vs_setsockopt;
  sf.aconnect        = vs_connect;
  sf.arecvfrom       = vs_recvfrom;
  sf.asendto         = vs_sendto;
  sf.agetsockname    = sim_cfg.have_getsockname ? vs_getsockname : NULL;
  sf.abind           = sim_cfg.have_bind ? vs_bind : NULL;
  sf.aif_nametoindex = vs_if_nametoindex;
  sf.aif_indextoname = vs_if_indextoname;
  rc                 = (int)ares_set_socket_functions_ex(app_channel, &sf, NULL);
  if (rc != ARES_SUCCESS) {
    return rc;
  }
  if (app_cfg.sortlist[0]) {
    ares_set_sortlist(app_channel, app_cfg.sortlist);
  }
  if (app_cfg.use_server_state_cb) {
    ares_set_server_state_callback(app_channel, app_server_state_cb, NULL);
  }
  if (app_cfg.local_bind) {
    static const unsigned char ip6[16] = { 0xfd, 0, 0, 0, 0, 0, 0, 0, 0, 0, 0, 0, 0, 0, 0, 0x99 };
    ares_set_local_ip4(app_channel, 0x0a090909);
    ares_set_local_ip6(app_channel, ip6);
    ares_set_local_dev(app_channel, "eth0");
  }
  if (sim_cfg.use_sock_cfg_cb) {
    ares_set_socket_configure_callback(app_channel, app_sock_cfg_cb, NULL);
  }
  if (sim_cfg.use_sock_create_cb) {
    ares_set_socket_callback(app_channel, app_sock_create_cb, NULL);
  }
  if (sim_cfg.use_pending_write_cb) {
    ares_set_pending_write_cb(app_channel, app_pending_write_cb, NULL);
  }
  app_servers_csv(csv, sizeof(csv), app_cfg.srv_cfg, app_cfg.nsrv_cfg);
  for (i = 0; i < app_cfg.nsrv_cfg; i++) {
    app_srv_ever_mask |= 1u << app_cfg.srv_cfg[i];
  }
  rc = ares_set_servers_ports_csv(app_channel, csv);
  return rc;
}

/* ------------------------------------------------------------------ processing the channel */
static int app_open_fds(int *out, int max)
{
  int fd, n = 0;
  for (fd = SIM_FD_BASE; fd < sim_next_fd && n < max; fd++) {
    if (vsock[fd].state == VS_OPEN) {
      out[n++] = fd;
    }
  }
  return n;
}

/* descriptors that are ready AND whose interest the library has announced (by the mechanism
 * the case uses: socket-state callback, ares_fds or ares_getsock) */
static int app_poll_mode(void)
{
  int mode = sim_cfg.legacy_poll;
  if (mode == 1 && sim_next_fd >= FD_SETSIZE) {
    mode = 2;
  }
  return mode;
}

static int app_collect(ares_fd_events_t *evs, int max_events)
{
  int           fds[1024];
  int           nfds = app_open_fds(fds, 1024);
  int           nev  = 0;
  int           i;
  fd_set        rset, wset;
  ares_socket_t gs[ARES_GETSOCK_MAXNUM];
  int           gsbits = 0;
  int           mode   = app_poll_mode();
  int           start;

  if (nfds == 0) {
    return 0;
  }
  if (mode == 1) {
    FD_ZERO(&rset);
    FD_ZERO(&wset);
    (void)ares_fds(app_channel, &rset, &wset);
  } else if (mode == 2) {
    memset(gs, 0xff, sizeof(gs));
    gsbits = ares_getsock(app_channel, gs, ARES_GETSOCK_MAXNUM);
  }
  /* random starting point so that "which fd first" varies */
  start = (int)vh_below(&seg_rng, (uint32_t)nfds);
  for (i = 0; i < nfds && nev < max_events; i++) {
    int fd = fds[(i + start) % nfds];
    int wr = 0, ww = 0, r, w;
    if (mode == 0) {
      wr = vsock[fd].ann_r;
      ww = vsock[fd].ann_w;
    } else if (mode == 1) {
      wr = FD_ISSET(fd, &rset) ? 1 : 0;
      ww = FD_ISSET(fd, &wset) ? 1 : 0;
    } else {
      int k;
      for (k = 0; k < ARES_GETSOCK_MAXNUM; k++) {
        if (gs[k] == fd) {
          wr = GS_R(gsbits, k) ? 1 : 0;
          ww = GS_W(gsbits, k) ? 1 : 0;
        }
      }
    }
    r = wr && vs_readable(fd);
    w = ww && vs_writable(fd);
    if (r || w) {
      evs[nev].fd     = fd;
      evs[nev].events = (r ? ARES_FD_EVENT_READ : 0) | (w ? ARES_FD_EVENT_WRITE : 0);
      nev++;
    }
  }
  return nev;
}

static int app_process_count;

/* one call into the library's processing entry point */
static int app_process(int only_timeouts, int max_events)
{
  ares_fd_events_t evs[1024];
  int              nev  = 0;
  int              i;
  int              mode = app_poll_mode();

  if (!only_timeouts) {
    nev = app_collect(evs, max_events > 1024 ? 1024 : max_events);
  }
  app_process_count++;
  app_in_process++;
  sim_note("process_calls");
  if (nev) {
    vh_count_n("fd_events_reported", (uint64_t)nev);
  }
  if (mode == 0) {
    (void)ares_process_fds(app_channel, nev ? evs : NULL, (size_t)nev, ARES_PROCESS_FLAG_NONE);
  } else if (mode == 1) {
    fd_set r2, w2;
    FD_ZERO(&r2);
    FD_ZERO(&w2);
    for (i = 0; i < nev; i++) {
      if (evs[i].events & ARES_FD_EVENT_READ) {
        FD_SET(evs[i].fd, &r2);
      }
      if (evs[i].events & ARES_FD_EVENT_WRITE) {
        FD_SET(evs[i].fd, &w2);
      }
    }
    ares_process(app_channel, &r2, &w2);
  } else {
    if (nev == 0) {
      ares_process_fd(app_channel, ARES_SOCKET_BAD, ARES_SOCKET_BAD);
    }
    for (i = 0; i < nev; i++) {
      /* a descriptor may have been closed by processing an earlier one: skip it, as an
       * application that tracks its descriptors would */
      if (vsock[evs[i].fd].state != VS_OPEN) {
        continue;
      }
      ares_process_fd(app_channel, (evs[i].events & ARES_FD_EVENT_READ) ? evs[i].fd : ARES_SOCKET_BAD,
                      (evs[i].events & ARES_FD_EVENT_WRITE) ? evs[i].fd : ARES_SOCKET_BAD);
    }
  }
  app_in_process--;
  app_outermost_return();
  if (app_pending_write_flag) {
    app_pending_write_flag = 0;
    ares_process_pending_write(app_channel);
  }
  mon_quiescent("process");
  return nev;
}

/* ------------------------------------------------------------------ scripted actions */
static void app_wait_reinit(void)
{
  int spins = 0;
  for (;;) {
    int pending;
    ares_channel_lock(app_channel);
    pending = app_channel->reinit_pending ? 1 : 0;
    ares_channel_unlock(app_channel);
    if (!pending) {
      break;
    }
    usleep(200);
    if (++spins > 50000) {
      vh_inconclusive("reinit-never-finished");
      break;
    }
  }
}

static void gen_alt_servers(int *idx, int *n, vh_rng_t *rng);

static int app_setsrv_in_cb_profile; /* set by the sub-workload whose completion callbacks replace the server list */
/* replace the server list (scripted, or from inside a completion callback) */
static void app_set_servers_now(int arg, int quiescent)
{

        int  idx[SIM_MAXSRV], n = 0, x_rc;
        char csv[1024];
        if (arg > 0) {
          idx[0] = arg - 1; /* scripted: exactly this one server */
          n      = 1;
        } else {
          gen_alt_servers(idx, &n, &app_rng);
        }
        app_servers_csv(csv, sizeof(csv), idx, n);
        sim_note("api_set_servers");
        {
          int x;
          for (x = 0; x < n; x++) {
            app_srv_ever_mask |= 1u << idx[x];
          }
        }
        if (hl_preconfig_hook) {
          hl_preconfig_hook(idx, n);
        }
        app_in_set_servers = 1;
        x_rc = (int)ares_set_servers_ports_csv(app_channel, csv);
        app_in_set_servers = 0;
        if (vh_verbose) {
          char *now_csv = ares_get_servers_csv(app_channel);
          vh_trace("set_servers '%s' -> %d; list now '%s'", csv, x_rc, now_csv ? now_csv : "(null)");
          ares_free_string(now_csv);
        }
        if (x_rc == ARES_SUCCESS && n > 0 && quiescent && (app_cfg.flags & ARES_FLAG_PRIMARY) && !app_setsrv_in_cb_profile) {
          /* (not in the sub-workload whose completion callbacks replace the server list themselves: a query ended while
           * this very call trims the list has its callback install another list underneath it - the open finding of
           * that sub-workload - and "the first of the list just given" has no meaning there) */
          /* ARES_FLAG_PRIMARY: "only query the first server in the list" - the first of the list just given, whatever
           * the servers' failure counts */
          char  want1[256];
          char *got1 = ares_get_servers_csv(app_channel);
          app_servers_csv(want1, sizeof(want1), idx, 1);
          sim_note("rule_primary_keeps_first");
          if (got1 != NULL && strcmp(got1, want1) != 0) {
            vh_violation("health:primary-not-first", "ARES_FLAG_PRIMARY and server list '%s': the channel keeps '%s', the first one is '%s'", csv, got1, want1);
          }
          ares_free_string(got1);
        }
        if (x_rc == ARES_SUCCESS) {
          /* does the (ordered) server list differ?  Re-installing the same list is not a change; the same servers in
           * another order are another list (the order is the failover order) */
          int differs = (n != app_cfg.nsrv_cfg), x;
          for (x = 0; x < n && !differs; x++) {
            if (app_cfg.srv_cfg[x] != idx[x]) {
              differs = 1;
            }
          }
          if (differs) {
            ck_epoch++;
          }
          memcpy(app_cfg.srv_cfg, idx, sizeof(int) * (size_t)n);
          app_cfg.nsrv_cfg = n;
          if (hl_config_hook) {
            hl_config_hook(idx, n);
          }
        }
        if (quiescent) {
          mon_quiescent("set_servers");
        }
}

static void app_do_action(app_act_t *a)
{
  a->done = 1;
  switch (a->kind) {
    case AA_START:
      app_start_token(a->tok);
      break;
    case AA_CANCEL:
      {
        uint8_t was[APP_MAXTOK];
        int     i;
        memset(was, 0, sizeof(was));
        for (i = 0; i < app_ntok; i++) {
          /* a request whose entry point has not returned yet is not "accepted" yet */
          was[i] = (uint8_t)(app_tok[i].started && app_tok[i].api_returned && app_tok[i].cb_count == 0);
        }
        sim_note("api_cancel");
        case_ev(5, 0);
        app_in_cancel++;
        ares_cancel(app_channel);
        app_in_cancel--;
        mon_after_cancel(was);
        mon_quiescent("cancel");
        break;
      }
    case AA_SET_SERVERS:
      app_set_servers_now(a->arg, 1);
      break;
    case AA_SET_SORTLIST:
      sim_note("api_set_sortlist");
      ares_set_sortlist(app_channel, a->arg ? "10.0.0.0/8 fd5e::/16" : "192.168.0.0/16");
      mon_quiescent("set_sortlist");
      break;
    case AA_REINIT:
      sim_note("api_reinit");
      if (a->arg == 2) {
        /* the configuration file cannot be read this time (a symbolic link to itself: ELOOP) */
        unlink(app_resolv);
        if (symlink("resolv.conf", app_resolv) != 0) { /* relative to its own directory: itself */
          a->arg = 0;
        }
        sim_note("api_reinit_unreadable_config");
      }
      if (ares_reinit(app_channel) == ARES_SUCCESS) {
        app_wait_reinit();
        ck_epoch++;
      }
      if (a->arg == 2) {
        unlink(app_resolv);
        app_write_file(app_resolv, app_cfg.resolv_content[0] ? app_cfg.resolv_content : "# simnet\n");
      }
      mon_quiescent("reinit");
      break;
    case AA_READONLY:
      {
        struct timeval tv;
        fd_set         r, w;
        ares_socket_t  socks[ARES_GETSOCK_MAXNUM];
        sim_note("api_readonly");
        (void)ares_timeout(app_channel, NULL, &tv);
        FD_ZERO(&r);
        FD_ZERO(&w);
        if (sim_next_fd < FD_SETSIZE) {
          (void)ares_fds(app_channel, &r, &w);
        }
        (void)ares_getsock(app_channel, socks, ARES_GETSOCK_MAXNUM);
        (void)ares_queue_active_queries(app_channel);
        break;
      }
    case AA_DUP:
      {
        ares_channel_t *d = NULL;
        sim_note("api_dup");
        if (ares_dup(&d, app_channel) == ARES_SUCCESS && d != NULL) {
          /* the copy's server list is the configured one, in the configured order - whatever order of preference the
           * original's servers are in right now because of their failures */
          char  want[1024];
          char *got = ares_get_servers_csv(d), *mine = ares_get_servers_csv(app_channel);
          app_servers_csv(want, sizeof(want), app_cfg.srv_cfg, app_cfg.nsrv_cfg);
          sim_note("rule_dup_server_order");
          if (got != NULL && strcmp(got, want) != 0 && strlen(got) == strlen(want) && app_same_tokens(got, want)) {
            vh_violation("cfg16:simdup:server-order", "configured servers %s, the copy made by ares_dup() has %s (the original lists %s)", want, got,
                         mine ? mine : "-");
          } else if (mine != NULL && strcmp(mine, want) != 0 && strlen(mine) == strlen(want) && app_same_tokens(mine, want)) {
            vh_violation("cfg16:simcsv:server-order", "configured servers %s, ares_get_servers_csv() reports %s", want, mine);
          }
          ares_free_string(got);
          ares_free_string(mine);
          ares_destroy(d);
        }
        if (a->arg) {
          /* the other whole-configuration readers */
          struct ares_options so;
          int                 smask = 0;
          char               *csv;
          memset(&so, 0, sizeof(so));
          /* as ares_dup() itself does: the options are released whatever save returned */
          (void)ares_save_options(app_channel, &so, &smask);
          ares_destroy_options(&so);
          csv = ares_get_servers_csv(app_channel);
          if (csv != NULL) {
            ares_free_string(csv);
          }
          sim_note("api_save_options");
        }
        break;
      }
    case AA_JUMP:
      sim_now_us += (int64_t)a->arg * 1000;
      sim_note("time_jump");
      break;
    case AA_CKBEHAVE:
      ck_set_behaviour(a->arg / 16, a->arg % 16);
      sim_note("cookie_behaviour_change");
      break;
    case AA_SRVMOOD:
      gen_srv_mood_fwd(a->arg / 16, a->arg % 16);
      sim_note("server_mood_change");
      break;
    case AA_ADVERSARY:
      prov_inject();
      break;
    case AA_LOCALADDR:
      sim_cfg.local4[3] = (uint8_t)(sim_cfg.local4[3] + 1);
      sim_cfg.local6[15] = (uint8_t)(sim_cfg.local6[15] + 1);
      sim_note("local_addr_change");
      break;
    default:
      break;
  }
}

static int64_t app_next_action_time(void)
{
  int     i;
  int64_t best = -1;
  for (i = 0; i < app_nact; i++) {
    if (!app_act[i].done && (best < 0 || app_act[i].t < best)) {
      best = app_act[i].t;
    }
  }
  return best;
}

/* fire sim events due now; `limit` > 0 fires at most that many (seeded choice among the due) */
static int app_fire_due_events(int limit)
{
  int fired = 0;
  for (;;) {
    int due[64], nd = 0, i, pick;
    for (i = 0; i < sim_nev && nd < 64; i++) {
      if (sim_ev[i].live && sim_ev[i].t <= sim_now_us) {
        due[nd++] = i;
      }
    }
    if (nd == 0) {
      break;
    }
    if (sim_fifo_events) {
      /* A/B differential: common events fire in the same (time, insertion) order in both runs */
      int k, best = due[0];
      for (k = 1; k < nd; k++) {
        if (sim_ev[due[k]].t < sim_ev[best].t || (sim_ev[due[k]].t == sim_ev[best].t && sim_ev[due[k]].seq < sim_ev[best].seq)) {
          best = due[k];
        }
      }
      pick = best;
    } else {
      pick = due[vh_below(&sim_rng, (uint32_t)nd)];
    }
    {
      sim_ev_t e = sim_ev[pick];
      sim_ev[pick].live = 0;
      switch (e.kind) {
        case EV_DELIVER:
          sim_deliver(e.fd, e.pkt);
          break;
        case EV_CONNECT_DONE:
          if (vsock[e.fd].state == VS_OPEN && vsock[e.fd].conn == VC_PENDING) {
            vsock[e.fd].conn = e.arg ? VC_ESTABLISHED : VC_FAILED;
            if (e.arg) {
              vsock[e.fd].ever_connected = 1;
            }
            sim_note(e.arg ? "tcp_connect_completed" : "tcp_connect_refused_late");
          }
          break;
        case EV_SRV_CLOSE:
          if (vsock[e.fd].state == VS_OPEN) {
            vsock[e.fd].eof_pending = 1;
            sim_note("tcp_server_closed");
          }
          break;
        case EV_SRV_RESET:
          if (vsock[e.fd].state == VS_OPEN) {
            vsock[e.fd].reset_pending = 1;
            sim_note("conn_reset");
          }
          break;
        default:
          break;
      }
    }
    fired++;
    if (limit > 0 && fired >= limit) {
      break;
    }
  }
  return fired;
}

static int app_any_ready(void)
{
  ares_fd_events_t evs[4];
  return app_collect(evs, 1) > 0;
}

typedef struct {
  int    max_steps;
  int    skip_chance_pm;      /* chance (permille) to advance past the next deadline by a random amount */
  int    timeouts_first_pm;   /* chance to call process with no fds before reporting fds */
  int    one_event_pm;        /* chance to fire a single due event per step */
  int    idle_ms_after;       /* keep running this long after everything completed (late packets) */
  int    destroy_at_step;     /* >0: leave the loop at this step (destroy with requests outstanding) */
} app_sched_t;
static app_sched_t app_sched;
static int         app_steps;
static int         app_stuck;

static void mon_stuck(void);
static void mon_timer_check_fwd(void);
static void mon_progress_check(int64_t deadline_before, int had_fd_events);
static void mon_progress_blackbox(int64_t deadline_before, int nev, long dtx, long dcb, long dcalls);

static void app_run(void)
{
  int64_t idle_until = -1;
  app_steps          = 0;
  for (;;) {
    int64_t        t_act = app_next_action_time();
    int64_t        t_ev  = sim_ev_next_time();
    int64_t        t_lib = -1;
    int64_t        t;
    struct timeval tv, *tvp;
    int            nq;
    int            ready;

    if (++app_steps > app_sched.max_steps) {
      vh_inconclusive("step-cap");
      sim_note("step_cap_hit");
      break;
    }
    if (app_sched.destroy_at_step && app_steps >= app_sched.destroy_at_step) {
      sim_note("early_destroy");
      break;
    }
    mon_timer_check_fwd();
    nq = (int)ares_queue_active_queries(app_channel);
    if (nq > 0) {
      tvp = ares_timeout(app_channel, NULL, &tv);
      if (tvp != NULL) {
        t_lib = sim_now_us + (int64_t)tvp->tv_sec * 1000000 + tvp->tv_usec;
      }
    }
    ready = app_any_ready();
    if (app_outstanding == 0 && t_act < 0 && !ready) {
      /* everything completed: linger for late packets, then stop */
      if (idle_until < 0) {
        idle_until = sim_now_us + (int64_t)app_sched.idle_ms_after * 1000;
      }
      if (t_ev < 0 || t_ev > idle_until) {
        break;
      }
    }
    if (ready) {
      t = sim_now_us;
    } else {
      t = -1;
      if (t_act >= 0) {
        t = t_act;
      }
      if (t_ev >= 0 && (t < 0 || t_ev < t)) {
        t = t_ev;
      }
      if (t_lib >= 0 && (t < 0 || t_lib < t)) {
        t = t_lib;
      }
      if (t < 0) {
        /* requests outstanding, but no timer, no packet in flight, no scripted action: stuck */
        mon_stuck();
        app_stuck = 1;
        break;
      }
      if (t_lib >= 0 && t == t_lib && app_sched.skip_chance_pm &&
          (int)vh_below(&sim_rng, 1000) < app_sched.skip_chance_pm) {
        /* the application was busy: wakes up late */
        t += (int64_t)vh_below(&sim_rng, 3000000);
        sim_note("late_wakeup");
      }
    }
    if (t > sim_now_us) {
      sim_now_us = t;
    }
    /* the application asks for the hint again after waking up (possibly late: deadlines overdue) */
    mon_timer_check_fwd();
    /* scripted actions due */
    {
      int i;
      for (i = 0; i < app_nact; i++) {
        if (!app_act[i].done && app_act[i].t <= sim_now_us) {
          app_do_action(&app_act[i]);
        }
      }
      /* the application acts on the "write pending" notification at the end of its loop iteration, i.e. right
       * after the calls that queued the data - possibly before a connection those calls opened is established */
      if (app_pending_write_flag && app_channel != NULL && !sim_destroyed) {
        app_pending_write_flag = 0;
        sim_note("pending_write_processed_after_actions");
        ares_process_pending_write(app_channel);
      }
    }
    /* network events due */
    if (app_sched.one_event_pm && (int)vh_below(&sim_rng, 1000) < app_sched.one_event_pm) {
      app_fire_due_events(1);
    } else {
      app_fire_due_events(0);
    }
    /* hand readiness / timeouts to the library */
    {
      int64_t deadline_before = t_lib;
      int     nev;
      long    tx0 = sim_ntx, cb0 = app_total_cb, calls0 = sim_callcount_all;
      if (app_sched.timeouts_first_pm && (int)vh_below(&sim_rng, 1000) < app_sched.timeouts_first_pm) {
        app_process(1, 0);
        sim_note("timeouts_before_reads");
      }
      nev = app_process(0, sim_cfg.one_fd_per_call ? 1 : 1024);
      mon_progress_check(deadline_before, nev);
      mon_progress_blackbox(deadline_before, nev, sim_ntx - tx0, app_total_cb - cb0, sim_callcount_all - calls0);
    }
  }
}
