/* sim_srv.h - virtual DNS servers: decode what the library transmitted (own decoder), log the
 * transmission, choose an action, build the response with a provenance serial, schedule delivery. */

static void (*srv_tx_hook)(sim_tx_t *tx, const sdns_query_t *q, const uint8_t *msg, size_t len);
static int (*srv_cookie_hook)(int srvidx, const sdns_query_t *q, int is_tcp, int *action, uint8_t *ck, size_t *cklen);
static void (*srv_frame_hook)(int srvidx, int fd, int is_tcp, const uint8_t *msg, size_t len);
static void (*srv_sent_hook)(int srvidx, int fd, int is_tcp, int txidx, int action, int64_t delay_us); /* genuine reply scheduled */


static uint32_t sim_new_serial(int srv, int fd, uint16_t qid, int action, int forged, uint32_t deviation, int txidx)
{
  sim_pktinfo_t *pi;
  if (sim_npkt >= SIM_MAXPKT) {
    return 0;
  }
  pi = &sim_pktinfo[sim_npkt++];
  memset(pi, 0, sizeof(*pi));
  pi->serial    = sim_npkt;
  pi->srv       = srv;
  pi->fd        = fd;
  pi->qid       = qid;
  pi->action    = action;
  pi->forged    = forged;
  pi->deviation = deviation;
  pi->t_inject  = sim_now_us;
  pi->txidx     = txidx;
  vh_trace("  srv%d answers id %u on fd %d: packet serial %u, %s", srv, qid, fd, pi->serial,
           (action >= 0 && action < (int)(sizeof(sa_names) / sizeof(sa_names[0]))) ? sa_names[action] : "?");
  return pi->serial;
}

static sim_rule_t *srv_match_rule(vsrv_t *s, const sdns_query_t *q, int *idx)
{
  int i;
  for (i = 0; i < s->nrules; i++) {
    sim_rule_t *r = &s->rules[i];
    if (r->qtype && r->qtype != q->qtype) {
      continue;
    }
    if (strcmp(r->name, "*") != 0 && strcmp(r->name, q->qname) != 0) {
      continue;
    }
    if (r->max_uses && r->uses >= r->max_uses) {
      continue;
    }
    r->uses++;
    *idx = i;
    return r;
  }
  return NULL;
}

static int srv_pick_weighted(const uint16_t *w)
{
  uint32_t tot = 0, r;
  int      i;
  for (i = 0; i < SA__COUNT; i++) {
    tot += w[i];
  }
  if (tot == 0) {
    return SA_ANSWER;
  }
  r = vh_below(&sim_rng, tot);
  for (i = 0; i < SA__COUNT; i++) {
    if (r < w[i]) {
      return i;
    }
    r -= w[i];
  }
  return SA_ANSWER;
}

/* append the data records for an ANSWER */
static void srv_build_answer_rrs(sdns_out_t *o, const sdns_query_t *q, uint32_t serial, int nrec, uint32_t ttl,
                                 int cname_chain, int other_family, uint16_t cls)
{
  int      k, kk;
  char     owner[128];
  int      have_owner = 0;
  uint16_t qt         = q->qtype;

  /* CNAME chain: question -> c1 -> c2 ... ; data records are owned by the last target */
  for (k = 0; k < cname_chain; k++) {
    char   tgt[128];
    size_t at;
    snprintf(tgt, sizeof(tgt), "c%d.s%u.cn.test", k, serial);
    at = sdns_rr_begin(o, 1, have_owner ? owner : NULL, 12, SDNS_T_CNAME, cls, ttl > 3 ? ttl - (uint32_t)(k % 3) : ttl);
    sdns_put_name_text(o, tgt);
    sdns_rr_end(o, at);
    snprintf(owner, sizeof(owner), "%s", tgt);
    have_owner = 1;
  }
  if (qt == SDNS_T_CNAME) {
    return;
  }
  /* other_family: 0 none; 1 wanted/other alternating; 2 all records of the other family first, then the wanted ones;
   * 3 the wanted ones first (runs of consecutive foreign records) */
  for (kk = 0; kk < nrec * ((other_family >= 2 && (qt == SDNS_T_A || qt == SDNS_T_AAAA)) ? 2 : 1); kk++) {
    size_t at;
    int    round = kk / nrec;
    k            = kk % nrec;
    if (o->len > 65000) {
      break; /* a DNS message cannot exceed 65535 bytes */
    }
    switch (qt) {
      case SDNS_T_A:
      case SDNS_T_AAAA:
        {
          int pass;
          int reps = (sim_answer_dup_every && (k % sim_answer_dup_every) == 0) ? 2 : 1;
          for (pass = 0; pass < (other_family == 1 ? 2 : 1) * reps; pass++) {
            uint16_t other = (uint16_t)(qt == SDNS_T_A ? SDNS_T_AAAA : SDNS_T_A);
            uint16_t t     = (pass % (other_family == 1 ? 2 : 1)) == 0 ? qt : other;
            if (other_family >= 2) {
              t = ((other_family == 2) == (round == 0)) ? other : qt;
            }
            uint16_t rc = (sim_answer_foreign_class_every && (k % sim_answer_foreign_class_every) == 1) ? 3 : cls;
            at          = sdns_rr_begin(o, 1, have_owner ? owner : NULL, 12, t, rc, ttl);
            if (t == SDNS_T_A) {
              sdns_put8(o, 10);
              sdns_put8(o, (unsigned)k & 0xff);
              sdns_put16(o, serial & 0xffff);
            } else {
              uint8_t a6[16] = { 0xfd, 0x5e, 0, 0, 0, 0, 0, 0, 0, 0, 0, 0, 0, 0, 0, 0 };
              a6[2]          = (uint8_t)((k % 3 == 2) ? 1 : 0); /* every third address is in fd5e:100::/24 */
              a6[11]         = (uint8_t)(k >> 8);
              a6[12]         = (uint8_t)k;
              a6[14]         = (uint8_t)(serial >> 8);
              a6[15]         = (uint8_t)serial;
              sdns_put(o, a6, 16);
            }
            sdns_rr_end(o, at);
          }
          break;
        }
      case SDNS_T_PTR:
      case SDNS_T_NS:
        {
          char t[128];
          snprintf(t, sizeof(t), "p%d.s%u.ptr.test", k, serial);
          at = sdns_rr_begin(o, 1, have_owner ? owner : NULL, 12, qt, cls, ttl);
          sdns_put_name_text(o, t);
          sdns_rr_end(o, at);
          break;
        }
      case SDNS_T_MX:
        {
          char t[128];
          snprintf(t, sizeof(t), "mx%d.s%u.mx.test", k, serial);
          at = sdns_rr_begin(o, 1, have_owner ? owner : NULL, 12, qt, cls, ttl);
          sdns_put16(o, (unsigned)(10 + k));
          sdns_put_name_text(o, t);
          sdns_rr_end(o, at);
          break;
        }
      case SDNS_T_SOA:
        {
          char t[128];
          snprintf(t, sizeof(t), "ns.s%u.soa.test", serial);
          at = sdns_rr_begin(o, 1, have_owner ? owner : NULL, 12, qt, cls, ttl);
          sdns_put_name_text(o, t);
          sdns_put_name_text(o, "hostmaster.soa.test");
          sdns_put32(o, serial);
          sdns_put32(o, 3600);
          sdns_put32(o, 600);
          sdns_put32(o, 86400);
          sdns_put32(o, ttl);
          sdns_rr_end(o, at);
          break;
        }
      case SDNS_T_TXT:
      default:
        {
          char t[64];
          int  n = snprintf(t, sizeof(t), "s=%u;k=%d", serial, k);
          at     = sdns_rr_begin(o, 1, have_owner ? owner : NULL, 12, qt == SDNS_T_TXT ? SDNS_T_TXT : qt, cls, ttl);
          sdns_put8(o, (unsigned)n);
          sdns_put(o, t, (size_t)n);
          sdns_rr_end(o, at);
          break;
        }
    }
  }
}

static void srv_soa_authority(sdns_out_t *o, uint32_t serial, uint32_t soa_ttl, uint32_t soa_min)
{
  char   t[128];
  size_t at;
  snprintf(t, sizeof(t), "ns.s%u.soa.test", serial);
  at = sdns_rr_begin(o, 2, "soa.test", 0, SDNS_T_SOA, 1, soa_ttl);
  sdns_put_name_text(o, t);
  sdns_put_name_text(o, "hostmaster.soa.test");
  sdns_put32(o, serial);
  sdns_put32(o, 3600);
  sdns_put32(o, 600);
  sdns_put32(o, 86400);
  sdns_put32(o, soa_min);
  sdns_rr_end(o, at);
}

/* default server-side cookie: 8 bytes derived from secret and client cookie */
static void srv_default_cookie(vsrv_t *s, const sdns_query_t *q, uint8_t *ck, size_t *cklen)
{
  uint64_t h = vh_fnv(VH_FNV_INIT, s->ck_secret, 8);
  h          = vh_fnv(h, q->cookie, 8);
  if (s->ck_mode == 2) {
    /* rotating server cookie: a fresh one in every response */
    h = vh_fnv_u64(h, (uint64_t)++s->ck_counter);
  }
  memcpy(ck, q->cookie, 8);
  memcpy(ck + 8, &h, 8);
  *cklen = 16;
}

typedef struct {
  int      action;
  int      nrec;
  uint32_t ttl;
  int      cname_chain;
  int      other_family;
  uint32_t soa_ttl, soa_min;
} srv_plan_t;

static void (*srv_built_hook)(uint32_t serial, const sdns_query_t *q, const srv_plan_t *pl, int srvidx);
static void (*srv_cookie_built_hook)(uint32_t serial, const sdns_query_t *q, const uint8_t *ck, size_t cklen, int action);

/* Build one response for query q (raw bytes msg) according to plan; returns serial */
static uint32_t srv_build(int srvidx, int fd, const sdns_query_t *q, const srv_plan_t *pl, sdns_out_t *o, int txidx,
                          const uint8_t *ck, size_t cklen)
{
  vsrv_t  *s      = &sim_srv[srvidx];
  uint16_t flags  = (uint16_t)(0x8000 | (q->rd ? 0x0100 : 0) | 0x0080 | (q->cd ? 0x0010 : 0) | (q->opcode << 11));
  uint16_t id     = q->id;
  int      rcode  = 0;
  int      forged = 0;
  uint32_t dev    = 0;
  uint32_t serial;
  uint8_t  qn[256];
  size_t   qnl   = q->qname_wire_len;
  uint16_t qtype = q->qtype, qclass = q->qclass;
  int      with_opt = q->has_opt;
  int      action   = pl->action;
  (void)s;

  memcpy(qn, q->qname_wire, qnl);
  switch (action) {
    case SA_NXDOMAIN:
    case SA_NXDOMAIN_NOSOA:
      rcode = 3;
      break;
    case SA_SERVFAIL:
      rcode = 2;
      break;
    case SA_REFUSED:
      rcode = 5;
      break;
    case SA_NOTIMP:
      rcode = 4;
      break;
    case SA_FORMERR_NOOPT:
      rcode    = 1;
      with_opt = 0;
      break;
    case SA_FORMERR_OPT:
      rcode = 1;
      break;
    case SA_TC:
      flags |= 0x0200;
      break;
    case SA_BADCOOKIE:
      rcode = 23 & 0xf; /* low 4 bits in header, high bits in OPT ttl */
      break;
    case SA_WRONGID:
      id     = (uint16_t)(id + 1 + vh_below(&sim_rng, 1000));
      forged = 1;
      dev |= 1;
      break;
    case SA_WRONGNAME:
      {
        size_t i;
        int    how = (int)vh_below(&sim_rng, 5);
        forged = 1;
        dev |= 2;
        if (how == 1 && qnl >= 2 && qnl + 10 <= sizeof(qn)) {
          /* the asked name with more labels behind it: www.example.com.evil.test */
          static const uint8_t tail[] = { 4, 'e', 'v', 'i', 'l', 4, 't', 'e', 's', 't', 0 };
          memcpy(qn + qnl - 1, tail, sizeof(tail));
          qnl = qnl - 1 + sizeof(tail);
          break;
        }
        if ((how == 2 || how == 3) && qnl >= 3) {
          /* last label one letter longer (www.example.comx) / one letter shorter */
          size_t off = 0, last = 0;
          while (off < qnl && qn[off] != 0) {
            last = off;
            off += (size_t)qn[off] + 1;
          }
          if (how == 2 && qn[last] < 63 && qnl + 1 <= sizeof(qn)) {
            qn[last]++;
            qn[qnl - 1] = 'x';
            qn[qnl]     = 0;
            qnl++;
            break;
          }
          if (how == 3 && qn[last] >= 2) {
            qn[last]--;
            qn[qnl - 2] = 0;
            qnl--;
            break;
          }
        }
        if (how == 4 && qnl >= 3) {
          /* the last letter instead of the first */
          size_t j2 = qnl - 2;
          if (isalpha(qn[j2])) {
            qn[j2] = (uint8_t)((tolower(qn[j2]) == 'x') ? 'y' : 'x');
            break;
          }
        }
        for (i = 1; i < qnl; i++) {
          if (isalpha(qn[i])) {
            qn[i] = (uint8_t)((tolower(qn[i]) == 'x') ? 'y' : 'x');
            break;
          }
        }
        if (i >= qnl) {
          /* no letter to change: change type instead */
          qtype = (uint16_t)(qtype + 1);
          dev |= 4;
        }
        break;
      }
    case SA_WRONGTYPE:
      qtype  = (uint16_t)(qtype == SDNS_T_A ? SDNS_T_AAAA : SDNS_T_A);
      forged = 1;
      dev |= 4;
      break;
    case SA_WRONGCLASS:
      qclass = (uint16_t)(qclass == 1 ? 3 : 1);
      forged = 1;
      dev |= 8;
      break;
    case SA_WRONGCASE:
      {
        size_t i;
        int    changed = 0;
        for (i = 1; i < qnl; i++) {
          if (isalpha(qn[i])) {
            qn[i] ^= 0x20;
            changed = 1;
            break;
          }
        }
        if (changed) {
          dev |= 16; /* forged only when 0x20 is in force; decided by the prov monitor */
        }
        break;
      }
    case SA_WRONGADDR:
      forged = 1;
      dev |= 32;
      break;
    case SA_NOQUESTION:
      forged = 1;
      dev |= 64;
      break;
    default:
      break;
  }
  serial = sim_new_serial(srvidx, fd, id, action, forged, dev, txidx);
  sdns_begin(o, id, (uint16_t)(flags | (rcode & 0xf)));
  if (action != SA_NOQUESTION) {
    sdns_question_wire(o, qn, qnl, qtype, qclass);
  }
  switch (action) {
    case SA_ANSWER:
    case SA_DUP:
    case SA_WRONGID:
    case SA_WRONGNAME:
    case SA_WRONGTYPE:
    case SA_WRONGCLASS:
    case SA_WRONGCASE:
    case SA_WRONGADDR:
    case SA_NOQUESTION:
    case SA_TC:
      if (action != SA_NOQUESTION) {
        sdns_query_t qq = *q;
        qq.qtype        = q->qtype;
        srv_build_answer_rrs(o, &qq, serial, action == SA_TC ? 1 : pl->nrec, pl->ttl, pl->cname_chain,
                             pl->other_family, qclass);
        if (sim_answer_auth_soa_ttl && (action == SA_ANSWER || action == SA_DUP)) {
          srv_soa_authority(o, serial, sim_answer_auth_soa_ttl, sim_answer_auth_soa_ttl);
        }
      }
      break;
    case SA_NXDOMAIN:
    case SA_NODATA:
      srv_soa_authority(o, serial, pl->soa_ttl, pl->soa_min);
      if (sim_neg_ns_ttl) {
        /* the zone's NS record beside the SOA, as authoritative servers send it: one more TTL the response carries */
        size_t at = sdns_rr_begin(o, 2, "soa.test", 0, SDNS_T_NS, 1, sim_neg_ns_ttl);
        sdns_put_name_text(o, "ns1.soa.test");
        sdns_rr_end(o, at);
      }
      break;
    case SA_SERVFAIL:
    case SA_REFUSED:
    case SA_NOTIMP:
    case SA_FORMERR_OPT:
    case SA_FORMERR_NOOPT:
      if (sim_error_soa_ttl) {
        /* an error reply that is not empty: it would have a lifetime if anything kept it */
        srv_soa_authority(o, serial, sim_error_soa_ttl, sim_error_soa_ttl);
      }
      break;
    default:
      break;
  }
  if (with_opt) {
    uint32_t ottl = 0;
    if (action == SA_BADCOOKIE) {
      ottl = ((uint32_t)(23 >> 4)) << 24;
    }
    sdns_opt(o, 1232, ottl, cklen ? ck : NULL, cklen);
  }
  if (action == SA_TC && sim_srv[srvidx].tc_cut && fd >= 0 && !vsock[fd].is_tcp && o->len > 12 + q->qname_wire_len + 4 + 6) {
    /* TC set and the message really truncated: counts in the header promise more than the datagram holds */
    o->len -= 3;
    sim_note("srv_tc_answer_cut_short");
  }
  if (serial && srv_cookie_built_hook) {
    srv_cookie_built_hook(serial, q, with_opt ? ck : NULL, with_opt ? cklen : 0, action);
  }
  if (serial) {
    sim_pktinfo[serial - 1].srv_cookie = (with_opt && cklen > 8);
    sim_pktinfo[serial - 1].rcode = (action == SA_BADCOOKIE) ? 23 : rcode;
    sim_pktinfo[serial - 1].tc    = (action == SA_TC);
  }
  return serial;
}

static void srv_send_pkt(int srvidx, int fd, int is_tcp, const uint8_t *data, size_t len, uint32_t serial, int64_t delay_us,
                         int from_srv)
{
  sim_pkt_t *p;
  (void)srvidx;
  if (is_tcp) {
    uint8_t *b = (uint8_t *)malloc(len + 2);
    b[0]       = (uint8_t)(len >> 8);
    b[1]       = (uint8_t)len;
    memcpy(b + 2, data, len);
    p = sim_pkt_new(b, len + 2, from_srv, serial);
    free(b);
  } else {
    p = sim_pkt_new(data, len, from_srv, serial);
  }
  sim_ev_add(sim_now_us + delay_us, EV_DELIVER, fd, 0, p);
}

static int64_t srv_delay_us(const vsrv_t *s)
{
  int64_t ms = s->delay_min_ms;
  if (s->delay_max_ms > s->delay_min_ms) {
    ms += vh_below(&sim_rng, (uint32_t)(s->delay_max_ms - s->delay_min_ms + 1));
  }
  if (sim_no_subms_jitter) {
    return ms * 1000;
  }
  return ms * 1000 + (int64_t)vh_below(&sim_rng, 1000);
}

static sdns_out_t srv_out; /* big scratch */

static void srv_receive(int srvidx, int fd, int is_tcp, const uint8_t *msg, size_t len)
{
  vsrv_t      *s;
  sdns_query_t q;
  sim_tx_t    *tx = NULL;
  int          txidx = -1;
  srv_plan_t   pl;
  int          ridx = -1;
  sim_rule_t  *r;
  uint8_t      ck[40];
  size_t       cklen = 0;
  uint32_t     serial;
  int64_t      d;

  if (srvidx < 0 || srvidx >= sim_nsrv) {
    return;
  }
  s = &sim_srv[srvidx];
  s->nrx++;
  if (is_tcp) {
    s->nrx_tcp++;
  } else {
    s->nrx_udp++;
  }
  vsock[fd].nqueries++;
  sim_note(is_tcp ? "tx_tcp" : "tx_udp");
  if (srv_frame_hook) {
    srv_frame_hook(srvidx, fd, is_tcp, msg, len);
  }
  sdns_decode_query(msg, len, &q);
  if (sim_ntx < SIM_MAXTX) {
    txidx = sim_ntx;
    tx    = &sim_tx[sim_ntx++];
    memset(tx, 0, sizeof(*tx));
    tx->t          = sim_now_us;
    tx->srv        = srvidx;
    tx->fd         = fd;
    tx->tcp        = is_tcp;
    tx->qid        = q.id;
    tx->qtype      = q.qtype;
    tx->qclass     = q.qclass;
    tx->has_opt    = q.has_opt;
    tx->has_cookie = q.has_cookie;
    tx->cookie_len = q.cookie_len;
    memcpy(tx->cookie, q.cookie, q.cookie_len);
    tx->rd         = q.rd;
    tx->cd         = q.cd;
    tx->opcode     = q.opcode;
    tx->wellformed = q.ok && q.wellformed;
    snprintf(tx->qname, sizeof(tx->qname), "%s", q.qname);
    snprintf(tx->qname_case, sizeof(tx->qname_case), "%s", q.qname_case);
    tx->lib_timeout_after_us = -1;
    tx->rule_idx             = -1;
    memcpy(tx->local_addr, vsock[fd].local, 16);
  }
  vh_trace("t=%lldms srv%d rx %s fd %d id %u q '%s' type %u opt %d cookie %d(len %zu)", (long long)((sim_now_us % 1000000000000LL) / 1000), srvidx, is_tcp ? "tcp" : "udp", fd, q.id,
           q.qname_case, q.qtype, q.has_opt, q.has_cookie, q.cookie_len);
  if (!q.ok) {
    /* the library transmitted something our decoder cannot read as a query */
    if (tx) {
      tx->action = SA_SILENT;
    }
    sim_note("tx_undecodable");
    /* E1 frame monitor (C03): what the library hands to a socket is always one whole, well-formed query -
     * never an empty datagram, a bare length prefix or a torn message */
    vh_violation(is_tcp ? "frame:undecodable-transmission:tcp" : "frame:undecodable-transmission:udp",
                 "server %d received %zu octets on descriptor %d that do not decode as a DNS query (first octets %02x %02x %02x %02x)", srvidx, len, fd,
                 len > 0 ? msg[0] : 0, len > 1 ? msg[1] : 0, len > 2 ? msg[2] : 0, len > 3 ? msg[3] : 0);
    if (srv_tx_hook && tx) {
      srv_tx_hook(tx, &q, msg, len);
    }
    return;
  }

  if (!q.wellformed) {
    /* decodable question, but the message does not end where its records end (e.g. two messages glued into one
     * datagram, a stray length prefix, a record cut short) */
    vh_violation(is_tcp ? "frame:malformed-transmission:tcp" : "frame:malformed-transmission:udp",
                 "server %d received %zu octets on descriptor %d for '%s' that are not exactly one well-formed query", srvidx, len, fd, q.qname);
  }
  memset(&pl, 0, sizeof(pl));
  r = srv_match_rule(s, &q, &ridx);
  if (r) {
    pl.action       = r->action;
    pl.nrec         = r->nrec;
    pl.ttl          = r->ttl;
    pl.cname_chain  = r->cname_chain;
    pl.other_family = r->other_family;
    if (tx) {
      tx->rule_idx = ridx;
    }
  } else {
    pl.action = srv_pick_weighted(is_tcp ? s->w_tcp : s->w_udp);
    pl.nrec   = s->default_nrec > 0 ? s->default_nrec : 1;
    pl.ttl    = s->default_ttl;
  }
  pl.soa_ttl = pl.ttl ? pl.ttl : s->default_ttl;
  pl.soa_min = pl.soa_ttl;
  if (q.qtype == SDNS_T_A || q.qtype == SDNS_T_AAAA || q.qtype == SDNS_T_PTR || q.qtype == SDNS_T_TXT ||
      q.qtype == SDNS_T_MX || q.qtype == SDNS_T_NS || q.qtype == SDNS_T_SOA || q.qtype == SDNS_T_CNAME) {
    /* supported data types */
  } else if (pl.action == SA_ANSWER || pl.action == SA_DUP) {
    /* answer of TXT-shaped rdata under the asked type */
  }
  if (pl.action == SA_TC && is_tcp && !s->tc_over_tcp) {
    pl.action = SA_ANSWER;
  }
  if (!is_tcp && (pl.action == SA_CLOSE)) {
    pl.action = SA_SILENT;
  }
  if (pl.action == SA_BADCOOKIE && (!q.has_opt || is_tcp)) {
    pl.action = SA_ANSWER;
  }
  /* cookies */
  if (srv_cookie_hook) {
    srv_cookie_hook(srvidx, &q, is_tcp, &pl.action, ck, &cklen);
  } else if (s->ck_mode >= 1 && q.has_cookie && q.cookie_len >= 8 && !is_tcp) {
    srv_default_cookie(s, &q, ck, &cklen);
  }
  if (tx) {
    tx->action = pl.action;
  }
  case_ev(2, (unsigned)(is_tcp * 64 + pl.action));
  {
    char nm[64];
    snprintf(nm, sizeof(nm), "srv_action_%s", sa_names[pl.action]);
    sim_note(nm);
  }
  if (srv_tx_hook && tx) {
    srv_tx_hook(tx, &q, msg, len);
  }

  d = srv_delay_us(s);
  switch (pl.action) {
    case SA_SILENT:
      return;
    case SA_CLOSE:
      sim_ev_add(sim_now_us + d, EV_SRV_CLOSE, fd, 0, NULL);
      return;
    case SA_RESET:
      sim_ev_add(sim_now_us + d, EV_SRV_RESET, fd, 0, NULL);
      return;
    case SA_GARBAGE:
      {
        uint8_t g[64];
        size_t  n = 1 + vh_below(&sim_rng, 60), i;
        for (i = 0; i < n; i++) {
          g[i] = (uint8_t)vh_below(&sim_rng, 256);
        }
        if (n >= 2 && vh_chance(&sim_rng, 1, 2)) {
          g[0] = (uint8_t)(q.id >> 8);
          g[1] = (uint8_t)q.id;
        }
        serial = sim_new_serial(srvidx, fd, q.id, SA_GARBAGE, 1, 128, txidx);
        if (!is_tcp && n >= 12 && g[0] == (uint8_t)(q.id >> 8) && g[1] == (uint8_t)q.id && (g[2] & 0x80) && (g[2] & 0x02) &&
            txidx >= 0) {
          /* by its header a truncated response to this very query: whatever follows the header, it says "use TCP" */
          sim_tx[txidx].garbage_says_tc = 1;
          sim_note("srv_garbage_with_tc_header");
        }
        srv_send_pkt(srvidx, fd, is_tcp, g, n, serial, d, srvidx);
        return;
      }
    case SA_ZEROLEN:
      serial = sim_new_serial(srvidx, fd, q.id, SA_ZEROLEN, 1, 256, txidx);
      srv_send_pkt(srvidx, fd, is_tcp, (const uint8_t *)"", 0, serial, d, srvidx);
      return;
    default:
      break;
  }
  serial = srv_build(srvidx, fd, &q, &pl, &srv_out, txidx, ck, cklen);
  if (srv_built_hook) {
    srv_built_hook(serial, &q, &pl, srvidx);
  }
  if (srv_out.overflow || srv_out.len > 65535) {
    return;
  }
  if (sim_zerolen_with_udp_reply && !is_tcp) {
    uint32_t zs = sim_new_serial(srvidx, fd, q.id, SA_ZEROLEN, 1, 256, txidx);
    srv_send_pkt(srvidx, fd, 0, (const uint8_t *)"", 0, zs, d, srvidx);
    sim_note("zerolen_next_to_reply");
  }
  srv_send_pkt(srvidx, fd, is_tcp, srv_out.b, srv_out.len, serial, d, pl.action == SA_WRONGADDR ? -1 : srvidx);
  if (!is_tcp && s->dup_copies > 1 &&
      (pl.action == SA_TC || pl.action == SA_SERVFAIL || pl.action == SA_REFUSED || pl.action == SA_FORMERR_NOOPT)) {
    /* (not BADCOOKIE: every copy of that one that reaches the re-sent query is a bad-cookie reply in its own right) */
    /* the same datagram again (a retransmitting middlebox, a server that answers every copy of a query it saw):
     * the copies arrive with the original */
    int k;
    for (k = 1; k < s->dup_copies; k++) {
      uint32_t s2 = sim_new_serial(srvidx, fd, q.id, pl.action, 0, 0, txidx);
      if (s2 != 0) {
        sim_pktinfo[s2 - 1].rcode = sim_pktinfo[serial - 1].rcode;
        sim_pktinfo[s2 - 1].tc    = sim_pktinfo[serial - 1].tc;
        srv_send_pkt(srvidx, fd, 0, srv_out.b, srv_out.len, s2, d, srvidx);
        sim_note("reply_sent_again_with_the_original");
      }
    }
  }
  if (is_tcp && s->tcp_close_after_answer) {
    /* one answer per connection (a server that does not keep streams open): the close follows the answer bytes
     * at once or a little later - either way the answer was sent in full and must be used */
    sim_ev_add(sim_now_us + d + sim_fin_delay_us, EV_SRV_CLOSE, fd, 0, NULL);
    sim_note("tcp_server_closes_after_answer");
  }
  if (srv_sent_hook) {
    srv_sent_hook(srvidx, fd, is_tcp, txidx, pl.action, d);
  }
  if (pl.action == SA_DUP) {
    srv_plan_t p2 = pl;
    p2.action     = SA_ANSWER;
    serial        = srv_build(srvidx, fd, &q, &p2, &srv_out, txidx, ck, cklen);
    if (srv_built_hook) {
      srv_built_hook(serial, &q, &p2, srvidx);
    }
    srv_send_pkt(srvidx, fd, is_tcp, srv_out.b, srv_out.len, serial, d + 1 + (int64_t)vh_below(&sim_rng, 3000), srvidx);
  }
}
