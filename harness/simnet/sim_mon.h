/* sim_mon.h - online monitors over the event stream of one case.
 *
 * once  : exactly-once / no-late callbacks, cancel/destroy completeness  (C01)
 * idx   : structural walk of the query indexes at quiescent points        (C01)
 * fd    : descriptor protocol, socket-state callback stream, legacy sets  (C10)
 * net   : per-query transmission accounting and wait bounds               (C06)
 * timer : ares_timeout soundness and progress                             (C07)
 * Other monitors live with their profiles (sim_prov.h, sim_cache.h ...).
 */

static int mon_enable_idx   = 1;
static int mon_enable_fd    = 1;
static int mon_enable_net   = 1;
static int mon_enable_timer = 1;

static uint64_t mon_rule_evals; /* total rule evaluations (evidence) */
#define MON_EVAL(name)  \
  do {                  \
    mon_rule_evals++;   \
    vh_count("rule_" name); \
  } while (0)

/* ------------------------------------------------------------------ once */
static const char *mon_ctx(void)
{
  if (app_cancel_in_cb_used) {
    return "+cancel-in-cb";
  }
  return "";
}

static void mon_callback(app_tok_t *t)
{
  char key[128];
  MON_EVAL("once_callback");
  if (t->cb_count > 1) {
    snprintf(key, sizeof(key), "once:double-callback:%s%s", rk_names[t->kind], mon_ctx());
    vh_violation(key, "token %d (%s '%s') called back %d times: first status %d, now in_cancel=%d in_destroy=%d", (int)(t - app_tok),
                 rk_names[t->kind], t->name, t->cb_count, t->cb_status, app_in_cancel, app_in_destroy);
  }
  if (sim_destroyed) {
    snprintf(key, sizeof(key), "once:callback-after-destroy:%s", rk_names[t->kind]);
    vh_violation(key, "token %d called back after ares_destroy returned", (int)(t - app_tok));
  }
  if (!t->started) {
    snprintf(key, sizeof(key), "once:callback-for-unstarted:%s", rk_names[t->kind]);
    vh_violation(key, "token %d called back but was never started", (int)(t - app_tok));
  }
}

static void mon_after_cancel(const uint8_t *was)
{
  int i;
  if (app_in_cancel > 0) {
    return; /* nested cancel: the outer call is still working through its list */
  }
  for (i = 0; i < app_ntok; i++) {
    MON_EVAL("once_cancel_complete");
    if (was[i] && app_tok[i].cb_count == 0) {
      char key[128];
      snprintf(key, sizeof(key), "once:cancel-left-outstanding:%s", rk_names[app_tok[i].kind]);
      vh_violation(key, "token %d (%s '%s') was outstanding when ares_cancel was entered and has no callback when it returned",
                   i, rk_names[app_tok[i].kind], app_tok[i].name);
    }
  }
}

static void mon_after_destroy(void)
{
  int i;
  for (i = 0; i < app_ntok; i++) {
    app_tok_t *t = &app_tok[i];
    if (!t->started) {
      continue;
    }
    MON_EVAL("once_final_count");
    if (t->cb_count == 0) {
      char key[128];
      snprintf(key, sizeof(key), "once:lost-callback:%s", rk_names[t->kind]);
      vh_violation(key, "token %d (%s '%s') never got a callback, not even at ares_destroy", i, rk_names[t->kind], t->name);
    }
  }
}

/* ------------------------------------------------------------------ fd */
static void mon_fd_use(int fd, const char *op)
{
  if (!mon_enable_fd) {
    return;
  }
  MON_EVAL("fd_use");
  if (fd < SIM_FD_BASE || fd >= SIM_MAXFD || vsock[fd].state == VS_UNUSED) {
    char key[96];
    snprintf(key, sizeof(key), "fd:never-issued:%s", op);
    vh_violation(key, "%s on descriptor %d that was never issued", op, fd);
  } else if (vsock[fd].state == VS_CLOSED) {
    char key[96];
    snprintf(key, sizeof(key), "fd:use-after-close:%s", op);
    vh_violation(key, "%s on descriptor %d after it was closed", op, fd);
  }
}

static void mon_sock_state(int fd, int r, int w)
{
  vsock_t *v;
  MON_EVAL("fd_state_cb");
  vh_trace("sock_state_cb fd %d r %d w %d", fd, r, w);
  if (fd < SIM_FD_BASE || fd >= SIM_MAXFD || vsock[fd].state == VS_UNUSED) {
    vh_violation("fd:state-cb-unknown-fd", "socket state callback for descriptor %d that was never issued", fd);
    return;
  }
  v = &vsock[fd];
  if (v->state == VS_CLOSED) {
    vh_violation("fd:state-cb-after-close", "socket state callback (%d,%d) for descriptor %d after close", r, w, fd);
    return;
  }
  if (!r && !w) {
    if (!v->ever_ann) {
      vh_violation("fd:stop-without-watch", "told to stop watching descriptor %d that was never announced", fd);
    }
    v->zero_ann++;
    if (v->zero_ann > 1) {
      vh_violation("fd:stop-twice", "told to stop watching descriptor %d %d times", fd, v->zero_ann);
    }
    v->ann_r = v->ann_w = 0;
    return;
  }
  if (v->zero_ann > 0) {
    vh_violation("fd:watch-after-stop", "descriptor %d announced (%d,%d) again after the final (0,0)", fd, r, w);
  }
  v->ever_ann = 1;
  v->ann_r    = r;
  v->ann_w    = w;
}

static void mon_fd_closed(int fd)
{
  vsock_t *v = &vsock[fd];
  MON_EVAL("fd_close");
  if (sim_cfg.legacy_poll == 0 && v->ever_ann && v->zero_ann == 0) {
    vh_violation("fd:closed-without-stop", "descriptor %d closed while the application was still told to watch it (r=%d w=%d)",
                 fd, v->ann_r, v->ann_w);
  }
  if (sim_destroyed) {
    vh_violation("fd:close-after-destroy", "descriptor %d closed after ares_destroy returned", fd);
  }
}

static void mon_fd_final(void)
{
  int fd;
  for (fd = SIM_FD_BASE; fd < sim_next_fd; fd++) {
    MON_EVAL("fd_final");
    if (vsock[fd].state == VS_OPEN) {
      vh_violation("fd:leak-after-destroy", "descriptor %d (%s, srv %d) still open after ares_destroy", fd,
                   vsock[fd].is_tcp ? "tcp" : "udp", vsock[fd].srv);
    }
    if (!vsock[fd].is_tcp && app_cfg.udp_max_queries > 0 && vsock[fd].nqueries > app_cfg.udp_max_queries) {
      vh_violation("fd:udp-max-queries-exceeded", "UDP descriptor %d carried %d queries, limit %d", fd, vsock[fd].nqueries,
                   app_cfg.udp_max_queries);
    }
  }
}

/* ------------------------------------------------------------------ idx + fd structural walk at quiescent points */
static void    mon_net_waits_fwd(const char *after);
static int64_t mon_earliest_deadline_us; /* from walking all_queries, -1 none */

static int64_t tv_to_us(const ares_timeval_t *tv)
{
  /* saturating: the library may hold absurd deadlines */
  if (tv->sec > (ares_int64_t)9000000000000LL) {
    return INT64_MAX / 2;
  }
  if (tv->sec < (ares_int64_t)-9000000000000LL) {
    return INT64_MIN / 2;
  }
  return (int64_t)tv->sec * 1000000 + (int64_t)tv->usec;
}

static void mon_quiescent(const char *after)
{
  ares_channel_t    *ch = app_channel;
  size_t             n_all, n_qid, n_to, sum_conn = 0, n_conn = 0;
  ares_llist_node_t *n;
  ares_slist_node_t *sn;
  int                conn_fds[1024];
  int                conn_hasq[1024];
  int                conn_wants_write[1024];
  int                conn_tcp[1024];
  int                ncf = 0;

  if (ch == NULL || sim_destroyed || app_cb_depth > 0 || app_in_cancel || app_in_destroy) {
    return;
  }
  mon_earliest_deadline_us = -1;
  if (!mon_enable_idx && !mon_enable_fd) {
    mon_net_waits_fwd(after); /* the wait bounds (and the per-transmission record of them) do not depend on those */
    return;
  }
  sim_note("quiescent_points");
  n_all = ares_llist_len(ch->all_queries);
  n_qid = ares_htable_szvp_num_keys(ch->queries_by_qid);
  n_to  = ares_slist_len(ch->queries_by_timeout);

  MON_EVAL("idx_sizes");
  if (n_all != n_qid) {
    vh_violation("idx:size-mismatch:all-vs-qid", "after %s: all_queries=%zu queries_by_qid=%zu", after, n_all, n_qid);
  }
  for (n = ares_llist_node_first(ch->all_queries); n != NULL; n = ares_llist_node_next(n)) {
    ares_query_t *q = (ares_query_t *)ares_llist_node_val(n);
    MON_EVAL("idx_query");
    if (ares_htable_szvp_get_direct(ch->queries_by_qid, q->qid) != q) {
      vh_violation("idx:qid-map-wrong", "after %s: live query id %u not mapped to itself", after, q->qid);
    }
    if (q->conn == NULL || q->node_queries_to_conn == NULL || q->node_queries_by_timeout == NULL) {
      vh_violation("idx:orphan-query",
                   "after %s: live query id %u is not attached (conn=%p conn-node=%p timeout-node=%p): it can never time out",
                   after, q->qid, (void *)q->conn, (void *)q->node_queries_to_conn, (void *)q->node_queries_by_timeout);
    } else {
      int64_t d = tv_to_us(&q->timeout);
      if (mon_earliest_deadline_us < 0 || d < mon_earliest_deadline_us) {
        mon_earliest_deadline_us = d;
      }
    }
    if (q->callback == NULL) {
      vh_violation("idx:dead-query-linked", "after %s: query id %u in all_queries has no callback", after, q->qid);
    }
  }
  /* connections */
  for (sn = ares_slist_node_first(ch->servers); sn != NULL; sn = ares_slist_node_next(sn)) {
    ares_server_t     *srv = (ares_server_t *)ares_slist_node_val(sn);
    ares_llist_node_t *cn;
    for (cn = ares_llist_node_first(srv->connections); cn != NULL; cn = ares_llist_node_next(cn)) {
      ares_conn_t       *c = (ares_conn_t *)ares_llist_node_val(cn);
      ares_llist_node_t *qn;
      size_t             nq = ares_llist_len(c->queries_to_conn);
      n_conn++;
      sum_conn += nq;
      MON_EVAL("idx_conn");
      if (ares_conn_from_fd(ch, c->fd) != c) {
        vh_violation("idx:conn-fd-map-wrong", "after %s: connection fd %d not mapped to itself", after, (int)c->fd);
      }
      mon_fd_use((int)c->fd, "held-by-connection");
      for (qn = ares_llist_node_first(c->queries_to_conn); qn != NULL; qn = ares_llist_node_next(qn)) {
        ares_query_t *q = (ares_query_t *)ares_llist_node_val(qn);
        if (q->conn != c) {
          vh_violation("idx:query-conn-backlink", "after %s: query id %u in list of fd %d but points elsewhere", after, q->qid,
                       (int)c->fd);
        }
        if (q->node_all_queries == NULL) {
          vh_violation("idx:query-on-conn-not-in-all", "after %s: query id %u on fd %d is not in all_queries", after, q->qid,
                       (int)c->fd);
        }
      }
      if (ncf < 1024) {
        conn_fds[ncf]         = (int)c->fd;
        conn_hasq[ncf]        = nq > 0;
        conn_tcp[ncf]         = (c->flags & ARES_CONN_FLAG_TCP) ? 1 : 0;
        /* data waiting in the library (a partial stream write, or a datagram the socket would not take) needs a
         * write event to go out */
        conn_wants_write[ncf] = (ares_buf_len(c->out_buf) > 0 && !(c->flags & ARES_CONN_FLAG_TFO_INITIAL) &&
                                 !((c->flags & ARES_CONN_FLAG_TCP) && ch->notify_pending_write))
                                  ? 1
                                  : 0;
        /* told to watch before events are needed */
        if (mon_enable_fd && sim_cfg.legacy_poll == 0 && nq > 0 && !(c->flags & ARES_CONN_FLAG_TFO_INITIAL) &&
            c->fd >= SIM_FD_BASE && c->fd < SIM_MAXFD && vsock[c->fd].state == VS_OPEN) {
          MON_EVAL("fd_watch_before_needed");
          if (!vsock[c->fd].ann_r) {
            vh_violation("fd:unwatched-with-outstanding-query",
                         "after %s: descriptor %d has %zu outstanding queries but the application was not told to watch it for read",
                         after, (int)c->fd, nq);
          }
          if (conn_wants_write[ncf] && !vsock[c->fd].ann_w) {
            vh_violation("fd:unwatched-with-unsent-data",
                         "after %s: descriptor %d has %zu unsent bytes but the application was not told to watch it for write",
                         after, (int)c->fd, ares_buf_len(c->out_buf));
          }
        }
        ncf++;
      }
    }
  }
  MON_EVAL("idx_sums");
  if (n_to != sum_conn) {
    vh_violation("idx:size-mismatch:timeouts-vs-conns", "after %s: queries_by_timeout=%zu, sum of connection lists=%zu", after,
                 n_to, sum_conn);
  }
  if (sum_conn > n_all) {
    vh_violation("idx:size-mismatch:conns-vs-all", "after %s: %zu queries on connections but only %zu live", after, sum_conn,
                 n_all);
  }
  if (n_conn != ares_htable_asvp_num_keys(ch->connnode_by_socket)) {
    vh_violation("idx:size-mismatch:conn-table", "after %s: %zu connections, %zu table entries", after, n_conn,
                 ares_htable_asvp_num_keys(ch->connnode_by_socket));
  }
  /* every open DNS socket is held by exactly one connection (no leak while the channel lives) */
  if (mon_enable_fd) {
    int fd;
    for (fd = SIM_FD_BASE; fd < sim_next_fd; fd++) {
      if (vsock[fd].state == VS_OPEN) {
        int k, found = 0;
        for (k = 0; k < ncf; k++) {
          if (conn_fds[k] == fd) {
            found++;
          }
        }
        MON_EVAL("fd_owned");
        if (found != 1 && ncf < 1024) {
          vh_violation("fd:open-but-unowned", "after %s: descriptor %d is open but %d connections hold it", after, fd, found);
        }
      }
    }
  }
  mon_net_waits_fwd(after);
  /* legacy descriptor sets */
  if (mon_enable_fd && sim_next_fd < FD_SETSIZE && ncf < 1024) {
    fd_set r, w;
    int    k, fd;
    FD_ZERO(&r);
    FD_ZERO(&w);
    {
      /* the return value is the bound an application hands to select(): highest descriptor in either set + 1, and
       * 0 - "nothing to wait for" - exactly when both sets are empty */
      int nfds = ares_fds(ch, &r, &w), top = -1;
      for (fd = 0; fd < FD_SETSIZE; fd++) {
        if (FD_ISSET(fd, &r) || FD_ISSET(fd, &w)) {
          top = fd;
        }
      }
      MON_EVAL("fd_legacy_nfds");
      if (nfds != top + 1) {
        vh_violation("fd:legacy-nfds", "after %s: ares_fds returned %d but the highest descriptor in its sets is %d", after, nfds, top);
      }
    }
    MON_EVAL("fd_legacy_fds");
    for (fd = 0; fd < sim_next_fd + 4 && fd < FD_SETSIZE; fd++) {
      if ((FD_ISSET(fd, &r) || FD_ISSET(fd, &w)) &&
          (fd < SIM_FD_BASE || fd >= SIM_MAXFD || vsock[fd].state != VS_OPEN)) {
        vh_violation("fd:legacy-reports-closed", "after %s: ares_fds reports descriptor %d which is not open", after, fd);
      }
    }
    for (k = 0; k < ncf; k++) {
      if (conn_hasq[k] && !FD_ISSET(conn_fds[k], &r)) {
        vh_violation("fd:legacy-missing-read", "after %s: ares_fds omits descriptor %d which has outstanding queries", after,
                     conn_fds[k]);
      }
      /* (a datagram socket nobody is waiting on any more - everything cancelled - is deliberately left out) */
      if (conn_wants_write[k] && (conn_tcp[k] || conn_hasq[k]) && !FD_ISSET(conn_fds[k], &w)) {
        vh_violation("fd:legacy-missing-write", "after %s: ares_fds omits descriptor %d (unsent data) from the write set", after,
                     conn_fds[k]);
      }
      if (n_all == 0 && !conn_tcp[k] && FD_ISSET(conn_fds[k], &r)) {
        vh_violation("fd:legacy-idle-udp-reported", "after %s: nothing outstanding but ares_fds reports idle UDP descriptor %d", after,
                     conn_fds[k]);
      }
    }
    if (ncf <= ARES_GETSOCK_MAXNUM) {
      ares_socket_t gs[ARES_GETSOCK_MAXNUM];
      int           bits, j;
      memset(gs, 0xff, sizeof(gs));
      bits = ares_getsock(ch, gs, ARES_GETSOCK_MAXNUM);
      MON_EVAL("fd_legacy_getsock");
      for (k = 0; k < ncf; k++) {
        int rd = 0, wr = 0;
        for (j = 0; j < ARES_GETSOCK_MAXNUM; j++) {
          if (gs[j] == conn_fds[k]) {
            rd = GS_R(bits, j) ? 1 : 0;
            wr = GS_W(bits, j) ? 1 : 0;
          }
        }
        if (conn_hasq[k] && !rd) {
          vh_violation("fd:legacy-missing-read", "after %s: ares_getsock omits descriptor %d which has outstanding queries", after,
                       conn_fds[k]);
        }
        if (conn_wants_write[k] && (conn_tcp[k] || conn_hasq[k]) && !wr) {
          vh_violation("fd:legacy-missing-write", "after %s: ares_getsock omits descriptor %d (unsent data) from the write set",
                       after, conn_fds[k]);
        }
      }
      for (j = 0; j < ARES_GETSOCK_MAXNUM; j++) {
        if ((GS_R(bits, j) || GS_W(bits, j)) &&
            (gs[j] < SIM_FD_BASE || gs[j] >= SIM_MAXFD || vsock[gs[j]].state != VS_OPEN)) {
          vh_violation("fd:legacy-reports-closed", "after %s: ares_getsock reports descriptor %d which is not open", after,
                       (int)gs[j]);
        }
      }
    }
  }
}
