/* simnet.c - deterministic single-threaded discrete-event simulator around the real c-ares
 * library (engine E1).  Virtual clock (--wrap=ares_tvnow), virtual sockets
 * (ares_set_socket_functions_ex), virtual DNS servers, seeded scheduler, online monitors.
 *
 * usage: simnet --profile <p> --seed S --first I --count N [--verbose] [--opt k=v]
 */
#include "ares_private.h"
#include <errno.h>
#include <sys/select.h>
#include <arpa/inet.h>
#include <netdb.h>
#include <sys/stat.h>
#include <ctype.h>
#include "vh.h"
#include "sdns.h"

static uint64_t case_fp;         /* running fingerprint of the event-kind sequence */
static int      case_nontrivial; /* bit set of what made the case non-trivial */
static void     case_ev(unsigned a, unsigned b)
{
  case_fp = vh_fnv_u64(case_fp, ((uint64_t)a << 32) | b);
}

/* the public ARES_GETSOCK_WRITABLE macro shifts a signed 1 by up to 31: use unsigned here */
#define GS_R(bits, num) (((unsigned)(bits) >> (num)) & 1u)
#define GS_W(bits, num) (((unsigned)(bits) >> ((num) + ARES_GETSOCK_MAXNUM)) & 1u)

#include "sim_core.h"
#include "sim_srv.h"
#include "sim_app.h"
#include "sim_mon.h"
#include "sim_mon2.h"
#include "sim_gen.h"

static const vh_args_t *g_args;

/* ------------------------------------------------------------------ per-case reset */
static void case_reset(void)
{
  int i;
  for (i = SIM_FD_BASE; i < sim_next_fd; i++) {
    sim_pkt_t *p = vsock[i].rx_head;
    while (p) {
      sim_pkt_t *n = p->next;
      sim_pkt_free(p);
      p = n;
    }
    free(vsock[i].tx);
  }
  memset(vsock, 0, sizeof(vsock[0]) * (size_t)(sim_next_fd > SIM_FD_BASE ? sim_next_fd : SIM_FD_BASE));
  for (i = 0; i < sim_nev; i++) {
    if (sim_ev[i].live && sim_ev[i].pkt) {
      sim_pkt_free(sim_ev[i].pkt);
    }
  }
  memset(sim_ev, 0, sizeof(sim_ev[0]) * (size_t)sim_nev);
  sim_nev        = 0;
  sim_evseq      = 0;
  sim_next_fd    = SIM_FD_BASE;
  sim_open_count = 0;
  sim_npkt       = 0;
  sim_ntx        = 0;
  sim_nsrv       = 0;
  sim_nfaults    = 0;
  memset(sim_faults, 0, sizeof(sim_faults));
  memset(sim_callcount, 0, sizeof(sim_callcount));
  sim_callcount_all       = 0;
  memset(sim_fd_shape, 0, sizeof(sim_fd_shape));
  sim_faults_fired        = 0;
  sim_rand_fault_permille = 0;
  sim_destroyed           = 0;
  sim_in_destroy          = 0;
  app_ntok                = 0;
  app_cancel_check_pending = 0;
  memset(app_cancel_was_pending, 0, sizeof(app_cancel_was_pending));
  app_nact                = 0;
  app_outstanding         = 0;
  app_cb_depth            = 0;
  app_in_cancel = app_in_destroy = app_in_start = app_in_process = 0;
  app_cancel_in_cb_used = app_start_in_cb_used = 0;
  app_pending_write_flag                       = 0;
  app_process_count                            = 0;
  app_total_cb                                 = 0;
  app_stuck                                    = 0;
  app_channel                                  = NULL;
  net_nq                                       = 0;
  ss_n                                         = 0;
  gen_tok_counter                              = 0;
  gen_profile_flags                            = 0;
  srv_tx_hook                                  = mon_net_tx;
  srv_cookie_hook                              = NULL;
  srv_frame_hook                               = NULL;
  srv_sent_hook                                = NULL;
  srv_built_hook                               = NULL;
  srv_cookie_built_hook                        = NULL;
  sim_read_hook                                = NULL;
  hl_config_hook                               = NULL;
  sim_connect_hook                             = NULL;
  ck_epoch                                     = 0;
  app_srv_ever_mask                            = 0;
  mon_server_state_hook                        = NULL;
  mon_tok_done_hook                            = NULL;
  mon_enable_idx = mon_enable_fd = mon_enable_net = mon_enable_timer = 1;
  net_unique_names                                                   = 1;
  sim_no_subms_jitter                                                = 0;
  sim_answer_auth_soa_ttl                                            = 0;
  sim_neg_ns_ttl                                                     = 0;
  sim_error_soa_ttl                                                  = 0;
  sim_fin_delay_us                                                   = 0;
  sim_zerolen_with_udp_reply                                         = 0;
  sim_fifo_events                                                    = 0;
  memset(&app_sched, 0, sizeof(app_sched));
  app_sched.max_steps = 20000;
  case_fp             = VH_FNV_INIT;
  case_nontrivial     = 0;
}

static uint64_t g_case_seed;
static unsigned sim_srand_seed;
/* The deterministic build keys its RC4 generator with srand(0)/rand(); route that to the case seed so
 * that query ids, 0x20 bits, rotation draws, jitter and probe chances differ from case to case. */
void __real_srand(unsigned int seed);
void __wrap_srand(unsigned int seed);
void __wrap_srand(unsigned int seed)
{
  (void)seed;
  __real_srand(sim_srand_seed);
}

/* (re)start the current case from scratch: everything below is a pure function of g_case_seed */
static void case_begin(void)
{
  uint64_t cs = g_case_seed;
  case_reset();
  vh_rng_seed(&sim_rng, cs ^ 0x5bd1e995u);
  vh_rng_seed(&app_rng, cs ^ 0xc2b2ae35u);
  vh_rng_seed(&seg_rng, cs ^ 0x27d4eb2fu);
  sim_srand_seed = (unsigned)(cs >> 16) | 1u;
  sim_now_us = 1700000000000000LL + (int64_t)(cs % 1000000);
}

static void case_sample(const char *profile, uint64_t idx)
{
  vh_sb_t sb = { 0 };
  int     i;
  vh_sb_printf(&sb, "{\"profile\":\"%s\",\"idx\":%llu,\"servers\":%d,\"flags\":%d,\"tries\":%d,\"timeout_ms\":%d,\"udp_max_queries\":%d,",
               profile, (unsigned long long)idx, app_cfg.nsrv_cfg, app_cfg.flags, app_cfg.tries, app_cfg.timeout_ms,
               app_cfg.udp_max_queries);
  vh_sb_printf(&sb, "\"transmissions\":%d,\"packets_injected\":%u,\"faults_fired\":%d,\"sockets\":%d,\"process_calls\":%d,\"vtime_ms\":%lld,",
               sim_ntx, sim_npkt, sim_faults_fired, sim_next_fd - SIM_FD_BASE, app_process_count,
               (long long)(sim_now_us / 1000));
  vh_sb_printf(&sb, "\"requests\":[");
  for (i = 0; i < app_ntok && i < 12; i++) {
    char nm[48];
    snprintf(nm, sizeof(nm), "%.40s", app_tok[i].name);
    vh_sb_printf(&sb, "%s{\"kind\":\"%s\",\"name\":", i ? "," : "", rk_names[app_tok[i].kind]);
    vh_sb_jstr(&sb, nm, strlen(nm));
    vh_sb_printf(&sb, ",\"type\":%d,\"in_cb\":\"%s\",\"depth\":%d,\"callbacks\":%d,\"status\":%d,\"timeouts\":%d}", app_tok[i].qtype,
                 ra_names[app_tok[i].action], app_tok[i].depth, app_tok[i].cb_count, app_tok[i].cb_status,
                 app_tok[i].cb_timeouts);
  }
  vh_sb_printf(&sb, "]}");
  vh_sample(sb.b);
  free(sb.b);
}

/* common tail: destroy the channel and run the final checks */
static void case_finish(void)
{
  if (app_channel != NULL) {
    app_in_destroy++;
    sim_in_destroy = 1;
    ares_destroy(app_channel);
    app_in_destroy--;
    sim_in_destroy = 0;
    sim_destroyed  = 1;
    app_channel    = NULL;
    mon_after_destroy();
    mon_fd_final();
  }
}

/* extra per-profile code */
#include "sim_profiles.h"

int main(int argc, char **argv)
{
  vh_args_t a;
  uint64_t  i;
  vh_parse_args(&a, argc, argv);
  g_args = &a;
  snprintf(app_dir, sizeof(app_dir), "simnet.%d", (int)getpid());
  mkdir(app_dir, 0700);
  snprintf(app_resolv, sizeof(app_resolv), "%s/resolv.conf", app_dir);
  snprintf(app_hosts, sizeof(app_hosts), "%s/hosts", app_dir);
  snprintf(app_aliases, sizeof(app_aliases), "%s/aliases", app_dir);
  sim_next_fd = SIM_FD_BASE;
  ares_library_init(ARES_LIB_INIT_ALL);
  for (i = a.first; i < a.first + a.count; i++) {
    uint64_t cs = vh_case_seed(a.seed, a.profile, i);
    vh_rng_t rng;
    g_case_seed = cs;
    case_begin();
    vh_rng_seed(&rng, cs);
    vh_case_begin(i);
    if (!profile_run(a.profile, &rng, i)) {
      fprintf(stderr, "unknown profile %s\n", a.profile);
      return 2;
    }
    vh_count("cases");
    vh_count_n("transmissions", (uint64_t)sim_ntx);
    vh_count_n("packets_injected", (uint64_t)sim_npkt);
    vh_count_n("sockets_opened", (uint64_t)(sim_next_fd - SIM_FD_BASE));
    vh_count_n("requests", (uint64_t)app_ntok);
    vh_count_n("scheduler_steps", (uint64_t)app_steps);
    if (vh_want_sample() && (case_nontrivial || i == a.first)) {
      case_sample(a.profile, i);
    }
  }
  ares_library_cleanup();
  unlink(app_resolv);
  unlink(app_hosts);
  unlink(app_aliases);
  rmdir(app_dir);
  vh_chunk_end();
  return 0;
}
