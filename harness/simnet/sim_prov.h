/* sim_prov.h - C05: only an authentic, matching response is used.
 *
 * An adversary injects forged and stale packets into the sockets of live queries.  Every packet
 * carries a unique serial in its data, and is classified when it is created (forged attributes)
 * and when the library reads it (is the query it names currently waiting on THIS socket?).
 * Monitor: no request is ever handed a record whose serial belongs to a packet that was not
 * acceptable; no such packet produces a server-success notification; and a differential re-run of
 * the same case without the adversary gives the same statuses and the same transmissions. */

enum {
  PV_WRONG_ID = 0,
  PV_WRONG_NAME,
  PV_WRONG_TYPE,
  PV_WRONG_CLASS,
  PV_WRONG_CASE,
  PV_WRONG_ADDR_FAR,
  PV_WRONG_ADDR_NEAR, /* source shares a long prefix with the server's address */
  PV_WRONG_SOCKET,    /* perfect reply, but delivered on another connection */
  PV_NO_QUESTION,
  PV_WRONG_CLIENT_COOKIE,
  PV_REPLAY_OLD,      /* replay of an earlier genuine answer */
  PV_NO_COOKIE,       /* perfect reply but without a cookie, to a server that has proven cookie support */
  PV_NO_COOKIE_FORMERR, /* FORMERR without OPT (what a pre-EDNS server would say), right id and question */
  PV_NO_COOKIE_ERR,     /* SERVFAIL / REFUSED with OPT but without a cookie */
  PV_NOT_A_RESPONSE,    /* perfect in every matched attribute, but the QR bit says it is a query (an echo, a reflected request) */
  PV__COUNT
};
static const char *const pv_names[PV__COUNT] = { "wrong-id",        "wrong-name",        "wrong-type",   "wrong-class",
                                                 "wrong-case",      "wrong-addr-far",    "wrong-addr-near", "wrong-socket",
                                                 "no-question",     "wrong-client-cookie", "replay-old", "no-cookie",
                                                 "no-cookie-formerr", "no-cookie-error", "not-a-response" };

static int      prov_adv_on;
static vh_rng_t adv_rng;
static int      prov_forged_live; /* forged packets read by the library while their target query was live */
static int      prov_forged_total;
static uint8_t  prov_variant_of[SIM_MAXPKT];   /* serial-1 -> variant+1 (0 = genuine) */
static uint8_t  prov_conn_ok[SIM_MAXPKT];      /* at read time: named query was waiting on this socket */
static uint8_t  prov_live_at_read[SIM_MAXPKT]; /* at read time: a live query had that id */
static uint8_t  prov_cookie_live[SIM_MAXPKT];
static uint8_t  prov_srv_proven[SIM_MAXSRV];   /* server has had a valid server cookie accepted */
static uint8_t  prov_proven_at_read[SIM_MAXPKT];
static int      prov_acceptable_adversary; /* an injected packet turned out to be indistinguishable from a genuine reply */
static uint32_t prov_last_read_serial;
static int      prov_batch_reads; /* the socket layer hands over everything that is queued in one pass */
static uint32_t prov_variants_seen;
/* guard: the packet read last in the current processing call is a well-formed forgery that must be dropped without
 * any effect, and the query it names is not due for a retry by its own timeout */
static uint32_t prov_proof_candidate; /* genuine cookie-bearing reply read last, not yet known to have been processed */
static int      prov_faults_at_read;
static uint32_t prov_guard_serial;
static int      prov_guard_call;
static uint16_t prov_guard_qid;

static int prov_effectively_forged_fwd(uint32_t serial, const char **why);

/* called from vs_recvfrom when the library reads a packet (UDP) / finishes reading one (TCP) */
static void prov_on_read(int fd, uint32_t serial)
{
  sim_pktinfo_t *pi;
  ares_query_t  *q;
  if (serial == 0 || serial > sim_npkt || app_channel == NULL) {
    return;
  }
  pi                    = &sim_pktinfo[serial - 1];
  prov_last_read_serial = serial;
  q                     = (ares_query_t *)ares_htable_szvp_get_direct(app_channel->queries_by_qid, pi->qid);
  prov_live_at_read[serial - 1] = q != NULL;
  prov_conn_ok[serial - 1]      = (q != NULL && q->conn != NULL && q->conn->fd == fd);
  {
    /* did the latest transmission with that id carry a cookie?  (a request that is being re-sent without
     * cookies no longer looks at cookies in replies) */
    int i;
    prov_cookie_live[serial - 1] = 0;
    for (i = sim_ntx - 1; i >= 0; i--) {
      if (sim_tx[i].qid == pi->qid) {
        prov_cookie_live[serial - 1] = (uint8_t)(sim_tx[i].has_cookie && !sim_tx[i].tcp);
        break;
      }
    }
  }
  prov_proven_at_read[serial - 1] = (pi->srv >= 0 && pi->srv < SIM_MAXSRV) ? prov_srv_proven[pi->srv] : 0;
  prov_proof_candidate = 0;
  if (!prov_variant_of[serial - 1] && !pi->forged && pi->srv_cookie && prov_conn_ok[serial - 1] && prov_cookie_live[serial - 1] &&
      pi->srv >= 0 && pi->srv < SIM_MAXSRV) {
    /* a genuine reply carrying a server cookie reached the query it answers: support is proven - once the library
     * has actually processed it (a datagram that was read is thrown away unprocessed when a later read on the same
     * socket fails), which the success notification for its server shows; with batched reads that cannot be
     * attributed, and those cases run without socket faults */
    if (prov_batch_reads) {
      prov_srv_proven[pi->srv] = 1;
    } else {
      prov_proof_candidate = serial;
    }
  }
  prov_faults_at_read = sim_faults_fired;
  if (prov_variant_of[serial - 1]) {
    const char *why = "";
    if (!prov_effectively_forged_fwd(serial, &why)) {
      prov_acceptable_adversary++;
    }
  }
  prov_guard_serial = 0;
  if (prov_variant_of[serial - 1] && q != NULL && !prov_batch_reads) {
    int         v   = prov_variant_of[serial - 1] - 1;
    const char *why = "";
    if ((v == PV_NO_COOKIE || v == PV_NO_COOKIE_FORMERR || v == PV_NO_COOKIE_ERR || v == PV_WRONG_CLIENT_COOKIE ||
         v == PV_WRONG_CASE || v == PV_WRONG_NAME || v == PV_WRONG_TYPE || v == PV_WRONG_CLASS) &&
        prov_effectively_forged_fwd(serial, &why)) {
      ares_timeval_t now;
      ares_tvnow(&now);
      if (!ares_timedout(&now, &q->timeout)) {
        prov_guard_serial = serial;
        prov_guard_call   = app_process_count;
        prov_guard_qid    = pi->qid;
      }
    }
  }
  if (prov_variant_of[serial - 1] && q != NULL) {
    prov_forged_live++;
    prov_variants_seen |= 1u << (prov_variant_of[serial - 1] - 1);
    sim_note("prov_forged_read_while_query_live");
  }
}

/* every transmission, as the server receives it: a query must not be re-sent (with or without EDNS, to this or
 * another server) because of a packet that fails the acceptance conditions.  Unparseable datagrams are another
 * matter (the library treats them as a failure of the connection) and are not judged here. */
static void prov_on_tx(int srvidx, int fd, int is_tcp, const uint8_t *msg, size_t len)
{
  (void)srvidx;
  (void)fd;
  (void)is_tcp;
  if (len < 2 || prov_guard_serial == 0 || prov_guard_call != app_process_count) {
    return;
  }
  if (sim_faults_fired != prov_faults_at_read) {
    prov_guard_serial = 0; /* a socket call failed since: the connection's queries are re-sent for that reason */
    return;
  }
  MON_EVAL("prov_no_effect_of_forged");
  if ((uint16_t)((msg[0] << 8) | msg[1]) == prov_guard_qid) {
    const char *why = "";
    char        key[96];
    prov_effectively_forged_fwd(prov_guard_serial, &why);
    snprintf(key, sizeof(key), "prov:forged-caused-resend:%s", why);
    vh_violation(key, "query id %u was transmitted again (%zu octets, %s) in the processing call that read packet %u, which is %s and "
                 "must be ignored; the query's own timeout was not due", prov_guard_qid, len, len > 12 && msg[11] ? "with additional records" :
                 "no additional records", prov_guard_serial, why);
    prov_guard_serial = 0;
  }
}

static int prov_effectively_forged(uint32_t serial, const char **why)
{
  const sim_pktinfo_t *pi = &sim_pktinfo[serial - 1];
  int                  v  = prov_variant_of[serial - 1];
  if (v) {
    *why = pv_names[v - 1];
    if (v - 1 == PV_WRONG_CASE) {
      /* letter case only matters when 0x20 is on and the transport is UDP */
      if (!(app_cfg.flags & ARES_FLAG_DNS0x20) || vsock[pi->fd].is_tcp) {
        return 0;
      }
    }
    if (v - 1 == PV_WRONG_ID) {
      /* the altered id may be the id of ANOTHER live query (two requests for one question in flight on one
       * socket: thorough tier, seed 1): then the packet is a perfect reply to that one */
      return !(prov_live_at_read[serial - 1] && prov_conn_ok[serial - 1]);
    }
    if (v - 1 == PV_REPLAY_OLD || v - 1 == PV_WRONG_SOCKET) {
      /* a correct answer is only unacceptable if the query it names is not waiting on the socket it
       * arrived on; otherwise it is indistinguishable from a genuine (duplicate) reply */
      return !prov_conn_ok[serial - 1];
    }
    if (v - 1 == PV_WRONG_CLIENT_COOKIE) {
      return prov_cookie_live[serial - 1];
    }
    if (v - 1 == PV_NO_COOKIE || v - 1 == PV_NO_COOKIE_FORMERR || v - 1 == PV_NO_COOKIE_ERR) {
      /* unacceptable only while the request carries a cookie and the server has proven support
       * (the regression period of 120 s is never reached in this profile) */
      return prov_cookie_live[serial - 1] && prov_proven_at_read[serial - 1];
    }
    return 1;
  }
  if (pi->forged) {
    /* server-side misbehaviours (SA_WRONG*) */
    if (pi->deviation == 16 && (!(app_cfg.flags & ARES_FLAG_DNS0x20) || vsock[pi->fd].is_tcp)) {
      return 0;
    }
    *why = "server-wrong-reply";
    return 1;
  }
  if (!prov_conn_ok[serial - 1]) {
    *why = "stale-connection";
    return 1;
  }
  return 0;
}

static int prov_effectively_forged_fwd(uint32_t serial, const char **why)
{
  return prov_effectively_forged(serial, why);
}

static void mon_prov_tok_done(app_tok_t *t)
{
  int i;
  for (i = 0; i < t->nserials; i++) {
    uint32_t    s   = t->serials[i];
    const char *why = "";
    if (s == 0 || s > sim_npkt) {
      continue;
    }
    MON_EVAL("prov_delivered_serial");
    if (sim_pktinfo[s - 1].t_read == 0) {
      vh_violation("prov:delivered-never-read", "request '%s' was handed serial %u, a packet the library never read from any socket", t->name, s);
      continue;
    }
    if (prov_effectively_forged(s, &why)) {
      char key[96];
      snprintf(key, sizeof(key), "prov:forged-delivered:%s", why);
      vh_violation(key, "request '%s' (%s) was handed data from packet %u which is %s (id %u, socket %d, live-at-read %d, on-query-socket %d)", t->name,
                   rk_names[t->kind], s, why, sim_pktinfo[s - 1].qid, sim_pktinfo[s - 1].fd, prov_live_at_read[s - 1], prov_conn_ok[s - 1]);
    }
  }
}

static void mon_prov_server_state(int srv, int success, int flags)
{
  const char *why = "";
  (void)flags;
  if (success && prov_proof_candidate != 0 && prov_proof_candidate == prov_last_read_serial &&
      sim_pktinfo[prov_proof_candidate - 1].srv == srv && srv >= 0 && srv < SIM_MAXSRV) {
    prov_srv_proven[srv] = 1;
  }
  if (!success || prov_last_read_serial == 0 || prov_batch_reads) {
    return; /* (with batched reads a notification cannot be attributed to one packet) */
  }
  MON_EVAL("prov_server_success");
  if (prov_effectively_forged(prov_last_read_serial, &why)) {
    char key[96];
    snprintf(key, sizeof(key), "prov:forged-marks-server-good:%s", why);
    vh_violation(key, "server marked good right after reading packet %u which is %s", prov_last_read_serial, why);
  }
}

/* the adversary: forge a reply to one of the recent transmissions */
static void prov_inject_ex(int forced_txi, int forced_v, int64_t delay_us);
static void prov_inject(void)
{
  prov_inject_ex(-1, -1, 0);
}

/* a forged packet that shadows a genuine reply which makes the library re-send the query (truncation, FORMERR,
 * bad cookie, error rcodes): it reaches the same socket in the same instant, i.e. in the same read pass, while the
 * query is between its old connection and the next attempt */
static void prov_shadow(int srvidx, int fd, int is_tcp, int txidx, int action, int64_t delay_us)
{
  static const int vs[] = { PV_WRONG_CASE, PV_WRONG_CASE, PV_NO_COOKIE, PV_WRONG_CLIENT_COOKIE, PV_WRONG_NAME, PV_WRONG_TYPE, PV_WRONG_ADDR_NEAR,
                            PV_NO_COOKIE_FORMERR, PV_NO_COOKIE_ERR };
  (void)srvidx;
  (void)fd;
  if (is_tcp || !prov_adv_on || txidx < 0) {
    return;
  }
  if (action != SA_TC && action != SA_FORMERR_NOOPT && action != SA_FORMERR_OPT && action != SA_BADCOOKIE && action != SA_SERVFAIL &&
      action != SA_REFUSED && action != SA_NOTIMP) {
    return;
  }
  if (!vh_chance(&adv_rng, 1, 2)) {
    return;
  }
  prov_inject_ex(txidx, vs[vh_below(&adv_rng, sizeof(vs) / sizeof(vs[0]))], delay_us);
  sim_note("adv_shadow_of_a_resend_causing_reply");
}

static void prov_inject_ex(int forced_txi, int forced_v, int64_t delay_us)
{
  int           cand[16], nc = 0, i, v, txi, fd, srvidx;
  sim_tx_t     *tx;
  sdns_query_t  q;
  srv_plan_t    pl;
  uint32_t      serial;
  sim_pkt_t    *p;
  uint8_t       ck[40];
  size_t        cklen = 0;
  uint8_t      *raw;
  size_t        rawlen;
  for (i = sim_ntx - 1; i >= 0 && nc < 16; i--) {
    if (vsock[sim_tx[i].fd].state == VS_OPEN && sim_tx[i].wellformed) {
      cand[nc++] = i;
    }
  }
  if (nc == 0) {
    return;
  }
  txi    = forced_txi >= 0 ? forced_txi : cand[vh_below(&adv_rng, (uint32_t)nc)];
  tx     = &sim_tx[txi];
  fd     = tx->fd;
  srvidx = tx->srv;
  if (vsock[fd].is_tcp) {
    /* an off-path attacker cannot write into an established TCP stream */
    return;
  }
  v = (int)vh_below(&adv_rng, PV__COUNT + 3);
  if (v >= PV__COUNT) {
    v = PV_NO_COOKIE;
  }
  if (forced_v >= 0) {
    v = forced_v;
  }
  /* rebuild the query view from the logged transmission */
  memset(&q, 0, sizeof(q));
  q.ok      = 1;
  q.id      = tx->qid;
  q.rd      = tx->rd;
  q.cd      = tx->cd;
  q.opcode  = tx->opcode;
  q.qtype   = tx->qtype;
  q.qclass  = tx->qclass;
  q.has_opt = tx->has_opt;
  {
    /* wire name from the case-preserved text */
    sdns_out_t tmp;
    tmp.len = 0;
    tmp.overflow = 0;
    sdns_put_name_text(&tmp, tx->qname_case);
    if (tmp.len > 255) {
      return;
    }
    memcpy(q.qname_wire, tmp.b, tmp.len);
    q.qname_wire_len = tmp.len;
    snprintf(q.qname, sizeof(q.qname), "%s", tx->qname);
    snprintf(q.qname_case, sizeof(q.qname_case), "%s", tx->qname_case);
  }
  if (strchr(tx->qname_case, '\\')) {
    return; /* escaped names: keep the forger simple */
  }
  memset(&pl, 0, sizeof(pl));
  pl.nrec = 1;
  pl.ttl  = 300;
  pl.action = SA_ANSWER;
  switch (v) {
    case PV_WRONG_ID:
      pl.action = SA_WRONGID;
      break;
    case PV_WRONG_NAME:
      pl.action = SA_WRONGNAME;
      break;
    case PV_WRONG_TYPE:
      pl.action = SA_WRONGTYPE;
      break;
    case PV_WRONG_CLASS:
      pl.action = SA_WRONGCLASS;
      break;
    case PV_WRONG_CASE:
      pl.action = SA_WRONGCASE;
      break;
    case PV_NO_QUESTION:
      pl.action = SA_NOQUESTION;
      break;
    case PV_NO_COOKIE_FORMERR:
      pl.action = SA_FORMERR_NOOPT;
      break;
    case PV_NO_COOKIE_ERR:
      pl.action = vh_chance(&adv_rng, 1, 2) ? SA_SERVFAIL : SA_REFUSED;
      break;
    default:
      break;
  }
  if (tx->has_cookie && tx->cookie_len >= 8) {
    /* echo a plausible cookie so that only the intended attribute deviates */
    memcpy(q.cookie, tx->cookie, 8);
    q.has_cookie = 1;
    q.cookie_len = 8;
    if (sim_srv[srvidx].ck_mode >= 1) {
      srv_default_cookie(&sim_srv[srvidx], &q, ck, &cklen);
    }
    if (v == PV_WRONG_CLIENT_COOKIE) {
      if (cklen == 0) {
        memcpy(ck, q.cookie, 8);
        memset(ck + 8, 0x5a, 8);
        cklen = 16;
      }
      ck[3] ^= 0xff;
    }
  } else if (v == PV_WRONG_CLIENT_COOKIE || v == PV_NO_COOKIE || v == PV_NO_COOKIE_FORMERR || v == PV_NO_COOKIE_ERR) {
    return; /* no cookie in play */
  }
  if (v == PV_NO_COOKIE || v == PV_NO_COOKIE_FORMERR || v == PV_NO_COOKIE_ERR) {
    cklen = 0;
  }
  if (v == PV_REPLAY_OLD) {
    /* handled below: needs an earlier genuine packet; approximate by a correct answer to an OLD
     * transmission (the oldest candidate) */
    txi = cand[nc - 1];
    if (&sim_tx[txi] == tx) {
      return;
    }
    tx     = &sim_tx[txi];
    fd     = tx->fd;
    srvidx = tx->srv;
    if (vsock[fd].is_tcp) {
      return;
    }
    q.id    = tx->qid;
    q.qtype = tx->qtype;
    {
      sdns_out_t tmp;
      tmp.len = 0;
      tmp.overflow = 0;
      if (strchr(tx->qname_case, '\\')) {
        return;
      }
      sdns_put_name_text(&tmp, tx->qname_case);
      memcpy(q.qname_wire, tmp.b, tmp.len);
      q.qname_wire_len = tmp.len;
    }
  }
  serial = srv_build(srvidx, fd, &q, &pl, &srv_out, txi, ck, cklen);
  if (serial == 0 || srv_out.overflow) {
    return;
  }
  prov_variant_of[serial - 1] = (uint8_t)(v + 1);
  prov_forged_total++;
  raw    = srv_out.b;
  rawlen = srv_out.len;
  if (v == PV_NOT_A_RESPONSE && rawlen > 2) {
    raw[2] &= 0x7f;
  }
  if (v == PV_WRONG_SOCKET) {
    /* deliver on another open UDP socket (as if it came from THAT socket's server) */
    int other = -1, f;
    for (f = SIM_FD_BASE; f < sim_next_fd; f++) {
      if (f != fd && vsock[f].state == VS_OPEN && !vsock[f].is_tcp && vsock[f].srv >= 0) {
        other = f;
      }
    }
    if (other < 0) {
      prov_variant_of[serial - 1] = 0;
      sim_pktinfo[serial - 1].forged = 1; /* never delivered anyway */
      return;
    }
    sim_pktinfo[serial - 1].fd = other;
    p = sim_pkt_new(raw, rawlen, vsock[other].srv, serial);
    sim_ev_add(sim_now_us + delay_us, EV_DELIVER, other, 0, p);
    sim_note("adv_wrong_socket");
    return;
  }
  p = sim_pkt_new(raw, rawlen, srvidx, serial);
  if (v == PV_WRONG_ADDR_FAR) {
    p->from_srv = -1;
  } else if (v == PV_WRONG_ADDR_NEAR) {
    /* same leading bytes as the server's address, different tail */
    memcpy(prov_addr_override[serial - 1], sim_srv[srvidx].addr, 16);
    if (sim_srv[srvidx].family == AF_INET) {
      prov_addr_override[serial - 1][3] ^= 0x40;
    } else {
      prov_addr_override[serial - 1][vh_range(&adv_rng, 4, 15)] ^= 0x21;
    }
    prov_addr_override_set[serial - 1] = 1;
  }
  sim_ev_add(sim_now_us + delay_us, EV_DELIVER, fd, 0, p);
  {
    char nm[64];
    snprintf(nm, sizeof(nm), "adv_%s", pv_names[v]);
    sim_note(nm);
  }
}

static void gen_prov(vh_rng_t *rng)
{
  int     i, n;
  int64_t horizon;
  gen_profile_flags = GP_NO_REENTRANT | GP_NO_CANCEL_IN_CB | GP_SIMPLE_NAMES | GP_NO_WEIRD_TYPES;
  gen_default_simcfg(rng, 0);
  gen_default_appcfg(rng);
  gen_srv_base(4);
  sim_no_subms_jitter = 1;
  sim_fifo_events     = 1;
  /* one datagram per processing call, so that a server-state notification can be attributed to the
   * packet that was just read */
  sim_cfg.nonblocking_flag = 0;
  sim_cfg.one_fd_per_call  = 1;
  prov_batch_reads         = 0;
  if (vh_chance(rng, 1, 4)) {
    /* batched reads: a genuine reply that causes a re-send and the forgery shadowing it are processed in ONE pass
     * (only the delivered-data rule is judged then) */
    sim_cfg.nonblocking_flag = 1;
    sim_cfg.one_fd_per_call  = 0;
    prov_batch_reads         = 1;
    sim_note("prov_batched_reads");
  }
  for (i = 0; i < sim_nsrv; i++) {
    vsrv_t *s = &sim_srv[i];
    int     m = (int)vh_below(rng, 10);
    memset(s->w_udp, 0, sizeof(s->w_udp));
    memset(s->w_tcp, 0, sizeof(s->w_tcp));
    s->w_udp[m < 5 ? SA_ANSWER : m < 7 ? SA_SILENT : m < 8 ? SA_TC : m < 9 ? SA_SERVFAIL : SA_NXDOMAIN] = 1;
    s->w_tcp[SA_ANSWER]                                                                                    = 1;
    s->delay_min_ms = s->delay_max_ms = vh_chance(rng, 1, 3) ? vh_range(rng, 300, 1500) : vh_range(rng, 5, 60);
    s->tcp_connect                    = 1;
    s->tcp_connect_delay_ms           = 2;
    s->default_nrec                   = vh_range(rng, 1, 3);
    s->default_ttl                    = 300;
    s->ck_mode                        = (int)vh_below(rng, 2);
    memset(s->ck_secret, 0x31 + i, 8);
  }
  app_cfg.flags = 0;
  {
    static const int fl[] = { ARES_FLAG_EDNS, ARES_FLAG_DNS0x20, ARES_FLAG_STAYOPEN, ARES_FLAG_NOCHECKRESP, ARES_FLAG_IGNTC, ARES_FLAG_NOSEARCH };
    static const int pr[] = { 70, 50, 50, 15, 15, 70 };
    for (i = 0; i < 6; i++) {
      if ((int)vh_below(rng, 100) < pr[i]) {
        app_cfg.flags |= fl[i];
      }
    }
  }
  app_cfg.tries           = vh_range(rng, 1, 3);
  app_cfg.timeout_ms      = vh_range(rng, 250, 800);
  app_cfg.rotate          = vh_chance(rng, 1, 3);
  app_cfg.udp_max_queries = vh_chance(rng, 1, 3) ? vh_range(rng, 1, 3) : 0;
  app_cfg.qcache_max_ttl  = vh_chance(rng, 1, 2) ? 3600 : 0;
  app_cfg.nsrv_cfg        = vh_range(rng, 1, 3);
  {
    int used[SIM_MAXSRV] = { 0 };
    n                    = 0;
    while (n < app_cfg.nsrv_cfg) {
      int sidx = (int)vh_below(rng, (uint32_t)sim_nsrv);
      if (!used[sidx]) {
        used[sidx]           = 1;
        app_cfg.srv_cfg[n++] = sidx;
      }
    }
  }
  app_cfg.use_server_state_cb = 1;
  mon_enable_idx = mon_enable_fd = mon_enable_timer = 0;
  mon_enable_net                                    = 0;
  net_unique_names                                  = 0;
  if (!prov_batch_reads && vh_chance(rng, 1, 5)) {
    /* socket calls that fail now and then: attempts end on the spot, connections are replaced */
    sim_rand_fault_permille = vh_chance(rng, 1, 2) ? 15 : 50;
    sim_note("prov_with_socket_faults");
  }
  app_sched.max_steps                               = 30000;
  app_sched.idle_ms_after                           = 100;
  horizon = (int64_t)app_cfg.timeout_ms * 1000 * (app_cfg.tries + 1);
  n       = vh_range(rng, 2, 8);
  for (i = 0; i < n; i++) {
    int ti = gen_add_token(rng, vh_chance(rng, 1, 2) ? 0 : (int64_t)(vh_rand64(rng) % (uint64_t)(horizon + 1)));
    if (ti >= 0 && vh_chance(rng, 1, 3) && ti > 0) {
      /* repeat an earlier question: cache provenance */
      snprintf(app_tok[ti].name, sizeof(app_tok[ti].name), "%s", app_tok[0].name);
      app_tok[ti].qtype  = app_tok[0].qtype;
      app_tok[ti].kind   = app_tok[0].kind;
      app_tok[ti].family = app_tok[0].family;
      memcpy(app_tok[ti].addr, app_tok[0].addr, sizeof(app_tok[ti].addr));
    }
  }
  /* local address changes (new sockets get another source address): cookie state is per source */
  if (vh_chance(rng, 1, 2)) {
    gen_add_action((int64_t)(vh_rand64(rng) % (uint64_t)(horizon + 1)), AA_LOCALADDR, 0, 0);
  }
  /* adversary schedule */
  if (prov_adv_on) {
    n = vh_range(rng, 3, 24);
    for (i = 0; i < n; i++) {
      gen_add_action((int64_t)(vh_rand64(rng) % (uint64_t)(horizon + 1)), AA_ADVERSARY, 0, 0);
    }
  } else {
    /* keep rng consumption identical between the runs */
    n = vh_range(rng, 3, 24);
    for (i = 0; i < n; i++) {
      (void)vh_rand64(rng);
    }
  }
}

typedef struct {
  int ntok;
  int status[APP_MAXTOK];
  int timeouts[APP_MAXTOK];
  int nser[APP_MAXTOK];
  int ntx;
} prov_digest_t;
static prov_digest_t prov_a;

static void prov_capture(prov_digest_t *d)
{
  int i;
  d->ntok = app_ntok;
  for (i = 0; i < app_ntok; i++) {
    d->status[i]   = app_tok[i].cb_status;
    d->timeouts[i] = app_tok[i].cb_timeouts;
    d->nser[i]     = app_tok[i].nserials;
  }
  d->ntx = sim_ntx;
}

static void run_prov(vh_rng_t *rng)
{
  vh_rng_t r0 = *rng;
  int      i;
  uint64_t h = VH_FNV_INIT;
  uint32_t variants;
  int      forged_live, acceptable_adv;
  /* run A: with the adversary */
  memset(prov_variant_of, 0, sizeof(prov_variant_of));
  memset(prov_addr_override_set, 0, sizeof(prov_addr_override_set));
  prov_forged_live = prov_forged_total = 0;
  prov_acceptable_adversary            = 0;
  memset(prov_srv_proven, 0, sizeof(prov_srv_proven));
  prov_variants_seen                   = 0;
  prov_last_read_serial                = 0;
  prov_adv_on                          = 1;
  vh_rng_seed(&adv_rng, g_case_seed ^ 0x9e3779b9u);
  gen_prov(rng);
  mon_tok_done_hook     = mon_prov_tok_done;
  mon_server_state_hook = mon_prov_server_state;
  srv_sent_hook         = prov_shadow;
  srv_frame_hook        = prov_on_tx;
  sim_read_hook         = prov_on_read;
  prov_guard_serial     = 0;
  run_generic(rng);
  prov_capture(&prov_a);
  variants       = prov_variants_seen;
  forged_live    = prov_forged_live;
  acceptable_adv = prov_acceptable_adversary;
  sim_read_hook = NULL;
  /* NOTE: a differential re-run without the adversary was tried and dropped: a malformed datagram that
   * carries the server's (spoofable) source address makes c-ares treat the UDP "connection" as failed and
   * re-send its queries elsewhere.  That changes timeouts/transmissions, but the statement only forbids
   * forged packets from supplying data, counting as a server success or entering the cache. */
  (void)r0;
  (void)i;
  case_nontrivial = forged_live > 0;
  if (case_nontrivial) {
    h = vh_fnv_u64(h, variants);
    h = vh_fnv_u64(h, (uint64_t)app_cfg.flags);
    h = vh_fnv_u64(h, (uint64_t)app_cfg.udp_max_queries * 8 + (uint64_t)app_cfg.nsrv_cfg);
    vh_count("nontrivial_cases");
    vh_fp_add(h);
  }
}
