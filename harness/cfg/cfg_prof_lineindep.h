/* cfg_prof_lineindep.h - profile `lineindep` (C15 metamorphic): a grammar-generated valid source F
 * and F' = F with junk lines inserted (comments, blank, whitespace, unknown keywords, known
 * keywords without / with an invalid value, over-long tokens, binary) at start / between / end.
 * Oracle: same init status and E(F') == E(F) after initialisation and after an awaited
 * ares_reinit(); hosts / alias lookups of every valid entry unchanged; a setter given an invalid
 * string fails and leaves E unchanged. */
#ifndef CFG_PROF_LINEINDEP_H
#define CFG_PROF_LINEINDEP_H

enum {
  LT_RESOLV = 0,
  LT_NSSWITCH,
  LT_NETSVC,
  LT_SVC,
  LT_HOSTS,
  LT_ALIASES,
  LT_RES_OPTIONS,
  LT_ENV_WHOLE,
  LT_SET_SORTLIST,
  LT_SET_CSV,
  LT_N
};
static const char *const li_target_name[LT_N] = { "resolv", "nsswitch", "netsvc", "svc", "hosts",
                                                  "aliases", "RES_OPTIONS", "env", "sortlist",
                                                  "servers-csv" };

typedef struct {
  int       rc;
  cfg_eff_t e_init, e_reinit;
  char     *hosts, *aliases;
} li_obs_t;

static void li_obs_free(li_obs_t *o)
{
  cfg_eff_free(&o->e_init);
  cfg_eff_free(&o->e_reinit);
  free(o->hosts);
  free(o->aliases);
  memset(o, 0, sizeof(*o));
}

static void li_observe(cfg_sys_t *sys, cfg_uopts_t *u, const cfg_names_t *hn, const cfg_names_t *an,
                       li_obs_t *o)
{
  ares_channel_t *ch = NULL;
  memset(o, 0, sizeof(*o));
  cfg_sys_apply(sys);
  cfg_lib_begin();
  o->rc = cfg_init(&ch, u);
  if (o->rc == ARES_SUCCESS) {
    cfg_eff_read(ch, &o->e_init, 0);
    if (hn && hn->n + hn->nip > 0) {
      o->hosts = render_hosts_lookups(ch, hn);
    }
    if (an && an->n > 0) {
      o->aliases = render_alias_lookups(ch, an);
    }
    cfg_reinit_await(ch);
    cfg_eff_read(ch, &o->e_reinit, 0);
    ares_destroy(ch);
  }
  cfg_lib_end("after ares_destroy + ares_library_cleanup", sys);
}

/* returns 1 when a violation was emitted */
static int li_compare(const char *target, const char *cls, const li_obs_t *a, const li_obs_t *b,
                      const cfg_sys_t *sa, const cfg_sys_t *sb, const char *const *skip)
{
  char        key[200];
  const char *d;
  char       *wa, *wb;
  CNT("lineindep_comparisons");
  if (a->rc != b->rc) {
    snprintf(key, sizeof(key), "cfg15:lineindep:%s:%s:init-status", target, cls);
    wa = cfg_witness(sa);
    wb = cfg_witness(sb);
    vh_violation(key, "init rc %d without junk, %d with | F: %.700s | F': %.900s", a->rc, b->rc, wa,
                 wb);
    free(wa);
    free(wb);
    return 1;
  }
  if (a->rc != ARES_SUCCESS) {
    return 0;
  }
  d = cfg_eff_diff(&a->e_init, &b->e_init, NULL, skip);
  if (d) {
    snprintf(key, sizeof(key), "cfg15:lineindep:%s:%s:%s", target, cls, d);
    wa = cfg_witness(sa);
    wb = cfg_witness(sb);
    vh_violation(key, "%s = %.200s without junk, %.200s with | F: %.600s | F': %.800s", d,
                 cfg_eff_get(&a->e_init, d), cfg_eff_get(&b->e_init, d), wa, wb);
    free(wa);
    free(wb);
    return 1;
  }
  if ((a->hosts || b->hosts) && (!a->hosts || !b->hosts || strcmp(a->hosts, b->hosts) != 0)) {
    snprintf(key, sizeof(key), "cfg15:lineindep:%s:%s:hosts-lookups", target, cls);
    wb = cfg_witness(sb);
    vh_violation(key, "lookups %.500s without junk, %.500s with | F': %.800s", a->hosts ? a->hosts : "",
                 b->hosts ? b->hosts : "", wb);
    free(wb);
    return 1;
  }
  if ((a->aliases || b->aliases) &&
      (!a->aliases || !b->aliases || strcmp(a->aliases, b->aliases) != 0)) {
    snprintf(key, sizeof(key), "cfg15:lineindep:%s:%s:alias-lookups", target, cls);
    wb = cfg_witness(sb);
    vh_violation(key, "lookups %.400s without junk, %.400s with | F': %.800s",
                 a->aliases ? a->aliases : "", b->aliases ? b->aliases : "", wb);
    free(wb);
    return 1;
  }
  d = cfg_eff_diff(&a->e_reinit, &b->e_reinit, NULL, skip);
  if (d) {
    snprintf(key, sizeof(key), "cfg15:lineindep:%s:%s:%s:reinit", target, cls, d);
    wa = cfg_witness(sa);
    wb = cfg_witness(sb);
    vh_violation(key, "after ares_reinit %s = %.200s without junk, %.200s with | F: %.600s | F': %.800s",
                 d, cfg_eff_get(&a->e_reinit, d), cfg_eff_get(&b->e_reinit, d), wa, wb);
    free(wa);
    free(wb);
    return 1;
  }
  return 0;
}

/* insert `count` junk lines produced by gen into ls; returns position class of the first
 * (0 start, 1 between, 2 end) */
typedef void (*li_junk_fn)(vh_rng_t *r, int cls, void *ctx, cfg_bb_t *l);

static int li_insert_junk(vh_rng_t *r, cfg_lines_t *ls, int count, li_junk_fn gen, int cls,
                          void *ctx)
{
  int first = -1, i;
  for (i = 0; i < count; i++) {
    cfg_bb_t j   = { 0 };
    int      pc  = (int)vh_below(r, 3);
    int      at;
    cfg_bb_add(&j, "", 0);
    gen(r, cls, ctx, &j);
    if (pc == 0 || ls->n == 0) {
      at = 0;
    } else if (pc == 2 || ls->n == 1) {
      at = ls->n;
      pc = 2;
    } else {
      at = 1 + (int)vh_below(r, (uint32_t)ls->n - 1);
    }
    cfg_lines_insert(ls, at, &j);
    cfg_bb_free(&j);
    if (first < 0) {
      first = pc;
    }
  }
  return first;
}

static void li_junk_resolv(vh_rng_t *r, int cls, void *ctx, cfg_bb_t *l)
{
  (void)ctx;
  gen_junk_resolv(r, cls, l);
}
static void li_junk_nss(vh_rng_t *r, int cls, void *ctx, cfg_bb_t *l)
{
  gen_junk_ns(r, cls, *(char *)ctx, l);
}
static void li_junk_hosts(vh_rng_t *r, int cls, void *ctx, cfg_bb_t *l)
{
  gen_junk_hosts(r, cls, (const cfg_names_t *)ctx, l);
}
static void li_junk_alias(vh_rng_t *r, int cls, void *ctx, cfg_bb_t *l)
{
  gen_junk_alias(r, cls, (const cfg_names_t *)ctx, l);
}

static void li_set_file_from_lines(cfg_sys_t *s, int which, const cfg_lines_t *ls, int last_nl)
{
  cfg_bb_t bb = { 0 };
  cfg_lines_join(ls, &bb, last_nl);
  cfg_sys_set_file(s, which, bb.b ? bb.b : "", bb.len);
  cfg_bb_free(&bb);
}

static int li_pick_target(vh_rng_t *r)
{
  static const int w[LT_N] = { 10, 2, 1, 1, 5, 2, 2, 1, 1, 1 };
  int              tot = 0, i, x;
  for (i = 0; i < LT_N; i++) {
    tot += w[i];
  }
  x = (int)vh_below(r, (uint32_t)tot);
  for (i = 0; i < LT_N; i++) {
    if (x < w[i]) {
      return i;
    }
    x -= w[i];
  }
  return 0;
}

static void prof_lineindep(vh_rng_t *r, const vh_args_t *a)
{
  cfg_sys_t   F, G; /* G = F' */
  cfg_uopts_t u;
  cfg_names_t hn, an;
  cfg_lines_t base, junked;
  li_obs_t    oa, ob;
  int         target   = (int)vh_opt_int(a, "target", -1);
  int         want_cls = (int)vh_opt_int(a, "cls", -1);
  int         zero_ok  = (int)vh_opt_int(a, "zero", 0);
  int         cls = 0, pos = 0, njunk, last_nl = vh_chance(r, 5, 6);
  unsigned    dirs = 0;
  const char *clsname = "?";
  int         violated = 0;
  int         resolv_file = CF_RESOLV, hosts_file = CF_HOSTS;
  static const char *const skip_domains[] = { "i.domains", NULL };
  const char *const       *skip           = NULL;

  cfg_prop = "cfg15";
  if (target < 0 || target >= LT_N) {
    target = li_pick_target(r);
  }
  cfg_sys_init(&F);
  memset(&hn, 0, sizeof(hn));
  memset(&an, 0, sizeof(an));
  base.n   = 0;
  junked.n = 0;
  memset(&u, 0, sizeof(u));
  njunk = vh_range(r, 1, 3);

  /* application options that do not mask the system configuration */
  switch (vh_below(r, 5)) {
    case 0:
      u.use_null = 1;
      break;
    case 1:
      break; /* options struct with an empty mask */
    case 2:
      snprintf(u.resolv_path, sizeof(u.resolv_path), "%s", cfg_path[CF_RESOLV_ALT]);
      u.o.resolvconf_path = u.resolv_path;
      u.mask              = ARES_OPT_RESOLVCONF;
      resolv_file         = CF_RESOLV_ALT;
      break;
    case 3:
      snprintf(u.hosts_path, sizeof(u.hosts_path), "%s", cfg_path[CF_HOSTS_ALT]);
      u.o.hosts_path = u.hosts_path;
      u.mask         = ARES_OPT_HOSTS_FILE;
      hosts_file     = CF_HOSTS_ALT;
      break;
    default:
      u.o.flags = ARES_FLAG_EDNS | ARES_FLAG_NOCHECKRESP;
      u.mask    = ARES_OPT_FLAGS | ARES_OPT_UDP_PORT;
      u.o.udp_port = 5353;
      break;
  }

  /* ---- the valid environment F (every case has a resolv.conf; other sources sometimes) */
  {
    cfg_lines_t ls;
    ls.n = 0;
    dirs |= gen_resolv_valid(r, &ls, target == LT_RESOLV ? 2 : 0, 7, 1);
    if (target == LT_RESOLV) {
      cfg_lines_copy(&base, &ls);
    }
    li_set_file_from_lines(&F, resolv_file, &ls, 1);
    cfg_lines_free(&ls);
    if (resolv_file == CF_RESOLV_ALT) {
      /* decoy at the default path: must never be read */
      cfg_sys_set_file(&F, CF_RESOLV, "nameserver 203.0.113.99\noptions ndots:13\n", 40);
    }
  }
  if (target == LT_NSSWITCH || vh_chance(r, 1, 3)) {
    cfg_lines_t ls;
    ls.n = 0;
    dirs |= gen_nsswitch_valid(r, &ls);
    if (target == LT_NSSWITCH) {
      cfg_lines_copy(&base, &ls);
    }
    li_set_file_from_lines(&F, CF_NSSWITCH, &ls, 1);
    cfg_lines_free(&ls);
  }
  if (target == LT_NETSVC || vh_chance(r, 1, 8)) {
    cfg_lines_t ls;
    ls.n = 0;
    dirs |= gen_svc_valid(r, &ls);
    if (target == LT_NETSVC) {
      cfg_lines_copy(&base, &ls);
    }
    li_set_file_from_lines(&F, CF_NETSVC, &ls, 1);
    cfg_lines_free(&ls);
  }
  if (target == LT_SVC || vh_chance(r, 1, 8)) {
    cfg_lines_t ls;
    ls.n = 0;
    dirs |= gen_svc_valid(r, &ls);
    if (target == LT_SVC) {
      cfg_lines_copy(&base, &ls);
    }
    li_set_file_from_lines(&F, CF_SVC, &ls, 1);
    cfg_lines_free(&ls);
  }
  if (target == LT_HOSTS || vh_chance(r, 1, 4)) {
    cfg_lines_t ls;
    ls.n = 0;
    gen_hosts_valid(r, &ls, &hn, target == LT_HOSTS ? 2 : 1, 7);
    names_add(&hn, "commented.example");
    names_add(&hn, "nosuchhost.example");
    ips_add(&hn, "9.9.9.9");
    if (target == LT_HOSTS) {
      cfg_lines_copy(&base, &ls);
    }
    li_set_file_from_lines(&F, hosts_file, &ls, 1);
    cfg_lines_free(&ls);
    if (hosts_file == CF_HOSTS_ALT) {
      cfg_sys_set_file(&F, CF_HOSTS, "203.0.113.99 decoy.host nosuchhost.example\n", 44);
      names_add(&hn, "decoy.host");
    }
  }
  if (target == LT_ALIASES || vh_chance(r, 1, 6)) {
    cfg_lines_t ls;
    ls.n = 0;
    gen_aliases_valid(r, &ls, &an);
    names_add(&an, "nosuchalias");
    names_add(&an, "with.dot");
    if (target == LT_ALIASES) {
      cfg_lines_copy(&base, &ls);
    }
    li_set_file_from_lines(&F, CF_ALIASES, &ls, 1);
    cfg_lines_free(&ls);
    cfg_sys_set_env(&F, CE_HOSTALIASES, cfg_path[CF_ALIASES]);
  }
  if (target == LT_RES_OPTIONS || vh_chance(r, 1, 5)) {
    cfg_bb_t bb = { 0 };
    cfg_bb_add(&bb, "", 0);
    gen_options_value(r, &bb, &dirs);
    cfg_sys_set_env(&F, CE_RES_OPTIONS, bb.b);
    cfg_bb_free(&bb);
  }
  if (target != LT_ENV_WHOLE && vh_chance(r, 1, 6)) {
    cfg_sys_set_env(&F, CE_LOCALDOMAIN, gen_domain(r));
    dirs |= D_DOMAIN;
  }
  if (vh_chance(r, 1, 4)) {
    strcpy(F.hostname, "host.domain.org");
  }

  cfg_sys_copy(&G, &F);

  /* ---- F' */
  switch (target) {
    case LT_RESOLV:
      do {
        cls = want_cls >= 0 ? want_cls : (int)vh_below(r, J_RESOLV_N);
      } while (cls == J_OPT_ZERO && !zero_ok && want_cls < 0);
      clsname = junk_resolv_name[cls % J_RESOLV_N];
      cfg_lines_copy(&junked, &base);
      pos = li_insert_junk(r, &junked, njunk, li_junk_resolv, cls % J_RESOLV_N, NULL);
      li_set_file_from_lines(&F, resolv_file, &base, last_nl);
      li_set_file_from_lines(&G, resolv_file, &junked, last_nl);
      break;
    case LT_NSSWITCH:
    case LT_NETSVC:
    case LT_SVC: {
      char sep   = target == LT_NSSWITCH ? ':' : '=';
      int  which = target == LT_NSSWITCH ? CF_NSSWITCH : (target == LT_NETSVC ? CF_NETSVC : CF_SVC);
      cls        = want_cls >= 0 ? want_cls % JN_N : (int)vh_below(r, JN_N);
      clsname    = junk_ns_name[cls];
      cfg_lines_copy(&junked, &base);
      pos = li_insert_junk(r, &junked, njunk, li_junk_nss, cls, &sep);
      li_set_file_from_lines(&F, which, &base, last_nl);
      li_set_file_from_lines(&G, which, &junked, last_nl);
      break;
    }
    case LT_HOSTS:
      cls     = want_cls >= 0 ? want_cls % JH_N : (int)vh_below(r, JH_N);
      clsname = junk_hosts_name[cls];
      cfg_lines_copy(&junked, &base);
      pos = li_insert_junk(r, &junked, njunk, li_junk_hosts, cls, &hn);
      li_set_file_from_lines(&F, hosts_file, &base, last_nl);
      li_set_file_from_lines(&G, hosts_file, &junked, last_nl);
      break;
    case LT_ALIASES:
      cls     = want_cls >= 0 ? want_cls % JA_N : (int)vh_below(r, JA_N);
      clsname = junk_alias_name[cls];
      cfg_lines_copy(&junked, &base);
      pos = li_insert_junk(r, &junked, njunk, li_junk_alias, cls, &an);
      li_set_file_from_lines(&F, CF_ALIASES, &base, last_nl);
      li_set_file_from_lines(&G, CF_ALIASES, &junked, last_nl);
      break;
    case LT_RES_OPTIONS: {
      /* tokens of the valid value with junk tokens in between */
      cfg_bb_t bb   = { 0 };
      char    *copy = strdup(F.env[CE_RES_OPTIONS]);
      char    *tok, *save = NULL;
      int      ntok = 0, k, at[3];
      do {
        cls = want_cls >= 0 ? want_cls % JE_N : (int)vh_below(r, JE_N);
      } while (cls == JE_ZERO && !zero_ok && want_cls < 0);
      clsname = junk_env_name[cls];
      for (tok = strtok_r(copy, " \t", &save); tok; tok = strtok_r(NULL, " \t", &save)) {
        ntok++;
      }
      free(copy);
      for (k = 0; k < 3; k++) {
        at[k] = k < njunk ? (int)vh_below(r, (uint32_t)ntok + 1) : -1;
      }
      pos  = at[0] == 0 ? 0 : (at[0] == ntok ? 2 : 1);
      copy = strdup(F.env[CE_RES_OPTIONS]);
      cfg_bb_add(&bb, "", 0);
      ntok = 0;
      tok  = strtok_r(copy, " \t", &save);
      for (;;) {
        for (k = 0; k < 3; k++) {
          if (at[k] == ntok) {
            if (bb.len) {
              cfg_bb_ch(&bb, ' ');
            }
            gen_junk_envtoken(r, cls, &bb);
          }
        }
        if (tok == NULL) {
          break;
        }
        if (bb.len) {
          cfg_bb_ch(&bb, ' ');
        }
        cfg_bb_str(&bb, tok);
        ntok++;
        tok = strtok_r(NULL, " \t", &save);
      }
      free(copy);
      cfg_sys_set_env(&G, CE_RES_OPTIONS, bb.b);
      cfg_bb_free(&bb);
      break;
    }
    case LT_ENV_WHOLE: {
      /* a variable that is set but carries nothing vs. the variable not set at all */
      static const char *const ro[] = { "", " ", "\t ", "  " };
      /* ... or carries something that is no domain list (a tab, an accented letter, a control byte): whatever the
       * library makes of the search list then, the rest of the configuration is not this variable's business */
      static const char *const ld[] = { "", " ", ",", ", ,", "corp.example\tlab.example", "caf\xc3\xa9.example", "corp.example\x01",
                                        "\x7f" };
      cfg_sys_set_env(&F, CE_LOCALDOMAIN, NULL);
      cfg_sys_set_env(&G, CE_LOCALDOMAIN, NULL);
      if (vh_chance(r, 1, 2)) {
        const char *v = PICK(r, ro);
        cfg_sys_set_env(&F, CE_RES_OPTIONS, NULL);
        cfg_sys_set_env(&G, CE_RES_OPTIONS, v);
        clsname = v[0] ? "RES_OPTIONS-blank" : "RES_OPTIONS-empty";
        cls     = v[0] ? 1 : 0;
      } else {
        const char *v = PICK(r, ld);
        cfg_sys_set_env(&G, CE_LOCALDOMAIN, v);
        clsname = !v[0] ? "LOCALDOMAIN-empty" : strlen(v) <= 3 && v[0] != 0x7f ? "LOCALDOMAIN-separators-only" : "LOCALDOMAIN-unprintable";
        cls     = !v[0] ? 2 : strlen(v) <= 3 && v[0] != 0x7f ? 3 : 4;
        /* whether an empty LOCALDOMAIN clears the search list is not specified anywhere:
         * only the rest of the configuration must be untouched */
        skip = skip_domains;
      }
      break;
    }
    default:
      break;
  }

  if (target == LT_SET_SORTLIST || target == LT_SET_CSV) {
    /* ---- setters: invalid string => error, previous value stays */
    ares_channel_t *ch = NULL;
    int             rc;
    cfg_sys_apply(&F);
    cfg_lib_begin();
    rc = cfg_init(&ch, &u);
    if (rc == ARES_SUCCESS) {
      cfg_eff_t e0, e1;
      cfg_bb_t  good = { 0 }, bad = { 0 };
      int       rc1, rc2;
      cfg_bb_add(&good, "", 0);
      cfg_bb_add(&bad, "", 0);
      if (target == LT_SET_SORTLIST) {
        gen_sortlist_value(r, &good);
        gen_bad_sortlist(r, &bad);
        rc1 = ares_set_sortlist(ch, good.b);
        cfg_eff_read(ch, &e0, 0);
        rc2 = ares_set_sortlist(ch, bad.b);
        clsname = "invalid-string";
      } else {
        cfg_srv_t set[U_MAXSRV];
        unsigned  sc = 0;
        int       n  = gen_server_set(r, set, 4, 0, &sc);
        srv_to_csv(r, set, n, &good);
        gen_bad_csv(r, &bad);
        rc1 = vh_chance(r, 1, 2) ? ares_set_servers_csv(ch, good.b)
                                 : ares_set_servers_ports_csv(ch, good.b);
        cfg_eff_read(ch, &e0, 0);
        rc2 = vh_chance(r, 1, 2) ? ares_set_servers_csv(ch, bad.b)
                                 : ares_set_servers_ports_csv(ch, bad.b);
        clsname = "invalid-string";
      }
      cfg_eff_read(ch, &e1, 0);
      CNT("setter_evaluations");
      if (rc1 != ARES_SUCCESS) {
        char key[128];
        snprintf(key, sizeof(key), "cfg15:setter:%s:rejected-valid", li_target_name[target]);
        vh_violation(key, "rc=%d for \"%s\"", rc1, good.b);
        violated = 1;
      }
      if (rc2 == ARES_SUCCESS) {
        char key[128];
        snprintf(key, sizeof(key), "cfg15:setter:%s:accepted-invalid", li_target_name[target]);
        vh_violation(key, "ARES_SUCCESS for \"%s\" (previous \"%s\")", bad.b, good.b);
        violated = 1;
      } else {
        const char *d = cfg_eff_diff(&e0, &e1, NULL, NULL);
        if (d) {
          char key[128];
          snprintf(key, sizeof(key), "cfg15:setter:%s:changed-on-error", li_target_name[target]);
          vh_violation(key, "rc=%d for \"%s\" changed %s from %.200s to %.200s", rc2, bad.b, d,
                       cfg_eff_get(&e0, d), cfg_eff_get(&e1, d));
          violated = 1;
        }
      }
      cfg_eff_free(&e0);
      cfg_eff_free(&e1);
      cfg_bb_free(&good);
      cfg_bb_free(&bad);
      ares_destroy(ch);
      cfg_case_nontrivial = 1;
    }
    cfg_lib_end("after ares_destroy + ares_library_cleanup", &F);
    cls = 0;
    pos = 0;
  } else {
    li_observe(&F, &u, hn.n ? &hn : NULL, an.n ? &an : NULL, &oa);
    li_observe(&G, &u, hn.n ? &hn : NULL, an.n ? &an : NULL, &ob);
    violated = li_compare(li_target_name[target], clsname, &oa, &ob, &F, &G, skip);
    /* Same files, same environment, same application options, no setter call in between: what
     * the channel reads at creation and what it reads at an awaited ares_reinit() are the same
     * directives, so a valid directive that is effective after one and not after the other has
     * failed to take effect once. */
    if (!violated && oa.rc == ARES_SUCCESS) {
      const char *d2 = cfg_eff_diff(&oa.e_init, &oa.e_reinit, NULL, skip);
      CNT("lineindep_init_vs_reinit_comparisons");
      if (d2) {
        char  key2[200];
        char *w2 = cfg_witness(&F);
        snprintf(key2, sizeof(key2), "cfg15:init-vs-reinit:%s:%s", li_target_name[target], d2);
        vh_violation(key2, "%s = %.200s after creation, %.200s after ares_reinit of unchanged sources | F: %.900s",
                     d2, cfg_eff_get(&oa.e_init, d2), cfg_eff_get(&oa.e_reinit, d2), w2);
        free(w2);
        violated = 1;
      }
    }
    /* the decoys at the default paths must not have been read */
    if (oa.rc == ARES_SUCCESS && resolv_file == CF_RESOLV_ALT) {
      const char *sv = cfg_eff_get(&oa.e_init, "i.server_addrs");
      if (sv && strstr(sv, "203.0.113.99")) {
        vh_violation("cfg16:userwins:resolvconf-path-ignored",
                     "ARES_OPT_RESOLVCONF given but /etc/resolv.conf was used: %s", sv);
      }
    }
    if (oa.hosts && hosts_file == CF_HOSTS_ALT && strstr(oa.hosts, "203.0.113.99")) {
      vh_violation("cfg16:userwins:hosts-path-ignored",
                   "ARES_OPT_HOSTS_FILE given but /etc/hosts was used: %.600s", oa.hosts);
    }
    {
      int nlines = 0, k;
      for (k = 0; k < CF_N; k++) {
        size_t q;
        for (q = 0; F.f[k].state == CFG_PRESENT && q < F.f[k].len; q++) {
          if (F.f[k].data[q] == '\n') {
            nlines++;
          }
        }
      }
      cfg_case_nontrivial = nlines >= 2 && oa.rc == ARES_SUCCESS;
    }
    if (vh_want_sample() && cfg_case_nontrivial && target == LT_RESOLV) {
      vh_sb_t sb = { 0 };
      char   *w  = cfg_witness(&G);
      vh_sb_printf(&sb, "{\"profile\":\"lineindep\",\"target\":\"%s\",\"junk_class\":\"%s\",\"env\":",
                   li_target_name[target], clsname);
      vh_sb_jstr(&sb, w, strlen(w) > 700 ? 700 : strlen(w));
      vh_sb_printf(&sb, ",\"E\":");
      {
        char *e = cfg_eff_render(&ob.e_init, "i.");
        vh_sb_jstr(&sb, e, strlen(e) > 700 ? 700 : strlen(e));
        free(e);
      }
      vh_sb_printf(&sb, "}");
      vh_sample(sb.b);
      free(sb.b);
      free(w);
    }
    li_obs_free(&oa);
    li_obs_free(&ob);
  }
  (void)violated;

  {
    char cn[96];
    snprintf(cn, sizeof(cn), "junk:%s:%s", li_target_name[target], clsname);
    vh_count(cn);
  }
  /* distinct = (target, junk class, position, directive set of F) */
  cfg_case_fp = vh_fnv_u64(cfg_case_fp, (uint64_t)target);
  cfg_case_fp = vh_fnv_str(cfg_case_fp, clsname);
  cfg_case_fp = vh_fnv_u64(cfg_case_fp, (uint64_t)pos);
  cfg_case_fp = vh_fnv_u64(cfg_case_fp, dirs);

  cfg_lines_free(&base);
  cfg_lines_free(&junked);
  cfg_sys_free(&F);
  cfg_sys_free(&G);
}

#endif
