/* cfg_eff.h - E(channel): the effective configuration of a channel as canonical key/value text.
 *
 * Internal view ("i.*", ground truth): read directly from struct ares_channeldata through
 * ares_private.h.  Public view ("p.*"): ares_save_options(), ares_get_servers_csv(),
 * ares_get_servers_ports(), ares_get_servers().  The round-trip oracles feed the public view
 * back into the library and compare internal views.
 */
#ifndef CFG_EFF_H
#define CFG_EFF_H

#define CFG_MAXKV 72

typedef struct {
  const char *k;
  char       *v;
} cfg_kv_t;

typedef struct {
  cfg_kv_t kv[CFG_MAXKV];
  int      n;
  /* a few numbers kept in binary for the range oracle */
  size_t       nservers, ndomains, nsort;
  unsigned int flags, optmask;
} cfg_eff_t;

static void cfg_eff_free(cfg_eff_t *e)
{
  int i;
  for (i = 0; i < e->n; i++) {
    free(e->kv[i].v);
  }
  memset(e, 0, sizeof(*e));
}

static void cfg_eff_put(cfg_eff_t *e, const char *k, const char *fmt, ...)
{
  va_list ap;
  char    tmp[256];
  int     n;
  if (e->n >= CFG_MAXKV) {
    return;
  }
  va_start(ap, fmt);
  n = vsnprintf(tmp, sizeof(tmp), fmt, ap);
  va_end(ap);
  e->kv[e->n].k = k;
  if (n >= (int)sizeof(tmp)) {
    char *big = (char *)malloc((size_t)n + 1);
    va_start(ap, fmt);
    vsnprintf(big, (size_t)n + 1, fmt, ap);
    va_end(ap);
    e->kv[e->n].v = big;
  } else {
    e->kv[e->n].v = strdup(tmp);
  }
  e->n++;
}

static void cfg_eff_put_own(cfg_eff_t *e, const char *k, char *v)
{
  if (e->n >= CFG_MAXKV) {
    free(v);
    return;
  }
  e->kv[e->n].k = k;
  e->kv[e->n].v = v ? v : strdup("");
  e->n++;
}

static const char *cfg_eff_get(const cfg_eff_t *e, const char *k)
{
  int i;
  for (i = 0; i < e->n; i++) {
    if (!strcmp(e->kv[i].k, k)) {
      return e->kv[i].v;
    }
  }
  return NULL;
}

/* printable rendering of arbitrary bytes (for witnesses and for domain strings) */
static void cfg_esc(vh_sb_t *sb, const char *s, size_t n, size_t max)
{
  size_t i;
  for (i = 0; i < n && i < max; i++) {
    unsigned char c = (unsigned char)s[i];
    if (c == '\n') {
      vh_sb_printf(sb, "\\n");
    } else if (c == '\t') {
      vh_sb_printf(sb, "\\t");
    } else if (c == '\r') {
      vh_sb_printf(sb, "\\r");
    } else if (c == '\\' || c == '|') {
      vh_sb_printf(sb, "\\x%02x", c);
    } else if (c < 0x20 || c >= 0x7f) {
      vh_sb_printf(sb, "\\x%02x", c);
    } else {
      vh_sb_printf(sb, "%c", c);
    }
  }
  if (n > max) {
    vh_sb_printf(sb, "...(%zu bytes)", n);
  }
}

static char *cfg_sb_take(vh_sb_t *sb)
{
  char *r = sb->b ? sb->b : strdup("");
  memset(sb, 0, sizeof(*sb));
  return r;
}

static void cfg_fmt_addr(vh_sb_t *sb, const struct ares_addr *a)
{
  char buf[INET6_ADDRSTRLEN + 1] = "?";
  if (a->family == AF_INET) {
    ares_inet_ntop(AF_INET, &a->addr.addr4, buf, sizeof(buf));
    vh_sb_printf(sb, "4:%s", buf);
  } else if (a->family == AF_INET6) {
    ares_inet_ntop(AF_INET6, &a->addr.addr6, buf, sizeof(buf));
    vh_sb_printf(sb, "6:%s", buf);
  } else {
    vh_sb_printf(sb, "fam%d", a->family);
  }
}

static char *cfg_fmt_sortlist(const struct apattern *sl, size_t n)
{
  vh_sb_t sb = { 0 };
  size_t  i;
  for (i = 0; i < n; i++) {
    cfg_fmt_addr(&sb, &sl[i].addr);
    vh_sb_printf(&sb, "/%u;", (unsigned)sl[i].mask);
  }
  return cfg_sb_take(&sb);
}

static char *cfg_fmt_domains(char *const *d, size_t n)
{
  vh_sb_t sb = { 0 };
  size_t  i;
  for (i = 0; i < n; i++) {
    if (d == NULL || d[i] == NULL) {
      vh_sb_printf(&sb, "<NULL>,");
    } else {
      cfg_esc(&sb, d[i], strlen(d[i]), 300);
      vh_sb_printf(&sb, ",");
    }
  }
  return cfg_sb_take(&sb);
}

/* server list in selection order (no failures recorded in this harness => configuration order) */
static char *cfg_fmt_servers_internal(const ares_channel_t *ch, int with_ports, int with_ll)
{
  vh_sb_t            sb = { 0 };
  ares_slist_node_t *node;
  for (node = ares_slist_node_first(ch->servers); node != NULL; node = ares_slist_node_next(node)) {
    const ares_server_t *s = ares_slist_node_val(node);
    cfg_fmt_addr(&sb, &s->addr);
    if (with_ports) {
      vh_sb_printf(&sb, "|u%u|t%u", (unsigned)s->udp_port, (unsigned)s->tcp_port);
    }
    if (with_ll) {
      vh_sb_printf(&sb, "|%%%s|s%u", s->ll_iface, s->ll_scope);
    }
    vh_sb_printf(&sb, ";");
  }
  return cfg_sb_take(&sb);
}

static void cfg_dummy_sock_state_cb(void *data, ares_socket_t s, int r, int w)
{
  (void)data;
  (void)s;
  (void)r;
  (void)w;
}

#define CFG_EFF_PUBLIC 1

static void cfg_eff_read(ares_channel_t *ch, cfg_eff_t *e, int flags)
{
  char *s;
  memset(e, 0, sizeof(*e));

  ares_channel_lock(ch);
  /* ---- internal view */
  e->flags    = ch->flags;
  e->optmask  = ch->optmask;
  e->nservers = ares_slist_len(ch->servers);
  e->ndomains = ch->ndomains;
  e->nsort    = ch->nsort;
  cfg_eff_put(e, "i.flags", "0x%x", ch->flags);
  cfg_eff_put(e, "i.timeout", "%zu", ch->timeout);
  cfg_eff_put(e, "i.tries", "%zu", ch->tries);
  cfg_eff_put(e, "i.ndots", "%zu", ch->ndots);
  cfg_eff_put(e, "i.maxtimeout", "%zu", ch->maxtimeout);
  cfg_eff_put(e, "i.rotate", "%d", (int)ch->rotate);
  cfg_eff_put(e, "i.udp_port", "%u", (unsigned)ch->udp_port);
  cfg_eff_put(e, "i.tcp_port", "%u", (unsigned)ch->tcp_port);
  cfg_eff_put(e, "i.sndbuf", "%d", ch->socket_send_buffer_size);
  cfg_eff_put(e, "i.rcvbuf", "%d", ch->socket_receive_buffer_size);
  cfg_eff_put_own(e, "i.domains", cfg_fmt_domains(ch->domains, ch->ndomains));
  cfg_eff_put_own(e, "i.sortlist", cfg_fmt_sortlist(ch->sortlist, ch->nsort));
  {
    vh_sb_t sb = { 0 };
    if (ch->lookups) {
      cfg_esc(&sb, ch->lookups, strlen(ch->lookups), 200);
    } else {
      vh_sb_printf(&sb, "<NULL>");
    }
    cfg_eff_put_own(e, "i.lookups", cfg_sb_take(&sb));
  }
  cfg_eff_put(e, "i.ednspsz", "%zu", ch->ednspsz);
  cfg_eff_put(e, "i.qcache_max_ttl", "%u", ch->qcache_max_ttl);
  cfg_eff_put(e, "i.evsys", "%d", (int)ch->evsys);
  cfg_eff_put(e, "i.optmask", "0x%x", ch->optmask);
  cfg_eff_put(e, "i.resolvconf_path", "%s", ch->resolvconf_path ? ch->resolvconf_path : "<NULL>");
  cfg_eff_put(e, "i.hosts_path", "%s", ch->hosts_path ? ch->hosts_path : "<NULL>");
  cfg_eff_put(e, "i.udp_max_queries", "%zu", ch->udp_max_queries);
  cfg_eff_put(e, "i.retry_chance", "%u", (unsigned)ch->server_retry_chance);
  cfg_eff_put(e, "i.retry_delay", "%zu", ch->server_retry_delay);
  cfg_eff_put_own(e, "i.servers", cfg_fmt_servers_internal(ch, 1, 1));
  cfg_eff_put_own(e, "i.server_addrs", cfg_fmt_servers_internal(ch, 0, 0));
  cfg_eff_put(e, "i.sock_state_cb", "%s/%s",
              ch->sock_state_cb == cfg_dummy_sock_state_cb ? "dummy"
                                                           : (ch->sock_state_cb ? "other" : "none"),
              ch->sock_state_cb_data ? "data" : "nodata");
  cfg_eff_put(e, "i.local_dev", "%s", ch->local_dev_name);
  cfg_eff_put(e, "i.local_ip4", "0x%x", ch->local_ip4);
  {
    vh_sb_t sb = { 0 };
    int     i;
    for (i = 0; i < 16; i++) {
      vh_sb_printf(&sb, "%02x", ch->local_ip6[i]);
    }
    cfg_eff_put_own(e, "i.local_ip6", cfg_sb_take(&sb));
  }
  cfg_eff_put(e, "i.server_state_cb", "%s", ch->server_state_cb ? "set" : "none");
  ares_channel_unlock(ch);

  if (!(flags & CFG_EFF_PUBLIC)) {
    return;
  }

  /* ---- public view */
  {
    struct ares_options o;
    int                 mask = 0;
    int                 rc;
    memset(&o, 0x5a, sizeof(o)); /* fields outside the mask must not be relied upon */
    rc = ares_save_options(ch, &o, &mask);
    cfg_eff_put(e, "p.save_rc", "%d", rc);
    if (rc == ARES_SUCCESS) {
      cfg_eff_put(e, "p.optmask", "0x%x", (unsigned)mask);
      if (mask & ARES_OPT_FLAGS) {
        cfg_eff_put(e, "p.flags", "0x%x", (unsigned)o.flags);
      }
      if (mask & ARES_OPT_TIMEOUTMS) {
        cfg_eff_put(e, "p.timeout", "%d", o.timeout);
      }
      if (mask & ARES_OPT_TRIES) {
        cfg_eff_put(e, "p.tries", "%d", o.tries);
      }
      if (mask & ARES_OPT_NDOTS) {
        cfg_eff_put(e, "p.ndots", "%d", o.ndots);
      }
      if (mask & ARES_OPT_MAXTIMEOUTMS) {
        cfg_eff_put(e, "p.maxtimeout", "%d", o.maxtimeout);
      }
      if (mask & ARES_OPT_UDP_PORT) {
        cfg_eff_put(e, "p.udp_port", "%u", (unsigned)o.udp_port);
      }
      if (mask & ARES_OPT_TCP_PORT) {
        cfg_eff_put(e, "p.tcp_port", "%u", (unsigned)o.tcp_port);
      }
      if (mask & ARES_OPT_SOCK_SNDBUF) {
        cfg_eff_put(e, "p.sndbuf", "%d", o.socket_send_buffer_size);
      }
      if (mask & ARES_OPT_SOCK_RCVBUF) {
        cfg_eff_put(e, "p.rcvbuf", "%d", o.socket_receive_buffer_size);
      }
      if (mask & ARES_OPT_SERVERS) {
        vh_sb_t sb = { 0 };
        int     i;
        for (i = 0; i < o.nservers; i++) {
          char buf[32];
          ares_inet_ntop(AF_INET, &o.servers[i], buf, sizeof(buf));
          vh_sb_printf(&sb, "4:%s;", buf);
        }
        cfg_eff_put_own(e, "p.servers4", cfg_sb_take(&sb));
      }
      if (mask & ARES_OPT_DOMAINS) {
        cfg_eff_put_own(e, "p.domains", cfg_fmt_domains(o.domains, (size_t)o.ndomains));
      }
      if (mask & ARES_OPT_LOOKUPS) {
        cfg_eff_put(e, "p.lookups", "%s", o.lookups ? o.lookups : "<NULL>");
      }
      if (mask & ARES_OPT_SORTLIST) {
        cfg_eff_put_own(e, "p.sortlist", cfg_fmt_sortlist(o.sortlist, (size_t)o.nsort));
      }
      if (mask & ARES_OPT_EDNSPSZ) {
        cfg_eff_put(e, "p.ednspsz", "%d", o.ednspsz);
      }
      if (mask & ARES_OPT_RESOLVCONF) {
        cfg_eff_put(e, "p.resolvconf_path", "%s", o.resolvconf_path ? o.resolvconf_path : "<NULL>");
      }
      if (mask & ARES_OPT_HOSTS_FILE) {
        cfg_eff_put(e, "p.hosts_path", "%s", o.hosts_path ? o.hosts_path : "<NULL>");
      }
      if (mask & ARES_OPT_UDP_MAX_QUERIES) {
        cfg_eff_put(e, "p.udp_max_queries", "%d", o.udp_max_queries);
      }
      if (mask & ARES_OPT_QUERY_CACHE) {
        cfg_eff_put(e, "p.qcache_max_ttl", "%u", o.qcache_max_ttl);
      }
      if (mask & ARES_OPT_EVENT_THREAD) {
        cfg_eff_put(e, "p.evsys", "%d", (int)o.evsys);
      }
      if (mask & ARES_OPT_SERVER_FAILOVER) {
        cfg_eff_put(e, "p.retry_chance", "%u", (unsigned)o.server_failover_opts.retry_chance);
        cfg_eff_put(e, "p.retry_delay", "%zu", o.server_failover_opts.retry_delay);
      }
      if (mask & ARES_OPT_SOCK_STATE_CB) {
        cfg_eff_put(e, "p.sock_state_cb", "%s/%s",
                    o.sock_state_cb == cfg_dummy_sock_state_cb ? "dummy" : "other",
                    o.sock_state_cb_data ? "data" : "nodata");
      }
    }
    ares_destroy_options(&o);
  }
  s = ares_get_servers_csv(ch);
  cfg_eff_put(e, "p.csv", "%s", s ? s : "<NULL>");
  ares_free_string(s);
  {
    struct ares_addr_port_node *pn = NULL, *p;
    vh_sb_t                     sb = { 0 };
    int                         rc = ares_get_servers_ports(ch, &pn);
    if (rc != ARES_SUCCESS) {
      vh_sb_printf(&sb, "rc=%d", rc);
    }
    for (p = pn; p; p = p->next) {
      struct ares_addr a;
      memset(&a, 0, sizeof(a));
      a.family = p->family;
      if (p->family == AF_INET) {
        memcpy(&a.addr.addr4, &p->addr.addr4, 4);
      } else {
        memcpy(&a.addr.addr6, &p->addr.addr6, 16);
      }
      cfg_fmt_addr(&sb, &a);
      vh_sb_printf(&sb, "|u%d|t%d;", p->udp_port, p->tcp_port);
    }
    ares_free_data(pn);
    cfg_eff_put_own(e, "p.ports", cfg_sb_take(&sb));
  }
}

/* ---- comparison: first key of `keys` (NULL = all "i." keys of a) on which a and b differ */
static const char *cfg_eff_diff(const cfg_eff_t *a, const cfg_eff_t *b, const char *const *keys,
                                const char *const *skip)
{
  int i, j;
  if (keys) {
    for (i = 0; keys[i]; i++) {
      const char *va = cfg_eff_get(a, keys[i]);
      const char *vb = cfg_eff_get(b, keys[i]);
      if (va == NULL && vb == NULL) {
        continue;
      }
      if (va == NULL || vb == NULL || strcmp(va, vb) != 0) {
        return keys[i];
      }
    }
    return NULL;
  }
  for (i = 0; i < a->n; i++) {
    const char *vb;
    int         skipit = 0;
    if (strncmp(a->kv[i].k, "i.", 2) != 0) {
      continue;
    }
    for (j = 0; skip && skip[j]; j++) {
      if (!strcmp(skip[j], a->kv[i].k)) {
        skipit = 1;
      }
    }
    if (skipit) {
      continue;
    }
    vb = cfg_eff_get(b, a->kv[i].k);
    if (vb == NULL || strcmp(a->kv[i].v, vb) != 0) {
      return a->kv[i].k;
    }
  }
  return NULL;
}

static char *cfg_eff_render(const cfg_eff_t *e, const char *prefix)
{
  vh_sb_t sb = { 0 };
  int     i;
  for (i = 0; i < e->n; i++) {
    if (prefix == NULL || !strncmp(e->kv[i].k, prefix, strlen(prefix))) {
      vh_sb_printf(&sb, "%s=%s ", e->kv[i].k, e->kv[i].v);
    }
  }
  return cfg_sb_take(&sb);
}

/* ---- public view must agree with the internal one (what save_options/csv report is what
 * the channel holds).  Returns the offending public key or NULL. */
static const char *cfg_eff_views_agree(const cfg_eff_t *e)
{
  static const struct {
    const char  *p, *i;
    unsigned int bit;
  } pairs[] = {
    { "p.flags",           "i.flags",           ARES_OPT_FLAGS           },
    { "p.timeout",         "i.timeout",         ARES_OPT_TIMEOUTMS       },
    { "p.tries",           "i.tries",           ARES_OPT_TRIES           },
    { "p.ndots",           "i.ndots",           ARES_OPT_NDOTS           },
    { "p.maxtimeout",      "i.maxtimeout",      ARES_OPT_MAXTIMEOUTMS    },
    { "p.udp_port",        "i.udp_port",        ARES_OPT_UDP_PORT        },
    { "p.tcp_port",        "i.tcp_port",        ARES_OPT_TCP_PORT        },
    { "p.sndbuf",          "i.sndbuf",          ARES_OPT_SOCK_SNDBUF     },
    { "p.rcvbuf",          "i.rcvbuf",          ARES_OPT_SOCK_RCVBUF     },
    { "p.domains",         "i.domains",         ARES_OPT_DOMAINS         },
    { "p.lookups",         "i.lookups",         ARES_OPT_LOOKUPS         },
    { "p.sortlist",        "i.sortlist",        ARES_OPT_SORTLIST        },
    { "p.ednspsz",         "i.ednspsz",         ARES_OPT_EDNSPSZ         },
    { "p.resolvconf_path", "i.resolvconf_path", ARES_OPT_RESOLVCONF      },
    { "p.hosts_path",      "i.hosts_path",      ARES_OPT_HOSTS_FILE      },
    { "p.udp_max_queries", "i.udp_max_queries", ARES_OPT_UDP_MAX_QUERIES },
    { "p.qcache_max_ttl",  "i.qcache_max_ttl",  ARES_OPT_QUERY_CACHE     },
    { "p.retry_chance",    "i.retry_chance",    ARES_OPT_SERVER_FAILOVER },
    { "p.retry_delay",     "i.retry_delay",     ARES_OPT_SERVER_FAILOVER },
    { "p.sock_state_cb",   "i.sock_state_cb",   ARES_OPT_SOCK_STATE_CB   },
  };
  size_t      k;
  const char *rc = cfg_eff_get(e, "p.save_rc");
  const char *pm = cfg_eff_get(e, "p.optmask");
  const char *im = cfg_eff_get(e, "i.optmask");
  if (rc == NULL) {
    return NULL; /* no public view read */
  }
  if (strcmp(rc, "0") != 0) {
    return "p.save_rc";
  }
  if (pm == NULL || im == NULL || strcmp(pm, im) != 0) {
    return "p.optmask";
  }
  for (k = 0; k < sizeof(pairs) / sizeof(pairs[0]); k++) {
    if (e->optmask & pairs[k].bit) {
      const char *pv = cfg_eff_get(e, pairs[k].p);
      const char *iv = cfg_eff_get(e, pairs[k].i);
      if (pv == NULL || iv == NULL || strcmp(pv, iv) != 0) {
        return pairs[k].p;
      }
    }
  }
  return NULL;
}

#endif
