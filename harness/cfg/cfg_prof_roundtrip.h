/* cfg_prof_roundtrip.h - profile `roundtrip` (C16): a channel built from random options and
 * setters under a generated (valid) system configuration; then
 *   view     what ares_save_options()/ares_get_servers_ports() report is what the channel holds
 *   setter   servers given to a setter are the servers the channel uses (order, ports, iface)
 *   save     ares_save_options() -> ares_init_options(new)       => E equal
 *   dup      ares_dup()                                           => E equal, incl. server list
 *   csv      ares_get_servers_csv() -> ares_set_servers_ports_csv() reproduces itself
 *   nodes    ares_get_servers_ports()/ares_get_servers() -> ares_set_servers_ports()/..servers()
 */
#ifndef CFG_PROF_ROUNDTRIP_H
#define CFG_PROF_ROUNDTRIP_H

/* a moderately rich valid system configuration; returns directive set */
static unsigned gen_sysconfig(vh_rng_t *r, cfg_sys_t *s, const cfg_uopts_t *u, int rich)
{
  unsigned dirs = 0;
  if (vh_chance(r, rich ? 9 : 7, 10)) {
    cfg_lines_t ls;
    cfg_bb_t    bb = { 0 };
    ls.n = 0;
    dirs |= gen_resolv_valid(r, &ls, rich ? 2 : 0, 6, 1);
    if (rich && vh_chance(r, 2, 3)) {
      cfg_bb_t *l = cfg_lines_new(&ls);
      cfg_bb_printf(l, "options rotate use-vc ndots:%d timeout:%d attempts:%d", vh_range(r, 0, 15),
                    vh_range(r, 1, 30), vh_range(r, 1, 5));
      dirs |= D_ROTATE | D_USEVC | D_NDOTS | D_TIMEOUT | D_ATTEMPTS;
      l = cfg_lines_new(&ls);
      cfg_bb_str(l, "nameserver 198.51.100.1");
      dirs |= D_NS4;
    }
    cfg_lines_join(&ls, &bb, 1);
    cfg_lines_free(&ls);
    cfg_sys_set_file(s, CF_RESOLV, bb.b ? bb.b : "", bb.len);
    if (u && (u->eff_mask & ARES_OPT_RESOLVCONF)) {
      cfg_sys_set_file(s, CF_RESOLV_ALT, bb.b ? bb.b : "", bb.len);
    }
    cfg_bb_free(&bb);
  }
  if (vh_chance(r, 1, 3)) {
    cfg_lines_t ls;
    cfg_bb_t    bb = { 0 };
    ls.n = 0;
    dirs |= gen_nsswitch_valid(r, &ls);
    cfg_lines_join(&ls, &bb, 1);
    cfg_lines_free(&ls);
    cfg_sys_set_file(s, CF_NSSWITCH, bb.b ? bb.b : "", bb.len);
    cfg_bb_free(&bb);
  }
  if (vh_chance(r, 1, 10)) {
    cfg_lines_t ls;
    cfg_bb_t    bb = { 0 };
    ls.n = 0;
    dirs |= gen_svc_valid(r, &ls);
    cfg_lines_join(&ls, &bb, 1);
    cfg_lines_free(&ls);
    cfg_sys_set_file(s, vh_chance(r, 1, 2) ? CF_SVC : CF_NETSVC, bb.b ? bb.b : "", bb.len);
    cfg_bb_free(&bb);
  }
  if (vh_chance(r, 1, rich ? 2 : 5)) {
    cfg_bb_t bb = { 0 };
    cfg_bb_add(&bb, "", 0);
    gen_options_value(r, &bb, &dirs);
    cfg_sys_set_env(s, CE_RES_OPTIONS, bb.b);
    cfg_bb_free(&bb);
  }
  if (vh_chance(r, 1, rich ? 3 : 6)) {
    cfg_sys_set_env(s, CE_LOCALDOMAIN, gen_domain(r));
    dirs |= D_DOMAIN;
  }
  if (vh_chance(r, 1, rich ? 2 : 4)) {
    strcpy(s->hostname, vh_chance(r, 1, 2) ? "host.domain.org" : "h.sub.example.net");
  }
  if (vh_chance(r, 1, 4)) {
    cfg_sys_set_file(s, CF_HOSTS, "127.0.0.1 localhost\n10.1.2.3 db.corp.example db\n", 49);
    if (u && (u->eff_mask & ARES_OPT_HOSTS_FILE)) {
      cfg_sys_set_file(s, CF_HOSTS_ALT, "127.0.0.1 localhost\n10.1.2.3 db.corp.example db\n", 49);
    }
  }
  return dirs;
}

/* what the server list must be after a successful setter call (ares_set_servers*.3,
 * ares_set_servers_csv.3: replaces the list, ports default to the channel's or 53, %iface for
 * link-local; ARES_FLAG_PRIMARY keeps the first only; repeated identical entries collapse) */
static char *model_servers(const cfg_srv_t *s, int n, int how, unsigned chan_udp, unsigned chan_tcp,
                           int primary)
{
  vh_sb_t  sb = { 0 };
  int      i, j, kept = 0;
  unsigned ku[U_MAXSRV + 2], kt[U_MAXSRV + 2];
  int      ki[U_MAXSRV + 2];
  for (i = 0; i < n; i++) {
    unsigned udp = (unsigned)s[i].udp_port, tcp = (unsigned)s[i].tcp_port;
    int      ll  = s[i].family == AF_INET6 && s[i].addr[0] == 0xfe && (s[i].addr[1] & 0xc0) == 0x80;
    int      dup = 0;
    char     buf[INET6_ADDRSTRLEN + 1];
    if (how == 3) {
      udp = tcp = 0;
    }
    if (how <= 1 && tcp == 0 && udp != 0) {
      tcp = udp; /* textual forms carry one port for both unless ?tcpport= is given */
    }
    if (udp == 0) {
      udp = chan_udp ? chan_udp : 53;
    }
    if (tcp == 0) {
      tcp = chan_tcp ? chan_tcp : 53;
    }
    if (ll && how >= 2) {
      continue; /* node lists cannot carry an interface: documented to be skipped */
    }
    for (j = 0; j < kept; j++) {
      if (s[ki[j]].family == s[i].family &&
          memcmp(s[ki[j]].addr, s[i].addr, s[i].family == AF_INET ? 4 : 16) == 0 && ku[j] == udp &&
          kt[j] == tcp) {
        dup = 1;
      }
    }
    if (dup) {
      continue;
    }
    ki[kept] = i;
    ku[kept] = udp;
    kt[kept] = tcp;
    kept++;
    if (primary && kept > 1) {
      continue;
    }
    ares_inet_ntop(s[i].family, s[i].addr, buf, sizeof(buf));
    vh_sb_printf(&sb, "%c:%s|u%u|t%u|%%%s|s%u;", s[i].family == AF_INET ? '4' : '6', buf, udp, tcp,
                 ll ? s[i].iface : "", ll ? cfg_if_index(s[i].iface) : 0);
  }
  return cfg_sb_take(&sb);
}

static int rt_popcount(unsigned x)
{
  int n = 0;
  while (x) {
    n += (int)(x & 1);
    x >>= 1;
  }
  return n;
}

/* IPv4 subset of an "i.server_addrs" rendering with duplicates removed */
static char *rt_ipv4_subset(const char *addrs)
{
  vh_sb_t     sb = { 0 };
  const char *p  = addrs;
  vh_sb_printf(&sb, "%s", "");
  while (p && *p) {
    const char *e = strchr(p, ';');
    size_t      l = e ? (size_t)(e - p) + 1 : strlen(p);
    if (p[0] == '4') {
      char tok[96];
      if (l < sizeof(tok)) {
        memcpy(tok, p, l);
        tok[l] = 0;
        if (sb.b == NULL || strstr(sb.b, tok) == NULL) {
          vh_sb_printf(&sb, "%s", tok);
        }
      }
    }
    p += l;
  }
  return cfg_sb_take(&sb);
}

static char *rt_dedup_addrs(const char *addrs)
{
  vh_sb_t     sb = { 0 };
  const char *p  = addrs;
  vh_sb_printf(&sb, "%s", "");
  while (p && *p) {
    const char *e = strchr(p, ';');
    size_t      l = e ? (size_t)(e - p) + 1 : strlen(p);
    char        tok[96];
    if (l < sizeof(tok)) {
      memcpy(tok, p, l);
      tok[l] = 0;
      /* token boundary: tokens start with "4:" / "6:" and end with ';' */
      if (sb.b == NULL || strstr(sb.b, tok) == NULL) {
        vh_sb_printf(&sb, "%s", tok);
      }
    }
    p += l;
  }
  return cfg_sb_take(&sb);
}

/* key name of a differing field; a few known causes get their own name so that the entry in
 * the known-findings list stays narrow */
static int rt_has_ll_noiface(const char *servers)
{
  const char *p = servers;
  while (p && (p = strstr(p, "6:fe")) != NULL) {
    const char *e = strchr(p, ';');
    if ((p[4] == '8' || p[4] == '9' || p[4] == 'a' || p[4] == 'b') && e) {
      const char *q = strstr(p, "|%|");
      if (q && q < e) {
        return 1;
      }
    }
    p += 4;
  }
  return 0;
}

/* older-style socket functions (ares_set_socket_functions): nothing can be opened; calls are counted in *user_data */
static int rt_lg_calls[2];
static ares_socket_t rt_lg_socket(int af, int type, int protocol, void *ud)
{
  (void)af;
  (void)type;
  (void)protocol;
  (*(int *)ud)++;
  errno = EMFILE;
  return ARES_SOCKET_BAD;
}
static int rt_lg_close(ares_socket_t s, void *ud)
{
  (void)s;
  (*(int *)ud)++;
  return 0;
}
static int rt_lg_connect(ares_socket_t s, const struct sockaddr *a, ares_socklen_t l, void *ud)
{
  (void)s;
  (void)a;
  (void)l;
  (*(int *)ud)++;
  errno = ECONNREFUSED;
  return -1;
}
static ares_ssize_t rt_lg_recvfrom(ares_socket_t s, void *b, size_t l, int f, struct sockaddr *a, ares_socklen_t *al, void *ud)
{
  (void)s;
  (void)b;
  (void)l;
  (void)f;
  (void)a;
  (void)al;
  (*(int *)ud)++;
  errno = EWOULDBLOCK;
  return -1;
}
static ares_ssize_t rt_lg_sendv(ares_socket_t s, const struct iovec *v, int n, void *ud)
{
  (void)s;
  (void)v;
  (void)n;
  (*(int *)ud)++;
  errno = EWOULDBLOCK;
  return -1;
}
static const struct ares_socket_functions rt_lg_funcs = { rt_lg_socket, rt_lg_close, rt_lg_connect, rt_lg_recvfrom, rt_lg_sendv };
static void rt_pending_write_cb(void *data)
{
  (void)data;
}
static void rt_lg_query_cb(void *arg, int status, int timeouts, unsigned char *abuf, int alen)
{
  (void)status;
  (void)timeouts;
  (void)abuf;
  (void)alen;
  (*(int *)arg)++;
}

static const char *rt_keyname(const char *field, const cfg_uopts_t *u, int ll_noiface, char *buf,
                              size_t len)
{
  if (u->use_null && (!strcmp(field, "i.qcache_max_ttl") || !strcmp(field, "i.optmask"))) {
    snprintf(buf, len, "%s(null-options)", field);
    return buf;
  }
  if (ll_noiface && (!strcmp(field, "i.servers") || !strcmp(field, "i.server_addrs"))) {
    snprintf(buf, len, "%s(linklocal-without-iface)", field);
    return buf;
  }
  if (!u->use_null && (!strcmp(field, "i.timeout") || !strcmp(field, "i.optmask")) &&
      (u->mask & (ARES_OPT_TIMEOUT | ARES_OPT_TIMEOUTMS)) == (ARES_OPT_TIMEOUT | ARES_OPT_TIMEOUTMS) &&
      u->o.timeout <= 0) {
    snprintf(buf, len, "%s(both-timeout-bits,value<=0)", field);
    return buf;
  }
  return field;
}

/* compare all "i." fields except skip[]; one violation per differing field */
static int rt_compare(const char *oracle, const cfg_eff_t *a, const cfg_eff_t *b,
                      const char *const *skip, const cfg_uopts_t *u, const char *uo, const char *w)
{
  int         lln = rt_has_ll_noiface(cfg_eff_get(a, "i.servers"));
  const char *sk[CFG_MAXKV + 1];
  int         n = 0, nv = 0;
  const char *d;
  while (skip && skip[n]) {
    sk[n] = skip[n];
    n++;
  }
  sk[n] = NULL;
  while ((d = cfg_eff_diff(a, b, NULL, sk)) != NULL && n < CFG_MAXKV) {
    char key[160], nb[96];
    snprintf(key, sizeof(key), "cfg16:%s:%s", oracle, rt_keyname(d, u, lln, nb, sizeof(nb)));
    vh_violation(key, "%s: original %.300s, %s %.300s | %s | %s", d, cfg_eff_get(a, d), oracle,
                 cfg_eff_get(b, d) ? cfg_eff_get(b, d) : "-", uo, w);
    nv++;
    sk[n++] = d;
    sk[n]   = NULL;
  }
  return nv;
}

#define RT_V(key, ...)                \
  do {                                \
    vh_violation(key, __VA_ARGS__);   \
    violated++;                       \
  } while (0)

static void prof_roundtrip(vh_rng_t *r, const vh_args_t *a)
{
  cfg_sys_t       sys;
  cfg_uopts_t     u;
  ares_channel_t *ch = NULL, *ch2 = NULL;
  cfg_eff_t       e0;
  int             rc, violated = 0;
  int             ll_ok = (int)vh_opt_int(a, "ll", 0);
  unsigned        dirs, sclass = 0;
  int             how = -1, nset = 0, set_rc = 0;
  cfg_srv_t       set[U_MAXSRV];
  char           *set_text = NULL;
  char           *uo, *w;
  const char     *d;

  cfg_prop = "cfg16";
  cfg_sys_init(&sys);
  switch (vh_below(r, 4)) {
    case 0:
      gen_uopts(r, &u, 0, 1, 0);
      break;
    case 1:
      gen_uopts(r, &u, 1, 5, U_ALLOW_PATHS);
      break;
    default:
      gen_uopts(r, &u, 1, 2, U_ALLOW_PATHS);
      break;
  }
  dirs = gen_sysconfig(r, &sys, &u, 0);
  cfg_sys_apply(&sys);
  uo = render_uopts(&u);
  w  = cfg_witness(&sys);
  if (vh_verbose) {
    vh_trace("options: %s", uo);
    vh_trace("environment: %s", w);
  }

  cfg_lib_begin();
  rc = cfg_init(&ch, &u);
  if (rc != ARES_SUCCESS) {
    CNT("roundtrip_init_error");
    RT_V("cfg16:roundtrip:init-failed", "ares_init_options rc=%d for %s | %s", rc, uo, w);
    goto done;
  }

  /* an application with its own socket functions may know interfaces the OS does not */
  cfg_private_ifaces = 0;
  if (ll_ok && vh_chance(r, 1, 3)) {
    int which = (int)vh_below(r, 3);
    if (which != 0) {
      /* a rejected call leaves the functions in place (the defaults, or ours from a previous call) */
      int rj = cfg_install_private_ifaces(ch, 1);
      CNT("roundtrip_incomplete_socket_functions_rejected");
      if (rj == ARES_SUCCESS) {
        RT_V("cfg16:setter:socket-functions:incomplete-accepted", "ares_set_socket_functions_ex without asetsockopt returned %d", rj);
      }
    }
    if (which != 1) {
      int ok = cfg_install_private_ifaces(ch, 0);
      if (ok == ARES_SUCCESS) {
        cfg_private_ifaces = 1;
        CNT("roundtrip_private_interface_functions");
      } else {
        RT_V("cfg16:setter:socket-functions:rejected-valid", "ares_set_socket_functions_ex returned %d", ok);
      }
      if (which == 2 && vh_chance(r, 1, 2)) {
        (void)cfg_install_private_ifaces(ch, 1); /* rejected: ours stay */
      }
    }
  }

  /* ---- setters */
  if (vh_chance(r, 3, 5)) {
    char *model, *got;
    how = (int)vh_below(r, 4);
    if (vh_chance(r, 1, 30)) {
      nset = 0; /* clearing the list is allowed (documented, asserted by the pinned suite) */
    } else {
      nset = gen_server_set(r, set, 5, ll_ok, &sclass);
    }
    if (nset == 0 && how <= 1) {
      set_rc   = how == 0 ? ares_set_servers_csv(ch, vh_chance(r, 1, 2) ? "" : NULL)
                          : ares_set_servers_ports_csv(ch, "");
      set_text = strdup("");
    } else {
      set_rc = apply_server_set(r, ch, set, nset, how, &set_text);
    }
    if (set_rc == ARES_SUCCESS && how >= 2 && (sclass & SC_LL)) {
      /* node lists cannot name an interface; what happens to fe80::/10 entries is unspecified */
      CNT("setter_model_skipped_linklocal_nodes");
    } else if (set_rc != ARES_SUCCESS) {
      RT_V("cfg16:setter:servers:rejected-valid", "how=%d rc=%d text=\"%s\"", how, set_rc,
           set_text ? set_text : "(nodes)");
    } else {
      ares_channel_lock(ch);
      model = model_servers(set, nset, how, ch->udp_port, ch->tcp_port,
                            (ch->flags & ARES_FLAG_PRIMARY) != 0);
      got   = cfg_fmt_servers_internal(ch, 1, 1);
      ares_channel_unlock(ch);
      CNT("setter_model_evaluations");
      if (strcmp(model, got) != 0) {
        static const char *const hn[] = { "csv", "ports_csv", "ports-nodes", "nodes" };
        char                     key[96];
        /* distinguish the loss of link-local entries from any other disagreement */
        if ((sclass & SC_LL) && how <= 1 && strstr(got, "6:fe") == NULL && strstr(model, "6:fe")) {
          snprintf(key, sizeof(key), "cfg16:setter:servers:linklocal-dropped");
        } else {
          snprintf(key, sizeof(key), "cfg16:setter:servers:%s:mismatch", hn[how]);
        }
        RT_V(key, "given \"%s\" expected %s got %s | %s", set_text ? set_text : "(nodes)", model, got,
             uo);
      }
      free(model);
      free(got);
    }
  }
  if (vh_chance(r, 1, 3)) {
    cfg_bb_t sl = { 0 };
    int      src;
    cfg_bb_add(&sl, "", 0);
    gen_sortlist_value(r, &sl);
    src = ares_set_sortlist(ch, sl.b);
    if (src != ARES_SUCCESS) {
      RT_V("cfg16:setter:sortlist:rejected-valid", "rc=%d for \"%s\"", src, sl.b);
    }
    cfg_bb_free(&sl);
    CNT("set_sortlist");
  }
  if (vh_chance(r, 1, 4)) {
    unsigned char ip6[16];
    int           i;
    for (i = 0; i < 16; i++) {
      ip6[i] = (unsigned char)vh_below(r, 256);
    }
    ares_set_local_ip4(ch, (unsigned)vh_rand64(r));
    ares_set_local_ip6(ch, ip6);
    ares_set_local_dev(ch, vh_chance(r, 1, 2) ? "eth0" : "dummy0");
  }

  cfg_eff_read(ch, &e0, CFG_EFF_PUBLIC);

  if (e0.nservers == 0) {
    /* "passing NULL will clear all configured servers and make an inoperable channel"
     * (ares_set_servers.3); ares_save_options()/ares_dup() answer ARES_ENODATA for it */
    CNT("roundtrip_empty_server_list");
    goto csv;
  }

  /* ---- view */
  CNT("view_evaluations");
  d = cfg_eff_views_agree(&e0);
  if (d) {
    char  key[96];
    char *txt = cfg_eff_render(&e0, NULL);
    snprintf(key, sizeof(key), "cfg16:view:%s", d);
    RT_V(key, "public view disagrees with channel state: %.1200s", txt);
    free(txt);
  }
  {
    /* ares_get_servers_ports() vs. the internal list */
    char *ip;
    ares_channel_lock(ch);
    ip = cfg_fmt_servers_internal(ch, 1, 0);
    ares_channel_unlock(ch);
    if (strcmp(ip, cfg_eff_get(&e0, "p.ports")) != 0) {
      RT_V("cfg16:view:p.ports", "ares_get_servers_ports %s, channel %s", cfg_eff_get(&e0, "p.ports"),
           ip);
    }
    free(ip);
  }

  /* ---- save -> init */
  {
    struct ares_options o;
    int                 m  = 0;
    int                 sr = ares_save_options(ch, &o, &m);
    CNT("save_init_evaluations");
    if (sr != ARES_SUCCESS) {
      RT_V("cfg16:save-init:save-failed", "ares_save_options rc=%d | %s", sr, uo);
      ares_destroy_options(&o);
    } else {
      int ir = ares_init_options(&ch2, &o, m);
      ares_destroy_options(&o);
      if (ir != ARES_SUCCESS) {
        RT_V("cfg16:save-init:init-failed", "ares_init_options(saved) rc=%d mask=0x%x | %s | %s", ir,
             (unsigned)m, uo, w);
        ch2 = NULL;
      } else {
        static const char *const skip[] = { "i.servers",   "i.server_addrs", "i.local_dev",
                                            "i.local_ip4", "i.local_ip6",    "i.server_state_cb",
                                            "i.optmask",   NULL };
        cfg_eff_t e1;
        cfg_eff_read(ch2, &e1, 0);
        violated += rt_compare("save-init", &e0, &e1, skip, &u, uo, w);
        {
          /* the ARES_OPT_SERVERS bit follows the IPv4 subset (see below), all others must agree */
          unsigned dm = (e0.optmask ^ e1.optmask) & ~(unsigned)ARES_OPT_SERVERS;
          if (dm) {
            char key[160], nb[96];
            snprintf(key, sizeof(key), "cfg16:save-init:%s", rt_keyname("i.optmask", &u, 0, nb, sizeof(nb)));
            RT_V(key, "optmask 0x%x became 0x%x | %s", e0.optmask, e1.optmask, uo);
          }
        }
        if (e0.optmask & ARES_OPT_SERVERS) {
          /* only IPv4 addresses survive ares_save_options (documented); ports do not */
          char *sub = rt_ipv4_subset(cfg_eff_get(&e0, "i.server_addrs"));
          if (sub[0] && strcmp(sub, cfg_eff_get(&e1, "i.server_addrs")) != 0) {
            RT_V("cfg16:save-init:i.server_addrs", "IPv4 servers %s became %s | %s", sub,
                 cfg_eff_get(&e1, "i.server_addrs"), uo);
          }
          free(sub);
        } else if (strcmp(cfg_eff_get(&e0, "i.servers"), cfg_eff_get(&e1, "i.servers")) != 0) {
          RT_V("cfg16:save-init:i.servers", "system servers %s became %s | %s",
               cfg_eff_get(&e0, "i.servers"), cfg_eff_get(&e1, "i.servers"), w);
        }
        cfg_eff_free(&e1);
        ares_destroy(ch2);
        ch2 = NULL;
      }
    }
  }

  /* ---- dup */
  {
    int dr = ares_dup(&ch2, ch);
    CNT("dup_evaluations");
    if (dr != ARES_SUCCESS) {
      RT_V("cfg16:dup:failed", "ares_dup rc=%d servers=%s | %s", dr, cfg_eff_get(&e0, "i.servers"), uo);
      ch2 = NULL;
    } else {
      cfg_eff_t e2;
      cfg_eff_read(ch2, &e2, 0);
      violated += rt_compare("dup", &e0, &e2, NULL, &u, uo, w);
      cfg_eff_free(&e2);
      ares_destroy(ch2);
      ch2 = NULL;
    }
  }

  /* ---- dup is a channel of its own: what the application installed on the original (older-style socket functions
   * with their user data, the pending-write callback) is what the copy uses, whatever happens to the original later */
  if (vh_chance(r, 1, 5)) {
    ares_channel_t *o1 = NULL, *d1 = NULL;
    cfg_sys_t       empty2;
    cfg_sys_init(&empty2);
    cfg_sys_apply(&empty2);
    if (ares_init_options(&o1, NULL, 0) == ARES_SUCCESS) {
      rt_lg_calls[0] = rt_lg_calls[1] = 0;
      (void)ares_set_servers_ports_csv(o1, "192.0.2.1");
      ares_set_socket_functions(o1, &rt_lg_funcs, &rt_lg_calls[0]);
      ares_set_pending_write_cb(o1, rt_pending_write_cb, &rt_lg_calls[0]);
      CNT("dup_independence_evaluations");
      if (ares_dup(&d1, o1) != ARES_SUCCESS || d1 == NULL) {
        RT_V("cfg16:dup:failed", "ares_dup of a channel with ares_set_socket_functions() failed | %s", uo);
      } else {
        int done = 0;
        if (d1->notify_pending_write_cb != rt_pending_write_cb || d1->notify_pending_write_cb_data != (void *)&rt_lg_calls[0]) {
          RT_V("cfg16:dup:pending-write-cb", "ares_set_pending_write_cb() of the original is %s on the copy",
               d1->notify_pending_write_cb == NULL ? "absent" : "different");
        }
        /* the original moves on to other socket functions; the copy must keep the ones it was made with */
        ares_set_socket_functions(o1, &rt_lg_funcs, &rt_lg_calls[1]);
        ares_query(d1, "dup.example.test", 1, 1, rt_lg_query_cb, &done);
        if (rt_lg_calls[1] != 0 || rt_lg_calls[0] == 0) {
          RT_V("cfg16:dup:socket-functions-follow-original",
               "a query on the copy made %d socket call(s) with the user data the copy was made with and %d with the "
               "user data installed on the original afterwards",
               rt_lg_calls[0], rt_lg_calls[1]);
        }
        ares_destroy(d1);
        if (done != 1) {
          RT_V("cfg16:dup:query-callbacks", "query on the copy: %d callbacks", done);
        }
      }
      ares_destroy(o1);
    }
    cfg_sys_apply(&sys);
    cfg_sys_free(&empty2);
  }

csv:
  /* ---- csv -> set -> csv, nodes -> set -> nodes on a fresh channel with default ports */
  {
    cfg_sys_t empty;
    int       fr;
    cfg_sys_init(&empty);
    cfg_sys_apply(&empty);
    fr = ares_init_options(&ch2, NULL, 0);
    if (fr == ARES_SUCCESS && cfg_private_ifaces) {
      /* the same application: the same interface knowledge */
      (void)cfg_install_private_ifaces(ch2, 0);
    }
    if (fr == ARES_SUCCESS) {
      const char *csv = cfg_eff_get(&e0, "p.csv");
      int         sr  = ares_set_servers_ports_csv(ch2, csv);
      CNT("csv_evaluations");
      if (sr != ARES_SUCCESS) {
        RT_V("cfg16:csv:own-output-rejected", "ares_set_servers_ports_csv(\"%s\") rc=%d", csv, sr);
      } else {
        char *csv2 = ares_get_servers_csv(ch2);
        char *s2;
        ares_channel_lock(ch2);
        s2 = cfg_fmt_servers_internal(ch2, 1, 1);
        ares_channel_unlock(ch2);
        if (csv2 == NULL || strcmp(csv, csv2) != 0) {
          RT_V(rt_has_ll_noiface(cfg_eff_get(&e0, "i.servers"))
                 ? "cfg16:csv:not-a-fixed-point(linklocal-without-iface)"
                 : "cfg16:csv:not-a-fixed-point",
               "\"%s\" -> set -> \"%s\"", csv, csv2 ? csv2 : "(null)");
        } else if (strcmp(s2, cfg_eff_get(&e0, "i.servers")) != 0) {
          RT_V("cfg16:csv:servers-differ", "csv \"%s\": original %s, after set %s", csv,
               cfg_eff_get(&e0, "i.servers"), s2);
        }
        ares_free_string(csv2);
        free(s2);
      }
      /* ares_get_servers_ports -> ares_set_servers_ports */
      {
        struct ares_addr_port_node *pn = NULL;
        if (ares_get_servers_ports(ch, &pn) == ARES_SUCCESS) {
          int   pr = ares_set_servers_ports(ch2, pn);
          char *s2;
          ares_channel_lock(ch2);
          s2 = cfg_fmt_servers_internal(ch2, 1, 0);
          ares_channel_unlock(ch2);
          CNT("nodes_evaluations");
          if (pr != ARES_SUCCESS) {
            RT_V("cfg16:nodes:ports-rejected", "ares_set_servers_ports rc=%d", pr);
          } else if (strstr(cfg_eff_get(&e0, "i.servers"), "6:fe8") == NULL &&
                     strcmp(s2, cfg_eff_get(&e0, "p.ports")) != 0) {
            RT_V("cfg16:nodes:ports-differ", "%s -> %s", cfg_eff_get(&e0, "p.ports"), s2);
          }
          free(s2);
          ares_free_data(pn);
        }
      }
      /* ares_get_servers -> ares_set_servers (addresses only) */
      {
        struct ares_addr_node *an = NULL;
        if (ares_get_servers(ch, &an) == ARES_SUCCESS) {
          int   pr = ares_set_servers(ch2, an);
          char *s2, *exp;
          ares_channel_lock(ch2);
          s2 = cfg_fmt_servers_internal(ch2, 0, 0);
          ares_channel_unlock(ch2);
          exp = rt_dedup_addrs(cfg_eff_get(&e0, "i.server_addrs"));
          if (pr != ARES_SUCCESS) {
            RT_V("cfg16:nodes:addrs-rejected", "ares_set_servers rc=%d", pr);
          } else if (strstr(exp, "6:fe8") == NULL && strcmp(s2, exp) != 0) {
            RT_V("cfg16:nodes:addrs-differ", "%s -> %s", exp, s2);
          }
          free(s2);
          free(exp);
          ares_free_data(an);
        }
      }
      ares_destroy(ch2);
      ch2 = NULL;
    }
    cfg_sys_apply(&sys);
  }

  cfg_case_nontrivial = (!u.use_null && rt_popcount((unsigned)u.mask) >= 3) || e0.nservers >= 2;
  if (vh_want_sample() && cfg_case_nontrivial && nset > 0) {
    vh_sb_t sb = { 0 };
    vh_sb_printf(&sb, "{\"profile\":\"roundtrip\",\"options\":");
    vh_sb_jstr(&sb, uo, strlen(uo));
    vh_sb_printf(&sb, ",\"setter\":%d,\"servers\":", how);
    vh_sb_jstr(&sb, cfg_eff_get(&e0, "i.servers"), strlen(cfg_eff_get(&e0, "i.servers")));
    vh_sb_printf(&sb, ",\"csv\":");
    vh_sb_jstr(&sb, cfg_eff_get(&e0, "p.csv"), strlen(cfg_eff_get(&e0, "p.csv")));
    vh_sb_printf(&sb, "}");
    vh_sample(sb.b);
    free(sb.b);
  }
  cfg_eff_free(&e0);

done:
  if (ch) {
    ares_destroy(ch);
  }
  cfg_private_ifaces = 0;
  cfg_lib_end("after ares_destroy + ares_library_cleanup", &sys);
  /* distinct = (option mask, server-encoding class, setter, sysconfig directive set) */
  cfg_case_fp = vh_fnv_u64(cfg_case_fp, (uint64_t)(u.use_null ? 0xffffffffu : (unsigned)u.mask));
  cfg_case_fp = vh_fnv_u64(cfg_case_fp, sclass);
  cfg_case_fp = vh_fnv_u64(cfg_case_fp, (uint64_t)(how + 1));
  cfg_case_fp = vh_fnv_u64(cfg_case_fp, dirs);
  (void)violated;
  free(set_text);
  free(uo);
  free(w);
  cfg_sys_free(&sys);
}

#endif
