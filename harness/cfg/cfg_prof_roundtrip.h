#ifndef CFG_PROF_roundtrip_H
#define CFG_PROF_roundtrip_H
static void prof_roundtrip(vh_rng_t *r, const vh_args_t *a){(void)r;(void)a;}
#endif
