/* cfg_gen.h - generators: grammar-based valid configuration text, junk-line grammar,
 * byte-level junk, option structs and server sets.  Everything draws from the case's PRNG. */
#ifndef CFG_GEN_H
#define CFG_GEN_H

/* ---------------------------------------------------------------- byte buffer */
typedef struct {
  char  *b;
  size_t len, cap;
} cfg_bb_t;

static void cfg_bb_add(cfg_bb_t *bb, const void *p, size_t n)
{
  if (bb->len + n + 1 > bb->cap) {
    bb->cap = (bb->len + n + 1) * 2 + 64;
    bb->b   = (char *)realloc(bb->b, bb->cap);
  }
  memcpy(bb->b + bb->len, p, n);
  bb->len += n;
  bb->b[bb->len] = 0;
}
static void cfg_bb_str(cfg_bb_t *bb, const char *s)
{
  cfg_bb_add(bb, s, strlen(s));
}
static void cfg_bb_ch(cfg_bb_t *bb, char c)
{
  cfg_bb_add(bb, &c, 1);
}
static void cfg_bb_printf(cfg_bb_t *bb, const char *fmt, ...)
{
  va_list ap;
  char    tmp[1200];
  int     n;
  va_start(ap, fmt);
  n = vsnprintf(tmp, sizeof(tmp), fmt, ap);
  va_end(ap);
  if (n > 0) {
    cfg_bb_add(bb, tmp, (size_t)(n < (int)sizeof(tmp) ? n : (int)sizeof(tmp) - 1));
  }
}
static void cfg_bb_free(cfg_bb_t *bb)
{
  free(bb->b);
  memset(bb, 0, sizeof(*bb));
}

/* list of lines (byte strings without the terminating newline) */
#define CFG_MAXLINES 64
typedef struct {
  cfg_bb_t l[CFG_MAXLINES];
  int      n;
} cfg_lines_t;

static cfg_bb_t *cfg_lines_new(cfg_lines_t *ls)
{
  if (ls->n >= CFG_MAXLINES) {
    return &ls->l[CFG_MAXLINES - 1];
  }
  memset(&ls->l[ls->n], 0, sizeof(cfg_bb_t));
  cfg_bb_add(&ls->l[ls->n], "", 0);
  return &ls->l[ls->n++];
}
static void cfg_lines_free(cfg_lines_t *ls)
{
  int i;
  for (i = 0; i < ls->n; i++) {
    cfg_bb_free(&ls->l[i]);
  }
  ls->n = 0;
}
/* insert a copy of line at index at */
static void cfg_lines_insert(cfg_lines_t *ls, int at, const cfg_bb_t *line)
{
  int i;
  if (ls->n >= CFG_MAXLINES) {
    return;
  }
  for (i = ls->n; i > at; i--) {
    ls->l[i] = ls->l[i - 1];
  }
  memset(&ls->l[at], 0, sizeof(cfg_bb_t));
  cfg_bb_add(&ls->l[at], line->b ? line->b : "", line->len);
  ls->n++;
}
static void cfg_lines_copy(cfg_lines_t *d, const cfg_lines_t *s)
{
  int i;
  d->n = 0;
  for (i = 0; i < s->n; i++) {
    cfg_bb_t *l = cfg_lines_new(d);
    cfg_bb_add(l, s->l[i].b ? s->l[i].b : "", s->l[i].len);
  }
}
/* join with '\n'; last_nl: terminate the final line too */
static void cfg_lines_join(const cfg_lines_t *ls, cfg_bb_t *out, int last_nl)
{
  int i;
  cfg_bb_add(out, "", 0);
  for (i = 0; i < ls->n; i++) {
    cfg_bb_add(out, ls->l[i].b ? ls->l[i].b : "", ls->l[i].len);
    if (i + 1 < ls->n || last_nl) {
      cfg_bb_ch(out, '\n');
    }
  }
}

/* ---------------------------------------------------------------- atoms */
#define PICK(rng, arr) ((arr)[vh_below((rng), (uint32_t)(sizeof(arr) / sizeof((arr)[0])))])

static void gen_ipv4(vh_rng_t *r, char *out)
{
  static const char *const fixed[] = { "1.2.3.4", "8.8.8.8", "10.0.0.1", "192.168.1.1",
                                       "172.16.5.9", "127.0.0.1", "203.0.113.7", "224.0.0.251",
                                       "129.1.1.1", "255.255.255.255", "0.0.0.0" };
  if (vh_chance(r, 1, 2)) {
    strcpy(out, PICK(r, fixed));
  } else {
    sprintf(out, "%d.%d.%d.%d", vh_range(r, 1, 254), vh_range(r, 0, 255), vh_range(r, 0, 255),
            vh_range(r, 1, 254));
  }
}

static void gen_ipv6(vh_rng_t *r, char *out)
{
  static const char *const fixed[] = { "2001:db8::1",
                                       "2001:4860:4860::8888",
                                       "fd00:1::53",
                                       "::1",
                                       "0102:0304:0506:0708:0910:1112:1314:1516",
                                       "2001:DB8:0:0:8:800:200C:417A",
                                       "::ffff:1.2.3.4",
                                       "ffc0::c001",
                                       "1::2" };
  if (vh_chance(r, 2, 3)) {
    strcpy(out, PICK(r, fixed));
  } else {
    sprintf(out, "2001:db8:%x::%x", vh_range(r, 0, 0xffff), vh_range(r, 1, 0xffff));
  }
}

static void gen_ipv6_ll(vh_rng_t *r, char *out)
{
  static const char *const fixed[] = { "fe80::1", "fe80::b542:84df:1719:65e3", "fe80::53",
                                       "febf::1" };
  strcpy(out, PICK(r, fixed));
}

static const char *gen_iface(vh_rng_t *r)
{
  static const char *const ifs[] = { "lo", "eth0", "wlan0", "1", "2" };
  return PICK(r, ifs);
}

static const char *gen_domain(vh_rng_t *r)
{
  static const char *const doms[] = { "example.com", "corp.example.com", "first.com",
                                      "second.com",  "EXAMPLE.COM",      "a.b.c.d.e.f",
                                      "local",       "x",                "sub-domain.example.org",
                                      "this.is.local", "example.com.",   "_svc.example.net",
                                      "." };
  return PICK(r, doms);
}

static int gen_port(vh_rng_t *r)
{
  static const int ports[] = { 53, 5353, 1, 65535, 853, 8053, 1153 };
  return vh_chance(r, 3, 4) ? PICK(r, ports) : vh_range(r, 1, 65535);
}

static void gen_ws(vh_rng_t *r, cfg_bb_t *bb, int atleast1)
{
  int n = vh_range(r, atleast1 ? 1 : 0, 3);
  while (n-- > 0) {
    cfg_bb_ch(bb, vh_chance(r, 3, 4) ? ' ' : '\t');
  }
}

static void gen_printable(vh_rng_t *r, cfg_bb_t *bb, int n)
{
  while (n-- > 0) {
    cfg_bb_ch(bb, (char)vh_range(r, 0x20, 0x7e));
  }
}

static void gen_alnum(vh_rng_t *r, cfg_bb_t *bb, int n)
{
  static const char cs[] = "abcdefghijklmnopqrstuvwxyz0123456789";
  while (n-- > 0) {
    cfg_bb_ch(bb, cs[vh_below(r, sizeof(cs) - 1)]);
  }
}

/* random bytes, never '\n'; first byte is neither printable nor whitespace when nonprint1 */
static void gen_binary(vh_rng_t *r, cfg_bb_t *bb, int n, int nonprint1, int allow_nul)
{
  int i;
  for (i = 0; i < n; i++) {
    unsigned char c;
    do {
      c = (unsigned char)vh_below(r, 256);
      if (i == 0 && nonprint1) {
        static const unsigned char np[] = { 0x01, 0x02, 0x07, 0x08, 0x0e, 0x1b, 0x7f,
                                            0x80, 0x9f, 0xc3, 0xfe, 0xff };
        c                               = np[vh_below(r, sizeof(np))];
      }
    } while (c == '\n' || (c == 0 && !allow_nul));
    cfg_bb_ch(bb, (char)c);
  }
}

/* ---------------------------------------------------------------- valid resolv.conf */
#define D_NS4      0x0001
#define D_NS6      0x0002
#define D_NSLL     0x0004
#define D_NSPORT   0x0008
#define D_NSURI    0x0010
#define D_SEARCH   0x0020
#define D_DOMAIN   0x0040
#define D_SORTLIST 0x0080
#define D_NDOTS    0x0100
#define D_TIMEOUT  0x0200
#define D_ATTEMPTS 0x0400
#define D_ROTATE   0x0800
#define D_USEVC    0x1000
#define D_LOOKUP   0x2000
#define D_OPTOTHER 0x4000
#define D_NSMULTI  0x8000

static void gen_nameserver_value(vh_rng_t *r, cfg_bb_t *l, unsigned *dirs, int allow_ll)
{
  char ip[80];
  int  form = (int)vh_below(r, allow_ll ? 12 : 9);
  switch (form) {
    case 0:
    case 1:
    case 2:
      gen_ipv4(r, ip);
      cfg_bb_str(l, ip);
      *dirs |= D_NS4;
      break;
    case 3:
      gen_ipv4(r, ip);
      cfg_bb_printf(l, "%s:%d", ip, gen_port(r));
      *dirs |= D_NS4 | D_NSPORT;
      break;
    case 4:
      gen_ipv4(r, ip);
      cfg_bb_printf(l, "[%s]:%d", ip, gen_port(r));
      *dirs |= D_NS4 | D_NSPORT;
      break;
    case 5:
      gen_ipv6(r, ip);
      cfg_bb_str(l, ip);
      *dirs |= D_NS6;
      break;
    case 6:
      gen_ipv6(r, ip);
      cfg_bb_printf(l, "[%s]", ip);
      *dirs |= D_NS6;
      break;
    case 7:
      gen_ipv6(r, ip);
      cfg_bb_printf(l, "[%s]:%d", ip, gen_port(r));
      *dirs |= D_NS6 | D_NSPORT;
      break;
    case 8:
      if (vh_chance(r, 1, 2)) {
        gen_ipv4(r, ip);
        cfg_bb_printf(l, "dns://%s", ip);
      } else {
        gen_ipv6(r, ip);
        cfg_bb_printf(l, "dns://[%s]", ip);
      }
      if (vh_chance(r, 1, 2)) {
        cfg_bb_printf(l, ":%d", gen_port(r));
      }
      if (vh_chance(r, 1, 2)) {
        cfg_bb_printf(l, "?tcpport=%d", gen_port(r));
      }
      *dirs |= D_NSURI;
      break;
    case 9:
      gen_ipv6_ll(r, ip);
      cfg_bb_printf(l, "%s%%%s", ip, gen_iface(r));
      *dirs |= D_NSLL;
      break;
    case 10:
      gen_ipv6_ll(r, ip);
      cfg_bb_printf(l, "[%s]:%d%%%s", ip, gen_port(r), gen_iface(r));
      *dirs |= D_NSLL | D_NSPORT;
      break;
    default:
      gen_ipv6_ll(r, ip);
      cfg_bb_printf(l, "dns://[%s%%%s]", ip, gen_iface(r));
      *dirs |= D_NSLL | D_NSURI;
      break;
  }
}

static void gen_sortlist_value(vh_rng_t *r, cfg_bb_t *l)
{
  static const char *const ents[] = { "10.0.0.0/8",
                                      "192.168.1.0/255.255.255.0",
                                      "172.16.0.0",
                                      "130.155.160.0/255.255.240.0",
                                      "130.155.0.0",
                                      "1.2.3.4/16",
                                      "2.3.4.5",
                                      "2001:db8::/32",
                                      "1234::5678/126",
                                      "5678::1234",
                                      "224.1.1.1",
                                      "0.0.0.0/0",
                                      "::/0",
                                      "1.2.3.4/32",
                                      "::1/128" };
  int                      n      = vh_range(r, 1, 4);
  int                      i;
  for (i = 0; i < n; i++) {
    if (i) {
      cfg_bb_ch(l, vh_chance(r, 5, 6) ? ' ' : ';');
    }
    cfg_bb_str(l, PICK(r, ents));
  }
}

static void gen_options_value(vh_rng_t *r, cfg_bb_t *l, unsigned *dirs)
{
  int n = vh_range(r, 1, 4);
  int i;
  for (i = 0; i < n; i++) {
    static const char *const other[] = { "debug",  "edns0", "inet6", "single-request",
                                         "no-tld-query", "trust-ad", "options", "ip6-bytestring" };
    if (i) {
      gen_ws(r, l, 1);
    }
    switch (vh_below(r, 9)) {
      case 0:
      case 1:
        cfg_bb_printf(l, "ndots:%d", vh_range(r, 0, 15));
        *dirs |= D_NDOTS;
        break;
      case 2:
        cfg_bb_printf(l, "%s:%d", vh_chance(r, 2, 3) ? "timeout" : "retrans", vh_range(r, 1, 30));
        *dirs |= D_TIMEOUT;
        break;
      case 3:
        cfg_bb_printf(l, "%s:%d", vh_chance(r, 2, 3) ? "attempts" : "retry", vh_range(r, 1, 5));
        *dirs |= D_ATTEMPTS;
        break;
      case 4:
        cfg_bb_str(l, "rotate");
        *dirs |= D_ROTATE;
        break;
      case 5:
        cfg_bb_str(l, vh_chance(r, 1, 2) ? "use-vc" : "usevc");
        *dirs |= D_USEVC;
        break;
      default:
        cfg_bb_str(l, PICK(r, other));
        *dirs |= D_OPTOTHER;
        break;
    }
  }
}

static void gen_lookup_value(vh_rng_t *r, cfg_bb_t *l)
{
  static const char *const v[] = { "file bind", "bind file", "bind", "file", "files dns",
                                   "local bind", "resolve files", "BIND FILE", "dns junk files" };
  if (vh_chance(r, 1, 6)) {
    /* the same sources named again and again, in turn: the order is that of first appearance, once each */
    static const char *const fw[] = { "file", "files", "local" }, *const bw[] = { "bind", "dns", "resolve" };
    int                      n    = vh_chance(r, 1, 2) ? vh_range(r, 3, 8) : vh_range(r, 20, 90), i, first = (int)vh_below(r, 2);
    for (i = 0; i < n; i++) {
      if (i) {
        cfg_bb_ch(l, ' ');
      }
      cfg_bb_str(l, ((i + first) & 1) ? PICK(r, fw) : PICK(r, bw));
      if (vh_chance(r, 1, 10)) {
        cfg_bb_str(l, " nis");
      }
    }
    return;
  }
  cfg_bb_str(l, PICK(r, v));
}

static void gen_line_prefix(vh_rng_t *r, cfg_bb_t *l, const char *kw)
{
  if (vh_chance(r, 1, 5)) {
    gen_ws(r, l, 1);
  }
  cfg_bb_str(l, kw);
  gen_ws(r, l, 1);
}

static void gen_line_suffix(vh_rng_t *r, cfg_bb_t *l)
{
  if (vh_chance(r, 1, 5)) {
    gen_ws(r, l, 1);
  }
  if (vh_chance(r, 1, 12)) {
    cfg_bb_ch(l, '\r');
  }
}

/* which: restrict to directives in `allow` (0 = all) */
static unsigned gen_resolv_valid(vh_rng_t *r, cfg_lines_t *ls, int minlines, int maxlines,
                                 int allow_ll)
{
  unsigned dirs = 0;
  int      n    = vh_range(r, minlines, maxlines);
  int      i;
  for (i = 0; i < n; i++) {
    cfg_bb_t *l = cfg_lines_new(ls);
    switch (vh_below(r, 12)) {
      case 0:
      case 1:
      case 2:
      case 3: {
        int k = vh_chance(r, 1, 8) ? 2 : 1;
        gen_line_prefix(r, l, "nameserver");
        gen_nameserver_value(r, l, &dirs, allow_ll);
        if (k == 2) {
          cfg_bb_str(l, vh_chance(r, 1, 2) ? " " : ",");
          gen_nameserver_value(r, l, &dirs, allow_ll);
          dirs |= D_NSMULTI;
        }
        break;
      }
      case 4:
      case 5: {
        int k = vh_range(r, 1, 4), j;
        gen_line_prefix(r, l, "search");
        for (j = 0; j < k; j++) {
          if (j) {
            cfg_bb_str(l, vh_chance(r, 5, 6) ? " " : ", ");
          }
          cfg_bb_str(l, gen_domain(r));
        }
        dirs |= D_SEARCH;
        break;
      }
      case 6:
        gen_line_prefix(r, l, "domain");
        cfg_bb_str(l, gen_domain(r));
        dirs |= D_DOMAIN;
        break;
      case 7:
        gen_line_prefix(r, l, "sortlist");
        gen_sortlist_value(r, l);
        dirs |= D_SORTLIST;
        break;
      case 8:
      case 9:
      case 10:
        gen_line_prefix(r, l, "options");
        gen_options_value(r, l, &dirs);
        break;
      default:
        gen_line_prefix(r, l, vh_chance(r, 3, 4) ? "lookup" : "hostresorder");
        gen_lookup_value(r, l);
        dirs |= D_LOOKUP;
        break;
    }
    gen_line_suffix(r, l);
  }
  return dirs;
}

/* ---------------------------------------------------------------- junk lines for resolv.conf */
enum {
  J_COMMENT_HASH = 0,
  J_COMMENT_SEMI,
  J_BLANK,
  J_WS,
  J_UNKNOWN_KW,
  J_KW_NOVALUE,
  J_NS_BAD,
  J_SORTLIST_BAD,
  J_OPT_NDOTS_NONNUM,
  J_OPT_ZERO,
  J_OPT_GARBAGE,
  J_SEARCH_EMPTY,
  J_LOOKUP_BAD,
  J_LONG_KW,
  J_LONG_VALUE,
  J_BINARY,
  J_BINARY_VALUE,
  J_RESOLV_N
};
static const char *const junk_resolv_name[J_RESOLV_N] = {
  "comment-hash", "comment-semi", "blank", "ws-only", "unknown-keyword", "keyword-no-value",
  "nameserver-bad", "sortlist-bad", "opt-ndots-nonnumeric", "opt-zero", "opt-garbage",
  "search-empty", "lookup-bad", "long-keyword", "long-value", "binary", "binary-value"
};

static const char *const valid_directive_text[] = {
  "nameserver 9.9.9.9", "search junk.example", "options ndots:7 rotate", "sortlist 9.9.9.0/24",
  "domain junk.example", "lookup bind", "options use-vc timeout:9 attempts:9"
};

static void gen_junk_resolv(vh_rng_t *r, int cls, cfg_bb_t *l)
{
  static const char *const unk[]     = { "foo", "nameservers", "Nameserver", "NAMESERVER",
                                         "name-server", "server", "resolver", "Search", "option",
                                         "sort-list", "nameserver:", "family", "=", "-" };
  static const char *const kws[]     = { "nameserver", "search", "domain", "sortlist", "options",
                                         "lookup", "hostresorder" };
  static const char *const badns[]   = { "notanip", "1.2.3.", "1.2.3.4.5", "256.1.1.1", "1.2.3.4:",
                                         "1.2.3.4:Z", "[1.2.3.4", "1::2::3", "[::1]:9999999",
                                         "fe80::1", "fe80::1%nosuchif", "dns://", "dns://host.example",
                                         "dns+tls://1.2.3.4", "http://1.2.3.4", "1.2.3.4%", ":53",
                                         "[]", "1.2.3.4/24", "fec0::dead", "-1.2.3.4",
                                         /* a port is a 16-bit number */
                                         "198.51.100.7:65589", "198.51.100.7:99999", "[2001:db8::7]:65536",
                                         "dns://198.51.100.7:70000", "dns://198.51.100.7:53?tcpport=65589",
                                         "dns://198.51.100.7?tcpport=abc", "dns://198.51.100.7?tcpport=-1" };
  static const char *const badsort[] = { "abc", "1.2.3.4/99", "1.2.3.4/", "::1/129",
                                         "1.2.3.4/255.255.x.0", "10.0.0.0/8 junk", "1.2.3.4*/16",
                                         "xyzzy ; lwk", "1 0123456789012345", "/8", "1.2.3.4/-1",
                                         "2001:db8::/64 1.2.3.4/33", "10.0.0.0/4294967304", "2001:db8::/4294967360" };
  /* values no unsigned int can hold are malformed numbers, not large ones */
  static const char *const ndotsnn[] = { "ndots:abc", "ndots:", "ndots", "ndots:x5", "ndots:-",
                                         "ndots:4294967296", "ndots:4294967301", "ndots:8589934592",
                                         "ndots:18446744073709551617" };
  static const char *const optzero[] = { "timeout:0", "attempts:0", "retrans:0", "retry:0",
                                         "timeout:abc", "attempts:", "timeout", "retry:x",
                                         "timeout:4294967301", "attempts:4294967297", "retrans:8589934597",
                                         "retry:4294967298", "attempts:18446744073709551617",
                                         "timeout:9999999999" };
  static const char *const optgarb[] = { "foo", "foo:bar", ":", "::5", ":5", "=", "ndot:3",
                                         "rotate=1x", "NDOTS:3", "Rotate", "use_vc", "timeout=3" };
  static const char *const srchemp[] = { "search ,", "search , ,", "search ,,", "domain ,",
                                         "search \t,  " };
  static const char *const lkbad[]   = { "lookup garbage", "hostresorder nis", "lookup nis yp",
                                         "lookup ,", "lookup files,bind" };
  switch (cls) {
    case J_COMMENT_HASH:
    case J_COMMENT_SEMI:
      cfg_bb_ch(l, cls == J_COMMENT_HASH ? '#' : ';');
      if (vh_chance(r, 1, 2)) {
        if (vh_chance(r, 1, 2)) {
          cfg_bb_ch(l, ' ');
        }
        cfg_bb_str(l, PICK(r, valid_directive_text));
      } else {
        gen_printable(r, l, vh_range(r, 0, 40));
      }
      break;
    case J_BLANK:
      break;
    case J_WS:
      gen_ws(r, l, 1);
      if (vh_chance(r, 1, 4)) {
        cfg_bb_ch(l, '\r');
      }
      if (vh_chance(r, 1, 6)) {
        cfg_bb_str(l, "\v\f");
      }
      break;
    case J_UNKNOWN_KW:
      cfg_bb_str(l, PICK(r, unk));
      gen_ws(r, l, 1);
      if (vh_chance(r, 1, 2)) {
        cfg_bb_str(l, "9.9.9.9");
      } else {
        cfg_bb_str(l, strchr(PICK(r, valid_directive_text), ' ') + 1);
      }
      break;
    case J_KW_NOVALUE:
      if (vh_chance(r, 1, 4)) {
        gen_ws(r, l, 1);
      }
      cfg_bb_str(l, PICK(r, kws));
      gen_ws(r, l, 0);
      break;
    case J_NS_BAD:
      gen_line_prefix(r, l, "nameserver");
      if (vh_chance(r, 1, 4)) {
        /* an interface scope far longer than any interface name, in each server syntax */
        static const int lens[] = { 15, 16, 17, 19, 20, 21, 31, 40, 64, 128, 200 };
        int              n      = lens[vh_below(r, sizeof(lens) / sizeof(lens[0]))];
        int              form   = (int)vh_below(r, 3);
        /* (link-local only: on other addresses a scope is documented to be ignored, the server itself is valid) */
        cfg_bb_str(l, form == 0 ? "dns://[fe80::1%" : form == 1 ? "[fe80::1%" : "fe80::1%");
        gen_alnum(r, l, n);
        cfg_bb_str(l, form == 0 ? "]:53" : form == 1 ? "]:53" : "");
      } else {
        cfg_bb_str(l, PICK(r, badns));
      }
      break;
    case J_SORTLIST_BAD:
      gen_line_prefix(r, l, "sortlist");
      cfg_bb_str(l, PICK(r, badsort));
      break;
    case J_OPT_NDOTS_NONNUM:
      gen_line_prefix(r, l, "options");
      cfg_bb_str(l, PICK(r, ndotsnn));
      break;
    case J_OPT_ZERO:
      gen_line_prefix(r, l, "options");
      cfg_bb_str(l, PICK(r, optzero));
      break;
    case J_OPT_GARBAGE:
      gen_line_prefix(r, l, "options");
      cfg_bb_str(l, PICK(r, optgarb));
      if (vh_chance(r, 1, 3)) {
        cfg_bb_ch(l, ' ');
        cfg_bb_str(l, PICK(r, optgarb));
      }
      break;
    case J_SEARCH_EMPTY:
      cfg_bb_str(l, PICK(r, srchemp));
      break;
    case J_LOOKUP_BAD:
      cfg_bb_str(l, PICK(r, lkbad));
      break;
    case J_LONG_KW:
      if (vh_chance(r, 1, 2)) {
        cfg_bb_str(l, PICK(r, kws));
      }
      gen_alnum(r, l, vh_range(r, 32, 300));
      cfg_bb_ch(l, ' ');
      cfg_bb_str(l, "9.9.9.9");
      break;
    case J_LONG_VALUE: {
      /* one very long word where an address, an option word or a lookup word belongs (a line is not junk for being
       * long: a long search list is a search list, see profile single) */
      static const char *const kwl[] = { "nameserver", "sortlist", "options", "lookup", "hostresorder" };
      cfg_bb_str(l, PICK(r, kwl));
      cfg_bb_ch(l, ' ');
      gen_alnum(r, l, vh_range(r, 520, 900));
      break;
    }
    case J_BINARY:
      gen_binary(r, l, vh_range(r, 1, 60), 1, 1);
      break;
    default: /* J_BINARY_VALUE */
      cfg_bb_str(l, PICK(r, valid_directive_text));
      {
        static const unsigned char np[] = { 0x01, 0x07, 0x1b, 0x7f, 0x80, 0xff, 0x00 };
        cfg_bb_ch(l, (char)np[vh_below(r, sizeof(np))]);
      }
      if (vh_chance(r, 1, 2)) {
        gen_binary(r, l, vh_range(r, 0, 10), 0, 1);
      }
      break;
  }
}

/* ---------------------------------------------------------------- nsswitch / netsvc / svc */
static unsigned gen_nsswitch_valid(vh_rng_t *r, cfg_lines_t *ls)
{
  static const char *const other[] = { "passwd:         files systemd", "group: files",
                                       "networks:       files", "services: db files",
                                       "shadow:\tfiles" };
  static const char *const hv[]    = { "files dns", "dns files", "files", "dns",
                                       "files mdns4_minimal [NOTFOUND=return] dns",
                                       "junk resolve files", "files resolve [!UNAVAIL=return] dns",
                                       "FILES DNS" };
  int                      n       = vh_range(r, 1, 4), i;
  unsigned                 d       = 0;
  for (i = 0; i < n; i++) {
    cfg_bb_t *l = cfg_lines_new(ls);
    if (vh_chance(r, 1, 2)) {
      cfg_bb_str(l, "hosts:");
      gen_ws(r, l, 0);
      if (vh_chance(r, 1, 6)) {
        int k, nn = vh_chance(r, 1, 2) ? vh_range(r, 3, 8) : vh_range(r, 20, 90), f0 = (int)vh_below(r, 2);
        for (k = 0; k < nn; k++) {
          cfg_bb_str(l, ((k + f0) & 1) ? "files " : "dns ");
        }
      } else {
        cfg_bb_str(l, PICK(r, hv));
      }
      d |= D_LOOKUP;
    } else {
      cfg_bb_str(l, PICK(r, other));
    }
    gen_line_suffix(r, l);
  }
  return d;
}

enum {
  JN_COMMENT = 0,
  JN_BLANK,
  JN_WS,
  JN_UNKNOWN_DB,
  JN_NOSEP,
  JN_NOVALUE,
  JN_BADVALUE,
  JN_LONG,
  JN_BINARY,
  JN_N
};
static const char *const junk_ns_name[JN_N] = { "comment-hash", "blank", "ws-only", "unknown-keyword",
                                                "no-separator", "keyword-no-value", "lookup-bad",
                                                "long-keyword", "binary" };

/* sep: ':' for nsswitch.conf, '=' for netsvc.conf / svc.conf */
static void gen_junk_ns(vh_rng_t *r, int cls, char sep, cfg_bb_t *l)
{
  static const char *const unk[] = { "host", "Hosts", "HOSTS", "hostss", "passwd", "ipnodes", "" };
  static const char *const bad[] = { "nis", "nis ldap", "mdns4", "[NOTFOUND=return]", "yp nisplus",
                                     "dn s", "fil es" };
  switch (cls) {
    case JN_COMMENT:
      cfg_bb_ch(l, '#');
      cfg_bb_printf(l, " hosts%c files", sep);
      break;
    case JN_BLANK:
      break;
    case JN_WS:
      gen_ws(r, l, 1);
      break;
    case JN_UNKNOWN_DB:
      cfg_bb_printf(l, "%s%c %s", PICK(r, unk), sep, sep == ':' ? "dns" : "bind");
      break;
    case JN_NOSEP:
      cfg_bb_printf(l, "hosts %s", sep == ':' ? "dns" : "bind");
      break;
    case JN_NOVALUE:
      cfg_bb_printf(l, "hosts%c", sep);
      gen_ws(r, l, 0);
      break;
    case JN_BADVALUE:
      cfg_bb_printf(l, "hosts%c %s", sep, PICK(r, bad));
      break;
    case JN_LONG:
      cfg_bb_str(l, "hosts");
      gen_alnum(r, l, vh_range(r, 32, 200));
      cfg_bb_printf(l, "%c %s", sep, sep == ':' ? "dns" : "bind");
      break;
    default:
      gen_binary(r, l, vh_range(r, 1, 40), 1, 1);
      break;
  }
}

static unsigned gen_svc_valid(vh_rng_t *r, cfg_lines_t *ls)
{
  static const char *const hv[] = { "local, bind", "bind", "local", "bind , local", "bind,local",
                                    "local4, bind4, bind", "LOCAL" };
  int                      n    = vh_range(r, 1, 2), i;
  for (i = 0; i < n; i++) {
    cfg_bb_t *l = cfg_lines_new(ls);
    cfg_bb_str(l, "hosts");
    gen_ws(r, l, 0);
    cfg_bb_ch(l, '=');
    gen_ws(r, l, 0);
    cfg_bb_str(l, PICK(r, hv));
    gen_line_suffix(r, l);
  }
  return D_LOOKUP;
}

/* ---------------------------------------------------------------- hosts file */
#define CFG_MAXNAMES 48
typedef struct {
  char names[CFG_MAXNAMES][80];
  int  n;
  char ips[CFG_MAXNAMES][64];
  int  nip;
} cfg_names_t;

static void names_add(cfg_names_t *nm, const char *s)
{
  int i;
  for (i = 0; i < nm->n; i++) {
    if (!strcmp(nm->names[i], s)) {
      return;
    }
  }
  if (nm->n < CFG_MAXNAMES) {
    snprintf(nm->names[nm->n++], 80, "%s", s);
  }
}
static void ips_add(cfg_names_t *nm, const char *s)
{
  int i;
  for (i = 0; i < nm->nip; i++) {
    if (!strcmp(nm->ips[i], s)) {
      return;
    }
  }
  if (nm->nip < CFG_MAXNAMES) {
    snprintf(nm->ips[nm->nip++], 64, "%s", s);
  }
}

static void gen_hostname(vh_rng_t *r, char *out)
{
  static const char *const hn[] = { "localhost", "ahostname.com", "foobar", "www.example.com",
                                    "host1", "host2", "HOST1", "db.corp.example", "a", "x-y.z",
                                    "_srv.example.com", "router", "ip6-localhost" };
  if (vh_chance(r, 2, 3)) {
    strcpy(out, PICK(r, hn));
  } else {
    sprintf(out, "h%d.example.%s", vh_range(r, 0, 30), vh_chance(r, 1, 2) ? "com" : "net");
  }
}

static void gen_hosts_valid(vh_rng_t *r, cfg_lines_t *ls, cfg_names_t *nm, int minl, int maxl)
{
  int n = vh_range(r, minl, maxl), i;
  for (i = 0; i < n; i++) {
    cfg_bb_t *l = cfg_lines_new(ls);
    char      ip[80], hn[80];
    int       k = vh_range(r, 1, 3), j;
    if (vh_chance(r, 1, 8)) {
      gen_ws(r, l, 1);
    }
    if (nm->nip && vh_chance(r, 1, 5)) {
      strcpy(ip, nm->ips[vh_below(r, (uint32_t)nm->nip)]);
    } else if (vh_chance(r, 3, 5)) {
      gen_ipv4(r, ip);
    } else {
      gen_ipv6(r, ip);
    }
    ips_add(nm, ip);
    cfg_bb_str(l, ip);
    for (j = 0; j < k; j++) {
      gen_ws(r, l, 1);
      if (nm->n && vh_chance(r, 1, 5)) {
        strcpy(hn, nm->names[vh_below(r, (uint32_t)nm->n)]);
      } else {
        gen_hostname(r, hn);
      }
      names_add(nm, hn);
      cfg_bb_str(l, hn);
    }
    if (vh_chance(r, 1, 5)) {
      gen_ws(r, l, 1);
      cfg_bb_str(l, "# ");
      cfg_bb_str(l, "9.9.9.9 commented.example");
    }
    gen_line_suffix(r, l);
  }
}

enum {
  JH_COMMENT = 0,
  JH_BLANK,
  JH_WS,
  JH_BAD_IP,
  JH_IP_ONLY,
  JH_IP_BADNAME,
  JH_LONG_IP,
  JH_LONG_NAME,
  JH_BINARY,
  JH_IP_BINARY,
  JH_N
};
static const char *const junk_hosts_name[JH_N] = { "comment-hash", "blank", "ws-only", "bad-ip",
                                                   "ip-only", "ip-badname", "long-ip", "long-name",
                                                   "binary", "ip-binary" };

static void gen_junk_hosts(vh_rng_t *r, int cls, const cfg_names_t *nm, cfg_bb_t *l)
{
  /* ares_inet_pton() is lenient (classful "1.2.3", "1.2.3.4/8", "0x7f000001" are accepted), so
   * only strings it rejects count as a bad address */
  static const char *const badip[]   = { "notanip", "1.2.3.", "300.1.1.1", "1.2.3.4.5", "1::2::3",
                                         "1.2.3.4/x", "[::1]", "localhost", "-", "1.2.3.4:53" };
  static const char *const badname[] = { "bad!name", "b@d", "sp\"ace", "(paren)", "na:me", "a,b",
                                         "#comment-only", "[x]", "a=b" };
  const char              *known     = nm->n ? nm->names[vh_below(r, (uint32_t)nm->n)] : "foobar";
  char                     ip[80];
  gen_ipv4(r, ip);
  switch (cls) {
    case JH_COMMENT:
      gen_ws(r, l, 0);
      cfg_bb_printf(l, "# 9.9.9.9 %s", known);
      break;
    case JH_BLANK:
      break;
    case JH_WS:
      gen_ws(r, l, 1);
      if (vh_chance(r, 1, 4)) {
        cfg_bb_ch(l, '\r');
      }
      break;
    case JH_BAD_IP:
      cfg_bb_printf(l, "%s %s", PICK(r, badip), known);
      break;
    case JH_IP_ONLY:
      cfg_bb_str(l, vh_chance(r, 1, 2) ? ip : "9.9.9.9");
      gen_ws(r, l, 0);
      if (vh_chance(r, 1, 4)) {
        cfg_bb_str(l, " # only a comment");
      }
      break;
    case JH_IP_BADNAME:
      if (vh_chance(r, 1, 3)) {
        /* a NUL byte inside the name (or inside the address): the word is not what stands in front of the NUL, it
         * is no word at all */
        if (vh_chance(r, 1, 2)) {
          cfg_bb_printf(l, "9.9.9.9 %s", known);
          cfg_bb_add(l, "\0tail", 5);
        } else {
          cfg_bb_str(l, "9.9.9.9");
          cfg_bb_add(l, "\0x", 2);
          cfg_bb_printf(l, " %s", known);
        }
        break;
      }
      cfg_bb_printf(l, "9.9.9.9 %s", PICK(r, badname));
      if (vh_chance(r, 1, 3)) {
        cfg_bb_printf(l, " %s", PICK(r, badname));
      }
      break;
    case JH_LONG_IP:
      gen_alnum(r, l, vh_range(r, 46, 200));
      if (vh_chance(r, 1, 2)) {
        /* the rest of the malformed line looks like an entry of its own */
        cfg_bb_printf(l, " %s %s", vh_chance(r, 1, 2) ? ip : "6.6.6.6", known);
        if (vh_chance(r, 1, 2)) {
          cfg_bb_str(l, " only-on-the-junk-line.example");
        }
      } else {
        cfg_bb_printf(l, " %s", known);
      }
      break;
    case JH_LONG_NAME:
      cfg_bb_str(l, "9.9.9.9 ");
      gen_alnum(r, l, vh_range(r, 256, 400));
      break;
    case JH_BINARY:
      gen_binary(r, l, vh_range(r, 1, 40), 1, 1);
      if (vh_chance(r, 1, 3)) {
        cfg_bb_printf(l, " %s %s", vh_chance(r, 1, 2) ? ip : "6.6.6.6", known);
      }
      break;
    default:
      cfg_bb_str(l, "9.9.9.9 ");
      gen_binary(r, l, vh_range(r, 1, 20), 1, 0);
      break;
  }
}

/* ---------------------------------------------------------------- host aliases file */
static void gen_aliases_valid(vh_rng_t *r, cfg_lines_t *ls, cfg_names_t *nm)
{
  static const char *const al[]  = { "c-ares", "curl", "www", "db", "mail", "Intranet", "x", "a-b",
                                     "under_score" };
  static const char *const fq[]  = { "www.c-ares.org", "www.curl.se", "db.corp.example.com.",
                                     "mail.example.net", "x.y", "a" };
  int                      n     = vh_range(r, 1, 6), i;
  for (i = 0; i < n; i++) {
    cfg_bb_t   *l = cfg_lines_new(ls);
    const char *a = PICK(r, al);
    names_add(nm, a);
    cfg_bb_str(l, a);
    gen_ws(r, l, 1);
    cfg_bb_str(l, PICK(r, fq));
    if (vh_chance(r, 1, 6)) {
      cfg_bb_str(l, "   trailing words");
    }
    gen_line_suffix(r, l);
  }
}

enum { JA_COMMENT = 0, JA_BLANK, JA_WS, JA_NAME_ONLY, JA_BAD_FQDN, JA_LONG_NAME, JA_LONG_FQDN,
       JA_BINARY, JA_NAME_BINARY, JA_N };
static const char *const junk_alias_name[JA_N] = { "comment-hash", "blank", "ws-only", "name-only",
                                                   "bad-fqdn", "long-name", "long-fqdn", "binary",
                                                   "name-binary" };

static void gen_junk_alias(vh_rng_t *r, int cls, const cfg_names_t *nm, cfg_bb_t *l)
{
  const char *known = nm->n ? nm->names[vh_below(r, (uint32_t)nm->n)] : "www";
  switch (cls) {
    case JA_COMMENT:
      cfg_bb_printf(l, "# %s junk.example.com", known);
      break;
    case JA_BLANK:
      break;
    case JA_WS:
      gen_ws(r, l, 1);
      break;
    case JA_NAME_ONLY:
      cfg_bb_str(l, known);
      gen_ws(r, l, 0);
      break;
    case JA_BAD_FQDN:
      cfg_bb_printf(l, "%s %s", known, vh_chance(r, 1, 2) ? "bad!fqdn.example" : "sp@ce.example");
      break;
    case JA_LONG_NAME:
      cfg_bb_str(l, known);
      gen_alnum(r, l, vh_range(r, 64, 200));
      cfg_bb_str(l, " junk.example.com");
      break;
    case JA_LONG_FQDN:
      cfg_bb_printf(l, "%s ", known);
      gen_alnum(r, l, vh_range(r, 256, 400));
      break;
    case JA_BINARY:
      gen_binary(r, l, vh_range(r, 1, 40), 1, 1);
      break;
    default:
      cfg_bb_printf(l, "%s ", known);
      gen_binary(r, l, vh_range(r, 1, 20), 1, 0);
      break;
  }
}

/* ---------------------------------------------------------------- RES_OPTIONS tokens */
enum { JE_UNKNOWN = 0, JE_GARBAGE, JE_LONG, JE_BINARY, JE_NDOTS_NONNUM, JE_ZERO, JE_N };
static const char *const junk_env_name[JE_N] = { "unknown-keyword", "opt-garbage", "long-value",
                                                 "binary", "opt-ndots-nonnumeric", "opt-zero" };

static void gen_junk_envtoken(vh_rng_t *r, int cls, cfg_bb_t *l)
{
  static const char *const unk[]  = { "foo", "options", "debug", "nameserver", "9.9.9.9", "edns0" };
  static const char *const garb[] = { "foo:bar", ":", "::5", ":5", "=", "ndot:3", "NDOTS:3",
                                      "Rotate", "timeout=3" };
  static const char *const nn[]   = { "ndots:abc", "ndots:", "ndots", "ndots:x5", "ndots:4294967296",
                                      "ndots:4294967301", "ndots:8589934592" };
  static const char *const zr[]   = { "timeout:0", "attempts:0", "retrans:0", "retry:0",
                                      "timeout:abc", "attempts:", "timeout:4294967301",
                                      "attempts:4294967297", "retrans:8589934597", "retry:4294967298",
                                      "timeout:9999999999" };
  switch (cls) {
    case JE_UNKNOWN:
      cfg_bb_str(l, PICK(r, unk));
      break;
    case JE_GARBAGE:
      cfg_bb_str(l, PICK(r, garb));
      break;
    case JE_LONG:
      gen_alnum(r, l, vh_range(r, 520, 900));
      break;
    case JE_BINARY: {
      int n = vh_range(r, 1, 20), i;
      for (i = 0; i < n; i++) {
        unsigned char c;
        do {
          c = (unsigned char)vh_below(r, 256);
        } while (c == 0 || c == ' ' || c == '\t' || c == '\n' || c == '\r' || c == '\v' ||
                 c == '\f' || (i == 0 && c >= 0x20 && c < 0x7f));
        cfg_bb_ch(l, (char)c);
      }
      break;
    }
    case JE_NDOTS_NONNUM:
      cfg_bb_str(l, PICK(r, nn));
      break;
    default:
      cfg_bb_str(l, PICK(r, zr));
      break;
  }
}

/* ---------------------------------------------------------------- invalid setter strings */
static void gen_bad_sortlist(vh_rng_t *r, cfg_bb_t *l)
{
  static const char *const bad[] = { "abc", "1.2.3.4/99", "1.2.3.4/", "::1/129",
                                     "1.2.3.4/255.255.x.0", "111.111.111.111*/16",
                                     "111.111.111.111/255.255.255.240*", "1 0123456789012345",
                                     "1 /01234567890123456789012345678901", "xyzzy ; lwk",
                                     "xyzzy ; 0x123", "/8", "1.2.3.4/-1", "1.2.3.4/33",
                                     "2001:db8::/129", "1.2.3.4/8x", "300.1.1.1" };
  int pre = vh_chance(r, 1, 2), post = vh_chance(r, 1, 3);
  if (pre) {
    gen_sortlist_value(r, l);
    cfg_bb_ch(l, ' ');
  }
  cfg_bb_str(l, PICK(r, bad));
  if (post) {
    cfg_bb_ch(l, ' ');
    gen_sortlist_value(r, l);
  }
}

static void gen_bad_csv(vh_rng_t *r, cfg_bb_t *l)
{
  static const char *const bad[] = { "xyzzy", "256.1.2.3", "1.2.3.4.5", "1:2:3:4:5", "1.2.3.4:",
                                     "1.2.3.4:Z", "[1.2.3.4", "dns://", "dns://host.example",
                                     "http://1.2.3.4", "1.2.3.4:1234567", "[::1]x", "1.2.3.4%",
                                     "::1/64", "1.2.3.4 junk" };
  int  pre = vh_chance(r, 1, 2), post = vh_chance(r, 1, 3);
  char ip[80];
  if (pre) {
    gen_ipv4(r, ip);
    cfg_bb_printf(l, "%s,", ip);
  }
  cfg_bb_str(l, PICK(r, bad));
  if (post) {
    gen_ipv4(r, ip);
    cfg_bb_printf(l, ",%s", ip);
  }
}

/* ---------------------------------------------------------------- byte-level junk for a source */
static void gen_fuzz_text(vh_rng_t *r, cfg_bb_t *out, int kind_hint)
{
  /* mixture: pure binary, grammar fragments glued with noise, numeric extremes, long tokens */
  static const char *const frag[] = {
    "nameserver ", "search ", "domain ", "sortlist ", "options ", "lookup ", "hosts: ", "hosts = ",
    "ndots:", "timeout:5 ", "attempts:3 ", "retrans:2 ", "retry:2 ", "rotate", "use-vc", "1.2.3.4", "::1",
    "fe80::1%lo", "[", "]", ":", "%", "/", ",", ";", "#", " ", "\t", "\n", "\n", "\n", "\r\n",
    "dns://", "?tcpport=", "4294967295", "4294967296", "18446744073709551616", "-1", "0", "99999",
    "65536", "2147483648", "example.com", "files", "dns", "bind", "local", "255.255.255.255/33",
    "localhost", "www", "=", "\\", "\"", "%25", "%00", "[fe80::1]:53%eth0", "1.2.3.4:65535",
    "0x10", "1e9", "+5", "  ", "a.b.c.d.e.f.g.h.i.j.k.l.m.n.o.p", "dns://[fe80::1%", "dns://[fe80::1%abcdefghijklmnopqrstuvwxyz0123456789]",
    "abcdefghijklmnopqrstuvwxyzabcdefghijklmnopqrstuvwxyzabcdefghijklmnopqrstuvwxyz"
  };
  int n = vh_range(r, 0, 40), i;
  (void)kind_hint;
  cfg_bb_add(out, "", 0);
  if (vh_chance(r, 1, 8)) {
    gen_binary(r, out, vh_range(r, 0, 300), 0, 1);
    return;
  }
  for (i = 0; i < n; i++) {
    switch (vh_below(r, 10)) {
      case 0:
        gen_binary(r, out, vh_range(r, 1, 8), 0, 1);
        break;
      case 1:
        gen_alnum(r, out, vh_chance(r, 1, 6) ? vh_range(r, 30, 700) : vh_range(r, 1, 12));
        break;
      case 2:
        cfg_bb_printf(out, "%u", (unsigned)vh_rand64(r));
        break;
      default:
        cfg_bb_str(out, PICK(r, frag));
        break;
    }
  }
}

#endif
