/* cfg_prof_robust.h - profile `robust` (C15 robustness): arbitrary bytes / grammar-aware junk in
 * each configuration source; initialisation, network-free lookups, setters and reinit must
 * neither crash, leak nor hang, and a successful initialisation is within documented ranges. */
#ifndef CFG_PROF_ROBUST_H
#define CFG_PROF_ROBUST_H

enum {
  RT_RESOLV = 0,
  RT_NSSWITCH,
  RT_NETSVC,
  RT_SVC,
  RT_HOSTS,
  RT_ALIASES,
  RT_RES_OPTIONS,
  RT_LOCALDOMAIN,
  RT_SORTLIST_STR,
  RT_CSV_STR,
  RT_N
};
static const char *const robust_target_name[RT_N] = { "resolv",  "nsswitch",    "netsvc",
                                                      "svc",     "hosts",       "aliases",
                                                      "RES_OPTIONS", "LOCALDOMAIN", "sortlist-str",
                                                      "csv-str" };

static const char *const num_extremes[] = { "0", "1", "15", "16", "255", "256", "65535", "65536",
                                            "2147483647", "2147483648", "4294967", "4294968",
                                            "4294967295", "4294967296", "18446744073709551615",
                                            "18446744073709551616", "99999999999999999999999",
                                            "-1", "-2147483649", "+3", "007", "1e3", "0x10" };

static int num_is_zero(const char *x)
{
  return (unsigned int)strtoul(x, NULL, 10) == 0; /* what process_option() computes */
}
static int num_is_huge(const char *x)
{
  return (unsigned int)strtoul(x, NULL, 10) > 255;
}

/* numeric extremes in every numeric position of the grammar.  `timeout:0`-style values are the
 * trigger of a listed finding and are only produced when zero_ok */
static void gen_numeric_extremes(vh_rng_t *r, cfg_lines_t *ls, int zero_ok, int bigtries_ok)
{
  int n = vh_range(r, 1, 4), i;
  for (i = 0; i < n; i++) {
    cfg_bb_t   *l = cfg_lines_new(ls);
    const char *x = PICK(r, num_extremes);
    switch (vh_below(r, 7)) {
      case 0:
        cfg_bb_printf(l, "options ndots:%s", x);
        break;
      case 1:
      case 2: {
        static const char *const k[] = { "timeout", "attempts", "retrans", "retry" };
        const char              *key = PICK(r, k);
        int                      tr  = key[0] == 'a' || !strcmp(key, "retry");
        while ((!zero_ok && num_is_zero(x)) || (tr && !bigtries_ok && num_is_huge(x))) {
          x = PICK(r, num_extremes);
        }
        cfg_bb_printf(l, "options %s:%s", key, x);
        break;
      }
      case 3:
        cfg_bb_printf(l, "nameserver 1.2.3.4:%s", x);
        break;
      case 4:
        cfg_bb_printf(l, "nameserver [2001:db8::1]:%s%%%s", x, x);
        break;
      case 5:
        cfg_bb_printf(l, "sortlist 1.2.3.4/%s 2001:db8::/%s", x, PICK(r, num_extremes));
        break;
      default:
        cfg_bb_printf(l, "nameserver dns://1.2.3.4:%s?tcpport=%s", x, PICK(r, num_extremes));
        break;
    }
  }
}

/* content for a junk source: byte fuzz, valid text with junk lines, duplicated directives,
 * numeric extremes, truncation */
static void gen_robust_file(vh_rng_t *r, int target, cfg_bb_t *out, int zero_ok, int bigtries_ok)
{
  cfg_lines_t ls;
  cfg_names_t nm;
  int         mode = (int)vh_below(r, 6);
  int         i, nj;
  memset(&nm, 0, sizeof(nm));
  ls.n = 0;
  if (mode == 0) {
    gen_fuzz_text(r, out, target);
    return;
  }
  switch (target) {
    case RT_RESOLV:
      gen_resolv_valid(r, &ls, 0, 6, 1);
      if (mode == 1) {
        gen_numeric_extremes(r, &ls, zero_ok, bigtries_ok);
      }
      if (mode == 2 && ls.n) { /* duplicated directives */
        int k = vh_range(r, 1, 6);
        while (k-- > 0 && ls.n < CFG_MAXLINES - 1) {
          cfg_lines_insert(&ls, (int)vh_below(r, (uint32_t)ls.n + 1),
                           &ls.l[vh_below(r, (uint32_t)ls.n)]);
        }
      }
      nj = vh_range(r, 0, 5);
      for (i = 0; i < nj; i++) {
        cfg_bb_t j   = { 0 };
        int      cls = (int)vh_below(r, J_RESOLV_N);
        if (cls == J_OPT_ZERO && !zero_ok) {
          cls = J_OPT_GARBAGE;
        }
        cfg_bb_add(&j, "", 0);
        gen_junk_resolv(r, cls, &j);
        cfg_lines_insert(&ls, (int)vh_below(r, (uint32_t)ls.n + 1), &j);
        cfg_bb_free(&j);
      }
      break;
    case RT_NSSWITCH:
    case RT_NETSVC:
    case RT_SVC:
      if (target == RT_NSSWITCH) {
        gen_nsswitch_valid(r, &ls);
      } else {
        gen_svc_valid(r, &ls);
      }
      nj = vh_range(r, 0, 4);
      for (i = 0; i < nj; i++) {
        cfg_bb_t j = { 0 };
        cfg_bb_add(&j, "", 0);
        gen_junk_ns(r, (int)vh_below(r, JN_N), target == RT_NSSWITCH ? ':' : '=', &j);
        cfg_lines_insert(&ls, (int)vh_below(r, (uint32_t)ls.n + 1), &j);
        cfg_bb_free(&j);
      }
      break;
    case RT_HOSTS:
      gen_hosts_valid(r, &ls, &nm, 0, 6);
      nj = vh_range(r, 0, 5);
      for (i = 0; i < nj; i++) {
        cfg_bb_t j = { 0 };
        cfg_bb_add(&j, "", 0);
        gen_junk_hosts(r, (int)vh_below(r, JH_N), &nm, &j);
        cfg_lines_insert(&ls, (int)vh_below(r, (uint32_t)ls.n + 1), &j);
        cfg_bb_free(&j);
      }
      break;
    default: /* RT_ALIASES */
      gen_aliases_valid(r, &ls, &nm);
      nj = vh_range(r, 0, 5);
      for (i = 0; i < nj; i++) {
        cfg_bb_t j = { 0 };
        cfg_bb_add(&j, "", 0);
        gen_junk_alias(r, (int)vh_below(r, JA_N), &nm, &j);
        cfg_lines_insert(&ls, (int)vh_below(r, (uint32_t)ls.n + 1), &j);
        cfg_bb_free(&j);
      }
      break;
  }
  cfg_lines_join(&ls, out, vh_chance(r, 4, 5));
  cfg_lines_free(&ls);
  if (mode == 5 && out->len > 0) { /* truncate anywhere, maybe append noise */
    out->len          = vh_below(r, (uint32_t)out->len + 1);
    out->b[out->len]  = 0;
    if (vh_chance(r, 1, 2)) {
      gen_binary(r, out, vh_range(r, 0, 12), 0, 1);
    }
  }
}

static void gen_robust_envstr(vh_rng_t *r, int target, cfg_bb_t *out, int zero_ok, int bigtries_ok)
{
  int mode = (int)vh_below(r, 5);
  int i, n;
  cfg_bb_add(out, "", 0);
  if (mode == 0) {
    /* byte fuzz without NUL (environment strings end at the first NUL anyway) */
    cfg_bb_t tmp = { 0 };
    size_t   k;
    gen_fuzz_text(r, &tmp, target);
    for (k = 0; k < tmp.len; k++) {
      if (tmp.b[k] != 0) {
        cfg_bb_ch(out, tmp.b[k]);
      }
    }
    cfg_bb_free(&tmp);
    return;
  }
  if (mode == 1) {
    return; /* set but empty */
  }
  if (target == RT_LOCALDOMAIN) {
    static const char *const v[] = { " ", ",", ", ,", "a.com b.com c.com", "  lead.example",
                                     "x,y", ".", "..", "a..b" };
    if (mode == 2) {
      cfg_bb_str(out, PICK(r, v));
    } else if (mode == 3) {
      gen_alnum(r, out, vh_range(r, 200, 900));
    } else {
      cfg_bb_str(out, gen_domain(r));
    }
    return;
  }
  n = vh_range(r, 1, 6);
  for (i = 0; i < n; i++) {
    unsigned dirs = 0;
    if (i) {
      gen_ws(r, out, 1);
    }
    if (vh_chance(r, 1, 2)) {
      gen_options_value(r, out, &dirs);
    } else if (vh_chance(r, 1, 3)) {
      static const char *const k[] = { "ndots", "timeout", "attempts", "retrans", "retry" };
      const char              *key = PICK(r, k);
      const char              *x   = PICK(r, num_extremes);
      int                      tr  = key[0] == 'a' || !strcmp(key, "retry");
      while ((!zero_ok && strcmp(key, "ndots") != 0 && num_is_zero(x)) ||
             (tr && !bigtries_ok && num_is_huge(x))) {
        x = PICK(r, num_extremes);
      }
      cfg_bb_printf(out, "%s:%s", key, x);
    } else {
      int cls = (int)vh_below(r, JE_N);
      if (cls == JE_ZERO && !zero_ok) {
        cls = JE_GARBAGE;
      }
      gen_junk_envtoken(r, cls, out);
    }
  }
}

static int rt_popcount_u(unsigned x)
{
  int n = 0;
  while (x) {
    n += (int)(x & 1);
    x >>= 1;
  }
  return n;
}

static void prof_robust(vh_rng_t *r, const vh_args_t *a)
{
  cfg_sys_t       sys;
  cfg_uopts_t     u;
  ares_channel_t *ch = NULL;
  int             rc, i;
  unsigned        junked = 0;
  size_t          junk_bytes = 0;
  int             zero_ok = (int)vh_opt_int(a, "zero", 0);
  int             bigtries_ok = (int)vh_opt_int(a, "bigtries", 0);
  int             nj      = vh_chance(r, 2, 3) ? 1 : vh_range(r, 2, 3);
  cfg_bb_t        sortstr = { 0 }, csvstr = { 0 };
  cfg_names_t     probe;
  char           *w;
  int             reinit_done = 0;

  cfg_prop = "cfg15";
  cfg_sys_init(&sys);
  memset(&probe, 0, sizeof(probe));

  /* pick junk sources */
  for (i = 0; i < nj; i++) {
    junked |= 1u << vh_below(r, RT_N);
  }
  /* files */
  for (i = RT_RESOLV; i <= RT_ALIASES; i++) {
    static const int tofile[] = { CF_RESOLV, CF_NSSWITCH, CF_NETSVC, CF_SVC, CF_HOSTS, CF_ALIASES };
    cfg_bb_t         bb       = { 0 };
    if (junked & (1u << i)) {
      gen_robust_file(r, i, &bb, zero_ok, bigtries_ok);
      junk_bytes += bb.len;
      cfg_sys_set_file(&sys, tofile[i], bb.b ? bb.b : "", bb.len);
      if (vh_chance(r, 1, 40)) {
        sys.f[tofile[i]].state = CFG_UNREADABLE;
      }
    } else if (vh_chance(r, 1, 3)) {
      cfg_lines_t ls;
      cfg_names_t nm;
      ls.n = 0;
      memset(&nm, 0, sizeof(nm));
      switch (i) {
        case RT_RESOLV:
          gen_resolv_valid(r, &ls, 1, 5, 1);
          break;
        case RT_NSSWITCH:
          gen_nsswitch_valid(r, &ls);
          break;
        case RT_NETSVC:
        case RT_SVC:
          gen_svc_valid(r, &ls);
          break;
        case RT_HOSTS:
          gen_hosts_valid(r, &ls, &nm, 1, 5);
          break;
        default:
          gen_aliases_valid(r, &ls, &nm);
          break;
      }
      cfg_lines_join(&ls, &bb, 1);
      cfg_lines_free(&ls);
      cfg_sys_set_file(&sys, tofile[i], bb.b ? bb.b : "", bb.len);
    }
    cfg_bb_free(&bb);
  }
  if (junked & (1u << RT_RES_OPTIONS)) {
    cfg_bb_t bb = { 0 };
    gen_robust_envstr(r, RT_RES_OPTIONS, &bb, zero_ok, bigtries_ok);
    junk_bytes += bb.len;
    cfg_sys_set_env(&sys, CE_RES_OPTIONS, bb.b);
    cfg_bb_free(&bb);
  }
  if (junked & (1u << RT_LOCALDOMAIN)) {
    cfg_bb_t bb = { 0 };
    gen_robust_envstr(r, RT_LOCALDOMAIN, &bb, zero_ok, bigtries_ok);
    junk_bytes += bb.len;
    cfg_sys_set_env(&sys, CE_LOCALDOMAIN, bb.b);
    cfg_bb_free(&bb);
  }
  if (bigtries_ok && vh_chance(r, 1, 4)) {
    /* dedicated sub-workload: retry counts far beyond anything resolv.conf(5) allows */
    static const char *const big[] = { "attempts:4294967295", "retry:100000", "attempts:65536",
                                       "retry:2147483648 attempts:1000000" };
    cfg_sys_set_env(&sys, CE_RES_OPTIONS, PICK(r, big));
    junk_bytes += 16;
  }
  if (sys.f[CF_ALIASES].state != CFG_ABSENT || vh_chance(r, 1, 10)) {
    cfg_sys_set_env(&sys, CE_HOSTALIASES, cfg_path[CF_ALIASES]);
  }
  if (vh_chance(r, 1, 8)) {
    /* CARES_HOSTS (ARES_AI_ENVHOSTS) points at the same junk hosts content */
    if (sys.f[CF_HOSTS].state == CFG_PRESENT) {
      cfg_sys_set_file(&sys, CF_HOSTS_ENV, sys.f[CF_HOSTS].data, sys.f[CF_HOSTS].len);
    }
    cfg_sys_set_env(&sys, CE_CARES_HOSTS, cfg_path[CF_HOSTS_ENV]);
  }
  if (vh_chance(r, 1, 6)) {
    static const char *const hn[] = { "host.domain.org", "myhostname", "a.b", "h.example.com" };
    strcpy(sys.hostname, PICK(r, hn));
  }

  /* options: none / few / many */
  switch (vh_below(r, 3)) {
    case 0:
      gen_uopts(r, &u, 0, 1, 0);
      break;
    case 1:
      gen_uopts(r, &u, 1, 6, U_ALLOW_NODFLT | U_ALLOW_PATHS | U_ALLOW_BADLOOK);
      break;
    default:
      gen_uopts(r, &u, 1, 2, U_ALLOW_NODFLT | U_ALLOW_PATHS | U_ALLOW_BADLOOK);
      break;
  }
  /* when the application redirects the paths, the junk goes where the library will read it */
  if (u.eff_mask & ARES_OPT_RESOLVCONF) {
    if (sys.f[CF_RESOLV].state == CFG_PRESENT) {
      cfg_sys_set_file(&sys, CF_RESOLV_ALT, sys.f[CF_RESOLV].data, sys.f[CF_RESOLV].len);
      sys.f[CF_RESOLV_ALT].state = sys.f[CF_RESOLV].state;
    }
  }
  if (u.eff_mask & ARES_OPT_HOSTS_FILE) {
    if (sys.f[CF_HOSTS].state == CFG_PRESENT) {
      cfg_sys_set_file(&sys, CF_HOSTS_ALT, sys.f[CF_HOSTS].data, sys.f[CF_HOSTS].len);
    }
  }

  cfg_sys_apply(&sys);
  if (vh_verbose) {
    char *uo = render_uopts(&u);
    w        = cfg_witness(&sys);
    vh_trace("options: %s", uo);
    vh_trace("environment: %s", w);
    free(uo);
    free(w);
  }
  cfg_lib_begin();
  rc = cfg_init(&ch, &u);
  if (rc != ARES_SUCCESS) {
    CNT("robust_init_error");
    if (ch != NULL) {
      w = cfg_witness(&sys);
      vh_violation("cfg15:robust:channel-set-on-error", "rc=%d but channel pointer written | %s", rc,
                   w);
      free(w);
    }
    /* documented: ENOSERVER only with ARES_FLAG_NO_DFLT_SVR (no allocation failure here) */
    if (!(rc == ARES_ENOSERVER && (u.mask & ARES_OPT_FLAGS) &&
          (u.o.flags & ARES_FLAG_NO_DFLT_SVR))) {
      char *uo = render_uopts(&u);
      w        = cfg_witness(&sys);
      vh_violation("cfg15:robust:init-undocumented-error", "ares_init_options rc=%d (%s) %s | %s",
                   rc, ares_strerror(rc), uo, w);
      free(uo);
      free(w);
    }
  } else {
    cfg_eff_t e;
    const char *bad;
    static const char *const fixed_names[] = { "localhost", "foobar", "www", "c-ares", "a",
                                               "ahostname.com", "host1", "db", "x.onion",
                                               "commented.example" };
    CNT("robust_init_ok");
    cfg_range_oracle(ch, "after init", &sys, 0);
    cfg_eff_read(ch, &e, CFG_EFF_PUBLIC);
    bad = cfg_eff_views_agree(&e);
    if (bad) {
      char key[96];
      char *txt = cfg_eff_render(&e, NULL);
      snprintf(key, sizeof(key), "cfg16:view:%s", bad);
      vh_violation(key, "public view disagrees with channel state: %.900s", txt);
      free(txt);
    }
    cfg_eff_free(&e);

    /* hosts-file and alias lookups (no network) */
    for (i = 0; i < 4; i++) {
      names_add(&probe, PICK(r, fixed_names));
    }
    {
      char hn[80];
      gen_hostname(r, hn);
      names_add(&probe, hn);
      ips_add(&probe, "127.0.0.1");
      gen_ipv4(r, hn);
      ips_add(&probe, hn);
      ips_add(&probe, "::1");
      ips_add(&probe, "not-an-ip");
    }
    free(render_hosts_lookups(ch, &probe));
    free(render_alias_lookups(ch, &probe));

    /* public asynchronous entry points; socket() is refused so nothing leaves the process */
    {
      cfg_cb_t                   cb[6];
      int                        ncb = 0;
      struct ares_addrinfo_hints hints;
      memset(cb, 0, sizeof(cb));
      memset(&hints, 0, sizeof(hints));
      hints.ai_family = vh_chance(r, 1, 2) ? AF_UNSPEC : AF_INET;
      hints.ai_flags  = ARES_AI_CANONNAME | (sys.env[CE_CARES_HOSTS] ? ARES_AI_ENVHOSTS : 0);
      ares_getaddrinfo(ch, probe.names[0], NULL, &hints, cfg_ai_cb, &cb[ncb++]);
      ares_gethostbyname(ch, probe.names[1 % probe.n], AF_INET, cfg_host_cb, &cb[ncb++]);
      {
        struct in_addr a4;
        ares_inet_pton(AF_INET, probe.ips[vh_below(r, 2)], &a4);
        ares_gethostbyaddr(ch, &a4, sizeof(a4), AF_INET, cfg_host_cb, &cb[ncb++]);
      }
      ares_search(ch, probe.names[2 % probe.n], 1 /* C_IN */, 1 /* T_A */, cfg_search_cb, &cb[ncb++]);
      CNT("async_requests");
      CNT("async_requests");
      CNT("async_requests");
      CNT("async_requests");
      /* let timers/retries run out in virtual time is not needed: refused sockets fail at once;
       * anything still pending is completed by ares_destroy() */
      if (vh_chance(r, 1, 3)) {
        cfg_reinit_await(ch);
        cfg_range_oracle(ch, "after reinit", &sys, 0);
        reinit_done = 1;
      }

      /* setters with junk strings */
      {
        cfg_eff_t before, after;
        int       src;
        cfg_bb_add(&sortstr, "", 0);
        cfg_bb_add(&csvstr, "", 0);
        if (junked & (1u << RT_SORTLIST_STR) || vh_chance(r, 1, 4)) {
          switch (vh_below(r, 3)) {
            case 0:
              gen_fuzz_text(r, &sortstr, RT_SORTLIST_STR);
              break;
            case 1:
              gen_bad_sortlist(r, &sortstr);
              break;
            default:
              cfg_bb_printf(&sortstr, "1.2.3.4/%s 2001:db8::/%s", PICK(r, num_extremes),
                            PICK(r, num_extremes));
              break;
          }
          junk_bytes += sortstr.len;
          cfg_eff_read(ch, &before, 0);
          src = ares_set_sortlist(ch, sortstr.b);
          CNT("set_sortlist_junk");
          cfg_eff_read(ch, &after, 0);
          if (src != ARES_SUCCESS && cfg_eff_diff(&before, &after, NULL, NULL) != NULL) {
            vh_sb_t sb = { 0 };
            cfg_esc(&sb, sortstr.b, sortstr.len, 300);
            vh_violation("cfg15:setter:sortlist:changed-on-error",
                         "ares_set_sortlist rc=%d changed %s | \"%s\"", src,
                         cfg_eff_diff(&before, &after, NULL, NULL), sb.b ? sb.b : "");
            free(sb.b);
          }
          cfg_eff_free(&before);
          cfg_eff_free(&after);
          cfg_range_oracle(ch, "after ares_set_sortlist", &sys, reinit_done);
        }
        if (vh_chance(r, 1, 4)) {
          /* socket functions that cannot look interfaces up (both members are optional in the _ex table, absent
           * in the classic one), then server lists and a re-read resolv.conf that name link-local servers by
           * interface name and by index: such entries are unusable and are skipped */
          static const char *const ll[] = { "fe80::1%lo", "[fe80::2%1]:53,1.2.3.4", "fe80::3%vpn0,fe80::4%2 9.9.9.9",
                                            "dns://[fe80::5%25lo]:53?tcpport=54" };
          (void)cfg_install_private_ifaces(ch, vh_chance(r, 1, 2) ? 2 : 3);
          CNT("socket_functions_without_interface_lookups");
          (void)(vh_chance(r, 1, 2) ? ares_set_servers_csv(ch, PICK(r, ll)) : ares_set_servers_ports_csv(ch, PICK(r, ll)));
          if (vh_chance(r, 1, 2)) {
            (void)cfg_reinit_await(ch);
          }
          cfg_range_oracle(ch, "after link-local servers without interface lookups", &sys, 1);
        }
        if (junked & (1u << RT_CSV_STR) || vh_chance(r, 1, 4)) {
          size_t k;
          switch (vh_below(r, 3)) {
            case 0: {
              cfg_bb_t tmp = { 0 };
              gen_fuzz_text(r, &tmp, RT_CSV_STR);
              for (k = 0; k < tmp.len; k++) {
                if (tmp.b[k]) {
                  cfg_bb_ch(&csvstr, tmp.b[k]);
                }
              }
              cfg_bb_free(&tmp);
              break;
            }
            case 1:
              gen_bad_csv(r, &csvstr);
              break;
            default:
              cfg_bb_printf(&csvstr, "1.2.3.4:%s,dns://[2001:db8::1]:%s?tcpport=%s",
                            PICK(r, num_extremes), PICK(r, num_extremes), PICK(r, num_extremes));
              break;
          }
          junk_bytes += csvstr.len;
          cfg_eff_read(ch, &before, 0);
          src = vh_chance(r, 1, 2) ? ares_set_servers_csv(ch, csvstr.b)
                                   : ares_set_servers_ports_csv(ch, csvstr.b);
          CNT("set_servers_csv_junk");
          cfg_eff_read(ch, &after, 0);
          if (src != ARES_SUCCESS && cfg_eff_diff(&before, &after, NULL, NULL) != NULL) {
            vh_sb_t sb = { 0 };
            cfg_esc(&sb, csvstr.b, csvstr.len, 300);
            vh_violation("cfg15:setter:servers-csv:changed-on-error",
                         "ares_set_servers_csv rc=%d changed %s | \"%s\"", src,
                         cfg_eff_diff(&before, &after, NULL, NULL), sb.b ? sb.b : "");
            free(sb.b);
          }
          cfg_eff_free(&before);
          cfg_eff_free(&after);
          /* an accepted string may legitimately leave no server (all entries skipped) */
          cfg_range_oracle(ch, "after ares_set_servers_csv", &sys, 1);
        }
      }
      ares_destroy(ch);
      ch = NULL;
      for (i = 0; i < ncb; i++) {
        if (cb[i].calls != 1) {
          w = cfg_witness(&sys);
          vh_violation("cfg15:robust:callback-count", "request %d completed %d times | %s", i,
                       cb[i].calls, w);
          free(w);
        }
      }
    }
  }
  if (ch) {
    ares_destroy(ch);
  }
  cfg_lib_end("after ares_destroy + ares_library_cleanup", &sys);

  /* fingerprint: which sources were junk, how initialisation went, option density */
  cfg_case_fp = vh_fnv_u64(cfg_case_fp, junked);
  cfg_case_fp = vh_fnv_u64(cfg_case_fp, (uint64_t)rc);
  /* option density class rather than the exact mask: none / NULL / few / many */
  cfg_case_fp = vh_fnv_u64(cfg_case_fp, (uint64_t)(u.use_null ? 99 : (u.mask == 0 ? 0 : (rt_popcount_u((unsigned)u.mask) <= 4 ? 1 : 2))));
  cfg_case_fp = vh_fnv_u64(cfg_case_fp, (uint64_t)reinit_done);
  cfg_case_nontrivial = junk_bytes >= 8;
  if (vh_want_sample() && cfg_case_nontrivial) {
    vh_sb_t sb = { 0 };
    w          = cfg_witness(&sys);
    vh_sb_printf(&sb, "{\"profile\":\"robust\",\"junk_sources\":\"");
    for (i = 0; i < RT_N; i++) {
      if (junked & (1u << i)) {
        vh_sb_printf(&sb, "%s ", robust_target_name[i]);
      }
    }
    vh_sb_printf(&sb, "\",\"init_rc\":%d,\"env\":", rc);
    vh_sb_jstr(&sb, w, strlen(w) > 600 ? 600 : strlen(w));
    vh_sb_printf(&sb, "}");
    vh_sample(sb.b);
    free(sb.b);
    free(w);
  }
  cfg_bb_free(&sortstr);
  cfg_bb_free(&csvstr);
  cfg_sys_free(&sys);
}

#endif
