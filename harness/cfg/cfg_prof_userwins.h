#ifndef CFG_PROF_userwins_H
#define CFG_PROF_userwins_H
static void prof_userwins(vh_rng_t *r, const vh_args_t *a){(void)r;(void)a;}
#endif
