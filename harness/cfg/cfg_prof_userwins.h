/* cfg_prof_userwins.h - profile `userwins` (C16): every setting the application supplied
 * explicitly (option bit with an explicit value, or a setter call) keeps its value whatever
 * resolv.conf / nsswitch.conf / RES_OPTIONS / LOCALDOMAIN / the kernel hostname say - after
 * ares_init_options() and after every awaited ares_reinit() under a changed system
 * configuration.
 *
 * Two oracles per stage: (direct) scalar options equal the values passed in; (differential) each
 * explicitly set field equals its value in a reference channel built from the same options and
 * setter calls under an EMPTY system configuration (no files, no environment, undotted
 * hostname), which takes care of list normalisation (duplicates, ARES_FLAG_PRIMARY, ports). */
#ifndef CFG_PROF_USERWINS_H
#define CFG_PROF_USERWINS_H

typedef struct {
  int       have_servers, how, nset;
  cfg_srv_t set[U_MAXSRV];
  char     *csv; /* exact text used for both runs (how <= 1) */
  int       have_sortlist;
  char     *sortlist;
} uw_setters_t;

static void uw_apply_setters(ares_channel_t *ch, const uw_setters_t *st, int *violated)
{
  int rc;
  if (st->have_servers) {
    if (st->how == 0) {
      rc = ares_set_servers_csv(ch, st->csv);
    } else if (st->how == 1) {
      rc = ares_set_servers_ports_csv(ch, st->csv);
    } else {
      rc = apply_server_set(NULL, ch, st->set, st->nset, st->how, NULL);
    }
    if (rc != ARES_SUCCESS) {
      vh_violation("cfg16:setter:servers:rejected-valid", "how=%d rc=%d text=\"%s\"", st->how, rc,
                   st->csv ? st->csv : "(nodes)");
      (*violated)++;
    }
  }
  if (st->have_sortlist) {
    rc = ares_set_sortlist(ch, st->sortlist);
    if (rc != ARES_SUCCESS) {
      vh_violation("cfg16:setter:sortlist:rejected-valid", "rc=%d for \"%s\"", rc, st->sortlist);
      (*violated)++;
    }
  }
}

static const struct {
  unsigned    bit;
  const char *field;
} uw_fields[] = {
  { ARES_OPT_FLAGS,                      "i.flags"           },
  { ARES_OPT_TIMEOUTMS,                  "i.timeout"         },
  { ARES_OPT_TRIES,                      "i.tries"           },
  { ARES_OPT_NDOTS,                      "i.ndots"           },
  { ARES_OPT_MAXTIMEOUTMS,               "i.maxtimeout"      },
  { ARES_OPT_ROTATE | ARES_OPT_NOROTATE, "i.rotate"          },
  { ARES_OPT_UDP_PORT,                   "i.udp_port"        },
  { ARES_OPT_TCP_PORT,                   "i.tcp_port"        },
  { ARES_OPT_SOCK_SNDBUF,                "i.sndbuf"          },
  { ARES_OPT_SOCK_RCVBUF,                "i.rcvbuf"          },
  { ARES_OPT_EDNSPSZ,                    "i.ednspsz"         },
  { ARES_OPT_SERVERS,                    "i.servers"         },
  { ARES_OPT_DOMAINS,                    "i.domains"         },
  { ARES_OPT_LOOKUPS,                    "i.lookups"         },
  { ARES_OPT_SORTLIST,                   "i.sortlist"        },
  { ARES_OPT_RESOLVCONF,                 "i.resolvconf_path" },
  { ARES_OPT_HOSTS_FILE,                 "i.hosts_path"      },
  { ARES_OPT_UDP_MAX_QUERIES,            "i.udp_max_queries" },
  { ARES_OPT_QUERY_CACHE,                "i.qcache_max_ttl"  },
  { ARES_OPT_SERVER_FAILOVER,            "i.retry_chance"    },
  { ARES_OPT_SERVER_FAILOVER,            "i.retry_delay"     },
  { ARES_OPT_SOCK_STATE_CB,              "i.sock_state_cb"   },
};

/* direct comparison of scalar options with what was passed in */
static int uw_direct(const cfg_uopts_t *u, const cfg_eff_t *e, const char *stage, const char *uo,
                     const char *w, unsigned *reported)
{
  char        exp[64], key[128];
  const char *f = NULL;
  int         nv = 0;
#define CHK(bit, field, fmt, val)                                                              \
  if (u->eff_mask & (bit)) {                                                                   \
    snprintf(exp, sizeof(exp), fmt, val);                                                      \
    f = field;                                                                                 \
    CNT("userwins_field_evaluations");                                                         \
    if (strcmp(exp, cfg_eff_get(e, f)) != 0) {                                                 \
      const char *fn = f;                                                                      \
      if ((bit) == ARES_OPT_FLAGS &&                                                           \
          ((unsigned)strtoul(exp, NULL, 16) ^ (unsigned)strtoul(cfg_eff_get(e, f), NULL, 16)) == \
            ARES_FLAG_USEVC) {                                                                 \
        fn = "i.flags(usevc)";                                                                 \
      }                                                                                        \
      *reported |= (bit);                                                                      \
      snprintf(key, sizeof(key), "cfg16:userwins:%s:%s", fn, stage);                           \
      vh_violation(key, "application set %s, effective %s | %s | %s", exp, cfg_eff_get(e, f), uo, \
                   w);                                                                         \
      nv++;                                                                                    \
    }                                                                                          \
  }
  CHK(ARES_OPT_FLAGS, "i.flags", "0x%x", (unsigned)u->o.flags)
  CHK(ARES_OPT_TIMEOUTMS, "i.timeout", "%u", u->expect_timeout_ms)
  CHK(ARES_OPT_TRIES, "i.tries", "%d", u->o.tries)
  CHK(ARES_OPT_NDOTS, "i.ndots", "%d", u->o.ndots)
  CHK(ARES_OPT_MAXTIMEOUTMS, "i.maxtimeout", "%d", u->o.maxtimeout)
  CHK(ARES_OPT_ROTATE, "i.rotate", "%d", 1)
  CHK(ARES_OPT_NOROTATE, "i.rotate", "%d", 0)
  CHK(ARES_OPT_UDP_PORT, "i.udp_port", "%u", (unsigned)u->o.udp_port)
  CHK(ARES_OPT_TCP_PORT, "i.tcp_port", "%u", (unsigned)u->o.tcp_port)
  CHK(ARES_OPT_SOCK_SNDBUF, "i.sndbuf", "%d", u->o.socket_send_buffer_size)
  CHK(ARES_OPT_SOCK_RCVBUF, "i.rcvbuf", "%d", u->o.socket_receive_buffer_size)
  CHK(ARES_OPT_EDNSPSZ, "i.ednspsz", "%d", u->o.ednspsz)
  CHK(ARES_OPT_LOOKUPS, "i.lookups", "%s", u->o.lookups)
  CHK(ARES_OPT_UDP_MAX_QUERIES, "i.udp_max_queries", "%d", u->o.udp_max_queries)
  CHK(ARES_OPT_QUERY_CACHE, "i.qcache_max_ttl", "%u", u->o.qcache_max_ttl)
  CHK(ARES_OPT_SERVER_FAILOVER, "i.retry_chance", "%u", (unsigned)u->o.server_failover_opts.retry_chance)
  CHK(ARES_OPT_SERVER_FAILOVER, "i.retry_delay", "%zu", u->o.server_failover_opts.retry_delay)
#undef CHK
  return nv;
}

/* differential comparison against the reference channel */
static int uw_diff(unsigned user_bits, const cfg_uopts_t *u, const cfg_eff_t *ref, const cfg_eff_t *e,
                   const char *stage, const char *uo, const char *w, unsigned already)
{
  size_t k;
  int    nv = 0;
  for (k = 0; k < sizeof(uw_fields) / sizeof(uw_fields[0]); k++) {
    const char *a, *b;
    if (!(user_bits & uw_fields[k].bit) || (already & uw_fields[k].bit)) {
      continue;
    }
    a = cfg_eff_get(ref, uw_fields[k].field);
    b = cfg_eff_get(e, uw_fields[k].field);
    CNT("userwins_field_evaluations");
    if (a == NULL || b == NULL || strcmp(a, b) != 0) {
      char        key[160];
      const char *fname = uw_fields[k].field;
      if (!strcmp(fname, "i.domains") && !u->use_null && (u->mask & ARES_OPT_DOMAINS) &&
          u->o.ndomains == 0) {
        fname = "i.domains(empty-list)";
      }
      if (!strcmp(fname, "i.flags") && a && b) {
        /* name the bit(s) that changed: keeps the use-vc report apart from anything else */
        unsigned fa = (unsigned)strtoul(a, NULL, 16), fb = (unsigned)strtoul(b, NULL, 16);
        if ((fa ^ fb) == ARES_FLAG_USEVC) {
          fname = "i.flags(usevc)";
        }
      }
      if (!strcmp(fname, "i.servers") && rt_has_ll_noiface(a)) {
        /* the reference list itself holds a link-local server without an interface, which only the
         * list setters let through (open finding C16-linklocal-nodes-not-duplicated); such an
         * entry takes over the interface of a system-configured server with the same address */
        fname = "i.servers(linklocal-without-iface)";
      }
      snprintf(key, sizeof(key), "cfg16:userwins:%s:%s", fname, stage);
      vh_violation(key, "without system configuration %.300s, with it %.300s | %s | %s", a ? a : "-",
                   b ? b : "-", uo, w);
      nv++;
    }
  }
  return nv;
}

static void prof_userwins(vh_rng_t *r, const vh_args_t *a)
{
  cfg_sys_t       ref_sys, s[3];
  cfg_uopts_t     u;
  uw_setters_t    st;
  ares_channel_t *ch = NULL;
  cfg_eff_t       e_ref, e;
  int             rc, violated = 0, nreinit, i;
  unsigned        dirs = 0, sclass = 0, user_bits;
  int             ll_ok = (int)vh_opt_int(a, "ll", 0);
  char           *uo, *w;
  int             ref_ok = 0;

  cfg_prop = "cfg16";
  memset(&st, 0, sizeof(st));
  gen_uopts(r, &u, vh_chance(r, 1, 3) ? 1 : 2, vh_chance(r, 1, 2) ? 3 : 4, U_ALLOW_PATHS);
  if (u.use_null) {
    u.use_null = 0; /* no application settings: nothing to assert */
  }
  if (vh_chance(r, 1, 3)) {
    st.have_servers = 1;
    st.how          = (int)vh_below(r, 4);
    st.nset         = gen_server_set(r, st.set, 4, ll_ok, &sclass);
    if (st.how <= 1) {
      cfg_bb_t bb = { 0 };
      srv_to_csv(r, st.set, st.nset, &bb);
      st.csv = bb.b;
    }
  }
  if (vh_chance(r, 1, 4)) {
    cfg_bb_t bb = { 0 };
    cfg_bb_add(&bb, "", 0);
    gen_sortlist_value(r, &bb);
    st.have_sortlist = 1;
    st.sortlist      = bb.b;
  }
  user_bits = (unsigned)u.eff_mask;
  if (st.have_servers) {
    user_bits |= ARES_OPT_SERVERS;
  }
  if (st.have_sortlist) {
    user_bits |= ARES_OPT_SORTLIST;
  }

  cfg_sys_init(&ref_sys);
  nreinit = vh_range(r, 1, 2);
  for (i = 0; i < 3; i++) {
    cfg_sys_init(&s[i]);
    dirs |= gen_sysconfig(r, &s[i], &u, 1);
    /* decoy content at the default paths when the application redirected them */
    if (u.eff_mask & ARES_OPT_RESOLVCONF) {
      cfg_sys_set_file(&s[i], CF_RESOLV, "nameserver 203.0.113.99\noptions ndots:13 rotate\n", 47);
    }
  }
  uo = render_uopts(&u);

  /* ---- reference: same application input, empty system configuration */
  cfg_sys_apply(&ref_sys);
  cfg_lib_begin();
  rc = cfg_init(&ch, &u);
  if (rc == ARES_SUCCESS) {
    uw_apply_setters(ch, &st, &violated);
    cfg_eff_read(ch, &e_ref, 0);
    ref_ok = 1;
    w      = strdup("(empty system configuration)");
    {
      unsigned rep = 0;
      violated += uw_direct(&u, &e_ref, "reference", uo, w, &rep);
    }
    free(w);
    ares_destroy(ch);
    ch = NULL;
  } else {
    CNT("userwins_ref_init_error");
  }
  cfg_lib_end("after ares_destroy + ares_library_cleanup", &ref_sys);

  /* ---- under generated system configuration */
  if (ref_ok) {
    cfg_sys_apply(&s[0]);
    cfg_lib_begin();
    rc = cfg_init(&ch, &u);
    w  = cfg_witness(&s[0]);
    if (vh_verbose) {
      vh_trace("options: %s", uo);
      vh_trace("environment: %s", w);
    }
    if (rc != ARES_SUCCESS) {
      vh_violation("cfg16:userwins:init-status", "rc=0 without system configuration, %d with | %s | %s",
                   rc, uo, w);
      violated++;
    } else {
      uw_apply_setters(ch, &st, &violated);
      cfg_eff_read(ch, &e, 0);
      CNT("userwins_stage_evaluations");
      {
        unsigned rep = 0;
        violated += uw_direct(&u, &e, "init", uo, w, &rep);
        violated += uw_diff(user_bits, &u, &e_ref, &e, "init", uo, w, rep);
      }
      cfg_eff_free(&e);
      for (i = 1; i <= nreinit; i++) {
        free(w);
        cfg_sys_apply(&s[i]);
        w = cfg_witness(&s[i]);
        if (vh_verbose) {
          vh_trace("reinit %d environment: %s", i, w);
        }
        cfg_reinit_await(ch);
        cfg_eff_read(ch, &e, 0);
        CNT("userwins_stage_evaluations");
        {
          unsigned rep = 0;
          violated += uw_direct(&u, &e, "reinit", uo, w, &rep);
          violated += uw_diff(user_bits, &u, &e_ref, &e, "reinit", uo, w, rep);
        }
        cfg_eff_free(&e);
      }
      if (vh_chance(r, 1, 3)) {
        /* a setter called while a reload is reading the system configuration (the reload thread is held at its first
         * allocation, i.e. after it started and before it applies anything): what the application sets there is an
         * explicit setting like any other and must survive the apply step */
        int       which = (int)vh_below(r, 2);
        int       waited = 0, src;
        cfg_eff_t e2;
        cfg_gate_main = pthread_self();
        __atomic_store_n(&cfg_gate_closed, 1, __ATOMIC_SEQ_CST);
        if (ares_reinit(ch) == ARES_SUCCESS) {
          while (__atomic_load_n(&cfg_gate_waiters, __ATOMIC_SEQ_CST) == 0 && waited++ < 20000) {
            usleep(100);
          }
          if (__atomic_load_n(&cfg_gate_waiters, __ATOMIC_SEQ_CST) > 0) {
            CNT("userwins_setter_inside_reload_window");
            if (which == 0) {
              src = ares_set_servers_ports_csv(ch, "192.0.2.201:53,[2001:db8::201]:5353");
            } else {
              src = ares_set_sortlist(ch, "198.51.100.0/24 2001:db8:77::/48");
            }
            __atomic_store_n(&cfg_gate_closed, 0, __ATOMIC_SEQ_CST);
            /* wait for the reload to finish */
            for (i = 0; i < 100000; i++) {
              ares_bool_t pending;
              ares_channel_lock(ch);
              pending = ch->reinit_pending;
              ares_channel_unlock(ch);
              if (!pending) {
                break;
              }
              usleep(100);
            }
            if (src == ARES_SUCCESS) {
              cfg_eff_read(ch, &e2, 0);
              /* (with ARES_FLAG_PRIMARY only the first server is kept) */
              if (which == 0 && strcmp(cfg_eff_get(&e2, "i.servers"), "4:192.0.2.201|u53|t53|%|s0;6:2001:db8::201|u5353|t5353|%|s0;") != 0 &&
                  strcmp(cfg_eff_get(&e2, "i.servers"), "4:192.0.2.201|u53|t53|%|s0;") != 0) {
                vh_violation("cfg16:userwins:i.servers:set-during-reload", "servers set while a reload was reading the system configuration became %s | %s",
                             cfg_eff_get(&e2, "i.servers"), w);
                violated++;
              }
              if (which == 1 && e2.nsort != 2) {
                vh_violation("cfg16:userwins:i.sortlist:set-during-reload", "sortlist (2 entries) set while a reload was reading the system configuration now has %d entries | %s",
                             (int)e2.nsort, w);
                violated++;
              }
              cfg_eff_free(&e2);
            }
          } else {
            CNT("userwins_reload_window_not_reached");
          }
        }
        __atomic_store_n(&cfg_gate_closed, 0, __ATOMIC_SEQ_CST);
      }
      ares_destroy(ch);
      ch = NULL;
    }
    free(w);
    cfg_lib_end("after ares_destroy + ares_library_cleanup", &s[0]);
    cfg_case_nontrivial = rt_popcount((unsigned)u.mask) >= 3 || e_ref.nservers >= 2;
    if (vh_want_sample() && cfg_case_nontrivial) {
      vh_sb_t sb = { 0 };
      char   *ws = cfg_witness(&s[0]);
      vh_sb_printf(&sb, "{\"profile\":\"userwins\",\"options\":");
      vh_sb_jstr(&sb, uo, strlen(uo));
      vh_sb_printf(&sb, ",\"reinits\":%d,\"sysconfig\":", nreinit);
      vh_sb_jstr(&sb, ws, strlen(ws) > 500 ? 500 : strlen(ws));
      vh_sb_printf(&sb, "}");
      vh_sample(sb.b);
      free(sb.b);
      free(ws);
    }
    cfg_eff_free(&e_ref);
  }

  cfg_case_fp = vh_fnv_u64(cfg_case_fp, (uint64_t)(unsigned)u.mask);
  cfg_case_fp = vh_fnv_u64(cfg_case_fp, sclass);
  cfg_case_fp = vh_fnv_u64(cfg_case_fp, (uint64_t)(st.have_servers ? st.how + 1 : 0));
  cfg_case_fp = vh_fnv_u64(cfg_case_fp, dirs);
  (void)violated;
  free(uo);
  free(st.csv);
  free(st.sortlist);
  cfg_sys_free(&ref_sys);
  for (i = 0; i < 3; i++) {
    cfg_sys_free(&s[i]);
  }
}

#endif
