/* cfg.c - configuration-text harness (engine E4; properties C15 and C16).
 *
 * Profiles:
 *   robust    (C15) arbitrary bytes / grammar-aware junk in every configuration source
 *   lineindep (C15) metamorphic: valid text F vs. F with junk lines inserted => same E()
 *   roundtrip (C16) save->init, dup, csv->set->csv, get->set round trips
 *   userwins  (C16) explicit application settings vs. generated system configuration,
 *                   after init and after every awaited ares_reinit()
 *   single    (C15) one to three valid directives with known meaning: absolute oracle
 *
 * The system environment is virtual (cfg_env.h): files live in a per-process scratch directory
 * below the cwd, the hard-coded /etc paths, getenv, gethostname, interface names, socket() and
 * the clock are interposed at link time.  No event thread is ever enabled; ares_reinit()'s
 * worker thread is awaited before anything else happens.
 */
#pragma GCC diagnostic ignored "-Wdeprecated-declarations"
#include "ares_private.h"
#include "vh.h"
#include "cfg_env.h"
#include "cfg_eff.h"
#include "cfg_gen.h"
#include "cfg_core.h"
#include "cfg_prof_robust.h"
#include "cfg_prof_lineindep.h"
#include "cfg_prof_roundtrip.h"
#include "cfg_prof_userwins.h"
#include "cfg_prof_single.h"

typedef void (*cfg_case_fn)(vh_rng_t *rng, const vh_args_t *a);
static const struct {
  const char *name;
  cfg_case_fn fn;
} cfg_profiles[] = {
  { "robust",    prof_robust    },
  { "lineindep", prof_lineindep },
  { "roundtrip", prof_roundtrip },
  { "userwins",  prof_userwins  },
  { "single",    prof_single    },
};

static vh_args_t a; /* static: the --opt strings it points to stay reachable for LSan */

int main(int argc, char **argv)
{
  uint64_t    i;
  cfg_case_fn fn = NULL;
  size_t      p;
  uint64_t    tag;

  vh_parse_args(&a, argc, argv);
  for (p = 0; p < sizeof(cfg_profiles) / sizeof(cfg_profiles[0]); p++) {
    if (!strcmp(cfg_profiles[p].name, a.profile)) {
      fn = cfg_profiles[p].fn;
    }
  }
  if (fn == NULL) {
    fprintf(stderr, "unknown profile %s\n", a.profile);
    return 2;
  }
  signal(SIGPIPE, SIG_IGN);
  cfg_scratch_init();
  tag = vh_fnv_str(VH_FNV_INIT, a.profile);
  for (i = a.first; i < a.first + a.count; i++) {
    vh_rng_t rng;
    vh_rng_seed(&rng, vh_case_seed(a.seed, a.profile, i));
    vh_case_begin(i);
    cfg_case_fp         = tag;
    cfg_case_nontrivial = 0;
    cfg_reinit_counter  = (unsigned)(i * 3u); /* how reinit is awaited depends on the case only */
    fn(&rng, &a);
    vh_count("cases");
    if (cfg_case_nontrivial) {
      vh_count("nontrivial_cases");
      vh_fp_add(cfg_case_fp);
    }
  }
  vh_count_n("wrap_fopen", cfg_n_fopen);
  vh_count_n("wrap_fopen_etc", cfg_n_fopen_etc);
  vh_count_n("wrap_stat", cfg_n_stat);
  vh_count_n("wrap_getenv", cfg_n_getenv);
  vh_count_n("wrap_socket_refused", cfg_n_socket);
  vh_count_n("ledger_allocations", cfg_led_allocs);
  vh_chunk_end();
  cfg_scratch_cleanup();
  return 0;
}
