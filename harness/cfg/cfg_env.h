/* cfg_env.h - the virtual system environment of the configuration harness (engine E4).
 *
 *  - per-process scratch directory (cfg-<pid> under the cwd) holding the case's files
 *  - link-time wraps: fopen / stat (hard coded /etc paths -> scratch), getenv (the four names
 *    the library reads), gethostname, if_nametoindex / if_indextoname (three virtual
 *    interfaces), socket (always ENETUNREACH: nothing touches the network), ares_tvnow
 *    (fixed virtual clock)
 *  - counting allocator with an exact ledger of live blocks and allocation call chains
 */
#ifndef CFG_ENV_H
#define CFG_ENV_H

#include <errno.h>
#include <fcntl.h>
#include <dirent.h>
#include <signal.h>
#include <pthread.h>
#include <sched.h>
#include <sys/stat.h>
#include <sys/types.h>
#include <sys/socket.h>
#include <net/if.h>
#include <netdb.h>
#include <netinet/in.h>
#include <arpa/inet.h>

/* ------------------------------------------------------------------ files */
enum {
  CF_RESOLV = 0, /* /etc/resolv.conf */
  CF_NSSWITCH,   /* /etc/nsswitch.conf */
  CF_HOSTCONF,   /* /etc/host.conf (not read by this c-ares; kept to notice if it ever is) */
  CF_NETSVC,     /* /etc/netsvc.conf */
  CF_SVC,        /* /etc/svc.conf */
  CF_HOSTS,      /* /etc/hosts */
  CF_ALIASES,    /* $HOSTALIASES */
  CF_RESOLV_ALT, /* ARES_OPT_RESOLVCONF */
  CF_HOSTS_ALT,  /* ARES_OPT_HOSTS_FILE */
  CF_HOSTS_ENV,  /* $CARES_HOSTS */
  CF_N
};

static const char *const cfg_file_name[CF_N] = { "resolv.conf", "nsswitch.conf", "host.conf",
                                                 "netsvc.conf", "svc.conf",      "hosts",
                                                 "aliases",     "resolv.alt",    "hosts.alt",
                                                 "hosts.env" };
static const char *const cfg_etc_path[CF_N]  = { "/etc/resolv.conf",
                                                 "/etc/nsswitch.conf",
                                                 "/etc/host.conf",
                                                 "/etc/netsvc.conf",
                                                 "/etc/svc.conf",
                                                 "/etc/hosts",
                                                 NULL,
                                                 NULL,
                                                 NULL,
                                                 NULL };

enum { CE_RES_OPTIONS = 0, CE_LOCALDOMAIN, CE_HOSTALIASES, CE_CARES_HOSTS, CE_N };
static const char *const cfg_env_name[CE_N] = { "RES_OPTIONS", "LOCALDOMAIN", "HOSTALIASES",
                                                "CARES_HOSTS" };

#define CFG_ABSENT     0
#define CFG_PRESENT    1
#define CFG_UNREADABLE 2 /* fopen fails with EACCES */

typedef struct {
  int    state;
  char  *data;
  size_t len;
} cfg_file_t;

typedef struct {
  cfg_file_t f[CF_N];
  char      *env[CE_N]; /* NULL = unset */
  char       hostname[128];
} cfg_sys_t;

static char        cfg_dir[512];
static char        cfg_path[CF_N][640];
static cfg_sys_t  *cfg_cur_sys = NULL; /* what the wraps serve */
static uint64_t    cfg_written_hash[CF_N];
static int         cfg_written_state[CF_N];
static uint64_t    cfg_n_fopen, cfg_n_fopen_etc, cfg_n_getenv, cfg_n_stat;

static void cfg_sys_init(cfg_sys_t *s)
{
  memset(s, 0, sizeof(*s));
  strcpy(s->hostname, "vhost");
}

static void cfg_sys_free(cfg_sys_t *s)
{
  int i;
  for (i = 0; i < CF_N; i++) {
    free(s->f[i].data);
  }
  for (i = 0; i < CE_N; i++) {
    free(s->env[i]);
  }
  memset(s, 0, sizeof(*s));
}

static void cfg_sys_set_file(cfg_sys_t *s, int which, const char *data, size_t len)
{
  free(s->f[which].data);
  s->f[which].data = (char *)malloc(len + 1);
  memcpy(s->f[which].data, data, len);
  s->f[which].data[len] = 0;
  s->f[which].len       = len;
  s->f[which].state     = CFG_PRESENT;
}

static void cfg_sys_set_env(cfg_sys_t *s, int which, const char *val)
{
  free(s->env[which]);
  s->env[which] = val ? strdup(val) : NULL;
}

static void cfg_sys_copy(cfg_sys_t *d, const cfg_sys_t *s)
{
  int i;
  cfg_sys_init(d);
  for (i = 0; i < CF_N; i++) {
    if (s->f[i].data) {
      cfg_sys_set_file(d, i, s->f[i].data, s->f[i].len);
    }
    d->f[i].state = s->f[i].state;
  }
  for (i = 0; i < CE_N; i++) {
    cfg_sys_set_env(d, i, s->env[i]);
  }
  strcpy(d->hostname, s->hostname);
}

static void cfg_rm_dir(const char *dir)
{
  DIR           *d = opendir(dir);
  struct dirent *e;
  char           p[1024];
  if (d == NULL) {
    return;
  }
  while ((e = readdir(d)) != NULL) {
    if (!strcmp(e->d_name, ".") || !strcmp(e->d_name, "..")) {
      continue;
    }
    snprintf(p, sizeof(p), "%s/%s", dir, e->d_name);
    unlink(p);
  }
  closedir(d);
  rmdir(dir);
}

static void cfg_scratch_cleanup(void)
{
  if (cfg_dir[0]) {
    cfg_rm_dir(cfg_dir);
    cfg_dir[0] = 0;
  }
}

void __sanitizer_set_death_callback(void (*cb)(void));

/* remove scratch directories left behind by workers that were killed (pid gone) */
static void cfg_scratch_reap(const char *cwd)
{
  DIR           *d = opendir(cwd);
  struct dirent *e;
  if (d == NULL) {
    return;
  }
  while ((e = readdir(d)) != NULL) {
    long pid;
    char p[1024];
    if (strncmp(e->d_name, "cfg-", 4) != 0) {
      continue;
    }
    pid = strtol(e->d_name + 4, NULL, 10);
    if (pid > 1 && kill((pid_t)pid, 0) != 0 && errno == ESRCH) {
      snprintf(p, sizeof(p), "%s/%s", cwd, e->d_name);
      cfg_rm_dir(p);
    }
  }
  closedir(d);
}

static void cfg_scratch_init(void)
{
  char cwd[400];
  int  i;
  if (getcwd(cwd, sizeof(cwd)) == NULL) {
    strcpy(cwd, ".");
  }
  cfg_scratch_reap(cwd);
  snprintf(cfg_dir, sizeof(cfg_dir), "%s/cfg-%ld", cwd, (long)getpid());
  cfg_rm_dir(cfg_dir);
  if (mkdir(cfg_dir, 0700) != 0) {
    fprintf(stderr, "cannot create scratch dir %s: %s\n", cfg_dir, strerror(errno));
    exit(2);
  }
  for (i = 0; i < CF_N; i++) {
    snprintf(cfg_path[i], sizeof(cfg_path[i]), "%s/%s", cfg_dir, cfg_file_name[i]);
    cfg_written_state[i] = CFG_ABSENT;
  }
  atexit(cfg_scratch_cleanup);
  __sanitizer_set_death_callback(cfg_scratch_cleanup);
}

/* make the scratch directory reflect s and let the wraps serve it */
static void cfg_sys_apply(cfg_sys_t *s)
{
  int i;
  for (i = 0; i < CF_N; i++) {
    cfg_file_t *f = &s->f[i];
    if (f->state == CFG_PRESENT) {
      uint64_t h = vh_fnv(VH_FNV_INIT ^ f->len, f->data, f->len);
      if (cfg_written_state[i] != CFG_PRESENT || cfg_written_hash[i] != h) {
        int fd = open(cfg_path[i], O_WRONLY | O_CREAT | O_TRUNC, 0600);
        if (fd < 0 || write(fd, f->data, f->len) != (ssize_t)f->len) {
          fprintf(stderr, "cannot write %s: %s\n", cfg_path[i], strerror(errno));
          exit(2);
        }
        close(fd);
        cfg_written_hash[i]  = h;
        cfg_written_state[i] = CFG_PRESENT;
      }
    } else if (cfg_written_state[i] == CFG_PRESENT) {
      unlink(cfg_path[i]);
      cfg_written_state[i] = CFG_ABSENT;
    }
  }
  cfg_cur_sys = s;
}

/* which virtual file does path denote; -1 = none of ours */
static int cfg_path_which(const char *path)
{
  int    i;
  size_t dl;
  if (path == NULL) {
    return -1;
  }
  for (i = 0; i < CF_N; i++) {
    if (cfg_etc_path[i] && !strcmp(path, cfg_etc_path[i])) {
      return i;
    }
  }
  dl = strlen(cfg_dir);
  if (dl && !strncmp(path, cfg_dir, dl) && path[dl] == '/') {
    for (i = 0; i < CF_N; i++) {
      if (!strcmp(path + dl + 1, cfg_file_name[i])) {
        return i;
      }
    }
  }
  return -1;
}

FILE *__real_fopen(const char *path, const char *mode);
int   __real_stat(const char *path, struct stat *st);
char *__real_getenv(const char *name);
int   __real_gethostname(char *name, size_t len);

FILE *__wrap_fopen(const char *path, const char *mode)
{
  int w = cfg_path_which(path);
  __atomic_add_fetch(&cfg_n_fopen, 1, __ATOMIC_RELAXED);
  if (w < 0) {
    if (path && !strncmp(path, "/etc/", 5)) {
      /* never read the machine's own configuration */
      errno = ENOENT;
      return NULL;
    }
    return __real_fopen(path, mode);
  }
  if (cfg_etc_path[w]) {
    __atomic_add_fetch(&cfg_n_fopen_etc, 1, __ATOMIC_RELAXED);
  }
  if (cfg_cur_sys == NULL || cfg_cur_sys->f[w].state == CFG_ABSENT) {
    errno = ENOENT;
    return NULL;
  }
  if (cfg_cur_sys->f[w].state == CFG_UNREADABLE) {
    errno = EACCES;
    return NULL;
  }
  return __real_fopen(cfg_path[w], mode);
}

int __wrap_stat(const char *path, struct stat *st)
{
  int w = cfg_path_which(path);
  __atomic_add_fetch(&cfg_n_stat, 1, __ATOMIC_RELAXED);
  if (w < 0) {
    if (path && !strncmp(path, "/etc/", 5)) {
      errno = ENOENT;
      return -1;
    }
    return __real_stat(path, st);
  }
  if (cfg_cur_sys == NULL || cfg_cur_sys->f[w].state == CFG_ABSENT) {
    errno = ENOENT;
    return -1;
  }
  if (cfg_cur_sys->f[w].state == CFG_UNREADABLE) {
    /* stat works on an unreadable file; it exists on disk only when it was written before */
    memset(st, 0, sizeof(*st));
    st->st_mode  = S_IFREG;
    st->st_mtime = 1000000;
    return 0;
  }
  return __real_stat(cfg_path[w], st);
}

char *__wrap_getenv(const char *name)
{
  int i;
  for (i = 0; i < CE_N; i++) {
    if (!strcmp(name, cfg_env_name[i])) {
      __atomic_add_fetch(&cfg_n_getenv, 1, __ATOMIC_RELAXED);
      return cfg_cur_sys ? cfg_cur_sys->env[i] : NULL;
    }
  }
  return __real_getenv(name);
}

int __wrap_gethostname(char *name, size_t len)
{
  const char *h = cfg_cur_sys ? cfg_cur_sys->hostname : "vhost";
  if (len == 0) {
    errno = ENAMETOOLONG;
    return -1;
  }
  strncpy(name, h, len - 1);
  name[len - 1] = 0;
  return 0;
}

/* three virtual interfaces, independent of the machine */
static const char *const cfg_ifaces[] = { NULL, "lo", "eth0", "wlan0" };
#define CFG_NIFACES 3

unsigned int __wrap_if_nametoindex(const char *ifname)
{
  unsigned int i;
  for (i = 1; i <= CFG_NIFACES; i++) {
    if (ifname && !strcmp(ifname, cfg_ifaces[i])) {
      return i;
    }
  }
  errno = ENODEV;
  return 0;
}

char *__wrap_if_indextoname(unsigned int ifindex, char *ifname)
{
  if (ifindex >= 1 && ifindex <= CFG_NIFACES) {
    strcpy(ifname, cfg_ifaces[ifindex]);
    return ifname;
  }
  errno = ENXIO;
  return NULL;
}

/* Interfaces only the application's own socket functions know (ares_set_socket_functions_ex):
 * the operating system (the wraps above) has never heard of them. */
static int cfg_private_ifaces; /* the channel under test has such functions installed */
/* private interfaces, names are case sensitive (as on Linux: enP2p1s0 and enp2p1s0 are different interfaces) */
static const char *const cfg_priv_ifnames[] = { "vpn0", "vpn1", "enP2p1s0", "Br-LAN" };
#define CFG_NPRIV 4
static unsigned int cfg_priv_index(const char *ifname)
{
  unsigned k;
  for (k = 0; ifname != NULL && k < CFG_NPRIV; k++) {
    if (!strcmp(ifname, cfg_priv_ifnames[k])) {
      return 40 + k;
    }
  }
  return 0;
}
static unsigned int cfg_if_index(const char *ifname)
{
  if (cfg_private_ifaces && cfg_priv_index(ifname)) {
    return cfg_priv_index(ifname);
  }
  return __wrap_if_nametoindex(ifname);
}
static unsigned int cfg_app_if_nametoindex(const char *ifname, void *ud)
{
  (void)ud;
  if (cfg_priv_index(ifname)) {
    return cfg_priv_index(ifname);
  }
  return __wrap_if_nametoindex(ifname);
}
static const char *cfg_app_if_indextoname(unsigned int ifindex, char *buf, size_t buflen, void *ud)
{
  (void)ud;
  if (buflen < 16) {
    return NULL;
  }
  if (ifindex >= 40 && ifindex < 40 + CFG_NPRIV) {
    snprintf(buf, buflen, "%s", cfg_priv_ifnames[ifindex - 40]);
    return buf;
  }
  return __wrap_if_indextoname(ifindex, buf);
}
static ares_socket_t cfg_app_socket(int d, int t, int pr, void *ud)
{
  (void)d; (void)t; (void)pr; (void)ud;
  errno = ENOSYS;
  return ARES_SOCKET_BAD;
}
static int cfg_app_close(ares_socket_t s, void *ud)
{
  (void)s; (void)ud;
  return 0;
}
static int cfg_app_connect(ares_socket_t s, const struct sockaddr *a, ares_socklen_t l, unsigned int f, void *ud)
{
  (void)s; (void)a; (void)l; (void)f; (void)ud;
  errno = ENOSYS;
  return -1;
}
static ares_ssize_t cfg_app_recvfrom(ares_socket_t s, void *b, size_t l, int f, struct sockaddr *a, ares_socklen_t *al, void *ud)
{
  (void)s; (void)b; (void)l; (void)f; (void)a; (void)al; (void)ud;
  errno = ENOSYS;
  return -1;
}
static ares_ssize_t cfg_app_sendto(ares_socket_t s, const void *b, size_t l, int f, const struct sockaddr *a, ares_socklen_t al, void *ud)
{
  (void)s; (void)b; (void)l; (void)f; (void)a; (void)al; (void)ud;
  errno = ENOSYS;
  return -1;
}
static int cfg_app_setsockopt(ares_socket_t s, ares_socket_opt_t o, const void *v, ares_socklen_t l, void *ud)
{
  (void)s; (void)o; (void)v; (void)l; (void)ud;
  return 0;
}
/* the classic (pre-1.34) socket function table: no interface lookups at all */
static ares_socket_t cfg_cl_socket(int d, int t, int p, void *u)
{
  (void)d;
  (void)t;
  (void)p;
  (void)u;
  errno = ENETUNREACH;
  return ARES_SOCKET_BAD;
}
static int cfg_cl_close(ares_socket_t s, void *u)
{
  (void)s;
  (void)u;
  return 0;
}
static int cfg_cl_connect(ares_socket_t s, const struct sockaddr *a, ares_socklen_t l, void *u)
{
  (void)s;
  (void)a;
  (void)l;
  (void)u;
  errno = ENETUNREACH;
  return -1;
}
static ares_ssize_t cfg_cl_recvfrom(ares_socket_t s, void *b, size_t l, int f, struct sockaddr *fr, ares_socklen_t *fl, void *u)
{
  (void)s;
  (void)b;
  (void)l;
  (void)f;
  (void)fr;
  (void)fl;
  (void)u;
  errno = EAGAIN;
  return -1;
}
static ares_ssize_t cfg_cl_sendv(ares_socket_t s, const struct iovec *v, int n, void *u)
{
  (void)s;
  (void)v;
  (void)n;
  (void)u;
  errno = ENETUNREACH;
  return -1;
}
static const struct ares_socket_functions cfg_classic_funcs = { cfg_cl_socket, cfg_cl_close, cfg_cl_connect, cfg_cl_recvfrom, cfg_cl_sendv };

/* incomplete=1: a mandatory member is missing, the call must be rejected and change nothing
 * incomplete=2: complete but for the two optional interface lookups     incomplete=3: the classic table */
static int cfg_install_private_ifaces(ares_channel_t *ch, int incomplete)
{
  struct ares_socket_functions_ex sf;
  if (incomplete == 3) {
    ares_set_socket_functions(ch, &cfg_classic_funcs, NULL);
    return ARES_SUCCESS;
  }
  memset(&sf, 0, sizeof(sf));
  sf.version         = 1;
  sf.asocket         = cfg_app_socket;
  sf.asetsockopt     = incomplete == 1 ? NULL : cfg_app_setsockopt;
  sf.aclose          = cfg_app_close;
  sf.aconnect        = cfg_app_connect;
  sf.arecvfrom       = cfg_app_recvfrom;
  sf.asendto         = cfg_app_sendto;
  sf.aif_nametoindex = incomplete == 2 ? NULL : cfg_app_if_nametoindex;
  sf.aif_indextoname = incomplete == 2 ? NULL : cfg_app_if_indextoname;
  return (int)ares_set_socket_functions_ex(ch, &sf, NULL);
}

static uint64_t cfg_n_socket;
int             __wrap_socket(int domain, int type, int protocol)
{
  (void)domain;
  (void)type;
  (void)protocol;
  __atomic_add_fetch(&cfg_n_socket, 1, __ATOMIC_RELAXED);
  errno = ENETUNREACH;
  return -1;
}

/* fixed virtual clock */
void __wrap_ares_tvnow(ares_timeval_t *now)
{
  now->sec  = 1000000;
  now->usec = 0;
}

/* ------------------------------------------------------------------ allocator ledger */
#define CFG_NFRAMES 14
typedef struct {
  void    *ptr; /* NULL = empty, (void*)1 = tombstone */
  size_t   size;
  uint64_t seq;
  void    *pc[CFG_NFRAMES];
} cfg_blk_t;

static cfg_blk_t      *cfg_led      = NULL;
static size_t          cfg_led_cap  = 0;
static size_t          cfg_led_used = 0; /* incl. tombstones */
static size_t          cfg_led_live = 0;
static size_t          cfg_led_bytes = 0;
static uint64_t        cfg_led_seq  = 0;
static uint64_t        cfg_led_allocs = 0;
static int             cfg_led_badfree = 0;
static char            cfg_led_badfree_where[128];
static pthread_mutex_t cfg_led_mu = PTHREAD_MUTEX_INITIALIZER;

static size_t cfg_led_slot(const void *p, size_t cap)
{
  return (size_t)(((uintptr_t)p >> 4) * 0x9e3779b97f4a7c15ULL >> 24) & (cap - 1);
}

static void cfg_led_grow(void)
{
  size_t     ncap = cfg_led_cap ? cfg_led_cap * 2 : 4096;
  cfg_blk_t *nt;
  size_t     i;
  /* rebuild without tombstones; grow only when really full */
  if (cfg_led_cap && cfg_led_live * 4 < cfg_led_cap) {
    ncap = cfg_led_cap;
  }
  nt = (cfg_blk_t *)calloc(ncap, sizeof(*nt));
  for (i = 0; i < cfg_led_cap; i++) {
    if (cfg_led[i].ptr > (void *)1) {
      size_t j = cfg_led_slot(cfg_led[i].ptr, ncap);
      while (nt[j].ptr) {
        j = (j + 1) & (ncap - 1);
      }
      nt[j] = cfg_led[i];
    }
  }
  free(cfg_led);
  cfg_led      = nt;
  cfg_led_cap  = ncap;
  cfg_led_used = cfg_led_live;
}

/* record the chain of return addresses by walking frame pointers (everything here is built
 * with -fno-omit-frame-pointer) */
static __thread uintptr_t cfg_stk_lo, cfg_stk_hi;

static void cfg_stack_bounds(void)
{
  pthread_attr_t at;
  void          *addr = NULL;
  size_t         sz   = 0;
  cfg_stk_lo = cfg_stk_hi = 1;
  if (pthread_getattr_np(pthread_self(), &at) == 0) {
    if (pthread_attr_getstack(&at, &addr, &sz) == 0 && addr != NULL) {
      cfg_stk_lo = (uintptr_t)addr;
      cfg_stk_hi = (uintptr_t)addr + sz;
    }
    pthread_attr_destroy(&at);
  }
}

static inline void cfg_capture(void **pc)
{
  void    **fp = (void **)__builtin_frame_address(0);
  int       n  = 0;
  if (cfg_stk_hi == 0) {
    cfg_stack_bounds();
  }
  while (n < CFG_NFRAMES) {
    void **next;
    if ((uintptr_t)fp < cfg_stk_lo || (uintptr_t)fp + 16 > cfg_stk_hi || ((uintptr_t)fp & 7) != 0) {
      break;
    }
    pc[n++] = fp[1];
    next    = (void **)fp[0];
    if ((uintptr_t)next <= (uintptr_t)fp) {
      break;
    }
    fp = next;
  }
  while (n < CFG_NFRAMES) {
    pc[n++] = NULL;
  }
}

static void cfg_led_add(void *p, size_t size)
{
  size_t j;
  if ((cfg_led_used + 1) * 2 > cfg_led_cap) {
    cfg_led_grow();
  }
  j = cfg_led_slot(p, cfg_led_cap);
  while (cfg_led[j].ptr > (void *)1) {
    j = (j + 1) & (cfg_led_cap - 1);
  }
  if (cfg_led[j].ptr == NULL) {
    cfg_led_used++;
  }
  cfg_led[j].ptr  = p;
  cfg_led[j].size = size;
  cfg_led[j].seq  = ++cfg_led_seq;
  cfg_capture(cfg_led[j].pc);
  cfg_led_live++;
  cfg_led_bytes += size;
  cfg_led_allocs++;
}

static int cfg_led_del(void *p)
{
  size_t j;
  if (cfg_led_cap == 0) {
    return 0;
  }
  j = cfg_led_slot(p, cfg_led_cap);
  while (cfg_led[j].ptr) {
    if (cfg_led[j].ptr == p) {
      cfg_led[j].ptr = (void *)1;
      cfg_led_live--;
      cfg_led_bytes -= cfg_led[j].size;
      return 1;
    }
    j = (j + 1) & (cfg_led_cap - 1);
  }
  return 0;
}

int __sanitizer_symbolize_pc(void *pc, const char *fmt, char *out, size_t out_size);

static int cfg_is_utility_frame(const char *fn, const char *file)
{
  static const char *const wrappers[] = { "ares_malloc",       "ares_malloc_zero", "ares_realloc",
                                          "ares_realloc_zero", "ares_strdup",      "ares_free",
                                          "ares_malloc_data",  NULL };
  int                      i;
  if (strstr(file, "/str/") || strstr(file, "/dsa/") || strstr(file, "/util/") ||
      strstr(file, "/harness/")) {
    return 1;
  }
  for (i = 0; wrappers[i]; i++) {
    if (!strcmp(fn, wrappers[i])) {
      return 1;
    }
  }
  return 0;
}

/* "f1<f2": the two innermost frames of the chain that are c-ares logic rather than generic
 * containers/strings/allocator wrappers; full chain goes to `full` */
static void cfg_site(void *const *pc, char *site, size_t site_len, char *full, size_t full_len)
{
  int    i, nsite = 0;
  size_t fl = 0;
  site[0]   = 0;
  if (full_len) {
    full[0] = 0;
  }
  for (i = 0; i < CFG_NFRAMES && pc[i]; i++) {
    char  buf[512];
    char *bar;
    buf[0] = 0;
    __sanitizer_symbolize_pc((char *)pc[i] - 1, "%f|%s", buf, sizeof(buf));
    bar = strchr(buf, '|');
    if (bar == NULL) {
      continue;
    }
    *bar = 0;
    if (!strcmp(buf, "main") || strstr(bar + 1, "/harness/")) {
      if (fl > 0) {
        break; /* back in the harness: the chain inside the library is complete */
      }
      continue;
    }
    if (full_len && fl + strlen(buf) + 2 < full_len) {
      fl += (size_t)snprintf(full + fl, full_len - fl, "%s%s", fl ? "<" : "", buf);
    }
    if (nsite < 2 && !cfg_is_utility_frame(buf, bar + 1)) {
      size_t sl = strlen(site);
      snprintf(site + sl, site_len - sl, "%s%s", nsite ? "<" : "", buf);
      nsite++;
    }
  }
  if (site[0] == 0) {
    snprintf(site, site_len, "?");
  }
}

/* Gate: holds every thread other than the main one at its next allocation until the main thread opens it.  Used to
 * place an application call inside the window in which the reload thread reads the system configuration. */
static volatile int cfg_gate_closed;
static volatile int cfg_gate_waiters;
static pthread_t    cfg_gate_main;
static void         cfg_gate_wait(void)
{
  if (cfg_gate_closed && !pthread_equal(pthread_self(), cfg_gate_main)) {
    int spins = 0;
    __atomic_add_fetch(&cfg_gate_waiters, 1, __ATOMIC_SEQ_CST);
    while (__atomic_load_n(&cfg_gate_closed, __ATOMIC_SEQ_CST) && spins++ < 40000) {
      usleep(100);
    }
    __atomic_sub_fetch(&cfg_gate_waiters, 1, __ATOMIC_SEQ_CST);
  }
}

static void *cfg_malloc(size_t size)
{
  void *p;
  cfg_gate_wait();
  p = malloc(size ? size : 1);
  if (p) {
    pthread_mutex_lock(&cfg_led_mu);
    cfg_led_add(p, size);
    pthread_mutex_unlock(&cfg_led_mu);
  }
  return p;
}

static void cfg_free(void *p)
{
  int ok;
  if (p == NULL) {
    return;
  }
  pthread_mutex_lock(&cfg_led_mu);
  ok = cfg_led_del(p);
  if (!ok) {
    void *pc[CFG_NFRAMES];
    char  full[8];
    cfg_led_badfree++;
    cfg_capture(pc);
    cfg_site(pc, cfg_led_badfree_where, sizeof(cfg_led_badfree_where), full, 0);
  }
  pthread_mutex_unlock(&cfg_led_mu);
  if (ok) {
    free(p);
  }
  /* an unknown block is not handed to free(): the ledger violation is the report */
}

static void *cfg_realloc(void *p, size_t size)
{
  void *n;
  if (p == NULL) {
    return cfg_malloc(size);
  }
  pthread_mutex_lock(&cfg_led_mu);
  if (!cfg_led_del(p)) {
    void *pc[CFG_NFRAMES];
    char  full[8];
    cfg_led_badfree++;
    cfg_capture(pc);
    cfg_site(pc, cfg_led_badfree_where, sizeof(cfg_led_badfree_where), full, 0);
    pthread_mutex_unlock(&cfg_led_mu);
    return NULL;
  }
  n = realloc(p, size ? size : 1);
  if (n == NULL) {
    cfg_led_add(p, 0);
  } else {
    cfg_led_add(n, size);
  }
  pthread_mutex_unlock(&cfg_led_mu);
  return n;
}

/* Report everything still live (leaks) and every bad free since the last call; leaked blocks
 * are released afterwards so that one leak is reported once, by the case that caused it.
 * Returns number of violations emitted. */
static int cfg_ledger_check(const char *prop_prefix, const char *phase, const char *witness)
{
  int    nv = 0;
  size_t i;
  pthread_mutex_lock(&cfg_led_mu);
  if (cfg_led_badfree) {
    char key[256];
    snprintf(key, sizeof(key), "%s:ledger:free-of-unknown-block:%s", prop_prefix,
             cfg_led_badfree_where);
    vh_violation(key, "%d free/realloc of a block the ledger does not hold (%s) | %s",
                 cfg_led_badfree, phase, witness);
    cfg_led_badfree = 0;
    nv++;
  }
  if (cfg_led_live) {
    /* group by site */
    char   seen[8][160];
    int    nseen = 0;
    size_t nblk = cfg_led_live, nbytes = cfg_led_bytes;
    for (i = 0; i < cfg_led_cap; i++) {
      if (cfg_led[i].ptr > (void *)1) {
        char site[160], full[1024], key[256];
        int  k, dup = 0;
        cfg_site(cfg_led[i].pc, site, sizeof(site), full, sizeof(full));
        for (k = 0; k < nseen; k++) {
          if (!strcmp(seen[k], site)) {
            dup = 1;
          }
        }
        if (!dup && nseen < 8) {
          strcpy(seen[nseen++], site);
          snprintf(key, sizeof(key), "%s:leak:%s", prop_prefix, site);
          vh_violation(key, "%zu blocks / %zu bytes still allocated %s; first: %zu bytes from %s | %s",
                       nblk, nbytes, phase, cfg_led[i].size, full, witness);
          nv++;
        }
        free(cfg_led[i].ptr);
        cfg_led[i].ptr = (void *)1;
      }
    }
    cfg_led_live  = 0;
    cfg_led_bytes = 0;
  }
  pthread_mutex_unlock(&cfg_led_mu);
  return nv;
}

#endif
