/* cfg_core.h - shared pieces of the profiles: library begin/end with the ledger, witnesses,
 * awaited reinit, option-struct generator, server-set generator, range oracle, lookups. */
#ifndef CFG_CORE_H
#define CFG_CORE_H

static const char *cfg_prop = "cfg15"; /* key prefix of the running profile */

/* per-case fingerprint material and non-triviality */
static uint64_t cfg_case_fp;
static int      cfg_case_nontrivial;

#define CNT(name) vh_count(name)

static void cfg_lib_begin(void)
{
  int rc = ares_library_init_mem(ARES_LIB_INIT_ALL, cfg_malloc, cfg_free, cfg_realloc);
  if (rc != ARES_SUCCESS) {
    fprintf(stderr, "ares_library_init_mem failed %d\n", rc);
    exit(2);
  }
}

/* short printable rendering of the whole virtual environment */
static char *cfg_witness(const cfg_sys_t *s)
{
  vh_sb_t sb = { 0 };
  int     i;
  size_t  budget = 1100;
  int     nfiles = 0;
  for (i = 0; i < CF_N; i++) {
    if (s->f[i].state != CFG_ABSENT) {
      nfiles++;
    }
  }
  for (i = 0; i < CF_N; i++) {
    if (s->f[i].state == CFG_PRESENT) {
      vh_sb_printf(&sb, "%s=\"", cfg_file_name[i]);
      cfg_esc(&sb, s->f[i].data, s->f[i].len, budget / (size_t)(nfiles ? nfiles : 1));
      vh_sb_printf(&sb, "\" ");
    } else if (s->f[i].state == CFG_UNREADABLE) {
      vh_sb_printf(&sb, "%s=<EACCES> ", cfg_file_name[i]);
    }
  }
  for (i = 0; i < CE_N; i++) {
    if (s->env[i]) {
      vh_sb_printf(&sb, "$%s=\"", cfg_env_name[i]);
      cfg_esc(&sb, s->env[i], strlen(s->env[i]), 160);
      vh_sb_printf(&sb, "\" ");
    }
  }
  if (strcmp(s->hostname, "vhost") != 0) {
    vh_sb_printf(&sb, "hostname=%s", s->hostname);
  }
  return cfg_sb_take(&sb);
}

static void cfg_lib_end(const char *phase, const cfg_sys_t *sys)
{
  ares_library_cleanup();
  if (cfg_led_live || cfg_led_badfree) {
    char *w = sys ? cfg_witness(sys) : strdup("");
    cfg_ledger_check("cfg15", phase, w);
    free(w);
    CNT("ledger_violations");
  }
  CNT("ledger_checks");
}

/* ares_reinit() spawns a thread when the library is thread safe.  It is awaited before anything
 * else happens: usually by joining it the way the next ares_reinit()/ares_destroy() would
 * (ares_thread_join + clearing channel->reinit_thread), every eighth time by polling
 * reinit_pending under the channel lock (bounded), which leaves the join to ares_destroy(). */
static unsigned cfg_reinit_counter;
static int      cfg_reinit_await(ares_channel_t *ch)
{
  int rc = (int)ares_reinit(ch);
  int i;
  CNT("reinit_awaited");
  if ((cfg_reinit_counter++ & 7) != 7 && ch->reinit_thread != NULL) {
    void *rv = NULL;
    ares_thread_join(ch->reinit_thread, &rv);
    ch->reinit_thread = NULL;
    ares_channel_lock(ch);
    if (ch->reinit_pending) {
      vh_violation("cfg16:reinit:never-finished", "reinit thread exited with reinit_pending set");
    }
    ares_channel_unlock(ch);
    return rc;
  }
  for (i = 0; i < 100000; i++) {
    ares_bool_t pending;
    ares_channel_lock(ch);
    pending = ch->reinit_pending;
    ares_channel_unlock(ch);
    if (!pending) {
      return rc;
    }
    usleep(100);
  }
  vh_violation("cfg16:reinit:never-finished", "reinit_pending still set after bounded wait");
  return rc;
}

/* ------------------------------------------------------------------ user options */
#define U_MAXSRV 6
#define U_MAXDOM 5
typedef struct {
  int                 use_null; /* pass options == NULL, optmask 0 */
  struct ares_options o;
  int                 mask;     /* as passed */
  int                 eff_mask; /* bits that carry an explicit (non "use default") value */
  struct in_addr      servers[U_MAXSRV];
  char               *domains[U_MAXDOM];
  char                dombuf[U_MAXDOM][80];
  char                lookups[8];
  struct apattern     sortlist[4];
  char                resolv_path[700];
  char                hosts_path[700];
  unsigned int        expect_timeout_ms;
} cfg_uopts_t;

#define U_ALLOW_NODFLT   1
#define U_ALLOW_PATHS    2
#define U_ALLOW_BADLOOK  4 /* lookups strings outside {b,f} (robustness only) */

static void gen_uopts(vh_rng_t *r, cfg_uopts_t *u, int density_num, int density_den, int allow)
{
  static const int flagbits[] = { ARES_FLAG_USEVC,     ARES_FLAG_PRIMARY,     ARES_FLAG_IGNTC,
                                  ARES_FLAG_NORECURSE, ARES_FLAG_STAYOPEN,    ARES_FLAG_NOSEARCH,
                                  ARES_FLAG_NOALIASES, ARES_FLAG_NOCHECKRESP, ARES_FLAG_EDNS,
                                  ARES_FLAG_DNS0x20 };
  int              i;
#define WANT() vh_chance(r, density_num, density_den)
  memset(u, 0, sizeof(*u));
  if (density_num == 0) {
    u->use_null = vh_chance(r, 1, 2);
    return;
  }
  if (WANT()) {
    int f = 0;
    for (i = 0; i < (int)(sizeof(flagbits) / sizeof(flagbits[0])); i++) {
      if (vh_chance(r, 1, 4)) {
        f |= flagbits[i];
      }
    }
    if ((allow & U_ALLOW_NODFLT) && vh_chance(r, 1, 10)) {
      f |= ARES_FLAG_NO_DFLT_SVR;
    }
    u->o.flags = f;
    u->mask |= ARES_OPT_FLAGS;
    u->eff_mask |= ARES_OPT_FLAGS;
  }
  if (WANT()) {
    static const int tv[] = { -1, 0, 1, 2, 5, 250, 2000, 10000, 2147483 };
    int              ms   = vh_chance(r, 2, 3);
    int              v    = vh_chance(r, 1, 2) ? PICK(r, tv) : vh_range(r, 1, ms ? 20000 : 60);
    u->o.timeout          = v;
    u->mask |= ms ? ARES_OPT_TIMEOUTMS : ARES_OPT_TIMEOUT;
    if (vh_chance(r, 1, 20)) {
      u->mask |= ARES_OPT_TIMEOUTMS | ARES_OPT_TIMEOUT; /* both: TIMEOUTMS interpretation wins */
      ms = 1;
    }
    if (v > 0) {
      u->eff_mask |= ARES_OPT_TIMEOUTMS;
      u->expect_timeout_ms = ms ? (unsigned)v : (unsigned)v * 1000u;
    }
  }
  if (WANT()) {
    static const int tv[] = { -1, 0, 1, 2, 3, 10, 70 };
    u->o.tries            = PICK(r, tv);
    u->mask |= ARES_OPT_TRIES;
    if (u->o.tries > 0) {
      u->eff_mask |= ARES_OPT_TRIES;
    }
  }
  if (WANT()) {
    u->o.ndots = vh_range(r, -1, 15);
    u->mask |= ARES_OPT_NDOTS;
    if (u->o.ndots >= 0) {
      u->eff_mask |= ARES_OPT_NDOTS;
    }
  }
  if (WANT()) {
    static const int tv[] = { -1, 0, 1, 500, 10000, 60000 };
    u->o.maxtimeout       = PICK(r, tv);
    u->mask |= ARES_OPT_MAXTIMEOUTMS;
    if (u->o.maxtimeout > 0) {
      u->eff_mask |= ARES_OPT_MAXTIMEOUTMS;
    }
  }
  if (WANT()) {
    int b = vh_chance(r, 1, 2) ? ARES_OPT_ROTATE : ARES_OPT_NOROTATE;
    u->mask |= b;
    u->eff_mask |= b;
  }
  if (WANT()) {
    static const int pv[] = { 0, 53, 54, 5353, 65535, 1 };
    u->o.udp_port         = (unsigned short)PICK(r, pv);
    u->mask |= ARES_OPT_UDP_PORT;
    u->eff_mask |= ARES_OPT_UDP_PORT;
  }
  if (WANT()) {
    static const int pv[] = { 0, 53, 54, 5353, 65535, 1 };
    u->o.tcp_port         = (unsigned short)PICK(r, pv);
    u->mask |= ARES_OPT_TCP_PORT;
    u->eff_mask |= ARES_OPT_TCP_PORT;
  }
  if (WANT()) {
    static const int bv[]        = { -1, 0, 1, 514, 65536, 1 << 20 };
    u->o.socket_send_buffer_size = PICK(r, bv);
    u->mask |= ARES_OPT_SOCK_SNDBUF;
    if (u->o.socket_send_buffer_size > 0) {
      u->eff_mask |= ARES_OPT_SOCK_SNDBUF;
    }
  }
  if (WANT()) {
    static const int bv[]           = { -1, 0, 1, 514, 65536, 1 << 20 };
    u->o.socket_receive_buffer_size = PICK(r, bv);
    u->mask |= ARES_OPT_SOCK_RCVBUF;
    if (u->o.socket_receive_buffer_size > 0) {
      u->eff_mask |= ARES_OPT_SOCK_RCVBUF;
    }
  }
  if (WANT()) {
    static const int ev[] = { -1, 0, 512, 1232, 1280, 4096, 65535 };
    u->o.ednspsz          = PICK(r, ev);
    u->mask |= ARES_OPT_EDNSPSZ;
    if (u->o.ednspsz > 0) {
      u->eff_mask |= ARES_OPT_EDNSPSZ;
    }
  }
  if (WANT()) {
    int n = vh_chance(r, 1, 6) ? 0 : vh_range(r, 1, 4);
    if (vh_chance(r, 1, 12)) {
      n = -1;
    }
    for (i = 0; i < n && i < U_MAXSRV; i++) {
      char ip[80];
      gen_ipv4(r, ip);
      if (i > 0 && vh_chance(r, 1, 6)) {
        u->servers[i] = u->servers[0]; /* duplicate */
      } else {
        ares_inet_pton(AF_INET, ip, &u->servers[i]);
      }
    }
    u->o.servers  = u->servers;
    u->o.nservers = n;
    u->mask |= ARES_OPT_SERVERS;
    if (n > 0) {
      u->eff_mask |= ARES_OPT_SERVERS;
    }
  }
  if (WANT()) {
    int n = vh_chance(r, 1, 6) ? 0 : vh_range(r, 1, U_MAXDOM - 1);
    for (i = 0; i < n; i++) {
      snprintf(u->dombuf[i], sizeof(u->dombuf[i]), "%s", gen_domain(r));
      u->domains[i] = u->dombuf[i];
    }
    u->o.domains  = u->domains;
    u->o.ndomains = n;
    u->mask |= ARES_OPT_DOMAINS;
    u->eff_mask |= ARES_OPT_DOMAINS;
  }
  if (WANT()) {
    static const char *const lv[]  = { "b", "f", "bf", "fb" };
    static const char *const bad[] = { "", "x", "bfb", "ffff", "B", "b f" };
    if (vh_chance(r, 1, 10)) {
      u->o.lookups = NULL;
    } else {
      if ((allow & U_ALLOW_BADLOOK) && vh_chance(r, 1, 5)) {
        strcpy(u->lookups, PICK(r, bad));
      } else {
        strcpy(u->lookups, PICK(r, lv));
      }
      u->o.lookups = u->lookups;
      u->eff_mask |= ARES_OPT_LOOKUPS;
    }
    u->mask |= ARES_OPT_LOOKUPS;
  }
  if (WANT()) {
    /* struct apattern is opaque to applications: this stands for a list obtained from
     * ares_save_options() earlier; nsort == 0 is the explicit empty list */
    int n = vh_chance(r, 1, 3) ? 0 : vh_range(r, 1, 3);
    for (i = 0; i < n; i++) {
      memset(&u->sortlist[i], 0, sizeof(u->sortlist[i]));
      if (vh_chance(r, 2, 3)) {
        char ip[80];
        gen_ipv4(r, ip);
        u->sortlist[i].addr.family = AF_INET;
        ares_inet_pton(AF_INET, ip, &u->sortlist[i].addr.addr.addr4);
        u->sortlist[i].mask = (unsigned char)vh_range(r, 0, 32);
      } else {
        char ip[80];
        gen_ipv6(r, ip);
        u->sortlist[i].addr.family = AF_INET6;
        ares_inet_pton(AF_INET6, ip, &u->sortlist[i].addr.addr.addr6);
        u->sortlist[i].mask = (unsigned char)vh_range(r, 0, 128);
      }
    }
    u->o.sortlist = u->sortlist;
    u->o.nsort    = n;
    u->mask |= ARES_OPT_SORTLIST;
    u->eff_mask |= ARES_OPT_SORTLIST;
  }
  if ((allow & U_ALLOW_PATHS) && WANT()) {
    if (vh_chance(r, 1, 8)) {
      u->o.resolvconf_path = NULL;
    } else {
      snprintf(u->resolv_path, sizeof(u->resolv_path), "%s", cfg_path[CF_RESOLV_ALT]);
      u->o.resolvconf_path = u->resolv_path;
      u->eff_mask |= ARES_OPT_RESOLVCONF;
    }
    u->mask |= ARES_OPT_RESOLVCONF;
  }
  if ((allow & U_ALLOW_PATHS) && WANT()) {
    if (vh_chance(r, 1, 8)) {
      u->o.hosts_path = NULL;
    } else {
      snprintf(u->hosts_path, sizeof(u->hosts_path), "%s", cfg_path[CF_HOSTS_ALT]);
      u->o.hosts_path = u->hosts_path;
      u->eff_mask |= ARES_OPT_HOSTS_FILE;
    }
    u->mask |= ARES_OPT_HOSTS_FILE;
  }
  if (WANT()) {
    static const int qv[] = { -1, 0, 1, 100, 65535 };
    u->o.udp_max_queries  = PICK(r, qv);
    u->mask |= ARES_OPT_UDP_MAX_QUERIES;
    if (u->o.udp_max_queries > 0) {
      u->eff_mask |= ARES_OPT_UDP_MAX_QUERIES;
    }
  }
  if (WANT()) {
    static const unsigned qv[] = { 0, 1, 300, 3600, 86400, 4294967295u };
    u->o.qcache_max_ttl        = PICK(r, qv);
    u->mask |= ARES_OPT_QUERY_CACHE;
    u->eff_mask |= ARES_OPT_QUERY_CACHE;
  }
  if (WANT()) {
    u->o.server_failover_opts.retry_chance = (unsigned short)vh_range(r, 0, 100);
    u->o.server_failover_opts.retry_delay  = (size_t)vh_range(r, 0, 10000);
    u->mask |= ARES_OPT_SERVER_FAILOVER;
    u->eff_mask |= ARES_OPT_SERVER_FAILOVER;
  }
  if (WANT()) {
    u->o.sock_state_cb      = cfg_dummy_sock_state_cb;
    u->o.sock_state_cb_data = vh_chance(r, 1, 2) ? (void *)u : NULL;
    u->mask |= ARES_OPT_SOCK_STATE_CB;
    u->eff_mask |= ARES_OPT_SOCK_STATE_CB;
  }
#undef WANT
}

static int cfg_init(ares_channel_t **ch, cfg_uopts_t *u)
{
  *ch = NULL;
  CNT("init_calls");
  if (u == NULL || u->use_null) {
    return ares_init_options(ch, NULL, 0);
  }
  return ares_init_options(ch, &u->o, u->mask);
}

static char *render_uopts(const cfg_uopts_t *u)
{
  vh_sb_t sb = { 0 };
  if (u->use_null) {
    vh_sb_printf(&sb, "opts=NULL");
    return cfg_sb_take(&sb);
  }
  vh_sb_printf(&sb, "mask=0x%x", (unsigned)u->mask);
  if (u->mask & ARES_OPT_FLAGS) {
    vh_sb_printf(&sb, " flags=0x%x", (unsigned)u->o.flags);
  }
  if (u->mask & (ARES_OPT_TIMEOUT | ARES_OPT_TIMEOUTMS)) {
    vh_sb_printf(&sb, " timeout=%d", u->o.timeout);
  }
  if (u->mask & ARES_OPT_TRIES) {
    vh_sb_printf(&sb, " tries=%d", u->o.tries);
  }
  if (u->mask & ARES_OPT_NDOTS) {
    vh_sb_printf(&sb, " ndots=%d", u->o.ndots);
  }
  if (u->mask & ARES_OPT_SERVERS) {
    vh_sb_printf(&sb, " nservers=%d", u->o.nservers);
  }
  if (u->mask & ARES_OPT_DOMAINS) {
    vh_sb_printf(&sb, " ndomains=%d", u->o.ndomains);
  }
  if (u->mask & ARES_OPT_LOOKUPS) {
    vh_sb_printf(&sb, " lookups=%s", u->o.lookups ? u->o.lookups : "NULL");
  }
  if (u->mask & ARES_OPT_SORTLIST) {
    vh_sb_printf(&sb, " nsort=%d", u->o.nsort);
  }
  if (u->mask & ARES_OPT_UDP_PORT) {
    vh_sb_printf(&sb, " udp_port=%u", (unsigned)u->o.udp_port);
  }
  if (u->mask & ARES_OPT_TCP_PORT) {
    vh_sb_printf(&sb, " tcp_port=%u", (unsigned)u->o.tcp_port);
  }
  return cfg_sb_take(&sb);
}

/* ------------------------------------------------------------------ server sets */
typedef struct {
  int            family;
  unsigned char  addr[16];
  int            udp_port, tcp_port; /* 0 = default */
  char           iface[16];          /* link-local only */
  char           text[80];           /* address text */
} cfg_srv_t;

#define SC_V4   1
#define SC_V6   2
#define SC_LL   4
#define SC_PEQ  8  /* explicit equal ports */
#define SC_PDIF 16 /* differing udp/tcp ports */
#define SC_PDEF 32 /* default ports */

static int gen_server_set(vh_rng_t *r, cfg_srv_t *s, int max, int allow_ll, unsigned *cls)
{
  int n = vh_range(r, 1, max), i;
  for (i = 0; i < n; i++) {
    int k = (int)vh_below(r, allow_ll ? 5 : 4);
    memset(&s[i], 0, sizeof(s[i]));
    if (i > 0 && vh_chance(r, 1, 8)) {
      s[i] = s[vh_below(r, (uint32_t)i)]; /* same address again, maybe other ports */
    } else if (k < 2) {
      gen_ipv4(r, s[i].text);
      s[i].family = AF_INET;
      ares_inet_pton(AF_INET, s[i].text, s[i].addr);
      *cls |= SC_V4;
    } else if (k < 4) {
      do {
        gen_ipv6(r, s[i].text);
      } while (strchr(s[i].text, '.') != NULL); /* keep textual forms canonical-izable */
      s[i].family = AF_INET6;
      ares_inet_pton(AF_INET6, s[i].text, s[i].addr);
      *cls |= SC_V6;
    } else {
      static const char *const ifs[]  = { "lo", "eth0", "wlan0" };
      static const char *const pifs[] = { "vpn0", "vpn1", "enP2p1s0", "Br-LAN" };
      gen_ipv6_ll(r, s[i].text);
      s[i].family = AF_INET6;
      ares_inet_pton(AF_INET6, s[i].text, s[i].addr);
      if (cfg_private_ifaces && vh_chance(r, 1, 2)) {
        strcpy(s[i].iface, PICK(r, pifs));
      } else {
        strcpy(s[i].iface, PICK(r, ifs));
      }
      *cls |= SC_LL;
    }
    switch (vh_below(r, 4)) {
      case 0:
      case 1:
        s[i].udp_port = s[i].tcp_port = 0;
        *cls |= SC_PDEF;
        break;
      case 2:
        s[i].udp_port = s[i].tcp_port = gen_port(r);
        *cls |= SC_PEQ;
        break;
      default:
        s[i].udp_port = gen_port(r);
        s[i].tcp_port = vh_chance(r, 1, 4) ? 0 : gen_port(r);
        *cls |= SC_PDIF;
        break;
    }
  }
  return n;
}

/* textual form accepted by ares_set_servers_csv() */
static void srv_to_csv(vh_rng_t *r, const cfg_srv_t *s, int n, cfg_bb_t *out)
{
  int i;
  cfg_bb_add(out, "", 0);
  for (i = 0; i < n; i++) {
    if (i) {
      cfg_bb_str(out, vh_chance(r, 5, 6) ? "," : " , ");
    }
    if (s[i].udp_port != s[i].tcp_port || vh_chance(r, 1, 6)) {
      /* URI form */
      cfg_bb_str(out, "dns://");
      if (s[i].family == AF_INET6) {
        /* the zone is written with a bare '%' as in ares_set_servers_csv.3
         * ("dns://[fe80::b542:84df:1719:65e3%en0]") and as ares_get_servers_csv() renders it */
        cfg_bb_printf(out, "[%s%s%s]", s[i].text, s[i].iface[0] ? "%" : "", s[i].iface);
      } else {
        cfg_bb_str(out, s[i].text);
      }
      if (s[i].udp_port) {
        cfg_bb_printf(out, ":%d", s[i].udp_port);
      }
      if (s[i].tcp_port != s[i].udp_port && s[i].tcp_port) {
        cfg_bb_printf(out, "?tcpport=%d", s[i].tcp_port);
      }
    } else if (s[i].family == AF_INET) {
      if (s[i].udp_port) {
        cfg_bb_printf(out, vh_chance(r, 1, 2) ? "%s:%d" : "[%s]:%d", s[i].text, s[i].udp_port);
      } else {
        cfg_bb_str(out, s[i].text);
      }
    } else {
      if (s[i].udp_port) {
        cfg_bb_printf(out, "[%s]:%d", s[i].text, s[i].udp_port);
      } else if (vh_chance(r, 1, 2)) {
        cfg_bb_printf(out, "[%s]", s[i].text);
      } else {
        cfg_bb_str(out, s[i].text);
      }
      if (s[i].iface[0]) {
        cfg_bb_printf(out, "%%%s", s[i].iface);
      }
    }
  }
}

/* 0 csv, 1 ports_csv, 2 ares_set_servers_ports, 3 ares_set_servers */
static int apply_server_set(vh_rng_t *r, ares_channel_t *ch, const cfg_srv_t *s, int n, int how,
                            char **text_out)
{
  int rc, i;
  if (text_out) {
    *text_out = NULL;
  }
  if (how <= 1) {
    cfg_bb_t bb = { 0 };
    srv_to_csv(r, s, n, &bb);
    rc = how == 0 ? ares_set_servers_csv(ch, bb.b) : ares_set_servers_ports_csv(ch, bb.b);
    if (text_out) {
      *text_out = bb.b;
    } else {
      cfg_bb_free(&bb);
    }
    CNT(how == 0 ? "set_servers_csv" : "set_servers_ports_csv");
    return rc;
  }
  if (how == 2) {
    struct ares_addr_port_node nodes[U_MAXSRV + 2];
    memset(nodes, 0, sizeof(nodes));
    for (i = 0; i < n; i++) {
      nodes[i].family   = s[i].family;
      nodes[i].udp_port = s[i].udp_port;
      nodes[i].tcp_port = s[i].tcp_port;
      memcpy(&nodes[i].addr, s[i].addr, 16);
      nodes[i].next = i + 1 < n ? &nodes[i + 1] : NULL;
    }
    CNT("set_servers_ports");
    return ares_set_servers_ports(ch, n ? nodes : NULL);
  } else {
    struct ares_addr_node nodes[U_MAXSRV + 2];
    memset(nodes, 0, sizeof(nodes));
    for (i = 0; i < n; i++) {
      nodes[i].family = s[i].family;
      memcpy(&nodes[i].addr, s[i].addr, 16);
      nodes[i].next = i + 1 < n ? &nodes[i + 1] : NULL;
    }
    CNT("set_servers");
    return ares_set_servers(ch, n ? nodes : NULL);
  }
}

/* ------------------------------------------------------------------ range oracle (C15) */
static int cfg_is_ll(const struct ares_addr *a)
{
  const unsigned char *p = (const unsigned char *)&a->addr.addr6;
  return a->family == AF_INET6 && p[0] == 0xfe && (p[1] & 0xc0) == 0x80;
}

/* documented ranges of a configuration produced by initialisation from text:
 *   >=1 server on success (ares_init_options.3: ARES_ENOSERVER / ARES_FLAG_NO_DFLT_SVR, the
 *   default 127.0.0.1 otherwise); timeout, tries > 0 (init_by_defaults); ndots 0..15
 *   (ares_init_options.3 "Valid range is 0-15") when it came from text; lookups over {b,f}
 *   without duplicates when it came from text (config_lookup); sortlist families/masks
 *   (ares_subnet_match: <=32 / <=128); server ports 1..65535 and known families; link-local
 *   servers carry an interface with non-zero scope, others none (ares_sconfig_append);
 *   no fec0::/10 server (ares_server_blacklisted, asserted by ContainerBlacklistedIpv6);
 *   domains are non-empty strings. */
static void cfg_range_oracle(ares_channel_t *ch, const char *stage, const cfg_sys_t *sys,
                             int servers_may_be_empty)
{
  char               key[160];
  char              *w = NULL;
  ares_slist_node_t *node;
  size_t             i;
#define RV(rule, ...)                                                    \
  do {                                                                   \
    if (w == NULL) {                                                     \
      w = cfg_witness(sys);                                              \
    }                                                                    \
    snprintf(key, sizeof(key), "cfg15:range:%s", rule);                  \
    {                                                                    \
      char msg[400];                                                     \
      snprintf(msg, sizeof(msg), __VA_ARGS__);                           \
      vh_violation(key, "%s (%s) | %s", msg, stage, w);                  \
    }                                                                    \
  } while (0)

  CNT("range_evaluations");
  ares_channel_lock(ch);
  if (ares_slist_len(ch->servers) == 0 && !servers_may_be_empty) {
    if (strstr(stage, "reinit")) {
      RV("no-server-after-reinit", "re-initialisation from text left an empty server list");
    } else {
      RV("no-server", "initialisation succeeded with an empty server list");
    }
  }
  if (ch->timeout == 0) {
    RV("timeout-zero", "timeout 0");
  }
  if (ch->tries == 0) {
    RV("tries-zero", "tries 0");
  }
  if (!(ch->optmask & ARES_OPT_NDOTS) && ch->ndots > 15) {
    RV("ndots-above-15", "ndots %zu taken from configuration text, documented range 0-15", ch->ndots);
  }
  if (ch->lookups == NULL || ch->lookups[0] == 0) {
    if (!(ch->optmask & ARES_OPT_LOOKUPS)) {
      RV("lookups-empty", "lookups empty");
    }
  } else if (!(ch->optmask & ARES_OPT_LOOKUPS)) {
    int nb = 0, nf = 0;
    for (i = 0; ch->lookups[i]; i++) {
      if (ch->lookups[i] == 'b') {
        nb++;
      } else if (ch->lookups[i] == 'f') {
        nf++;
      } else {
        RV("lookups-charset", "lookups \"%s\"", ch->lookups);
        break;
      }
    }
    if (nb > 1 || nf > 1) {
      RV("lookups-duplicate", "lookups \"%s\"", ch->lookups);
    }
  }
  for (i = 0; i < ch->nsort; i++) {
    int fam = ch->sortlist[i].addr.family;
    if (fam != AF_INET && fam != AF_INET6) {
      RV("sortlist-family", "sortlist[%zu] family %d", i, fam);
    } else if (ch->sortlist[i].mask > (fam == AF_INET ? 32 : 128)) {
      RV("sortlist-mask", "sortlist[%zu] mask %u family %d", i, (unsigned)ch->sortlist[i].mask, fam);
    }
  }
  if (ch->nsort && ch->sortlist == NULL) {
    RV("sortlist-null", "nsort %zu with NULL sortlist", ch->nsort);
  }
  for (i = 0; i < ch->ndomains; i++) {
    if (ch->domains == NULL || ch->domains[i] == NULL || ch->domains[i][0] == 0) {
      RV("domain-empty", "domains[%zu] empty", i);
    }
  }
  for (node = ares_slist_node_first(ch->servers); node != NULL; node = ares_slist_node_next(node)) {
    const ares_server_t *s = ares_slist_node_val(node);
    if (s->addr.family != AF_INET && s->addr.family != AF_INET6) {
      RV("server-family", "server family %d", s->addr.family);
      continue;
    }
    if (s->udp_port == 0 || s->tcp_port == 0) {
      RV("server-port-zero", "server udp %u tcp %u", (unsigned)s->udp_port, (unsigned)s->tcp_port);
    }
    if (cfg_is_ll(&s->addr)) {
      if (s->ll_iface[0] == 0 || s->ll_scope == 0) {
        RV("linklocal-without-iface", "link-local server iface \"%s\" scope %u", s->ll_iface,
           s->ll_scope);
      }
    } else if (s->ll_iface[0] != 0) {
      RV("iface-on-non-linklocal", "iface \"%s\" on a non link-local server", s->ll_iface);
    }
    if (s->addr.family == AF_INET6) {
      const unsigned char *p = (const unsigned char *)&s->addr.addr.addr6;
      if (p[0] == 0xfe && (p[1] & 0xc0) == 0xc0) {
        RV("blacklisted-server", "fec0::/10 server configured");
      }
    }
  }
  if (ch->ednspsz == 0) {
    RV("ednspsz-zero", "ednspsz 0");
  }
  ares_channel_unlock(ch);
  free(w);
#undef RV
}

/* ------------------------------------------------------------------ lookups without network */
typedef struct {
  int calls;
  int status;
} cfg_cb_t;

static void cfg_host_cb(void *arg, int status, int timeouts, struct hostent *he)
{
  cfg_cb_t *c = (cfg_cb_t *)arg;
  (void)timeouts;
  (void)he;
  c->calls++;
  c->status = status;
}
static void cfg_ai_cb(void *arg, int status, int timeouts, struct ares_addrinfo *ai)
{
  cfg_cb_t *c = (cfg_cb_t *)arg;
  (void)timeouts;
  c->calls++;
  c->status = status;
  if (ai) {
    ares_freeaddrinfo(ai);
  }
}
static void cfg_search_cb(void *arg, int status, int timeouts, unsigned char *abuf, int alen)
{
  cfg_cb_t *c = (cfg_cb_t *)arg;
  (void)timeouts;
  (void)abuf;
  (void)alen;
  c->calls++;
  c->status = status;
}

static void render_hostent(vh_sb_t *sb, int rc, struct hostent *he)
{
  int i;
  vh_sb_printf(sb, "%d", rc);
  if (he == NULL) {
    return;
  }
  vh_sb_printf(sb, ":%s", he->h_name ? he->h_name : "<null>");
  for (i = 0; he->h_aliases && he->h_aliases[i]; i++) {
    vh_sb_printf(sb, ",%s", he->h_aliases[i]);
  }
  vh_sb_printf(sb, "/");
  for (i = 0; he->h_addr_list && he->h_addr_list[i]; i++) {
    char buf[INET6_ADDRSTRLEN + 1] = "?";
    ares_inet_ntop(he->h_addrtype, he->h_addr_list[i], buf, sizeof(buf));
    vh_sb_printf(sb, "%s,", buf);
  }
}

/* results of hosts-file lookups for every name and address of nm, as canonical text */
static char *render_hosts_lookups(ares_channel_t *ch, const cfg_names_t *nm)
{
  vh_sb_t sb = { 0 };
  int     i, f;
  for (i = 0; i < nm->n; i++) {
    static const int fams[] = { AF_INET, AF_INET6, AF_UNSPEC };
    vh_sb_printf(&sb, "%s=>", nm->names[i]);
    for (f = 0; f < 3; f++) {
      struct hostent *he = NULL;
      int             rc = ares_gethostbyname_file(ch, nm->names[i], fams[f], &he);
      render_hostent(&sb, rc, he);
      vh_sb_printf(&sb, f < 2 ? "|" : ";");
      if (he) {
        ares_free_hostent(he);
      }
      CNT("hosts_lookups");
    }
  }
  for (i = 0; i < nm->nip; i++) {
    const ares_hosts_entry_t *entry = NULL;
    ares_status_t             st;
    ares_channel_lock(ch);
    st = ares_hosts_search_ipaddr(ch, ARES_FALSE, nm->ips[i], &entry);
    vh_sb_printf(&sb, "%s=>", nm->ips[i]);
    if (st == ARES_SUCCESS && entry) {
      struct hostent *he = NULL;
      ares_status_t   s2 = ares_hosts_entry_to_hostent(entry, AF_UNSPEC, &he);
      render_hostent(&sb, (int)s2, he);
      if (he) {
        ares_free_hostent(he);
      }
    } else {
      vh_sb_printf(&sb, "%d", (int)st);
    }
    ares_channel_unlock(ch);
    vh_sb_printf(&sb, ";");
    CNT("hosts_lookups");
  }
  return cfg_sb_take(&sb);
}

static char *render_alias_lookups(ares_channel_t *ch, const cfg_names_t *nm)
{
  vh_sb_t sb = { 0 };
  int     i;
  for (i = 0; i < nm->n; i++) {
    char         *alias = NULL;
    ares_status_t st    = ares_lookup_hostaliases(ch, nm->names[i], &alias);
    vh_sb_printf(&sb, "%s=>%d:%s;", nm->names[i], (int)st, alias ? alias : "");
    ares_free(alias);
    CNT("alias_lookups");
  }
  return cfg_sb_take(&sb);
}

#endif
