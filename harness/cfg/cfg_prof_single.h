/* cfg_prof_single.h - profile `single` (C15, absolute oracle): a source made of one to three valid
 * directives that each govern a different setting; the generator knows what every directive
 * means (documented in ares_sysconfig_files.c / ares_init_options.3 / resolv.conf(5)), so the
 * oracle does not need a twin: the governed setting must have the directive's value after
 * creation AND after an awaited ares_reinit() of the unchanged sources, and settings no directive
 * mentions keep their documented default.  This is the part of "valid directives take effect"
 * the metamorphic profile cannot see (a directive ignored with and without junk). */
#ifndef CFG_PROF_SINGLE_H
#define CFG_PROF_SINGLE_H

enum {
  SG_NDOTS = 0,
  SG_TIMEOUT,
  SG_TRIES,
  SG_ROTATE,
  SG_USEVC,
  SG_SERVERS,
  SG_DOMAINS,
  SG_LOOKUPS,
  SG_SORTLIST,
  SG_N
};
static const char *const sg_field[SG_N] = { "i.ndots",   "i.timeout", "i.tries",   "i.rotate",  "i.flags",
                                            "i.servers", "i.domains", "i.lookups", "i.sortlist" };
static const char *const sg_name[SG_N]  = { "ndots",   "timeout", "attempts", "rotate",  "use-vc",
                                            "nameserver", "search",  "lookup",  "sortlist" };

typedef struct {
  int      used[SG_N];
  char     expect[SG_N][2400];
  int      via[SG_N]; /* 0 resolv.conf, 1 RES_OPTIONS, 2 LOCALDOMAIN, 3 nsswitch, 4 netsvc, 5 svc */
  cfg_bb_t resolv, resopt;
  int      last_was_options; /* the last line of resolv is an options line */
  /* hosts file and alias file entries: what a lookup of each name must give */
  int      nhosts, naliases;
  struct {
    char name[40], canon[40], ip[48];
    int  family;
  } hosts[8];
  struct {
    char alias[40], target[60];
  } aliases[4];
} sg_plan_t;

static const struct {
  const char *text, *eff;
} sg_sortforms[] = {
  { "130.155.160.0/255.255.240.0", "4:130.155.160.0/20;" },
  { "130.155.0.0", "4:130.155.0.0/16;" },
  { "10.0.0.0/8", "4:10.0.0.0/8;" },
  { "192.168.5.0/24", "4:192.168.5.0/24;" },
  { "192.0.2.77/32", "4:192.0.2.77/32;" },
  { "2001:db8::/32", "6:2001:db8::/32;" },
  { "fd00:1::/64", "6:fd00:1::/64;" },
};
#define SG_NSORTFORMS ((int)(sizeof(sg_sortforms) / sizeof(sg_sortforms[0])))

static void sg_ws(vh_rng_t *r, cfg_bb_t *bb)
{
  int n = vh_range(r, 1, 2);
  while (n-- > 0) {
    cfg_bb_ch(bb, vh_chance(r, 3, 4) ? ' ' : '\t');
  }
}

/* one option word, into resolv.conf ("options <w>") or RES_OPTIONS */
static void sg_option(vh_rng_t *r, sg_plan_t *p, int kind, const char *word, const char *other)
{
  int env = vh_chance(r, 1, 3);
  if (env) {
    if (p->resopt.len) {
      cfg_bb_ch(&p->resopt, vh_chance(r, 3, 4) ? ' ' : '\t');
    }
    cfg_bb_str(&p->resopt, word);
    p->via[kind] = 1;
    if (other != NULL && vh_chance(r, 1, 2)) {
      /* resolv.conf(5): the variable overrides what the file says for the same option */
      cfg_bb_str(&p->resolv, "options ");
      cfg_bb_str(&p->resolv, other);
      cfg_bb_str(&p->resolv, "\n");
      p->last_was_options = 0;
    }
  } else if (p->last_was_options && vh_chance(r, 1, 2)) {
    /* several option words on one line, separated by spaces or tabs */
    p->resolv.len--; /* the '\n' */
    sg_ws(r, &p->resolv);
    cfg_bb_str(&p->resolv, word);
    cfg_bb_str(&p->resolv, "\n");
    p->via[kind] = 0;
  } else {
    if (vh_chance(r, 1, 4)) {
      sg_ws(r, &p->resolv);
    }
    cfg_bb_str(&p->resolv, "options");
    sg_ws(r, &p->resolv);
    cfg_bb_str(&p->resolv, word);
    if (vh_chance(r, 1, 5)) {
      sg_ws(r, &p->resolv); /* trailing blanks */
    }
    cfg_bb_str(&p->resolv, "\n");
    p->via[kind]        = 0;
    p->last_was_options = 1;
  }
}

static void sg_add(vh_rng_t *r, sg_plan_t *p, cfg_sys_t *sys, int kind)
{
  char   word[200], other[60];
  size_t len0 = p->resolv.len;
  p->used[kind] = 1;
  switch (kind) {
    case SG_NDOTS: {
      int n = vh_range(r, 0, 15);
      snprintf(word, sizeof(word), "ndots:%d", n);
      snprintf(other, sizeof(other), "ndots:%d", (n + 3) % 16);
      snprintf(p->expect[kind], sizeof(p->expect[kind]), "%d", n);
      sg_option(r, p, kind, word, other);
      break;
    }
    case SG_TIMEOUT: {
      /* mostly everyday values; now and then one whose millisecond count needs more than 32 bits (a number of up to
       * nine digits is a legal value: a longer wait, never a shorter one) */
      static const int big[] = { 4294967, 4294968, 8589935, 999999999 };
      int              n     = vh_chance(r, 1, 12) ? big[vh_below(r, 4)] : vh_range(r, 1, 30);
      snprintf(word, sizeof(word), "%s:%d", vh_chance(r, 1, 2) ? "timeout" : "retrans", n);
      snprintf(other, sizeof(other), "timeout:%d", n % 30 + 1);
      snprintf(p->expect[kind], sizeof(p->expect[kind]), "%lld", (long long)n * 1000);
      sg_option(r, p, kind, word, other);
      break;
    }
    case SG_TRIES: {
      int n = vh_range(r, 1, 12);
      snprintf(word, sizeof(word), "%s:%d", vh_chance(r, 1, 2) ? "attempts" : "retry", n);
      snprintf(other, sizeof(other), "attempts:%d", n % 12 + 1);
      snprintf(p->expect[kind], sizeof(p->expect[kind]), "%d", n);
      sg_option(r, p, kind, word, other);
      break;
    }
    case SG_ROTATE:
      strcpy(p->expect[kind], "1");
      sg_option(r, p, kind, "rotate", NULL);
      break;
    case SG_USEVC:
      strcpy(p->expect[kind], "0x101");
      sg_option(r, p, kind, vh_chance(r, 1, 2) ? "use-vc" : "usevc", NULL);
      break;
    case SG_SERVERS: {
      /* one to three nameserver lines, all different addresses; every documented spelling */
      static const struct {
        const char *text, *eff;
      } forms[] = {
        { "192.0.2.1", "4:192.0.2.1|u53|t53|%|s0;" },
        { "192.0.2.7:5353", "4:192.0.2.7|u5353|t5353|%|s0;" },
        { "[192.0.2.9]:853", "4:192.0.2.9|u853|t853|%|s0;" },
        { "2001:db8::1", "6:2001:db8::1|u53|t53|%|s0;" },
        { "[2001:db8::2]", "6:2001:db8::2|u53|t53|%|s0;" },
        { "[2001:db8::3]:1153", "6:2001:db8::3|u1153|t1153|%|s0;" },
        { "fe80::1%lo", "6:fe80::1|u53|t53|%lo|s1;" },
        { "fe80::2%eth0", "6:fe80::2|u53|t53|%eth0|s2;" },
        { "[fe80::3]:1234%wlan0", "6:fe80::3|u1234|t1234|%wlan0|s3;" },
        { "fe80::4%2", "6:fe80::4|u53|t53|%eth0|s2;" },
        { "dns://192.0.2.11", "4:192.0.2.11|u53|t53|%|s0;" },
        { "dns://192.0.2.12:5353", "4:192.0.2.12|u5353|t5353|%|s0;" },
        { "dns://[2001:db8::13]:853?tcpport=8053", "6:2001:db8::13|u853|t8053|%|s0;" },
        { "dns://[fe80::14%eth0]", "6:fe80::14|u53|t53|%eth0|s2;" },
        /* link-local without an interface: cannot be used, skipped - wherever it stands, whatever stood before it */
        { "dns://[fe80::15]:53", "" },
        { "fe80::16", "" },
      };
      int    n = vh_range(r, 1, 3), k, taken[3] = { -1, -1, -1 };
      size_t off = 0;
      p->expect[kind][0] = 0;
      for (k = 0; k < n; k++) {
        int f, dup;
        do {
          int q;
          f   = (int)vh_below(r, sizeof(forms) / sizeof(forms[0]));
          dup = 0;
          for (q = 0; q < k; q++) {
            dup |= taken[q] == f;
          }
        } while (dup);
        taken[k] = f;
        if (vh_chance(r, 1, 5)) {
          sg_ws(r, &p->resolv);
        }
        cfg_bb_str(&p->resolv, "nameserver");
        sg_ws(r, &p->resolv);
        cfg_bb_str(&p->resolv, forms[f].text);
        cfg_bb_str(&p->resolv, "\n");
        off += (size_t)snprintf(p->expect[kind] + off, sizeof(p->expect[kind]) - off, "%s", forms[f].eff);
      }
      if (p->expect[kind][0] == 0) {
        snprintf(p->expect[kind], sizeof(p->expect[kind]), "%s", "4:127.0.0.1|u53|t53|%|s0;"); /* none usable: the default */
      }
      p->via[kind] = 0;
      break;
    }
    case SG_DOMAINS: {
      static const char *const doms[] = { "example.com", "corp.example.com", "first.test", "second.test", "local",
                                          "a.b.c.d.e.f" };
      int    how = (int)vh_below(r, 3); /* search / domain / LOCALDOMAIN */
      /* `domain` takes one name; c-ares documents LOCALDOMAIN as a single value as well
       * (test/ares-test-init.cc: "LOCALDOMAIN -> search (single value)") */
      int    n   = how != 0 ? 1 : vh_range(r, 1, 4), k, taken[4] = { -1, -1, -1, -1 };
      if (how == 0 && vh_chance(r, 1, 8)) {
        /* a long list (container platforms write up to 32 domains / 2048 characters): every domain counts */
        int    m = vh_range(r, 10, 32), q;
        size_t eo = 0;
        cfg_bb_t line2 = { 0 };
        p->expect[kind][0] = 0;
        for (q = 0; q < m; q++) {
          char d[80];
          snprintf(d, sizeof(d), "ns%02d.a-rather-long-namespace-name.svc.cluster%d.example", q, q % 3);
          if (q) {
            sg_ws(r, &line2);
          }
          cfg_bb_str(&line2, d);
          eo += (size_t)snprintf(p->expect[kind] + eo, sizeof(p->expect[kind]) - eo, "%s,", d);
        }
        cfg_bb_ch(&line2, 0);
        cfg_bb_str(&p->resolv, "search ");
        cfg_bb_str(&p->resolv, line2.b);
        cfg_bb_str(&p->resolv, "\n");
        cfg_bb_free(&line2);
        p->via[kind]        = 0;
        p->last_was_options = 0;
        break;
      }
      size_t off = 0;
      cfg_bb_t line = { 0 };
      p->expect[kind][0] = 0;
      for (k = 0; k < n; k++) {
        int f, dup;
        do {
          int q;
          f   = (int)vh_below(r, sizeof(doms) / sizeof(doms[0]));
          dup = 0;
          for (q = 0; q < k; q++) {
            dup |= taken[q] == f;
          }
        } while (dup);
        taken[k] = f;
        if (k) {
          sg_ws(r, &line); /* resolv.conf(5): separated by spaces or tabs */
        }
        cfg_bb_str(&line, doms[f]);
        off += (size_t)snprintf(p->expect[kind] + off, sizeof(p->expect[kind]) - off, "%s,", doms[f]);
      }
      cfg_bb_ch(&line, 0);
      if (how == 2) {
        cfg_sys_set_env(sys, CE_LOCALDOMAIN, line.b);
        p->via[kind] = 2;
        if (vh_chance(r, 1, 2)) {
          /* resolv.conf(5): LOCALDOMAIN overrides the search keyword of the file */
          cfg_bb_str(&p->resolv, "search overridden.test other.test\n");
        }
      } else {
        cfg_bb_str(&p->resolv, how == 0 ? "search" : "domain");
        sg_ws(r, &p->resolv);
        cfg_bb_str(&p->resolv, line.b);
        cfg_bb_str(&p->resolv, "\n");
        p->via[kind] = 0;
      }
      cfg_bb_free(&line);
      break;
    }
    case SG_LOOKUPS: {
      int how   = (int)vh_below(r, 4); /* resolv.conf lookup / nsswitch / netsvc / svc */
      int order = (int)vh_below(r, 4); /* fb, bf, f, b */
      static const char *const eff[]   = { "fb", "bf", "f", "b" };
      static const char *const rc[]    = { "file bind", "bind file", "file", "bind" };
      static const char *const nss[]   = { "files dns", "dns files", "files", "dns" };
      static const char *const netsv[] = { "local, bind", "bind, local", "local", "bind" };
      char                     buf[300];
      strcpy(p->expect[kind], eff[order]);
      if (how == 0) {
        cfg_bb_str(&p->resolv, vh_chance(r, 1, 2) ? "lookup" : "hostresorder");
        sg_ws(r, &p->resolv);
        cfg_bb_str(&p->resolv, rc[order]);
        cfg_bb_str(&p->resolv, "\n");
        p->via[kind] = 0;
      } else if (how == 1) {
        static const char *const nss_tab[] = { "files\tdns", "dns\tfiles", "files", "dns" };
        int                      sp        = (int)vh_below(r, 3);
        /* lines as distributions ship them: services this library does not implement and
         * [STATUS=action] items stand between the two it knows */
        static const char *const nss_real[] = { "files mdns4_minimal [NOTFOUND=return] dns myhostname",
                                                "dns [!UNAVAIL=return] files myhostname", "files myhostname",
                                                "mymachines dns" };
        if (vh_chance(r, 1, 4)) {
          snprintf(buf, sizeof(buf), "# /etc/nsswitch.conf\npasswd:         files systemd\nhosts:          %s\nnetworks:       files\n",
                   nss_real[order]);
        } else {
          snprintf(buf, sizeof(buf), "passwd: files\nhosts:%s%s%s\n", sp == 0 ? " " : sp == 1 ? "\t" : "   \t",
                   sp == 1 ? nss_tab[order] : nss[order], sp == 2 ? " \t" : "");
        }
        cfg_sys_set_file(sys, CF_NSSWITCH, buf, strlen(buf));
        p->via[kind] = 3;
      } else {
        static const char *const netsv2[] = { "local,bind", "bind,local", "local", "bind" };
        static const char *const netsv3[] = { "local , bind", "bind\t,\tlocal", "local", "bind" };
        int                      sp        = (int)vh_below(r, 3);
        snprintf(buf, sizeof(buf), "hosts%s=%s%s\n", sp == 1 ? "" : sp == 0 ? " " : "\t", sp == 1 ? "" : " ",
                 sp == 0 ? netsv[order] : sp == 1 ? netsv2[order] : netsv3[order]);
        cfg_sys_set_file(sys, how == 2 ? CF_NETSVC : CF_SVC, buf, strlen(buf));
        p->via[kind] = how == 2 ? 4 : 5;
      }
      break;
    }
    default: { /* SG_SORTLIST */
      int    n = vh_range(r, 1, 3), k;
      size_t off = 0;
      p->expect[kind][0] = 0;
      cfg_bb_str(&p->resolv, "sortlist");
      for (k = 0; k < n; k++) {
        int f = (int)vh_below(r, SG_NSORTFORMS);
        sg_ws(r, &p->resolv);
        cfg_bb_str(&p->resolv, sg_sortforms[f].text);
        off += (size_t)snprintf(p->expect[kind] + off, sizeof(p->expect[kind]) - off, "%s", sg_sortforms[f].eff);
      }
      cfg_bb_str(&p->resolv, "\n");
      p->via[kind] = 0;
      break;
    }
  }
  if (kind > SG_USEVC && p->resolv.len != len0) {
    p->last_was_options = 0;
  }
}

/* hosts file: one to three lines "address <blanks> name [<blanks> alias]", blanks being spaces or tabs */
static void sg_add_hosts(vh_rng_t *r, sg_plan_t *p, cfg_sys_t *sys)
{
  static const char *const ip4[]   = { "192.0.2.10", "198.51.100.7", "10.1.2.3", "203.0.113.200" };
  static const char *const ip6[]   = { "2001:db8::10", "2001:db8:1::7", "fd00::1:2", "2001:db8::ff" };
  static const char *const names[] = { "alpha", "beta.example.test", "gamma.local", "delta-1", "Epsilon.Example.Test",
                                       "zeta", "eta.example.test", "theta" };
  cfg_bb_t bb = { 0 };
  int      n  = vh_range(r, 1, 3), k, next = (int)vh_below(r, 8);
  for (k = 0; k < n; k++) {
    int         v6    = vh_chance(r, 1, 3);
    const char *ip    = v6 ? ip6[(k + next) % 4] : ip4[(k + next) % 4];
    const char *canon = names[(next + 2 * k) % 8];
    if (vh_chance(r, 1, 6)) {
      sg_ws(r, &bb);
    }
    cfg_bb_str(&bb, ip);
    sg_ws(r, &bb);
    cfg_bb_str(&bb, canon);
    snprintf(p->hosts[p->nhosts].name, sizeof(p->hosts[0].name), "%s", canon);
    snprintf(p->hosts[p->nhosts].canon, sizeof(p->hosts[0].canon), "%s", canon);
    snprintf(p->hosts[p->nhosts].ip, sizeof(p->hosts[0].ip), "%s", ip);
    p->hosts[p->nhosts].family = v6 ? AF_INET6 : AF_INET;
    p->nhosts++;
    if (vh_chance(r, 1, 2)) {
      const char *al = names[(next + 2 * k + 1) % 8];
      sg_ws(r, &bb);
      cfg_bb_str(&bb, al);
      snprintf(p->hosts[p->nhosts].name, sizeof(p->hosts[0].name), "%s", al);
      snprintf(p->hosts[p->nhosts].canon, sizeof(p->hosts[0].canon), "%s", canon);
      snprintf(p->hosts[p->nhosts].ip, sizeof(p->hosts[0].ip), "%s", ip);
      p->hosts[p->nhosts].family = v6 ? AF_INET6 : AF_INET;
      p->nhosts++;
    }
    if (vh_chance(r, 1, 6)) {
      sg_ws(r, &bb);
    }
    if (vh_chance(r, 1, 4)) {
      /* hosts(5): text from a '#' to the end of the line is a comment - with or without a blank in front of it */
      static const char *const cm[] = { " # 192.0.2.99 commented.out", "\t#comment", "#the main server", "#" };
      cfg_bb_str(&bb, cm[vh_below(r, 4)]);
    }
    cfg_bb_str(&bb, "\n");
    if (vh_chance(r, 1, 6)) {
      cfg_bb_str(&bb, vh_chance(r, 1, 2) ? "# 192.0.2.98 alpha\n" : "\n");
    }
  }
  if (vh_chance(r, 1, 3) && p->nhosts + 2 <= 8) {
    /* the two lines every stock hosts file has */
    cfg_bb_str(&bb, "127.0.0.1\tlocalhost\n::1     localhost ip6-localhost ip6-loopback\n");
    snprintf(p->hosts[p->nhosts].name, sizeof(p->hosts[0].name), "localhost");
    snprintf(p->hosts[p->nhosts].canon, sizeof(p->hosts[0].canon), "localhost");
    snprintf(p->hosts[p->nhosts].ip, sizeof(p->hosts[0].ip), "127.0.0.1");
    p->hosts[p->nhosts++].family = AF_INET;
    snprintf(p->hosts[p->nhosts].name, sizeof(p->hosts[0].name), "localhost");
    snprintf(p->hosts[p->nhosts].canon, sizeof(p->hosts[0].canon), "localhost");
    snprintf(p->hosts[p->nhosts].ip, sizeof(p->hosts[0].ip), "::1");
    p->hosts[p->nhosts++].family = AF_INET6;
  }
  cfg_sys_set_file(sys, CF_HOSTS, bb.b, bb.len);
  cfg_bb_free(&bb);
}

/* host-aliases file: "alias <blanks> target" (hostname(7)) */
static void sg_add_aliases(vh_rng_t *r, sg_plan_t *p, cfg_sys_t *sys)
{
  static const char *const al[] = { "www", "mail", "db", "Intranet" };
  static const char *const tg[] = { "www.example.test", "mx1.mail.example.test", "db.internal.", "portal.corp.example.test" };
  cfg_bb_t bb = { 0 };
  int      n  = vh_range(r, 1, 3), k, first = (int)vh_below(r, 4);
  for (k = 0; k < n; k++) {
    const char *a = al[(first + k) % 4], *t = tg[(first + k) % 4];
    cfg_bb_str(&bb, a);
    sg_ws(r, &bb);
    cfg_bb_str(&bb, t);
    if (vh_chance(r, 1, 6)) {
      sg_ws(r, &bb);
    }
    cfg_bb_str(&bb, "\n");
    snprintf(p->aliases[p->naliases].alias, sizeof(p->aliases[0].alias), "%s", a);
    snprintf(p->aliases[p->naliases].target, sizeof(p->aliases[0].target), "%s", t);
    p->naliases++;
  }
  cfg_sys_set_file(sys, CF_ALIASES, bb.b, bb.len);
  cfg_sys_set_env(sys, CE_HOSTALIASES, cfg_path[CF_ALIASES]);
  cfg_bb_free(&bb);
}

static int sg_check_lookups(const sg_plan_t *p, ares_channel_t *ch, const char *stage, const cfg_sys_t *sys)
{
  int k, nv = 0;
  for (k = 0; k < p->nhosts; k++) {
    struct hostent *he = NULL;
    int             rc = ares_gethostbyname_file(ch, p->hosts[k].name, p->hosts[k].family, &he);
    char            got[64] = "-";
    CNT("single_hosts_evaluations");
    if (rc == ARES_SUCCESS && he && he->h_addr_list && he->h_addr_list[0]) {
      ares_inet_ntop(he->h_addrtype, he->h_addr_list[0], got, sizeof(got));
    }
    if (rc == ARES_SUCCESS && he && he->h_addr_list && he->h_addr_list[0] && he->h_addr_list[1] != NULL) {
      /* every name of the generated file stands on one line of its family: one address */
      int   na = 0;
      char *w  = cfg_witness(sys);
      char  key[120];
      while (he->h_addr_list[na]) {
        na++;
      }
      snprintf(key, sizeof(key), "cfg15:single:hosts:address-count:%s", stage);
      vh_violation(key, "hosts lookup of %s (family %d) returned %d addresses, the file has one line for it | %.900s",
                   p->hosts[k].name, p->hosts[k].family, na, w);
      free(w);
      nv++;
    } else if (rc != ARES_SUCCESS || strcmp(got, p->hosts[k].ip) != 0 || he->h_name == NULL ||
        strcasecmp(he->h_name, p->hosts[k].canon) != 0) {
      char  key[120];
      char *w = cfg_witness(sys);
      snprintf(key, sizeof(key), "cfg15:single:hosts:%s:%s",
               rc != ARES_SUCCESS ? "not-found" : strcmp(got, p->hosts[k].ip) ? "address" : "name", stage);
      vh_violation(key, "hosts lookup of %s: rc=%d address %s name %s, the file says %s (%s) | %.900s", p->hosts[k].name,
                   rc, got, he && he->h_name ? he->h_name : "-", p->hosts[k].ip, p->hosts[k].canon, w);
      free(w);
      nv++;
    }
    if (he) {
      ares_free_hostent(he);
    }
  }
  for (k = 0; k < p->naliases; k++) {
    char         *out = NULL;
    ares_status_t st  = ares_lookup_hostaliases(ch, p->aliases[k].alias, &out);
    CNT("single_alias_evaluations");
    if (st != ARES_SUCCESS || out == NULL || strcmp(out, p->aliases[k].target) != 0) {
      char  key[120];
      char *w = cfg_witness(sys);
      snprintf(key, sizeof(key), "cfg15:single:aliases:%s:%s", st != ARES_SUCCESS ? "not-found" : "target", stage);
      vh_violation(key, "alias %s: status %d target %s, the file says %s | %.900s", p->aliases[k].alias, (int)st,
                   out ? out : "-", p->aliases[k].target, w);
      free(w);
      nv++;
    }
    ares_free(out);
  }
  return nv;
}

static const char *sg_default(int kind)
{
  switch (kind) {
    case SG_NDOTS:
      return "1";
    case SG_TIMEOUT:
      return "2000";
    case SG_TRIES:
      return "3";
    case SG_ROTATE:
      return "0";
    case SG_USEVC:
      return "0x100";
    case SG_SERVERS:
      return "4:127.0.0.1|u53|t53|%|s0;";
    case SG_LOOKUPS:
      return "fb";
    case SG_SORTLIST:
      return "";
    default:
      return NULL; /* default search domains depend on the host name: not asserted */
  }
}

static int sg_check(const sg_plan_t *p, const cfg_eff_t *e, const char *stage, const cfg_sys_t *sys)
{
  static const char *const vianame[] = { "resolv.conf", "RES_OPTIONS", "LOCALDOMAIN", "nsswitch.conf",
                                         "netsvc.conf", "svc.conf" };
  int k, nv = 0;
  for (k = 0; k < SG_N; k++) {
    const char *want = p->used[k] ? p->expect[k] : sg_default(k);
    const char *got  = cfg_eff_get(e, sg_field[k]);
    if (want == NULL) {
      continue;
    }
    CNT(p->used[k] ? "single_directive_evaluations" : "single_default_evaluations");
    if (got == NULL || strcmp(got, want) != 0) {
      char  key[160];
      char *w = cfg_witness(sys);
      if (p->used[k]) {
        snprintf(key, sizeof(key), "cfg15:single:%s:%s:%s", sg_name[k], vianame[p->via[k]], stage);
        vh_violation(key, "%s is %.200s, the %s directive says %.200s | %.900s", sg_field[k], got ? got : "-",
                     sg_name[k], want, w);
      } else {
        snprintf(key, sizeof(key), "cfg15:single:%s:default:%s", sg_name[k], stage);
        vh_violation(key, "%s is %.200s, nothing configures it and the documented default is %.200s | %.900s",
                     sg_field[k], got ? got : "-", want, w);
      }
      free(w);
      nv++;
    }
  }
  return nv;
}

static void prof_single(vh_rng_t *r, const vh_args_t *a)
{
  cfg_sys_t       sys;
  sg_plan_t       p;
  ares_channel_t *ch = NULL;
  cfg_eff_t       e;
  int             n, k, rc, nv = 0;
  (void)a;
  cfg_prop = "cfg15";
  memset(&p, 0, sizeof(p));
  cfg_sys_init(&sys);
  n = vh_range(r, 1, 3);
  for (k = 0; k < n; k++) {
    int kind;
    do {
      kind = (int)vh_below(r, SG_N);
    } while (p.used[kind]);
    sg_add(r, &p, &sys, kind);
    cfg_case_fp = vh_fnv_u64(cfg_case_fp, (uint64_t)(kind * 8 + p.via[kind]));
  }
  if (vh_chance(r, 1, 3)) {
    sg_add_hosts(r, &p, &sys);
    cfg_case_fp = vh_fnv_u64(cfg_case_fp, 1000 + (uint64_t)p.nhosts);
  }
  if (vh_chance(r, 1, 4)) {
    sg_add_aliases(r, &p, &sys);
    cfg_case_fp = vh_fnv_u64(cfg_case_fp, 2000 + (uint64_t)p.naliases);
  }
  if (p.resolv.len) {
    cfg_sys_set_file(&sys, CF_RESOLV, p.resolv.b, p.resolv.len);
  }
  if (p.resopt.len) {
    cfg_bb_ch(&p.resopt, 0);
    cfg_sys_set_env(&sys, CE_RES_OPTIONS, p.resopt.b);
  }
  cfg_sys_apply(&sys);
  cfg_lib_begin();
  rc = cfg_init(&ch, NULL);
  if (rc != ARES_SUCCESS) {
    char *w = cfg_witness(&sys);
    vh_violation("cfg15:single:init-status", "rc=%d for a source of valid directives only | %.900s", rc, w);
    free(w);
  } else {
    cfg_eff_read(ch, &e, 0);
    nv += sg_check(&p, &e, "init", &sys);
    nv += sg_check_lookups(&p, ch, "init", &sys);
    cfg_eff_free(&e);
    if (nv == 0 && vh_chance(r, 1, 3)) {
      /* ares_set_sortlist(3): a space separated list that replaces whatever was configured */
      char   str[300] = "", want[300] = "";
      size_t so = 0, wo = 0;
      int    m = vh_range(r, 1, 4), q, src;
      for (q = 0; q < m; q++) {
        int f = (int)vh_below(r, SG_NSORTFORMS);
        so += (size_t)snprintf(str + so, sizeof(str) - so, "%s%s", q ? (vh_chance(r, 1, 5) ? "  " : " ") : "",
                               sg_sortforms[f].text);
        wo += (size_t)snprintf(want + wo, sizeof(want) - wo, "%s", sg_sortforms[f].eff);
      }
      src = ares_set_sortlist(ch, str);
      cfg_eff_read(ch, &e, 0);
      CNT("single_setter_evaluations");
      if (src != ARES_SUCCESS || strcmp(cfg_eff_get(&e, "i.sortlist"), want) != 0) {
        vh_violation("cfg15:single:set-sortlist", "ares_set_sortlist(\"%s\") rc=%d, sortlist now %.200s, expected %.200s",
                     str, src, cfg_eff_get(&e, "i.sortlist"), want);
        nv++;
      }
      cfg_eff_free(&e);
      /* from here on the sort list is the application's: keep the table entry in step */
      p.used[SG_SORTLIST] = 1;
      snprintf(p.expect[SG_SORTLIST], sizeof(p.expect[SG_SORTLIST]), "%s", want);
      p.via[SG_SORTLIST] = 0;
    }
    if (nv == 0) {
      cfg_reinit_await(ch);
      cfg_eff_read(ch, &e, 0);
      nv += sg_check(&p, &e, "reinit", &sys);
      nv += sg_check_lookups(&p, ch, "reinit", &sys);
      cfg_eff_free(&e);
    }
    ares_destroy(ch);
    cfg_case_nontrivial = 1;
  }
  cfg_lib_end("after ares_destroy + ares_library_cleanup", &sys);
  cfg_bb_free(&p.resolv);
  cfg_bb_free(&p.resopt);
  cfg_sys_free(&sys);
}

#endif
