/* defsock.c - engine E6: the library's OWN socket functions (ares_set_socket_functions.c: default_a*, and the
 * wrappers around a classic ares_set_socket_functions() table with missing members) under a fault plan.
 *
 * Every other engine replaces the socket functions, so the code that creates, configures, binds, connects and
 * closes real descriptors is never run there.  Here the channel keeps the built-in functions; the libc entry
 * points they use are wrapped at link time (--wrap=socket,close,connect,setsockopt,fcntl,bind,getsockname,sendto,
 * send,recvfrom,recv).  The wrappers call the real functions (sockets towards 127.0.0.1 / ::1 ports nobody
 * listens on work without any network), keep a ledger of the descriptors handed to the library, and make the
 * k-th call of one function fail with a chosen errno.
 *
 * One case = one scenario (datagram, stream, local address/device binding, buffer sizes, classic table with
 * holes, address sorting probes) x one fault (function, k, errno) or no fault:
 *   init -> 1-3 requests -> one processing pass -> cancel -> destroy.
 * Oracle (property C10, for the default socket layer): every descriptor obtained through socket() is closed
 * exactly once and none is open after ares_destroy(); nothing is closed twice or closed without having been
 * obtained; every request completes exactly once; ASan/UBSan for the rest.
 */
#include "ares.h"
#include "vh.h"
#include <arpa/inet.h>
#include <errno.h>
#include <fcntl.h>
#include <netinet/in.h>
#include <netinet/tcp.h>
#include <stdarg.h>
#include <sys/socket.h>
#include <sys/stat.h>
#include <sys/uio.h>
#include <unistd.h>

/* ---------------------------------------------------------------- ledger + fault plan */
#define DS_MAXFD 4096
static unsigned char ds_owned[DS_MAXFD];     /* obtained through socket(), not closed yet */
static unsigned char ds_was_closed[DS_MAXFD]; /* closed by the library since it was obtained */
static int           ds_in_lib;              /* only calls made while the library runs are counted */
static int           ds_nsock, ds_nclose;

enum { F_SOCKET = 0, F_FCNTL, F_SETSOCKOPT_NODELAY, F_SETSOCKOPT_OTHER, F_BIND, F_CONNECT, F_GETSOCKNAME, F_SENDTO, F_SEND,
       F_RECV, F__COUNT };
static const char *const ds_fname[F__COUNT] = { "socket", "fcntl", "setsockopt-nodelay", "setsockopt-other", "bind", "connect",
                                                "getsockname", "sendto", "send", "recv" };
static int ds_plan_func = -1, ds_plan_k, ds_plan_errno, ds_plan_fired;
static int ds_calls[F__COUNT];

static int ds_fault(int f)
{
  if (!ds_in_lib) {
    return 0;
  }
  ds_calls[f]++;
  if (f == ds_plan_func && ds_calls[f] == ds_plan_k) {
    ds_plan_fired = 1;
    return ds_plan_errno;
  }
  return 0;
}

int     __real_socket(int, int, int);
int     __real_close(int);
int     __real_connect(int, const struct sockaddr *, socklen_t);
int     __real_setsockopt(int, int, int, const void *, socklen_t);
int     __real_fcntl(int, int, ...);
int     __real_bind(int, const struct sockaddr *, socklen_t);
int     __real_getsockname(int, struct sockaddr *, socklen_t *);
ssize_t __real_sendto(int, const void *, size_t, int, const struct sockaddr *, socklen_t);
ssize_t __real_send(int, const void *, size_t, int);
ssize_t __real_recvfrom(int, void *, size_t, int, struct sockaddr *, socklen_t *);
ssize_t __real_recv(int, void *, size_t, int);

int __wrap_socket(int d, int t, int p)
{
  int e = ds_fault(F_SOCKET), fd;
  if (e) {
    errno = e;
    return -1;
  }
  fd = __real_socket(d, t, p);
  if (ds_in_lib && fd >= 0 && fd < DS_MAXFD) {
    ds_owned[fd]      = 1;
    ds_was_closed[fd] = 0;
    ds_nsock++;
  }
  return fd;
}

int __wrap_close(int fd)
{
  if (ds_in_lib && fd >= 0 && fd < DS_MAXFD) {
    if (ds_owned[fd]) {
      ds_owned[fd]      = 0;
      ds_was_closed[fd] = 1;
      ds_nclose++;
    } else if (ds_was_closed[fd]) {
      vh_violation("fd:def:closed-twice", "descriptor %d closed a second time", fd);
      return 0; /* do not hit whatever got the number since */
    } else {
      vh_violation("fd:def:closed-not-owned", "close(%d): not a descriptor the library obtained", fd);
      return 0;
    }
  }
  return __real_close(fd);
}

int __wrap_connect(int fd, const struct sockaddr *a, socklen_t l)
{
  int e = ds_fault(F_CONNECT);
  if (e) {
    errno = e;
    return -1;
  }
  return __real_connect(fd, a, l);
}

int __wrap_setsockopt(int fd, int level, int name, const void *v, socklen_t l)
{
  int e = ds_fault((level == IPPROTO_TCP && name == TCP_NODELAY) ? F_SETSOCKOPT_NODELAY : F_SETSOCKOPT_OTHER);
  if (e) {
    errno = e;
    return -1;
  }
  return __real_setsockopt(fd, level, name, v, l);
}

int __wrap_fcntl(int fd, int cmd, ...)
{
  va_list ap;
  long    arg;
  int     e;
  va_start(ap, cmd);
  arg = va_arg(ap, long);
  va_end(ap);
  e = ds_fault(F_FCNTL);
  if (e) {
    errno = e;
    return -1;
  }
  return __real_fcntl(fd, cmd, arg);
}

int __wrap_bind(int fd, const struct sockaddr *a, socklen_t l)
{
  int e = ds_fault(F_BIND);
  if (e) {
    errno = e;
    return -1;
  }
  return __real_bind(fd, a, l);
}

int __wrap_getsockname(int fd, struct sockaddr *a, socklen_t *l)
{
  int e = ds_fault(F_GETSOCKNAME);
  if (e) {
    errno = e;
    return -1;
  }
  return __real_getsockname(fd, a, l);
}

ssize_t __wrap_sendto(int fd, const void *b, size_t n, int fl, const struct sockaddr *a, socklen_t l)
{
  int e = ds_fault(F_SENDTO);
  if (e) {
    errno = e;
    return -1;
  }
  return __real_sendto(fd, b, n, fl, a, l);
}

ssize_t __wrap_send(int fd, const void *b, size_t n, int fl)
{
  int e = ds_fault(F_SEND);
  if (e) {
    errno = e;
    return -1;
  }
  return __real_send(fd, b, n, fl);
}

ssize_t __wrap_recvfrom(int fd, void *b, size_t n, int fl, struct sockaddr *a, socklen_t *l)
{
  int e = ds_fault(F_RECV);
  if (e) {
    errno = e;
    return -1;
  }
  return __real_recvfrom(fd, b, n, fl, a, l);
}

ssize_t __wrap_recv(int fd, void *b, size_t n, int fl)
{
  int e = ds_fault(F_RECV);
  if (e) {
    errno = e;
    return -1;
  }
  return __real_recv(fd, b, n, fl);
}

/* ---------------------------------------------------------------- classic table with holes */
static ares_socket_t cl_socket(int d, int t, int p, void *u)
{
  (void)u;
  return socket(d, t, p);
}
static int cl_close(ares_socket_t s, void *u)
{
  (void)u;
  return close(s);
}
static struct ares_socket_functions ds_classic;

/* ---------------------------------------------------------------- callbacks */
#define DS_MAXREQ 4
static int ds_cb[DS_MAXREQ];
static void ds_cb_rec(void *arg, ares_status_t st, size_t to, const ares_dns_record_t *r)
{
  (void)st;
  (void)to;
  (void)r;
  ds_cb[(intptr_t)arg]++;
}
static void ds_cb_ai(void *arg, int st, int to, struct ares_addrinfo *ai)
{
  (void)st;
  (void)to;
  if (ai) {
    ares_freeaddrinfo(ai);
  }
  ds_cb[(intptr_t)arg]++;
}

#define NSCEN 7
static const char *const ds_scen_name[NSCEN] = { "datagram", "stream", "bind-address", "bind-device", "buffer-sizes",
                                                 "classic-table-with-holes", "address-sort-probes" };
static const int ds_errs[] = { EMFILE, ENOBUFS, EPERM, EACCES, EINVAL, ENETUNREACH, ECONNREFUSED, EINTR, EAGAIN, ENOPROTOOPT };

static void ds_case(uint64_t idx, vh_rng_t *rng, const char *dir)
{
  struct ares_options o;
  ares_channel_t     *ch   = NULL;
  int                 mask = 0, scen = (int)(idx % NSCEN), nreq, i, rc;
  int                 leaked = 0, fd;
  char                hosts[300], rcpath[300];
  static char         sortl[] = "127.0.0.0/8";
  (void)sortl;
  memset(ds_owned, 0, sizeof(ds_owned));
  memset(ds_was_closed, 0, sizeof(ds_was_closed));
  memset(ds_calls, 0, sizeof(ds_calls));
  memset(ds_cb, 0, sizeof(ds_cb));
  ds_nsock = ds_nclose = 0;
  ds_plan_fired        = 0;
  if ((idx / NSCEN) % 8 == 0) {
    ds_plan_func = -1; /* no fault */
  } else {
    ds_plan_func  = (int)vh_below(rng, F__COUNT);
    ds_plan_k     = 1 + (int)vh_below(rng, 6);
    ds_plan_errno = ds_errs[vh_below(rng, sizeof(ds_errs) / sizeof(ds_errs[0]))];
  }
  snprintf(hosts, sizeof(hosts), "%s/hosts", dir);
  snprintf(rcpath, sizeof(rcpath), "%s/resolv.conf", dir);
  memset(&o, 0, sizeof(o));
  o.flags           = (scen == 1 || (scen >= 2 && vh_chance(rng, 1, 3))) ? ARES_FLAG_USEVC : 0;
  o.timeout         = 50;
  o.tries           = 1 + (int)vh_below(rng, 2);
  o.lookups         = (char *)(scen == 6 ? "f" : "b");
  o.hosts_path      = hosts;
  o.resolvconf_path = rcpath;
  mask              = ARES_OPT_FLAGS | ARES_OPT_TIMEOUTMS | ARES_OPT_TRIES | ARES_OPT_LOOKUPS | ARES_OPT_HOSTS_FILE | ARES_OPT_RESOLVCONF;
  if (scen == 4) {
    o.socket_send_buffer_size    = 65536;
    o.socket_receive_buffer_size = 65536;
    mask |= ARES_OPT_SOCK_SNDBUF | ARES_OPT_SOCK_RCVBUF;
  }
  ds_in_lib = 1;
  rc        = ares_init_options(&ch, &o, mask);
  if (rc != ARES_SUCCESS || ch == NULL) {
    ds_in_lib = 0;
    vh_inconclusive("init-failed");
    return;
  }
  ares_set_servers_ports_csv(ch, vh_chance(rng, 1, 2) ? "127.0.0.1:9,[::1]:9" : "[::1]:9,127.0.0.1:9,127.0.0.2:9");
  if (scen == 2) {
    ares_set_local_ip4(ch, 0x7f000001u);
    {
      unsigned char l6[16] = { 0 };
      l6[15]               = 1;
      ares_set_local_ip6(ch, l6);
    }
  }
  if (scen == 3) {
    ares_set_local_dev(ch, vh_chance(rng, 1, 2) ? "lo" : "nosuchdev0");
  }
  if (scen == 5) {
    /* a classic table that only brings socket() and close(): the library fills the holes with its own functions */
    memset(&ds_classic, 0, sizeof(ds_classic));
    ds_classic.asocket = cl_socket;
    ds_classic.aclose  = cl_close;
    if (vh_chance(rng, 1, 2)) {
      ds_classic.asocket = NULL;
    }
    ares_set_socket_functions(ch, &ds_classic, NULL);
  }
  nreq = 1 + (int)vh_below(rng, 3);
  for (i = 0; i < nreq; i++) {
    if (scen == 6) {
      struct ares_addrinfo_hints h;
      memset(&h, 0, sizeof(h));
      h.ai_family = AF_UNSPEC;
      ares_getaddrinfo(ch, i == 0 ? "many.defsock.test" : "few.defsock.test", "80", &h, ds_cb_ai, (void *)(intptr_t)i);
    } else {
      char nm[64];
      snprintf(nm, sizeof(nm), "q%d.defsock.test", i);
      ares_query_dnsrec(ch, nm, ARES_CLASS_IN, i == 1 ? ARES_REC_TYPE_AAAA : ARES_REC_TYPE_A, ds_cb_rec, (void *)(intptr_t)i, NULL);
    }
  }
  /* one pass over whatever is open (connection refusals on the stream sockets, ICMP errors on the datagram ones) */
  {
    ares_fd_events_t ev[64];
    size_t           n = 0;
    for (fd = 0; fd < DS_MAXFD && n < 64; fd++) {
      if (ds_owned[fd]) {
        ev[n].fd     = fd;
        ev[n].events = ARES_FD_EVENT_READ | ARES_FD_EVENT_WRITE;
        n++;
      }
    }
    ares_process_fds(ch, n ? ev : NULL, n, ARES_PROCESS_FLAG_NONE);
  }
  if (vh_chance(rng, 1, 2)) {
    ares_cancel(ch);
  }
  ares_destroy(ch);
  ds_in_lib = 0;
  /* oracle */
  vh_count("rule_def_descriptors_balanced");
  for (fd = 0; fd < DS_MAXFD; fd++) {
    if (ds_owned[fd]) {
      leaked++;
      __real_close(fd);
    }
  }
  if (leaked) {
    char key[96];
    snprintf(key, sizeof(key), "fd:def:leaked:%s%s%s", ds_scen_name[scen], ds_plan_fired ? ":after-failed-" : "",
             ds_plan_fired ? ds_fname[ds_plan_func] : "");
    vh_violation(key, "%d of %d descriptors obtained through socket() are still open after ares_destroy() (scenario %s%s%s, errno %d at call %d)",
                 leaked, ds_nsock, ds_scen_name[scen], ds_plan_fired ? ", failed " : "", ds_plan_fired ? ds_fname[ds_plan_func] : "",
                 ds_plan_fired ? ds_plan_errno : 0, ds_plan_fired ? ds_plan_k : 0);
  }
  for (i = 0; i < nreq; i++) {
    vh_count("rule_def_once");
    if (ds_cb[i] != 1) {
      vh_violation("once:def:callbacks", "request %d got %d callbacks (scenario %s)", i, ds_cb[i], ds_scen_name[scen]);
    }
  }
  {
    char cn[64];
    snprintf(cn, sizeof(cn), "scenario_%s", ds_scen_name[scen]);
    vh_count(cn);
    if (ds_plan_fired) {
      snprintf(cn, sizeof(cn), "fault_fired_%s", ds_fname[ds_plan_func]);
      vh_count(cn);
    }
    vh_count_n("descriptors_obtained", (uint64_t)ds_nsock);
    vh_count_n("descriptors_closed", (uint64_t)ds_nclose);
  }
  if (ds_nsock > 0) {
    vh_count("nontrivial_cases");
    vh_fp_add(vh_fnv_u64(vh_fnv_u64(vh_fnv_u64(VH_FNV_INIT, (uint64_t)scen), (uint64_t)(ds_plan_fired ? ds_plan_func + 1 : 0)),
                         (uint64_t)(ds_plan_fired ? ds_plan_errno * 8 + ds_plan_k : 0) * 4 + (uint64_t)(o.flags & ARES_FLAG_USEVC ? 1 : 0)));
  }
  if (vh_want_sample() && ds_nsock > 0) {
    char sj[300];
    snprintf(sj, sizeof(sj), "{\"idx\":%llu,\"scenario\":\"%s\",\"stream\":%d,\"fault\":\"%s\",\"errno\":%d,\"at_call\":%d,\"descriptors\":%d,\"closed\":%d}",
             (unsigned long long)idx, ds_scen_name[scen], (o.flags & ARES_FLAG_USEVC) ? 1 : 0, ds_plan_fired ? ds_fname[ds_plan_func] : "none",
             ds_plan_fired ? ds_plan_errno : 0, ds_plan_fired ? ds_plan_k : 0, ds_nsock, ds_nclose);
    vh_sample(sj);
  }
}

int main(int argc, char **argv)
{
  vh_args_t a;
  uint64_t  i;
  char      dir[200], path[300];
  FILE     *f;
  vh_parse_args(&a, argc, argv);
  if (strcmp(a.profile, "faults") != 0) {
    fprintf(stderr, "unknown profile %s\n", a.profile);
    return 2;
  }
  snprintf(dir, sizeof(dir), "defsock-%d", (int)getpid());
  mkdir(dir, 0700);
  snprintf(path, sizeof(path), "%s/resolv.conf", dir);
  f = fopen(path, "w");
  if (f) {
    fputs("# defsock\n", f);
    fclose(f);
  }
  snprintf(path, sizeof(path), "%s/hosts", dir);
  f = fopen(path, "w");
  if (f) {
    fputs("127.0.0.1 many.defsock.test\n127.0.0.2 many.defsock.test\n127.0.0.3 many.defsock.test\n::1 many.defsock.test\n"
          "10.255.255.1 many.defsock.test\n127.0.0.9 few.defsock.test\n::1 few.defsock.test\n", f);
    fclose(f);
  }
  ares_library_init(ARES_LIB_INIT_ALL);
  for (i = a.first; i < a.first + a.count; i++) {
    vh_rng_t rng;
    vh_rng_seed(&rng, vh_case_seed(a.seed, a.profile, i));
    vh_case_begin(i);
    ds_case(i, &rng, dir);
  }
  ares_library_cleanup();
  snprintf(path, sizeof(path), "%s/resolv.conf", dir);
  unlink(path);
  snprintf(path, sizeof(path), "%s/hosts", dir);
  unlink(path);
  rmdir(dir);
  vh_chunk_end();
  return 0;
}
